(* Proofs/RawDeBase.v — helpers for Proofs/RawDeProps.v (the consumption theorem of the typed deserializer on a
   captured RawValue text).  Everything here is about the `from_str` reader kind  E = mkEnv RStr TEof cf  and tracks
   only the REMAINING INPUT [rest] of the reader state:

     1. cursor helpers of Proofs/GrammarValueBase.v (stated there for the slice reader) restated for E — the
        functions involved do not look at the reader kind, the statements are convertible;
     2. which syntax-tree node a rendered value starts with ([head_cases]);
     3. "forward" consumption of the scalar scanners on a rendered literal: idents, numbers (parse_integer,
        parse_integer_s, parse_any_number through the recognizer lemmas of GrammarNum / TypedRoundtripF32;
        scan_integer128), strings (parse_str, parse_str_raw);
     4. frames: inversion of [frame] keeping `leave` and `end_seq`/`end_map`, and what end_seq()/end_map() accept;
     5. a cursor that stands on `.`, `e` or `E` makes every continuation of a container fail. *)
From SJ Require Import Base.Bytes Base.Utf8 Base.FloatB Gen.Tables Model.Read Model.Str Model.Num Model.NumF32 Model.Value Model.De
  Model.Ignore Model.Ty Model.DeTyped Spec.Syntax Spec.Denote.
From SJ Require Proofs.GrammarIgnore.
From SJ Require Import Proofs.GrammarStr Proofs.StrEscapeReject Proofs.StrEscapeBytes Proofs.GrammarNum Proofs.TypedInt
  Proofs.TypedRoundtripF32 Proofs.RawDe Proofs.RawAny Proofs.GrammarValueBase.
Require Import Lia ZifyBool ZifyNat ZifyN.
Open Scope N_scope.

Notation val_follow := GrammarIgnore.val_follow.

(* the three bytes on which do_deserialize_i128 / u128 can stop inside a number literal *)
Definition bad3 (b : N) : Prop := b = 46 \/ b = 101 \/ b = 69.

Lemma bad3_not_ws b : bad3 b -> ws_byte b = false.
Proof. intros [->|[->| ->]]; reflexivity. Qed.

Lemma skipws_bad3 b y : bad3 b -> skipws (b :: y) = b :: y.
Proof. intros H. apply skipws_head, bad3_not_ws, H. Qed.

Section Base.
Variable cf : cfg.
Notation E := (mkEnv RStr TEof cf).
Notation ESL := (mkEnv RSlice TEof cf).

Lemma HE : tm E = TEof. Proof. reflexivity. Qed.

(* ------------------------------------------------------------------------------------------ *)
(** * 1. Cursor helpers for the str reader *)

Lemma pw_specE s : exists s1,
  parse_whitespace E s = Ok (hd_error (rest s1), s1) /\ rest s1 = skipws (rest s).
Proof. destruct (pw_spec cf s) as (s1 & H1 & H2 & _). exists s1. split; [exact H1|exact H2]. Qed.

Lemma pw_invE s o s1 : parse_whitespace E s = Ok (o, s1) -> rest s1 = skipws (rest s) /\ o = hd_error (rest s1).
Proof.
  intros H. destruct (pw_specE s) as (s1' & H1 & H2). rewrite H1 in H. injection H as <- <-. auto.
Qed.

Lemma ident_invE ident : forall s s', parse_ident E ident s = Ok s' -> rest s = ident ++ rest s'.
Proof.
  induction ident as [|e ident IH]; intros s s'; cbn [parse_ident].
  - intros [= <-]. reflexivity.
  - unfold next. destruct (rest s) as [|b r] eqn:Hr.
    + cbn. discriminate.
    + cbn [bind]. destruct (b =? e) eqn:Hbe; [|unfold error; discriminate].
      intros H. apply IH in H. cbn [rest] in H. apply N.eqb_eq in Hbe. subst b. cbn [app]. now f_equal.
Qed.

Lemma enter_restE s s2 : enter E s = Ok s2 -> rest s2 = rest s.
Proof. intros H. exact (proj1 (enter_inv cf s s2 H)). Qed.
Lemma leave_restE s s2 : leave E s = Ok s2 -> rest s2 = rest s.
Proof. intros H. exact (proj1 (leave_inv cf s s2 H)). Qed.

Lemma end_seq_invE s s' : end_seq E s = Ok s' -> skipws (rest s) = 93 :: rest s'.
Proof. intros H. exact (proj1 (end_seq_inv cf s s' H)). Qed.
Lemma end_map_invE s s' : end_map E s = Ok s' -> skipws (rest s) = 125 :: rest s'.
Proof. intros H. exact (proj1 (end_map_inv cf s s' H)). Qed.
Lemma colon_invE s s' : parse_object_colon E s = Ok s' -> skipws (rest s) = 58 :: rest s'.
Proof. intros H. exact (proj1 (colon_inv cf s s' H)). Qed.

Lemma hne_invE first s o : has_next_element E first s = Ok o ->
  match o with
  | None => exists r, skipws (rest s) = 93 :: r
  | Some s1 =>
    if first then rest s1 = skipws (rest s)
    else exists r, skipws (rest s) = 44 :: r /\ rest s1 = skipws r
  end.
Proof.
  intros H. pose proof (hne_inv cf first s o H) as G. destruct o as [s1|]; [|exact G]. exact (proj2 (proj2 G)).
Qed.

Lemma hnk_invE first s o : has_next_key E first s = Ok o ->
  match o with
  | None => exists r, skipws (rest s) = 125 :: r
  | Some s1 =>
    exists r1, rest s1 = 34 :: r1 /\
    (if first then skipws (rest s) = 34 :: r1
     else exists r, skipws (rest s) = 44 :: r /\ skipws r = 34 :: r1)
  end.
Proof.
  intros H. pose proof (hnk_inv cf first s o H) as G. destruct o as [s1|]; [|exact G]. exact (proj2 G).
Qed.

Lemma discard_restE s : rest (discard s) = tl (rest s). Proof. reflexivity. Qed.

(* ------------------------------------------------------------------------------------------ *)
(** * 2. The first byte of a rendered value names its node *)

Lemma head_cases c b r : wfb c = true -> render c = b :: r ->
  match c with
  | CNull => b = 110
  | CTrue => b = 116
  | CFalse => b = 102
  | CNum n => (b = 45 /\ nneg n = true /\ r = render_abs n) \/ (is_digit b = true /\ nneg n = false /\ b :: r = render_abs n)
  | CStr _ => b = 34
  | CArr _ _ => b = 91
  | CObj _ _ => b = 123
  end.
Proof.
  intros Hc Hr. destruct c as [| | |n|ps|w es|w ms].
  - cbn in Hr. now injection Hr as <- _.
  - cbn in Hr. now injection Hr as <- _.
  - cbn in Hr. now injection Hr as <- _.
  - cbn [wfb] in Hc. cbn [render] in Hr. rewrite render_num_abs in Hr. destruct (nneg n).
    + left. cbn [app] in Hr. injection Hr as <- <-. auto.
    + right. cbn [app] in Hr. destruct (render_abs_head n Hc) as (d & r' & Hd & Hdig). rewrite Hd in Hr.
      injection Hr as <- <-. rewrite Hd. auto.
  - cbn [render] in Hr. unfold render_str in Hr. now injection Hr as <- _.
  - rewrite render_arr in Hr. now injection Hr as <- _.
  - rewrite render_obj in Hr. now injection Hr as <- _.
Qed.

(* ------------------------------------------------------------------------------------------ *)
(** * 3. Scalars on a rendered literal *)

(* numbers: any recognizer stops right behind the literal *)
Lemma vf_fw n x : val_follow x -> fw n x.
Proof. intros H. apply fw_iff, num_follow_weaken. exact H. Qed.

Lemma recog_rest (P : st -> res (pnum * st)) n x s a s2 :
  (exists o, forall r off p d, fw n r -> fin o (P (mkSt (render_abs n ++ r) off p d)) (pkd r (off + length (render_abs n)) d)) ->
  val_follow x -> rest s = render_abs n ++ x -> P s = Ok (a, s2) -> rest s2 = x.
Proof.
  intros (o & Ho) Hx Hr H. destruct s as [l off p d]. cbn [rest] in Hr. subst l.
  specialize (Ho x off p d (vf_fw n x Hx)). destruct o as [a'|]; cbn [fin] in Ho.
  - rewrite Ho in H. injection H as _ <-. reflexivity.
  - destruct Ho as (i & Ho). rewrite Ho in H. discriminate H.
Qed.

Lemma parse_integer_rest positive n x s a s2 : num_ok n = true -> val_follow x ->
  rest s = render_abs n ++ x -> parse_integer E positive s = Ok (a, s2) -> rest s2 = x.
Proof.
  intros Hn. apply recog_rest. exact (proj1 (parse_integer_recognizer E HE positive) n Hn).
Qed.

Lemma parse_integer_s_rest positive n x s a s2 : num_ok n = true -> val_follow x ->
  rest s = render_abs n ++ x -> parse_integer_s E positive s = Ok (a, s2) -> rest s2 = x.
Proof.
  intros Hn. apply recog_rest. exact (parse_integer_s_recognizes E HE positive n Hn).
Qed.

Lemma parse_any_number_rest positive n x s a s2 : num_ok n = true -> val_follow x ->
  rest s = render_abs n ++ x -> parse_any_number E positive s = Ok (a, s2) -> rest s2 = x.
Proof.
  intros Hn. apply recog_rest. exact (proj1 (parse_any_number_recognizer E HE positive) n Hn).
Qed.

(* scan_integer128 reads the integer part only: it stops in front of the fraction / exponent *)
Lemma scan128_rest n x s buf s2 : num_ok n = true -> val_follow x ->
  rest s = render_abs n ++ x -> scan_integer128 E s = Ok (buf, s2) ->
  rest s2 = fracl (nfrac n) ++ expl (nexp n) ++ x.
Proof.
  intros Hn Hx Hr H. destruct (num_ok_inv n Hn) as (Hint & Hf & Hxp).
  destruct s as [l off p d]. cbn [rest] in Hr. subst l.
  rewrite render_abs_eq in H. rewrite <- !app_assoc in H.
  rewrite (scan_integer128_int E (nint n) (fracl (nfrac n) ++ expl (nexp n) ++ x) off p d HE Hint) in H.
  - injection H as _ <-. reflexivity.
  - destruct (nfrac n) as [f|]; [reflexivity|]. cbn [fracl app].
    destruct (nexp n) as [[[e sg] ds]|].
    + cbn [exp_wf] in Hxp. destruct Hxp as (He & _). cbn [expl app not_digit_next]. unfold is_digit. lia.
    + cbn [expl app]. destruct x as [|c x']; [exact I|]. cbn [not_digit_next]. exact (proj1 Hx).
Qed.

Lemma frac_exp_head n : num_ok n = true -> (nfrac n <> None \/ nexp n <> None) ->
  forall x, exists b y, fracl (nfrac n) ++ expl (nexp n) ++ x = b :: y /\ bad3 b.
Proof.
  intros Hn Hne x. destruct (num_ok_inv n Hn) as (_ & _ & Hxp).
  destruct (nfrac n) as [f|].
  - cbn [fracl app]. exists 46. eexists. split; [reflexivity|]. left. reflexivity.
  - destruct (nexp n) as [[[e sg] ds]|].
    + cbn [fracl expl app]. cbn [exp_wf] in Hxp. destruct Hxp as (He & _). exists e. eexists. split; [reflexivity|].
      unfold bad3. lia.
    + exfalso. destruct Hne as [H|H]; apply H; reflexivity.
Qed.

(* strings *)
Lemma parse_str_rest ps x s b bw s2 : str_ok ps = true ->
  rest s = flat_map render_piece ps ++ 34 :: x -> parse_str E s = Ok (b, bw, s2) -> rest s2 = x.
Proof.
  intros Hok Hr H. destruct s as [l off p d]. cbn [rest] in Hr. subst l.
  unfold parse_str in H. cbn [rk] in H. rewrite slice_loop_str_slice in H.
  pose proof (slice_loop_spec cf (length ps) ps (Nat.le_refl _) _ x off p d Hok (str_fuel_enough ps x off p d)) as G.
  unfold loop_post in G. destruct (str_decode ps) as [out|].
  - rewrite G in H. cbn [bind] in H. injection H as _ _ <-. reflexivity.
  - destruct G as (c & i & G). rewrite G in H. discriminate H.
Qed.

Lemma parse_str_raw_rest ps x s b bw s2 : str_ok ps = true ->
  rest s = flat_map render_piece ps ++ 34 :: x -> parse_str_raw E s = Ok (b, bw, s2) -> rest s2 = x.
Proof.
  intros Hok Hr H. destruct s as [l off p d]. cbn [rest] in Hr. subst l.
  rewrite (parse_str_raw_complete_str cf ps x off p d (str_ok_raw_of_ok ps Hok)) in H.
  injection H as _ _ <-. reflexivity.
Qed.

(* ------------------------------------------------------------------------------------------ *)
(** * 4. Frames *)

Lemma frame_ok_inv {A} endf endst (body : st -> tres (A * st)) s1 a s5 :
  frame E endf endst body s1 = TOk (a, s5) ->
  exists s2 s3 s4, enter E s1 = Ok s2 /\ body (discard s2) = TOk (a, s3) /\ leave E s3 = Ok s4 /\ endf E s4 = Ok s5.
Proof.
  unfold frame. intros H. apply tbind_lift_ok in H as (s2 & Hen & H).
  destruct (body (discard s2)) as [[a' s3]|c i|kk s'| |] eqn:Hb.
  - apply tbind_lift_ok in H as (s4 & Hlv & H). apply tbind_lift_ok in H as (s5' & Hend & H).
    injection H as <- <-. exists s2, s3, s4. auto.
  - discriminate H.
  - apply tbind_lift_ok in H as (s4 & _ & H). discriminate H.
  - discriminate H.
  - discriminate H.
Qed.

(* what is left of an array body when a sequence visitor returns: some (possibly all, possibly none) of the elements *)
Definition SeqRem (x : bytes) (r : bytes) : Prop :=
  exists first wp es, ws_ok wp = true /\ wfb_elems es = true /\ r = seq_text first wp es ++ 93 :: x.

Lemma seq_rem_close x r r' : SeqRem x r -> skipws r = 93 :: r' -> r' = x.
Proof.
  intros (first & wp & es & Hwp & Hes & ->) H. destruct es as [|w1 c w2 es'].
  - cbn [seq_text] in H. rewrite skipws_to in H by (try assumption; reflexivity). now injection H as <-.
  - exfalso. rewrite seq_text_cons in H. cbn [wfb_elems] in Hes.
    apply andb_prop in Hes as [Hes _]. apply andb_prop in Hes as [Hes _]. apply andb_prop in Hes as [Hw1 Hc].
    destruct (render_head c Hc) as (b & rc & Hrc & Hb & Hb93 & _). rewrite Hrc in H. destruct first.
    + rewrite <- !app_assoc in H. cbn [app] in H. rewrite skipws_to in H by assumption. injection H as H _. contradiction.
    + rewrite <- !app_assoc in H. cbn [app] in H. rewrite skipws_to in H by (try assumption; reflexivity). discriminate H.
Qed.

(* ------------------------------------------------------------------------------------------ *)
(** * 5. A cursor on `.` / `e` / `E` blocks every container continuation *)

Lemma stuck_hne b y s o : bad3 b -> rest s = b :: y -> has_next_element E false s = Ok o -> False.
Proof.
  intros Hb Hr H. apply hne_invE in H. rewrite Hr, (skipws_bad3 b y Hb) in H. destruct o as [s1|].
  - destruct H as (r & H & _). injection H as -> _. destruct Hb as [Hb|[Hb|Hb]]; discriminate Hb.
  - destruct H as (r & H). injection H as -> _. destruct Hb as [Hb|[Hb|Hb]]; discriminate Hb.
Qed.

Lemma stuck_hnk b y s o : bad3 b -> rest s = b :: y -> has_next_key E false s = Ok o -> False.
Proof.
  intros Hb Hr H. apply hnk_invE in H. rewrite Hr, (skipws_bad3 b y Hb) in H. destruct o as [s1|].
  - destruct H as (r1 & _ & r & H & _). injection H as -> _. destruct Hb as [Hb|[Hb|Hb]]; discriminate Hb.
  - destruct H as (r & H). injection H as -> _. destruct Hb as [Hb|[Hb|Hb]]; discriminate Hb.
Qed.

Lemma stuck_end_seq b y s s' : bad3 b -> rest s = b :: y -> end_seq E s = Ok s' -> False.
Proof.
  intros Hb Hr H. apply end_seq_invE in H. rewrite Hr, (skipws_bad3 b y Hb) in H. injection H as -> _.
  destruct Hb as [Hb|[Hb|Hb]]; discriminate Hb.
Qed.

Lemma stuck_end_map b y s s' : bad3 b -> rest s = b :: y -> end_map E s = Ok s' -> False.
Proof.
  intros Hb Hr H. apply end_map_invE in H. rewrite Hr, (skipws_bad3 b y Hb) in H. injection H as -> _.
  destruct Hb as [Hb|[Hb|Hb]]; discriminate Hb.
Qed.


(* ------------------------------------------------------------------------------------------ *)
(** * 6. A cursor in front of a rendered value *)

Lemma skipws_render c x : wfb c = true -> skipws (render c ++ x) = render c ++ x.
Proof.
  intros Hc. destruct (render_head c Hc) as (b & rc & Hrc & Hb & _). rewrite Hrc. cbn [app]. now apply skipws_head.
Qed.

Lemma skipws_ws_render w c x : ws_ok w = true -> wfb c = true -> skipws (w ++ render c ++ x) = render c ++ x.
Proof. intros Hw Hc. rewrite skipws_app by exact Hw. now apply skipws_render. Qed.

Lemma pw_on_value s o s1 c x : parse_whitespace E s = Ok (o, s1) -> skipws (rest s) = render c ++ x -> wfb c = true ->
  exists b rc, render c = b :: rc /\ o = Some b /\ rest s1 = b :: rc ++ x /\ rest (discard s1) = rc ++ x.
Proof.
  intros H Hr Hc. apply pw_invE in H as [H1 H2]. rewrite Hr in H1.
  destruct (render_head c Hc) as (b & rc & Hrc & _). exists b, rc. rewrite Hrc in H1. cbn [app] in H1.
  split; [exact Hrc|]. split; [rewrite H2, H1; reflexivity|]. split; [exact H1|].
  rewrite discard_restE, H1. reflexivity.
Qed.

Lemma vf_after w b y : ws_ok w = true -> b = 44 \/ b = 93 \/ b = 125 -> val_follow (w ++ b :: y).
Proof.
  intros Hw Hb. unfold GrammarIgnore.val_follow. destruct w as [|a w]; cbn [app].
  - unfold is_digit. repeat split; lia.
  - unfold ws_ok in Hw. cbn [forallb] in Hw. apply andb_prop in Hw as [Ha _]. unfold ws_byte in Ha. unfold is_digit.
    repeat split; lia.
Qed.

Lemma vf_tail_elems w es x : ws_ok w = true -> val_follow (w ++ tail_elems es ++ 93 :: x).
Proof. intros Hw. destruct es; cbn [tail_elems app]; apply vf_after; auto. Qed.

Lemma vf_tail_members w ms x : ws_ok w = true -> val_follow (w ++ tail_members ms ++ 125 :: x).
Proof. intros Hw. destruct ms; cbn [tail_members app]; apply vf_after; auto. Qed.

(* the skip scanner *)
Lemma ignore_value_rest s s1 c x : ignore_value E s = Ok s1 -> skipws (rest s) = render c ++ x -> wfb c = true ->
  val_follow x -> rest s1 = x.
Proof.
  intros H Hr Hc Hx. destruct (skipws_split (rest s)) as (w & Hw & Hs). rewrite Hr in Hs.
  destruct s as [l off p d]. cbn [rest] in Hs. subst l.
  rewrite (ig_any RStr cf) in H.
  destruct (GrammarIgnore.ignore_value_complete cf w c x off p d Hw Hc Hx) as (p' & G). rewrite G in H.
  injection H as <-. reflexivity.
Qed.

(* scan_integer128 wants a digit first *)
Lemma scan128_digit s buf s2 : scan_integer128 E s = Ok (buf, s2) -> exists b r, rest s = b :: r /\ is_digit b = true.
Proof.
  unfold scan_integer128, next. destruct (rest s) as [|b r].
  - cbn. discriminate.
  - cbn [bind]. intros H. exists b, r. split; [reflexivity|].
    destruct (b =? 48) eqn:H48; [unfold is_digit; lia|].
    destruct (is_digit19 b) eqn:H19; [unfold is_digit19 in H19; unfold is_digit; lia|].
    unfold error in H. discriminate H.
Qed.

End Base.

Print Assumptions scan128_rest.
Print Assumptions parse_str_rest.
