(* Proofs/StrEscape.v — the serializer's string escaping (Model/SerStr.v) and its round trip through the
   string parser (Model/Str.v).

   Part 1  the escape set and the spellings: a 256-sweep over the generated ESCAPE table (escape_shape_sweep),
           lifted to all bytes by forallb_forall.
   Part 2  the bytes written are the rendering of an explicit piece list: escape_concat s = render_str (pieces_of s).
   Part 3  pieces_of s is a well-formed literal whose RFC 8259 text is s  ==>  round trip (slice, reader). *)
From Coq Require Import List NArith ZArith Bool Arith Lia ZifyBool ZifyNat ZifyN.
From SJ Require Import Base.Bytes Base.Utf8 Gen.Tables Model.Read Model.Str Model.SerStr Spec.Syntax.
From SJ Require Import Proofs.GrammarStr Proofs.StrRefine Proofs.Utf8Lemmas.
Import ListNotations.
Open Scope N_scope.

(* ===== Part 1: what is written for one byte ===== *)
(* the property's description of the escaper, independent of the tables *)
Definition needs_escape (b : byte) : bool := (b =? 34) || (b =? 92) || (b <? 32).

Definition hexlow (n : N) : byte := if n <? 10 then 48 + n else 87 + n.      (* 0-9 a-f *)

Definition piece_of (b : byte) : strpiece :=
  if b =? 34 then PEsc 34               (* backslash quote *)
  else if b =? 92 then PEsc 92          (* \\ *)
  else if b <? 32 then
    if b =? 8 then PEsc 98              (* \b *)
    else if b =? 9 then PEsc 116        (* \t *)
    else if b =? 10 then PEsc 110       (* \n *)
    else if b =? 12 then PEsc 102       (* \f *)
    else if b =? 13 then PEsc 114       (* \r *)
    else PU4 48 48 (hexlow (b / 16)) (hexlow (b mod 16))     (* \u00XX, lower-case digits *)
  else PRaw b.

Definition pieces_of (s : bytes) : list strpiece := map piece_of s.

(* the model, one byte: the buffer written for it *)
Definition byte_out (b : byte) : res bytes :=
  let e := escape_of b in
  if e =? 0 then Ok [b] else let* ce := from_escape_table e b in Ok (write_char_escape ce).

Definition res_bytes_eqb (r : res bytes) (l : bytes) : bool :=
  match r with Ok x => beq_bytes x l | _ => false end.

Definition shape_ok (b : byte) : bool :=
  Bool.eqb (negb (escape_of b =? 0)) (needs_escape b) && res_bytes_eqb (byte_out b) (render_piece (piece_of b)).

Definition all_bytes : list N := map N.of_nat (seq 0 256).

(* the sweep: every entry of the generated table is looked at *)
Lemma escape_shape_sweep : forallb shape_ok all_bytes = true.
Proof. vm_compute. reflexivity. Qed.

Lemma in_all_bytes : forall b, b < 256 -> In b all_bytes.
Proof.
  intros b Hb. unfold all_bytes. apply in_map_iff. exists (N.to_nat b).
  split; [apply N2Nat.id|]. apply in_seq. lia.
Qed.

Lemma beq_bytes_eq : forall a b, beq_bytes a b = true -> a = b.
Proof.
  induction a as [|x a IH]; intros [|y b] H; try discriminate H; [reflexivity|].
  cbn [beq_bytes] in H. apply andb_true_iff in H. destruct H as [Hx Hr].
  apply N.eqb_eq in Hx. subst y. rewrite (IH b Hr). reflexivity.
Qed.

Lemma shape_ok_all : forall b, b < 256 -> shape_ok b = true.
Proof.
  intros b Hb. exact (proj1 (forallb_forall shape_ok all_bytes) escape_shape_sweep b (in_all_bytes b Hb)).
Qed.

Lemma byte_out_spec : forall b, b < 256 ->
  (escape_of b =? 0) = negb (needs_escape b) /\ byte_out b = Ok (render_piece (piece_of b)).
Proof.
  intros b Hb. pose proof (shape_ok_all b Hb) as H. unfold shape_ok in H.
  apply andb_true_iff in H. destruct H as [H1 H2]. split.
  - apply eqb_prop in H1. rewrite <- H1, negb_involutive. reflexivity.
  - unfold res_bytes_eqb in H2. destruct (byte_out b) as [x| | |]; try discriminate H2.
    apply beq_bytes_eq in H2. subst x. reflexivity.
Qed.

(* C05_escape_shape, first half: for every byte the serializer escapes it iff it is a quote, a backslash or a control
   character, with exactly these spellings; every other byte is written verbatim *)
Theorem escape_shape : forall b, b < 256 ->
  (escape_of b <> 0 <-> (b = 34 \/ b = 92 \/ b < 32)) /\
  byte_out b = Ok (if b =? 34 then [92; 34]
                   else if b =? 92 then [92; 92]
                   else if b <? 32 then
                     if b =? 8 then [92; 98] else if b =? 9 then [92; 116] else if b =? 10 then [92; 110]
                     else if b =? 12 then [92; 102] else if b =? 13 then [92; 114]
                     else [92; 117; 48; 48; hexlow (b / 16); hexlow (b mod 16)]
                   else [b]).
Proof.
  intros b Hb. destruct (byte_out_spec b Hb) as [H1 H2]. split.
  - unfold needs_escape in H1. destruct (N.eqb_spec (escape_of b) 0) as [He|He]; cbn [negb] in H1; lia.
  - rewrite H2. unfold piece_of.
    repeat match goal with |- context [if ?c then _ else _] => destruct c end; reflexivity.
Qed.

(* ===== Part 2: the whole string ===== *)
Lemma frag_buf_concat : forall rf, concat (frag_buf rf) = rev rf.
Proof.
  intros [|x rf]; [reflexivity|]. unfold frag_buf. cbn [concat]. rewrite app_nil_r, rev_append_rev, app_nil_r. reflexivity.
Qed.

Lemma contents_loop_spec : forall l rf, Forall (fun b => b < 256) l ->
  exists bufs, contents_loop rf l = Ok bufs /\ concat bufs = rev rf ++ flat_map render_piece (pieces_of l).
Proof.
  induction l as [|b r IH]; intros rf HF.
  - exists (frag_buf rf). split; [reflexivity|]. rewrite frag_buf_concat, app_nil_r. reflexivity.
  - inversion HF as [|? ? Hb HF']; subst.
    destruct (byte_out_spec b Hb) as [He Hout]. unfold byte_out in Hout. cbv zeta in Hout.
    cbn [contents_loop]. cbv zeta. unfold pieces_of. cbn [map flat_map]. fold (pieces_of r).
    destruct (escape_of b =? 0) eqn:Hz.
    + injection Hout as Hout. destruct (IH (b :: rf) HF') as (bufs & Hrun & Hcat).
      exists bufs. split; [exact Hrun|]. rewrite Hcat, <- Hout. cbn [rev]. rewrite <- app_assoc. reflexivity.
    + destruct (from_escape_table (escape_of b) b) as [ce| | |]; try discriminate Hout.
      cbn [bind] in Hout |- *. injection Hout as Hout.
      destruct (IH [] HF') as (bufs & Hrun & Hcat). rewrite Hrun. cbn [bind].
      eexists. split; [reflexivity|].
      rewrite concat_app, frag_buf_concat. cbn [concat]. rewrite Hcat, Hout. reflexivity.
Qed.

(* the unreachable!() of from_escape_table is never reached *)
Theorem format_escaped_str_ok : forall s, Forall (fun b => b < 256) s ->
  format_escaped_str s = Ok (escape_str s).
Proof.
  intros s HF. unfold escape_str, format_escaped_str, format_escaped_str_contents.
  destruct (contents_loop_spec s [] HF) as (bufs & Hrun & _). rewrite Hrun. reflexivity.
Qed.

(* C05_escape_shape, second half *)
Theorem escape_concat_spec : forall s, Forall (fun b => b < 256) s ->
  escape_concat s = 34 :: flat_map render_piece (pieces_of s) ++ [34].
Proof.
  intros s HF. unfold escape_concat, escape_str, format_escaped_str, format_escaped_str_contents.
  destruct (contents_loop_spec s [] HF) as (bufs & Hrun & Hcat). rewrite Hrun. cbn [bind concat app].
  rewrite concat_app, Hcat. cbn [concat rev app]. reflexivity.
Qed.

Corollary escape_concat_render : forall s, Forall (fun b => b < 256) s ->
  escape_concat s = render_str (pieces_of s).
Proof. intros s HF. apply escape_concat_spec. exact HF. Qed.

(* the buffers: an opening quote, then non-empty buffers, then a closing quote *)
Lemma contents_loop_nonempty : forall l rf bufs, contents_loop rf l = Ok bufs -> Forall (fun b => b <> []) bufs.
Proof.
  assert (Hfrag : forall rf, Forall (fun b : bytes => b <> []) (frag_buf rf)).
  { intros [|x rf]; [constructor|]. unfold frag_buf. constructor; [|constructor].
    rewrite rev_append_rev, app_nil_r. cbn [rev]. intros H. apply app_eq_nil in H. destruct H as [_ H]. discriminate H. }
  induction l as [|b r IH]; intros rf bufs H.
  - cbn [contents_loop] in H. injection H as <-. apply Hfrag.
  - cbn [contents_loop] in H. cbv zeta in H. destruct (escape_of b =? 0).
    + eapply IH; exact H.
    + destruct (from_escape_table (escape_of b) b) as [ce| | |]; try discriminate H. cbn [bind] in H.
      destruct (contents_loop [] r) as [out| | |] eqn:Hr; try discriminate H. cbn [bind] in H. injection H as <-.
      apply Forall_app. split; [apply Hfrag|]. constructor; [destruct ce; discriminate|]. eapply IH; exact Hr.
Qed.

Theorem escape_str_buffers : forall s, Forall (fun b => b < 256) s ->
  exists mid, escape_str s = [34] :: mid ++ [[34]] /\ Forall (fun b => b <> []) mid.
Proof.
  intros s HF. unfold escape_str, format_escaped_str, format_escaped_str_contents.
  destruct (contents_loop_spec s [] HF) as (bufs & Hrun & _). rewrite Hrun. cbn [bind].
  exists bufs. split; [reflexivity|]. eapply contents_loop_nonempty; exact Hrun.
Qed.

(* ===== Part 3: the written literal is well formed and denotes the string ===== *)
Definition piece_good (b : byte) : bool :=
  match piece_of b with
  | PRaw x => (x =? b) && negb (needs_escape b) && piece_ok (PRaw x)
  | PEsc c => (esc_val c =? b) && esc_letter c && needs_escape b
  | PU4 h1 h2 h3 h4 => (u4_val h1 h2 h3 h4 =? b) && (b <? 128) && piece_ok (PU4 h1 h2 h3 h4) && needs_escape b
  end.

Lemma piece_good_sweep : forallb piece_good all_bytes = true.
Proof. vm_compute. reflexivity. Qed.

Lemma piece_good_all : forall b, b < 256 -> piece_good b = true.
Proof.
  intros b Hb. exact (proj1 (forallb_forall piece_good all_bytes) piece_good_sweep b (in_all_bytes b Hb)).
Qed.

Lemma piece_of_ok : forall b, b < 256 -> piece_ok (piece_of b) = true.
Proof.
  intros b Hb. pose proof (piece_good_all b Hb) as H. unfold piece_good in H.
  destruct (piece_of b) as [x|c|h1 h2 h3 h4]; cbn [piece_ok] in *; lia.
Qed.

Lemma piece_of_raw : forall b, b < 256 ->
  (match piece_of b with PRaw _ => true | _ => false end) = negb (needs_escape b).
Proof.
  intros b Hb. pose proof (piece_good_all b Hb) as H. unfold piece_good in H.
  destruct (piece_of b) as [x|c|h1 h2 h3 h4]; lia.
Qed.

Lemma utf8_encode_ascii : forall n, n < 128 -> utf8_encode n = [n].
Proof. intros n Hn. unfold utf8_encode. destruct (N.ltb_spec n 128); [reflexivity|lia]. Qed.

Lemma piece_of_decode : forall b r, b < 256 ->
  str_decode (piece_of b :: r) = option_map (cons b) (str_decode r).
Proof.
  intros b r Hb. pose proof (piece_good_all b Hb) as H. unfold piece_good in H.
  destruct (piece_of b) as [x|c|h1 h2 h3 h4].
  - rewrite str_decode_raw. replace x with b by lia. reflexivity.
  - rewrite str_decode_esc. replace (esc_val c) with b by lia. reflexivity.
  - rewrite str_decode_u4. cbv zeta.
    assert (Hv : u4_val h1 h2 h3 h4 = b) by lia. assert (Hlt : b < 128) by lia. rewrite Hv.
    replace (is_lo_surr b) with false by (unfold is_lo_surr; lia).
    replace (is_hi_surr b) with false by (unfold is_hi_surr; lia).
    rewrite utf8_encode_ascii by exact Hlt. destruct (str_decode r); reflexivity.
Qed.

Lemma pieces_of_ok : forall s, Forall (fun b => b < 256) s -> str_ok (pieces_of s) = true.
Proof.
  induction s as [|b r IH]; intros HF; [reflexivity|].
  inversion HF as [|? ? Hb HF']; subst. unfold str_ok, pieces_of. cbn [map forallb].
  fold (pieces_of r). fold (str_ok (pieces_of r)). rewrite (IH HF'), piece_of_ok by exact Hb. reflexivity.
Qed.

Lemma pieces_of_decode : forall s, Forall (fun b => b < 256) s -> str_decode (pieces_of s) = Some s.
Proof.
  induction s as [|b r IH]; intros HF; [reflexivity|].
  inversion HF as [|? ? Hb HF']; subst. unfold pieces_of. cbn [map]. fold (pieces_of r).
  rewrite piece_of_decode by exact Hb. rewrite (IH HF'). reflexivity.
Qed.

Lemma pieces_of_text : forall s, utf8_valid s = true -> str_text (pieces_of s) = Some s.
Proof.
  intros s Hv. unfold str_text. rewrite pieces_of_decode by (apply utf8_valid_bytes; exact Hv).
  rewrite Hv. reflexivity.
Qed.

Lemma pieces_of_raw : forall s, Forall (fun b => b < 256) s ->
  forallb (fun p => match p with PRaw _ => true | _ => false end) (pieces_of s)
  = forallb (fun b => negb (needs_escape b)) s.
Proof.
  induction s as [|b r IH]; intros HF; [reflexivity|].
  inversion HF as [|? ? Hb HF']; subst. unfold pieces_of. cbn [map forallb]. fold (pieces_of r).
  rewrite (IH HF'), piece_of_raw by exact Hb. reflexivity.
Qed.

(* ===== the round trip ===== *)
Lemma escape_concat_tl : forall s rst, Forall (fun b => b < 256) s ->
  tl (escape_concat s) ++ rst = flat_map render_piece (pieces_of s) ++ 34 :: rst.
Proof.
  intros s rst HF. rewrite escape_concat_spec by exact HF. cbn [tl]. rewrite <- app_assoc. reflexivity.
Qed.

Lemma escape_concat_tl_len : forall s, Forall (fun b => b < 256) s ->
  length (tl (escape_concat s)) = (length (flat_map render_piece (pieces_of s)) + 1)%nat.
Proof. intros s HF. rewrite escape_concat_spec by exact HF. cbn [tl]. rewrite app_length. reflexivity. Qed.

(* C05_roundtrip (slice input): the serializer's output for any valid UTF-8 string, minus the opening quote the
   deserializer has consumed, followed by anything, parses back to exactly that string; the result is borrowed
   exactly when no character needed escaping; the cursor ends right after the closing quote *)
Theorem roundtrip_slice : forall cf s rst off pk d, utf8_valid s = true ->
  parse_str (mkEnv RSlice TEof cf) (mkSt (tl (escape_concat s) ++ rst) off pk d)
  = Ok (s, forallb (fun b => negb (needs_escape b)) s, mkSt rst (off + length (tl (escape_concat s))) false d).
Proof.
  intros cf s rst o p d Hv. pose proof (utf8_valid_bytes s Hv) as HF.
  rewrite escape_concat_tl, escape_concat_tl_len by exact HF.
  rewrite (parse_str_complete_strong cf (pieces_of s) s rst o p d (pieces_of_ok s HF) (pieces_of_text s Hv)).
  rewrite pieces_of_raw by exact HF. do 2 f_equal. apply st_eq. lia.
Qed.

(* the same through a reader (never borrowed) *)
Theorem roundtrip_io : forall cf s rst off pk d, utf8_valid s = true ->
  parse_str (mkEnv RIo TEof cf) (mkSt (tl (escape_concat s) ++ rst) off pk d)
  = Ok (s, false, mkSt rst (off + length (tl (escape_concat s))) false d).
Proof.
  intros cf s rst o p d Hv.
  pose proof (parse_str_io_slice cf (mkSt (tl (escape_concat s) ++ rst) o p d)) as H.
  rewrite (roundtrip_slice cf s rst o p d Hv) in H. cbn [drop_flag] in H.
  unfold parse_str in H |- *. cbn [rk] in H |- *.
  destruct (io_str_loop _ _ true _) as [[out s1]|c i| |]; cbn [bind drop_flag] in H |- *; try discriminate H.
  destruct (utf8_valid out); cbn [drop_flag] in H; [|discriminate H].
  injection H as -> ->. reflexivity.
Qed.

(* ===== the verdict on any lexically well-formed literal, in one statement ===== *)
Theorem parse_str_decides : forall cf s rst off pk d,
  str_ok s = true ->
  match str_text s with
  | Some b => parse_str (mkEnv RSlice TEof cf) (mkSt (flat_map render_piece s ++ 34 :: rst) off pk d)
              = Ok (b, forallb (fun p => match p with PRaw _ => true | _ => false end) s,
                    mkSt rst (off + length (flat_map render_piece s) + 1) false d)
  | None => exists c i, parse_str (mkEnv RSlice TEof cf) (mkSt (flat_map render_piece s ++ 34 :: rst) off pk d) = Err c i
  end.
Proof.
  intros cf s rst o p d Hok. destruct (str_text s) as [b|] eqn:Ht.
  - apply parse_str_complete_strong; assumption.
  - apply parse_str_rejects; assumption.
Qed.

Print Assumptions escape_shape.
Print Assumptions escape_concat_spec.
Print Assumptions roundtrip_slice.
Print Assumptions roundtrip_io.
