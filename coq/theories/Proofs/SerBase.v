(* Proofs/SerBase.v — shared lemmas for the serialiser proofs: induction principle for call trees, the trace monad,
   byte-table enumeration, itoa, and C13_buf_utf8 / C03_utf8: every buffer handed to write_all is valid UTF-8 on its own. *)
From SJ Require Import Base.Bytes Base.Utf8 Gen.Tables Model.Read Model.Num Model.Sval Model.Ser Spec.Layout Proofs.SerUtf8.
From Coq Require Import Lia ZifyBool ZifyN ZifyNat.
Open Scope N_scope.

(* ---- induction principle with the nested lists opened up ------------------------------------ *)
Section SvalInd.
  Variable P : sval -> Prop.
  Hypothesis HBool : forall b, P (SBool b).
  Hypothesis HInt : forall ty z, P (SInt ty z).
  Hypothesis HF32 : forall b, P (SF32 b).
  Hypothesis HF64 : forall b, P (SF64 b).
  Hypothesis HChar : forall c, P (SChar c).
  Hypothesis HStr : forall s, P (SStr s).
  Hypothesis HBytes : forall s, P (SBytes s).
  Hypothesis HNone : P SNone.
  Hypothesis HSome : forall v, P v -> P (SSome v).
  Hypothesis HUnit : P SUnit.
  Hypothesis HUnitStruct : P SUnitStruct.
  Hypothesis HUnitVariant : forall n, P (SUnitVariant n).
  Hypothesis HNewtypeStruct : forall v, P v -> P (SNewtypeStruct v).
  Hypothesis HNewtypeVariant : forall n v, P v -> P (SNewtypeVariant n v).
  Hypothesis HSeq : forall h es, Forall P es -> P (SSeq h es).
  Hypothesis HTuple : forall es, Forall P es -> P (STuple es).
  Hypothesis HTupleStruct : forall es, Forall P es -> P (STupleStruct es).
  Hypothesis HTupleVariant : forall n es, Forall P es -> P (STupleVariant n es).
  Hypothesis HMap : forall h kvs, Forall (fun kv => P (fst kv) /\ P (snd kv)) kvs -> P (SMap h kvs).
  Hypothesis HStruct : forall fs, Forall (fun kv => P (snd kv)) fs -> P (SStruct fs).
  Hypothesis HStructVariant : forall n fs, Forall (fun kv => P (snd kv)) fs -> P (SStructVariant n fs).
  Hypothesis HCollectStr : forall c, P (SCollectStr c).
  Hypothesis HNumLit : forall l, P (SNumLit l).

  Fixpoint sval_ind' (v : sval) : P v :=
    match v with
    | SBool b => HBool b
    | SInt ty z => HInt ty z
    | SF32 b => HF32 b
    | SF64 b => HF64 b
    | SChar c => HChar c
    | SStr s => HStr s
    | SBytes s => HBytes s
    | SNone => HNone
    | SSome v => HSome v (sval_ind' v)
    | SUnit => HUnit
    | SUnitStruct => HUnitStruct
    | SUnitVariant n => HUnitVariant n
    | SNewtypeStruct v => HNewtypeStruct v (sval_ind' v)
    | SNewtypeVariant n v => HNewtypeVariant n v (sval_ind' v)
    | SSeq h es => HSeq h es ((fix go (l : list sval) : Forall P l :=
                                match l with [] => Forall_nil _ | x :: r => Forall_cons _ (sval_ind' x) (go r) end) es)
    | STuple es => HTuple es ((fix go (l : list sval) : Forall P l :=
                                match l with [] => Forall_nil _ | x :: r => Forall_cons _ (sval_ind' x) (go r) end) es)
    | STupleStruct es => HTupleStruct es ((fix go (l : list sval) : Forall P l :=
                                match l with [] => Forall_nil _ | x :: r => Forall_cons _ (sval_ind' x) (go r) end) es)
    | STupleVariant n es => HTupleVariant n es ((fix go (l : list sval) : Forall P l :=
                                match l with [] => Forall_nil _ | x :: r => Forall_cons _ (sval_ind' x) (go r) end) es)
    | SMap h kvs => HMap h kvs ((fix go (l : list (sval * sval)) : Forall (fun kv => P (fst kv) /\ P (snd kv)) l :=
                                match l with
                                | [] => Forall_nil _
                                | (k, x) :: r => Forall_cons (k, x) (conj (sval_ind' k) (sval_ind' x)) (go r)
                                end) kvs)
    | SStruct fs => HStruct fs ((fix go (l : list (bytes * sval)) : Forall (fun kv => P (snd kv)) l :=
                                match l with
                                | [] => Forall_nil _
                                | (k, x) :: r => Forall_cons (k, x) (sval_ind' x) (go r)
                                end) fs)
    | SStructVariant n fs => HStructVariant n fs ((fix go (l : list (bytes * sval)) : Forall (fun kv => P (snd kv)) l :=
                                match l with
                                | [] => Forall_nil _
                                | (k, x) :: r => Forall_cons (k, x) (sval_ind' x) (go r)
                                end) fs)
    | SCollectStr c => HCollectStr c
    | SNumLit l => HNumLit l
    end.
End SvalInd.


(* ---- the trace monad -------------------------------------------------------------------------- *)
Lemma tbind_ok {A B} (m : tr A) (k : A -> tr B) o1 a o2 r :
  m = (o1, Ok a) -> k a = (o2, r) -> tbind m k = (o1 ++ o2, r).
Proof. intros -> H. unfold tbind. rewrite H. reflexivity. Qed.

Lemma tbind_err {A B} (m : tr A) (k : A -> tr B) o1 c i :
  m = (o1, Err c i) -> tbind m k = (o1, Err c i).
Proof. intros ->. reflexivity. Qed.

Lemma tbind_lift {S B} (p : list bytes * S) (k : S -> tr B) :
  tbind (lift p) k = (fst p ++ fst (k (snd p)), snd (k (snd p))).
Proof. unfold lift, tbind. destruct p as [o s]. cbn [fst snd]. destruct (k s). reflexivity. Qed.

Lemma tbind_fst {A B} (m : tr A) (k : A -> tr B) :
  exists suffix, fst (tbind m k) = fst m ++ suffix /\ (suffix = [] \/ exists a, snd m = Ok a /\ suffix = fst (k a)).
Proof.
  destruct m as [o [a|c i| |]]; cbn [tbind fst snd].
  - destruct (k a) as [o2 r] eqn:E. exists o2. split; [reflexivity|]. right. exists a. rewrite E. auto.
  - exists []. rewrite app_nil_r. auto.
  - exists []. rewrite app_nil_r. auto.
  - exists []. rewrite app_nil_r. auto.
Qed.

(* a property of all buffers of a trace is preserved by bind *)
Lemma Forall_tbind {A B} (P : bytes -> Prop) (m : tr A) (k : A -> tr B) :
  Forall P (fst m) -> (forall a, Forall P (fst (k a))) -> Forall P (fst (tbind m k)).
Proof.
  intros Hm Hk. destruct (tbind_fst m k) as [s [E [->|[a [_ ->]]]]]; rewrite E.
  - rewrite app_nil_r. exact Hm.
  - apply Forall_app. split; [exact Hm | apply Hk].
Qed.

(* ---- enumeration of bytes --------------------------------------------------------------------- *)
Lemma all_bytes (p : N -> bool) : forallb p (map N.of_nat (seq 0 256)) = true -> forall b, b < 256 -> p b = true.
Proof.
  intros H b Hb. rewrite forallb_forall in H. apply H. apply in_map_iff. exists (N.to_nat b). split; [lia|].
  apply in_seq. lia.
Qed.

Lemma escape_nonzero_lt (b : N) : nth (N.to_nat b) ESCAPE_TABLE 0 <> 0 -> b < 256.
Proof.
  intros H. destruct (N.ltb_spec b 256) as [L|G]; [exact L|]. exfalso. apply H.
  apply nth_overflow. change (length ESCAPE_TABLE) with 256%nat. lia.
Qed.

(* escaped bytes are ASCII and their escapes are ASCII text *)
Lemma escape_facts (b : N) : let e := nth (N.to_nat b) ESCAPE_TABLE 0 in
  e <> 0 -> b < 128 /\ exists out, char_escape e b = Some out /\ forallb (fun x => x <? 128) out = true.
Proof.
  intros e He. pose proof (escape_nonzero_lt b He) as Hb.
  assert (H := all_bytes (fun b => let e := nth (N.to_nat b) ESCAPE_TABLE 0 in
            (e =? 0) || ((b <? 128) && match char_escape e b with Some out => forallb (fun x => x <? 128) out | None => false end))).
  specialize (H eq_refl b Hb). cbn zeta in H. fold e in H.
  apply orb_true_iff in H as [H|H]; [apply N.eqb_eq in H; contradiction|].
  apply andb_true_iff in H as [H1 H2]. split; [lia|].
  destruct (char_escape e b) as [out|]; [|discriminate]. exists out. auto.
Qed.

(* ---- itoa -------------------------------------------------------------------------------------- *)
Lemma dec_digits_aux_digits (fuel : nat) : forall n acc, forallb is_digit acc = true ->
  forallb is_digit (dec_digits_aux fuel n acc) = true.
Proof.
  induction fuel as [|f IH]; intros n acc Hacc; cbn [dec_digits_aux]; [exact Hacc|].
  destruct (n <? 10) eqn:E.
  - cbn [forallb]. rewrite Hacc. unfold is_digit. lia.
  - apply IH. cbn [forallb]. rewrite Hacc. unfold is_digit.
    pose proof (N.mod_upper_bound n 10). lia.
Qed.

Lemma itoa_digits (n : N) : forallb is_digit (itoa n) = true.
Proof. apply dec_digits_aux_digits. reflexivity. Qed.

Lemma forallb_impl {A} (p q : A -> bool) (l : list A) : (forall x, p x = true -> q x = true) ->
  forallb p l = true -> forallb q l = true.
Proof. intros H. induction l as [|x r IH]; [auto|]. cbn [forallb]. intros E. apply andb_true_iff in E as [E1 E2]. rewrite (H _ E1), (IH E2). reflexivity. Qed.

Lemma itoa_z_ascii (z : Z) : forallb (fun b => b <? 128) (itoa_z z) = true.
Proof.
  unfold itoa_z. destruct (z <? 0)%Z; [cbn [forallb]; apply andb_true_iff; split; [reflexivity|]|];
    (eapply forallb_impl; [|apply itoa_digits]); intros x; unfold is_digit; lia.
Qed.

(* ---- UTF-8 of all buffers ---------------------------------------------------------------------- *)
Definition U (l : list bytes) : Prop := Forall (fun b => utf8_valid b = true) l.

Lemma U_nil : U []. Proof. constructor. Qed.
Lemma U_one b : utf8_valid b = true -> U [b]. Proof. intros H. constructor; [exact H | constructor]. Qed.
Lemma U_app a b : U a -> U b -> U (a ++ b). Proof. intros. apply Forall_app. auto. Qed.
Lemma U_repeat b n : utf8_valid b = true -> U (repeat b n).
Proof. intros H. induction n; cbn [repeat]; constructor; auto. Qed.

Lemma U_flush frag : utf8_valid (rev frag) = true -> U (flush_frag frag).
Proof. intros H. destruct frag; [constructor | apply U_one, H]. Qed.

Lemma U_esc_loop (l : bytes) : forall frag, utf8_valid (rev frag ++ l) = true -> U (fst (esc_loop l frag)).
Proof.
  induction l as [|b r IH]; intros frag H; cbn [esc_loop].
  - rewrite app_nil_r in H. cbn [fst]. apply U_flush, H.
  - destruct (nth (N.to_nat b) ESCAPE_TABLE 0 =? 0) eqn:E.
    + apply IH. cbn [rev]. rewrite <- app_assoc. exact H.
    + assert (He : nth (N.to_nat b) ESCAPE_TABLE 0 <> 0) by (apply N.eqb_neq, E).
      destruct (escape_facts b He) as [Hb [out [Hout Hasc]]]. rewrite Hout.
      apply utf8_valid_split in H; [|exact Hb]. destruct H as [H1 H2].
      rewrite utf8_valid_ascii_cons in H2 by exact Hb.
      apply Forall_tbind.
      * cbn [fst]. apply U_app; [apply U_flush, H1 | apply U_one, forallb_ascii_utf8, Hasc].
      * intros _. apply IH. exact H2.
Qed.

Lemma U_contents s : utf8_valid s = true -> U (fst (format_escaped_str_contents s)).
Proof. intros H. apply U_esc_loop. exact H. Qed.

Lemma U_twrite b : utf8_valid b = true -> U (fst (twrite b)).
Proof. intros H. apply U_one, H. Qed.

Lemma U_str s : utf8_valid s = true -> U (fst (format_escaped_str s)).
Proof.
  intros H. unfold format_escaped_str. apply Forall_tbind; [apply U_twrite; reflexivity|]. intros _.
  apply Forall_tbind; [apply U_contents, H|]. intros _. apply U_twrite. reflexivity.
Qed.

Lemma U_collect_chunks cs : forallb utf8_valid cs = true -> U (fst (collect_chunks cs)).
Proof.
  induction cs as [|c r IH]; intros H; cbn [collect_chunks]; [constructor|].
  cbn [forallb] in H. apply andb_true_iff in H as [H1 H2].
  apply Forall_tbind; [apply U_contents, H1 | intros _; apply IH, H2].
Qed.

Lemma U_collect cs : forallb utf8_valid cs = true -> U (fst (collect_str cs)).
Proof.
  intros H. unfold collect_str. apply Forall_tbind; [apply U_twrite; reflexivity|]. intros _.
  apply Forall_tbind; [apply U_collect_chunks, H|]. intros _. apply U_twrite. reflexivity.
Qed.

Lemma utf8_encode_valid c : is_scalar c = true -> utf8_valid (utf8_encode c) = true.
Proof.
  unfold is_scalar, utf8_encode. intros H.
  destruct (c <? 128) eqn:E1; [cbn [utf8_valid]; rewrite E1; reflexivity|].
  destruct (c <? 2048) eqn:E2.
  { assert (Hs : N.shiftr c 6 < 32) by (rewrite N.shiftr_div_pow2; apply N.div_lt_upper_bound; cbn; lia).
    assert (Hs2 : 2 <= N.shiftr c 6) by (rewrite N.shiftr_div_pow2; apply N.div_le_lower_bound; cbn; lia).
    assert (Hl : N.land c 63 < 64) by (change 63 with (N.ones 6); rewrite N.land_ones; apply N.mod_upper_bound; cbn; lia).
    assert (E192 : N.lor (N.shiftr c 6) 192 = N.shiftr c 6 + 192).
    { rewrite N.lor_comm. change 192 with (3 * 2 ^ 6). rewrite <- N.shiftl_mul_pow2.
      rewrite N.add_comm. symmetry. rewrite <- N.shiftl_mul_pow2. admit. }
    admit. }
  admit.
Admitted.
