(* Proofs/SerBase.v — shared lemmas for the serialiser proofs: induction principle for call trees, the trace monad,
   byte-table enumeration, itoa, and C13_buf_utf8 / C03_utf8: every buffer handed to write_all is valid UTF-8 on its own. *)
From SJ Require Import Base.Bytes Base.Utf8 Gen.Tables Model.Read Model.Num Model.Sval Model.Ser Spec.Syntax Spec.Layout Proofs.SerUtf8.
From Coq Require Import Lia ZifyBool ZifyN ZifyNat.
Open Scope N_scope.

(* ---- induction principle with the nested lists opened up ------------------------------------ *)
Section SvalInd.
  Variable P : sval -> Prop.
  Hypothesis HBool : forall b, P (SBool b).
  Hypothesis HInt : forall ty z, P (SInt ty z).
  Hypothesis HF32 : forall b, P (SF32 b).
  Hypothesis HF64 : forall b, P (SF64 b).
  Hypothesis HChar : forall c, P (SChar c).
  Hypothesis HStr : forall s, P (SStr s).
  Hypothesis HBytes : forall s, P (SBytes s).
  Hypothesis HNone : P SNone.
  Hypothesis HSome : forall v, P v -> P (SSome v).
  Hypothesis HUnit : P SUnit.
  Hypothesis HUnitStruct : P SUnitStruct.
  Hypothesis HUnitVariant : forall n, P (SUnitVariant n).
  Hypothesis HNewtypeStruct : forall v, P v -> P (SNewtypeStruct v).
  Hypothesis HNewtypeVariant : forall n v, P v -> P (SNewtypeVariant n v).
  Hypothesis HSeq : forall h es, Forall P es -> P (SSeq h es).
  Hypothesis HTuple : forall es, Forall P es -> P (STuple es).
  Hypothesis HTupleStruct : forall es, Forall P es -> P (STupleStruct es).
  Hypothesis HTupleVariant : forall n es, Forall P es -> P (STupleVariant n es).
  Hypothesis HMap : forall h kvs, Forall (fun kv => P (fst kv) /\ P (snd kv)) kvs -> P (SMap h kvs).
  Hypothesis HStruct : forall fs, Forall (fun kv => P (snd kv)) fs -> P (SStruct fs).
  Hypothesis HStructVariant : forall n fs, Forall (fun kv => P (snd kv)) fs -> P (SStructVariant n fs).
  Hypothesis HCollectStr : forall c, P (SCollectStr c).
  Hypothesis HNumLit : forall l, P (SNumLit l).

  Fixpoint sval_ind' (v : sval) : P v :=
    match v with
    | SBool b => HBool b
    | SInt ty z => HInt ty z
    | SF32 b => HF32 b
    | SF64 b => HF64 b
    | SChar c => HChar c
    | SStr s => HStr s
    | SBytes s => HBytes s
    | SNone => HNone
    | SSome v => HSome v (sval_ind' v)
    | SUnit => HUnit
    | SUnitStruct => HUnitStruct
    | SUnitVariant n => HUnitVariant n
    | SNewtypeStruct v => HNewtypeStruct v (sval_ind' v)
    | SNewtypeVariant n v => HNewtypeVariant n v (sval_ind' v)
    | SSeq h es => HSeq h es ((fix go (l : list sval) : Forall P l :=
                                match l with [] => Forall_nil _ | x :: r => Forall_cons _ (sval_ind' x) (go r) end) es)
    | STuple es => HTuple es ((fix go (l : list sval) : Forall P l :=
                                match l with [] => Forall_nil _ | x :: r => Forall_cons _ (sval_ind' x) (go r) end) es)
    | STupleStruct es => HTupleStruct es ((fix go (l : list sval) : Forall P l :=
                                match l with [] => Forall_nil _ | x :: r => Forall_cons _ (sval_ind' x) (go r) end) es)
    | STupleVariant n es => HTupleVariant n es ((fix go (l : list sval) : Forall P l :=
                                match l with [] => Forall_nil _ | x :: r => Forall_cons _ (sval_ind' x) (go r) end) es)
    | SMap h kvs => HMap h kvs ((fix go (l : list (sval * sval)) : Forall (fun kv => P (fst kv) /\ P (snd kv)) l :=
                                match l with
                                | [] => Forall_nil _
                                | (k, x) :: r => Forall_cons (k, x) (conj (sval_ind' k) (sval_ind' x)) (go r)
                                end) kvs)
    | SStruct fs => HStruct fs ((fix go (l : list (bytes * sval)) : Forall (fun kv => P (snd kv)) l :=
                                match l with
                                | [] => Forall_nil _
                                | (k, x) :: r => Forall_cons (k, x) (sval_ind' x) (go r)
                                end) fs)
    | SStructVariant n fs => HStructVariant n fs ((fix go (l : list (bytes * sval)) : Forall (fun kv => P (snd kv)) l :=
                                match l with
                                | [] => Forall_nil _
                                | (k, x) :: r => Forall_cons (k, x) (sval_ind' x) (go r)
                                end) fs)
    | SCollectStr c => HCollectStr c
    | SNumLit l => HNumLit l
    end.
End SvalInd.


(* ---- the trace monad -------------------------------------------------------------------------- *)
Lemma tbind_ok {A B} (m : tr A) (k : A -> tr B) o1 a o2 r :
  m = (o1, Ok a) -> k a = (o2, r) -> tbind m k = (o1 ++ o2, r).
Proof. intros -> H. unfold tbind. rewrite H. reflexivity. Qed.

Lemma tbind_err {A B} (m : tr A) (k : A -> tr B) o1 c i :
  m = (o1, Err c i) -> tbind m k = (o1, Err c i).
Proof. intros ->. reflexivity. Qed.

Lemma tbind_lift {S B} (p : list bytes * S) (k : S -> tr B) :
  tbind (lift p) k = (fst p ++ fst (k (snd p)), snd (k (snd p))).
Proof. unfold lift, tbind. destruct p as [o s]. cbn [fst snd]. destruct (k s). reflexivity. Qed.

Lemma tbind_fst {A B} (m : tr A) (k : A -> tr B) :
  exists suffix, fst (tbind m k) = fst m ++ suffix /\ (suffix = [] \/ exists a, snd m = Ok a /\ suffix = fst (k a)).
Proof.
  destruct m as [o [a|c i| |]]; cbn [tbind fst snd].
  - destruct (k a) as [o2 r] eqn:E. exists o2. split; [reflexivity|]. right. exists a. rewrite E. auto.
  - exists []. rewrite app_nil_r. auto.
  - exists []. rewrite app_nil_r. auto.
  - exists []. rewrite app_nil_r. auto.
Qed.

Lemma tbind_ext {A B} (m : tr A) (k k' : A -> tr B) : (forall a, k a = k' a) -> tbind m k = tbind m k'.
Proof. intros H. destruct m as [o [a|c i| |]]; cbn [tbind]; try reflexivity. rewrite H. reflexivity. Qed.

Lemma tbind_assoc {A B C} (m : tr A) (k : A -> tr B) (k' : B -> tr C) :
  tbind (tbind m k) k' = tbind m (fun a => tbind (k a) k').
Proof.
  destruct m as [o [a|c i| |]]; cbn [tbind]; try reflexivity.
  destruct (k a) as [o2 [b|c i| |]]; cbn [tbind]; try reflexivity.
  destruct (k' b) as [o3 r]. rewrite app_assoc. reflexivity.
Qed.

(* a property of all buffers of a trace is preserved by bind *)
Lemma Forall_tbind {A B} (P : bytes -> Prop) (m : tr A) (k : A -> tr B) :
  Forall P (fst m) -> (forall a, Forall P (fst (k a))) -> Forall P (fst (tbind m k)).
Proof.
  intros Hm Hk. destruct (tbind_fst m k) as [s [E [->|[a [_ ->]]]]]; rewrite E.
  - rewrite app_nil_r. exact Hm.
  - apply Forall_app. split; [exact Hm | apply Hk].
Qed.

(* ---- enumeration of bytes --------------------------------------------------------------------- *)
Lemma all_bytes (p : N -> bool) : forallb p (map N.of_nat (seq 0 256)) = true -> forall b, b < 256 -> p b = true.
Proof.
  intros H b Hb. rewrite forallb_forall in H. apply H. apply in_map_iff. exists (N.to_nat b). split; [lia|].
  apply in_seq. lia.
Qed.

Lemma escape_nonzero_lt (b : N) : nth (N.to_nat b) ESCAPE_TABLE 0 <> 0 -> b < 256.
Proof.
  intros H. destruct (N.ltb_spec b 256) as [L|G]; [exact L|]. exfalso. apply H.
  apply nth_overflow. change (length ESCAPE_TABLE) with 256%nat. lia.
Qed.

(* escaped bytes are ASCII and their escapes are ASCII text *)
Lemma escape_facts (b : N) : let e := nth (N.to_nat b) ESCAPE_TABLE 0 in
  e <> 0 -> b < 128 /\ exists out, char_escape e b = Some out /\ forallb (fun x => x <? 128) out = true.
Proof.
  intros e He. unfold e in *. clear e. pose proof (escape_nonzero_lt b He) as Hb.
  assert (H := all_bytes (fun b => (nth (N.to_nat b) ESCAPE_TABLE 0 =? 0) || ((b <? 128) &&
            match char_escape (nth (N.to_nat b) ESCAPE_TABLE 0) b with Some out => forallb (fun x => x <? 128) out | None => false end))).
  specialize (H eq_refl b Hb). cbn beta in H.
  apply orb_true_iff in H as [H|H]; [apply N.eqb_eq in H; contradiction|].
  apply andb_true_iff in H as [H1 H2]. split; [lia|].
  destruct (char_escape (nth (N.to_nat b) ESCAPE_TABLE 0) b) as [out|]; [|discriminate H2]. exists out. auto.
Qed.

(* ---- itoa -------------------------------------------------------------------------------------- *)
Lemma dec_digits_aux_digits (fuel : nat) : forall n acc, forallb is_digit acc = true ->
  forallb is_digit (dec_digits_aux fuel n acc) = true.
Proof.
  induction fuel as [|f IH]; intros n acc Hacc; cbn [dec_digits_aux]; [exact Hacc|].
  destruct (n <? 10) eqn:E.
  - cbn [forallb]. rewrite Hacc. unfold is_digit. lia.
  - apply IH. cbn [forallb]. rewrite Hacc. unfold is_digit.
    pose proof (N.mod_upper_bound n 10). lia.
Qed.

Lemma itoa_digits (n : N) : forallb is_digit (itoa n) = true.
Proof. apply dec_digits_aux_digits. reflexivity. Qed.

Lemma forallb_impl {A} (p q : A -> bool) (l : list A) : (forall x, p x = true -> q x = true) ->
  forallb p l = true -> forallb q l = true.
Proof. intros H. induction l as [|x r IH]; [auto|]. cbn [forallb]. intros E. apply andb_true_iff in E as [E1 E2]. rewrite (H _ E1), (IH E2). reflexivity. Qed.

Lemma itoa_z_ascii (z : Z) : forallb (fun b => b <? 128) (itoa_z z) = true.
Proof.
  unfold itoa_z. destruct (z <? 0)%Z; [cbn [forallb]; apply andb_true_iff; split; [reflexivity|]|];
    (eapply forallb_impl; [|apply itoa_digits]); intros x; unfold is_digit; lia.
Qed.

(* ---- UTF-8 of all buffers ---------------------------------------------------------------------- *)
Definition U (l : list bytes) : Prop := Forall (fun b => utf8_valid b = true) l.

Lemma U_nil : U []. Proof. constructor. Qed.
Lemma U_one b : utf8_valid b = true -> U [b]. Proof. intros H. constructor; [exact H | constructor]. Qed.
Lemma U_app a b : U a -> U b -> U (a ++ b). Proof. intros. apply Forall_app. auto. Qed.
Lemma U_repeat b n : utf8_valid b = true -> U (repeat b n).
Proof. intros H. induction n; cbn [repeat]; constructor; auto. Qed.

Lemma U_flush frag : utf8_valid (rev frag) = true -> U (flush_frag frag).
Proof. intros H. destruct frag; [constructor | apply U_one, H]. Qed.

Lemma U_esc_loop (l : bytes) : forall frag, utf8_valid (rev frag ++ l) = true -> U (fst (esc_loop l frag)).
Proof.
  induction l as [|b r IH]; intros frag H; cbn [esc_loop].
  - rewrite app_nil_r in H. cbn [fst]. apply U_flush, H.
  - destruct (nth (N.to_nat b) ESCAPE_TABLE 0 =? 0) eqn:E.
    + apply IH. cbn [rev]. rewrite <- app_assoc. exact H.
    + assert (He : nth (N.to_nat b) ESCAPE_TABLE 0 <> 0) by (apply N.eqb_neq, E).
      destruct (escape_facts b He) as [Hb [out [Hout Hasc]]]. rewrite Hout.
      apply utf8_valid_split in H; [|exact Hb]. destruct H as [H1 H2].
      rewrite utf8_valid_ascii_cons in H2 by exact Hb.
      apply Forall_tbind.
      * cbn [fst]. apply U_app; [apply U_flush, H1 | apply U_one, forallb_ascii_utf8, Hasc].
      * intros _. apply IH. exact H2.
Qed.

Lemma U_contents s : utf8_valid s = true -> U (fst (format_escaped_str_contents s)).
Proof. intros H. apply U_esc_loop. exact H. Qed.

Lemma U_twrite b : utf8_valid b = true -> U (fst (twrite b)).
Proof. intros H. apply U_one, H. Qed.

Lemma U_str s : utf8_valid s = true -> U (fst (format_escaped_str s)).
Proof.
  intros H. unfold format_escaped_str. apply Forall_tbind; [apply U_twrite; reflexivity|]. intros _.
  apply Forall_tbind; [apply U_contents, H|]. intros _. apply U_twrite. reflexivity.
Qed.

Lemma U_collect_chunks cs : forallb utf8_valid cs = true -> U (fst (collect_chunks cs)).
Proof.
  induction cs as [|c r IH]; intros H; cbn [collect_chunks]; [constructor|].
  cbn [forallb] in H. apply andb_true_iff in H as [H1 H2].
  apply Forall_tbind; [apply U_contents, H1 | intros _; apply IH, H2].
Qed.

Lemma U_collect cs : forallb utf8_valid cs = true -> U (fst (collect_str cs)).
Proof.
  intros H. unfold collect_str. apply Forall_tbind; [apply U_twrite; reflexivity|]. intros _.
  apply Forall_tbind; [apply U_collect_chunks, H|]. intros _. apply U_twrite. reflexivity.
Qed.

(* ---- number texts ------------------------------------------------------------------------------ *)
Lemma take_digits_app l : fst (take_digits l) ++ snd (take_digits l) = l.
Proof. unfold take_digits. cbn [fst snd]. apply firstn_skipn. Qed.

Lemma numlit_of_text_render t n : numlit_of_text t = Some n -> render_num n = t.
Proof.
  unfold numlit_of_text.
  set (p1 := match t with 45 :: r => (true, r) | _ => (false, t) end).
  assert (E1 : (if fst p1 then [45] else []) ++ snd p1 = t).
  { subst p1. destruct t as [|c r]; [reflexivity|]. destruct (N.eq_dec c 45) as [->|Hne]; [reflexivity|].
    destruct c as [|p]; [reflexivity|]. do 6 (destruct p as [p|p|]; try reflexivity). all: try (exfalso; apply Hne; reflexivity). }
  destruct p1 as [neg t1]. cbn [fst snd] in E1.
  pose proof (take_digits_app t1) as E2. destruct (take_digits t1) as [ip t2]. cbn [fst snd] in E2.
  set (p3 := match t2 with 46 :: r => let '(f, r') := take_digits r in (Some f, r') | _ => (None, t2) end).
  assert (E3 : (match fst p3 with Some f => 46 :: f | None => [] end) ++ snd p3 = t2).
  { subst p3. destruct t2 as [|c r]; [reflexivity|]. destruct (N.eq_dec c 46) as [->|Hne].
    - pose proof (take_digits_app r) as E. destruct (take_digits r) as [f r']. cbn [fst snd] in *. rewrite <- E. reflexivity.
    - destruct c as [|p]; [reflexivity|]. do 6 (destruct p as [p|p|]; try reflexivity). all: try (exfalso; apply Hne; reflexivity). }
  destruct p3 as [fr t3]. cbn [fst snd] in E3.
  set (p4 := match t3 with
             | e :: r => if (e =? 101) || (e =? 69) then
                 let '(sg, r1) := match r with 43 :: r' => (Some 43, r') | 45 :: r' => (Some 45, r') | _ => (None, r) end in
                 let '(ds, r2) := take_digits r1 in (Some (e, sg, ds), r2) else (None, t3)
             | [] => (None, t3) end).
  assert (E4 : (match fst p4 with Some (e, sg, ds) => e :: (match sg with Some c => [c] | None => [] end) ++ ds | None => [] end) ++ snd p4 = t3).
  { subst p4. destruct t3 as [|e r]; [reflexivity|]. destruct ((e =? 101) || (e =? 69)); [|reflexivity].
    set (q := match r with 43 :: r' => (Some 43, r') | 45 :: r' => (Some 45, r') | _ => (None, r) end).
    assert (Eq : (match fst q with Some c => [c] | None => [] end) ++ snd q = r).
    { subst q. destruct r as [|c r']; [reflexivity|].
      destruct (N.eq_dec c 43) as [->|H43]; [reflexivity|]. destruct (N.eq_dec c 45) as [->|H45]; [reflexivity|].
      destruct c as [|p]; [reflexivity|]. do 6 (destruct p as [p|p|]; try reflexivity).
      all: try (exfalso; apply H43; reflexivity). all: try (exfalso; apply H45; reflexivity). }
    destruct q as [sg r1]. cbn [fst snd] in Eq.
    pose proof (take_digits_app r1) as E. destruct (take_digits r1) as [ds r2]. cbn [fst snd] in *.
    rewrite <- Eq, <- E. rewrite <- ?app_assoc. destruct sg; reflexivity. }
  destruct p4 as [ex t4]. cbn [fst snd] in E4.
  destruct t4; [|discriminate]. intros H. inversion H. subst n. clear H.
  unfold render_num. cbn [nneg nint nfrac nexp].
  rewrite <- E1, <- E2, <- E3, <- E4. rewrite app_nil_r.
  destruct ex as [[[e sg] ds]|]; rewrite ?app_nil_r; reflexivity.
Qed.

Lemma forallb_app' {A} (p : A -> bool) (a b : list A) : forallb p a = true -> forallb p b = true -> forallb p (a ++ b) = true.
Proof. intros Ha Hb. rewrite forallb_app, Ha, Hb. reflexivity. Qed.

Definition asciib (l : bytes) : bool := forallb (fun b => b <? 128) l.

Lemma digits_ascii l : forallb is_digit l = true -> asciib l = true.
Proof. apply forallb_impl. intros x. unfold is_digit. lia. Qed.

Lemma int_ok_digits l : int_ok l = true -> forallb is_digit l = true.
Proof.
  unfold int_ok. destruct l as [|d r]; [discriminate|]. intros H.
  assert (H' : (d = 48 /\ r = []) \/ (is_digit19 d && forallb is_digit r = true)).
  { destruct (N.eq_dec d 48) as [->|Hne].
    - destruct r; [left; auto | right; exact H].
    - right. destruct d as [|p]; [exact H|]. do 6 (destruct p as [p|p|]; try exact H). exfalso. apply Hne. reflexivity. }
  destruct H' as [[-> ->]|H']; [reflexivity|].
  apply andb_true_iff in H' as [H1 H2]. cbn [forallb]. rewrite H2. unfold is_digit19 in H1. unfold is_digit. lia.
Qed.

Lemma digits_ok_digits l : digits_ok l = true -> forallb is_digit l = true.
Proof. unfold digits_ok. destruct l; [discriminate | auto]. Qed.

Lemma num_ok_ascii n : num_ok n = true -> asciib (render_num n) = true.
Proof.
  unfold num_ok, render_num. intros H. apply andb_true_iff in H as [H H3]. apply andb_true_iff in H as [H1 H2].
  unfold asciib. apply forallb_app'; [destruct (nneg n); reflexivity|].
  apply forallb_app'; [apply digits_ascii, int_ok_digits, H1|].
  apply forallb_app'.
  - destruct (nfrac n) as [f|]; [|reflexivity]. cbn [forallb]. fold (asciib f). rewrite (digits_ascii _ (digits_ok_digits _ H2)). reflexivity.
  - destruct (nexp n) as [[[e sg] ds]|]; [|reflexivity].
    apply andb_true_iff in H3 as [H3 H5]. apply andb_true_iff in H3 as [H3 H4].
    cbn [forallb]. apply andb_true_iff. split; [lia|].
    apply forallb_app'; [destruct sg as [c|]; [cbn [forallb]; lia | reflexivity]|].
    apply digits_ascii, digits_ok_digits, H5.
Qed.

Lemma number_text_ascii t : number_text_ok t = true -> asciib t = true.
Proof.
  unfold number_text_ok. destruct (numlit_of_text t) as [n|] eqn:E; [|discriminate]. intros H.
  rewrite <- (numlit_of_text_render t n E). apply num_ok_ascii, H.
Qed.

(* ---- C13_buf_utf8 for an arbitrary call tree, either formatter ------------------------------------ *)
Section BufUtf8.
  Variable cf : cfg.
  Variable fmt32 fmt64 : N -> bytes.
  Variable F : formatter.
  Hypothesis Hind : forall ind, F = Pretty ind -> utf8_valid ind = true.
  Hypothesis H32 : forall b, f32_finite_bits b = true -> utf8_valid (fmt32 b) = true.
  Hypothesis H64 : forall b, f64_finite_bits b = true -> utf8_valid (fmt64 b) = true.

  Lemma U_lift {S} (p : list bytes * S) : U (fst p) -> U (fst (lift p)).
  Proof. auto. Qed.

  Lemma U_indent n ind : F = Pretty ind -> U (indent_bufs n ind).
  Proof. intros H. apply U_repeat, (Hind _ H). Qed.

  Lemma U_begin_array st : U (fst (begin_array F st)).
  Proof. unfold begin_array. destruct F; apply U_one; reflexivity. Qed.
  Lemma U_end_array st : U (fst (end_array F st)).
  Proof.
    unfold end_array. destruct F as [|ind] eqn:EF; [apply U_one; reflexivity|]. cbn [fst].
    apply U_app; [|apply U_one; reflexivity]. destruct (hasv st); [|constructor].
    constructor; [reflexivity | apply U_repeat, (Hind ind eq_refl)].
  Qed.
  Lemma U_begin_array_value first st : U (fst (begin_array_value F first st)).
  Proof.
    unfold begin_array_value. destruct F as [|ind] eqn:EF; cbn [fst].
    - destruct first; [constructor | apply U_one; reflexivity].
    - constructor; [destruct first; reflexivity | apply U_repeat, (Hind ind eq_refl)].
  Qed.
  Lemma U_end_array_value st : U (fst (end_array_value F st)).
  Proof. unfold end_array_value. destruct F; constructor. Qed.
  Lemma U_begin_object st : U (fst (begin_object F st)).
  Proof. unfold begin_object. destruct F; apply U_one; reflexivity. Qed.
  Lemma U_end_object st : U (fst (end_object F st)).
  Proof.
    unfold end_object. destruct F as [|ind] eqn:EF; [apply U_one; reflexivity|]. cbn [fst].
    apply U_app; [|apply U_one; reflexivity]. destruct (hasv st); [|constructor].
    constructor; [reflexivity | apply U_repeat, (Hind ind eq_refl)].
  Qed.
  Lemma U_begin_object_key first st : U (fst (begin_object_key F first st)).
  Proof. exact (U_begin_array_value first st). Qed.
  Lemma U_end_object_key st : U (fst (end_object_key F st)).
  Proof. constructor. Qed.
  Lemma U_begin_object_value st : U (fst (begin_object_value F st)).
  Proof. unfold begin_object_value. destruct F; apply U_one; reflexivity. Qed.
  Lemma U_end_object_value st : U (fst (end_object_value F st)).
  Proof. unfold end_object_value. destruct F; constructor. Qed.

  Lemma U_write_int z : U (fst (write_int z)).
  Proof. apply U_twrite, forallb_ascii_utf8, itoa_z_ascii. Qed.
  Lemma U_write_bool b : U (fst (write_bool b)).
  Proof. apply U_twrite. destruct b; reflexivity. Qed.
  Lemma U_write_null : U (fst write_null).
  Proof. apply U_twrite. reflexivity. Qed.
  Lemma U_tret {A} (a : A) : U (fst (tret a)).
  Proof. constructor. Qed.
  Lemma U_tfail {A} c : U (fst (@tfail A c)).
  Proof. constructor. Qed.

  Lemma U_quoted m : U (fst m) -> U (fst (quoted m)).
  Proof.
    intros H. unfold quoted. apply Forall_tbind; [apply U_twrite; reflexivity|]. intros _.
    apply Forall_tbind; [exact H|]. intros _. apply U_twrite. reflexivity.
  Qed.

  Lemma U_byte_array_loop l : forall first st, U (fst (byte_array_loop F l first st)).
  Proof.
    induction l as [|b r IH]; intros first st; cbn [byte_array_loop]; [apply U_tret|].
    apply Forall_tbind; [apply U_lift, U_begin_array_value|]. intros st1.
    apply Forall_tbind; [apply U_write_int|]. intros _.
    apply Forall_tbind; [apply U_lift, U_end_array_value|]. intros st2. apply IH.
  Qed.

  Lemma U_write_byte_array l st : U (fst (write_byte_array F l st)).
  Proof.
    unfold write_byte_array. apply Forall_tbind; [apply U_lift, U_begin_array|]. intros st1.
    apply Forall_tbind; [apply U_byte_array_loop|]. intros st2. apply U_lift, U_end_array.
  Qed.

  Lemma U_open_seq h st : U (fst (open_seq F h st)).
  Proof.
    unfold open_seq. apply Forall_tbind; [apply U_lift, U_begin_array|]. intros st1.
    destruct (is_some0 h); [|apply U_tret]. apply Forall_tbind; [apply U_lift, U_end_array|]. intros; apply U_tret.
  Qed.
  Lemma U_open_map h st : U (fst (open_map F h st)).
  Proof.
    unfold open_map. apply Forall_tbind; [apply U_lift, U_begin_object|]. intros st1.
    destruct (is_some0 h); [|apply U_tret]. apply Forall_tbind; [apply U_lift, U_end_object|]. intros; apply U_tret.
  Qed.
  Lemma U_close_seq cs st : U (fst (close_seq F cs st)).
  Proof. unfold close_seq. destruct cs; [apply U_tret | apply U_lift, U_end_array | apply U_lift, U_end_array]. Qed.
  Lemma U_close_map cs st : U (fst (close_map F cs st)).
  Proof. unfold close_map. destruct cs; [apply U_tret | apply U_lift, U_end_object | apply U_lift, U_end_object]. Qed.
  Lemma U_open_variant name st : utf8_valid name = true -> U (fst (open_variant F name st)).
  Proof.
    intros H. unfold open_variant. apply Forall_tbind; [apply U_lift, U_begin_object|]. intros st1.
    apply Forall_tbind; [apply U_lift, U_begin_object_key|]. intros st2.
    apply Forall_tbind; [apply U_str, H|]. intros _.
    apply Forall_tbind; [apply U_lift, U_end_object_key|]. intros st3. apply U_lift, U_begin_object_value.
  Qed.
  Lemma U_close_variant st : U (fst (close_variant F st)).
  Proof.
    unfold close_variant. apply Forall_tbind; [apply U_lift, U_end_object_value|]. intros st1. apply U_lift, U_end_object.
  Qed.

  Lemma U_ser_elems (ser : sval -> fstate -> tr fstate) es :
    Forall (fun e => forall st, U (fst (ser e st))) es -> forall cs st, U (fst (ser_elems F ser es cs st)).
  Proof.
    induction 1 as [|e r He _ IH]; intros cs st; cbn [ser_elems]; [apply U_tret|].
    apply Forall_tbind; [apply U_lift, U_begin_array_value|]. intros st1.
    apply Forall_tbind; [apply He|]. intros st2.
    apply Forall_tbind; [apply U_lift, U_end_array_value|]. intros st3. apply IH.
  Qed.

  Lemma U_ser_entries {K} (ser : sval -> fstate -> tr fstate) (serkey : K -> tr unit) (l : list (K * sval)) :
    Forall (fun kv => U (fst (serkey (fst kv))) /\ forall st, U (fst (ser (snd kv) st))) l ->
    forall cs st, U (fst (ser_entries F ser serkey l cs st)).
  Proof.
    induction 1 as [|[k v] r [Hk Hv] _ IH]; intros cs st; cbn [ser_entries]; [apply U_tret|]. cbn [fst snd] in *.
    apply Forall_tbind; [apply U_lift, U_begin_object_key|]. intros st1.
    apply Forall_tbind; [exact Hk|]. intros _.
    apply Forall_tbind; [apply U_lift, U_end_object_key|]. intros st2.
    apply Forall_tbind; [apply U_lift, U_begin_object_value|]. intros st3.
    apply Forall_tbind; [apply Hv|]. intros st4.
    apply Forall_tbind; [apply U_lift, U_end_object_value|]. intros st5. apply IH.
  Qed.

  Lemma forallb_Forall {A} (p : A -> bool) (l : list A) : forallb p l = true -> Forall (fun x => p x = true) l.
  Proof. intros H. apply Forall_forall. apply forallb_forall. exact H. Qed.

  Lemma U_key_ser : forall k, wfs k = true -> U (fst (key_ser fmt32 fmt64 k)).
  Proof.
    induction k using sval_ind'; intros W; cbn [key_ser]; cbn [wfs] in W; try apply U_tfail.
    - apply U_quoted, U_write_bool.
    - apply U_quoted, U_write_int.
    - destruct (f32_finite_bits b) eqn:E; [|apply U_tfail]. apply U_quoted, U_twrite, H32, E.
    - destruct (f64_finite_bits b) eqn:E; [|apply U_tfail]. apply U_quoted, U_twrite, H64, E.
    - apply U_str, utf8_encode_valid, W.
    - apply U_str, W.
    - apply IHk, W.
    - apply U_str, W.
    - apply IHk, W.
    - apply U_collect, W.
  Qed.

  Theorem ser_bufs_utf8 : forall v, wfs v = true -> forall st, U (fst (ser cf fmt32 fmt64 F v st)).
  Proof.
    induction v using sval_ind'; intros W st; cbn [ser]; cbn [wfs] in W.
    - apply Forall_tbind; [apply U_write_bool | intros; apply U_tret].
    - apply Forall_tbind; [apply U_write_int | intros; apply U_tret].
    - apply Forall_tbind; [|intros; apply U_tret].
      destruct (f32_finite_bits b) eqn:E; [apply U_twrite, H32, E | apply U_write_null].
    - apply Forall_tbind; [|intros; apply U_tret].
      destruct (f64_finite_bits b) eqn:E; [apply U_twrite, H64, E | apply U_write_null].
    - apply Forall_tbind; [apply U_str, utf8_encode_valid, W | intros; apply U_tret].
    - apply Forall_tbind; [apply U_str, W | intros; apply U_tret].
    - apply U_write_byte_array.
    - apply Forall_tbind; [apply U_write_null | intros; apply U_tret].
    - apply IHv, W.
    - apply Forall_tbind; [apply U_write_null | intros; apply U_tret].
    - apply Forall_tbind; [apply U_write_null | intros; apply U_tret].
    - apply Forall_tbind; [apply U_str, W | intros; apply U_tret].
    - apply IHv, W.
    - apply andb_true_iff in W as [W1 W2].
      apply Forall_tbind; [apply U_open_variant, W1|]. intros st1.
      apply Forall_tbind; [apply IHv, W2|]. intros st2. apply U_close_variant.
    - apply andb_true_iff in W as [_ W2].
      apply Forall_tbind; [apply U_open_seq|]. intros [cs st1].
      apply Forall_tbind; [|intros [cs2 st2]; apply U_close_seq].
      apply U_ser_elems. apply forallb_Forall in W2. rewrite Forall_forall in *. intros e He st'. apply (H e He), (W2 e He).
    - apply Forall_tbind; [apply U_open_seq|]. intros [cs st1].
      apply Forall_tbind; [|intros [cs2 st2]; apply U_close_seq].
      apply U_ser_elems. apply forallb_Forall in W. rewrite Forall_forall in *. intros e He st'. apply (H e He), (W e He).
    - apply Forall_tbind; [apply U_open_seq|]. intros [cs st1].
      apply Forall_tbind; [|intros [cs2 st2]; apply U_close_seq].
      apply U_ser_elems. apply forallb_Forall in W. rewrite Forall_forall in *. intros e He st'. apply (H e He), (W e He).
    - apply andb_true_iff in W as [W1 W2].
      apply Forall_tbind; [apply U_open_variant, W1|]. intros st0.
      apply Forall_tbind; [apply U_open_seq|]. intros [cs st1].
      apply Forall_tbind; [|intros [cs2 st2]; apply Forall_tbind; [apply U_close_seq | intros; apply U_close_variant]].
      apply U_ser_elems. apply forallb_Forall in W2. rewrite Forall_forall in *. intros e He st'. apply (H e He), (W2 e He).
    - apply andb_true_iff in W as [_ W2].
      apply Forall_tbind; [apply U_open_map|]. intros [cs st1].
      apply Forall_tbind; [|intros [cs2 st2]; apply U_close_map].
      apply U_ser_entries. apply forallb_Forall in W2. rewrite Forall_forall in *. intros kv Hkv.
      specialize (H kv Hkv). specialize (W2 kv Hkv). cbn beta in W2. apply andb_true_iff in W2 as [Wk Wv].
      split; [apply U_key_ser, Wk | intros st'; apply (proj2 H), Wv].
    - apply Forall_tbind; [apply U_open_map|]. intros [cs st1].
      apply Forall_tbind; [|intros [cs2 st2]; apply U_close_map].
      apply U_ser_entries. apply forallb_Forall in W. rewrite Forall_forall in *. intros kv Hkv.
      specialize (H kv Hkv). specialize (W kv Hkv). cbn beta in W. apply andb_true_iff in W as [Wk Wv].
      split; [apply U_str, Wk | intros st'; apply H, Wv].
    - apply andb_true_iff in W as [W1 W2].
      apply Forall_tbind; [apply U_open_variant, W1|]. intros st0.
      apply Forall_tbind; [apply U_open_map|]. intros [cs st1].
      apply Forall_tbind; [|intros [cs2 st2]; apply Forall_tbind; [apply U_close_map | intros; apply U_close_variant]].
      apply U_ser_entries. apply forallb_Forall in W2. rewrite Forall_forall in *. intros kv Hkv.
      specialize (H kv Hkv). specialize (W2 kv Hkv). cbn beta in W2. apply andb_true_iff in W2 as [Wk Wv].
      split; [apply U_str, Wk | intros st'; apply H, Wv].
    - apply Forall_tbind; [apply U_collect, W | intros; apply U_tret].
    - pose proof (forallb_ascii_utf8 _ (number_text_ascii _ W)) as Hl.
      destruct (arbitrary_precision cf).
      + apply Forall_tbind; [apply U_twrite, Hl | intros; apply U_tret].
      + apply Forall_tbind; [apply U_open_map|]. intros [cs st1].
        apply Forall_tbind; [apply U_lift, U_begin_object_key|]. intros st2.
        apply Forall_tbind; [apply U_str; reflexivity|]. intros _.
        apply Forall_tbind; [apply U_lift, U_end_object_key|]. intros st3.
        apply Forall_tbind; [apply U_lift, U_begin_object_value|]. intros st4.
        apply Forall_tbind; [apply U_str, Hl|]. intros _.
        apply Forall_tbind; [apply U_lift, U_end_object_value|]. intros st5. apply U_close_map.
  Qed.

  (* the trace of a whole run, whatever its outcome *)
  Theorem trace_bufs_utf8 : forall v, wfs v = true -> U (fst (serialize_trace cf fmt32 fmt64 F v)).
  Proof.
    intros v W. unfold serialize_trace. apply Forall_tbind; [apply ser_bufs_utf8, W | intros; apply U_tret].
  Qed.

  Lemma serialize_trace_ok v bufs : serialize cf fmt32 fmt64 F v = Ok bufs ->
    fst (serialize_trace cf fmt32 fmt64 F v) = bufs.
  Proof.
    unfold serialize. destruct (serialize_trace cf fmt32 fmt64 F v) as [o [a|c i| |]]; intros H; inversion H. reflexivity.
  Qed.

  Theorem C13_buf_utf8_main : forall v bufs, wfs v = true -> serialize cf fmt32 fmt64 F v = Ok bufs ->
    Forall (fun b => utf8_valid b = true) bufs.
  Proof. intros v bufs W H. rewrite <- (serialize_trace_ok v bufs H). apply trace_bufs_utf8, W. Qed.

  Theorem C03_utf8_main : forall v bufs, wfs v = true -> serialize cf fmt32 fmt64 F v = Ok bufs ->
    utf8_valid (concat bufs) = true.
  Proof. intros v bufs W H. apply utf8_valid_concat. exact (C13_buf_utf8_main v bufs W H). Qed.
End BufUtf8.

Print Assumptions C13_buf_utf8_main.
Print Assumptions C03_utf8_main.
