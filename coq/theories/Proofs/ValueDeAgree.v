(* Proofs/ValueDeAgree.v — from_value agrees with the text deserializer on a JSON text denoting the Value (C16, second clause),
   for the sub-universe [agree_ty] of type programs: bool, unit, unit struct, String, char, the 8..64-bit integers and f64
   (default number representation: arbitrary_precision = false), Option / newtype wrappers, Vec, tuples and tuple structs of those.

   Shape of the argument: a typed analogue of parser completeness (Proofs/GrammarValueComplete.v) that also covers the failing
   side.  For a well-formed syntax tree [c] denoting the Value [v] (any insignificant whitespace), from a reader state whose
   remaining input is  w ++ render c ++ rst :
     - if the Value route succeeds with datum d, the text route [de_typed] succeeds with the same datum (up to borrowed/copied
       strings), stops exactly behind the rendering and restores the depth budget;
     - if the Value route fails, the text route does not succeed.
   [shape c v] says that the tree and the Value have the same kinds node by node (a number literal denotes a number ...): it holds
   for the tree the serializer prints (Proofs/ValueDeText.v), and rules out a literal "denoting" null through a non-finite float. *)
From SJ Require Import Base.Bytes Base.Utf8 Base.FloatB Gen.Tables
  Model.Read Model.Str Model.Num Model.NumF32 Model.Value Model.De Model.Ignore Model.Ty Model.NumberM Model.DeTyped Model.ValueDe
  Spec.Syntax Spec.Denote Proofs.GrammarIgnore Proofs.GrammarValueComplete Proofs.SerValue Proofs.GrammarValueBase Proofs.GrammarStr Proofs.GrammarNum Proofs.ValueDeRef.
Require Import Lia ZifyBool ZifyNat ZifyN.
Open Scope N_scope.

(* ---- the proved sub-universe ------------------------------------------------------------------------------------------------- *)
Fixpoint agree_ty (t : ty) : bool :=
  match t with
  | TBool | TUnit | TUnitStruct | TStr | TChar | TF64 | TIgnored | TValue => true
  | TInt it => negb (is_128 it)
  | TOption t1 | TNewtype t1 | TSeq t1 => agree_ty t1
  | TTuple ts | TTupleStruct ts => forallb agree_ty ts
  | _ => false
  end.

(* same kinds, node by node (objects are not entered: no map / struct / enum target in [agree_ty]) *)
Fixpoint shape (c : cst) (v : value) {struct c} : bool :=
  match c, v with
  | CNull, VNull => true
  | CTrue, VBool true => true
  | CFalse, VBool false => true
  | CNum _, VNum _ => true
  | CStr _, VStr _ => true
  | CArr _ es, VArr l => shape_elems es l
  | CObj _ _, VObj _ => true
  | _, _ => false
  end
with shape_elems (es : elems) (l : list value) {struct es} : bool :=
  match es, l with
  | ENil, [] => true
  | ECons _ c _ r, x :: l' => shape c x && shape_elems r l'
  | _, _ => false
  end.

(* ---- generic facts about tres ------------------------------------------------------------------------------------------------------ *)
Lemma tbind_not_ok {A B} (r : tres A) (f : A -> tres B) : (forall x b, f x <> TOk b) -> forall b, tbind r f <> TOk b.
Proof. intros H b. destruct r; cbn [tbind]; try discriminate. apply H. Qed.

Lemma fix_position_ok {A} E (r : tres A) a : fix_position E r = TOk a <-> r = TOk a.
Proof. destruct r; cbn [fix_position]; split; intros H; try discriminate; exact H. Qed.

Lemma fix_position_not_ok {A} E (r : tres A) : (forall a, r <> TOk a) -> forall a, fix_position E r <> TOk a.
Proof. intros H a Hf. apply fix_position_ok in Hf. exact (H a Hf). Qed.

Lemma tmap_ok {A B} (f : A -> B) (r : tres (A * st)) a s : r = TOk (a, s) -> tmap f r = TOk (f a, s).
Proof. intros ->. reflexivity. Qed.

Lemma tmap_not_ok {A B} (f : A -> B) (r : tres (A * st)) : (forall a, r <> TOk a) -> forall b, tmap f r <> TOk b.
Proof. intros H b. unfold tmap. destruct r as [[a s]| | | |]; cbn [tbind]; try discriminate. exfalso. exact (H _ eq_refl). Qed.

Section Agree.
  Variable cf : cfg.
  Variable fx : fenv.
  Hypothesis Hap : arbitrary_precision cf = false.
  Local Notation E := (mkEnv RSlice TEof cf).

  (* ---- the relation between the two routes ---------------------------------------------------------------------------------- *)
  Definition okrel {A} (ub : A -> A) (r : vres A) (tr : tres (A * st)) (s : st) (rst : bytes) : Prop :=
    match r with
    | VOk d => exists d' s', tr = TOk (d', s') /\ ub d' = ub d /\ rest s' = rst /\ depth s' = depth s
    | VErr _ _ _ => forall a, tr <> TOk a
    | _ => False
    end.

  Definition agree_at (t : ty) : Prop := forall c v fuel fv s w rst,
    wfb c = true -> denote cf c = Some v -> shape c v = true -> wf_value cf v = true -> ws_ok w = true -> follow_ok rst ->
    dbudget cf (cdepth c) (depth s) -> rest s = w ++ render c ++ rst ->
    (ty_depth t + vfuel c <= fuel)%nat -> (ty_depth t <= fv)%nat ->
    okrel unborrow (de_value_owned fv cf fx t v) (de_typed fuel E t s) s rst.

  Lemma okrel_map (C : dval -> dval) r tr s rst : (forall a b, unborrow a = unborrow b -> unborrow (C a) = unborrow (C b)) ->
    okrel unborrow r tr s rst -> okrel unborrow (vmap C r) (tmap C tr) s rst.
  Proof.
    intros HC. unfold okrel. destruct r as [d| | |]; cbn [vmap vbind]; try tauto.
    - intros (d' & s' & -> & Hu & Hr & Hd). exists (C d'), s'. split; [reflexivity|]. auto.
    - intros H. apply tmap_not_ok. exact H.
  Qed.

  (* ---- stepping over the leading whitespace ---------------------------------------------------------------------------------- *)
  Lemma pws_head s w b r : ws_ok w = true -> ws_byte b = false -> rest s = w ++ b :: r ->
    exists s1, parse_whitespace E s = Ok (Some b, s1) /\ rest s1 = b :: r /\ depth s1 = depth s.
  Proof.
    intros Hw Hb Hr. destruct (pw_spec cf s) as (s1 & Hpw & Hr1 & Hd1). exists s1.
    rewrite Hr, skipws_to in Hr1 by assumption. rewrite Hpw, Hr1. auto.
  Qed.

  Lemma pit_not_ok {A} s : forall a : A, @peek_invalid_type A E s <> TOk a.
  Proof.
    intros a. unfold peek_invalid_type.
    destruct (match peek_or_null E s with Ok (b, s') => (b, s') | _ => (0, s) end) as [b s0].
    cbv zeta.
    repeat match goal with
           | |- (if ?c then _ else _) <> _ => destruct c
           end.
    all: try discriminate.
    all: try (unfold peek_error, lift; discriminate).
    all: apply tbind_not_ok; intros x b'; try destruct x; discriminate.
  Qed.

  (* first byte of a rendering, by kind *)
  Lemma render_first c : wfb c = true ->
    exists b r, render c = b :: r /\ ws_byte b = false /\
      match c with
      | CNull => b = 110 /\ r = lit_ull
      | CTrue => b = 116 /\ r = lit_rue
      | CFalse => b = 102 /\ r = lit_alse
      | CNum _ => b = 45 \/ is_digit b = true
      | CStr ps => b = 34 /\ r = flat_map render_piece ps ++ [34]
      | CArr w es => b = 91 /\ r = seq_text true w es ++ [93]
      | CObj _ _ => b = 123
      end.
  Proof.
    destruct c as [| | |n|ps|w es|w ms]; intros H.
    - exists 110, lit_ull. auto.
    - exists 116, lit_rue. auto.
    - exists 102, lit_alse. auto.
    - cbn [wfb] in H. cbn [render]. rewrite render_num_abs. destruct (nneg n).
      + do 2 eexists. split; [reflexivity|]. split; [reflexivity|]. left. reflexivity.
      + destruct (render_abs_head n H) as (d & r & Hr & Hd). rewrite Hr. exists d, r. split; [reflexivity|].
        split; [now apply digit_not_ws|]. right. exact Hd.
    - do 2 eexists. split; [reflexivity|]. auto.
    - rewrite render_arr. do 2 eexists. split; [reflexivity|]. auto.
    - rewrite render_obj. do 2 eexists. split; [reflexivity|]. auto.
  Qed.

  (* a scalar request on a first byte it does not accept *)
  Definition rejects (t : ty) (b : N) : Prop :=
    match t with
    | TBool => b <> 116 /\ b <> 102
    | TUnit | TUnitStruct => b <> 110
    | TStr | TChar => b <> 34
    | TInt it => is_128 it = false /\ b <> 45 /\ is_digit b = false
    | TF64 => b <> 45 /\ is_digit b = false
    | TSeq _ | TTuple _ | TTupleStruct _ => b <> 91
    | _ => False
    end.

  Lemma reject_not_ok t fuel s w b r : ws_ok w = true -> ws_byte b = false -> rest s = w ++ b :: r -> rejects t b ->
    forall a, de_typed (S fuel) E t s <> TOk a.
  Proof.
    intros Hw Hb Hr Hrej a. destruct (pws_head s w b r Hw Hb Hr) as (s1 & Hpw & Hr1 & Hd1).
    destruct t; cbn [rejects] in Hrej; try contradiction; cbn [de_typed].
    - (* TBool *) destruct Hrej as [H1 H2]. unfold deserialize_bool. rewrite Hpw. cbn [lift tbind].
      apply N.eqb_neq in H1, H2. rewrite H1, H2. apply fix_position_not_ok, pit_not_ok.
    - (* TInt *) destruct Hrej as (H128 & H1 & H2). unfold deserialize_int.
      destruct t; try discriminate H128; unfold deserialize_number; rewrite Hpw; cbn [lift tbind];
        apply N.eqb_neq in H1; rewrite H1, H2; apply fix_position_not_ok, pit_not_ok.
    - (* TF64 *) destruct Hrej as (H1 & H2). unfold deserialize_number. rewrite Hpw. cbn [lift tbind].
      apply N.eqb_neq in H1. rewrite H1, H2. apply fix_position_not_ok, pit_not_ok.
    - (* TChar *) unfold deserialize_str. rewrite Hpw. cbn [lift tbind]. apply N.eqb_neq in Hrej. rewrite Hrej.
      apply fix_position_not_ok, pit_not_ok.
    - (* TStr *) unfold deserialize_str. rewrite Hpw. cbn [lift tbind]. apply N.eqb_neq in Hrej. rewrite Hrej.
      apply fix_position_not_ok, pit_not_ok.
    - (* TUnit *) unfold deserialize_unit. rewrite Hpw. cbn [lift tbind]. apply N.eqb_neq in Hrej. rewrite Hrej.
      apply fix_position_not_ok, pit_not_ok.
    - (* TUnitStruct *) unfold deserialize_unit. rewrite Hpw. cbn [lift tbind]. apply N.eqb_neq in Hrej. rewrite Hrej.
      apply fix_position_not_ok, pit_not_ok.
    - (* TSeq *) apply tmap_not_ok. intros a'. unfold deserialize_seq. rewrite Hpw. cbn [lift tbind]. apply N.eqb_neq in Hrej. rewrite Hrej.
      apply fix_position_not_ok, pit_not_ok.
    - (* TTuple *) apply tmap_not_ok. intros a'. unfold deserialize_seq. rewrite Hpw. cbn [lift tbind]. apply N.eqb_neq in Hrej. rewrite Hrej.
      apply fix_position_not_ok, pit_not_ok.
    - (* TTupleStruct *) apply tmap_not_ok. intros a'. unfold deserialize_seq. rewrite Hpw. cbn [lift tbind]. apply N.eqb_neq in Hrej. rewrite Hrej.
      apply fix_position_not_ok, pit_not_ok.
  Qed.

  (* ---- literals ------------------------------------------------------------------------------------------------------------------- *)
  Lemma lit_accept s w b lit rst : ws_ok w = true -> ws_byte b = false -> rest s = w ++ b :: lit ++ rst ->
    exists s1 s2, parse_whitespace E s = Ok (Some b, s1) /\ parse_ident E lit (discard s1) = Ok s2 /\ rest s2 = rst /\ depth s2 = depth s.
  Proof.
    intros Hw Hb Hr. destruct (pws_head s w b (lit ++ rst) Hw Hb Hr) as (s1 & Hpw & Hr1 & Hd1).
    destruct (parse_ident_fwd cf lit (discard s1) rst) as (s2 & Hid & Hr2 & Hd2).
    { rewrite discard_rest, Hr1. reflexivity. }
    exists s1, s2. rewrite Hd2, discard_depth. auto.
  Qed.

  (* ---- numbers (default representation) ------------------------------------------------------------------------------------ *)
  (* the ParserNumber behind a Number *)
  Definition pnum_is (p : pnum) (n : num) : Prop :=
    match n with
    | NPos u => p = PU64 u
    | NNeg i => p = PI64 i
    | NFloat f => p = PF64 f
    | NLit _ => False
    end.

  Ltac nostr_step H :=
    match type of H with
    | bind ?r _ = Ok _ => let x := fresh "x" in destruct r as [x| | |]; cbn [bind] in H; try discriminate H; try destruct x
    | (let '(_, _) := ?r in _) = Ok _ => destruct r
    | (if ?c then _ else _) = Ok _ => destruct c
    | Ok _ = Ok _ => injection H as H; try discriminate H
    | _ = Ok _ => discriminate H
    end.

  Lemma parse_number_nostr pos sig s str s' : parse_number E pos sig s <> Ok (PString str, s').
  Proof. intros H. unfold parse_number in H. repeat nostr_step H. Qed.

  Lemma parse_integer_nostr pos s str s' : parse_integer E pos s <> Ok (PString str, s').
  Proof.
    intros H. unfold parse_integer in H.
    destruct (next E s) as [[o s1]| | |]; cbn [bind] in H; try discriminate H.
    destruct o as [c|]; [|discriminate H].
    destruct (c =? 48).
    - destruct (peek_or_null E s1) as [[c2 s2]| | |]; cbn [bind] in H; try discriminate H.
      destruct (is_digit c2); [discriminate H|]. exact (parse_number_nostr _ _ _ _ _ H).
    - destruct (is_digit19 c); [|discriminate H].
      destruct (sig_loop (rest s1) (digit_val c)) as [[n sg] ov].
      destruct (peek_or_null E (advance n s1)) as [[c2 s2]| | |]; cbn [bind] in H; try discriminate H.
      destruct ov.
      + destruct (parse_long_integer E pos sg s2) as [[f s3]| | |]; cbn [bind] in H; discriminate H.
      + exact (parse_number_nostr _ _ _ _ _ H).
  Qed.

  Lemma num_den_pnum n num : num_den cf n = Some (VNum num) ->
    exists p s', parse_integer E (negb (nneg n)) (init_st (render_abs n)) = Ok (p, s') /\ pnum_is p num.
  Proof.
    unfold num_den. change (env0 cf) with E. unfold parse_any_number. change (Read.cf E) with cf. rewrite Hap.
    destruct (parse_integer E (negb (nneg n)) (init_st (render_abs n))) as [[p s']| | |] eqn:Hp; try discriminate.
    unfold visit_number_cfg. change (Read.cf E) with cf. rewrite Hap. intros H. exists p, s'. split; [reflexivity|].
    destruct p as [f|u|i|str]; cbn [visit_number] in H.
    - destruct (b64_is_finite f); [|discriminate]. injection H as <-. reflexivity.
    - injection H as <-. reflexivity.
    - injection H as <-. reflexivity.
    - exfalso. exact (parse_integer_nostr _ _ _ _ Hp).
  Qed.

  Lemma number_any_intv it p num : pnum_is p num -> number_any cf fx num (intv it) = of_visit (visit_int it p st0).
  Proof. unfold number_any. rewrite Hap. destruct num; cbn [pnum_is]; intros H; try contradiction; subst p; reflexivity. Qed.

  Lemma number_any_f64v p num : pnum_is p num -> number_any cf fx num f64v = of_visit (visit_f64 p st0).
  Proof. unfold number_any. rewrite Hap. destruct num; cbn [pnum_is]; intros H; try contradiction; subst p; reflexivity. Qed.

  (* the numeric visitors do not look at the reader state *)
  Lemma visit_int_rel it p s2 s rst : rest s2 = rst -> depth s2 = depth s ->
    okrel unborrow (of_visit (visit_int it p st0)) (fix_position E (visit_int it p s2)) s rst.
  Proof.
    intros Hr Hd. unfold visit_int. destruct p as [f|u|i|str].
    - cbn. discriminate.
    - destruct (in_range it (Z.of_N u)); cbn; [eauto 8|discriminate].
    - destruct (in_range it i); cbn; [eauto 8|discriminate].
    - cbn. discriminate.
  Qed.

  Lemma visit_f64_rel p s2 s rst : rest s2 = rst -> depth s2 = depth s ->
    okrel unborrow (of_visit (visit_f64 p st0)) (fix_position E (visit_f64 p s2)) s rst.
  Proof.
    intros Hr Hd. unfold visit_f64. destruct p as [f|u|i|str]; cbn; try discriminate; eauto 8.
  Qed.

  Lemma num_accept (visit : pnum -> st -> tres (dval * st)) n num s w rst :
    num_ok n = true -> num_den cf n = Some (VNum num) -> ws_ok w = true -> follow_ok rst ->
    rest s = w ++ render_num n ++ rst ->
    exists p s2, pnum_is p num /\ deserialize_number E visit s = fix_position E (visit p s2) /\ rest s2 = rst /\ depth s2 = depth s.
  Proof.
    intros Hok Hden Hw Hfol Hr. destruct (num_den_pnum n num Hden) as (p & s' & Hiso & Hp).
    apply follow_nfollow in Hfol.
    assert (Hloc : forall off pk d, parse_integer E (negb (nneg n)) (mkSt (render_abs n ++ rst) off pk d)
                                    = Ok (p, st_end (render_abs n) rst off d)).
    { intros off pk d. pose proof (number_local_ok E (negb (nneg n)) n rst off pk d eq_refl Hok Hfol p s') as H.
      unfold parse_any_number in H. change (Read.cf E) with cf in H. rewrite Hap in H. apply H. exact Hiso. }
    exists p. rewrite render_num_abs in Hr. unfold deserialize_number.
    destruct (nneg n) eqn:Hneg; cbn [negb] in Hloc; cbn [app] in Hr.
    - revert Hr. lnorm. intros Hr.
      destruct (pws_head s w 45 (render_abs n ++ rst) Hw eq_refl Hr) as (s1 & Hpw & Hr1 & Hd1).
      rewrite Hpw. cbn [lift tbind]. change (45 =? 45) with true. cbv iota.
      unfold discard. rewrite Hr1. cbn [tl]. rewrite Hloc. cbn [lift tbind].
      eexists. split; [exact Hp|]. split; [reflexivity|]. split; [reflexivity|]. exact Hd1.
    - destruct (render_abs_head n Hok) as (d & r & Habs & Hdig). rewrite Habs in Hr. revert Hr. lnorm. intros Hr.
      destruct (pws_head s w d (r ++ rst) Hw (digit_not_ws d Hdig) Hr) as (s1 & Hpw & Hr1 & Hd1).
      rewrite Hpw. cbn [lift tbind].
      assert (H45 : (d =? 45) = false) by (unfold is_digit in Hdig; lia). rewrite H45, Hdig.
      destruct s1 as [r1 o1 p1 d1]. cbn [rest depth] in Hr1, Hd1. subst r1.
      change (d :: r ++ rst) with ((d :: r) ++ rst). rewrite <- Habs, Hloc. cbn [lift tbind].
      eexists. split; [exact Hp|]. split; [reflexivity|]. split; [reflexivity|]. exact Hd1.
  Qed.

  (* ---- strings ------------------------------------------------------------------------------------------------------------------ *)
  Lemma str_accept {A} (visit : bytes -> bool -> st -> tres A) ps sv s w rst :
    str_ok ps = true -> str_text ps = Some sv -> ws_ok w = true -> rest s = w ++ render_str ps ++ rst ->
    exists bw s2, deserialize_str E visit s = fix_position E (visit sv bw s2) /\ rest s2 = rst /\ depth s2 = depth s.
  Proof.
    intros Hok Htext Hw Hr. unfold render_str in Hr. revert Hr. lnorm. intros Hr.
    destruct (pws_head s w 34 _ Hw eq_refl Hr) as (s1 & Hpw & Hr1 & Hd1).
    unfold deserialize_str. rewrite Hpw. cbn [lift tbind]. change (34 =? 34) with true. cbv iota.
    unfold discard. rewrite Hr1. cbn [tl].
    destruct (parse_str_complete cf ps sv rst (S (off s1)) false (depth s1) Hok Htext) as (bw & Hp).
    rewrite Hp. cbn [lift tbind]. eexists. eexists. split; [reflexivity|]. split; [reflexivity|]. exact Hd1.
  Qed.

  (* ---- scalars ------------------------------------------------------------------------------------------------------------------- *)
  Ltac kinds Hkind :=
    cbn [rejects]; repeat split; try reflexivity; try assumption;
    try (destruct Hkind as [Hkind ?]; subst; try reflexivity; discriminate);
    try (subst; try reflexivity; discriminate);
    try (destruct Hkind as [Hkind|Hkind]; [subst; try reflexivity; discriminate | unfold is_digit in *; lia]).

  Ltac start_scalar :=
    intros c v fuel fv s w rst Hwf Hden Hsh Hwv Hw Hfol Hdb Hr Hfuel Hfv;
    destruct fuel as [|f]; [cbn [ty_depth] in Hfuel; lia|];
    destruct fv as [|fv]; [cbn [ty_depth] in Hfv; lia|];
    destruct (render_first c Hwf) as (b & r & Hren & Hbws & Hkind);
    pose proof Hr as Hr0; rewrite Hren in Hr; revert Hr; lnorm; intros Hr.

  Lemma agree_bool : agree_at TBool.
  Proof.
    start_scalar.
    destruct c; destruct v as [|[|]| | | |]; try discriminate Hsh; cbn [de_value_owned okrel verr].
    all: try (apply (reject_not_ok TBool f s w b (r ++ rst) Hw Hbws Hr); kinds Hkind).
    - destruct Hkind as [-> ->].
      destruct (lit_accept s w 116 lit_rue rst Hw eq_refl Hr) as (s1 & s2 & Hpw & Hid & Hr2 & Hd2).
      cbn [de_typed]. unfold deserialize_bool. rewrite Hpw. cbn [lift tbind]. change (116 =? 116) with true. cbv iota.
      rewrite Hid. cbn [lift tbind fix_position]. eauto 8.
    - destruct Hkind as [-> ->].
      destruct (lit_accept s w 102 lit_alse rst Hw eq_refl Hr) as (s1 & s2 & Hpw & Hid & Hr2 & Hd2).
      cbn [de_typed]. unfold deserialize_bool. rewrite Hpw. cbn [lift tbind]. change (102 =? 116) with false. change (102 =? 102) with true. cbv iota.
      rewrite Hid. cbn [lift tbind fix_position]. eauto 8.
  Qed.

  Lemma agree_unit_gen t : t = TUnit \/ t = TUnitStruct -> agree_at t.
  Proof.
    intros Ht. assert (Hd : ty_depth t = 1%nat) by (destruct Ht; subst; reflexivity). revert Hd.
    intros Hd c v fuel fv s w rst Hwf Hden Hsh Hwv Hw Hfol Hdb Hr Hfuel Hfv.
    destruct fuel as [|f]; [lia|]. destruct fv as [|fv]; [lia|].
    destruct (render_first c Hwf) as (b & r & Hren & Hbws & Hkind).
    rewrite Hren in Hr. revert Hr. lnorm. intros Hr.
    assert (Hv : de_value_owned (S fv) cf fx t v = match v with VNull => VOk DUnit | _ => verr MInvalidType end)
      by (destruct Ht; subst; reflexivity).
    assert (Ht' : de_typed (S f) E t s = deserialize_unit E s) by (destruct Ht; subst; reflexivity).
    rewrite Hv, Ht'.
    destruct c; destruct v as [|[|]| | | |]; try discriminate Hsh; cbn [okrel verr].
    all: try (rewrite <- Ht'; apply (reject_not_ok t f s w b (r ++ rst) Hw Hbws Hr); destruct Ht; subst t; kinds Hkind).
    destruct Hkind as [-> ->].
    destruct (lit_accept s w 110 lit_ull rst Hw eq_refl Hr) as (s1 & s2 & Hpw & Hid & Hr2 & Hd2).
    unfold deserialize_unit. rewrite Hpw. cbn [lift tbind]. change (110 =? 110) with true. cbv iota.
    rewrite Hid. cbn [lift tbind fix_position]. eauto 8.
  Qed.

  Lemma agree_int it : is_128 it = false -> agree_at (TInt it).
  Proof.
    intros H128. start_scalar.
    assert (Ht' : de_typed (S f) E (TInt it) s = deserialize_number E (visit_int it) s) by (destruct it; try discriminate H128; reflexivity).
    destruct c as [| | |n|ps|w0 es|w0 ms]; destruct v as [|[|]|num| | |]; try discriminate Hsh; cbn [de_value_owned value_number_owned okrel verr]; rewrite ?Hap; cbn [okrel verr].
    all: try (apply (reject_not_ok (TInt it) f s w b (r ++ rst) Hw Hbws Hr); kinds Hkind).
    cbn [wfb denote] in Hwf, Hden. cbn [render] in Hr0.
    destruct (num_accept (visit_int it) n num s w rst Hwf Hden Hw Hfol Hr0) as (p & s2 & Hp & Hdn & Hr2 & Hd2).
    rewrite Ht', Hdn. unfold number_de_int. rewrite Hap, (number_any_intv it p num Hp).
    apply visit_int_rel; assumption.
  Qed.

  Lemma agree_f64 : agree_at TF64.
  Proof.
    start_scalar.
    destruct c as [| | |n|ps|w0 es|w0 ms]; destruct v as [|[|]|num| | |]; try discriminate Hsh; cbn [de_value_owned value_number_owned okrel verr]; rewrite ?Hap; cbn [okrel verr].
    all: try (apply (reject_not_ok TF64 f s w b (r ++ rst) Hw Hbws Hr); kinds Hkind).
    cbn [wfb denote] in Hwf, Hden. cbn [render] in Hr0.
    destruct (num_accept visit_f64 n num s w rst Hwf Hden Hw Hfol Hr0) as (p & s2 & Hp & Hdn & Hr2 & Hd2).
    cbn [de_typed]. rewrite Hdn. unfold number_de_f64. rewrite Hap, (number_any_f64v p num Hp).
    apply visit_f64_rel; assumption.
  Qed.

  Lemma agree_str : agree_at TStr.
  Proof.
    start_scalar.
    destruct c as [| | |n|ps|w0 es|w0 ms]; destruct v as [|[|]| |sv| |]; try discriminate Hsh; cbn [de_value_owned okrel verr].
    all: try (apply (reject_not_ok TStr f s w b (r ++ rst) Hw Hbws Hr); kinds Hkind).
    cbn [wfb denote] in Hwf, Hden. destruct (str_text ps) as [sv'|] eqn:Htext; [|discriminate Hden]. injection Hden as <-.
    cbn [render] in Hr0.
    destruct (str_accept visit_string ps sv' s w rst Hwf Htext Hw Hr0) as (bw & s2 & Hds & Hr2 & Hd2).
    cbn [de_typed]. rewrite Hds. unfold visit_string. cbn [of_visit fix_position okrel].
    exists (DStr sv' bw), s2. split; [reflexivity|]. split; [reflexivity|]. split; assumption.
  Qed.

  Lemma agree_char : agree_at TChar.
  Proof.
    start_scalar.
    destruct c as [| | |n|ps|w0 es|w0 ms]; destruct v as [|[|]| |sv| |]; try discriminate Hsh; cbn [de_value_owned okrel verr].
    all: try (apply (reject_not_ok TChar f s w b (r ++ rst) Hw Hbws Hr); kinds Hkind).
    cbn [wfb denote] in Hwf, Hden. destruct (str_text ps) as [sv'|] eqn:Htext; [|discriminate Hden]. injection Hden as <-.
    cbn [render] in Hr0.
    destruct (str_accept visit_char ps sv' s w rst Hwf Htext Hw Hr0) as (bw & s2 & Hds & Hr2 & Hd2).
    cbn [de_typed]. rewrite Hds. unfold visit_char. destruct (one_scalar sv') as [ch|]; cbn [of_visit fix_position okrel verr].
    - exists (DChar ch), s2. split; [reflexivity|]. split; [reflexivity|]. split; assumption.
    - discriminate.
  Qed.

  (* ---- IgnoredAny: the Value route drops the Value, the text route skips one value ----------------------------------------- *)
  Lemma agree_ignored : agree_at TIgnored.
  Proof.
    intros c v fuel fv s w rst Hwf Hden Hsh Hwv Hw Hfol Hdb Hr Hfuel Hfv.
    cbn [ty_depth] in Hfuel, Hfv. destruct fuel as [|f]; [lia|]. destruct fv as [|fv]; [lia|].
    cbn [de_value_owned de_typed okrel]. destruct s as [r0 o0 p0 d0]. cbn [rest depth] in *. subst r0.
    destruct (ignore_value_complete cf w c rst o0 p0 d0 Hw Hwf (follow_nfollow _ Hfol)) as [pk' Hi].
    rewrite Hi. cbn [lift tbind]. eexists. eexists. split; [reflexivity|]. split; [reflexivity|]. split; reflexivity.
  Qed.

  (* ---- T = Value: the Value visitor rebuilds a well-formed Value; the text route is the Value parser (completeness) --------- *)
  Lemma complete_value_inst c : complete_value cf c.
  Proof.
    apply (GrammarValueComplete.complete_all cf).
    - intros. eapply parse_str_complete; eauto.
    - intros positive n rst off pk d Hn Hf p s' H. eapply number_local_ok; eauto.
  Qed.

  Lemma value_of_value_id : forall v, wf_value cf v = true -> value_of_value cf fx v = VOk v.
  Proof.
    induction v using value_ind'; intros W; cbn [value_of_value]; try reflexivity.
    - cbn [wf_value] in W. unfold number_any. rewrite Hap. destruct n as [u|i|f|s]; cbn [wf_num] in W.
      + cbn [valuev nv_u64]. unfold number_of_u64. rewrite Hap. reflexivity.
      + cbn [valuev nv_i64]. unfold number_of_i64. rewrite Hap. apply andb_true_iff in W as [_ Wn]. rewrite Wn. reflexivity.
      + cbn [valuev nv_f64]. rewrite Hap. apply andb_true_iff in W as [_ Wf].
        assert (Hf : b64_is_finite f = true) by (destruct f; try discriminate Wf; reflexivity). rewrite Hf. reflexivity.
      + rewrite Hap in W. discriminate W.
    - cbn [wf_value] in W.
      assert (Hgo : (fix go (l0 : list value) : vres (list value) :=
                       match l0 with
                       | [] => VOk []
                       | x :: r => let& y := value_of_value cf fx x in let& ys := go r in VOk (y :: ys)
                       end) l = VOk l).
      { induction l as [|x r IHl]; [reflexivity|]. cbn [forallb] in W. apply andb_true_iff in W as [Wx Wr].
        inversion H as [|? ? Hx Hr]; subst. rewrite (Hx Wx). cbn [vbind]. rewrite (IHl Hr Wr). reflexivity. }
      rewrite Hgo. reflexivity.
    - cbn [wf_value] in W. apply andb_true_iff in W as [W Wk].
      destruct l as [|[k0 x0] r0]; [reflexivity|]. rewrite Hap. cbn [andb].
      assert (Hgo : forall m, Forall (fun kv : list N * value => wf_value cf (snd kv) = true -> value_of_value cf fx (snd kv) = VOk (snd kv)) m ->
                     forallb (fun kv : list N * value => utf8_valid (fst kv) && wf_value cf (snd kv)) m = true ->
                     (fix go (l0 : list (list N * value)) : vres (list (list N * value)) :=
                        match l0 with
                        | [] => VOk []
                        | (k, x) :: r => let& y := value_of_value cf fx x in let& ys := go r in VOk ((k, y) :: ys)
                        end) m = VOk m).
      { induction m as [|[k x] r IHm]; intros HF Wm; [reflexivity|]. cbn [forallb fst snd] in Wm. apply andb_true_iff in Wm as [Wx Wr].
        apply andb_true_iff in Wx as [_ Wx]. inversion HF as [|? ? Hx Hr]; subst. cbn [snd] in Hx. rewrite (Hx Wx). cbn [vbind].
        rewrite (IHm Hr Wr). reflexivity. }
      rewrite (Hgo _ H W). cbn [vbind]. rewrite (map_of_entries_id _ _ Wk). reflexivity.
  Qed.

  Lemma agree_value : agree_at TValue.
  Proof.
    intros c v fuel fv s w rst Hwf Hden Hsh Hwv Hw Hfol Hdb Hr Hfuel Hfv.
    cbn [ty_depth] in Hfuel, Hfv. destruct fuel as [|f]; [lia|]. destruct fv as [|fv]; [lia|].
    cbn [de_value_owned de_typed]. rewrite (value_of_value_id v Hwv). cbn [vmap vbind okrel].
    destruct (complete_value_inst c f s w rst v) as (s' & Hp & Hr' & Hd'); try assumption; [lia|].
    rewrite Hp. cbn [lift tbind]. eexists. eexists. split; [reflexivity|]. split; [reflexivity|]. split; assumption.
  Qed.

  (* ---- wrappers ------------------------------------------------------------------------------------------------------------------ *)
  Lemma okrel_depth {A} (ub : A -> A) r tr s1 s rst : depth s1 = depth s -> okrel ub r tr s1 rst -> okrel ub r tr s rst.
  Proof.
    intros Hd. unfold okrel. destruct r; try tauto. intros (d' & s' & H1 & H2 & H3 & H4). exists d', s'. rewrite <- Hd. auto.
  Qed.

  Lemma agree_option t1 : agree_at t1 -> agree_at (TOption t1).
  Proof.
    intros IH c v fuel fv s w rst Hwf Hden Hsh Hwv Hw Hfol Hdb Hr Hfuel Hfv.
    cbn [ty_depth] in Hfuel, Hfv. destruct fuel as [|f]; [lia|]. destruct fv as [|fv]; [lia|].
    destruct (render_first c Hwf) as (b & r & Hren & Hbws & Hkind).
    pose proof Hr as Hr0. rewrite Hren in Hr. revert Hr. lnorm. intros Hr.
    destruct (pws_head s w b (r ++ rst) Hw Hbws Hr) as (s1 & Hpw & Hr1 & Hd1).
    cbn [de_typed]. rewrite Hpw. cbn [lift tbind].
    destruct (b =? 110) eqn:Hb.
    - apply N.eqb_eq in Hb. subst b.
      assert (Hc : c = CNull).
      { destruct c; try reflexivity; try (destruct Hkind as [Hk _]; discriminate Hk); try discriminate Hkind.
        destruct Hkind as [Hk|Hk]; [discriminate Hk|discriminate Hk]. }
      subst c. destruct v; try discriminate Hsh. destruct Hkind as [_ ->].
      destruct (parse_ident_fwd cf lit_ull (discard s1) rst) as (s2 & Hid & Hr2 & Hd2).
      { rewrite discard_rest, Hr1. reflexivity. }
      rewrite Hid. cbn [lift tbind de_value_owned okrel]. exists DNone, s2. rewrite Hd2, discard_depth. auto.
    - assert (Hv : de_value_owned (S fv) cf fx (TOption t1) v = vmap DSome (de_value_owned fv cf fx t1 v)).
      { destruct v; try reflexivity. destruct c; try discriminate Hsh. destruct Hkind as [Hk _]. subst b. discriminate Hb. }
      rewrite Hv. apply okrel_map; [intros a b' Hab; cbn [unborrow]; rewrite Hab; reflexivity|].
      apply (okrel_depth unborrow _ _ s1 s rst Hd1).
      apply (IH c v f fv s1 [] rst); try assumption; try reflexivity.
      + rewrite Hd1. exact Hdb.
      + rewrite Hr1, Hren. lnorm. reflexivity.
      + lia.
      + lia.
  Qed.

  Lemma agree_newtype t1 : agree_at t1 -> agree_at (TNewtype t1).
  Proof.
    intros IH c v fuel fv s w rst Hwf Hden Hsh Hwv Hw Hfol Hdb Hr Hfuel Hfv.
    cbn [ty_depth] in Hfuel, Hfv. destruct fuel as [|f]; [lia|]. destruct fv as [|fv]; [lia|].
    cbn [de_typed de_value_owned]. apply okrel_map; [intros a b' Hab; cbn [unborrow]; rewrite Hab; reflexivity|].
    apply (IH c v f fv s w rst); try assumption; lia.
  Qed.

  (* ---- the frame of `[` .. `]` ---------------------------------------------------------------------------------------------------- *)
  Lemma frame_not_ok {A} (body : st -> tres (A * st)) s1 s2 : enter E s1 = Ok s2 ->
    (forall a, body (discard s2) <> TOk a) -> forall a, frame E end_seq end_seq_st body s1 <> TOk a.
  Proof.
    intros Hen H a. unfold frame. rewrite Hen. cbn [lift tbind].
    destruct (body (discard s2)) as [[x s3]| | | |] eqn:Hb; try discriminate.
    - exfalso. exact (H _ eq_refl).
    - destruct (leave E s); cbn [lift tbind]; discriminate.
  Qed.

  (* the frame fails when the closing bracket does not come next *)
  Lemma frame_blocked {A} (body : st -> tres (A * st)) s1 s2 x s3 : enter E s1 = Ok s2 -> body (discard s2) = TOk (x, s3) ->
    (forall s4 s5, rest s4 = rest s3 -> end_seq E s4 <> Ok s5) -> forall a, frame E end_seq end_seq_st body s1 <> TOk a.
  Proof.
    intros Hen Hb H a. unfold frame. rewrite Hen. cbn [lift tbind]. rewrite Hb.
    destruct (leave E s3) as [s4| | |] eqn:Hl; cbn [lift tbind]; try discriminate.
    apply leave_inv in Hl as [Hr4 _].
    destruct (end_seq E s4) as [s5| | |] eqn:He; cbn [lift tbind]; try discriminate.
    exfalso. exact (H s4 s5 Hr4 He).
  Qed.

  (* the remaining text after some elements: the closing bracket does not come next *)
  Lemma end_seq_blocked first wl es rst s4 : ws_ok wl = true -> wfb_elems es = true -> es <> ENil ->
    rest s4 = seq_text first wl es ++ 93 :: rst -> forall s5, end_seq E s4 <> Ok s5.
  Proof.
    intros Hwl Hwf Hne Hr s5 He. apply end_seq_inv in He as [He _]. rewrite Hr in He.
    destruct es as [|w1 c w2 rest0]; [contradiction|]. rewrite seq_text_cons in He.
    cbn [wfb_elems] in Hwf. apply andb_prop in Hwf as [Hwf _]. apply andb_prop in Hwf as [Hwf _]. apply andb_prop in Hwf as [Hw1 Hwfc].
    destruct (render_head c Hwfc) as (b & r & Hrc & Hbws & Hb93 & _). rewrite Hrc in He.
    destruct first.
    - revert He. lnorm. rewrite skipws_to by assumption. intros [= Hb]. contradiction.
    - revert He. lnorm. rewrite skipws_to by (try assumption; reflexivity). discriminate.
  Qed.

  (* ---- Vec<T> -------------------------------------------------------------------------------------------------------------------- *)
  Lemma de_elems_S f t1 first s :
    de_elems (S f) E t1 first s =
    (let^ o := has_next_element E first s in
     match o with
     | None => TOk ([], s)
     | Some s1 => let+ (d, s2) := de_typed f E t1 s1 in let+ (ds, s3) := de_elems f E t1 false s2 in TOk (d :: ds, s3)
     end).
  Proof. reflexivity. Qed.

  Lemma de_tuple_S f ts first s :
    de_tuple (S f) E ts first s =
    match ts with
    | [] => TOk ([], s)
    | t :: ts' =>
      let^ o := has_next_element E first s in
      match o with
      | None => TUnpos MInvalidLength s
      | Some s1 => let+ (d, s2) := de_typed f E t s1 in let+ (ds, s3) := de_tuple f E ts' false s2 in TOk (d :: ds, s3)
      end
    end.
  Proof. reflexivity. Qed.

  Lemma hne_step first s wp w1 c w2 rest0 rst : ws_ok wp = true -> ws_ok w1 = true -> wfb c = true ->
    rest s = seq_text first wp (ECons w1 c w2 rest0) ++ 93 :: rst ->
    exists s1, has_next_element E first s = Ok (Some s1) /\ rest s1 = render c ++ (w2 ++ tail_elems rest0 ++ 93 :: rst)
               /\ depth s1 = depth s.
  Proof.
    intros Hwp Hw1 Hwfc Hr. rewrite seq_text_cons in Hr. destruct (render_head c Hwfc) as (b & r & Hrc & Hbws & Hb93 & _).
    rewrite Hrc. cbn [app]. destruct first.
    - apply hne_fwd_first; [|exact Hb93]. rewrite Hr, Hrc. cbn [app]. lnorm. now apply skipws_to.
    - apply (hne_fwd_more cf s (w1 ++ b :: r ++ (w2 ++ tail_elems rest0 ++ 93 :: rst))); [| |exact Hb93].
      + rewrite Hr, Hrc. lnorm. now apply skipws_to.
      + now apply skipws_to.
  Qed.

  Definition elems_rel (t1 : ty) : Prop := forall es l fuel fv first s wp rst,
    wfb_elems es = true -> denote_elems cf es = Some l -> shape_elems es l = true -> forallb (wf_value cf) l = true -> ws_ok wp = true ->
    dbudget cf (cdepth_elems es) (depth s) -> rest s = seq_text first wp es ++ 93 :: rst ->
    (ty_depth t1 + sfuel es <= fuel)%nat -> (ty_depth t1 <= fv)%nat ->
    match seq_all (de_value_owned fv cf fx t1) l with
    | VOk (ds, rem) => rem = [] /\ exists ds' s' wl, de_elems fuel E t1 first s = TOk (ds', s') /\ map unborrow ds' = map unborrow ds
                         /\ ws_ok wl = true /\ rest s' = wl ++ 93 :: rst /\ depth s' = depth s
    | VErr _ _ _ => forall a, de_elems fuel E t1 first s <> TOk a
    | _ => False
    end.

  Lemma elems_agree t1 : agree_at t1 -> elems_rel t1.
  Proof.
    intros IH es. induction es as [|w1 c w2 rest0 IHr]; intros l fuel fv first s wp rst Hwf Hden Hsh Hwvl Hwp Hdb Hr Hfuel Hfv.
    - cbn [denote_elems] in Hden. injection Hden as <-. cbn [seq_all]. split; [reflexivity|].
      cbn [sfuel] in Hfuel. destruct fuel as [|f]; [lia|]. cbn [seq_text] in Hr.
      rewrite de_elems_S, (hne_fwd_none cf first s rst). 2:{ rewrite Hr. now apply skipws_to. }
      cbn [lift tbind]. exists [], s, wp. auto.
    - cbn [sfuel] in Hfuel. destruct fuel as [|f]; [lia|].
      cbn [wfb_elems] in Hwf. apply andb_prop in Hwf as [Hwf Hwfr]. apply andb_prop in Hwf as [Hwf Hw2].
      apply andb_prop in Hwf as [Hw1 Hwfc].
      cbn [denote_elems] in Hden. destruct (denote cf c) as [v|] eqn:Hdc; [|discriminate].
      destruct (denote_elems cf rest0) as [vs0|] eqn:Hdr; [|discriminate]. injection Hden as <-.
      cbn [shape_elems] in Hsh. apply andb_prop in Hsh as [Hshc Hshr].
      cbn [forallb] in Hwvl. apply andb_prop in Hwvl as [Hwvc Hwvr].
      cbn [cdepth_elems] in Hdb.
      destruct (hne_step first s wp w1 c w2 rest0 rst Hwp Hw1 Hwfc Hr) as (s1 & Hh & Hs1 & Hd1).
      set (rst1 := w2 ++ tail_elems rest0 ++ 93 :: rst) in *.
      rewrite de_elems_S, Hh. cbn [lift tbind]. cbn [seq_all].
      assert (Hel := IH c v f fv s1 [] rst1 Hwfc Hdc Hshc Hwvc eq_refl).
      assert (Hfol1 : follow_ok rst1).
      { unfold rst1. apply follow_ws; [exact Hw2|]. destruct rest0; cbn [tail_elems app follow_ok]; auto. }
      specialize (Hel Hfol1). rewrite Hd1 in Hel. specialize (Hel (dbudget_le _ _ _ _ (Nat.le_max_l _ _) Hdb) Hs1).
      assert (Hf1 : (ty_depth t1 + vfuel c <= f)%nat) by lia. specialize (Hel Hf1 Hfv).
      destruct (de_value_owned fv cf fx t1 v) as [d| | |]; cbn [okrel vbind] in Hel |- *; try contradiction.
      + destruct Hel as (d' & s2 & Hv & Hud & Hr2 & Hd2). rewrite Hv. cbn [tbind].
        assert (Hrest := IHr vs0 f fv false s2 w2 rst Hwfr eq_refl Hshr Hwvr Hw2).
        rewrite Hd2, Hd1 in Hrest. specialize (Hrest (dbudget_le _ _ _ _ (Nat.le_max_r _ _) Hdb)).
        assert (Hr2' : rest s2 = seq_text false w2 rest0 ++ 93 :: rst) by (rewrite Hr2, seq_text_false; unfold rst1; lnorm; reflexivity).
        assert (Hf2 : (ty_depth t1 + sfuel rest0 <= f)%nat) by lia. specialize (Hrest Hr2' Hf2 Hfv).
        destruct (seq_all (de_value_owned fv cf fx t1) vs0) as [[ds rem]| | |]; cbn [vbind]; try contradiction.
        * destruct Hrest as (-> & ds' & s3 & wl & He & Hu & Hwl & Hr3 & Hd3). split; [reflexivity|].
          rewrite He. cbn [tbind]. exists (d' :: ds'), s3, wl. split; [reflexivity|]. cbn [map]. rewrite Hud, Hu.
          split; [reflexivity|]. split; [exact Hwl|]. split; [exact Hr3|]. congruence.
        * intros a. destruct (de_elems f E t1 false s2) as [[ds' s3]| | | |] eqn:He; cbn [tbind]; try discriminate.
          exfalso. exact (Hrest _ eq_refl).
      + intros a. destruct (de_typed f E t1 s1) as [[d' s2]| | | |] eqn:Hv; cbn [tbind]; try discriminate.
        exfalso. exact (Hel _ eq_refl).
  Qed.

  Lemma arr_frame {A} (body : st -> tres (A * st)) w0 es s w rst :
    ws_ok w = true -> rest s = w ++ render (CArr w0 es) ++ rst -> dbudget cf (cdepth (CArr w0 es)) (depth s) ->
    exists s1 s2, deserialize_seq E body s = fix_position E (frame E end_seq end_seq_st body s1)
      /\ enter E s1 = Ok s2 /\ rest (discard s2) = seq_text true w0 es ++ 93 :: rst
      /\ depth s1 = depth s /\ depth (discard s2) = (if limit_disabled cf then depth s else depth s - 1)
      /\ dbudget cf (cdepth_elems es) (depth (discard s2)).
  Proof.
    intros Hw Hr Hdb. rewrite render_arr in Hr. revert Hr. lnorm. intros Hr.
    destruct (pws_head s w 91 _ Hw eq_refl Hr) as (s1 & Hpw & Hr1 & Hd1).
    cbn [cdepth] in Hdb.
    destruct (enter_fwd cf s1) as (s2 & Hen & Hr2 & Hd2).
    { intros Hl. specialize (Hdb Hl). lia. }
    exists s1, s2. unfold deserialize_seq. rewrite Hpw. cbn [lift tbind]. change (91 =? 91) with true. cbv iota.
    split; [reflexivity|]. split; [exact Hen|]. split; [rewrite discard_rest, Hr2, Hr1; reflexivity|]. split; [exact Hd1|].
    split; [rewrite discard_depth, Hd2, Hd1; reflexivity|].
    rewrite discard_depth, Hd2, Hd1. unfold dbudget in *. intros Hl. specialize (Hdb Hl). rewrite Hl. lia.
  Qed.

  Lemma agree_seq t1 : agree_at t1 -> agree_at (TSeq t1).
  Proof.
    intros IH. start_scalar.
    destruct c as [| | |n|ps|w0 es|w0 ms]; destruct v as [|[|]| | |l|]; try discriminate Hsh; cbn [de_value_owned okrel verr].
    all: try (apply (reject_not_ok (TSeq t1) f s w b (r ++ rst) Hw Hbws Hr); kinds Hkind).
    cbn [wfb denote shape] in Hwf, Hden, Hsh. apply andb_prop in Hwf as [Hw0 Hwfe].
    destruct (denote_elems cf es) as [l'|] eqn:Hde; [|discriminate Hden]. injection Hden as <-.
    destruct (arr_frame (fun s' => de_elems f E t1 true s') w0 es s w rst Hw Hr0 Hdb)
      as (s1 & s2 & Hds & Hen & Hrb & Hd1 & Hd2 & Hdb2).
    cbn [de_typed]. rewrite Hds.
    cbn [ty_depth vfuel] in Hfuel, Hfv.
    assert (Hloop := elems_agree t1 IH es l' f fv true (discard s2) w0 rst Hwfe Hde Hsh Hwv Hw0 Hdb2 Hrb).
    assert (Hf1 : (ty_depth t1 + sfuel es <= f)%nat) by lia. assert (Hf2 : (ty_depth t1 <= fv)%nat) by lia.
    specialize (Hloop Hf1 Hf2). unfold visit_array_owned.
    destruct (seq_all (de_value_owned fv cf fx t1) l') as [[ds rem]| | |]; cbn [vbind vmap okrel]; try contradiction.
    - destruct Hloop as (-> & ds' & s3 & wl & He & Hu & Hwl & Hr3 & Hd3). cbn [vbind okrel].
      unfold frame. rewrite Hen. cbn [lift tbind]. rewrite He.
      destruct (leave_fwd cf s3) as (s4 & Hlv & Hr4 & Hd4).
      { intros Hl. specialize (Hdb Hl). cbn [cdepth] in Hdb. rewrite Hd3, Hd2, Hl. lia. }
      rewrite Hlv. cbn [lift tbind].
      destruct (end_seq_fwd cf s4 rst) as (s5 & Hes & Hr5 & Hd5).
      { rewrite Hr4, Hr3. now apply skipws_to. }
      rewrite Hes. cbn [lift tbind fix_position tmap]. exists (DSeq ds'), s5. split; [reflexivity|]. cbn [unborrow]. rewrite Hu.
      split; [reflexivity|]. split; [exact Hr5|].
      rewrite Hd5, Hd4, Hd3, Hd2. unfold dbudget in Hdb. cbn [cdepth] in Hdb. destruct (limit_disabled cf); [reflexivity|].
      specialize (Hdb eq_refl). lia.
    - apply tmap_not_ok. apply fix_position_not_ok. apply (frame_not_ok _ s1 s2 Hen). exact Hloop.
  Qed.

  (* ---- tuples / tuple structs --------------------------------------------------------------------------------------------------- *)
  Lemma shape_nil es l : shape_elems es l = true -> (l = [] <-> es = ENil).
  Proof. destruct es, l; cbn [shape_elems]; intros H; try discriminate H; split; intros H'; try reflexivity; discriminate H'. Qed.

  Definition tuple_rel (ts : list ty) : Prop := forall es l fuel fv first s wp rst D,
    (forall t, In t ts -> agree_at t /\ (ty_depth t <= D)%nat) ->
    wfb_elems es = true -> denote_elems cf es = Some l -> shape_elems es l = true -> forallb (wf_value cf) l = true -> ws_ok wp = true ->
    dbudget cf (cdepth_elems es) (depth s) -> rest s = seq_text first wp es ++ 93 :: rst ->
    (D + sfuel es <= fuel)%nat -> (D <= fv)%nat ->
    match seq_tuple (de_value_owned fv cf fx) ts l with
    | VOk (ds, rem) => exists ds' s' first' wl es', de_tuple fuel E ts first s = TOk (ds', s') /\ map unborrow ds' = map unborrow ds
         /\ ws_ok wl = true /\ rest s' = seq_text first' wl es' ++ 93 :: rst /\ depth s' = depth s
         /\ wfb_elems es' = true /\ (rem = [] <-> es' = ENil)
    | VErr _ _ _ => forall a, de_tuple fuel E ts first s <> TOk a
    | _ => False
    end.

  Lemma sfuel_pos es : (1 <= sfuel es)%nat.
  Proof. destruct es; cbn [sfuel]; lia. Qed.

  Lemma tuple_agree ts : tuple_rel ts.
  Proof.
    induction ts as [|t ts' IHts]; intros es l fuel fv first s wp rst D HIH Hwf Hden Hsh Hwvl Hwp Hdb Hr Hfuel Hfv.
    - cbn [seq_tuple]. pose proof (sfuel_pos es). destruct fuel as [|f]; [lia|]. rewrite de_tuple_S.
      exists [], s, first, wp, es. split; [reflexivity|]. split; [reflexivity|]. split; [exact Hwp|]. split; [exact Hr|].
      split; [reflexivity|]. split; [exact Hwf|]. apply shape_nil. exact Hsh.
    - pose proof (sfuel_pos es). destruct fuel as [|f]; [lia|]. rewrite de_tuple_S.
      destruct es as [|w1 c w2 rest0].
      + destruct l; [|discriminate Hsh]. cbn [seq_tuple verr]. intros a. cbn [seq_text] in Hr.
        rewrite (hne_fwd_none cf first s rst). 2:{ rewrite Hr. now apply skipws_to. }
        cbn [lift tbind]. discriminate.
      + cbn [sfuel] in Hfuel.
        cbn [wfb_elems] in Hwf. apply andb_prop in Hwf as [Hwf Hwfr]. apply andb_prop in Hwf as [Hwf Hw2].
        apply andb_prop in Hwf as [Hw1 Hwfc].
        cbn [denote_elems] in Hden. destruct (denote cf c) as [v|] eqn:Hdc; [|discriminate].
        destruct (denote_elems cf rest0) as [vs0|] eqn:Hdr; [|discriminate]. injection Hden as <-.
        cbn [shape_elems] in Hsh. apply andb_prop in Hsh as [Hshc Hshr].
        cbn [forallb] in Hwvl. apply andb_prop in Hwvl as [Hwvc Hwvr].
        cbn [cdepth_elems] in Hdb.
        destruct (hne_step first s wp w1 c w2 rest0 rst Hwp Hw1 Hwfc Hr) as (s1 & Hh & Hs1 & Hd1).
        set (rst1 := w2 ++ tail_elems rest0 ++ 93 :: rst) in *.
        rewrite Hh. cbn [lift tbind]. cbn [seq_tuple].
        destruct (HIH t (or_introl eq_refl)) as [IHt HtD].
        assert (Hfol1 : follow_ok rst1).
        { unfold rst1. apply follow_ws; [exact Hw2|]. destruct rest0; cbn [tail_elems app follow_ok]; auto. }
        assert (Hel := IHt c v f fv s1 [] rst1 Hwfc Hdc Hshc Hwvc eq_refl Hfol1).
        rewrite Hd1 in Hel. specialize (Hel (dbudget_le _ _ _ _ (Nat.le_max_l _ _) Hdb) Hs1).
        assert (Hf1 : (ty_depth t + vfuel c <= f)%nat) by lia. assert (Hf1' : (ty_depth t <= fv)%nat) by lia.
        specialize (Hel Hf1 Hf1').
        destruct (de_value_owned fv cf fx t v) as [d| | |]; cbn [okrel vbind] in Hel |- *; try contradiction.
        * destruct Hel as (d' & s2 & Hv & Hud & Hr2 & Hd2). rewrite Hv. cbn [tbind].
          assert (Hrest := IHts rest0 vs0 f fv false s2 w2 rst D (fun t' Hin => HIH t' (or_intror Hin)) Hwfr Hdr Hshr Hwvr Hw2).
          rewrite Hd2, Hd1 in Hrest. specialize (Hrest (dbudget_le _ _ _ _ (Nat.le_max_r _ _) Hdb)).
          assert (Hr2' : rest s2 = seq_text false w2 rest0 ++ 93 :: rst) by (rewrite Hr2, seq_text_false; unfold rst1; lnorm; reflexivity).
          assert (Hf2 : (D + sfuel rest0 <= f)%nat) by lia. specialize (Hrest Hr2' Hf2 Hfv).
          destruct (seq_tuple (de_value_owned fv cf fx) ts' vs0) as [[ds rem]| | |]; cbn [vbind]; try contradiction.
          -- destruct Hrest as (ds' & s3 & first' & wl & es' & He & Hu & Hwl & Hr3 & Hd3 & Hwf' & Hrem).
             rewrite He. cbn [tbind]. exists (d' :: ds'), s3, first', wl, es'. split; [reflexivity|]. cbn [map]. rewrite Hud, Hu.
             split; [reflexivity|]. split; [exact Hwl|]. split; [exact Hr3|]. split; [congruence|]. split; [exact Hwf'|exact Hrem].
          -- intros a. destruct (de_tuple f E ts' false s2) as [[ds' s3]| | | |] eqn:He; cbn [tbind]; try discriminate.
             exfalso. exact (Hrest _ eq_refl).
        * intros a. destruct (de_typed f E t s1) as [[d' s2]| | | |] eqn:Hv; cbn [tbind]; try discriminate.
          exfalso. exact (Hel _ eq_refl).
  Qed.

  Definition lmax_depth (ts : list ty) : nat := fold_right (fun t m => Nat.max (ty_depth t) m) O ts.

  Lemma ty_depth_tuple ts : ty_depth (TTuple ts) = S (lmax_depth ts) /\ ty_depth (TTupleStruct ts) = S (lmax_depth ts).
  Proof.
    split; cbn [ty_depth]; f_equal; induction ts as [|t ts IH]; try reflexivity; cbn [lmax_depth fold_right]; rewrite <- IH; reflexivity.
  Qed.

  Lemma lmax_depth_in ts t : In t ts -> (ty_depth t <= lmax_depth ts)%nat.
  Proof.
    induction ts as [|x ts IH]; [intros []|]. cbn [lmax_depth fold_right]. intros [->|Hin]; [lia|]. specialize (IH Hin). unfold lmax_depth in IH. lia.
  Qed.

  Lemma agree_tuple_gen t ts : t = TTuple ts \/ t = TTupleStruct ts -> (forall t', In t' ts -> agree_at t') -> agree_at t.
  Proof.
    intros Ht HIH.
    assert (Hd : ty_depth t = S (lmax_depth ts)) by (destruct Ht; subst; apply ty_depth_tuple).
    assert (Hv : forall fv v, de_value_owned (S fv) cf fx t v
                 = match v with VArr l => vmap DSeq (visit_array_owned l (seq_tuple (de_value_owned fv cf fx) ts)) | _ => verr MInvalidType end)
      by (intros; destruct Ht; subst; reflexivity).
    assert (Ht' : forall f s, de_typed (S f) E t s = tmap DSeq (deserialize_seq E (fun s' => de_tuple f E ts true s') s))
      by (intros; destruct Ht; subst; reflexivity).
    assert (Hrej : forall b, b <> 91 -> rejects t b) by (intros; destruct Ht; subst; assumption).
    intros c v fuel fv s w rst Hwf Hden Hsh Hwv Hw Hfol Hdb Hr Hfuel Hfv. rewrite Hd in Hfuel, Hfv.
    destruct fuel as [|f]; [lia|]. destruct fv as [|fv]; [lia|].
    destruct (render_first c Hwf) as (b & r & Hren & Hbws & Hkind).
    pose proof Hr as Hr0. rewrite Hren in Hr. revert Hr. lnorm. intros Hr.
    rewrite Hv.
    destruct c as [| | |n|ps|w0 es|w0 ms]; destruct v as [|[|]| | |l|]; try discriminate Hsh; cbn [okrel verr].
    all: try (apply (reject_not_ok t f s w b (r ++ rst) Hw Hbws Hr); apply Hrej; kinds Hkind).
    cbn [wfb denote shape] in Hwf, Hden, Hsh. apply andb_prop in Hwf as [Hw0 Hwfe].
    destruct (denote_elems cf es) as [l'|] eqn:Hde; [|discriminate Hden]. injection Hden as <-.
    destruct (arr_frame (fun s' => de_tuple f E ts true s') w0 es s w rst Hw Hr0 Hdb)
      as (s1 & s2 & Hds & Hen & Hrb & Hd1 & Hd2 & Hdb2).
    rewrite Ht', Hds. cbn [vfuel] in Hfuel.
    assert (Hloop := tuple_agree ts es l' f fv true (discard s2) w0 rst (lmax_depth ts)
                       (fun t' Hin => conj (HIH t' Hin) (lmax_depth_in ts t' Hin)) Hwfe Hde Hsh Hwv Hw0 Hdb2 Hrb).
    assert (Hf1 : (lmax_depth ts + sfuel es <= f)%nat) by lia. assert (Hf2 : (lmax_depth ts <= fv)%nat) by lia.
    specialize (Hloop Hf1 Hf2). unfold visit_array_owned.
    destruct (seq_tuple (de_value_owned fv cf fx) ts l') as [[ds rem]| | |]; cbn [vbind vmap okrel]; try contradiction.
    - destruct Hloop as (ds' & s3 & first' & wl & es' & He & Hu & Hwl & Hr3 & Hd3 & Hwf' & Hrem).
      destruct rem as [|x rem]; unfold verr; cbn [vbind vmap okrel].
      + assert (Hes' : es' = ENil) by (apply Hrem; reflexivity). subst es'. cbn [seq_text] in Hr3.
        unfold frame. rewrite Hen. cbn [lift tbind]. rewrite He.
        destruct (leave_fwd cf s3) as (s4 & Hlv & Hr4 & Hd4).
        { intros Hl. specialize (Hdb Hl). cbn [cdepth] in Hdb. rewrite Hd3, Hd2, Hl. lia. }
        rewrite Hlv. cbn [lift tbind].
        destruct (end_seq_fwd cf s4 rst) as (s5 & Hes & Hr5 & Hd5).
        { rewrite Hr4, Hr3. now apply skipws_to. }
        rewrite Hes. cbn [lift tbind fix_position tmap]. exists (DSeq ds'), s5. split; [reflexivity|]. cbn [unborrow]. rewrite Hu.
        split; [reflexivity|]. split; [exact Hr5|].
        rewrite Hd5, Hd4, Hd3, Hd2. unfold dbudget in Hdb. cbn [cdepth] in Hdb. destruct (limit_disabled cf); [reflexivity|].
        specialize (Hdb eq_refl). lia.
      + apply tmap_not_ok. apply fix_position_not_ok. apply (frame_blocked _ s1 s2 ds' s3 Hen He).
        intros s4 s5 Hr4. apply (end_seq_blocked first' wl es' rst s4 Hwl Hwf').
        * intros Hn. apply Hrem in Hn. discriminate Hn.
        * rewrite Hr4. exact Hr3.
    - apply tmap_not_ok. apply fix_position_not_ok. apply (frame_not_ok _ s1 s2 Hen). exact Hloop.
  Qed.

  (* ---- every type program of the sub-universe ------------------------------------------------------------------------------ *)
  Lemma ty_depth_pos t : (1 <= ty_depth t)%nat.
  Proof. destruct t; cbn [ty_depth]; lia. Qed.

  Theorem agree_all : forall n t, (ty_depth t <= n)%nat -> agree_ty t = true -> agree_at t.
  Proof.
    induction n as [|n IH]; intros t Hn Ht; [pose proof (ty_depth_pos t); lia|].
    destruct t; cbn [agree_ty] in Ht; try discriminate Ht.
    - apply agree_value.
    - apply agree_ignored.
    - apply agree_bool.
    - apply agree_int. destruct (is_128 t); [discriminate Ht|reflexivity].
    - apply agree_f64.
    - apply agree_char.
    - apply agree_str.
    - apply (agree_unit_gen TUnit). left. reflexivity.
    - apply (agree_unit_gen TUnitStruct). right. reflexivity.
    - apply agree_option, IH; [cbn [ty_depth] in Hn; lia|exact Ht].
    - apply agree_newtype, IH; [cbn [ty_depth] in Hn; lia|exact Ht].
    - apply agree_seq, IH; [cbn [ty_depth] in Hn; lia|exact Ht].
    - apply (agree_tuple_gen _ ts (or_introl eq_refl)). intros t' Hin. apply IH.
      + pose proof (lmax_depth_in ts t' Hin). rewrite (proj1 (ty_depth_tuple ts)) in Hn. lia.
      + rewrite forallb_forall in Ht. apply Ht, Hin.
    - apply (agree_tuple_gen _ ts (or_intror eq_refl)). intros t' Hin. apply IH.
      + pose proof (lmax_depth_in ts t' Hin). rewrite (proj2 (ty_depth_tuple ts)) in Hn. lia.
      + rewrite forallb_forall in Ht. apply Ht, Hin.
  Qed.
End Agree.
