(* Proofs/ValueDeAgreeStruct.v — C16, second clause, extended to structs (serde_derive's visitor, the universal seed's StructV):
   from_value agrees with the text deserializer on the text the serializer prints for the Value, for the type programs of
   [agree_ty_struct] = [agree_ty_map] (Proofs/ValueDeAgreeMap.v) + `TStruct fields`:
     - a struct given as an object: fields by name in any order, unknown members skipped (IgnoredAny: the Value route drops the Value,
       the text route runs ignore_value over the member), a member naming a field twice is an error on both routes (it cannot occur in
       the Map of a Value, whose keys are distinct), missing Option fields are None, other missing fields an error;
     - a struct given as an array: positional, exactly one element per field.
   The lemmas about the struct visitor ([struct_obj], [struct_arr], [struct_reject]) are stated for [de_struct], which struct
   variants of enums share (Proofs/ValueDeAgreeEnum.v). *)
From SJ Require Import Base.Bytes Base.Utf8 Base.FloatB Gen.Tables
  Model.Read Model.Str Model.Num Model.NumF32 Model.Value Model.De Model.Ignore Model.Ty Model.NumberM Model.DeTyped Model.ValueDe
  Spec.Syntax Spec.Denote Proofs.GrammarIgnore Proofs.GrammarValueComplete Proofs.SerValue Proofs.GrammarValueBase Proofs.GrammarStr Proofs.GrammarNum
  Proofs.ValueDeRef Proofs.ValueDeAgree.
From SJ Require Import Proofs.SerRender Proofs.SerWf Proofs.SerDenote Proofs.ValueDeAgreeKey Proofs.ValueDeAgreeMap.
Require Import Lia ZifyBool ZifyNat ZifyN.
Open Scope N_scope.

(* ---- nesting of a field list -------------------------------------------------------------------------------------------------------------- *)
Definition fmax_depth (fs : list (bytes * ty)) : nat := fold_right (fun p m => Nat.max (ty_depth (snd p)) m) O fs.

Lemma ty_depth_struct fs : ty_depth (TStruct fs) = S (S (fmax_depth fs)).
Proof. reflexivity. Qed.

Lemma fmax_depth_in fs p : In p fs -> (ty_depth (snd p) <= fmax_depth fs)%nat.
Proof.
  induction fs as [|x fs IH]; [intros []|]. cbn [fmax_depth fold_right]. intros [->|Hin]; [lia|]. specialize (IH Hin). unfold fmax_depth in IH. lia.
Qed.

(* ---- slots of the struct visitor ---------------------------------------------------------------------------------------------------------- *)
Lemma slot_filled_ub sl : forall i, slot_filled i (ub_slots sl) = slot_filled i sl.
Proof.
  unfold slot_filled. induction sl as [|x sl IH]; intros i; [destruct i; reflexivity|].
  destruct i as [|i]; cbn [ub_slots map nth]; [destruct x; reflexivity|]. apply IH.
Qed.

Lemma slot_filled_eq a b i : ub_slots a = ub_slots b -> slot_filled i a = slot_filled i b.
Proof. intros H. rewrite <- (slot_filled_ub a), <- (slot_filled_ub b), H. reflexivity. Qed.

Lemma set_slot_length i d : forall sl, length (set_slot i d sl) = length sl.
Proof. induction i as [|i IH]; intros [|x sl]; cbn [set_slot length]; try reflexivity. rewrite IH. reflexivity. Qed.

Lemma ub_slots_length a b : ub_slots a = ub_slots b -> length a = length b.
Proof. intros H. apply (f_equal (@length _)) in H. unfold ub_slots in H. rewrite !map_length in H. exact H. Qed.

Lemma set_slot_eq i d d' a b : unborrow d' = unborrow d -> ub_slots a = ub_slots b -> ub_slots (set_slot i d' a) = ub_slots (set_slot i d b).
Proof. intros Hd H. rewrite !set_slot_ub, Hd, H. reflexivity. Qed.

(* after the loop: the same outcome whatever the reader state, up to borrowing in the slots *)
Lemma finish_rel fields : forall slots slots' s, ub_slots slots' = ub_slots slots -> length slots = length fields ->
  match finish_struct fields slots st0 with
  | TOk ds => exists ds', finish_struct fields slots' s = TOk ds' /\ map unborrow ds' = map unborrow ds
  | TUnpos _ _ => not_ok (finish_struct fields slots' s)
  | _ => False
  end.
Proof.
  induction fields as [|[n t] fs IH]; intros slots slots' s Hub Hlen.
  - cbn [finish_struct]. exists []. split; reflexivity.
  - destruct slots as [|sl r]; [discriminate Hlen|]. destruct slots' as [|sl' r']; [discriminate Hub|].
    cbn [ub_slots map] in Hub. injection Hub as Hsl Hr. cbn [length] in Hlen. injection Hlen as Hlen.
    specialize (IH r r' s Hr Hlen). cbn [finish_struct].
    destruct sl as [d|]; destruct sl' as [d'|]; cbn [option_map] in Hsl; try discriminate Hsl.
    + injection Hsl as Hd. destruct (finish_struct fs r st0) as [ds| | | |]; cbn [tbind]; try contradiction.
      * destruct IH as (ds' & -> & Hu). cbn [tbind]. exists (d' :: ds'). split; [reflexivity|]. cbn [map]. rewrite Hd, Hu. reflexivity.
      * intros a. destruct (finish_struct fs r' s) as [ds'| | | |] eqn:Hf; cbn [tbind]; try discriminate. exfalso. exact (IH _ eq_refl).
    + destruct t; try (intros a; discriminate).
      destruct (finish_struct fs r st0) as [ds| | | |]; cbn [tbind]; try contradiction.
      * destruct IH as (ds' & -> & Hu). cbn [tbind]. exists (DNone :: ds'). split; [reflexivity|]. cbn [map]. rewrite Hu. reflexivity.
      * intros a. destruct (finish_struct fs r' s) as [ds'| | | |] eqn:Hf; cbn [tbind]; try discriminate. exfalso. exact (IH _ eq_refl).
Qed.

Section Struct2.
  Variable NR : numlit -> num -> Prop.
  Variable cf : cfg.
  Variable fx : fenv.
  Hypothesis Hap : arbitrary_precision cf = false.
  Local Notation E := (mkEnv RSlice TEof cf).
  Local Notation shp2 := (shape2 NR).
  Local Notation shp2_elems := (shape2_elems NR).
  Local Notation shp2_members := (shape2_members NR).
  Local Notation agree_at2 := (agree_at2 NR cf fx).

  Lemma de_fields_S f fields slots first s :
    de_fields (S f) E fields slots first s =
    (let^ o := has_next_key E first s in
     match o with
     | None => let+ ds := finish_struct fields slots s in TOk (ds, s)
     | Some s1 =>
       let^ (name, _, s2) := parse_str E (discard s1) in
       match index_of name fields with
       | Some (i, t) =>
         if slot_filled i slots then TUnpos MDuplicateField s2
         else
           let^ s3 := parse_object_colon E s2 in
           let+ (d, s4) := de_typed f E t s3 in
           de_fields f E fields (set_slot i d slots) false s4
       | None =>
         let^ s3 := parse_object_colon E s2 in
         let^ s4 := ignore_value E s3 in
         de_fields f E fields slots false s4
       end
     end).
  Proof. reflexivity. Qed.

  Lemma de_struct_S f fields s :
    de_struct (S f) E fields s =
    tmap DStruct
      (deserialize_struct E
         (fun s' => de_tuple f E (map snd fields) true s')
         (fun s' => de_fields f E fields (map (fun _ => None) fields) true s')
         s).
  Proof. reflexivity. Qed.

  Lemma de_fields_stuck f fields slots s : stuck (rest s) -> not_ok (de_fields f E fields slots false s).
  Proof. intros Hs. destruct f as [|f]; [discriminate|]. rewrite de_fields_S. apply tbind_lift_not_ok, hnk_stuck, Hs. Qed.

  (* ---- the struct visitor's loop over the members ------------------------------------------------------------------------------------ *)
  Definition fields_rel2 (fields : list (bytes * ty)) : Prop := forall ms m fuel fv first s wp rst D slots slots',
    (forall p, In p fields -> agree_at2 (snd p) /\ (ty_depth (snd p) <= D)%nat) ->
    wfb_members ms = true -> denote_members cf ms = Some m -> shp2_members ms m ->
    claim_fields (claimb fv) fields m = true ->
    forallb (fun kv => utf8_valid (fst kv) && wf_value cf (snd kv)) m = true -> ws_ok wp = true ->
    dbudget cf (cdepth_members ms) (depth s) -> rest s = map_text first wp ms ++ 125 :: rst ->
    (D + mfuel ms <= fuel)%nat -> (D < fv)%nat ->
    ub_slots slots' = ub_slots slots -> length slots = length fields ->
    match map_fields (de_value_owned fv cf fx) fields slots m with
    | VOk (ds, rem) => rem = [] /\ exists ds' s' wl, de_fields fuel E fields slots' first s = TOk (ds', s') /\ map unborrow ds' = map unborrow ds
                         /\ ws_ok wl = true /\ rest s' = wl ++ 125 :: rst /\ depth s' = depth s
    | VErr _ _ _ => not_ok (de_fields fuel E fields slots' first s)
    | _ => False
    end.

  Lemma fields_agree2 fields : fields_rel2 fields.
  Proof.
    intros ms. induction ms as [|w1 kp w2 w3 c w4 rest0 IHr];
      intros m fuel fv first s wp rst D slots slots' HIH Hwf Hden Hsh Hcl Hwvl Hwp Hdb Hr Hfuel Hfv Hub Hlen.
    - cbn [denote_members] in Hden. injection Hden as <-. cbn [map_fields].
      cbn [mfuel] in Hfuel. destruct fuel as [|f]; [lia|]. cbn [map_text] in Hr.
      rewrite de_fields_S, (hnk_fwd_none cf first s rst). 2:{ rewrite Hr. now apply skipws_to. }
      cbn [lift tbind]. pose proof (finish_rel fields slots slots' s Hub Hlen) as Hfin.
      destruct (finish_struct fields slots st0) as [ds| | | |]; cbn [of_visit1 vbind verr]; try contradiction.
      + destruct Hfin as (ds' & -> & Hu). cbn [tbind]. split; [reflexivity|]. exists ds', s, wp. auto.
      + intros a. destruct (finish_struct fields slots' s) as [ds'| | | |] eqn:Hf; cbn [tbind]; try discriminate. exfalso. exact (Hfin _ eq_refl).
    - cbn [mfuel] in Hfuel. destruct fuel as [|f]; [lia|].
      cbn [wfb_members] in Hwf. apply andb_prop in Hwf as [Hwf Hwfr]. apply andb_prop in Hwf as [Hwf Hw4].
      apply andb_prop in Hwf as [Hwf Hwfc]. apply andb_prop in Hwf as [Hwf Hw3]. apply andb_prop in Hwf as [Hwf Hw2].
      apply andb_prop in Hwf as [Hw1 Hkok].
      cbn [denote_members] in Hden. destruct (str_text kp) as [kb|] eqn:Hkt; [|discriminate].
      destruct (denote cf c) as [v|] eqn:Hdc; [|discriminate].
      destruct (denote_members cf rest0) as [vs0|] eqn:Hdr; [|discriminate]. injection Hden as <-.
      cbn [shape2_members fst snd] in Hsh. destruct Hsh as (Hkp & Hshc & Hshr).
      cbn [forallb fst snd] in Hwvl. apply andb_prop in Hwvl as [Hwvc Hwvr]. apply andb_prop in Hwvc as [Hu Hwvc].
      unfold claim_fields in Hcl. cbn [forallb fst snd] in Hcl. apply andb_prop in Hcl as [Hclc Hclr]. fold (claim_fields (claimb fv) fields vs0) in Hclr.
      cbn [cdepth_members] in Hdb.
      destruct (hnk_step cf first s wp w1 kp w2 w3 c w4 rest0 rst Hwp Hw1 Hr) as (s1 & Hh & Hs1 & Hd1).
      set (rst1 := w4 ++ tail_members rest0 ++ 125 :: rst) in *.
      set (rstk := w2 ++ 58 :: w3 ++ render c ++ rst1) in *.
      rewrite de_fields_S, Hh. cbn [lift tbind map_fields].
      subst kp. change (flat_map render_piece (pieces_of kb)) with (Lk kb) in Hs1.
      destruct (key_str_read cf kb s1 rstk Hu Hs1) as (bw & s2 & Hps & Hr2 & Hd2). rewrite Hps. cbn [lift tbind].
      destruct (colon_step cf s2 w2 (w3 ++ render c ++ rst1) Hw2 Hr2) as (s3 & Hcol & Hr3 & Hd3).
      assert (Hfol1 : follow_ok rst1) by (apply follow_members_tail; exact Hw4).
      assert (Hdbr : dbudget cf (cdepth_members rest0) (depth s)) by exact (dbudget_le _ _ _ _ (Nat.le_max_r _ _) Hdb).
      assert (Hf2 : (D + mfuel rest0 <= f)%nat) by (clear - Hfuel; lia).
      destruct (index_of kb fields) as [[i t]|] eqn:Hidx.
      + rewrite (slot_filled_eq slots' slots i Hub).
        destruct (slot_filled i slots); [intros a; discriminate|].
        rewrite Hcol. cbn [lift tbind].
        destruct (index_of_In kb fields i t Hidx) as [n Hin]. destruct (HIH (n, t) Hin) as [IHt HtD]. cbn [snd] in IHt, HtD.
        assert (Hel := IHt c v f fv s3 w3 rst1 Hwfc Hdc Hshc Hclc Hwvc Hw3 Hfol1).
        rewrite Hd3, Hd2, Hd1 in Hel. specialize (Hel (dbudget_le _ _ _ _ (Nat.le_max_l _ _) Hdb) Hr3).
        assert (Hf1 : (ty_depth t + vfuel c <= f)%nat) by (clear - Hfuel HtD; lia).
        assert (Hf1' : (ty_depth t < fv)%nat) by (clear - Hfv HtD; lia). specialize (Hel Hf1 Hf1').
        destruct (de_value_owned fv cf fx t v) as [d| | |]; cbn [okrel2 vbind] in Hel |- *; try contradiction.
        * destruct Hel as (d' & s4 & Hv & Hud & Hr4 & Hd4). rewrite Hv. cbn [tbind].
          assert (Hr4' : rest s4 = map_text false w4 rest0 ++ 125 :: rst) by (rewrite Hr4, map_text_false; unfold rst1; lnorm; reflexivity).
          assert (Hrest := IHr vs0 f fv false s4 w4 rst D (set_slot i d slots) (set_slot i d' slots') HIH Hwfr eq_refl Hshr Hclr Hwvr Hw4).
          rewrite Hd4, Hd3, Hd2, Hd1 in Hrest.
          specialize (Hrest Hdbr Hr4' Hf2 Hfv (set_slot_eq i d d' slots' slots Hud Hub)).
          rewrite set_slot_length in Hrest. specialize (Hrest Hlen). exact Hrest.
        * intros a. destruct (de_typed f E t s3) as [[d' s4]| | | |] eqn:Hv; cbn [tbind]; try discriminate.
          specialize (Hel _ _ eq_refl). exact (de_fields_stuck f fields _ s4 Hel a).
      + rewrite Hcol. cbn [lift tbind].
        destruct s3 as [r3 o3 p3 d3]. cbn [rest depth] in Hr3, Hd3. subst r3.
        destruct (ignore_value_complete cf w3 c rst1 o3 p3 d3 Hw3 Hwfc (follow_nfollow _ Hfol1)) as [pk' Hi].
        rewrite Hi. cbn [lift tbind].
        match goal with |- context [de_fields f E fields slots' false ?S4] => set (s4 := S4) end.
        assert (Hr4' : rest s4 = map_text false w4 rest0 ++ 125 :: rst) by (unfold s4; cbn [rest]; rewrite map_text_false; unfold rst1; lnorm; reflexivity).
        assert (Hrest := IHr vs0 f fv false s4 w4 rst D slots slots' HIH Hwfr eq_refl Hshr Hclr Hwvr Hw4).
        unfold s4 at 1 in Hrest. cbn [depth] in Hrest. rewrite Hd3, Hd2, Hd1 in Hrest.
        specialize (Hrest Hdbr Hr4' Hf2 Hfv Hub Hlen).
        destruct (map_fields (de_value_owned fv cf fx) fields slots vs0) as [[ds rem]| | |]; try contradiction.
        * destruct Hrest as (-> & ds' & s5 & wl & He & Hu5 & Hwl & Hr5 & Hd5). split; [reflexivity|].
          exists ds', s5, wl. split; [exact He|]. split; [exact Hu5|]. split; [exact Hwl|]. split; [exact Hr5|].
          rewrite Hd5. unfold s4. cbn [depth]. rewrite Hd3, Hd2, Hd1. reflexivity.
        * exact Hrest.
  Qed.

  (* ---- the three entries of deserialize_struct ------------------------------------------------------------------------------------------ *)
  Lemma struct_reject fields f s w b r : ws_ok w = true -> ws_byte b = false -> rest s = w ++ b :: r -> b <> 91 -> b <> 123 ->
    not_ok (de_struct f E fields s).
  Proof.
    intros Hw Hb Hr H91 H123. destruct f as [|f]; [discriminate|]. rewrite de_struct_S. apply tmap_not_ok'. intros a.
    destruct (pws_head cf s w b r Hw Hb Hr) as (s1 & Hpw & _). unfold deserialize_struct. rewrite Hpw. cbn [lift tbind].
    apply N.eqb_neq in H91, H123. rewrite H91, H123. apply fix_position_not_ok, pit_not_ok.
  Qed.

  Lemma struct_obj fields w0 ms m f fv s w rst D :
    (forall p, In p fields -> agree_at2 (snd p) /\ (ty_depth (snd p) <= D)%nat) ->
    wfb (CObj w0 ms) = true -> denote cf (CObj w0 ms) = Some (VObj m) -> shp2_members ms m -> claim_fields (claimb fv) fields m = true ->
    wf_value cf (VObj m) = true -> ws_ok w = true -> dbudget cf (cdepth (CObj w0 ms)) (depth s) -> rest s = w ++ render (CObj w0 ms) ++ rst ->
    (D + vfuel (CObj w0 ms) <= f)%nat -> (D < fv)%nat ->
    okrel2 unborrow (vmap DStruct (map_any_owned m (map_fields (de_value_owned fv cf fx) fields (empty_slots fields))))
                    (de_struct f E fields s) s rst.
  Proof.
    intros HIH Hwf Hden Hsh Hcl Hwv Hw Hdb Hr0 Hfuel Hfv.
    pose proof (obj_members NR cf w0 ms m Hden Hsh Hwv) as Hdm.
    cbn [wfb] in Hwf. apply andb_prop in Hwf as [Hw0 Hwfm].
    rewrite render_obj in Hr0. revert Hr0. lnorm. intros Hr0.
    destruct (open_frame cf 123 _ (cdepth_members ms) s w Hw eq_refl Hr0 Hdb) as (s1 & s2 & Hpw & Hen & Hrb & Hd1 & Hd2 & Hdb2).
    cbn [vfuel] in Hfuel. destruct f as [|f]; [lia|]. rewrite de_struct_S. unfold deserialize_struct. rewrite Hpw. cbn [lift tbind].
    change (123 =? 91) with false. change (123 =? 123) with true. cbv iota.
    cbn [wf_value] in Hwv. apply andb_prop in Hwv as [Hwe Hkeys].
    assert (Hf1 : (D + mfuel ms <= f)%nat) by (clear - Hfuel; lia).
    assert (Hlen : length (empty_slots fields) = length fields) by (unfold empty_slots; apply map_length).
    assert (Hloop := fields_agree2 fields ms m f fv true (discard s2) w0 rst D (empty_slots fields) (empty_slots fields)
                       HIH Hwfm Hdm Hsh Hcl Hwe Hw0 Hdb2 Hrb Hf1 Hfv eq_refl Hlen).
    unfold map_any_owned.
    destruct (map_fields (de_value_owned fv cf fx) fields (empty_slots fields) m) as [[ds rem]| | |]; cbn [vbind vmap]; try contradiction.
    - destruct Hloop as (-> & ds' & s3 & wl & He & Hu & Hwl & Hr3 & Hd3). cbn [vbind vmap okrel2].
      destruct (close_frame cf end_map end_map_st 125 (fun s' => de_fields f E fields (map (fun _ => None) fields) true s')
                  (cdepth_members ms) s s1 s2 ds' s3 wl rst (closes_map cf) eq_refl Hdb Hen Hd1 Hd2 He Hwl Hr3 Hd3) as (s5 & Hfr & Hr5 & Hd5).
      rewrite Hfr. cbn [fix_position tmap tbind]. exists (DStruct ds'), s5. split; [reflexivity|].
      split; [cbn [unborrow]; f_equal; exact Hu|]. auto.
    - apply okrel2_not_ok. apply tmap_not_ok'. intros a. apply fix_position_not_ok. apply (frame_fail cf _ _ _ s1 s2 Hen). exact Hloop.
  Qed.

  Lemma struct_arr fields w0 es l f fv s w rst D :
    (forall p, In p fields -> agree_at2 (snd p) /\ (ty_depth (snd p) <= D)%nat) ->
    wfb (CArr w0 es) = true -> denote cf (CArr w0 es) = Some (VArr l) -> shp2_elems es l -> claim_list (claimb fv) (map snd fields) l = true ->
    wf_value cf (VArr l) = true -> ws_ok w = true -> dbudget cf (cdepth (CArr w0 es)) (depth s) -> rest s = w ++ render (CArr w0 es) ++ rst ->
    (D + vfuel (CArr w0 es) <= f)%nat -> (D < fv)%nat ->
    okrel2 unborrow (vmap DStruct (visit_array_owned l (seq_tuple (de_value_owned fv cf fx) (map snd fields))))
                    (de_struct f E fields s) s rst.
  Proof.
    intros HIH Hwf Hden Hsh Hcl Hwv Hw Hdb Hr0 Hfuel Hfv.
    cbn [wfb denote] in Hwf, Hden. apply andb_prop in Hwf as [Hw0 Hwfe].
    destruct (denote_elems cf es) as [l'|] eqn:Hde; [|discriminate Hden]. injection Hden as <-.
    rewrite render_arr in Hr0. revert Hr0. lnorm. intros Hr0.
    destruct (open_frame cf 91 _ (cdepth_elems es) s w Hw eq_refl Hr0 Hdb) as (s1 & s2 & Hpw & Hen & Hrb & Hd1 & Hd2 & Hdb2).
    cbn [vfuel] in Hfuel. destruct f as [|f]; [lia|]. rewrite de_struct_S. unfold deserialize_struct. rewrite Hpw. cbn [lift tbind].
    change (91 =? 91) with true. cbv iota. cbn [wf_value] in Hwv.
    apply (tuple_array NR cf fx Hap DStruct (map snd fields) w0 es l' f fv s s1 s2 rst D); try assumption; [| |clear - Hfuel; lia].
    - intros a b' Hab. cbn [unborrow]. rewrite Hab. reflexivity.
    - intros t Hin. apply in_map_iff in Hin as (p & <- & Hp). apply HIH, Hp.
  Qed.

  Lemma agree_struct2 fields : (forall p, In p fields -> agree_at2 (snd p)) -> agree_at2 (TStruct fields).
  Proof.
    intros HIH c v fuel fv s w rst Hwf Hden Hsh Hcl Hwv Hw Hfol Hdb Hr Hfuel Hfv. rewrite ty_depth_struct in Hfuel, Hfv.
    destruct fuel as [|f]; [lia|]. destruct fv as [|fv]; [lia|].
    assert (HIH' : forall p, In p fields -> agree_at2 (snd p) /\ (ty_depth (snd p) <= S (fmax_depth fields))%nat).
    { intros p Hp. split; [apply HIH, Hp|]. pose proof (fmax_depth_in fields p Hp). lia. }
    destruct (render_first c Hwf) as (b & r & Hren & Hbws & _).
    pose proof Hr as Hr0. rewrite Hren in Hr. revert Hr. lnorm. intros Hr.
    destruct (first_not c b r Hwf Hren) as (_ & Hn91 & Hn123 & _).
    change (de_typed (S f) E (TStruct fields) s) with (de_struct f E fields s).
    destruct c as [| | |n|ps|w0 es|w0 ms]; destruct v as [|[|]| | |l|m]; cbn [shape2 shape] in Hsh; try discriminate Hsh; try contradiction;
      cbn [de_value_owned]; unfold verr.
    all: try (apply okrel2_not_ok; apply (struct_reject fields f s w b (r ++ rst) Hw Hbws Hr); [apply Hn91|apply Hn123]; intros; discriminate).
    - cbn [claimb] in Hcl. apply (struct_arr fields w0 es l f fv s w rst (S (fmax_depth fields))); try assumption; [clear - Hfuel; lia|clear - Hfv; lia].
    - cbn [claimb] in Hcl. apply (struct_obj fields w0 ms m f fv s w rst (S (fmax_depth fields))); try assumption; [clear - Hfuel; lia|clear - Hfv; lia].
  Qed.

  (* ---- every type program of this stage ------------------------------------------------------------------------------------------ *)
  Fixpoint agree_ty_struct (t : ty) : bool :=
    match t with
    | TBool | TUnit | TUnitStruct | TStr | TChar | TF64 | TIgnored | TValue => true
    | TInt it => negb (is_128 it)
    | TOption t1 | TNewtype t1 | TSeq t1 => agree_ty_struct t1
    | TTuple ts | TTupleStruct ts => forallb agree_ty_struct ts
    | TMap k t1 => agree_kty k && agree_ty_struct t1
    | TStruct fs => forallb (fun p => agree_ty_struct (snd p)) fs
    | _ => false
    end.

  Theorem agree_all_struct : forall n t, (ty_depth t <= n)%nat -> agree_ty_struct t = true -> agree_at2 t.
  Proof.
    induction n as [|n IH]; intros t Hn Ht; [pose proof (ty_depth_pos' t); lia|].
    destruct t; cbn [agree_ty_struct] in Ht; try discriminate Ht; try (apply (agree_leaf2 NR cf fx Hap); exact Ht).
    - apply (agree_option2 NR cf fx Hap), IH; [cbn [ty_depth] in Hn; lia|exact Ht].
    - apply (agree_newtype2 NR cf fx Hap), IH; [cbn [ty_depth] in Hn; lia|exact Ht].
    - apply (agree_seq2 NR cf fx Hap), IH; [cbn [ty_depth] in Hn; lia|exact Ht].
    - apply (agree_tuple_gen2 NR cf fx Hap _ ts (or_introl eq_refl)). intros t' Hin. apply IH.
      + pose proof (lmax_depth_in' ts t' Hin). rewrite (proj1 (ty_depth_tuple ts)) in Hn. lia.
      + rewrite forallb_forall in Ht. apply Ht, Hin.
    - apply (agree_tuple_gen2 NR cf fx Hap _ ts (or_intror eq_refl)). intros t' Hin. apply IH.
      + pose proof (lmax_depth_in' ts t' Hin). rewrite (proj2 (ty_depth_tuple ts)) in Hn. lia.
      + rewrite forallb_forall in Ht. apply Ht, Hin.
    - apply andb_prop in Ht as [Hk Ht]. apply (agree_map2 NR cf fx Hap); [exact Hk|]. apply IH; [cbn [ty_depth] in Hn; lia|exact Ht].
    - apply agree_struct2. intros p Hp. apply IH.
      + pose proof (fmax_depth_in fields p Hp). rewrite ty_depth_struct in Hn. lia.
      + rewrite forallb_forall in Ht. apply Ht, Hp.
  Qed.
End Struct2.

Lemma agree_ty_struct_noenum : forall n t, (ty_depth t <= n)%nat -> agree_ty_struct t = true -> no_enum t = true.
Proof.
  induction n as [|n IH]; intros t Hn Ht; [pose proof (ty_depth_pos' t); lia|].
  destruct t; cbn [agree_ty_struct] in Ht; try discriminate Ht; cbn [no_enum]; try reflexivity.
  - apply IH; [cbn [ty_depth] in Hn; lia|exact Ht].
  - apply IH; [cbn [ty_depth] in Hn; lia|exact Ht].
  - apply IH; [cbn [ty_depth] in Hn; lia|exact Ht].
  - apply forallb_forall. intros t' Hin. apply IH.
    + pose proof (lmax_depth_in' ts t' Hin). rewrite (proj1 (ty_depth_tuple ts)) in Hn. lia.
    + rewrite forallb_forall in Ht. apply Ht, Hin.
  - apply forallb_forall. intros t' Hin. apply IH.
    + pose proof (lmax_depth_in' ts t' Hin). rewrite (proj2 (ty_depth_tuple ts)) in Hn. lia.
    + rewrite forallb_forall in Ht. apply Ht, Hin.
  - apply andb_prop in Ht as [_ Ht]. apply IH; [cbn [ty_depth] in Hn; lia|exact Ht].
  - apply forallb_forall. intros p Hp. apply IH.
    + pose proof (fmax_depth_in fields p Hp). rewrite ty_depth_struct in Hn. lia.
    + rewrite forallb_forall in Ht. apply Ht, Hp.
Qed.

(* ---- C16 for structs --------------------------------------------------------------------------------------------------------------------------- *)
From SJ Require Import Model.Sval Model.Ser Model.ValueSer Spec.Layout Proofs.SerBase Proofs.SerMain Proofs.SerFinal Proofs.ValueDeText.

(* from_value::<T>(v) against from_str::<T>(to_string(&v)) for every T of [agree_ty_struct]: the types of C16_agree_map and structs
   with named fields (given as objects or as arrays), nested arbitrarily. *)
Theorem C16_agree_struct : forall cf fx fmt32 fmt64 t v,
  arbitrary_precision cf = false -> ryu_json fmt32 fmt64 -> ryu_reads_back_value cf fmt64 ->
  agree_ty_struct t = true -> wf_value cf v = true ->
  exists bufs c, serialize cf fmt32 fmt64 Compact (sval_of_value v) = Ok bufs /\ concat bufs = render c /\
    ((limit_disabled cf = false -> (cdepth c <= 127)%nat) ->
     agree (from_value_owned cf fx t v) (from_input_typed (mkEnv RSlice TEof cf) t (concat bufs))).
Proof.
  intros cf fx fmt32 fmt64 t v Hap HR H4 Ht W.
  apply (agree_text_gen cf fx fmt32 fmt64 t v Hap HR H4); [|exact W|].
  - exact (agree_all_struct (NRser cf fmt32 fmt64) cf fx Hap (ty_depth t) t (le_n _) Ht).
  - apply claimb_noenum. exact (agree_ty_struct_noenum (ty_depth t) t (le_n _) Ht).
Qed.

Print Assumptions C16_agree_struct.
