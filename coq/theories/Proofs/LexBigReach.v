(* Proofs/LexBigReach.v — the operand range of the parser: whenever the float parsing algorithm of Model/Lex.v reaches
   bhcomp (trace TBh of parse_concise_float / parse_truncated_float), the scaled exponent lies in (-1119, 331), well
   inside the range (-2048, 1024) on which the limb-level bhcomp is total (LexBigRefine.bhcomp_refines).  Hence:

     concise_bh_refined     for every u64 mantissa and every exponent: if concise_trace is  TBh fp b bits  then
                            bhcomp_l k b (itoa mantissa) [] mant_exp = Some bits
     truncated_bh_refined   for digit strings as de.rs passes them: if the trace of parse_truncated_float is  TBh fp b bits
                            then  bhcomp_l k b integer (strip_trailing_zeros fraction) exponent = Some bits

   i.e. on every path the parser can take, the limb arithmetic of math.rs does not panic (Karatsuba is never entered:
   imul_pow5 always takes the path by small powers) and computes what the Z abstraction of Model/Lex.v computes.

   Why the range: bhcomp is reached only when the moderate path is invalid, which needs  -350 <= mantissa_exp < 310
   (outside, multiply_exponent_extended returns a valid zero / infinity).  With S significant digits, of which the u64
   mantissa holds S - t (between 1 and 20), the scaled exponent is  mantissa_exp - t + max 0 (S - MAX_DIGITS). *)
From Coq Require Import ZArith NArith Lia List Bool.
From SJ Require Import Base.Bytes Gen.LexTables Model.Num Model.Lex Model.LexBig.
From SJ Require Import Proofs.LexBh Proofs.LexFull Proofs.LexBigBase Proofs.LexBigRefine.
Import ListNotations.
Open Scope Z_scope.

Notation alldig l := (forallb is_digit l = true).
Notation dv l := (digits_val l 0).
Notation len l := (Z.of_nat (length l)).

(* ------------------------------------------------------------------------------------------------ *)
(** * the moderate path is invalid only for -350 <= exponent < 310 *)
Lemma moderate_invalid_range (k : fkind) (w : N) (mexp : Z) (truncated : bool) (fp : efloat) :
  moderate_path k w mexp truncated = (fp, false) -> -350 <= mexp < 310.
Proof.
  unfold moderate_path, multiply_exponent_extended. cbv zeta.
  change BASE10_BIAS with 350. change BASE10_STEP with 10. change (Z.of_nat (length BASE10_LARGE_MANTISSA)) with 66.
  set (E := i32_sat (mexp + 350)).
  destruct (Z.ltb_spec E 0) as [H1|H1]; [intros H; discriminate H|].
  destruct (Z.leb_spec 66 (Z.quot E 10)) as [H2|H2]; [intros H; discriminate H|].
  intros _. rewrite Z.quot_div_nonneg in H2 by lia.
  assert (E < 660) by (Z.div_mod_to_equations; lia).
  subst E. unfold i32_sat in *. lia.
Qed.

(* ------------------------------------------------------------------------------------------------ *)
(** * the scaled exponent and the mantissa in terms of the significant digits (as LexBh.bhcomp_sig) *)
Lemma bh_scaled_sig (k : fkind) (integer fraction : bytes) (exponent : Z) :
  alldig integer -> alldig fraction -> (integer = [] \/ hd 0%N integer <> 48%N) ->
  -1000000000 <= exponent <= 1000000000 -> len integer + len fraction <= 1000000000 ->
  exists sig : bytes,
    alldig sig /\ dv sig = dv (integer ++ fraction) /\ (sig = [] \/ hd 0%N sig <> 48%N) /\
    bh_scaled_exponent k integer fraction exponent = exponent - len fraction + Z.max 0 (len sig - Z.of_nat (MAX_DIGITS k)) /\
    bh_mantissa k integer fraction = pm k sig.
Proof.
  intros Hi Hf Hlead He Hl.
  destruct integer as [|c ri].
  - destruct (clz_spec fraction Hf) as (Hz1 & Hz2 & Hz3 & Hz4 & Hz5). cbv zeta in *.
    set (z := count_leading_zeros fraction) in *.
    exists (skipn z fraction). cbn [app]. split; [exact Hz3|]. split; [exact Hz2|]. split; [exact Hz5|].
    unfold bh_scaled_exponent, bh_mantissa, bh_digits_start. cbn [length]. fold z. cbv zeta. rewrite parse_mantissa_pm. cbn [app].
    split; [|reflexivity].
    unfold scientific_exponent. cbn [length] in Hl.
    rewrite into_i32_id by lia. rewrite (i32_sat_id (exponent - Z.of_nat z)) by lia. rewrite i32_sat_id by lia.
    rewrite Hz4. lia.
  - exists ((c :: ri) ++ fraction). split; [apply alldig_app; assumption|]. split; [reflexivity|].
    split; [right; destruct Hlead as [H|H]; [discriminate H|exact H]|].
    unfold bh_scaled_exponent, bh_mantissa, bh_digits_start. cbv zeta. rewrite parse_mantissa_pm. cbn [length skipn].
    split; [|reflexivity].
    unfold scientific_exponent. cbn [length] in Hl.
    rewrite into_i32_id by lia. rewrite i32_sat_id by lia.
    rewrite app_length. cbn [length]. lia.
Qed.

Lemma pm_pos (k : fkind) (sig : bytes) : alldig sig -> (sig = [] \/ hd 0%N sig <> 48%N) -> 0 < dv sig -> 0 < pm k sig.
Proof.
  intros Hd Hlead Hpos.
  destruct (le_gt_dec (length sig) (MAX_DIGITS k - 1)) as [Hshort|Hlong].
  - rewrite pm_short by exact Hshort. exact Hpos.
  - assert (Hne : hd 0%N sig <> 48%N) by (destruct Hlead as [->|H]; [cbn [length] in Hlong; lia|exact H]).
    destruct (pm_long k sig Hd ltac:(lia) Hne) as (A & R & r & _ & _ & _ & _ & HA & ->).
    pose proof (MAX_DIGITS_ge k).
    assert (0 < 10 ^ (Z.of_nat (MAX_DIGITS k) - 2)) by (apply Z.pow_pos_nonneg; lia).
    destruct (0 <? R); lia.
Qed.

(* S digits, the first one non-zero *)
Lemma dv_digits (sig : bytes) : alldig sig -> (sig = [] \/ hd 0%N sig <> 48%N) -> 0 < dv sig ->
  10 ^ (len sig - 1) <= dv sig < 10 ^ len sig.
Proof.
  intros Hd Hlead Hpos. pose proof (dv_bound sig Hd) as Hb. split; [|lia].
  destruct sig as [|c r]; [cbn in Hpos; lia|].
  destruct Hlead as [H|H]; [discriminate H|]. cbn [hd] in H.
  pose proof (dv_lower c r Hd H) as Hlo. cbn [length]. replace (Z.of_nat (S (length r)) - 1) with (len r) by lia. exact Hlo.
Qed.

Lemma pow10_lt_inv (a b : Z) : 0 <= a -> 0 <= b -> 10 ^ a < 10 ^ b -> a < b.
Proof. intros Ha Hb H. apply (Z.pow_lt_mono_r_iff 10); lia. Qed.

(* ------------------------------------------------------------------------------------------------ *)
(** * bhcomp at limb level on the parser's range *)
Theorem bh_reach (k : fkind) (b : N) (integer fraction : bytes) (exponent : Z) (w : N) (t : nat) (rest mexp : Z) :
  alldig integer -> alldig fraction -> (integer = [] \/ hd 0%N integer <> 48%N) ->
  -1000000000 <= exponent <= 1000000000 -> len integer + len fraction <= 1000000000 ->
  dv (integer ++ fraction) = Z.of_N w * 10 ^ Z.of_nat t + rest -> 0 <= rest < 10 ^ Z.of_nat t ->
  (0 < w)%N -> (w < two64N)%N ->
  mexp = exponent - len fraction + Z.of_nat t -> -350 <= mexp < 310 ->
  -1119 < bh_scaled_exponent k integer fraction exponent < 331
  /\ bhcomp_l k b integer fraction exponent = Some (bhcomp k b integer fraction exponent).
Proof.
  intros Hi Hf Hlead He Hl HD Hrest Hw0 Hw64 Hmexp Hrange.
  destruct (bh_scaled_sig k integer fraction exponent Hi Hf Hlead He Hl) as (sig & Hsd & Hsv & Hsl & Hsc & Hsm).
  assert (P10 : 0 < 10 ^ Z.of_nat t) by (apply Z.pow_pos_nonneg; lia).
  assert (HDpos : 0 < dv sig) by (rewrite Hsv, HD; nia).
  destruct (dv_digits sig Hsd Hsl HDpos) as (Hlo & Hhi).
  assert (HS1 : 1 <= len sig) by (destruct sig; [cbn in HDpos; lia|cbn [length]; lia]).
  (* t < S <= t + 20 *)
  assert (Ht1 : Z.of_nat t < len sig).
  { apply pow10_lt_inv; try lia. rewrite Hsv, HD in Hhi. nia. }
  assert (Ht2 : len sig - 1 < 20 + Z.of_nat t).
  { apply pow10_lt_inv; try lia. rewrite Z.pow_add_r by lia.
    assert (Z.of_N w + 1 <= 10 ^ 20) by (unfold two64N in Hw64; change (10 ^ 20) with 100000000000000000000; lia).
    rewrite Hsv, HD in Hlo. nia. }
  pose proof (MAX_DIGITS_bounds k) as HMX.
  assert (Hscr : -1119 < bh_scaled_exponent k integer fraction exponent < 331) by (rewrite Hsc; lia).
  split; [exact Hscr|].
  apply bhcomp_refines; try assumption; [|lia].
  rewrite Hsm. apply pm_pos; assumption.
Qed.

(* ------------------------------------------------------------------------------------------------ *)
(** * parse_concise_float *)
Theorem concise_bh_refined (k : fkind) (mantissa : N) (mant_exp : Z) (fp : efloat) (b bits : N) :
  (mantissa < two64N)%N -> concise_trace k mantissa mant_exp = TBh fp b bits ->
  bhcomp_l k b (itoa mantissa) [] mant_exp = Some bits.
Proof.
  intros Hm. unfold concise_trace.
  destruct (fast_path k mantissa mant_exp) as [f|] eqn:Hfast; [discriminate|].
  assert (Hpos : (0 < mantissa)%N).
  { destruct (N.eq_dec mantissa 0) as [->|Hne]; [|lia]. unfold fast_path in Hfast. cbn [N.eqb] in Hfast. discriminate Hfast. }
  destruct (moderate_path k mantissa mant_exp false) as (fp0, valid) eqn:Hmp.
  unfold slow_tail. destruct valid; [discriminate|].
  destruct (f_is_special k (ef_into_downward_float k fp0)); [discriminate|].
  intros H. injection H as _ <- <-.
  destruct (itoa_facts mantissa Hpos Hm) as (Hd & Hv & Hhd & Hlen).
  pose proof (moderate_invalid_range k mantissa mant_exp false fp0 Hmp) as Hrange.
  apply (bh_reach k _ (itoa mantissa) [] mant_exp mantissa 0 0 mant_exp); try assumption; try reflexivity.
  - right. exact Hhd.
  - lia.
  - cbn [length]. lia.
  - rewrite app_nil_r, Hv. change (Z.of_nat 0) with 0. rewrite Z.pow_0_r. lia.
  - change (Z.of_nat 0) with 0. rewrite Z.pow_0_r. lia.
  - cbn [length]. lia.
Qed.

(* ------------------------------------------------------------------------------------------------ *)
(** * parse_truncated_float *)
Theorem truncated_bh_refined (k : fkind) (integer fraction : bytes) (exponent : Z) (fp : efloat) (b bits : N) :
  alldig integer -> alldig fraction -> (integer = [] \/ hd 0%N integer <> 48%N) ->
  -1000000000 <= exponent <= 1000000000 -> len integer + len fraction <= 1000000000 ->
  0 < dv (integer ++ strip_trailing_zeros fraction) ->
  snd (truncated_trace k integer fraction exponent) = TBh fp b bits ->
  bhcomp_l k b integer (strip_trailing_zeros fraction) exponent = Some bits.
Proof.
  intros Hi Hf Hlead Hexp Hlen HD. unfold truncated_trace. cbv zeta.
  destruct (strip_alldig fraction Hf) as (Hfr & Hfrl). set (fr := strip_trailing_zeros fraction) in *.
  pose proof (trunc_loop_spec (integer ++ fr) 0%N ltac:(rewrite forallb_app, Hi, Hfr; reflexivity) ltac:(reflexivity)) as Htl.
  cbv zeta in Htl. destruct (trunc_loop (integer ++ fr) 0) as (w, t) eqn:Hloop. cbn [fst snd] in Htl.
  destruct Htl as (Ht & Hw & rest & Hval & Hrest & Hbig). change (Z.of_N 0) with 0 in Hval.
  cbn [snd]. rewrite app_length in Ht.
  assert (Hme : mantissa_exponent exponent (length fr) t = exponent - Z.of_nat (length fr) + Z.of_nat t).
  { unfold mantissa_exponent. destruct (Nat.ltb_spec t (length fr)) as [Hlt|Hge].
    - rewrite into_i32_id by lia. rewrite i32_sat_id by lia. lia.
    - rewrite into_i32_id by lia. rewrite i32_sat_id by lia. lia. }
  assert (Hwpos : (0 < w)%N).
  { destruct (N.eq_dec w 0) as [->|Hne]; [exfalso|lia].
    destruct t as [|t']; [cbn in Hrest; lia|]. specialize (Hbig ltac:(discriminate)). cbn in Hbig. lia. }
  unfold fallback_trace.
  destruct (moderate_path k w (mantissa_exponent exponent (length fr) t) true) as (fp0, valid) eqn:Hmp.
  unfold slow_tail. destruct valid; [discriminate|].
  destruct (f_is_special k (ef_into_downward_float k fp0)); [discriminate|].
  intros H. injection H as _ <- <-.
  pose proof (moderate_invalid_range k w _ true fp0 Hmp) as Hrange. rewrite Hme in Hrange.
  apply (bh_reach k _ integer fr exponent w t rest (exponent - len fr + Z.of_nat t)); try assumption; try reflexivity; lia.
Qed.

Print Assumptions concise_bh_refined.
Print Assumptions truncated_bh_refined.
