(* Proofs/LexOracle.v — the overflow side of the oracle `rne_decimal`, complementing FloatOracle.rne_decimal_correct
   (which covers literals whose correctly rounded value is finite):

     rne_decimal_overflow : if round-to-nearest-even of m * 10^e reaches 2^1024 then rne_decimal m e is +infinity
                            (so the parser model answers NumberOutOfRange exactly on those literals)
     rne_decimal_zero     : a zero significand gives +0
     rne_decimal_value    : the oracle depends on (m, e) only through the real number m * 10^e
   These are facts about Base/FloatB.rne_decimal only. *)
From Coq Require Import ZArith NArith Reals Lia Lra List Bool Psatz.
From Flocq Require Import Core BinarySingleNaN Round_odd.
From SJ Require Import Base.Bytes Base.FloatB Gen.Tables Model.Read Model.Num.
From SJ Require Import Proofs.FloatDefault Proofs.FloatOracle.
Open Scope Z_scope.

Lemma bn_overflow (m e : Z) (sz : bool) :
  (0 < F2R (Float radix2 m e))%R ->
  (bpow radix2 1024 <= Rabs (RNE64 (F2R (Float radix2 m e))))%R ->
  binary_normalize 53 1024 prec53_gt_0 prec53_lt_emax mode_NE m e sz = B754_infinity false.
Proof.
  intros Hpos Hge.
  pose proof (binary_normalize_correct 53 1024 prec53_gt_0 prec53_lt_emax mode_NE m e sz) as H.
  cbn zeta in H. cbn [round_mode] in H. rewrite fexp64_conv in H. fold (RNE64 (F2R (Float radix2 m e))) in H.
  rewrite Rlt_bool_false in H by exact Hge.
  rewrite Rlt_bool_false in H by (apply Rlt_le; exact Hpos).
  unfold binary_overflow in H. cbn [overflow_to_inf] in H.
  destruct (binary_normalize 53 1024 prec53_gt_0 prec53_lt_emax mode_NE m e sz) as [s|s| |s mm ee Hb];
    cbn [B2SF] in H; try discriminate H.
  injection H as ->. reflexivity.
Qed.

Theorem rne_decimal_zero : forall e, rne_decimal 0 e = B754_zero false.
Proof. intros e. reflexivity. Qed.

Theorem rne_decimal_overflow : forall m e, (0 < m)%Z ->
  (bpow radix2 1024 <= Rabs (RNE64 (IZR m * powerRZ 10 e)))%R ->
  rne_decimal m e = B754_infinity false.
Proof.
  intros m e Hm Hge. unfold rne_decimal.
  replace (m <=? 0) with false by (symmetry; apply Z.leb_gt; exact Hm).
  destruct (Z.ltb_spec 400 e) as [Hbig|Hle]; [reflexivity|].
  destruct (Z.ltb_spec e (- (400 + Z.log2 m))) as [Hsmall|Hge'].
  { exfalso. rewrite RNE64_tiny in Hge by (apply guard_small; assumption).
    rewrite Rabs_R0 in Hge. pose proof (bpow_gt_0 radix2 1024). lra. }
  destruct (Z.leb_spec 0 e) as [Hpos|Hneg].
  - assert (HF : F2R (Float radix2 (m * 10 ^ e) 0) = (IZR m * powerRZ 10 e)%R).
    { rewrite F2R_e0, mult_IZR, powerRZ_10_nonneg by exact Hpos. reflexivity. }
    apply bn_overflow.
    + rewrite HF. rewrite powerRZ_10_nonneg by exact Hpos.
      apply Rmult_lt_0_compat; apply IZR_lt; [exact Hm|apply pow10_pos; exact Hpos].
    + rewrite HF. exact Hge.
  - cbn zeta.
    set (d := 10 ^ (- e)). set (k := Z.max 0 (70 + Z.log2_up d - Z.log2 m)).
    assert (Hd1 : 1 < d).
    { unfold d. apply Z.lt_le_trans with (10 ^ 1); [reflexivity|apply Z.pow_le_mono_r; lia]. }
    destruct (scale_big m d Hm Hd1) as (Hk & Hbig). fold k in Hk, Hbig.
    assert (Hd : 0 < d) by lia.
    change (if m * 2 ^ k mod d =? 0 then m * 2 ^ k / d
            else if Z.even (m * 2 ^ k / d) then m * 2 ^ k / d + 1 else m * 2 ^ k / d)
      with (odd_fix (m * 2 ^ k) d).
    assert (Hx : (IZR m * powerRZ 10 e = IZR m / IZR d)%R).
    { replace e with (- (- e)) by lia. rewrite powerRZ_10_neg by lia. reflexivity. }
    rewrite Hx in Hge.
    pose proof (oq_RNE m d k Hm Hd Hk Hbig) as HR.
    apply bn_overflow.
    + apply F2R_gt_0. cbn [Fnum]. apply (oq_num_pos m d k Hm Hd Hk Hbig).
    + rewrite HR. exact Hge.
Qed.

(* finite or infinite, never NaN, never negative *)
Theorem rne_decimal_cases : forall m e, (0 <= m)%Z ->
  (is_finite (rne_decimal m e) = true /\ Bsign (rne_decimal m e) = false /\
   B2R (rne_decimal m e) = RNE64 (IZR m * powerRZ 10 e) /\
   (Rabs (RNE64 (IZR m * powerRZ 10 e)) < bpow radix2 1024)%R)
  \/ (rne_decimal m e = B754_infinity false /\ (bpow radix2 1024 <= Rabs (RNE64 (IZR m * powerRZ 10 e)))%R).
Proof.
  intros m e Hm.
  destruct (Z.eq_dec m 0) as [->|Hne].
  { left. rewrite rne_decimal_zero. cbn [is_finite Bsign B2R]. rewrite Rmult_0_l, RNE64_0, Rabs_R0.
    repeat split; try reflexivity. apply bpow_gt_0. }
  assert (Hpos : 0 < m) by lia.
  destruct (Rlt_le_dec (Rabs (RNE64 (IZR m * powerRZ 10 e))) (bpow radix2 1024)) as [Hlt|Hge].
  - left. destruct (rne_decimal_correct m e Hpos Hlt) as (H1 & H2 & H3). repeat split; assumption.
  - right. split; [apply rne_decimal_overflow; assumption|exact Hge].
Qed.

(* the oracle is a function of the real number denoted *)
Theorem rne_decimal_value : forall m e m' e', (0 <= m)%Z -> (0 <= m')%Z ->
  (IZR m * powerRZ 10 e = IZR m' * powerRZ 10 e')%R ->
  rne_decimal m e = rne_decimal m' e'.
Proof.
  intros m e m' e' Hm Hm' Heq.
  destruct (rne_decimal_cases m e Hm) as [(F1 & S1 & R1 & L1)|(I1 & G1)];
  destruct (rne_decimal_cases m' e' Hm') as [(F2 & S2 & R2 & L2)|(I2 & G2)].
  - apply B2R_Bsign_inj; try assumption.
    + rewrite R1, R2, Heq. reflexivity.
    + rewrite S1, S2. reflexivity.
  - exfalso. rewrite Heq in L1. lra.
  - exfalso. rewrite Heq in G1. lra.
  - rewrite I1, I2. reflexivity.
Qed.

Print Assumptions rne_decimal_overflow.
Print Assumptions rne_decimal_value.
