(* Proofs/PrefixTotal.v — C10 / C13 in their full form: the prefix dichotomy (Proofs/Prefix.v)
   combined with totality (Proofs/Total.v: from_input is never OutOfFuel / Panic). *)
From SJ Require Import Base.Bytes Base.FloatB Gen.Tables Model.Read Model.Str Model.Num Model.Value Model.De Model.Ignore.
From SJ Require Import Proofs.PrefixBase Proofs.Prefix.
From SJ Require Proofs.Total.
Open Scope N_scope.

Theorem C10_value_full : forall rk cf p t v, t <> [] ->
  from_input (mkEnv rk TEof cf) (p ++ t) = Ok v ->
  match from_input (mkEnv rk TEof cf) p with
  | Ok _ => True
  | Err c i => eofish c /\ i = length p
  | OutOfFuel | Panic => False
  end.
Proof.
  intros rk cf p t v Ht Hok. pose proof (C10_value rk cf p t v Ht Hok) as H.
  pose proof (Total.from_input_no_fuel_strong (mkEnv rk TEof cf) p) as Hf.
  destruct (from_input (mkEnv rk TEof cf) p); auto.
Qed.

Theorem C10_ignored_full : forall rk cf p t v, t <> [] ->
  ignored_from_input (mkEnv rk TEof cf) (p ++ t) = Ok v ->
  match ignored_from_input (mkEnv rk TEof cf) p with
  | Ok _ => True
  | Err c i => eofish c /\ i = length p
  | OutOfFuel | Panic => False
  end.
Proof.
  intros rk cf p t v Ht Hok. pose proof (C10_ignored rk cf p t v Ht Hok) as H.
  pose proof (Total.ignored_from_input_no_fuel (mkEnv rk TEof cf) p) as Hf.
  destruct (ignored_from_input (mkEnv rk TEof cf) p); auto.
Qed.

(* C11_live with the OutOfFuel / Panic cases excluded as well *)
Theorem C11_live_full : forall rk cf bs c i k,
  from_input (mkEnv rk TEof cf) bs = Err c i -> ~ eofish c -> (k < i)%nat ->
  match from_input (mkEnv rk TEof cf) (firstn k bs) with
  | Ok _ => True | Err c' i' => eofish c' /\ i' = k | _ => False end.
Proof.
  intros rk cf bs c i k He Hn Hk. pose proof (C11_live rk cf bs c i k He Hn Hk) as H.
  pose proof (Total.from_input_no_fuel_strong (mkEnv rk TEof cf) (firstn k bs)) as Hf.
  pose proof (Total.from_input_no_panic_strong (mkEnv rk TEof cf) (firstn k bs)) as Hp.
  destruct (from_input (mkEnv rk TEof cf) (firstn k bs)); auto.
Qed.

Theorem C11_live_ignored_full : forall rk cf bs c i k,
  ignored_from_input (mkEnv rk TEof cf) bs = Err c i -> ~ eofish c -> (k < i)%nat ->
  match ignored_from_input (mkEnv rk TEof cf) (firstn k bs) with
  | Ok _ => True | Err c' i' => eofish c' /\ i' = k | _ => False end.
Proof.
  intros rk cf bs c i k He Hn Hk. pose proof (C11_live_ignored rk cf bs c i k He Hn Hk) as H.
  pose proof (Total.ignored_from_input_no_fuel (mkEnv rk TEof cf) (firstn k bs)) as Hf.
  pose proof (Total.ignored_from_input_no_panic (mkEnv rk TEof cf) (firstn k bs)) as Hp.
  destruct (ignored_from_input (mkEnv rk TEof cf) (firstn k bs)); auto.
Qed.

Theorem C13_read : forall cf p t k,
  let r_full := from_input (mkEnv RIo TEof cf) (p ++ t) in
  let r_fail := from_input (mkEnv RIo (TFail k) cf) p in
  r_fail = Err (Io k) 0 \/ (r_fail = r_full /\ exists c i, r_full = Err c i).
Proof.
  intros cf p t k. apply C13_read_partial.
  - apply Total.from_input_no_fuel_strong.
  - apply Total.from_input_no_panic_strong.
Qed.

Theorem C13_read_ignored : forall cf p t k,
  let r_full := ignored_from_input (mkEnv RIo TEof cf) (p ++ t) in
  let r_fail := ignored_from_input (mkEnv RIo (TFail k) cf) p in
  r_fail = Err (Io k) 0 \/ (r_fail = r_full /\ exists c i, r_full = Err c i).
Proof.
  intros cf p t k. apply C13_read_ignored_partial.
  - apply Total.ignored_from_input_no_fuel.
  - apply Total.ignored_from_input_no_panic.
Qed.

Print Assumptions C10_value_full.
Print Assumptions C10_ignored_full.
Print Assumptions C11_live_full.
Print Assumptions C11_live_ignored_full.
Print Assumptions C13_read.
Print Assumptions C13_read_ignored.
