(* Proofs/NumberTargetProps.v — `serde_json::Number` as a deserialization target (Model/NumberTarget.v) against the existing
   untyped pipeline (Model/De.v from_input) and the Value deserializer (Model/ValueDe.v number_any).

   Vocabulary
     first_sig inp        the first byte of the document that is not JSON whitespace (None: empty / whitespace only)
     open_st inp          the reader right after an opening bracket that is the first significant byte
     strip E r            what the Number visitor makes of an outcome r of parse_value that did not go through a bracket

   Part 1  the text route against parse_value / from_input
     number_value_strip            no bracket first:  number_value E s = strip E (parse_value (S f) E s)
     number_value_seq_init / number_value_map_init
                                   `[` first (both builds), `{` first (default build): invalid type, whatever follows, positioned
                                   where end_seq / end_map leave the reader
     number_target_text_is_value   DEFAULT build: the clauses of the task that are true as they stand (iff; non-number -> invalid type at
                                   the fix_position position; an error of the untyped pipeline -> the same error OR invalid type)
     number_target_text_is_value_partial
                                   both builds; under arbitrary_precision a document starting with `{` is excluded (private token)
     number_target_text_errors     which error exactly ("the same error" alone is false: counterexamples)
   Part 2  the Value route
     number_target_value_is_identity      default build (under the representation invariant; counterexamples outside it)
     number_target_value_ap_respell       arbitrary_precision: the exact relation (re-spelling of Proofs/ValueDeAgreeAp.v, finding F19)
     number_target_value_ap_identity_iff  identity exactly on the canonical spellings
   Part 3  number_target_agree (default build) / number_target_agree_partial (arbitrary_precision, objects excluded, numbers re-spelled)
   Part 4  number_target_ap_verbatim (a literal between whitespace comes back verbatim) /
           number_target_ap_verbatim_partial (whatever is accepted is such a document; `{` first excluded, counterexample)
   Every `_partial` comes with `Example`s showing why the unrestricted statement is false.
   Helper: Proofs/NumberTargetFinite.v (the number parser never returns a non-finite F64 nor a non-negative I64). *)
From Coq Require Import Lia ZifyBool ZifyNat ZifyN.
From SJ Require Import Base.Bytes Base.Utf8 Base.FloatB Gen.Tables
  Model.Read Model.Str Model.Num Model.Value Model.De Model.NumberM Model.DeTyped Model.ValueDe Model.NumberTarget
  Spec.Syntax Spec.Denote.
From SJ Require Import Proofs.NumInt Proofs.GrammarNum Proofs.ApNumber Proofs.SerValue Proofs.ValueDeAgreeAp Proofs.ValueDeAgreeApValue
  Proofs.NumberTargetFinite.
From SJ Require Spec.Layout Proofs.SerToValueAp.
From Flocq Require Import Core BinarySingleNaN.
Open Scope N_scope.

(* ================================================================================================================================
   0. Generic facts
   ================================================================================================================================ *)
Lemma nbind_ok_inv {A B} (r : nres A) (f : A -> nres B) (b : B) :
  nbind r f = NOk b -> exists a, r = NOk a /\ f a = NOk b.
Proof. destruct r as [a| | | | |]; cbn [nbind]; intros H; try discriminate H. exists a. split; [reflexivity|exact H]. Qed.

Lemma of_res_ok_inv {A} (r : res A) (a : A) : of_res r = NOk a -> r = Ok a.
Proof. destruct r; cbn [of_res]; intros H; try discriminate H. injection H as <-. reflexivity. Qed.

Lemma nfix_ok {A} E (r : nres A) a : nfix E r = NOk a <-> r = NOk a.
Proof. destruct r; cbn [nfix]; split; intros H; try discriminate H; exact H. Qed.

Lemma parse_value_S f E s : parse_value (S f) E s =
    let* (o, s1) := parse_whitespace E s in
    match o with
    | None => peek_error E s1 EofWhileParsingValue
    | Some b =>
      if b =? 110 then let* s2 := parse_ident E lit_ull (discard s1) in Ok (VNull, s2)
      else if b =? 116 then let* s2 := parse_ident E lit_rue (discard s1) in Ok (VBool true, s2)
      else if b =? 102 then let* s2 := parse_ident E lit_alse (discard s1) in Ok (VBool false, s2)
      else if b =? 45 then
        let* (p, s2) := parse_any_number E false (discard s1) in Ok (visit_number_cfg E p, s2)
      else if is_digit b then
        let* (p, s2) := parse_any_number E true s1 in Ok (visit_number_cfg E p, s2)
      else if b =? 34 then
        let* (str, _, s2) := parse_str E (discard s1) in Ok (VStr str, s2)
      else if b =? 91 then
        let* s2 := enter E s1 in
        let* (vs, s3) := parse_seq f E true (discard s2) in
        let* s4 := leave E s3 in
        let* s5 := end_seq E s4 in
        Ok (VArr vs, s5)
      else if b =? 123 then
        let* s2 := enter E s1 in
        let* (es, s3) := parse_map f E true (discard s2) in
        let* s4 := leave E s3 in
        let* s5 := end_map E s4 in
        Ok (VObj (map_of_entries (preserve_order (cf E)) es), s5)
      else peek_error E s1 ExpectedSomeValue
    end.
Proof. reflexivity. Qed.

(* a successful Deserializer::end has seen the end of the input: the reader does not fail there *)
Lemma de_end_ok E s s' : de_end E s = Ok s' ->
  tm E = TEof /\ skipn (span_len is_ws (rest s)) (rest s) = [].
Proof.
  unfold de_end, parse_whitespace, peek, advance. cbn [rest]. intros H.
  destruct (skipn (span_len is_ws (rest s)) (rest s)) as [|b r] eqn:Hsk.
  - split; [|reflexivity]. unfold at_end in H. destruct (tm E); [reflexivity|discriminate H].
  - cbn [bind] in H. unfold peek_error in H. discriminate H.
Qed.

Lemma span_skipn_nil (p : N -> bool) : forall l : list N, skipn (span_len p l) l = [] -> forallb p l = true.
Proof.
  induction l as [|b r IH]; cbn [span_len skipn forallb]; intros H; [reflexivity|].
  destruct (p b) eqn:Hp; cbn [skipn] in H; [|discriminate H]. cbn [andb]. exact (IH H).
Qed.

(* ================================================================================================================================
   1. The text route
   ================================================================================================================================ *)
Definition first_sig (inp : bytes) : option byte := hd_error (skipn (span_len is_ws inp) inp).

(* the reader right after the opening bracket *)
Definition open_st (inp : bytes) : st :=
  let n := span_len is_ws inp in mkSt (tl (skipn n inp)) (S n) false DEPTH0.

(* the Number visitor on an outcome of parse_value that did not go through `[` / `{`:
   a number is taken, anything else the visitor refuses (serde's default visit methods), errors pass *)
Definition strip (E : env) (r : res (value * st)) : nres (num * st) :=
  match r with
  | Ok (VNum n, s2) => NOk (n, s2)
  | Ok (_, s2) => NErr (Message MInvalidType) (err_idx E s2)
  | Err c i => NErr c i
  | OutOfFuel => NFuel
  | Panic => NPanic
  end.

(* ---- the two visitors on a parsed number ------------------------------------------------------------------------------------------ *)
(* what parse_any_number returns under arbitrary_precision is a literal that Number::from_str re-reads as itself *)
Lemma ap_parsed_literal E positive s0 p s1 : tm E = TEof -> arbitrary_precision (cf E) = true ->
  parse_any_number E positive s0 = Ok (p, s1) ->
  exists n, num_ok n = true /\ nneg n = negb positive /\ ap_lit_of p = render_num n
            /\ rest s0 = render_abs n ++ rest s1 /\ (forall f, p <> PF64 f).
Proof.
  intros HE Hap Hrun.
  destruct (number_sound E positive s0 p s1 HE Hrun) as (n & Hok & Hneg & Hrest & _ & _ & _ & _ & s' & Hiso).
  destruct (number_ap_verbatim E positive n HE Hap Hok) as (p' & s'' & Hrun' & Hlit).
  rewrite Hiso in Hrun'. injection Hrun' as <- _.
  exists n. split; [exact Hok|]. split; [exact Hneg|]. split.
  - rewrite (ap_lit_of_eq positive p), Hlit, render_num_split, Hneg. destruct positive; reflexivity.
  - split; [exact Hrest|]. exact (parse_any_number_no_f64 E positive s0 p s1 Hap Hrun).
Qed.

Lemma ap_classify_i64_neg positive buf z : ap_classify positive buf = PI64 z -> (z < 0)%Z.
Proof.
  unfold ap_classify. destruct (all_digits buf); [|discriminate]. cbv zeta.
  pose proof (digits_val_ge buf 0%Z ltac:(lia)) as Hge.
  destruct positive.
  - destruct (_ <=? _)%Z; discriminate.
  - destruct ((digits_val buf 0 <=? Z.of_N i64_min_abs)%Z && negb (digits_val buf 0 =? 0)%Z) eqn:Hc; [|discriminate].
    intros [= <-]. lia.
Qed.

Lemma parse_any_number_i64_neg E positive s0 z s1 : parse_any_number E positive s0 = Ok (PI64 z, s1) -> (z < 0)%Z.
Proof.
  intros Hrun. destruct (arbitrary_precision (cf E)) eqn:Hap.
  - rewrite (parse_any_number_classify E positive s0 Hap) in Hrun.
    destruct (scan_integer E s0) as [[buf s2]| | |]; cbn [bind] in Hrun; try discriminate Hrun.
    injection Hrun as Hc _. exact (ap_classify_i64_neg positive buf z Hc).
  - exact (parse_any_number_i64_negative E positive s0 z s1 Hap Hrun).
Qed.

Lemma number_of_i64_neg cf z : (z < 0)%Z ->
  number_of_i64 cf z = if arbitrary_precision cf then NLit (45 :: itoa (Z.to_N (- z))) else NNeg z.
Proof.
  intros Hz. unfold number_of_i64, itoa_z. assert (Hb : (z <? 0)%Z = true) by lia. rewrite Hb. reflexivity.
Qed.

(* on everything the number parser returns, the Number visitor builds the Number the Value visitor wraps *)
Lemma visit_agree E positive s0 p s1 : (arbitrary_precision (cf E) = true -> tm E = TEof) ->
  parse_any_number E positive s0 = Ok (p, s1) ->
  exists n, visit_number_cfg E p = VNum n /\ number_visit (cf E) p s1 = NOk (n, s1).
Proof.
  intros HE Hrun. unfold visit_number_cfg, number_visit. destruct (arbitrary_precision (cf E)) eqn:Hap.
  - specialize (HE eq_refl).
    destruct (ap_parsed_literal E positive s0 p s1 HE Hap Hrun) as (n & Hok & Hneg & Hlit & _ & Hnf).
    exists (NLit (ap_lit_of p)). split; [reflexivity|].
    destruct p as [f|u|z|lit].
    + exfalso. exact (Hnf f eq_refl).
    + unfold number_of_u64. rewrite Hap. reflexivity.
    + rewrite (number_of_i64_neg (cf E) z (parse_any_number_i64_neg E positive s0 z s1 Hrun)), Hap. reflexivity.
    + cbn [ap_lit_of] in *. unfold nfs_visit. rewrite Hlit, (from_str_verbatim (cf E) n Hap Hok). reflexivity.
  - destruct p as [f|u|z|lit].
    + rewrite (parse_any_number_f64_finite E positive s0 f s1 Hap Hrun). cbn [visit_number].
      rewrite (parse_any_number_f64_finite E positive s0 f s1 Hap Hrun). eexists. split; reflexivity.
    + exists (NPos u). split; [reflexivity|]. unfold number_of_u64. rewrite Hap. reflexivity.
    + exists (NNeg z). split; [reflexivity|].
      rewrite (number_of_i64_neg (cf E) z (parse_any_number_i64_neg E positive s0 z s1 Hrun)), Hap. reflexivity.
    + exfalso. unfold parse_any_number in Hrun. rewrite Hap in Hrun.
      (* parse_integer never builds PString: by inspection of its three exits *)
      unfold parse_integer in Hrun. apply bind_ok_inv in Hrun as ([o s2] & _ & Hrun).
      destruct o as [c|]; [|discriminate Hrun].
      destruct (c =? 48).
      { apply bind_ok_inv in Hrun as ([c2 s3] & _ & Hrun). destruct (is_digit c2); [discriminate Hrun|].
        unfold parse_number in Hrun. apply bind_ok_inv in Hrun as ([c3 s4] & _ & Hrun).
        destruct (c3 =? 46); [apply bind_ok_inv in Hrun as ([? ?] & _ & Hrun); discriminate Hrun|].
        destruct ((c3 =? 101) || (c3 =? 69)); [apply bind_ok_inv in Hrun as ([? ?] & _ & Hrun); discriminate Hrun|].
        destruct positive; [discriminate Hrun|]. cbv zeta in Hrun. destruct (0 <=? _)%Z; discriminate Hrun. }
      destruct (is_digit19 c); [|discriminate Hrun].
      destruct (sig_loop (rest s2) (digit_val c)) as [[k sg] ov].
      apply bind_ok_inv in Hrun as ([c2 s3] & _ & Hrun). destruct ov.
      { apply bind_ok_inv in Hrun as ([? ?] & _ & Hrun). discriminate Hrun. }
      unfold parse_number in Hrun. apply bind_ok_inv in Hrun as ([c3 s4] & _ & Hrun).
      destruct (c3 =? 46); [apply bind_ok_inv in Hrun as ([? ?] & _ & Hrun); discriminate Hrun|].
      destruct ((c3 =? 101) || (c3 =? 69)); [apply bind_ok_inv in Hrun as ([? ?] & _ & Hrun); discriminate Hrun|].
      destruct positive; [discriminate Hrun|]. cbv zeta in Hrun. destruct (0 <=? _)%Z; discriminate Hrun.
Qed.

(* ---- no bracket first: the Number target is `strip` of parse_value ------------------------------------------------------------------ *)
Lemma digit_not_letter b : is_digit b = true ->
  (b =? 110) = false /\ (b =? 116) = false /\ (b =? 102) = false /\ (b =? 45) = false.
Proof. unfold is_digit. lia. Qed.

Theorem number_value_strip : forall E f s, (arbitrary_precision (cf E) = true -> tm E = TEof) ->
  (forall s1, parse_whitespace E s <> Ok (Some 91, s1)) -> (forall s1, parse_whitespace E s <> Ok (Some 123, s1)) ->
  number_value E s = strip E (parse_value (S f) E s).
Proof.
  intros E f s HE H91 H123. rewrite parse_value_S. unfold number_value.
  destruct (parse_whitespace E s) as [[o s1]| | |]; cbn [bind nbind of_res strip]; try reflexivity.
  destruct o as [b|]; [|unfold peek_error; reflexivity].
  destruct (b =? 110) eqn:H110.
  { destruct (parse_ident E lit_ull (discard s1)); reflexivity. }
  destruct (b =? 116) eqn:H116.
  { destruct (parse_ident E lit_rue (discard s1)); reflexivity. }
  destruct (b =? 102) eqn:H102.
  { destruct (parse_ident E lit_alse (discard s1)); reflexivity. }
  destruct (b =? 45) eqn:H45.
  { destruct (parse_any_number E false (discard s1)) as [[p s2]| | |] eqn:Hrun; cbn [bind nbind of_res nfix strip]; try reflexivity.
    destruct (visit_agree E false (discard s1) p s2 HE Hrun) as (n & -> & ->). reflexivity. }
  destruct (is_digit b) eqn:Hdig.
  { destruct (parse_any_number E true s1) as [[p s2]| | |] eqn:Hrun; cbn [bind nbind of_res nfix strip]; try reflexivity.
    destruct (visit_agree E true s1 p s2 HE Hrun) as (n & -> & ->). reflexivity. }
  destruct (b =? 34) eqn:H34.
  { destruct (parse_str E (discard s1)) as [[[str bo] s2]| | |]; reflexivity. }
  destruct (b =? 91) eqn:H91b.
  { exfalso. apply N.eqb_eq in H91b. subst b. exact (H91 s1 eq_refl). }
  destruct (b =? 123) eqn:H123b.
  { exfalso. apply N.eqb_eq in H123b. subst b. exact (H123 s1 eq_refl). }
  unfold peek_error. reflexivity.
Qed.

(* ---- a bracket first: invalid type at once; end_seq / end_map run for their side effect on the position only --------------------- *)
Lemma depth0_facts : (DEPTH0 =? 0) = false /\ (DEPTH0 - 1 =? 0) = false /\ (255 <=? DEPTH0 - 1) = false /\ DEPTH0 - 1 + 1 = DEPTH0.
Proof. repeat split; reflexivity. Qed.

Lemma pw_init E inp : parse_whitespace E (init_st inp) =
  match skipn (span_len is_ws inp) inp with
  | b :: r => Ok (Some b, mkSt (b :: r) (span_len is_ws inp) true DEPTH0)
  | [] => at_end E (Ok (None, mkSt [] (span_len is_ws inp) false DEPTH0))
  end.
Proof.
  unfold parse_whitespace, init_st, advance, peek. cbn [rest off depth Nat.add].
  destruct (skipn (span_len is_ws inp) inp); reflexivity.
Qed.

Lemma first_sig_some inp b : first_sig inp = Some b ->
  exists r, skipn (span_len is_ws inp) inp = b :: r /\ open_st inp = mkSt r (S (span_len is_ws inp)) false DEPTH0.
Proof.
  unfold first_sig, open_st. cbv zeta. destruct (skipn (span_len is_ws inp) inp) as [|b' r]; cbn [hd_error]; [discriminate|].
  intros [= ->]. exists r. split; reflexivity.
Qed.

(* enter, the body that refuses at once, leave: back at the depth budget, right after the bracket *)
Lemma nframe_refuse_init {A} E endf endst (k : msgkind) b r n :
  @nframe A E endf endst (fun s' => NUnpos k s') (mkSt (b :: r) n true DEPTH0)
  = NUnpos k (endst E (mkSt r (S n) false DEPTH0)).
Proof.
  destruct depth0_facts as (H0 & H1 & H255 & Hback).
  unfold nframe, enter, leave, discard. cbn [rest off pk depth tl].
  destruct (limit_disabled (cf E)); cbn [of_res nbind rest off pk depth tl].
  - reflexivity.
  - rewrite H0. cbn [depth]. rewrite H1. cbn [of_res nbind rest off pk depth tl]. rewrite H255, Hback. reflexivity.
Qed.

Theorem number_value_seq_init : forall E inp, first_sig inp = Some 91 ->
  number_value E (init_st inp) = NErr (Message MInvalidType) (err_idx E (end_seq_st E (open_st inp))).
Proof.
  intros E inp Hf. destruct (first_sig_some inp 91 Hf) as (r & Hsk & ->).
  unfold number_value. rewrite pw_init, Hsk. cbn [of_res nbind]. cbv beta iota.
  change (91 =? 110) with false. change (91 =? 116) with false. change (91 =? 102) with false.
  change (91 =? 45) with false. change (is_digit 91) with false. change (91 =? 34) with false. change (91 =? 91) with true.
  cbv iota. rewrite nframe_refuse_init. reflexivity.
Qed.

Theorem number_value_map_init : forall E inp, first_sig inp = Some 123 -> arbitrary_precision (cf E) = false ->
  number_value E (init_st inp) = NErr (Message MInvalidType) (err_idx E (end_map_st E (open_st inp))).
Proof.
  intros E inp Hf Hap. destruct (first_sig_some inp 123 Hf) as (r & Hsk & ->).
  unfold number_value. rewrite pw_init, Hsk. cbn [of_res nbind]. cbv beta iota.
  change (123 =? 110) with false. change (123 =? 116) with false. change (123 =? 102) with false.
  change (123 =? 45) with false. change (is_digit 123) with false. change (123 =? 34) with false. change (123 =? 91) with false.
  change (123 =? 123) with true. cbv iota. rewrite Hap, nframe_refuse_init. reflexivity.
Qed.

(* what parse_value returns behind a bracket is an array / an object *)
Lemma parse_value_seq_shape E f s s1 v s2 : parse_whitespace E s = Ok (Some 91, s1) ->
  parse_value (S f) E s = Ok (v, s2) -> exists l, v = VArr l.
Proof.
  intros Hpw H. rewrite parse_value_S, Hpw in H. cbn [bind] in H. cbv beta iota in H.
  change (91 =? 110) with false in H. change (91 =? 116) with false in H. change (91 =? 102) with false in H.
  change (91 =? 45) with false in H. change (is_digit 91) with false in H. change (91 =? 34) with false in H.
  change (91 =? 91) with true in H. cbv iota in H.
  apply bind_ok_inv in H as (s3 & _ & H). apply bind_ok_inv in H as ([vs s4] & _ & H).
  apply bind_ok_inv in H as (s5 & _ & H). apply bind_ok_inv in H as (s6 & _ & H). injection H as <- _. eexists. reflexivity.
Qed.

Lemma parse_value_map_shape E f s s1 v s2 : parse_whitespace E s = Ok (Some 123, s1) ->
  parse_value (S f) E s = Ok (v, s2) -> exists l, v = VObj l.
Proof.
  intros Hpw H. rewrite parse_value_S, Hpw in H. cbn [bind] in H. cbv beta iota in H.
  change (123 =? 110) with false in H. change (123 =? 116) with false in H. change (123 =? 102) with false in H.
  change (123 =? 45) with false in H. change (is_digit 123) with false in H. change (123 =? 34) with false in H.
  change (123 =? 91) with false in H. change (123 =? 123) with true in H. cbv iota in H.
  apply bind_ok_inv in H as (s3 & _ & H). apply bind_ok_inv in H as ([vs s4] & _ & H).
  apply bind_ok_inv in H as (s5 & _ & H). apply bind_ok_inv in H as (s6 & _ & H). injection H as <- _. eexists. reflexivity.
Qed.

(* what `strip` refuses is null / a bool / a string, never an array or an object, when no bracket came first *)
Lemma parse_value_scalar_shape E f s v s2 :
  (forall s1, parse_whitespace E s <> Ok (Some 91, s1)) -> (forall s1, parse_whitespace E s <> Ok (Some 123, s1)) ->
  parse_value (S f) E s = Ok (v, s2) -> match v with VArr _ | VObj _ => False | _ => True end.
Proof.
  intros H91 H123 H. rewrite parse_value_S in H. apply bind_ok_inv in H as ([o s1] & Hpw & H).
  destruct o as [b|]; [|discriminate H].
  destruct (b =? 110); [apply bind_ok_inv in H as (? & _ & H); injection H as <- _; exact I|].
  destruct (b =? 116); [apply bind_ok_inv in H as (? & _ & H); injection H as <- _; exact I|].
  destruct (b =? 102); [apply bind_ok_inv in H as (? & _ & H); injection H as <- _; exact I|].
  destruct (b =? 45).
  { apply bind_ok_inv in H as ([p s3] & _ & H). injection H as <- _. unfold visit_number_cfg.
    destruct (arbitrary_precision (cf E)); [exact I|]. destruct p as [x|x|x|x]; cbn [visit_number]; try exact I.
    destruct (b64_is_finite x); exact I. }
  destruct (is_digit b).
  { apply bind_ok_inv in H as ([p s3] & _ & H). injection H as <- _. unfold visit_number_cfg.
    destruct (arbitrary_precision (cf E)); [exact I|]. destruct p as [x|x|x|x]; cbn [visit_number]; try exact I.
    destruct (b64_is_finite x); exact I. }
  destruct (b =? 34); [apply bind_ok_inv in H as ([[? ?] ?] & _ & H); injection H as <- _; exact I|].
  destruct (b =? 91) eqn:E91; [exfalso; apply N.eqb_eq in E91; subst b; exact (H91 s1 Hpw)|].
  destruct (b =? 123) eqn:E123; [exfalso; apply N.eqb_eq in E123; subst b; exact (H123 s1 Hpw)|].
  discriminate H.
Qed.

(* ---- the whole pipeline ---------------------------------------------------------------------------------------------------------------- *)
Lemma vres_of_res_err_not_ok {A} inp c i (a : A) : vres_of_res inp (Err c i) <> VOk a.
Proof. cbn [vres_of_res]. destruct c; try destruct (pos_of inp i); discriminate. Qed.

Lemma vres_of_nres_ok_inv {A} inp (r : nres A) (a : A) : vres_of_nres inp r = VOk a -> r = NOk a.
Proof.
  destruct r as [x|c i|k l c|k s| |]; cbn [vres_of_nres]; intros H; try discriminate H.
  - injection H as <-. reflexivity.
  - exfalso. exact (vres_of_res_err_not_ok inp c i a H).
Qed.

Lemma pw_init_not E inp b : first_sig inp <> Some b -> forall s1, parse_whitespace E (init_st inp) <> Ok (Some b, s1).
Proof.
  intros Hf s1 H. rewrite pw_init in H. unfold first_sig in Hf.
  destruct (skipn (span_len is_ws inp) inp) as [|b' r]; cbn [hd_error] in Hf.
  - unfold at_end in H. destruct (tm E); discriminate H.
  - injection H as -> _. exact (Hf eq_refl).
Qed.

Lemma pw_init_is E inp b : first_sig inp = Some b -> exists s1, parse_whitespace E (init_st inp) = Ok (Some b, s1).
Proof.
  intros Hf. destruct (first_sig_some inp b Hf) as (r & Hsk & _). rewrite pw_init, Hsk. eexists. reflexivity.
Qed.

Lemma value_fuel_S inp : exists f, value_fuel inp = S f.
Proof. unfold value_fuel. eexists. reflexivity. Qed.

(* the Number target on a document that does not start with a bracket: strip of parse_value, then Deserializer::end *)
Definition generic_text (E : env) (inp : bytes) : nres num :=
  let% (n, s1) := strip E (parse_value (value_fuel inp) E (init_st inp)) in
  let% _ := of_res (de_end E s1) in
  NOk n.

Theorem number_from_text_generic : forall E inp, (arbitrary_precision (cf E) = true -> tm E = TEof) ->
  first_sig inp <> Some 91 -> first_sig inp <> Some 123 ->
  number_from_text_n E inp = generic_text E inp.
Proof.
  intros E inp HE H91 H123. unfold number_from_text_n, generic_text. destruct (value_fuel_S inp) as (f & ->).
  rewrite (number_value_strip E f (init_st inp) HE (pw_init_not E inp 91 H91) (pw_init_not E inp 123 H123)). reflexivity.
Qed.

(* where fix_position finds the reader when the Number visitor has refused the value [v] that parse_value read up to [s1] *)
Definition invalid_type_at (E : env) (inp : bytes) (v : value) (s1 : st) : nat :=
  match v with
  | VArr _ => err_idx E (end_seq_st E (open_st inp))
  | VObj _ => err_idx E (end_map_st E (open_st inp))
  | _ => err_idx E s1
  end.

Definition is_number (v : value) : bool := match v with VNum _ => true | _ => false end.

Lemma from_input_inv E inp v : from_input E inp = Ok v ->
  exists s1 s2, parse_value (value_fuel inp) E (init_st inp) = Ok (v, s1) /\ de_end E s1 = Ok s2.
Proof.
  unfold from_input. intros H. apply bind_ok_inv in H as ([v' s1] & Hpv & H). apply bind_ok_inv in H as (s2 & Hend & H).
  injection H as <-. exists s1, s2. split; assumption.
Qed.

(* ---- the iff: a Number target accepts exactly the documents that are a number as a Value, with the same number ------------------------- *)
Lemma text_iff_core E inp n : (arbitrary_precision (cf E) = true -> first_sig inp <> Some 123) ->
  (number_from_text E inp = VOk n <-> from_input E inp = Ok (VNum n)).
Proof.
  intros Htok. split.
  - intros H. apply vres_of_nres_ok_inv in H.
    (* the run ended with a successful Deserializer::end: the reader reports end of input *)
    assert (HE : tm E = TEof).
    { unfold number_from_text_n in H. apply nbind_ok_inv in H as ([n' s1] & _ & H).
      apply nbind_ok_inv in H as (s2 & Hend & _). apply of_res_ok_inv in Hend. exact (proj1 (de_end_ok E s1 s2 Hend)). }
    destruct (first_sig inp) as [b|] eqn:Hf.
    + destruct (N.eq_dec b 91) as [->|Hn91].
      { unfold number_from_text_n in H. rewrite (number_value_seq_init E inp Hf) in H. discriminate H. }
      destruct (N.eq_dec b 123) as [->|Hn123].
      { destruct (arbitrary_precision (cf E)) eqn:Hap; [exfalso; exact (Htok eq_refl eq_refl)|].
        unfold number_from_text_n in H. rewrite (number_value_map_init E inp Hf Hap) in H. discriminate H. }
      rewrite (number_from_text_generic E inp (fun _ => HE)) in H by (rewrite Hf; congruence).
      unfold generic_text in H. apply nbind_ok_inv in H as ([n' s1] & Hst & H).
      apply nbind_ok_inv in H as (s2 & Hend & H). injection H as ->. apply of_res_ok_inv in Hend.
      unfold from_input. destruct (parse_value (value_fuel inp) E (init_st inp)) as [[v s1']| | |]; cbn [strip] in Hst; try discriminate Hst.
      destruct v; try discriminate Hst. injection Hst as -> ->. cbn [bind]. rewrite Hend. reflexivity.
    + rewrite (number_from_text_generic E inp (fun _ => HE)) in H by (rewrite Hf; discriminate).
      unfold generic_text in H. apply nbind_ok_inv in H as ([n' s1] & Hst & H).
      apply nbind_ok_inv in H as (s2 & Hend & H). injection H as ->. apply of_res_ok_inv in Hend.
      unfold from_input. destruct (parse_value (value_fuel inp) E (init_st inp)) as [[v s1']| | |]; cbn [strip] in Hst; try discriminate Hst.
      destruct v; try discriminate Hst. injection Hst as -> ->. cbn [bind]. rewrite Hend. reflexivity.
  - intros H. destruct (from_input_inv E inp (VNum n) H) as (s1 & s2 & Hpv & Hend).
    pose proof (proj1 (de_end_ok E s1 s2 Hend)) as HE.
    destruct (value_fuel_S inp) as (f & Hfuel).
    assert (H91 : first_sig inp <> Some 91).
    { intros Hf. destruct (pw_init_is E inp 91 Hf) as (s0 & Hpw). rewrite Hfuel in Hpv.
      destruct (parse_value_seq_shape E f (init_st inp) s0 (VNum n) s1 Hpw Hpv) as (l & Hl). discriminate Hl. }
    assert (H123 : first_sig inp <> Some 123).
    { intros Hf. destruct (pw_init_is E inp 123 Hf) as (s0 & Hpw). rewrite Hfuel in Hpv.
      destruct (parse_value_map_shape E f (init_st inp) s0 (VNum n) s1 Hpw Hpv) as (l & Hl). discriminate Hl. }
    unfold number_from_text. rewrite (number_from_text_generic E inp (fun _ => HE) H91 H123).
    unfold generic_text. rewrite Hpv. cbn [strip nbind]. rewrite Hend. reflexivity.
Qed.

(* a document that is a Value but not a number: invalid type, at the position fix_position reads off the reader *)
Lemma text_non_number_core E inp v : (arbitrary_precision (cf E) = true -> first_sig inp <> Some 123) ->
  from_input E inp = Ok v -> is_number v = false ->
  exists s1, parse_value (value_fuel inp) E (init_st inp) = Ok (v, s1)
          /\ number_from_text E inp = vres_of_res inp (Err (Message MInvalidType) (invalid_type_at E inp v s1)).
Proof.
  intros Htok H Hnn. destruct (from_input_inv E inp v H) as (s1 & s2 & Hpv & Hend).
  pose proof (proj1 (de_end_ok E s1 s2 Hend)) as HE.
  exists s1. split; [exact Hpv|]. destruct (value_fuel_S inp) as (f & Hfuel).
  destruct (first_sig inp) as [b|] eqn:Hf.
  - destruct (N.eq_dec b 91) as [->|Hn91].
    { destruct (pw_init_is E inp 91 Hf) as (s0 & Hpw). rewrite Hfuel in Hpv.
      destruct (parse_value_seq_shape E f (init_st inp) s0 v s1 Hpw Hpv) as (l & ->).
      unfold number_from_text, number_from_text_n. rewrite (number_value_seq_init E inp Hf). reflexivity. }
    destruct (N.eq_dec b 123) as [->|Hn123].
    { destruct (arbitrary_precision (cf E)) eqn:Hap; [exfalso; exact (Htok eq_refl eq_refl)|].
      destruct (pw_init_is E inp 123 Hf) as (s0 & Hpw). rewrite Hfuel in Hpv.
      destruct (parse_value_map_shape E f (init_st inp) s0 v s1 Hpw Hpv) as (l & ->).
      unfold number_from_text, number_from_text_n. rewrite (number_value_map_init E inp Hf Hap). reflexivity. }
    assert (H91 : first_sig inp <> Some 91) by (rewrite Hf; congruence).
    assert (H123 : first_sig inp <> Some 123) by (rewrite Hf; congruence).
    unfold number_from_text. rewrite (number_from_text_generic E inp (fun _ => HE) H91 H123).
    unfold generic_text. rewrite Hpv. rewrite Hfuel in Hpv.
    pose proof (parse_value_scalar_shape E f (init_st inp) v s1 (pw_init_not E inp 91 H91) (pw_init_not E inp 123 H123) Hpv) as Hsh.
    destruct v; try discriminate Hnn; try contradiction Hsh; reflexivity.
  - assert (H91 : first_sig inp <> Some 91) by (rewrite Hf; discriminate).
    assert (H123 : first_sig inp <> Some 123) by (rewrite Hf; discriminate).
    unfold number_from_text. rewrite (number_from_text_generic E inp (fun _ => HE) H91 H123).
    unfold generic_text. rewrite Hpv. rewrite Hfuel in Hpv.
    pose proof (parse_value_scalar_shape E f (init_st inp) v s1 (pw_init_not E inp 91 H91) (pw_init_not E inp 123 H123) Hpv) as Hsh.
    destruct v; try discriminate Hnn; try contradiction Hsh; reflexivity.
Qed.

(* errors: the same error, unless the Number visitor got to refuse a value first *)
Lemma de_end_err_code E s c i : de_end E s = Err c i -> c = TrailingCharacters \/ exists k, c = Io k.
Proof.
  unfold de_end, parse_whitespace, peek. intros H.
  destruct (rest (advance (span_len is_ws (rest s)) s)) as [|b r].
  - unfold at_end in H. destruct (tm E) as [|k]; cbn [bind] in H; [discriminate H|]. injection H as <- _. right. exists k. reflexivity.
  - cbn [bind] in H. unfold peek_error in H. injection H as <- _. left. reflexivity.
Qed.

Lemma text_error_core E inp c i : (arbitrary_precision (cf E) = true -> tm E = TEof) ->
  first_sig inp <> Some 91 -> first_sig inp <> Some 123 ->
  from_input E inp = Err c i ->
  match parse_value (value_fuel inp) E (init_st inp) with
  | Ok (v, s1) =>
    if is_number v then number_from_text E inp = vres_of_res inp (Err c i)                 (* the error of Deserializer::end *)
    else (c = TrailingCharacters \/ exists k, c = Io k)                                    (* ... which the Number target does not reach *)
         /\ number_from_text E inp = vres_of_res inp (Err (Message MInvalidType) (err_idx E s1))
  | _ => number_from_text E inp = vres_of_res inp (Err c i)                               (* the value itself is malformed *)
  end.
Proof.
  intros HE H91 H123 H. unfold number_from_text. rewrite (number_from_text_generic E inp HE H91 H123).
  unfold generic_text. unfold from_input in H. destruct (value_fuel_S inp) as (f & Hfuel).
  destruct (parse_value (value_fuel inp) E (init_st inp)) as [[v s1]|c' i'| |] eqn:Hpv; cbn [bind] in H.
  - rewrite Hfuel in Hpv.
    pose proof (parse_value_scalar_shape E f (init_st inp) v s1 (pw_init_not E inp 91 H91) (pw_init_not E inp 123 H123) Hpv) as Hsh.
    destruct (de_end E s1) as [s2|c2 i2| |] eqn:Hend; cbn [bind] in H; try discriminate H. injection H as <- <-.
    pose proof (de_end_err_code E s1 c2 i2 Hend) as Hc2.
    destruct v; cbn [is_number strip nbind]; try contradiction Hsh; try (split; [exact Hc2|reflexivity]).
    rewrite Hend. reflexivity.
  - injection H as <- <-. reflexivity.
  - discriminate H.
  - discriminate H.
Qed.

(* ---- the theorems of Part 1 --------------------------------------------------------------------------------------------------------------- *)
(* DEFAULT build: everything the task states that is true as it stands.
   (1) a Number target accepts exactly the documents that are a number as a Value, with the same number;
   (2) a document that is some other Value is refused with `invalid type`, at the position fix_position reads off the reader:
       behind null / true / false / a string for those, where end_seq() / end_map() stop for an array / an object;
   (3) when the untyped pipeline fails, the Number target fails: with the same error, or with `invalid type` (see
       number_target_text_errors for which, and the counterexamples below for why "the same error" alone is false). *)
Theorem number_target_text_is_value : forall e inp, arbitrary_precision (cf e) = false ->
  (forall n, number_from_text e inp = VOk n <-> from_input e inp = Ok (VNum n))
  /\ (forall v, from_input e inp = Ok v -> is_number v = false ->
        exists s1, parse_value (value_fuel inp) e (init_st inp) = Ok (v, s1)
                /\ number_from_text e inp = vres_of_res inp (Err (Message MInvalidType) (invalid_type_at e inp v s1)))
  /\ (forall c i, from_input e inp = Err c i ->
        number_from_text e inp = vres_of_res inp (Err c i)
        \/ exists j, number_from_text e inp = vres_of_res inp (Err (Message MInvalidType) j)).
Proof.
  intros e inp Hap.
  assert (Htok : arbitrary_precision (cf e) = true -> first_sig inp <> Some 123) by (rewrite Hap; discriminate).
  assert (HE : arbitrary_precision (cf e) = true -> tm e = TEof) by (rewrite Hap; discriminate).
  split; [intros n; exact (text_iff_core e inp n Htok)|].
  split; [intros v Hv Hn; exact (text_non_number_core e inp v Htok Hv Hn)|].
  intros c i Herr.
  destruct (first_sig inp) as [b|] eqn:Hf.
  - destruct (N.eq_dec b 91) as [->|Hn91].
    { right. eexists. unfold number_from_text, number_from_text_n. rewrite (number_value_seq_init e inp Hf). reflexivity. }
    destruct (N.eq_dec b 123) as [->|Hn123].
    { right. eexists. unfold number_from_text, number_from_text_n. rewrite (number_value_map_init e inp Hf Hap). reflexivity. }
    assert (H91 : first_sig inp <> Some 91) by (rewrite Hf; congruence).
    assert (H123 : first_sig inp <> Some 123) by (rewrite Hf; congruence).
    pose proof (text_error_core e inp c i HE H91 H123 Herr) as H.
    destruct (parse_value (value_fuel inp) e (init_st inp)) as [[v s1]| | |]; try (left; exact H).
    destruct (is_number v); [left; exact H|right; eexists; exact (proj2 H)].
  - assert (H91 : first_sig inp <> Some 91) by (rewrite Hf; discriminate).
    assert (H123 : first_sig inp <> Some 123) by (rewrite Hf; discriminate).
    pose proof (text_error_core e inp c i HE H91 H123 Herr) as H.
    destruct (parse_value (value_fuel inp) e (init_st inp)) as [[v s1]| | |]; try (left; exact H).
    destruct (is_number v); [left; exact H|right; eexists; exact (proj2 H)].
Qed.

(* BOTH builds.  Under arbitrary_precision a document whose first significant byte is `{` is excluded from (1) and (2): NumberVisitor has a
   visit_map there, which reads the private token (counterexample ap_token_document below; it is also the text-route reinterpretation
   Model/De.v does not have: finding F23).  (3) is stated exactly: which error when. *)
Theorem number_target_text_is_value_partial : forall e inp,
  (arbitrary_precision (cf e) = true -> first_sig inp <> Some 123) ->
  (forall n, number_from_text e inp = VOk n <-> from_input e inp = Ok (VNum n))
  /\ (forall v, from_input e inp = Ok v -> is_number v = false ->
        exists s1, parse_value (value_fuel inp) e (init_st inp) = Ok (v, s1)
                /\ number_from_text e inp = vres_of_res inp (Err (Message MInvalidType) (invalid_type_at e inp v s1))).
Proof.
  intros e inp Htok. split; [intros n; exact (text_iff_core e inp n Htok)|].
  intros v Hv Hn. exact (text_non_number_core e inp v Htok Hv Hn).
Qed.

(* (3) exactly.  `[` first: invalid type whatever follows (the visitor refuses before anything of the array is read); `{` first, default
   build: the same; otherwise the error of the untyped pipeline, except that a well-formed null / bool / string is refused BEFORE
   Deserializer::end gets to complain about what follows it. *)
Definition starts_with (inp : bytes) (b : byte) : bool :=
  match first_sig inp with Some x => x =? b | None => false end.

Lemma starts_with_true inp b : starts_with inp b = true <-> first_sig inp = Some b.
Proof.
  unfold starts_with. destruct (first_sig inp) as [x|]; [|split; discriminate].
  split; [intros H; apply N.eqb_eq in H; subst x; reflexivity|intros [= ->]; apply N.eqb_refl].
Qed.

Theorem number_target_text_errors : forall e inp c i,
  (arbitrary_precision (cf e) = true -> tm e = TEof) ->
  from_input e inp = Err c i ->
  if starts_with inp 91 then
    number_from_text e inp = vres_of_res inp (Err (Message MInvalidType) (err_idx e (end_seq_st e (open_st inp))))
  else if starts_with inp 123 then
    arbitrary_precision (cf e) = false ->
    number_from_text e inp = vres_of_res inp (Err (Message MInvalidType) (err_idx e (end_map_st e (open_st inp))))
  else
    match parse_value (value_fuel inp) e (init_st inp) with
    | Ok (v, s1) =>
      if is_number v then number_from_text e inp = vres_of_res inp (Err c i)
      else (c = TrailingCharacters \/ exists k, c = Io k)
           /\ number_from_text e inp = vres_of_res inp (Err (Message MInvalidType) (err_idx e s1))
    | _ => number_from_text e inp = vres_of_res inp (Err c i)
    end.
Proof.
  intros e inp c i HE Herr.
  destruct (starts_with inp 91) eqn:S91.
  { apply starts_with_true in S91. unfold number_from_text, number_from_text_n. rewrite (number_value_seq_init e inp S91). reflexivity. }
  destruct (starts_with inp 123) eqn:S123.
  { apply starts_with_true in S123. intros Hap. unfold number_from_text, number_from_text_n.
    rewrite (number_value_map_init e inp S123 Hap). reflexivity. }
  assert (H91 : first_sig inp <> Some 91).
  { intros Hf. apply starts_with_true in Hf. rewrite Hf in S91. discriminate S91. }
  assert (H123 : first_sig inp <> Some 123).
  { intros Hf. apply starts_with_true in Hf. rewrite Hf in S123. discriminate S123. }
  exact (text_error_core e inp c i HE H91 H123 Herr).
Qed.

(* ---- counterexamples to the unrestricted statements --------------------------------------------------------------------------------------- *)
Definition ex_cf0 : cfg := mkCfg false false false false.
Definition ex_E0 : env := mkEnv RSlice TEof ex_cf0.
Definition ex_Ea : env := mkEnv RSlice TEof ex_cfa.
Definition tok_doc (payload : bytes) : bytes := [123; 34] ++ NUMBER_TOKEN_V ++ [34; 58; 34] ++ payload ++ [34; 125].   (* {"<token>":"<payload>"} *)

(* "when the untyped pipeline returns an error, the Number target returns the same error" is false:
   `[` alone: EOF while parsing a list  vs  invalid type;   `null x`: trailing characters  vs  invalid type (at column 4, behind null) *)
Example error_not_the_same_bracket :
  from_input ex_E0 [91] = Err EofWhileParsingList 1 /\ number_from_text ex_E0 [91] = VErr (Message MInvalidType) 1 1.
Proof. split; vm_compute; reflexivity. Qed.
Example error_not_the_same_trailing :
  from_input ex_E0 [110; 117; 108; 108; 32; 120] = Err TrailingCharacters 6
  /\ number_from_text ex_E0 [110; 117; 108; 108; 32; 120] = VErr (Message MInvalidType) 1 4.
Proof. split; vm_compute; reflexivity. Qed.

(* arbitrary_precision: {"$serde_json::private::Number":"12"} IS a Number for the Number target (NumberVisitor::visit_map), while
   Model/De.v reads an object (F23: the real Value target reinterprets it, too); a payload that is not a number is a custom error whose
   position is the INNER parser's (line 1 column 2 of the string "1x"), not a position of the document *)
Example ap_token_document :
  number_from_text ex_Ea (tok_doc [49; 50]) = VOk (NLit [49; 50])
  /\ from_input ex_Ea (tok_doc [49; 50]) = Ok (VObj [(NUMBER_TOKEN_V, VStr [49; 50])])
  /\ number_from_text ex_Ea (tok_doc [49; 120]) = VErr (Message MCustom) 1 2
  /\ number_from_text ex_E0 (tok_doc [49; 50]) = VErr (Message MInvalidType) 1 1.
Proof. repeat split; vm_compute; reflexivity. Qed.

(* ================================================================================================================================
   2. The Value route
   ================================================================================================================================ *)
(* what the default representation guarantees about a Number (src/number.rs: NegInt "always less than zero", Float "always finite") *)
Definition value_num_ok (n : num) : bool :=
  match n with
  | NPos _ => true
  | NNeg z => (z <? 0)%Z
  | NFloat f => b64_is_finite f
  | NLit _ => false
  end.

Lemma wf_num_value_num_ok cf n : arbitrary_precision cf = false -> wf_num cf n = true -> value_num_ok n = true.
Proof.
  intros Hap W. unfold wf_num in W. rewrite Hap in W. destruct n as [u|z|f|s]; cbn [negb andb value_num_ok] in *.
  - reflexivity.
  - apply andb_prop in W as [_ W]. exact W.
  - exact W.
  - discriminate W.
Qed.

Theorem number_target_value_is_identity : forall cf fx n, arbitrary_precision cf = false -> value_num_ok n = true ->
  number_from_value cf fx (VNum n) = VOk n.
Proof.
  intros cf fx n Hap W. unfold number_from_value, number_any. rewrite Hap.
  destruct n as [u|z|f|s]; cbn [value_num_ok] in W; cbn [numbervis nv_u64 nv_i64 nv_f64].
  - unfold number_of_u64. rewrite Hap. reflexivity.
  - rewrite (number_of_i64_neg cf z ltac:(lia)), Hap. reflexivity.
  - rewrite W, Hap. reflexivity.
  - discriminate W.
Qed.

Corollary number_target_value_is_identity_wf : forall cf fx n, arbitrary_precision cf = false -> wf_num cf n = true ->
  number_from_value cf fx (VNum n) = VOk n.
Proof. intros cf fx n Hap W. apply number_target_value_is_identity; [exact Hap|exact (wf_num_value_num_ok cf n Hap W)]. Qed.

(* outside the invariant the Value route normalises / refuses: NegInt(5) comes back as PosInt(5), Float(inf) is "not a JSON number" *)
Example value_identity_needs_invariant :
  number_from_value ex_cf0 ex_fx (VNum (NNeg 5)) = VOk (NPos 5)
  /\ number_from_value ex_cf0 ex_fx (VNum (NFloat (B754_infinity false))) = VErr (Message MCustom) 0 0.
Proof. split; vm_compute; reflexivity. Qed.

(* arbitrary_precision: Number::deserialize_any tries the text as u64, i64, u128, i128 (-> itoa of the integer), then as f64 - when ryu's
   or Display's text of that float IS the literal, visit_f64 rebuilds the Number from the float with ryu - and only otherwise hands the
   text over (NumberDeserializer -> NumberFromString -> Number::from_str).  That is [respell_lit] of Proofs/ValueDeAgreeAp.v (finding
   F19, there for the Value target): the exact relation for every RFC 8259 literal. *)
Lemma nfs_value_lit cf s : arbitrary_precision cf = true -> Layout.number_text_ok s = true -> nfs_value cf s = VOk (NLit s).
Proof.
  intros Hap W. destruct (proj1 (SerToValueAp.number_text_ok_iff s) W) as (n & Hok & ->).
  unfold nfs_value. rewrite (from_str_verbatim cf n Hap Hok). reflexivity.
Qed.

Theorem number_target_value_ap_respell : forall cf fx s, arbitrary_precision cf = true -> Layout.number_text_ok s = true ->
  number_from_value cf fx (VNum (NLit s)) = VOk (NLit (respell_lit fx s)).
Proof.
  intros cf fx s Hap W. unfold number_from_value, number_any, respell_lit. rewrite Hap. cbn [number_text].
  destruct (ap_as_u64 s) as [u|]; [cbn [numbervis nv_u64]; unfold number_of_u64; rewrite Hap; reflexivity|].
  destruct (ap_as_i64 s) as [i|]; [cbn [numbervis nv_i64]; unfold number_of_i64; rewrite Hap; reflexivity|].
  destruct (ap_as_u128 s) as [u|]; [cbn [numbervis nv_u128]; rewrite Hap; reflexivity|].
  destruct (ap_as_i128 s) as [i|]; [cbn [numbervis nv_i128]; rewrite Hap; reflexivity|].
  destruct (ap_as_f64 s) as [f|] eqn:Hf.
  - destruct (beq_bytes (ryu64 fx (bits_of_b64 f)) s || beq_bytes (disp64 fx (bits_of_b64 f)) s).
    + cbn [numbervis nv_f64]. rewrite (ap_as_f64_finite s f Hf), Hap. reflexivity.
    + cbn [numbervis nv_number_map]. rewrite Hap. apply nfs_value_lit; assumption.
  - cbn [numbervis nv_number_map]. rewrite Hap. apply nfs_value_lit; assumption.
Qed.

Lemma beq_bytes_true_eq : forall a b, beq_bytes a b = true -> a = b.
Proof.
  induction a as [|x a IH]; intros [|y b] H; cbn [beq_bytes] in H; try discriminate H; [reflexivity|].
  apply andb_prop in H as [Hx Hr]. apply N.eqb_eq in Hx. subst y. rewrite (IH b Hr). reflexivity.
Qed.

(* identity exactly on the canonical spellings ([canon_lit]; Proofs/ValueDeAgreeApValue.v canon_lit_iff says which they are:
   not `-0`, and not "Display's but not ryu's spelling" of the nearest f64 for a literal no integer accessor reads) *)
Corollary number_target_value_ap_identity_iff : forall cf fx s, arbitrary_precision cf = true -> Layout.number_text_ok s = true ->
  (number_from_value cf fx (VNum (NLit s)) = VOk (NLit s) <-> canon_lit fx s = true).
Proof.
  intros cf fx s Hap W. rewrite (number_target_value_ap_respell cf fx s Hap W). unfold canon_lit. split.
  - intros H. injection H as H. rewrite H. apply beq_bytes_refl.
  - intros H. apply beq_bytes_true_eq in H. rewrite H. reflexivity.
Qed.

(* witnesses ([ex_fx]: the formatter pair of Proofs/ValueDeAgreeApValue.v that knows 1e-6, 100.0, 1e39 the way Rust prints them):
   -0 -> 0,  0.000001 -> 1e-6,  1 followed by 39 zeros -> 1e39;  1E2, 100.0, -0.0 stay *)
Example value_ap_respells :
  number_from_value ex_cfa ex_fx (VNum (NLit [45; 48])) = VOk (NLit [48])
  /\ number_from_value ex_cfa ex_fx (VNum (NLit lit_0_000001)) = VOk (NLit lit_1em6)
  /\ number_from_value ex_cfa ex_fx (VNum (NLit lit_10p39)) = VOk (NLit lit_1e39)
  /\ number_from_value ex_cfa ex_fx (VNum (NLit lit_1E2)) = VOk (NLit lit_1E2)
  /\ number_from_value ex_cfa ex_fx (VNum (NLit lit_100_0)) = VOk (NLit lit_100_0)
  /\ number_from_value ex_cfa ex_fx (VNum (NLit [45; 48; 46; 48])) = VOk (NLit [45; 48; 46; 48]).
Proof. repeat split; vm_compute; reflexivity. Qed.
(* a Number that was not built from a literal (from_string_unchecked) is re-spelled or refused: 007 -> 7, "x" -> custom at 1:1 *)
Example value_ap_unchecked :
  number_from_value ex_cfa ex_fx (VNum (NLit [48; 48; 55])) = VOk (NLit [55])
  /\ number_from_value ex_cfa ex_fx (VNum (NLit [120])) = VErr (Message MCustom) 1 1.
Proof. split; vm_compute; reflexivity. Qed.

(* ================================================================================================================================
   3. The two routes agree (C16 shape)
   ================================================================================================================================ *)
(* a Value that is a number came out of the number arm of deserialize_any *)
Lemma parse_value_num_inv E f s n s2 : parse_value (S f) E s = Ok (VNum n, s2) ->
  exists b s1 positive s0 p,
    parse_whitespace E s = Ok (Some b, s1)
    /\ ((b = 45 /\ positive = false /\ s0 = discard s1) \/ (is_digit b = true /\ positive = true /\ s0 = s1))
    /\ parse_any_number E positive s0 = Ok (p, s2) /\ visit_number_cfg E p = VNum n.
Proof.
  intros H. rewrite parse_value_S in H. apply bind_ok_inv in H as ([o s1] & Hpw & H).
  destruct o as [b|]; [|discriminate H].
  destruct (b =? 110); [apply bind_ok_inv in H as (? & _ & H); discriminate H|].
  destruct (b =? 116); [apply bind_ok_inv in H as (? & _ & H); discriminate H|].
  destruct (b =? 102); [apply bind_ok_inv in H as (? & _ & H); discriminate H|].
  destruct (b =? 45) eqn:H45.
  { apply bind_ok_inv in H as ([p s3] & Hrun & H). injection H as Hv <-. apply N.eqb_eq in H45.
    exists b, s1, false, (discard s1), p. split; [exact Hpw|]. split; [left; repeat split; exact H45|]. split; [exact Hrun|exact Hv]. }
  destruct (is_digit b) eqn:Hd.
  { apply bind_ok_inv in H as ([p s3] & Hrun & H). injection H as Hv <-.
    exists b, s1, true, s1, p. split; [exact Hpw|]. split; [right; repeat split; exact Hd|]. split; [exact Hrun|exact Hv]. }
  destruct (b =? 34); [apply bind_ok_inv in H as ([[? ?] ?] & _ & H); discriminate H|].
  destruct (b =? 91).
  { apply bind_ok_inv in H as (? & _ & H). apply bind_ok_inv in H as ([? ?] & _ & H).
    apply bind_ok_inv in H as (? & _ & H). apply bind_ok_inv in H as (? & _ & H). discriminate H. }
  destruct (b =? 123).
  { apply bind_ok_inv in H as (? & _ & H). apply bind_ok_inv in H as ([? ?] & _ & H).
    apply bind_ok_inv in H as (? & _ & H). apply bind_ok_inv in H as (? & _ & H). discriminate H. }
  discriminate H.
Qed.

(* default build: a parsed Number satisfies the representation invariant *)
Lemma parsed_num_ok E positive s0 p s1 n : arbitrary_precision (cf E) = false ->
  parse_any_number E positive s0 = Ok (p, s1) -> visit_number_cfg E p = VNum n -> value_num_ok n = true.
Proof.
  intros Hap Hrun Hv. unfold visit_number_cfg in Hv. rewrite Hap in Hv. destruct p as [f|u|z|lit]; cbn [visit_number] in Hv.
  - destruct (b64_is_finite f) eqn:Hf; [|discriminate Hv]. injection Hv as <-. exact Hf.
  - injection Hv as <-. reflexivity.
  - injection Hv as <-. cbn [value_num_ok]. pose proof (parse_any_number_i64_neg E positive s0 z s1 Hrun). lia.
  - injection Hv as <-. exfalso.
    destruct (visit_agree E positive s0 (PString lit) s1 ltac:(rewrite Hap; discriminate) Hrun) as (m & _ & Hnv).
    unfold number_visit in Hnv. rewrite Hap in Hnv. discriminate Hnv.
Qed.

(* DEFAULT build: for every text whose untyped parse is Ok v, from_value::<Number>(v) and from_str::<Number>(text) agree:
   both Ok with the same number, or both the data error of the same class (the Value route has no position) *)
Theorem number_target_agree : forall e fx inp v, arbitrary_precision (cf e) = false ->
  from_input e inp = Ok v ->
  match number_from_value (cf e) fx v with
  | VOk n => number_from_text e inp = VOk n
  | VErr (Message k) _ _ => exists line col, number_from_text e inp = VErr (Message k) line col
  | _ => False
  end.
Proof.
  intros e fx inp v Hap Hv.
  destruct (number_target_text_is_value e inp Hap) as (Hiff & Hnn & _).
  destruct (is_number v) eqn:Hn.
  - destruct v as [| |n| | |]; try discriminate Hn.
    destruct (from_input_inv e inp (VNum n) Hv) as (s1 & s2 & Hpv & _). destruct (value_fuel_S inp) as (f & Hfuel). rewrite Hfuel in Hpv.
    destruct (parse_value_num_inv e f (init_st inp) n s1 Hpv) as (b & s0' & positive & s0 & p & _ & _ & Hrun & Hvis).
    rewrite (number_target_value_is_identity (cf e) fx n Hap (parsed_num_ok e positive s0 p s1 n Hap Hrun Hvis)).
    exact (proj2 (Hiff n) Hv).
  - destruct (Hnn v Hv Hn) as (s1 & _ & Ht).
    assert (Hval : number_from_value (cf e) fx v = VErr (Message MInvalidType) 0 0).
    { unfold number_from_value. rewrite Hap. destruct v; try discriminate Hn; reflexivity. }
    rewrite Hval. rewrite Ht. cbn [vres_of_res]. destruct (pos_of inp (invalid_type_at e inp v s1)) as [line col].
    exists line, col. reflexivity.
Qed.

(* ARBITRARY_PRECISION.  Objects are excluded (NumberVisitor::visit_map reads the private token on both routes, Model/De.v does not
   reinterpret it on the text route: counterexamples below).  For the rest: non-numbers are refused on both routes with invalid type;
   a number comes back VERBATIM from the text route and RE-SPELLED from the Value route — so "the same number" holds exactly for
   the canonical spellings, and is false for -0, 0.000001, ... (F19). *)
Theorem number_target_agree_partial : forall e fx inp v, arbitrary_precision (cf e) = true ->
  from_input e inp = Ok v -> (forall l, v <> VObj l) ->
  match v with
  | VNum n =>
    exists s, n = NLit s /\ Layout.number_text_ok s = true
              /\ number_from_text e inp = VOk (NLit s)
              /\ number_from_value (cf e) fx v = VOk (NLit (respell_lit fx s))
  | _ => number_from_value (cf e) fx v = VErr (Message MInvalidType) 0 0
         /\ exists line col, number_from_text e inp = VErr (Message MInvalidType) line col
  end.
Proof.
  intros e fx inp v Hap Hv Hno.
  destruct (from_input_inv e inp v Hv) as (s1 & s2 & Hpv & Hend). pose proof (proj1 (de_end_ok e s1 s2 Hend)) as HE.
  destruct (value_fuel_S inp) as (f & Hfuel).
  assert (Htok : arbitrary_precision (cf e) = true -> first_sig inp <> Some 123).
  { intros _ Hf. destruct (pw_init_is e inp 123 Hf) as (s0 & Hpw). rewrite Hfuel in Hpv.
    destruct (parse_value_map_shape e f (init_st inp) s0 v s1 Hpw Hpv) as (l & Hl). exact (Hno l Hl). }
  destruct (number_target_text_is_value_partial e inp Htok) as (Hiff & Hnn).
  destruct (is_number v) eqn:Hn.
  - destruct v as [| |n| | |]; try discriminate Hn. rewrite Hfuel in Hpv.
    destruct (parse_value_num_inv e f (init_st inp) n s1 Hpv) as (b & s0' & positive & s0 & p & _ & _ & Hrun & Hvis).
    destruct (ap_parsed_literal e positive s0 p s1 HE Hap Hrun) as (m & Hok & _ & Hlit & _ & _).
    unfold visit_number_cfg in Hvis. rewrite Hap in Hvis. injection Hvis as <-.
    assert (W : Layout.number_text_ok (ap_lit_of p) = true).
    { apply (proj2 (SerToValueAp.number_text_ok_iff (ap_lit_of p))). exists m. split; [exact Hok|exact Hlit]. }
    exists (ap_lit_of p). split; [reflexivity|]. split; [exact W|]. split; [exact (proj2 (Hiff _) Hv)|].
    exact (number_target_value_ap_respell (cf e) fx (ap_lit_of p) Hap W).
  - destruct (Hnn v Hv Hn) as (s1' & _ & Ht).
    assert (Hval : number_from_value (cf e) fx v = VErr (Message MInvalidType) 0 0).
    { unfold number_from_value. destruct v as [| | | | |l]; try discriminate Hn; try reflexivity. exfalso. exact (Hno l eq_refl). }
    assert (Hex : exists line col, number_from_text e inp = VErr (Message MInvalidType) line col).
    { rewrite Ht. cbn [vres_of_res]. destruct (pos_of inp (invalid_type_at e inp v s1')) as [line col]. exists line, col. reflexivity. }
    destruct v; try discriminate Hn; (split; [exact Hval|exact Hex]).
Qed.

(* -0 : text route "-0", Value route "0" *)
Example agree_ap_neg_zero :
  from_input ex_Ea [45; 48] = Ok (VNum (NLit [45; 48]))
  /\ number_from_text ex_Ea [45; 48] = VOk (NLit [45; 48])
  /\ number_from_value ex_cfa ex_fx (VNum (NLit [45; 48])) = VOk (NLit [48]).
Proof. repeat split; vm_compute; reflexivity. Qed.

(* objects under arbitrary_precision.
   {"b":1,"<token>":"1"}: the text route meets "b" first (custom: expected field with custom name); the Value is a BTreeMap, iterated
   in key order, "$..." < "b": the Value route meets the token first, takes "1", then finds a second member (invalid length).
   Both are data errors, of different classes — this one is a difference of the REAL routes as well.
   {"<token>":"1","b":2}: the Value model (Model/De.v) reads an object, on which the Value route reports invalid length, while the text
   route is a SYNTAX error (trailing comma: end_map after the visitor returned) — the crate's Value target fails on this text, too (F23). *)
Definition doc_b_tok : bytes := [123; 34; 98; 34; 58; 49; 44; 34] ++ NUMBER_TOKEN_V ++ [34; 58; 34; 49; 34; 125].
Definition doc_tok_b : bytes := [123; 34] ++ NUMBER_TOKEN_V ++ [34; 58; 34; 49; 34; 44; 34; 98; 34; 58; 50; 125].
Example agree_ap_objects :
  from_input ex_Ea doc_b_tok = Ok (VObj [(NUMBER_TOKEN_V, VStr [49]); ([98], VNum (NLit [49]))])
  /\ number_from_value ex_cfa ex_fx (VObj [(NUMBER_TOKEN_V, VStr [49]); ([98], VNum (NLit [49]))]) = VErr (Message MInvalidLength) 0 0
  /\ number_from_text ex_Ea doc_b_tok = VErr (Message MCustom) 1 4
  /\ from_input ex_Ea doc_tok_b = Ok (VObj [(NUMBER_TOKEN_V, VStr [49]); ([98], VNum (NLit [50]))])
  /\ number_from_value ex_cfa ex_fx (VObj [(NUMBER_TOKEN_V, VStr [49]); ([98], VNum (NLit [50]))]) = VErr (Message MInvalidLength) 0 0
  /\ number_from_text ex_Ea doc_tok_b = VErr TrailingComma 1 36.
Proof. repeat split; vm_compute; reflexivity. Qed.

(* ================================================================================================================================
   4. arbitrary_precision: the literal comes back verbatim (C20 shape)
   ================================================================================================================================ *)
(* completeness: a document that is an RFC 8259 number literal between insignificant whitespace *)
Theorem number_target_ap_verbatim : forall cf w1 n w2, arbitrary_precision cf = true ->
  ws_ok w1 = true -> ws_ok w2 = true -> num_ok n = true ->
  number_from_text (mkEnv RSlice TEof cf) (w1 ++ render_num n ++ w2) = VOk (NLit (render_num n))
  /\ number_from_text (mkEnv RIo TEof cf) (w1 ++ render_num n ++ w2) = VOk (NLit (render_num n)).
Proof.
  intros cf w1 n w2 Hap H1 H2 Hok.
  assert (Hsl : from_input (mkEnv RSlice TEof cf) (w1 ++ render_num n ++ w2) = Ok (VNum (NLit (render_num n)))).
  { apply (verbatim_nested cf w1 (CNum n) w2 (VNum (NLit (render_num n))) Hap H1 H2 Hok); [intros _; cbn [cdepth]; lia|reflexivity]. }
  assert (Hnb : first_sig (w1 ++ render_num n ++ w2) <> Some 123).
  { intros Hf. set (E := mkEnv RSlice TEof cf) in *. destruct (pw_init_is E _ 123 Hf) as (s0 & Hpw).
    destruct (from_input_inv E _ _ Hsl) as (s1 & s2 & Hpv & _). destruct (value_fuel_S (w1 ++ render_num n ++ w2)) as (f & Hfuel).
    rewrite Hfuel in Hpv. destruct (parse_value_map_shape E f _ s0 _ s1 Hpw Hpv) as (l & Hl). discriminate Hl. }
  split.
  - apply (text_iff_core (mkEnv RSlice TEof cf)); [intros _; exact Hnb|exact Hsl].
  - apply (text_iff_core (mkEnv RIo TEof cf)); [intros _; exact Hnb|]. rewrite GrammarFinal.from_input_io_slice. exact Hsl.
Qed.

(* soundness: whatever the Number target accepts, from a document that does not start with `{`, is whitespace, an RFC 8259 literal,
   whitespace, and the Number holds exactly the bytes of that literal (every reader kind) *)
Theorem number_target_ap_verbatim_partial : forall e inp n, arbitrary_precision (cf e) = true ->
  first_sig inp <> Some 123 ->
  number_from_text e inp = VOk n ->
  exists lit w2, inp = firstn (span_len is_ws inp) inp ++ lit ++ w2
              /\ n = NLit lit /\ Layout.number_text_ok lit = true /\ forallb is_ws w2 = true.
Proof.
  intros e inp n Hap Hnb Hrun.
  pose proof (proj1 (text_iff_core e inp n (fun _ => Hnb)) Hrun) as Hv.
  destruct (from_input_inv e inp (VNum n) Hv) as (s1 & s2 & Hpv & Hend).
  destruct (de_end_ok e s1 s2 Hend) as (HE & Hws). apply span_skipn_nil in Hws.
  destruct (value_fuel_S inp) as (f & Hfuel). rewrite Hfuel in Hpv.
  destruct (parse_value_num_inv e f (init_st inp) n s1 Hpv) as (b & s0' & positive & s0 & p & Hpw & Hb & Hrunp & Hvis).
  destruct (ap_parsed_literal e positive s0 p s1 HE Hap Hrunp) as (m & Hok & Hneg & Hlit & Hrest & _).
  unfold visit_number_cfg in Hvis. rewrite Hap in Hvis. injection Hvis as <-.
  exists (ap_lit_of p), (rest s1).
  assert (W : Layout.number_text_ok (ap_lit_of p) = true).
  { apply (proj2 (SerToValueAp.number_text_ok_iff (ap_lit_of p))). exists m. split; [exact Hok|exact Hlit]. }
  split; [|split; [reflexivity|split; [exact W|exact Hws]]].
  rewrite pw_init in Hpw. destruct (skipn (span_len is_ws inp) inp) as [|b' r] eqn:Hsk.
  { unfold at_end in Hpw. destruct (tm e); discriminate Hpw. }
  injection Hpw as -> <-.
  rewrite <- (firstn_skipn (span_len is_ws inp) inp) at 1. f_equal. rewrite Hsk, Hlit, render_num_split, Hneg.
  destruct Hb as [(-> & -> & ->)|(_ & -> & ->)]; cbn [negb app]; cbn [discard rest tl] in Hrest; rewrite Hrest; reflexivity.
Qed.

(* a document that starts with `{` can be accepted, too, and then the Number is the payload of the private token, not a span of
   number syntax in the source: [ap_token_document] above (number_from_text ex_Ea {"<token>":"12"} = NLit "12") *)

Print Assumptions number_target_text_is_value.
Print Assumptions number_target_text_is_value_partial.
Print Assumptions number_target_text_errors.
Print Assumptions number_target_value_is_identity.
Print Assumptions number_target_value_ap_respell.
Print Assumptions number_target_agree.
Print Assumptions number_target_agree_partial.
Print Assumptions number_target_ap_verbatim.
Print Assumptions number_target_ap_verbatim_partial.
