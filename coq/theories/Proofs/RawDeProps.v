(* Proofs/RawDeProps.v — `impl Deserializer for &RawValue` (src/raw.rs 549-789; model Model/RawDe.v): reading a typed
   target out of a captured RawValue against `from_str::<T>` on the captured text.

   The Rust body of every request is `Deserializer::from_str(&self.json).deserialize_X(visitor)` WITHOUT `end()`.
   A captured text is `render c` for a well-formed syntax tree (Proofs/RawProps.v C19_from_string): no whitespace
   around it.  So the two differ only if the typed parser can SUCCEED on `render c` without having consumed all of it.

     consumption (section 2)      one induction on fuel over the seven mutually recursive functions of Model/DeTyped.v
                                  (the TValue leaf is Proofs/RawDeValue.v, the other leaves Proofs/RawDeLeaves.v):
                                  in front of `render c ++ x` a successful run stops at [x] — unless the request that
                                  reaches the text is deserialize_i128 / u128 (through Option / newtype wrappers only:
                                  [head128]) and the text is a number with a fraction or an exponent: then it stops at
                                  the `.` / `e` / `E`.  Inside a container such a stop makes the container fail, so
                                  the exception survives at top level only.
     raw_de_is_from_str_partial   every type program, every configuration:  head128 t = false  or  the text is not a
                                  number with fraction / exponent  ==>  raw_deserialize = from_str on the text
     raw_de_128_differs*          the stated restriction is necessary (the statement without it is FALSE): for
                                  t = i128 and the captured text `1.5`, raw_deserialize = Ok 1 and from_str = trailing characters
     raw_de_128_characterised     what happens in the excluded case
     raw_de_value_is_reparse      the Value target
     to_raw_value_reparses        to_raw_value gives a text that RawValue::from_string accepts unchanged *)
From SJ Require Import Base.Bytes Base.Utf8 Base.FloatB Gen.Tables Model.Read Model.Str Model.Num Model.NumF32 Model.Value Model.De
  Model.Ignore Model.Ty Model.DeTyped Model.Sval Model.Ser Model.RawM Model.RawDe Spec.Syntax Spec.Denote.
From SJ Require Import Proofs.GrammarStr Proofs.GrammarNum Proofs.TypedTotal Proofs.RawDe Proofs.RawAny
  Proofs.GrammarValueBase Proofs.RawDeBase Proofs.RawDeValue Proofs.RawDeF32 Proofs.RawDeLeaves.
From SJ Require Proofs.GrammarValueSound Proofs.GrammarValueComplete Proofs.GrammarFinal Proofs.StrSource Proofs.RawToValue
  Proofs.SerBase Proofs.SerMain Proofs.Utf8Lemmas Spec.Layout.
Require Import Lia ZifyBool ZifyNat ZifyN.
Open Scope N_scope.

(* ------------------------------------------------------------------------------------------ *)
(** * 1. Vocabulary *)

(* the request that reaches the text is deserialize_i128 / deserialize_u128 (Option and newtype struct forward the
   deserializer untouched) *)
Fixpoint head128 (t : ty) : bool :=
  match t with
  | TInt it => is_128 it
  | TOption t1 | TNewtype t1 => head128 t1
  | _ => false
  end.

Definition Stuck (t : ty) (c : cst) (r : bytes) : Prop := head128 t = true /\ Stuck0 c r.
Definition Stops (t : ty) (c : cst) (x r : bytes) : Prop := r = x \/ Stuck t c r.

(* a captured RawValue text: what C19_from_string / C19_top_level establish for every successful capture *)
Definition captured (j : bytes) : Prop := exists c, wfb c = true /\ j = render c.

Ltac head_contra Hh :=
  first [ discriminate Hh
        | (destruct Hh as [(Hh & _)|(Hh & _)]; first [discriminate Hh | (unfold is_digit in Hh; lia)]) ].

(* ------------------------------------------------------------------------------------------ *)
(** * 2. Consumption *)
Section Consume.
Variable cf : cfg.
Notation E := (mkEnv RStr TEof cf).

Definition PT (f : nat) : Prop := forall t s d s1 c x,
  de_typed f E t s = TOk (d, s1) -> skipws (rest s) = render c ++ x -> wfb c = true -> val_follow x -> Stops t c x (rest s1).
Definition PE (f : nat) : Prop := forall t first s l s1 wp es x,
  de_elems f E t first s = TOk (l, s1) -> rest s = seq_text first wp es ++ 93 :: x -> ws_ok wp = true -> wfb_elems es = true ->
  SeqRem x (rest s1).
Definition PU (f : nat) : Prop := forall ts first s l s1 wp es x,
  de_tuple f E ts first s = TOk (l, s1) -> rest s = seq_text first wp es ++ 93 :: x -> ws_ok wp = true -> wfb_elems es = true ->
  SeqRem x (rest s1) \/ StuckR (rest s1).
Definition PN (f : nat) : Prop := forall k v first s l s1 wp ms x,
  de_entries f E k v first s = TOk (l, s1) -> rest s = map_text first wp ms ++ 125 :: x -> ws_ok wp = true -> wfb_members ms = true ->
  MapRem x (rest s1).
Definition PF (f : nat) : Prop := forall fields slots first s l s1 wp ms x,
  de_fields f E fields slots first s = TOk (l, s1) -> rest s = map_text first wp ms ++ 125 :: x -> ws_ok wp = true -> wfb_members ms = true ->
  MapRem x (rest s1).
Definition PS (f : nat) : Prop := forall fields s d s1 c x,
  de_struct f E fields s = TOk (d, s1) -> skipws (rest s) = render c ++ x -> wfb c = true -> val_follow x -> rest s1 = x.
Definition PK (f : nat) : Prop := forall k s d s1 ps y,
  de_key f E k s = TOk (d, s1) -> rest s = 34 :: flat_map render_piece ps ++ 34 :: y -> str_ok ps = true -> rest s1 = y.

(* a stuck cursor ends every loop that would continue after it *)
Lemma stuck_elems f t s l s1 b y : bad3 b -> rest s = b :: y -> de_elems f E t false s = TOk (l, s1) -> False.
Proof.
  intros Hb Hr H. destruct f as [|f]; [discriminate H|]. rewrite de_elems_S in H.
  apply tbind_lift_ok in H as (o & Hhn & _). exact (stuck_hne cf b y s o Hb Hr Hhn).
Qed.
Lemma stuck_entries f k v s l s1 b y : bad3 b -> rest s = b :: y -> de_entries f E k v false s = TOk (l, s1) -> False.
Proof.
  intros Hb Hr H. destruct f as [|f]; [discriminate H|]. rewrite de_entries_S in H.
  apply tbind_lift_ok in H as (o & Hhn & _). exact (stuck_hnk cf b y s o Hb Hr Hhn).
Qed.
Lemma stuck_fields f fields slots s l s1 b y : bad3 b -> rest s = b :: y -> de_fields f E fields slots false s = TOk (l, s1) -> False.
Proof.
  intros Hb Hr H. destruct f as [|f]; [discriminate H|]. rewrite de_fields_S in H.
  apply tbind_lift_ok in H as (o & Hhn & _). exact (stuck_hnk cf b y s o Hb Hr Hhn).
Qed.

Lemma wfb_arr w es : wfb (CArr w es) = true -> ws_ok w = true /\ wfb_elems es = true.
Proof. cbn [wfb]. intros H. now apply andb_prop in H. Qed.
Lemma wfb_obj w ms : wfb (CObj w ms) = true -> ws_ok w = true /\ wfb_members ms = true.
Proof. cbn [wfb]. intros H. now apply andb_prop in H. Qed.

(* ---- Vec<T> ---- *)
Lemma pe_step f : PT f -> PE f -> PE (S f).
Proof.
  intros IHt IHe t first s l s1 wp es x H Hr Hwp Hes. rewrite de_elems_S in H.
  apply tbind_lift_ok in H as (o & Hhn & H). destruct es as [|w1 c w2 es'].
  - rewrite (hne_on_nil cf first s o wp x Hhn Hr Hwp) in H. injection H as _ <-. exists first, wp, ENil. auto.
  - destruct (wfb_elems_cons _ _ _ _ Hes) as (Hw1 & Hc & Hw2 & Hes').
    destruct (hne_on_cons cf first s o wp w1 c w2 es' x Hhn Hr Hwp Hw1 Hc) as (s0 & -> & Hs0).
    apply tbind_ok in H as ([d s2] & Hd & H). apply tbind_ok in H as ([ds s3] & Hds & H). injection H as _ <-.
    assert (Hsk : skipws (rest s0) = render c ++ (w2 ++ tail_elems es' ++ 93 :: x)) by (rewrite Hs0; now apply skipws_render).
    destruct (IHt t s0 d s2 c _ Hd Hsk Hc (vf_tail_elems w2 es' x Hw2)) as [Hs2|(_ & _ & b & y & Hst & Hbad)].
    + apply (IHe t false s2 ds s3 w2 es' x Hds); [|exact Hw2|exact Hes']. rewrite seq_text_false, <- app_assoc. exact Hs2.
    + exfalso. exact (stuck_elems f t s2 ds s3 b y Hbad Hst Hds).
Qed.

(* ---- tuples ---- *)
Lemma pu_step f : PT f -> PU f -> PU (S f).
Proof.
  intros IHt IHu ts first s l s1 wp es x H Hr Hwp Hes. destruct ts as [|t ts].
  - rewrite de_tuple_nil in H. injection H as _ <-. left. exists first, wp, es. auto.
  - rewrite de_tuple_cons in H. apply tbind_lift_ok in H as (o & Hhn & H). destruct es as [|w1 c w2 es'].
    + rewrite (hne_on_nil cf first s o wp x Hhn Hr Hwp) in H. discriminate H.
    + destruct (wfb_elems_cons _ _ _ _ Hes) as (Hw1 & Hc & Hw2 & Hes').
      destruct (hne_on_cons cf first s o wp w1 c w2 es' x Hhn Hr Hwp Hw1 Hc) as (s0 & -> & Hs0).
      apply tbind_ok in H as ([d s2] & Hd & H). apply tbind_ok in H as ([ds s3] & Hds & H). injection H as _ <-.
      assert (Hsk : skipws (rest s0) = render c ++ (w2 ++ tail_elems es' ++ 93 :: x)) by (rewrite Hs0; now apply skipws_render).
      destruct (IHt t s0 d s2 c _ Hd Hsk Hc (vf_tail_elems w2 es' x Hw2)) as [Hs2|(_ & _ & b & y & Hst & Hbad)].
      * apply (IHu ts false s2 ds s3 w2 es' x Hds); [|exact Hw2|exact Hes']. rewrite seq_text_false, <- app_assoc. exact Hs2.
      * destruct f as [|f]; [discriminate Hds|]. destruct ts as [|t' ts'].
        -- rewrite de_tuple_nil in Hds. injection Hds as _ <-. right. exists b, y. auto.
        -- exfalso. rewrite de_tuple_cons in Hds. apply tbind_lift_ok in Hds as (o' & Hhn' & _).
           exact (stuck_hne cf b y s2 o' Hbad Hst Hhn').
Qed.

(* ---- maps ---- *)
Lemma pn_step f : PT f -> PK f -> PN f -> PN (S f).
Proof.
  intros IHt IHk IHn k v first s l s1 wp ms x H Hr Hwp Hms. rewrite de_entries_S in H.
  apply tbind_lift_ok in H as (o & Hhn & H). destruct ms as [|w1 kk w2 w3 c w4 ms'].
  - rewrite (hnk_on_nil cf first s o wp x Hhn Hr Hwp) in H. injection H as _ <-. exists wp. auto.
  - destruct (wfb_members_cons _ _ _ _ _ _ _ Hms) as (Hw1 & Hk & Hw2 & Hw3 & Hc & Hw4 & Hms').
    destruct (hnk_on_cons cf first s o wp w1 kk w2 w3 c w4 ms' x Hhn Hr Hwp Hw1) as (s0 & -> & Hs0).
    apply tbind_ok in H as ([kd s2] & Hkd & H). apply tbind_lift_ok in H as (s3 & Hcol & H).
    apply tbind_ok in H as ([vd s4] & Hvd & H). apply tbind_ok in H as ([es s5] & Hes & H). injection H as _ <-.
    pose proof (IHk k s0 kd s2 kk _ Hkd Hs0 Hk) as Hs2.
    pose proof (colon_on cf s2 s3 w2 _ Hcol Hs2 Hw2) as Hs3.
    assert (Hsk : skipws (rest s3) = render c ++ (w4 ++ tail_members ms' ++ 125 :: x)) by (rewrite Hs3; now apply skipws_ws_render).
    destruct (IHt v s3 vd s4 c _ Hvd Hsk Hc (vf_tail_members w4 ms' x Hw4)) as [Hs4|(_ & _ & b & y & Hst & Hbad)].
    + apply (IHn k v false s4 es s5 w4 ms' x Hes); [|exact Hw4|exact Hms']. rewrite map_text_false, <- app_assoc. exact Hs4.
    + exfalso. exact (stuck_entries f k v s4 es s5 b y Hbad Hst Hes).
Qed.

(* ---- structs by name ---- *)
Lemma pf_step f : PT f -> PF f -> PF (S f).
Proof.
  intros IHt IHf fields slots first s l s1 wp ms x H Hr Hwp Hms. rewrite de_fields_S in H.
  apply tbind_lift_ok in H as (o & Hhn & H). destruct ms as [|w1 kk w2 w3 c w4 ms'].
  - rewrite (hnk_on_nil cf first s o wp x Hhn Hr Hwp) in H. apply tbind_ok in H as (ds & _ & H). injection H as _ <-.
    exists wp. auto.
  - destruct (wfb_members_cons _ _ _ _ _ _ _ Hms) as (Hw1 & Hk & Hw2 & Hw3 & Hc & Hw4 & Hms').
    destruct (hnk_on_cons cf first s o wp w1 kk w2 w3 c w4 ms' x Hhn Hr Hwp Hw1) as (s0 & -> & Hs0).
    apply tbind_lift_ok in H as ([[name bw] s2] & Hps & H).
    assert (Hd0 : rest (discard s0) = flat_map render_piece kk ++ 34 :: (w2 ++ 58 :: w3 ++ render c ++ (w4 ++ tail_members ms' ++ 125 :: x))).
    { rewrite discard_restE, Hs0. reflexivity. }
    pose proof (parse_str_rest cf kk _ _ _ _ _ Hk Hd0 Hps) as Hs2.
    destruct (index_of name fields) as [[i t]|].
    + destruct (slot_filled i slots); [discriminate H|].
      apply tbind_lift_ok in H as (s3 & Hcol & H). apply tbind_ok in H as ([d s4] & Hd & H).
      pose proof (colon_on cf s2 s3 w2 _ Hcol Hs2 Hw2) as Hs3.
      assert (Hsk : skipws (rest s3) = render c ++ (w4 ++ tail_members ms' ++ 125 :: x)) by (rewrite Hs3; now apply skipws_ws_render).
      destruct (IHt t s3 d s4 c _ Hd Hsk Hc (vf_tail_members w4 ms' x Hw4)) as [Hs4|(_ & _ & b & y & Hst & Hbad)].
      * apply (IHf fields _ false s4 l s1 w4 ms' x H); [|exact Hw4|exact Hms']. rewrite map_text_false, <- app_assoc. exact Hs4.
      * exfalso. exact (stuck_fields f fields _ s4 l s1 b y Hbad Hst H).
    + apply tbind_lift_ok in H as (s3 & Hcol & H). apply tbind_lift_ok in H as (s4 & Hig & H).
      pose proof (colon_on cf s2 s3 w2 _ Hcol Hs2 Hw2) as Hs3.
      assert (Hsk : skipws (rest s3) = render c ++ (w4 ++ tail_members ms' ++ 125 :: x)) by (rewrite Hs3; now apply skipws_ws_render).
      pose proof (ignore_value_rest cf s3 s4 c _ Hig Hsk Hc (vf_tail_members w4 ms' x Hw4)) as Hs4.
      apply (IHf fields slots false s4 l s1 w4 ms' x H); [|exact Hw4|exact Hms']. rewrite map_text_false, <- app_assoc. exact Hs4.
Qed.

Lemma ps_step f : PU f -> PF f -> PS (S f).
Proof.
  intros IHu IHf fields s d s1 c x H Hr Hc Hx. rewrite de_struct_S in H. apply tmap_ok in H as (l & Hl & _).
  apply (struct_frame cf _ _ s l s1 c x Hl Hr Hc).
  - intros w es s' s3 -> Hs' Hb. destruct (wfb_arr w es Hc) as [Hw Hes]. exact (IHu _ true s' l s3 w es x Hb Hs' Hw Hes).
  - intros w ms s' s3 -> Hs' Hb. destruct (wfb_obj w ms Hc) as [Hw Hms]. exact (IHf _ _ true s' l s3 w ms x Hb Hs' Hw Hms).
Qed.

(* ---- map keys ---- *)
Lemma pk_step f : PK f -> PK (S f).
Proof.
  intros IHk k s d s1 ps y H Hr Hok. destruct k.
  - rewrite de_key_str in H. apply tbind_lift_ok in H as ([[str bw] s2] & Hp & H). apply visit_string_st in H. cbn [snd] in H. subst s1.
    apply (parse_str_rest cf ps y (discard s) str bw s2 Hok); [rewrite discard_restE, Hr; reflexivity|exact Hp].
  - rewrite de_key_int in H. exact (numeric_key_rest cf _ s d s1 ps y (int_numeric cf t) H Hr Hok).
  - rewrite de_key_bool in H. exact (key_bool_rest cf s d s1 ps y H Hr Hok).
  - rewrite de_key_char in H. apply tbind_lift_ok in H as ([[str bw] s2] & Hp & H). apply visit_char_st in H. cbn [snd] in H. subst s1.
    apply (parse_str_rest cf ps y (discard s) str bw s2 Hok); [rewrite discard_restE, Hr; reflexivity|exact Hp].
  - rewrite de_key_f32 in H. exact (numeric_key_rest cf _ s d s1 ps y (f32_numeric cf) H Hr Hok).
  - rewrite de_key_f64 in H. exact (numeric_key_rest cf _ s d s1 ps y (number_numeric cf visit_f64 visit_f64_keeps) H Hr Hok).
  - rewrite de_key_option in H. apply tmap_ok in H as (a & Ha & _). exact (IHk k s a s1 ps y Ha Hr Hok).
  - rewrite de_key_newtype in H. apply tmap_ok in H as (a & Ha & _). exact (IHk k s a s1 ps y Ha Hr Hok).
  - rewrite de_key_unit_enum in H.
    apply (enum_ok_inv cf) in H as (b & s0 & Hpw & [(Hb & s2 & s3 & s4 & s6 & _ & Hbm & _)|(Hb & Hbu)]); [discriminate Hbm|].
    apply tbind_ok in Hbu as ([[name v] s2] & Hstr & Hbu). injection Hbu as _ <-.
    apply pw_invE in Hpw as [H1 _].
    change s2 with (snd (name, v, s2)).
    apply (str_on_lit cf (@snd _ st) _ (visit_variant_st _) s0 (name, v, s2) ps y Hstr); [|exact Hok].
    rewrite H1, skipws_idem, Hr. apply skipws_head. reflexivity.
Qed.


(* ---- the seed ---- *)
Lemma stops_wrap t t' c x r : head128 t' = head128 t -> Stops t c x r -> Stops t' c x r.
Proof. intros Hh [G|(G1 & G2)]; [left; exact G|right; split; [rewrite Hh; exact G1|exact G2]]. Qed.

Lemma pt_step f : PT f -> PE f -> PU f -> PN f -> PS f -> PT (S f).
Proof.
  intros IHt IHe IHu IHn IHs t s d s1 c x H Hr Hc Hx. destruct t.
  - (* Value *)
    rewrite de_typed_value in H. apply tbind_lift_ok in H as ([v s2] & Hv & H). injection H as _ <-. left.
    exact (parse_value_rest cf f s v s2 c x Hv Hr Hc Hx).
  - (* IgnoredAny *)
    rewrite de_typed_ignored in H. apply tbind_lift_ok in H as (s2 & Hig & H). injection H as _ <-. left.
    exact (ignore_value_rest cf s s2 c x Hig Hr Hc Hx).
  - (* Box<RawValue> *)
    rewrite de_typed_raw in H. left.
    destruct (skipws_split (rest s)) as (w & Hw & Hs). rewrite Hr in Hs. destruct s as [l0 off p dd]. cbn [rest] in Hs. subst l0.
    destruct (deserialize_raw_complete RStr cf w c x off p dd Hw Hc Hx (or_introl eq_refl)) as (p' & G).
    rewrite G in H. injection H as _ <-. reflexivity.
  - rewrite de_typed_bool in H. left. exact (bool_rest cf s d s1 c x H Hr Hc).
  - (* integers *)
    rewrite de_typed_int in H. destruct (int_rest cf t s d s1 c x H Hr Hc Hx) as [G|(G1 & G2)]; [left; exact G|].
    right. split; [exact G1|exact G2].
  - rewrite de_typed_f32 in H. left. exact (f32_rest cf s d s1 c x H Hr Hc Hx).
  - rewrite de_typed_f64 in H. left. exact (number_rest cf visit_f64 visit_f64_keeps s d s1 c x H Hr Hc Hx).
  - rewrite de_typed_char in H. left. change s1 with (snd (d, s1)).
    exact (str_rest cf (@snd dval st) visit_char visit_char_st s (d, s1) c x H Hr Hc).
  - rewrite de_typed_str in H. left. change s1 with (snd (d, s1)).
    exact (str_rest cf (@snd dval st) visit_string visit_string_st s (d, s1) c x H Hr Hc).
  - rewrite de_typed_borrowed in H. left. change s1 with (snd (d, s1)).
    exact (str_rest cf (@snd dval st) visit_borrowed_only visit_borrowed_st s (d, s1) c x H Hr Hc).
  - (* ByteBuf *)
    rewrite de_typed_bytes in H. left. apply tbind_lift_ok in H as ([o s0] & Hpw & H).
    destruct (pw_on_value cf s o s0 c x Hpw Hr Hc) as (b & rc & Hrc & -> & Hs0 & Hd0).
    pose proof (head_cases c b rc Hc Hrc) as Hh. apply fix_ok in H.
    destruct (b =? 34) eqn:E34.
    + apply N.eqb_eq in E34. subst b. apply tbind_lift_ok in H as ([[str bw] s2] & Hp & H). injection H as _ <-.
      destruct c as [| | |n|ps|w es|w ms]; try head_contra Hh. cbn [wfb] in Hc.
      cbn [render] in Hrc. unfold render_str in Hrc. injection Hrc as <-. rewrite <- app_assoc in Hd0. cbn [app] in Hd0.
      exact (parse_str_raw_rest cf ps x _ _ _ _ Hc Hd0 Hp).
    + destruct (b =? 91) eqn:E91; [|exfalso; exact (pit_never _ _ _ H)].
      apply tmap_ok in H as (l & Hl & _).
      assert (Hsk : skipws (rest s0) = render c ++ x). { rewrite Hs0, app_comm_cons, <- Hrc. now apply skipws_render. }
      apply (seq_frame cf _ s0 l s1 c x Hl Hsk Hc).
      intros w es s' s3 -> Hs' Hb. destruct (wfb_arr w es Hc) as [Hw Hes]. left. exact (IHe _ true s' l s3 w es x Hb Hs' Hw Hes).
  - rewrite de_typed_unit in H. left. exact (unit_rest cf s d s1 c x H Hr Hc).
  - rewrite de_typed_unit_struct in H. left. exact (unit_rest cf s d s1 c x H Hr Hc).
  - (* Option *)
    rewrite de_typed_option in H. apply tbind_lift_ok in H as ([o s0] & Hpw & H).
    destruct (pw_on_value cf s o s0 c x Hpw Hr Hc) as (b & rc & Hrc & -> & Hs0 & Hd0).
    destruct (b =? 110) eqn:E110.
    + apply N.eqb_eq in E110. subst b. apply tbind_lift_ok in H as (s2 & Hid & H). injection H as _ <-. left.
      exact (null_rest cf s0 s2 c x rc Hrc Hc Hd0 Hid).
    + apply tmap_ok in H as (a & Ha & _).
      assert (Hsk : skipws (rest s0) = render c ++ x). { rewrite Hs0, app_comm_cons, <- Hrc. now apply skipws_render. }
      exact (stops_wrap t (TOption t) c x _ eq_refl (IHt t s0 a s1 c x Ha Hsk Hc Hx)).
  - (* newtype struct *)
    rewrite de_typed_newtype in H. apply tmap_ok in H as (a & Ha & _).
    exact (stops_wrap t (TNewtype t) c x _ eq_refl (IHt t s a s1 c x Ha Hr Hc Hx)).
  - (* Vec *)
    rewrite de_typed_seq in H. apply tmap_ok in H as (l & Hl & _). left.
    apply (seq_frame cf _ s l s1 c x Hl Hr Hc).
    intros w es s' s3 -> Hs' Hb. destruct (wfb_arr w es Hc) as [Hw Hes]. left. exact (IHe _ true s' l s3 w es x Hb Hs' Hw Hes).
  - (* tuple *)
    rewrite de_typed_tuple in H. apply tmap_ok in H as (l & Hl & _). left.
    apply (seq_frame cf _ s l s1 c x Hl Hr Hc).
    intros w es s' s3 -> Hs' Hb. destruct (wfb_arr w es Hc) as [Hw Hes]. exact (IHu _ true s' l s3 w es x Hb Hs' Hw Hes).
  - (* tuple struct *)
    rewrite de_typed_tuple_struct in H. apply tmap_ok in H as (l & Hl & _). left.
    apply (seq_frame cf _ s l s1 c x Hl Hr Hc).
    intros w es s' s3 -> Hs' Hb. destruct (wfb_arr w es Hc) as [Hw Hes]. exact (IHu _ true s' l s3 w es x Hb Hs' Hw Hes).
  - (* map *)
    rewrite de_typed_map in H. apply tmap_ok in H as (l & Hl & _). left.
    apply (map_frame cf _ s l s1 c x Hl Hr Hc).
    intros w ms s' s3 -> Hs' Hb. destruct (wfb_obj w ms Hc) as [Hw Hms]. exact (IHn _ _ true s' l s3 w ms x Hb Hs' Hw Hms).
  - (* struct *)
    rewrite de_typed_struct in H. left. exact (IHs fields s d s1 c x H Hr Hc Hx).
  - (* enum *)
    rewrite de_typed_enum in H. left.
    apply (enum_ok_inv cf) in H as (b & s0 & Hpw & [(Hb & s2 & s3 & s4 & s6 & Hen & Hbm & Hlv & Hpw2 & ->)|(Hb & Hbu)]).
    + (* { "Variant" : payload } *)
      subst b. destruct (pw_on_value cf s (Some 123) s0 c x Hpw Hr Hc) as (b & rc & Hrc & Hb & Hs0 & Hd0). injection Hb as <-.
      pose proof (head_cases c 123 rc Hc Hrc) as Hh. destruct c as [| | |n|ps|w ms|w ms]; try head_contra Hh.
      destruct (wfb_obj w ms Hc) as [Hw Hms].
      assert (Hd2 : rest (discard s2) = map_text true w ms ++ 125 :: x).
      { rewrite discard_restE, (enter_restE cf _ _ Hen), Hs0, app_comm_cons, <- Hrc, obj_text. reflexivity. }
      apply tbind_ok in Hbm as ([[name v] s7] & Hstr & Hbm). apply tbind_lift_ok in Hbm as (s8 & Hcol & Hbm).
      apply tmap_ok in Hbm as (pl & Hpl & _).
      destruct ms as [|w1 k w2 w3 c1 w4 ms'].
      * exfalso. destruct (str_head cf _ _ _ Hstr) as (r & Hq). rewrite Hd2 in Hq. cbn [map_text] in Hq.
        rewrite skipws_to in Hq by (try assumption; reflexivity). discriminate Hq.
      * destruct (wfb_members_cons _ _ _ _ _ _ _ Hms) as (Hw1 & Hk & Hw2 & Hw3 & Hc1 & Hw4 & Hms').
        rewrite map_text_cons_skip in Hd2. cbn [app] in Hd2.
        assert (Hs7 : rest s7 = w2 ++ 58 :: w3 ++ render c1 ++ (w4 ++ tail_members ms' ++ 125 :: x)).
        { change s7 with (snd (name, v, s7)).
          apply (str_on_lit cf (@snd _ st) _ (visit_variant_st variants) (discard s2) (name, v, s7) k _ Hstr); [|exact Hk].
          rewrite Hd2. apply skipws_to; [exact Hw1|reflexivity]. }
        pose proof (colon_on cf s7 s8 w2 _ Hcol Hs7 Hw2) as Hs8.
        assert (Hsk : skipws (rest s8) = render c1 ++ (w4 ++ tail_members ms' ++ 125 :: x)) by (rewrite Hs8; now apply skipws_ws_render).
        pose proof (vf_tail_members w4 ms' x Hw4) as Hvf.
        assert (Hs3 : rest s3 = w4 ++ tail_members ms' ++ 125 :: x \/ StuckR (rest s3)).
        { destruct v as [|t1|ts|fields].
          - left. exact (unit_rest cf s8 pl s3 c1 _ Hpl Hsk Hc1).
          - destruct (IHt t1 s8 pl s3 c1 _ Hpl Hsk Hc1 Hvf) as [G|(_ & _ & G)]; [left; exact G|right; exact G].
          - apply tmap_ok in Hpl as (l & Hl & _). left. apply (seq_frame cf _ s8 l s3 c1 _ Hl Hsk Hc1).
            intros w' es s' s3' -> Hs' Hb'. destruct (wfb_arr w' es Hc1) as [Hw' Hes].
            exact (IHu _ true s' l s3' w' es _ Hb' Hs' Hw' Hes).
          - left. exact (IHs fields s8 pl s3 c1 _ Hpl Hsk Hc1 Hvf). }
        apply pw_invE in Hpw2 as [H1 H2]. rewrite (leave_restE cf _ _ Hlv) in H1.
        destruct Hs3 as [Hs3|(b & y & Hst & Hbad)].
        -- rewrite Hs3 in H1. destruct ms' as [|w1' k' w2' w3' c1' w4' ms''].
           ++ cbn [tail_members app] in H1. rewrite skipws_to in H1 by (try assumption; reflexivity).
              rewrite discard_restE, H1. reflexivity.
           ++ exfalso. cbn [tail_members app] in H1. rewrite skipws_to in H1 by (try assumption; reflexivity).
              rewrite H1 in H2. discriminate H2.
        -- exfalso. rewrite Hst, (skipws_bad3 b y Hbad) in H1. rewrite H1 in H2. cbn [hd_error] in H2. injection H2 as <-.
           destruct Hbad as [K|[K|K]]; discriminate K.
    + (* "Variant" *)
      subst b. apply tbind_ok in Hbu as ([[name v] s7] & Hstr & Hbu). destruct v; try discriminate Hbu. injection Hbu as _ <-.
      apply pw_invE in Hpw as [H1 _].
      change s7 with (snd (name, VUnit, s7)).
      apply (str_rest cf (@snd _ st) _ (visit_variant_st variants) s0 (name, VUnit, s7) c x Hstr); [|exact Hc].
      rewrite H1, skipws_idem. exact Hr.
Qed.

Theorem consume_all : forall f, PT f /\ PE f /\ PU f /\ PN f /\ PF f /\ PS f /\ PK f.
Proof.
  induction f as [|f (IHt & IHe & IHu & IHn & IHf & IHs & IHk)].
  - repeat split; intros ? **; discriminate.
  - split; [now apply pt_step|]. split; [now apply pe_step|]. split; [now apply pu_step|]. split; [now apply pn_step|].
    split; [now apply pf_step|]. split; [now apply ps_step|now apply pk_step].
Qed.

(* in front of `render c ++ x`, a successful typed run stops at x, or (128-bit integer request on a fractional number) on `.` / `e` / `E` *)
Theorem de_typed_consumes : forall f t s d s1 c x,
  de_typed f E t s = TOk (d, s1) -> skipws (rest s) = render c ++ x -> wfb c = true -> val_follow x -> Stops t c x (rest s1).
Proof. intros f. exact (proj1 (consume_all f)). Qed.

End Consume.

(* ------------------------------------------------------------------------------------------ *)
(** * 3. T::deserialize(&raw) against from_str::<T>(raw.get()) *)

Lemma bad3_ws_ok b y : bad3 b -> ws_ok (b :: y) = false.
Proof. intros Hb. unfold ws_ok. cbn [forallb]. now rewrite (bad3_not_ws b Hb). Qed.

Lemma skipws_init c : wfb c = true -> skipws (rest (init_st (render c))) = render c ++ [].
Proof. intros Hc. cbn [init_st rest]. pose proof (skipws_render c [] Hc) as H. rewrite app_nil_r in H. rewrite app_nil_r. exact H. Qed.

(* The complete comparison, no hypothesis on the type program or the configuration: on a captured text the two
   routes give the SAME outcome (value, error code and position, or unpositioned data error), except that a 128-bit
   integer target (possibly behind Option / newtype wrappers) reads the integer part of a number with a fraction or an
   exponent where from_str reports trailing characters. *)
Theorem raw_de_vs_from_str : forall cf t c, wfb c = true ->
  raw_deserialize cf t (render c) = raw_from_str cf t (render c)
  \/ (head128 t = true /\ ~ int_only c /\
      exists d i, raw_deserialize cf t (render c) = TOk d /\ raw_from_str cf t (render c) = TErr TrailingCharacters i).
Proof.
  intros cf t c Hc. unfold raw_deserialize, raw_from_str, from_input_typed, raw_get.
  destruct (de_typed (typed_fuel t (render c)) (raw_env cf) t (init_st (render c))) as [[d s1]|e i|k s'| |] eqn:Hd;
    cbn [DeTyped.tbind]; try (left; reflexivity).
  destruct (de_typed_consumes (raw_cfg cf) _ t _ d s1 c [] Hd (skipws_init c Hc) Hc I) as [Hs1|(Hh & Hn & b & y & Hst & Hb)].
  - left. destruct s1 as [l off p dd]. cbn [rest] in Hs1. subst l.
    destruct (de_end_ws_any RStr (raw_cfg cf) [] off p dd eq_refl) as (s' & Hend). unfold raw_env. rewrite Hend. reflexivity.
  - right. split; [exact Hh|]. split; [exact Hn|].
    assert (Hws : ws_ok (rest s1) = false) by (rewrite Hst; now apply bad3_ws_ok).
    destruct (de_end_not_ws_any RStr (raw_cfg cf) s1 Hws) as (i & Hend). exists d, i. unfold raw_env. rewrite Hend. auto.
Qed.

(* [raw_de_is_from_str], strongest true form: restriction to "not (128-bit head and fractional number)" *)
Theorem raw_de_is_from_str_partial : forall cf t c, wfb c = true -> head128 t = false \/ int_only c ->
  raw_deserialize cf t (render c) = raw_from_str cf t (render c).
Proof.
  intros cf t c Hc Hyp. destruct (raw_de_vs_from_str cf t c Hc) as [H|(Hh & Hn & _)]; [exact H|].
  exfalso. destruct Hyp as [Hyp|Hyp]; [congruence|exact (Hn Hyp)].
Qed.

(* every target whose request is not deserialize_i128 / u128: the statement of the task, in full *)
Corollary raw_de_is_from_str_no128 : forall cf t j, captured j -> head128 t = false ->
  raw_deserialize cf t j = raw_from_str cf t j.
Proof. intros cf t j (c & Hc & ->) Hh. apply raw_de_is_from_str_partial; auto. Qed.

(* ... and through IntoDeserializer, which is the identity *)
Corollary raw_into_deserializer_is_from_str : forall cf t c, wfb c = true -> head128 t = false \/ int_only c ->
  raw_deserialize_into cf t (render c) = raw_from_str cf t (render c).
Proof. intros cf t c. unfold raw_deserialize_into, raw_into_deserializer. apply raw_de_is_from_str_partial. Qed.

(* every RawValue obtained from RawValue::from_string (hence from_str::<Box<RawValue>>) is a captured text *)
Lemma from_string_captured : forall cf s j, utf8_valid s = true -> from_string cf s = TOk j -> captured j /\ utf8_valid j = true.
Proof.
  intros cf s j Hu H. apply (from_string_lang cf s j Hu) in H as (w1 & c & w2 & Hs & _ & _ & Hc & ->).
  split; [exists c; auto|]. rewrite Hs in Hu. exact (render_utf8_mid w1 w2 c Hc Hu).
Qed.

Corollary raw_de_is_from_str_captured : forall cf s j t, utf8_valid s = true -> from_string cf s = TOk j -> head128 t = false ->
  raw_deserialize cf t j = raw_from_str cf t j.
Proof. intros cf s j t Hu H Hh. apply raw_de_is_from_str_no128; [exact (proj1 (from_string_captured cf s j Hu H))|exact Hh]. Qed.

(* The unrestricted statement is FALSE.  Counterexample: the captured text `1.5` read as i128 *)
Definition cfg0 := mkCfg false false false false.
Definition text_1p5 : bytes := [49; 46; 53].
Example raw_de_128_counterexample_captured : captured text_1p5.
Proof. exists (CNum (mkNum false [49] (Some [53]) None)). split; reflexivity. Qed.
Example raw_de_128_differs :
  raw_deserialize cfg0 (TInt Ty.I128) text_1p5 = TOk (DInt 1)
  /\ raw_from_str cfg0 (TInt Ty.I128) text_1p5 = TErr TrailingCharacters 2
  /\ from_string cfg0 text_1p5 = TOk text_1p5.
Proof. vm_compute. repeat split; reflexivity. Qed.
Example raw_de_128_differs_wrapped :
  raw_deserialize cfg0 (TOption (TNewtype (TInt Ty.U128))) [49; 101; 53] = TOk (DSome (DNewtype (DInt 1)))
  /\ raw_from_str cfg0 (TOption (TNewtype (TInt Ty.U128))) [49; 101; 53] = TErr TrailingCharacters 2.
Proof. vm_compute. split; reflexivity. Qed.
(* inside a container the early stop is an error on both routes *)
Example raw_de_128_nested_agree :
  raw_deserialize cfg0 (TSeq (TInt Ty.I128)) [91; 49; 46; 53; 93] = raw_from_str cfg0 (TSeq (TInt Ty.I128)) [91; 49; 46; 53; 93].
Proof. vm_compute. reflexivity. Qed.

(* ------------------------------------------------------------------------------------------ *)
(** * 4. The Value target *)

Corollary raw_de_value_is_from_str : forall cf j, captured j -> raw_deserialize cf TValue j = raw_from_str cf TValue j.
Proof. intros cf j Hj. apply raw_de_is_from_str_no128; [exact Hj|reflexivity]. Qed.

Lemma typed_fuel_value j : typed_fuel TValue j = S (4 * length j + 9).
Proof. unfold typed_fuel. cbn [ty_depth]. lia. Qed.

(* Value::deserialize(&raw) succeeds exactly with the value the captured text denotes (Spec/Denote.v) *)
Theorem raw_de_value_is_reparse : forall cf j d, captured j -> utf8_valid j = true ->
  (raw_deserialize cf TValue j = TOk d <-> exists v, d = DValue (Driver.show_value v) /\ Denotes (raw_cfg cf) j v).
Proof.
  intros cf j d (c & Hc & ->) Hu. unfold raw_deserialize. rewrite typed_fuel_value, de_typed_value.
  set (F := (4 * length (render c) + 9)%nat). unfold raw_env.
  rewrite (StrSource.parse_value_str_slice (raw_cfg cf) F (init_st (render c)) Hu).
  split.
  - intros H. apply tbind_ok in H as ([d' s1] & H & H'). injection H' as <-.
    apply tbind_lift_ok in H as ([v s1'] & Hv & H). injection H as <- <-. exists v. split; [reflexivity|].
    pose proof Hv as Hv0. rewrite <- (StrSource.parse_value_str_slice (raw_cfg cf) F (init_st (render c)) Hu) in Hv0.
    pose proof (parse_value_rest (raw_cfg cf) F _ v s1' c [] Hv0 (skipws_init c Hc) Hc I) as Hs1.
    destruct (GrammarValueSound.sound_all (raw_cfg cf)
                (fun s0 b bw s1 HF H => GrammarFinal.Hstr_sound_inst (raw_cfg cf) s0 b bw s1 HF H)
                (fun positive s0 p s1 H => number_sound_plain (mkEnv RSlice TEof (raw_cfg cf)) positive s0 p s1 eq_refl H) F) as (Sv & _ & _).
    destruct (Sv _ _ _ Hv (Utf8Lemmas.utf8_valid_bytes (render c) Hu)) as (c' & Hc' & Hwf & Hden & Hdp & _).
    rewrite Hs1, (skipws_init c Hc) in Hc'. rewrite !app_nil_r in Hc'.
    exists [], c', []. cbn [app]. rewrite app_nil_r. split; [exact Hc'|]. split; [reflexivity|]. split; [reflexivity|].
    split; [exact Hwf|]. split; [exact Hden|].
    intros Hl. specialize (Hdp Hl). cbn [init_st depth] in Hdp. rewrite DEPTH0_eq in Hdp. lia.
  - intros (v & -> & w1 & c' & w2 & Hbs & Hw1 & Hw2 & Hwf & Hden & Hdep).
    destruct (GrammarValueComplete.complete_all (raw_cfg cf)
                (fun s b rst off pk d Hs Ht => GrammarFinal.Hstr_complete_inst (raw_cfg cf) s b rst off pk d Hs Ht)
                (fun positive n rst off pk d Hn Hf p s' H => number_local_ok (mkEnv RSlice TEof (raw_cfg cf)) positive n rst off pk d eq_refl Hn Hf p s' H))
      as (Cv & _ & _).
    destruct (Cv c' F (init_st (render c)) w1 w2 v) as (s1 & Hv & _); try assumption.
    + pose proof (vfuel_bound c') as Hb. unfold F. rewrite Hbs, !app_length. lia.
    + rewrite <- (app_nil_r w2). apply follow_ws; [exact Hw2|exact I].
    + cbn [init_st depth]. rewrite DEPTH0_eq. intros Hl. specialize (Hdep Hl). lia.
    + rewrite Hv. reflexivity.
Qed.

(* the same as `serde_json::to_value(&raw)` (Model/RawM.v rto_value at the raw leaf = from_str::<Value> of the text) *)
Corollary raw_de_value_is_to_value : forall cf fmt32 fmt64 j d, captured j -> utf8_valid j = true ->
  (raw_deserialize cf TValue j = TOk d
   <-> exists v, d = DValue (Driver.show_value v) /\ rto_value (raw_cfg cf) fmt32 fmt64 (RRaw j) = Ok v).
Proof.
  intros cf fmt32 fmt64 j d Hj Hu. rewrite (raw_de_value_is_reparse cf j d Hj Hu). split; intros (v & Hd & H); exists v; (split; [exact Hd|]).
  - exact (RawToValue.rto_value_raw_complete (raw_cfg cf) fmt32 fmt64 j v Hu H).
  - exact (RawToValue.rto_value_raw_sound (raw_cfg cf) fmt32 fmt64 j v Hu H).
Qed.

(* ------------------------------------------------------------------------------------------ *)
(** * 5. to_raw_value *)

(* value::to_raw_value does not re-validate its text; the serializer's output needs no validation: it is a captured
   text (C03), and RawValue::from_string gives it back unchanged *)
Theorem to_raw_value_reparses : forall cf fmt32 fmt64 v j,
  Layout.ryu_json fmt32 fmt64 -> Layout.wfs v = true ->
  RawM.to_raw_value cf fmt32 fmt64 v = Ok j ->
  from_string cf j = TOk j /\ captured j /\ utf8_valid j = true.
Proof.
  intros cf fmt32 fmt64 v j Hryu Hwfs H. unfold RawM.to_raw_value, to_vec, rmap in H.
  destruct (serialize cf fmt32 fmt64 Compact v) as [bufs|e i| |] eqn:Hs; cbn [bind] in H; try discriminate H. injection H as <-.
  destruct (SerMain.C03_sval_render_main cf fmt32 fmt64 v bufs Hryu Hwfs Hs) as (c & Hren & Hc & _).
  assert (Hu : utf8_valid (concat bufs) = true).
  { apply (SerMain.C03_utf8_main' cf fmt32 fmt64 Compact v bufs Hryu); [intros ind K; discriminate K|exact Hwfs|exact Hs]. }
  split; [|split; [exists c; auto|exact Hu]].
  apply (from_string_lang cf (concat bufs) (concat bufs) Hu). exists [], c, []. cbn [app]. rewrite app_nil_r. auto.
Qed.

(* consequently every typed read out of `to_raw_value(x)` is the typed read of `to_string(x)` (128-bit heads excepted as above) *)
Corollary to_raw_value_then_deserialize : forall cf fmt32 fmt64 v j t,
  Layout.ryu_json fmt32 fmt64 -> Layout.wfs v = true -> RawM.to_raw_value cf fmt32 fmt64 v = Ok j -> head128 t = false ->
  raw_deserialize cf t j = raw_from_str cf t j.
Proof.
  intros cf fmt32 fmt64 v j t Hryu Hwfs H Hh. destruct (to_raw_value_reparses cf fmt32 fmt64 v j Hryu Hwfs H) as (_ & Hj & _).
  exact (raw_de_is_from_str_no128 cf t j Hj Hh).
Qed.

Print Assumptions de_typed_consumes.
Print Assumptions raw_de_vs_from_str.
Print Assumptions raw_de_is_from_str_partial.
Print Assumptions raw_de_128_differs.
Print Assumptions raw_de_value_is_reparse.
Print Assumptions to_raw_value_reparses.
