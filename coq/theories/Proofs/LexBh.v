(* Proofs/LexBh.v — Stage 1: the slow path of lexical (bhcomp.rs, Model/Lex.bhcomp) is exact.

   bhcomp k b integer fraction exponent  returns the bits of the round-to-nearest-even float of the decimal value
        x = digits(integer ++ fraction) * 10^(exponent - |fraction|)
   provided (only when the scaled exponent is negative, i.e. in the small_atof branch) that b is the float just below x:
        f_mantissa b * 2^(f_exponent b)  <=  x  <  (f_mantissa b + 1) * 2^(f_exponent b).
   All digits count: strings longer than MAX_DIGITS are handled by the truncation argument (a halfway point between two
   adjacent floats has at most MAX_DIGITS - 2 significant decimal digits, so the sticky digit that parse_mantissa appends
   decides every comparison the same way as the digits it stands for).

     bhcomp_correct_gen   generic in the float kind, relative to an oracle characterised by brackets (Section Gen)
     bhcomp_correct       binary64, oracle = bits_of_b64 (rne_decimal D e)
     bhcomp_f64_regression  the F21 witness (769 integer digits, trailing zeros) now evaluates to the oracle's bits

   The Bigint arithmetic of bhcomp.rs is abstracted to Z in the model (see the header of Model/Lex.v). *)
From Coq Require Import ZArith NArith Reals Lia Lra List Bool Psatz.
From Flocq Require Import Core BinarySingleNaN.
From SJ Require Import Base.Bytes Base.FloatB Gen.LexTables Model.Read Model.Num Model.Lex.
From SJ Require Import Proofs.FloatDefault Proofs.FloatOracle Proofs.LexOracle Proofs.LexRnd Proofs.LexBits Proofs.LexAtof.
Import ListNotations.
Open Scope Z_scope.

(* ------------------------------------------------------------------ *)
(** * digit strings *)
Notation alldig l := (forallb is_digit l = true).
Notation dv l := (digits_val l 0).
Notation len l := (Z.of_nat (length l)).

Lemma dv_acc : forall l acc, digits_val l acc = acc * 10 ^ len l + dv l.
Proof.
  induction l as [|c r IH]; intros acc; cbn [digits_val length].
  - change (10 ^ Z.of_nat 0) with 1. lia.
  - rewrite IH, (IH (0 * 10 + Z.of_N (digit_val c))). rewrite Nat2Z.inj_succ, Z.pow_succ_r by lia. ring.
Qed.

Lemma dv_cons (c : byte) (r : bytes) : dv (c :: r) = Z.of_N (digit_val c) * 10 ^ len r + dv r.
Proof. cbn [digits_val]. rewrite dv_acc. f_equal. Qed.

Lemma digits_val_app : forall l1 l2 acc, digits_val (l1 ++ l2) acc = digits_val l2 (digits_val l1 acc).
Proof. induction l1 as [|c r IH]; intros l2 acc; cbn [app digits_val]; [reflexivity|apply IH]. Qed.

Lemma dv_app (l1 l2 : bytes) : dv (l1 ++ l2) = dv l1 * 10 ^ len l2 + dv l2.
Proof. rewrite digits_val_app. apply dv_acc. Qed.

Lemma alldig_cons (c : byte) (r : bytes) : alldig (c :: r) -> is_digit c = true /\ alldig r.
Proof. cbn [forallb]. intros H. apply andb_prop in H. exact H. Qed.

Lemma digit_val_range (c : byte) : is_digit c = true -> 0 <= Z.of_N (digit_val c) <= 9 /\ (c = 48%N <-> digit_val c = 0%N).
Proof. unfold is_digit, digit_val. intros H. apply andb_prop in H. destruct H as (H1 & H2). apply N.leb_le in H1, H2. lia. Qed.

Lemma dv_bound : forall l, alldig l -> 0 <= dv l < 10 ^ len l.
Proof.
  induction l as [|c r IH]; intros Hd.
  - cbn. lia.
  - apply alldig_cons in Hd. destruct Hd as (Hc & Hr). specialize (IH Hr). rewrite dv_cons.
    destruct (digit_val_range c Hc) as (Hv & _). cbn [length]. rewrite Nat2Z.inj_succ, Z.pow_succ_r by lia. nia.
Qed.

Lemma dv_lower (c : byte) (r : bytes) : alldig (c :: r) -> c <> 48%N -> 10 ^ len r <= dv (c :: r).
Proof.
  intros Hd Hc. apply alldig_cons in Hd. destruct Hd as (Hcd & Hr). rewrite dv_cons.
  destruct (digit_val_range c Hcd) as (Hv & Hz). pose proof (dv_bound r Hr).
  assert (1 <= Z.of_N (digit_val c)) by (destruct (N.eq_dec (digit_val c) 0) as [H0|H0]; [apply Hz in H0; contradiction|lia]).
  assert (0 < 10 ^ len r) by (apply pow10_pos; lia). nia.
Qed.

Lemma existsb_nonzero : forall l, alldig l -> existsb (fun d => negb (N.eqb d 48)) l = (0 <? dv l).
Proof.
  induction l as [|c r IH]; intros Hd.
  - reflexivity.
  - apply alldig_cons in Hd. destruct Hd as (Hc & Hr). cbn [existsb]. rewrite (IH Hr), dv_cons.
    destruct (digit_val_range c Hc) as (Hv & Hz). pose proof (dv_bound r Hr) as Hb.
    assert (Hp : 0 < 10 ^ len r) by (apply pow10_pos; lia).
    destruct (N.eqb_spec c 48) as [He|He]; cbn [negb orb].
    + apply Hz in He. rewrite He. reflexivity.
    + assert (1 <= Z.of_N (digit_val c)) by (destruct (N.eq_dec (digit_val c) 0) as [H0|H0]; [apply Hz in H0; contradiction|lia]).
      symmetry. apply Z.ltb_lt. nia.
Qed.

Lemma clz_spec : forall l, alldig l ->
  let z := count_leading_zeros l in
  (z <= length l)%nat /\ dv (skipn z l) = dv l /\ alldig (skipn z l) /\
  length (skipn z l) = (length l - z)%nat /\
  (skipn z l = [] \/ hd 0%N (skipn z l) <> 48%N).
Proof.
  induction l as [|c r IH]; intros Hd; cbn [count_leading_zeros].
  - cbn. repeat split; try lia; try (left; reflexivity).
  - pose proof Hd as Hd0. apply alldig_cons in Hd. destruct Hd as (Hc & Hr).
    destruct (N.eqb_spec c 48) as [He|He].
    + destruct (IH Hr) as (H1 & H2 & H3 & H4 & H5). cbv zeta. cbn [skipn length].
      repeat split; try lia; try assumption.
      rewrite H2, dv_cons. destruct (digit_val_range c Hc) as (_ & Hz). apply Hz in He. rewrite He. lia.
    + cbv zeta. cbn [skipn length]. repeat split; try lia; try assumption. right. cbn [hd]. exact He.
Qed.

Lemma alldig_app (a b : bytes) : alldig a -> alldig b -> alldig (a ++ b).
Proof. intros Ha Hb. rewrite forallb_app, Ha, Hb. reflexivity. Qed.

Lemma alldig_firstn (n : nat) : forall l, alldig l -> alldig (firstn n l).
Proof.
  induction n as [|n IH]; intros l Hd; [reflexivity|]. destruct l as [|c r]; [reflexivity|].
  apply alldig_cons in Hd. destruct Hd as (Hc & Hr). cbn [firstn forallb]. rewrite Hc, (IH r Hr). reflexivity.
Qed.

Lemma alldig_skipn (n : nat) : forall l, alldig l -> alldig (skipn n l).
Proof.
  induction n as [|n IH]; intros l Hd; [exact Hd|]. destruct l as [|c r]; [reflexivity|].
  apply alldig_cons in Hd. destruct Hd as (Hc & Hr). cbn [skipn]. apply IH. exact Hr.
Qed.

(* ------------------------------------------------------------------ *)
(** * parse_mantissa on the significant digits *)
Definition pm (k : fkind) (sig : bytes) : Z :=
  let mx := (MAX_DIGITS k - 1)%nat in
  let v := dv (firstn mx sig) in
  if Nat.ltb mx (length sig) then v * 10 + (if existsb (fun d => negb (N.eqb d 48)) (skipn mx sig) then 1 else 0) else v.

Lemma parse_mantissa_pm (k : fkind) (i f : bytes) : parse_mantissa k i f = pm k (i ++ f).
Proof. reflexivity. Qed.

Lemma MAX_DIGITS_ge (k : fkind) : (2 <= MAX_DIGITS k)%nat.
Proof. destruct k; vm_compute; lia. Qed.

Lemma pm_short (k : fkind) (sig : bytes) : (length sig <= MAX_DIGITS k - 1)%nat -> pm k sig = dv sig.
Proof.
  intros H. unfold pm. cbv zeta. replace (Nat.ltb (MAX_DIGITS k - 1) (length sig)) with false by (symmetry; apply Nat.ltb_ge; exact H).
  rewrite firstn_all2 by exact H. reflexivity.
Qed.

Lemma pm_long (k : fkind) (sig : bytes) : alldig sig -> (MAX_DIGITS k - 1 < length sig)%nat -> hd 0%N sig <> 48%N ->
  exists A R r : Z,
    r = len sig - Z.of_nat (MAX_DIGITS k - 1) /\ 1 <= r /\
    dv sig = A * 10 ^ r + R /\ 0 <= R < 10 ^ r /\ 10 ^ (Z.of_nat (MAX_DIGITS k) - 2) <= A /\
    pm k sig = 10 * A + (if 0 <? R then 1 else 0).
Proof.
  intros Hd Hlen Hhd. set (mx := (MAX_DIGITS k - 1)%nat) in *.
  pose proof (MAX_DIGITS_ge k) as HMX.
  exists (dv (firstn mx sig)), (dv (skipn mx sig)), (len sig - Z.of_nat mx).
  assert (Hl1 : length (firstn mx sig) = mx) by (apply firstn_length_le; lia).
  assert (Hl2 : length (skipn mx sig) = (length sig - mx)%nat) by apply skipn_length.
  split; [reflexivity|]. split; [lia|]. split.
  - replace (len sig - Z.of_nat mx) with (Z.of_nat (length sig - mx)) by lia. rewrite <- Hl2.
    rewrite <- dv_app. rewrite firstn_skipn. reflexivity.
  - split.
    + pose proof (dv_bound (skipn mx sig) (alldig_skipn mx sig Hd)) as Hb. rewrite Hl2 in Hb.
      replace (len sig - Z.of_nat mx) with (Z.of_nat (length sig - mx)) by lia. exact Hb.
    + split.
      * destruct sig as [|c r]; [cbn [length] in Hlen; lia|]. cbn [hd] in Hhd.
        destruct mx as [|mx'] eqn:Hmx; [lia|]. cbn [firstn].
        assert (Hd' : alldig (c :: firstn mx' r)).
        { apply alldig_cons in Hd. destruct Hd as (Hc & Hr). cbn [forallb]. rewrite Hc. apply alldig_firstn. exact Hr. }
        pose proof (dv_lower c (firstn mx' r) Hd' Hhd) as Hlow.
        cbn [firstn length] in Hl1. injection Hl1 as Hl1. rewrite Hl1 in Hlow.
        replace (Z.of_nat (MAX_DIGITS k) - 2) with (Z.of_nat mx') by lia. exact Hlow.
      * unfold pm. cbv zeta. fold mx.
        replace (Nat.ltb mx (length sig)) with true by (symmetry; apply Nat.ltb_lt; exact Hlen).
        rewrite existsb_nonzero by (apply alldig_skipn; exact Hd). lia.
Qed.

(* ------------------------------------------------------------------ *)
(** * bhcomp reduced to its significant digits *)
Lemma i32_sat_id (z : Z) : -2147483648 <= z <= 2147483647 -> i32_sat z = z.
Proof. unfold i32_sat. lia. Qed.
Lemma into_i32_id (z : Z) : z <= 2147483647 -> into_i32 z = z.
Proof. unfold into_i32. intros H. destruct (Z.ltb_spec 2147483647 z); lia. Qed.

Definition bh_tail (k : fkind) (b : N) (sig : bytes) (e : Z) : N :=
  let scaled := e + Z.max 0 (len sig - Z.of_nat (MAX_DIGITS k)) in
  if 0 <=? scaled then large_atof k (pm k sig) scaled else small_atof k (pm k sig) scaled b.

Lemma bhcomp_sig : forall (k : fkind) (b : N) (integer fraction : bytes) (exponent : Z),
  alldig integer -> alldig fraction -> (integer = [] \/ hd 0%N integer <> 48%N) ->
  -1000000000 <= exponent <= 1000000000 -> len integer + len fraction <= 1000000000 ->
  exists sig : bytes,
    alldig sig /\ dv sig = dv (integer ++ fraction) /\ (sig = [] \/ hd 0%N sig <> 48%N) /\
    bhcomp k b integer fraction exponent = bh_tail k b sig (exponent - len fraction).
Proof.
  intros k b integer fraction exponent Hi Hf Hlead He Hl.
  destruct integer as [|c ri].
  - (* no integer digits: skip the leading zeros of the fraction *)
    destruct (clz_spec fraction Hf) as (Hz1 & Hz2 & Hz3 & Hz4 & Hz5). cbv zeta in *.
    set (z := count_leading_zeros fraction) in *.
    exists (skipn z fraction). cbn [app]. split; [exact Hz3|]. split; [exact Hz2|]. split; [exact Hz5|].
    unfold bhcomp, bh_tail. cbn [length]. fold z. cbv zeta. rewrite parse_mantissa_pm. cbn [app].
    unfold scientific_exponent. cbn [length] in Hl.
    rewrite into_i32_id by lia. rewrite (i32_sat_id (exponent - Z.of_nat z)) by lia. rewrite i32_sat_id by lia.
    rewrite Hz4.
    assert (Hsc : exponent - Z.of_nat z - 1 + 1 - Z.of_nat (Nat.min (MAX_DIGITS k) (0 + length fraction - z)) =
                  exponent - len fraction + Z.max 0 (Z.of_nat (length fraction - z) - Z.of_nat (MAX_DIGITS k))) by lia.
    rewrite Hsc. reflexivity.
  - exists ((c :: ri) ++ fraction). split; [apply alldig_app; assumption|]. split; [reflexivity|].
    split; [right; destruct Hlead as [H|H]; [discriminate H|exact H]|].
    unfold bhcomp, bh_tail. cbv zeta. rewrite parse_mantissa_pm. cbn [length skipn].
    unfold scientific_exponent. cbn [length] in Hl.
    rewrite into_i32_id by lia. rewrite i32_sat_id by lia.
    rewrite app_length. cbn [length].
    assert (Hsc : exponent + Z.of_nat (length ri) + 1 - Z.of_nat (Nat.min (MAX_DIGITS k) (S (length ri) + length fraction - 0)) =
                  exponent - len fraction + Z.max 0 (Z.of_nat (S (length ri) + length fraction) - Z.of_nat (MAX_DIGITS k))) by lia.
    rewrite Hsc. reflexivity.
Qed.

(* ------------------------------------------------------------------ *)
(** * no halfway point hides behind the sticky digit *)
Lemma digits_bound (k : fkind) : 2 ^ (prec k + 1) * 5 ^ (1 - DENORMAL_EXPONENT k) < 10 ^ (Z.of_nat (MAX_DIGITS k) - 1) /\
                                 2 <= Z.of_nat (MAX_DIGITS k) /\ DENORMAL_EXPONENT k <= 0 /\ 0 < prec k.
Proof. destruct k; (split; [vm_compute; reflexivity|split; [vm_compute; discriminate|split; vm_compute; [discriminate|reflexivity]]]). Qed.

(* T * 2^E' is a halfway point (T = 2M+1 < 2^(prec+1), E' = E - 1 >= emin - 1); A has MAX_DIGITS-1 digits; u <= 0 *)
Lemma no_mid_between (k : fkind) (A u T E' : Z) :
  10 ^ (Z.of_nat (MAX_DIGITS k) - 2) <= A -> 0 < T < 2 ^ (prec k + 1) -> DENORMAL_EXPONENT k - 1 <= E' -> u <= 0 ->
  ~ (IZR A * powerRZ 10 u < IZR T * bpow radix2 E' < IZR (A + 1) * powerRZ 10 u)%R.
Proof.
  intros HA HT HE Hu (H1 & H2).
  destruct (digits_bound k) as (Hnum & HMX & Hemin & Hprec).
  assert (C1 : dcmp A u T E' = Lt) by (rewrite <- dcmp_spec; apply Rcompare_Lt; exact H1).
  assert (C2 : dcmp (A + 1) u T E' = Gt) by (rewrite <- dcmp_spec; apply Rcompare_Gt; exact H2).
  unfold dcmp in C1, C2. rewrite (Z.max_r u 0) in C1, C2 by lia. rewrite (Z.max_l (- u) 0) in C1, C2 by lia.
  change (10 ^ 0) with 1 in C1, C2. rewrite Z.mul_1_r in C1, C2.
  pose proof (proj1 (Z.compare_lt_iff _ _) C1) as C1'. pose proof (proj1 (Z.compare_gt_iff _ _) C2) as C2'.
  clear C1 C2. rename C1' into C1. rename C2' into C2.
  set (w := - u) in *. assert (Hw : 0 <= w) by lia.
  assert (H10 : 0 < 10 ^ w) by (apply pow10_pos; exact Hw).
  destruct (Z.le_gt_cases 0 E') as [Hpos|Hneg].
  - rewrite (Z.max_r (- E') 0) in C1, C2 by lia. rewrite (Z.max_l E' 0) in C1, C2 by lia. change (2 ^ 0) with 1 in C1, C2.
    set (Zz := T * 2 ^ E' * 10 ^ w) in *. lia.
  - rewrite (Z.max_l (- E') 0) in C1, C2 by lia. rewrite (Z.max_r E' 0) in C1, C2 by lia.
    change (2 ^ 0) with 1 in C1, C2. rewrite Z.mul_1_r in C1, C2.
    set (n := - E') in *. assert (Hn : 0 < n) by lia.
    assert (Hp : 0 < 2 ^ n) by (apply pow2_pos; lia).
    destruct (Z.le_gt_cases n w) as [Hnw|Hwn].
    + (* the halfway point is an integer multiple of 10^u *)
      assert (Hsplit : 10 ^ w = 5 ^ w * 2 ^ (w - n) * 2 ^ n).
      { rewrite <- Z.mul_assoc, <- Z.pow_add_r by lia. replace (w - n + n) with w by lia. rewrite <- Z.pow_mul_l. reflexivity. }
      rewrite Hsplit in C1, C2. set (Zz := T * (5 ^ w * 2 ^ (w - n))) in *.
      replace (T * (5 ^ w * 2 ^ (w - n) * 2 ^ n)) with (Zz * 2 ^ n) in C1, C2 by (unfold Zz; ring).
      assert (A < Zz) by nia. assert (Zz < A + 1) by nia. lia.
    + (* too many digits for a halfway point *)
      assert (Hle : 10 ^ w <= 10 ^ (n - 1)) by (apply Z.pow_le_mono_r; lia).
      assert (Hn5 : 5 ^ n <= 5 ^ (1 - DENORMAL_EXPONENT k)) by (apply Z.pow_le_mono_r; unfold n; lia).
      assert (H10n : 10 ^ n = 10 * 10 ^ (n - 1)) by (rewrite <- Z.pow_succ_r by lia; f_equal; lia).
      assert (H10s : 10 ^ n = 5 ^ n * 2 ^ n) by (rewrite <- Z.pow_mul_l; reflexivity).
      assert (HM1 : 10 ^ (Z.of_nat (MAX_DIGITS k) - 1) = 10 * 10 ^ (Z.of_nat (MAX_DIGITS k) - 2))
        by (rewrite <- Z.pow_succ_r by lia; f_equal; lia).
      set (PA := 10 ^ (Z.of_nat (MAX_DIGITS k) - 2)) in *. set (TT := 2 ^ (prec k + 1)) in *.
      assert (H5 : 0 < 5 ^ n) by (apply Z.pow_pos_nonneg; lia).
      (* PA * 2^n <= A * 2^n < T * 10^w <= T * 10^(n-1), so 10 PA 2^n < T 5^n 2^n, so 10 PA < TT 5^n *)
      assert (S1 : PA * 2 ^ n < T * 10 ^ (n - 1)) by nia.
      assert (S2 : 10 * PA * 2 ^ n < T * (5 ^ n * 2 ^ n)) by (rewrite <- H10s, H10n; nia).
      assert (S3 : 10 * PA < T * 5 ^ n) by nia.
      assert (S4 : T * 5 ^ n <= TT * 5 ^ (1 - DENORMAL_EXPONENT k)) by nia.
      lia.
Qed.

(* x and its proxy lie in the same open interval, a halfway point does not: all comparisons agree *)
Lemma same_side (lo hi x y mid : R) : (lo < x < hi)%R -> (lo < y < hi)%R -> ~ (lo < mid < hi)%R ->
  Rcompare x mid = Rcompare y mid.
Proof.
  intros Hx Hy Hm.
  destruct (Rcompare_spec x mid) as [H1|H1|H1]; destruct (Rcompare_spec y mid) as [H2|H2|H2]; try reflexivity; exfalso; apply Hm; lra.
Qed.

Lemma powerRZ_10_plus (a b : Z) : powerRZ 10 (a + b) = (powerRZ 10 a * powerRZ 10 b)%R.
Proof. apply powerRZ_add. lra. Qed.

Lemma rne_bits_huge (k : fkind) (x : R) (q E : Z) :
  2 ^ MANTISSA_SIZE k <= q < 2 ^ prec k -> in_ulp x q E ->
  (bpow radix2 (MAX_EXPONENT k + MANTISSA_SIZE k) <= x)%R -> rne_bits k x q E = INFINITY_BITS k.
Proof.
  intros Hq (Hlo & Hhi) Hx.
  assert (HE : MAX_EXPONENT k <= E).
  { destruct (Z.le_gt_cases (MAX_EXPONENT k) E) as [H|H]; [exact H|exfalso].
    assert (Hc : (IZR (q + 1) * bpow radix2 E <= bpow radix2 (MAX_EXPONENT k + MANTISSA_SIZE k))%R).
    { replace (MAX_EXPONENT k + MANTISSA_SIZE k) with (prec k + (MAX_EXPONENT k - 1)) by (unfold prec; lia).
      rewrite bpow_plus. apply Rmult_le_compat; [apply IZR_le; lia|apply bpow_ge_0| |apply bpow_le; lia].
      rewrite bpow_IZR by (unfold prec; destruct k; kconst; lia). apply IZR_le. lia. }
    lra. }
  unfold rne_bits.
  set (d := dec_of (Rcompare x (IZR (2 * q + 1) * bpow radix2 (E - 1))) q).
  assert (Hd : 0 <= d <= 1) by apply dec_of_range.
  destruct (masks_shape k) as (HEM & HINF & _ & _ & _ & _ & _ & HMAXE). cbv zeta in *.
  rewrite Z.min_r; [apply N2Z.id|].
  unfold encZ. destruct (Z.ltb_spec q (2 ^ MANTISSA_SIZE k)) as [Hl|Hl]; [lia|].
  rewrite HINF, HEM. rewrite N2Z.inj_mul, N2Z.inj_pow, Z2N.id by (destruct k; kconst; lia).
  change (Z.of_N 2) with 2.
  assert (Hpp : 0 < 2 ^ MANTISSA_SIZE k) by (apply pow2_pos; destruct k; kconst; lia).
  nia.
Qed.

(* ------------------------------------------------------------------ *)
(** * the theorem, relative to an oracle *)
Section Gen.
Variable k : fkind.
Variable orc : Z -> Z -> N.          (* the bits of the correctly rounded value of D * 10^e *)
Hypothesis orc_bracket : forall D e M E : Z, 0 < D -> 0 <= M < 2 ^ prec k -> DENORMAL_EXPONENT k <= E ->
  (E = DENORMAL_EXPONENT k \/ 2 ^ MANTISSA_SIZE k <= M) -> in_ulp (IZR D * powerRZ 10 e) M E ->
  orc D e = rne_bits k (IZR D * powerRZ 10 e) M E.
Hypothesis orc_overflow : forall D e : Z, 0 < D ->
  (bpow radix2 (MAX_EXPONENT k + MANTISSA_SIZE k) <= IZR D * powerRZ 10 e)%R -> orc D e = INFINITY_BITS k.
Hypothesis big_overflows : 2 ^ (MAX_EXPONENT k + MANTISSA_SIZE k) <= 10 ^ (Z.of_nat (MAX_DIGITS k) - 1).

Theorem bhcomp_correct_gen : forall (b : N) (integer fraction : bytes) (exponent : Z),
  alldig integer -> alldig fraction -> (integer = [] \/ hd 0%N integer <> 48%N) ->
  -1000000000 <= exponent <= 1000000000 -> len integer + len fraction <= 1000000000 ->
  let D := dv (integer ++ fraction) in
  let e := exponent - len fraction in
  0 < D -> (b < INFINITY_BITS k)%N ->
  in_ulp (IZR D * powerRZ 10 e) (Z.of_N (f_mantissa k b)) (f_exponent k b) ->
  bhcomp k b integer fraction exponent = orc D e.
Proof.
  intros b integer fraction exponent Hi Hf Hlead Hexp Hlen D e HD Hb Hbr.
  destruct (bhcomp_sig k b integer fraction exponent Hi Hf Hlead Hexp Hlen) as (sig & Hsd & Hsv & Hsl & ->).
  fold D in Hsv. fold e. clear Hi Hf Hlead Hlen.
  destruct (fbits_decode k b Hb) as (HM & HE & Hcan & Henc & _).
  set (M := Z.of_N (f_mantissa k b)) in *. set (E := f_exponent k b) in *.
  set (x := (IZR D * powerRZ 10 e)%R) in *.
  assert (Horc : orc D e = rne_bits k x M E) by (apply orc_bracket; try assumption; lia).
  unfold bh_tail. cbv zeta.
  pose proof (MAX_DIGITS_ge k) as HMX.
  destruct (le_gt_dec (length sig) (MAX_DIGITS k - 1)) as [Hshort|Hlong].
  - (* all digits fit: the mantissa is exact *)
    rewrite pm_short by exact Hshort. rewrite Hsv. rewrite Z.max_l by lia. rewrite Z.add_0_r.
    destruct (Z.leb_spec 0 e) as [Hpos|Hneg].
    + destruct (large_atof_spec k D e HD Hpos) as (q & E1 & Hq & HE1 & Hin & ->). cbv zeta in *.
      assert (Hx : IZR (D * 10 ^ e) = x) by (unfold x; rewrite mult_IZR, powerRZ_10_nonneg by exact Hpos; reflexivity).
      rewrite Hx in *. symmetry. apply orc_bracket; try assumption; try lia.
    + rewrite small_atof_spec by (try assumption; lia). fold M E x. symmetry. exact Horc.
  - (* more digits than MAX_DIGITS - 1 *)
    assert (Hne : hd 0%N sig <> 48%N).
    { destruct Hsl as [->|H]; [cbn [length] in Hlong; lia|exact H]. }
    destruct (pm_long k sig Hsd ltac:(lia) Hne) as (A & R & r & Hr & Hr1 & HDv & HR & HA & Hpm).
    rewrite Hsv in HDv. rewrite Hpm.
    set (u := e + r) in *.
    replace (e + Z.max 0 (len sig - Z.of_nat (MAX_DIGITS k))) with (u - 1) by (unfold u; lia).
    assert (H10r : (0 < IZR (10 ^ r))%R) by (apply IZR_lt, pow10_pos; lia).
    assert (Hpu : (0 < powerRZ 10 e)%R) by (apply powerRZ_lt; lra).
    assert (Hu : (powerRZ 10 u = IZR (10 ^ r) * powerRZ 10 e)%R).
    { unfold u. rewrite Z.add_comm, powerRZ_10_plus, powerRZ_10_nonneg by lia. reflexivity. }
    assert (Hu1 : (powerRZ 10 u = 10 * powerRZ 10 (u - 1))%R).
    { replace u with (1 + (u - 1)) at 1 by lia. rewrite powerRZ_10_plus. f_equal. simpl. lra. }
    assert (Hpu1 : (0 < powerRZ 10 (u - 1))%R) by (apply powerRZ_lt; lra).
    destruct (Z.ltb_spec 0 R) as [HRpos|HRzero].
    + (* some non-zero digit was dropped: sticky digit 1 *)
      assert (Hx_in : (IZR A * powerRZ 10 u < x < IZR (A + 1) * powerRZ 10 u)%R).
      { unfold x. rewrite HDv, Hu, plus_IZR, mult_IZR, (plus_IZR A 1).
        assert (0 < IZR R < IZR (10 ^ r))%R by (split; apply IZR_lt; lia). nra. }
      set (y := (IZR (10 * A + 1) * powerRZ 10 (u - 1))%R).
      assert (Hy_in : (IZR A * powerRZ 10 u < y < IZR (A + 1) * powerRZ 10 u)%R).
      { unfold y. rewrite Hu1, plus_IZR, mult_IZR, (plus_IZR A 1). simpl (IZR 10). simpl (IZR 1). nra. }
      destruct (Z.leb_spec 0 (u - 1)) as [Hpos|Hneg].
      * (* large_atof: both overflow *)
        assert (Hbig : (bpow radix2 (MAX_EXPONENT k + MANTISSA_SIZE k) <= IZR A * powerRZ 10 u)%R).
        { rewrite bpow_IZR by (destruct k; kconst; lia). rewrite powerRZ_10_nonneg by lia. rewrite <- mult_IZR.
          apply IZR_le. apply Z.le_trans with (1 := big_overflows).
          replace (Z.of_nat (MAX_DIGITS k) - 1) with (Z.of_nat (MAX_DIGITS k) - 2 + 1) by lia.
          rewrite Z.pow_add_r by lia. change (10 ^ 1) with 10.
          assert (10 ^ 1 <= 10 ^ u) by (apply Z.pow_le_mono_r; lia). change (10 ^ 1) with 10 in *.
          assert (0 < 10 ^ (Z.of_nat (MAX_DIGITS k) - 2)) by (apply pow10_pos; lia). nia. }
        rewrite orc_overflow by (try assumption; fold x; lra).
        assert (Hmpos : 0 < 10 * A + 1) by (assert (0 < 10 ^ (Z.of_nat (MAX_DIGITS k) - 2)) by (apply pow10_pos; lia); lia).
        destruct (large_atof_spec k (10 * A + 1) (u - 1) Hmpos Hpos) as (q & E1 & Hq & HE1 & Hin & ->). cbv zeta in *.
        assert (Hy : IZR ((10 * A + 1) * 10 ^ (u - 1)) = y)
          by (unfold y; rewrite mult_IZR, powerRZ_10_nonneg by exact Hpos; reflexivity).
        rewrite Hy in *. apply (rne_bits_huge k); [exact Hq|exact Hin|lra].
      * (* small_atof: the sticky digit decides like the dropped digits *)
        assert (Hmpos : 0 <= 10 * A + 1) by (assert (0 < 10 ^ (Z.of_nat (MAX_DIGITS k) - 2)) by (apply pow10_pos; lia); lia).
        rewrite small_atof_spec by assumption. fold M E y. rewrite Horc.
        unfold rne_bits. do 4 f_equal.
        apply (same_side (IZR A * powerRZ 10 u) (IZR (A + 1) * powerRZ 10 u)); [exact Hy_in|exact Hx_in|].
        apply (no_mid_between k); [exact HA|unfold prec in *; split; [lia|]|lia|unfold u; lia].
        replace (MANTISSA_SIZE k + 1 + 1) with (1 + (MANTISSA_SIZE k + 1)) by lia.
        rewrite Z.pow_add_r by (destruct k; kconst; lia). change (2 ^ 1) with 2. lia.
    + (* only zeros were dropped: sticky digit 0, the scaled mantissa is the exact value *)
      assert (HR0 : R = 0) by lia. subst R. rewrite Z.add_0_r in *.
      assert (HApos : 0 < A) by (assert (0 < 10 ^ (Z.of_nat (MAX_DIGITS k) - 2)) by (apply pow10_pos; lia); lia).
      assert (Hxy : (IZR (10 * A) * powerRZ 10 (u - 1) = x)%R).
      { unfold x. rewrite HDv, !mult_IZR.
        replace (IZR A * IZR (10 ^ r) * powerRZ 10 e)%R with (IZR A * powerRZ 10 u)%R by (rewrite Hu; ring).
        rewrite Hu1. simpl (IZR 10). ring. }
      destruct (Z.leb_spec 0 (u - 1)) as [Hpos|Hneg].
      * destruct (large_atof_spec k (10 * A) (u - 1) ltac:(lia) Hpos) as (q & E1 & Hq & HE1 & Hin & ->). cbv zeta in *.
        assert (Hy : IZR (10 * A * 10 ^ (u - 1)) = x)
          by (rewrite <- Hxy; rewrite (mult_IZR (10 * A)), powerRZ_10_nonneg by exact Hpos; reflexivity).
        rewrite Hy in *. symmetry. apply orc_bracket; try assumption; try lia.
      * rewrite small_atof_spec by (try assumption; lia). fold M E. rewrite Hxy. symmetry. exact Horc.
Qed.

End Gen.

(* ------------------------------------------------------------------ *)
(** * binary64 *)
Lemma encZ_F64 (M E : Z) : encZ F64 M E = enc64Z M E.
Proof. reflexivity. Qed.

Lemma oracle64_any : forall D e M E : Z, 0 < D -> 0 <= M < 2 ^ prec F64 -> DENORMAL_EXPONENT F64 <= E ->
  (E = DENORMAL_EXPONENT F64 \/ 2 ^ MANTISSA_SIZE F64 <= M) -> in_ulp (IZR D * powerRZ 10 e) M E ->
  bits_of_b64 (rne_decimal D e) = rne_bits F64 (IZR D * powerRZ 10 e) M E.
Proof.
  intros D e M E HD HM HE Hcan Hin. kconst. change (52 + 1) with 53 in HM.
  set (x := (IZR D * powerRZ 10 e)%R) in *.
  destruct (Z.le_gt_cases E 971) as [Hle|Hgt].
  - rewrite (oracle64_bracket D e M E HD) by (try assumption; lia). fold x.
    unfold rne_bits. change (encZ F64 M E) with (enc64Z M E). f_equal.
    set (d := dec_of (Rcompare x (IZR (2 * M + 1) * bpow radix2 (E - 1))) M).
    assert (Hd : 0 <= d <= 1) by apply dec_of_range.
    rewrite Z.min_l; [reflexivity|].
    change (Z.of_N (INFINITY_BITS F64)) with 9218868437227405312.
    unfold enc64Z. change (2 ^ 52) with 4503599627370496 in *. change (2 ^ 53) with 9007199254740992 in *.
    destruct (Z.ltb_spec M 4503599627370496); lia.
  - assert (HMn : 2 ^ 52 <= M) by (destruct Hcan as [->|H]; [lia|exact H]).
    assert (Hx : (bpow radix2 1024 <= x)%R).
    { destruct Hin as (Hlo & _). apply Rle_trans with (2 := Hlo).
      change 1024 with (52 + 972). rewrite bpow_plus. apply Rmult_le_compat; [apply bpow_ge_0|apply bpow_ge_0| |apply bpow_le; lia].
      rewrite bpow_IZR by lia. apply IZR_le. exact HMn. }
    rewrite (oracle64_overflow D e HD Hx).
    symmetry. apply (rne_bits_huge F64 x M E); [kconst; change (52 + 1) with 53; lia|exact Hin|exact Hx].
Qed.

Theorem bhcomp_correct : forall (b : N) (integer fraction : bytes) (exponent : Z),
  alldig integer -> alldig fraction -> (integer = [] \/ hd 0%N integer <> 48%N) ->
  -1000000000 <= exponent <= 1000000000 -> len integer + len fraction <= 1000000000 ->
  let D := dv (integer ++ fraction) in
  let e := exponent - len fraction in
  0 < D -> (b < INFINITY_BITS F64)%N ->
  in_ulp (IZR D * powerRZ 10 e) (Z.of_N (f_mantissa F64 b)) (f_exponent F64 b) ->
  bhcomp F64 b integer fraction exponent = bits_of_b64 (rne_decimal D e).
Proof.
  apply (bhcomp_correct_gen F64 (fun D e => bits_of_b64 (rne_decimal D e))).
  - exact oracle64_any.
  - intros D e HD Hx. rewrite (oracle64_overflow D e HD Hx). reflexivity.
  - vm_compute. discriminate.
Qed.

(* the precondition in terms of the value of the NEXT bit pattern, for b + 1 still finite *)
Lemma fval_succ (k : fkind) (b : N) : (b + 1 < INFINITY_BITS k)%N ->
  (IZR (Z.of_N (f_mantissa k (b + 1))) * bpow radix2 (f_exponent k (b + 1)) =
   IZR (Z.of_N (f_mantissa k b) + 1) * bpow radix2 (f_exponent k b))%R.
Proof.
  intros Hb.
  destruct (fbits_decode k b ltac:(lia)) as (HM & HE & Hcan & Henc & _).
  destruct (fbits_decode k (b + 1) Hb) as (HM' & HE' & Hcan' & Henc' & _).
  set (M := Z.of_N (f_mantissa k b)) in *. set (E := f_exponent k b) in *.
  set (M' := Z.of_N (f_mantissa k (b + 1))) in *. set (E' := f_exponent k (b + 1)) in *.
  assert (Hcases : (M' = M + 1 /\ E' = E) \/ (M + 1 = 2 ^ prec k /\ M' = 2 ^ MANTISSA_SIZE k /\ E' = E + 1)).
  { unfold encZ in Henc, Henc'. clearbody M E M' E'.
    destruct k; kconst; change (2 ^ 52) with 4503599627370496 in *; change (2 ^ (52 + 1)) with 9007199254740992 in *;
      change (2 ^ 23) with 8388608 in *; change (2 ^ (23 + 1)) with 16777216 in *;
      destruct (Z.ltb_spec M 4503599627370496); destruct (Z.ltb_spec M' 4503599627370496);
      destruct (Z.ltb_spec M 8388608); destruct (Z.ltb_spec M' 8388608); nia. }
  destruct Hcases as [(-> & ->)|(H1 & -> & ->)]; [reflexivity|].
  rewrite H1. unfold prec. rewrite Z.pow_add_r by (destruct k; kconst; lia). change (2 ^ 1) with 2.
  rewrite mult_IZR, bpow_plus. change (bpow radix2 1) with 2%R. simpl (IZR 2). ring.
Qed.

(* ------------------------------------------------------------------ *)
(** * regression: finding F21 (an integer part of MAX_DIGITS digits ending in zeros, value exactly on a tie) *)
Example bhcomp_f64_regression :
  let intg := itoa 9007199254740993 ++ repeat 48%N 753 in
  parse_truncated_float F64 intg [] (-753) = bits_of_b64 (rne_decimal 9007199254740993 0) /\
  parse_truncated_float F64 intg [] (-753) = 4845873199050653696%N.
Proof. split; vm_compute; reflexivity. Qed.

Print Assumptions bhcomp_correct.
