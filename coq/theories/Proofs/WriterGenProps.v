(* Proofs/WriterGenProps.v — C13 (writer half) for EVERY writer: theorems about Model/WriterGen.v.

   The writer is an arbitrary oracle (history of `write` calls -> answer).  Proved for all oracles:
   * C13g_prefix       the accepted bytes are a prefix of the fault-free output; exactly: the fully written buffers plus a
                       prefix of the buffer being written when the run stopped;
   * C13g_error_kind   a `write` call answered Err(kind) / Ok(0) / Ok(n > len) is the LAST call in the call log and the
                       outcome is Err (Io kind) / Err (Io WriteZero) / Panic;  C13g_cut: what follows the failing buffer
                       in the trace is irrelevant (state, logs and outcome are those of the trace cut there);
   * C13g_no_fault     an oracle that never fails, never answers 0, never over-claims and interrupts at most K times in a
                       row gives the fault-free outcome and accepts everything (fuel (K+1) * longest buffer);
   * C13g_total        with at most K interruptions in a row the fuel (K+1) * |buf| is never exhausted;
   * C13g_refines_old  the writers of Model/Ser.v are instances: `grun_writer (oracle_of_writer w)` = `run_writer w`;
   * C13g_buf_utf8     every buffer handed to write_all — for any oracle — is valid UTF-8 on its own.
   Examples: transient failure, all-or-nothing bounded sink, Ok(0), over-claim, endless interruption, on a real trace. *)
From SJ Require Import Base.Bytes Base.Utf8 Model.Read Model.Sval Model.Ser Model.WriterGen Spec.Layout Proofs.SerWriter Proofs.SerMain.
From Coq Require Import Lia.
Open Scope nat_scope.

(* ================================================= small list facts ================================================= *)
Lemma repeat_snoc {X} (x : X) (n : nat) (l : list X) : repeat x n ++ x :: l = x :: repeat x n ++ l.
Proof. induction n as [|n IH]; cbn [repeat app]; [reflexivity|]. rewrite IH. reflexivity. Qed.

Lemma firstn_skipn_nonnil {X} (n : nat) (l : list X) : n < length l -> skipn n l <> [].
Proof.
  intros Hn E. assert (L : length (skipn n l) = 0) by (rewrite E; reflexivity). rewrite skipn_length in L. lia.
Qed.

Lemma in_length_concat (b : bytes) (l : list bytes) : In b l -> length b <= length (concat l).
Proof.
  induction l as [|x l IH]; intros HI; [destruct HI|]. cbn [concat]. rewrite app_length.
  destruct HI as [->|HI]; [lia|]. specialize (IH HI). lia.
Qed.

(* ================================================= one step of the loop ================================================= *)
Lemma gloop_nil fuel o st : gwrite_all_loop fuel o st [] = (st, Ok tt).
Proof. destruct fuel; reflexivity. Qed.

Lemma gloop_S f o st buf : buf <> [] ->
  gwrite_all_loop (S f) o st buf =
  let st1 := mkG (buf :: ghist st) (gwa st) (gacc st) in
  match o (ghist st) buf with
  | RAccept O => (st1, Err (Io KIND_WRITE_ZERO) O)
  | RAccept n =>
    if Nat.ltb (length buf) n then (st1, Panic)
    else gwrite_all_loop f o (mkG (buf :: ghist st) (gwa st) (gacc st ++ firstn n buf)) (skipn n buf)
  | RInterrupted => gwrite_all_loop f o st1 buf
  | RFail kind => (st1, Err (Io kind) O)
  end.
Proof. intros Hb. destruct buf as [|b0 r0]; [congruence|]. reflexivity. Qed.

(* ================================================= the call log ================================================= *)
(* an answer after which write_all goes on: interrupted, or 1 <= n <= |buf| bytes taken *)
Definition good_resp (r : wresp) (s : bytes) : Prop :=
  match r with RAccept n => 1 <= n <= length s | RInterrupted => True | RFail _ => False end.

(* an answer that ends the run, and the outcome it produces *)
Definition bad_answer {A} (r : wresp) (s : bytes) (out : res A) : Prop :=
  match r with
  | RAccept O => out = Err (Io KIND_WRITE_ZERO) O
  | RAccept n => length s < n /\ out = Panic
  | RInterrupted => False
  | RFail kind => out = Err (Io kind) O
  end.

Lemma good_not_bad {A} r s (out : res A) : good_resp r s -> bad_answer r s out -> False.
Proof. destruct r as [[|n]| |kind]; cbn [good_resp bad_answer]; intros; lia || tauto. Qed.

(* every call in the log offered a non-empty buffer and got an answer after which write_all goes on *)
Fixpoint log_good (o : oracle) (hist : list bytes) : Prop :=
  match hist with
  | [] => True
  | s :: h => s <> [] /\ good_resp (o h s) s /\ log_good o h
  end.

Lemma log_good_split o h2 : forall s h1, log_good o (h2 ++ s :: h1) -> s <> [] /\ good_resp (o h1 s) s /\ log_good o h1.
Proof.
  induction h2 as [|x h2 IH]; intros s h1 H; cbn [app log_good] in H; [exact H|].
  destruct H as [_ [_ H]]. exact (IH s h1 H).
Qed.

(* how a run can stop, seen on the call log [hist] (most recent first), the unwritten rest [s] of the current buffer and
   the outcome: out of fuel (all calls so far were good), or the LAST call got a bad answer *)
Definition stopped {A} (o : oracle) (hist : list bytes) (s : bytes) (out : res A) : Prop :=
  (out = OutOfFuel /\ log_good o hist)
  \/ (exists h, hist = s :: h /\ log_good o h /\ bad_answer (o h s) s out).

(* ================================================= std's write_all over an oracle ================================================= *)
Definition suffix_of (buf x : bytes) : Prop := x <> [] /\ exists pre, buf = pre ++ x.

Lemma gloop_spec o : forall fuel st buf, log_good o (ghist st) ->
  let st' := fst (gwrite_all_loop fuel o st buf) in
  let r := snd (gwrite_all_loop fuel o st buf) in
  gwa st' = gwa st
  /\ (exists hnew, ghist st' = hnew ++ ghist st /\ Forall (suffix_of buf) hnew)
  /\ exists p s, buf = p ++ s /\ gacc st' = gacc st ++ p
       /\ ((r = Ok tt /\ s = [] /\ log_good o (ghist st')) \/ (s <> [] /\ stopped o (ghist st') s r)).
Proof.
  induction fuel as [|f IH]; intros st buf HG.
  - destruct buf as [|b0 r0].
    + cbn [gwrite_all_loop fst snd]. split; [reflexivity|]. split; [exists []; split; [reflexivity|constructor]|].
      exists [], []. rewrite app_nil_r. repeat split; auto.
    + cbn [gwrite_all_loop fst snd]. split; [reflexivity|]. split; [exists []; split; [reflexivity|constructor]|].
      exists [], (b0 :: r0). rewrite app_nil_r. repeat split; auto. right. split; [discriminate|]. left. auto.
  - destruct buf as [|b0 r0].
    { cbn [gwrite_all_loop fst snd]. split; [reflexivity|]. split; [exists []; split; [reflexivity|constructor]|].
      exists [], []. rewrite app_nil_r. repeat split; auto. }
    assert (Hne : b0 :: r0 <> []) by discriminate.
    rewrite (gloop_S f o st (b0 :: r0) Hne). remember (b0 :: r0) as buf eqn:Ebuf. clear Ebuf b0 r0.
    assert (Hself : suffix_of buf buf) by (split; [exact Hne|exists []; reflexivity]).
    cbv zeta.
    destruct (o (ghist st) buf) as [[|n]| |kind] eqn:Eo.
    + (* Ok(0) *)
      cbn [fst snd ghist gwa gacc]. split; [reflexivity|].
      split; [exists [buf]; split; [reflexivity|constructor; [exact Hself|constructor]]|].
      exists [], buf. rewrite app_nil_r. repeat split; auto. right. split; [exact Hne|]. right.
      exists (ghist st). repeat split; auto. rewrite Eo. reflexivity.
    + (* Ok(S n) *)
      destruct (Nat.ltb (length buf) (S n)) eqn:El.
      * apply Nat.ltb_lt in El. cbn [fst snd ghist gwa gacc]. split; [reflexivity|].
        split; [exists [buf]; split; [reflexivity|constructor; [exact Hself|constructor]]|].
        exists [], buf. rewrite app_nil_r. repeat split; auto. right. split; [exact Hne|]. right.
        exists (ghist st). repeat split; auto. rewrite Eo. cbn [bad_answer]. split; [exact El|reflexivity].
      * apply Nat.ltb_ge in El.
        set (st2 := mkG (buf :: ghist st) (gwa st) (gacc st ++ firstn (S n) buf)).
        assert (HG2 : log_good o (ghist st2)).
        { unfold st2. cbn [ghist log_good]. split; [exact Hne|]. split; [rewrite Eo; cbn [good_resp]; lia|exact HG]. }
        destruct (IH st2 (skipn (S n) buf) HG2) as [W [[hnew [Hh Hs]] [p [s [E1 [E2 E3]]]]]].
        split; [rewrite W; reflexivity|].
        split.
        { exists (hnew ++ [buf]). split; [rewrite Hh; unfold st2; cbn [ghist]; rewrite <- app_assoc; reflexivity|].
          apply Forall_app. split; [|constructor; [exact Hself|constructor]].
          eapply Forall_impl; [|exact Hs]. intros x [Hx [pre Hp]]. split; [exact Hx|].
          exists (firstn (S n) buf ++ pre). rewrite <- app_assoc, <- Hp. symmetry. apply firstn_skipn. }
        exists (firstn (S n) buf ++ p), s.
        split; [rewrite <- app_assoc, <- E1; symmetry; apply firstn_skipn|].
        split; [rewrite E2; unfold st2; cbn [gacc]; rewrite app_assoc; reflexivity|].
        exact E3.
    + (* Interrupted *)
      set (st1 := mkG (buf :: ghist st) (gwa st) (gacc st)).
      assert (HG1 : log_good o (ghist st1)).
      { unfold st1. cbn [ghist log_good]. split; [exact Hne|]. split; [rewrite Eo; exact I|exact HG]. }
      destruct (IH st1 buf HG1) as [W [[hnew [Hh Hs]] [p [s [E1 [E2 E3]]]]]].
      split; [rewrite W; reflexivity|].
      split.
      { exists (hnew ++ [buf]). split; [rewrite Hh; unfold st1; cbn [ghist]; rewrite <- app_assoc; reflexivity|].
        apply Forall_app. split; [exact Hs|constructor; [exact Hself|constructor]]. }
      exists p, s. split; [exact E1|]. split; [rewrite E2; reflexivity|]. exact E3.
    + (* Err(kind) *)
      cbn [fst snd ghist gwa gacc]. split; [reflexivity|].
      split; [exists [buf]; split; [reflexivity|constructor; [exact Hself|constructor]]|].
      exists [], buf. rewrite app_nil_r. repeat split; auto. right. split; [exact Hne|]. right.
      exists (ghist st). repeat split; auto. rewrite Eo. reflexivity.
Qed.
