(* Proofs/WriterGenProps.v — C13 (writer half) for EVERY writer: theorems about Model/WriterGen.v.

   The writer is an arbitrary oracle (history of `write` calls -> answer).  Proved for all oracles:
   * C13g_prefix       the accepted bytes are a prefix of the fault-free output; exactly: the fully written buffers plus a
                       prefix of the buffer being written when the run stopped;
   * C13g_error_kind   a `write` call answered Err(kind) / Ok(0) / Ok(n > len) is the LAST call in the call log and the
                       outcome is Err (Io kind) / Err (Io WriteZero) / Panic;  C13g_cut: what follows the failing buffer
                       in the trace is irrelevant (state, logs and outcome are those of the trace cut there);
   * C13g_no_fault     an oracle that never fails, never answers 0, never over-claims and interrupts at most K times in a
                       row gives the fault-free outcome and accepts everything (fuel (K+1) * longest buffer);
   * C13g_total        with at most K interruptions in a row the fuel (K+1) * |buf| is never exhausted;
   * C13g_refines_old  the writers of Model/Ser.v are instances: `grun_writer (oracle_of_writer w)` = `run_writer w`;
   * C13g_buf_utf8     every buffer handed to write_all — for any oracle — is valid UTF-8 on its own.
   Examples: transient failure, all-or-nothing bounded sink, Ok(0), over-claim, endless interruption, on a real trace. *)
From SJ Require Import Base.Bytes Base.Utf8 Model.Read Model.Sval Model.Ser Model.WriterGen Spec.Layout Proofs.SerWriter Proofs.SerMain.
From Coq Require Import Lia.
Open Scope nat_scope.

(* ================================================= small list facts ================================================= *)
Lemma repeat_snoc {X} (x : X) (n : nat) (l : list X) : repeat x n ++ x :: l = x :: repeat x n ++ l.
Proof. induction n as [|n IH]; cbn [repeat app]; [reflexivity|]. rewrite IH. reflexivity. Qed.

Lemma firstn_skipn_nonnil {X} (n : nat) (l : list X) : n < length l -> skipn n l <> [].
Proof.
  intros Hn E. assert (L : length (skipn n l) = 0) by (rewrite E; reflexivity). rewrite skipn_length in L. lia.
Qed.

Lemma in_length_concat (b : bytes) (l : list bytes) : In b l -> length b <= length (concat l).
Proof.
  induction l as [|x l IH]; intros HI; [destruct HI|]. cbn [concat]. rewrite app_length.
  destruct HI as [->|HI]; [lia|]. specialize (IH HI). lia.
Qed.

(* ================================================= one step of the loop ================================================= *)
Lemma gloop_nil fuel o st : gwrite_all_loop fuel o st [] = (st, Ok tt).
Proof. destruct fuel; reflexivity. Qed.

Lemma gloop_S f o st buf : buf <> [] ->
  gwrite_all_loop (S f) o st buf =
  let st1 := mkG (buf :: ghist st) (gwa st) (gacc st) in
  match o (ghist st) buf with
  | RAccept O => (st1, Err (Io KIND_WRITE_ZERO) O)
  | RAccept n =>
    if Nat.ltb (length buf) n then (st1, Panic)
    else gwrite_all_loop f o (mkG (buf :: ghist st) (gwa st) (gacc st ++ firstn n buf)) (skipn n buf)
  | RInterrupted => gwrite_all_loop f o st1 buf
  | RFail kind => (st1, Err (Io kind) O)
  end.
Proof. intros Hb. destruct buf as [|b0 r0]; [congruence|]. reflexivity. Qed.

(* ================================================= the call log ================================================= *)
(* an answer after which write_all goes on: interrupted, or 1 <= n <= |buf| bytes taken *)
Definition good_resp (r : wresp) (s : bytes) : Prop :=
  match r with RAccept n => 1 <= n <= length s | RInterrupted => True | RFail _ => False end.

(* an answer that ends the run, and the outcome it produces *)
Definition bad_answer {A} (r : wresp) (s : bytes) (out : res A) : Prop :=
  match r with
  | RAccept O => out = Err (Io KIND_WRITE_ZERO) O
  | RAccept n => length s < n /\ out = Panic
  | RInterrupted => False
  | RFail kind => out = Err (Io kind) O
  end.

Lemma good_not_bad {A} r s (out : res A) : good_resp r s -> bad_answer r s out -> False.
Proof. destruct r as [[|n]| |kind]; cbn [good_resp bad_answer]; intros Hg Hb; lia || tauto. Qed.

(* every call in the log offered a non-empty buffer and got an answer after which write_all goes on *)
Fixpoint log_good (o : oracle) (hist : list bytes) : Prop :=
  match hist with
  | [] => True
  | s :: h => s <> [] /\ good_resp (o h s) s /\ log_good o h
  end.

Lemma log_good_split o h2 : forall s h1, log_good o (h2 ++ s :: h1) -> s <> [] /\ good_resp (o h1 s) s /\ log_good o h1.
Proof.
  induction h2 as [|x h2 IH]; intros s h1 H; cbn [app log_good] in H; [exact H|].
  destruct H as [_ [_ H]]. exact (IH s h1 H).
Qed.

(* how a run can stop, seen on the call log [hist] (most recent first), the unwritten rest [s] of the current buffer and
   the outcome: out of fuel (all calls so far were good), or the LAST call got a bad answer *)
Definition stopped {A} (o : oracle) (hist : list bytes) (s : bytes) (out : res A) : Prop :=
  (out = OutOfFuel /\ log_good o hist)
  \/ (exists h, hist = s :: h /\ log_good o h /\ bad_answer (o h s) s out).

(* ================================================= std's write_all over an oracle ================================================= *)
Definition suffix_of (buf x : bytes) : Prop := x <> [] /\ exists pre, buf = pre ++ x.

Lemma gloop_spec o : forall fuel st buf, log_good o (ghist st) ->
  let st' := fst (gwrite_all_loop fuel o st buf) in
  let r := snd (gwrite_all_loop fuel o st buf) in
  gwa st' = gwa st
  /\ (exists hnew, ghist st' = hnew ++ ghist st /\ Forall (suffix_of buf) hnew)
  /\ exists p s, buf = p ++ s /\ gacc st' = gacc st ++ p
       /\ ((r = Ok tt /\ s = [] /\ log_good o (ghist st')) \/ (s <> [] /\ stopped o (ghist st') s r)).
Proof.
  induction fuel as [|f IH]; intros st buf HG.
  - destruct buf as [|b0 r0].
    + cbn [gwrite_all_loop fst snd]. split; [reflexivity|]. split; [exists []; split; [reflexivity|constructor]|].
      exists [], []. rewrite !app_nil_r. split; [reflexivity|]. split; [reflexivity|]. left. auto.
    + cbn [gwrite_all_loop fst snd]. split; [reflexivity|]. split; [exists []; split; [reflexivity|constructor]|].
      exists [], (b0 :: r0). rewrite app_nil_r. split; [reflexivity|]. split; [reflexivity|]. right. split; [discriminate|]. left. auto.
  - destruct buf as [|b0 r0].
    { cbn [gwrite_all_loop fst snd]. split; [reflexivity|]. split; [exists []; split; [reflexivity|constructor]|].
      exists [], []. rewrite !app_nil_r. split; [reflexivity|]. split; [reflexivity|]. left. auto. }
    assert (Hne : b0 :: r0 <> []) by discriminate.
    rewrite (gloop_S f o st (b0 :: r0) Hne). remember (b0 :: r0) as buf eqn:Ebuf. clear Ebuf b0 r0.
    assert (Hself : suffix_of buf buf) by (split; [exact Hne|exists []; reflexivity]).
    cbv zeta.
    destruct (o (ghist st) buf) as [[|n]| |kind] eqn:Eo.
    + (* Ok(0) *)
      cbn [fst snd ghist gwa gacc]. split; [reflexivity|].
      split; [exists [buf]; split; [reflexivity|constructor; [exact Hself|constructor]]|].
      exists [], buf. rewrite app_nil_r. split; [reflexivity|]. split; [reflexivity|]. right. split; [exact Hne|]. right.
      exists (ghist st). repeat split; auto. rewrite Eo. reflexivity.
    + (* Ok(S n) *)
      destruct (Nat.ltb (length buf) (S n)) eqn:El.
      * apply Nat.ltb_lt in El. cbn [fst snd ghist gwa gacc]. split; [reflexivity|].
        split; [exists [buf]; split; [reflexivity|constructor; [exact Hself|constructor]]|].
        exists [], buf. rewrite app_nil_r. split; [reflexivity|]. split; [reflexivity|]. right. split; [exact Hne|]. right.
        exists (ghist st). repeat split; auto. rewrite Eo. cbn [bad_answer]. split; [exact El|reflexivity].
      * apply Nat.ltb_ge in El.
        set (st2 := mkG (buf :: ghist st) (gwa st) (gacc st ++ firstn (S n) buf)).
        assert (HG2 : log_good o (ghist st2)).
        { unfold st2. cbn [ghist log_good]. split; [exact Hne|]. split; [rewrite Eo; cbn [good_resp]; lia|exact HG]. }
        destruct (IH st2 (skipn (S n) buf) HG2) as [W [[hnew [Hh Hs]] [p [s [E1 [E2 E3]]]]]].
        split; [rewrite W; reflexivity|].
        split.
        { exists (hnew ++ [buf]). split; [rewrite Hh; unfold st2; cbn [ghist]; rewrite <- app_assoc; reflexivity|].
          apply Forall_app. split; [|constructor; [exact Hself|constructor]].
          eapply Forall_impl; [|exact Hs]. intros x [Hx [pre Hp]]. split; [exact Hx|].
          exists (firstn (S n) buf ++ pre). rewrite <- app_assoc, <- Hp. symmetry. apply firstn_skipn. }
        exists (firstn (S n) buf ++ p), s.
        split; [rewrite <- app_assoc, <- E1; symmetry; apply firstn_skipn|].
        split; [rewrite E2; unfold st2; cbn [gacc]; rewrite app_assoc; reflexivity|].
        exact E3.
    + (* Interrupted *)
      set (st1 := mkG (buf :: ghist st) (gwa st) (gacc st)).
      assert (HG1 : log_good o (ghist st1)).
      { unfold st1. cbn [ghist log_good]. split; [exact Hne|]. split; [rewrite Eo; exact I|exact HG]. }
      destruct (IH st1 buf HG1) as [W [[hnew [Hh Hs]] [p [s [E1 [E2 E3]]]]]].
      split; [rewrite W; reflexivity|].
      split.
      { exists (hnew ++ [buf]). split; [rewrite Hh; unfold st1; cbn [ghist]; rewrite <- app_assoc; reflexivity|].
        apply Forall_app. split; [exact Hs|constructor; [exact Hself|constructor]]. }
      exists p, s. split; [exact E1|]. split; [rewrite E2; reflexivity|]. exact E3.
    + (* Err(kind) *)
      cbn [fst snd ghist gwa gacc]. split; [reflexivity|].
      split; [exists [buf]; split; [reflexivity|constructor; [exact Hself|constructor]]|].
      exists [], buf. rewrite app_nil_r. split; [reflexivity|]. split; [reflexivity|]. right. split; [exact Hne|]. right.
      exists (ghist st). repeat split; auto. rewrite Eo. reflexivity.
Qed.

(* one write_all of the serializer: the buffer is logged in [gwa] *)
Lemma gwrite_all_spec o fuel st buf : log_good o (ghist st) ->
  let st' := fst (gwrite_all fuel o st buf) in
  let r := snd (gwrite_all fuel o st buf) in
  gwa st' = buf :: gwa st
  /\ (exists hnew, ghist st' = hnew ++ ghist st /\ Forall (suffix_of buf) hnew)
  /\ exists p s, buf = p ++ s /\ gacc st' = gacc st ++ p
       /\ ((r = Ok tt /\ s = [] /\ log_good o (ghist st')) \/ (s <> [] /\ stopped o (ghist st') s r)).
Proof.
  intros HG. unfold gwrite_all.
  exact (gloop_spec o fuel (mkG (ghist st) (buf :: gwa st) (gacc st)) buf HG).
Qed.

(* ================================================= the serializer against an oracle ================================================= *)
(* shape of a run of [gfeed]: all buffers written, or stopped inside buffer [b] = p ++ s after [done] *)
Definition fed_all (o : oracle) (st st' : gstate) (bufs : list bytes) : Prop :=
  gacc st' = gacc st ++ concat bufs /\ gwa st' = rev bufs ++ gwa st /\ log_good o (ghist st').

Definition fed_part {A} (o : oracle) (st st' : gstate) (bufs : list bytes) (out : res A) : Prop :=
  exists done b rest p s, bufs = done ++ b :: rest /\ b = p ++ s /\ s <> []
    /\ gacc st' = gacc st ++ concat done ++ p
    /\ gwa st' = rev (done ++ [b]) ++ gwa st
    /\ stopped o (ghist st') s out.

Lemma gfeed_spec o fuel : forall bufs st, log_good o (ghist st) ->
  let st' := fst (gfeed fuel o st bufs) in
  let r := snd (gfeed fuel o st bufs) in
  (r = Ok tt /\ fed_all o st st' bufs) \/ (r <> Ok tt /\ fed_part o st st' bufs r).
Proof.
  induction bufs as [|b rest IH]; intros st HG.
  - cbn [gfeed fst snd]. left. split; [reflexivity|]. unfold fed_all. cbn [concat rev app]. rewrite app_nil_r. auto.
  - cbn [gfeed]. destruct (gwrite_all_spec o fuel st b HG) as [W [_ [p [s [E1 [E2 E3]]]]]].
    destruct (gwrite_all fuel o st b) as [st1 r1]. cbn [fst snd] in W, E2, E3.
    destruct E3 as [[-> [-> HG1]]|[Hs Hst]].
    + rewrite app_nil_r in E1. subst p.
      destruct (IH st1 HG1) as [[R [A1 [A2 A3]]]|[R [done [b' [rest' [p' [s' [B1 [B2 [B3 [B4 [B5 B6]]]]]]]]]]]].
      * left. split; [exact R|]. unfold fed_all. cbn [concat rev].
        split; [rewrite A1, E2, app_assoc; reflexivity|].
        split; [rewrite A2, W, <- app_assoc; reflexivity|exact A3].
      * right. split; [exact R|]. exists (b :: done), b', rest', p', s'.
        split; [rewrite B1; reflexivity|]. split; [exact B2|]. split; [exact B3|].
        split; [rewrite B4, E2; cbn [concat]; rewrite <- !app_assoc; reflexivity|].
        split; [rewrite B5, W; cbn [app rev]; rewrite <- !app_assoc; reflexivity|exact B6].
    + assert (R1 : r1 <> Ok tt).
      { destruct Hst as [[-> _]|[h [_ [_ Hb]]]]; [discriminate|]. intros ->.
        destruct (o h s) as [[|n]| |kind]; cbn [bad_answer] in Hb; try discriminate; try tauto. destruct Hb; discriminate. }
      destruct r1 as [[]|c i| |]; [congruence| | |];
        (cbn [fst snd]; right; split; [exact R1|]; exists [], b, rest, p, s;
         split; [reflexivity|]; split; [exact E1|]; split; [exact Hs|];
         split; [rewrite E2; reflexivity|]; split; [rewrite W; reflexivity|exact Hst]).
Qed.

(* sequencing, and the cut: after a failing write_all nothing more is offered to the writer *)
Lemma gfeed_app o fuel : forall l1 l2 st,
  gfeed fuel o st (l1 ++ l2) =
  match gfeed fuel o st l1 with
  | (st1, Ok _) => gfeed fuel o st1 l2
  | (st1, e) => (st1, e)
  end.
Proof.
  induction l1 as [|b l1 IH]; intros l2 st; cbn [app gfeed]; [reflexivity|].
  destruct (gwrite_all fuel o st b) as [st1 [[]| | |]]; [apply IH|reflexivity|reflexivity|reflexivity].
Qed.

Lemma gfeed_cut o fuel l1 l2 st : snd (gfeed fuel o st l1) <> Ok tt -> gfeed fuel o st (l1 ++ l2) = gfeed fuel o st l1.
Proof.
  intros H. rewrite gfeed_app. destruct (gfeed fuel o st l1) as [st1 [[]| | |]]; cbn [snd] in H; [congruence|reflexivity|reflexivity|reflexivity].
Qed.


(* every `write` call offered a non-empty suffix of one of the buffers of the trace; the log only grows *)
Lemma gfeed_hist o fuel : forall bufs st, log_good o (ghist st) ->
  exists hnew, ghist (fst (gfeed fuel o st bufs)) = hnew ++ ghist st
    /\ Forall (fun x => exists b, In b bufs /\ suffix_of b x) hnew.
Proof.
  induction bufs as [|b rest IH]; intros st HG.
  - exists []. split; [reflexivity|constructor].
  - cbn [gfeed]. destruct (gwrite_all_spec o fuel st b HG) as [_ [[h1 [Hh Hs]] [p [s [_ [_ E3]]]]]].
    destruct (gwrite_all fuel o st b) as [st1 r1]. cbn [fst snd] in Hh, E3.
    assert (Hs' : Forall (fun x => exists b', In b' (b :: rest) /\ suffix_of b' x) h1).
    { eapply Forall_impl; [|exact Hs]. intros x Hx. exists b. split; [left; reflexivity|exact Hx]. }
    destruct r1 as [[]| | |].
    + destruct E3 as [[_ [_ HG1]]|[_ [[E _]|[h [_ [_ Hb]]]]]].
      * destruct (IH st1 HG1) as [h2 [Hh2 Hs2]]. exists (h2 ++ h1).
        split; [rewrite Hh2, Hh, app_assoc; reflexivity|]. apply Forall_app. split; [|exact Hs'].
        eapply Forall_impl; [|exact Hs2]. intros x [b' [Hi Hx]]. exists b'. split; [right; exact Hi|exact Hx].
      * discriminate.
      * exfalso. destruct (o h s) as [[|n]| |kind]; cbn [bad_answer] in Hb; try discriminate; try tauto. destruct Hb; discriminate.
    + cbn [fst]. exists h1. split; [exact Hh|exact Hs'].
    + cbn [fst]. exists h1. split; [exact Hh|exact Hs'].
    + cbn [fst]. exists h1. split; [exact Hh|exact Hs'].
Qed.

(* the first failing write_all: the run IS the run up to and including that write_all *)
Lemma gfeed_fail_split o fuel : forall bufs st, snd (gfeed fuel o st bufs) <> Ok tt ->
  exists done b rest, bufs = done ++ b :: rest
    /\ snd (gfeed fuel o st done) = Ok tt
    /\ snd (gwrite_all fuel o (fst (gfeed fuel o st done)) b) <> Ok tt
    /\ gfeed fuel o st bufs = gwrite_all fuel o (fst (gfeed fuel o st done)) b.
Proof.
  induction bufs as [|b rest IH]; intros st H; [cbn [gfeed snd] in H; congruence|].
  cbn [gfeed] in H |- *. destruct (gwrite_all fuel o st b) as [st1 r1] eqn:E.
  destruct r1 as [[]|c i| |].
  - destruct (IH st1 H) as [done [b' [rest' [B1 [B2 [B3 B4]]]]]]. exists (b :: done), b', rest'.
    split; [rewrite B1; reflexivity|]. cbn [gfeed]. rewrite E. auto.
  - exists [], b, rest. cbn [gfeed fst snd app]. rewrite E. cbn [snd]. repeat split; auto; discriminate.
  - exists [], b, rest. cbn [gfeed fst snd app]. rewrite E. cbn [snd]. repeat split; auto; discriminate.
  - exists [], b, rest. cbn [gfeed fst snd app]. rewrite E. cbn [snd]. repeat split; auto; discriminate.
Qed.

(* ================================================= the run of the serializer ================================================= *)
Definition lift_out {A} (t : tr A) (r : res unit) : res A :=
  match r with Ok _ => snd t | Err c i => Err c i | OutOfFuel => OutOfFuel | Panic => Panic end.

Lemma grun_unfold {A} fuel o st (t : tr A) :
  grun_writer fuel o st t = (fst (gfeed fuel o st (fst t)), lift_out t (snd (gfeed fuel o st (fst t)))).
Proof. unfold grun_writer. destruct (gfeed fuel o st (fst t)) as [st1 [[]| | |]]; reflexivity. Qed.

Lemma bad_answer_lift {A} (t : tr A) resp s (r : res unit) : bad_answer resp s r -> bad_answer resp s (lift_out t r).
Proof.
  destruct resp as [[|n]| |kind]; cbn [bad_answer]; [intros ->; reflexivity| |tauto|intros ->; reflexivity].
  intros [H ->]. split; [exact H|reflexivity].
Qed.

Lemma stopped_lift {A} (t : tr A) o hist s (r : res unit) : stopped o hist s r -> stopped o hist s (lift_out t r).
Proof.
  intros [[-> H]|[h [E [G B]]]]; [left; split; [reflexivity|exact H]|].
  right. exists h. split; [exact E|]. split; [exact G|]. apply bad_answer_lift. exact B.
Qed.

(* C13 (writer half), for every oracle: the accepted bytes are a prefix of the fault-free output [concat (fst t)].
   Exactly: either everything was written, every buffer was handed over, and the outcome is the fault-free one [snd t];
   or the run stopped inside buffer [b] = p ++ s of the trace: accepted = the buffers before it, whole, plus the part [p] of b;
   the write_all log ends with b; and ([stopped]) either the fuel ran out or the LAST `write` call — which offered [s] — got
   the answer that produced the outcome. *)
Theorem C13g_prefix {A} (o : oracle) (fuel : nat) (t : tr A) :
  let st' := fst (grun_writer fuel o g0 t) in
  let r := snd (grun_writer fuel o g0 t) in
  is_prefix (gacc st') (concat (fst t))
  /\ ((r = snd t /\ gacc st' = concat (fst t) /\ gwa st' = rev (fst t) /\ log_good o (ghist st'))
      \/ (exists done b rest p s, fst t = done ++ b :: rest /\ b = p ++ s /\ s <> []
            /\ gacc st' = concat done ++ p /\ gwa st' = rev (done ++ [b]) /\ stopped o (ghist st') s r)).
Proof.
  cbv zeta. rewrite grun_unfold. cbn [fst snd].
  assert (HG : log_good o (ghist g0)) by exact I.
  destruct (gfeed_spec o fuel (fst t) g0 HG) as [[R [A1 [A2 A3]]]|[R [done [b [rest [p [s [B1 [B2 [B3 [B4 [B5 B6]]]]]]]]]]]].
  - cbn [g0 gstart gacc gwa app] in A1, A2. rewrite app_nil_r in A2.
    split; [exists []; rewrite A1, app_nil_r; reflexivity|]. left. rewrite R. cbn [lift_out]. auto.
  - cbn [g0 gstart gacc gwa app] in B4, B5. rewrite app_nil_r in B5.
    split.
    { exists (s ++ concat rest). rewrite B4, B1, concat_app. cbn [concat]. rewrite B2, <- !app_assoc. reflexivity. }
    right. exists done, b, rest, p, s. repeat (split; [assumption|]). apply stopped_lift. exact B6.
Qed.

(* if ANY `write` call of the run was answered with an error, with Ok(0), or with more than it was offered, then that call is
   the last one in the call log — no further `write` call was made — and the outcome is the corresponding error:
   Err (Io kind) with the writer's kind, Err (Io WriteZero), Panic. *)
Theorem C13g_error_kind {A} (o : oracle) (fuel : nat) (t : tr A) :
  let st' := fst (grun_writer fuel o g0 t) in
  let r := snd (grun_writer fuel o g0 t) in
  forall h2 s h1, ghist st' = h2 ++ s :: h1 ->
    s <> []
    /\ (forall kind, o h1 s = RFail kind -> h2 = [] /\ r = Err (Io kind) O)
    /\ (o h1 s = RAccept 0 -> h2 = [] /\ r = Err (Io KIND_WRITE_ZERO) O)
    /\ (forall n, o h1 s = RAccept n -> length s < n -> h2 = [] /\ r = Panic).
Proof.
  cbv zeta. intros h2 s h1 E.
  assert (Hgood : log_good o (ghist (fst (grun_writer fuel o g0 t))) ->
    s <> [] /\ (forall kind, o h1 s = RFail kind -> h2 = [] /\ snd (grun_writer fuel o g0 t) = Err (Io kind) O)
    /\ (o h1 s = RAccept 0 -> h2 = [] /\ snd (grun_writer fuel o g0 t) = Err (Io KIND_WRITE_ZERO) O)
    /\ (forall n, o h1 s = RAccept n -> length s < n -> h2 = [] /\ snd (grun_writer fuel o g0 t) = Panic)).
  { intros G. rewrite E in G. destruct (log_good_split o h2 s h1 G) as [N [Gr _]].
    split; [exact N|]. split; [|split].
    - intros kind Ek. rewrite Ek in Gr. destruct Gr.
    - intros Ek. rewrite Ek in Gr. cbn [good_resp] in Gr. lia.
    - intros n Ek Hn. rewrite Ek in Gr. cbn [good_resp] in Gr. lia. }
  destruct (C13g_prefix o fuel t) as [_ [[_ [_ [_ G]]]|[done [b [rest [p [s0 [_ [_ [N0 [_ [_ St]]]]]]]]]]]]; [exact (Hgood G)|].
  destruct St as [[_ G]|[h [Eh [G B]]]]; [exact (Hgood G)|].
  rewrite Eh in E. destruct h2 as [|x h2].
  - cbn [app] in E. injection E as <- <-. split; [exact N0|]. split; [|split].
    + intros kind Ek. rewrite Ek in B. cbn [bad_answer] in B. auto.
    + intros Ek. rewrite Ek in B. cbn [bad_answer] in B. auto.
    + intros n Ek Hn. rewrite Ek in B. destruct n as [|n]; [lia|]. cbn [bad_answer] in B. split; [reflexivity|tauto].
  - cbn [app] in E. injection E as _ E. rewrite E in G. destruct (log_good_split o h2 s h1 G) as [N [Gr _]].
    split; [exact N|]. split; [|split].
    + intros kind Ek. rewrite Ek in Gr. destruct Gr.
    + intros Ek. rewrite Ek in Gr. cbn [good_resp] in Gr. lia.
    + intros n Ek Hn. rewrite Ek in Gr. cbn [good_resp] in Gr. lia.
Qed.

(* after the failing write_all nothing is offered to the writer: the whole run — accepted bytes, both call logs, outcome — is
   the run of the trace cut after the failing buffer, whatever followed it in the trace and whatever the trace's own outcome *)
Theorem C13g_cut {A} (o : oracle) (fuel : nat) (t : tr A) :
  snd (gfeed fuel o g0 (fst t)) <> Ok tt ->
  exists done b rest, fst t = done ++ b :: rest
    /\ snd (gfeed fuel o g0 done) = Ok tt
    /\ forall (rest' : list bytes) (x : res A), grun_writer fuel o g0 (done ++ b :: rest', x) = grun_writer fuel o g0 t.
Proof.
  intros H. destruct (gfeed_fail_split o fuel (fst t) g0 H) as [done [b [rest [B1 [B2 [B3 B4]]]]]].
  exists done, b, rest. split; [exact B1|]. split; [exact B2|]. intros rest' x.
  assert (Hc : forall l, gfeed fuel o g0 (done ++ b :: l) = gwrite_all fuel o (fst (gfeed fuel o g0 done)) b).
  { intros l. rewrite gfeed_app. destruct (gfeed fuel o g0 done) as [st1 r1]. cbn [fst snd] in B2, B3 |- *. subst r1.
    cbn [gfeed]. destruct (gwrite_all fuel o st1 b) as [st2 [[]| | |]]; cbn [snd] in B3; [congruence|reflexivity|reflexivity|reflexivity]. }
  rewrite !grun_unfold. cbn [fst snd]. rewrite B1, !Hc.
  destruct (gwrite_all fuel o (fst (gfeed fuel o g0 done)) b) as [st2 [[]| | |]]; cbn [snd] in B3; [congruence|reflexivity|reflexivity|reflexivity].
Qed.

(* ================================================= fuel ================================================= *)
(* more fuel does not change a run that did not run out *)
Lemma gloop_fuel_mono o : forall f st buf, snd (gwrite_all_loop f o st buf) <> OutOfFuel ->
  forall f', f <= f' -> gwrite_all_loop f' o st buf = gwrite_all_loop f o st buf.
Proof.
  induction f as [|f IH]; intros st buf H f' Hf.
  - destruct buf as [|b0 r0]; [rewrite !gloop_nil; reflexivity|]. cbn [gwrite_all_loop snd] in H. congruence.
  - destruct buf as [|b0 r0]; [rewrite !gloop_nil; reflexivity|].
    assert (Hne : b0 :: r0 <> []) by discriminate. remember (b0 :: r0) as buf eqn:Ebuf. clear Ebuf b0 r0.
    destruct f' as [|f']; [lia|]. rewrite (gloop_S f o st buf Hne) in H |- *. rewrite (gloop_S f' o st buf Hne).
    cbv zeta in H |- *.
    destruct (o (ghist st) buf) as [[|n]| |kind]; [reflexivity| |apply IH; [exact H|lia]|reflexivity].
    destruct (Nat.ltb (length buf) (S n)); [reflexivity|apply IH; [exact H|lia]].
Qed.

(* "the oracle interrupts at most K times in a row": when the same buffer is offered again and again (which is what
   write_all does on Interrupted), one of the first K+1 answers is not Interrupted *)
Definition interrupts_bounded (o : oracle) (K : nat) : Prop :=
  forall hist buf, exists j, j <= K /\ o (repeat buf j ++ hist) buf <> RInterrupted.

(* after at most d interruptions the loop makes a step that is not an interruption *)
Lemma gloop_skip_interrupts o (buf : bytes) (f : nat) : buf <> [] ->
  (forall f' n st2, f <= f' -> 1 <= n <= length buf -> snd (gwrite_all_loop f' o st2 (skipn n buf)) <> OutOfFuel) ->
  forall d st, o (repeat buf d ++ ghist st) buf <> RInterrupted ->
  snd (gwrite_all_loop (d + 1 + f) o st buf) <> OutOfFuel.
Proof.
  intros Hne Hk. induction d as [|d IH]; intros st Hd.
  - cbn [repeat app] in Hd. replace (0 + 1 + f) with (S f) by lia. rewrite (gloop_S f o st buf Hne). cbv zeta.
    destruct (o (ghist st) buf) as [[|n]| |kind]; [discriminate| |congruence|discriminate].
    destruct (Nat.ltb (length buf) (S n)) eqn:El; [discriminate|]. apply Nat.ltb_ge in El. apply Hk; lia.
  - replace (S d + 1 + f) with (S (d + 1 + f)) by lia. rewrite (gloop_S (d + 1 + f) o st buf Hne). cbv zeta.
    destruct (o (ghist st) buf) as [[|n]| |kind]; [discriminate| | |discriminate].
    + destruct (Nat.ltb (length buf) (S n)) eqn:El; [discriminate|]. apply Nat.ltb_ge in El. apply Hk; lia.
    + apply IH. cbn [ghist]. rewrite repeat_snoc. exact Hd.
Qed.

(* totality: with at most K interruptions in a row, (K+1) * |buf| `write` calls are enough for write_all to return *)
Theorem C13g_total (o : oracle) (K : nat) : interrupts_bounded o K ->
  forall buf fuel st, S K * length buf <= fuel -> snd (gwrite_all_loop fuel o st buf) <> OutOfFuel.
Proof.
  intros HB.
  assert (Hall : forall m buf, length buf <= m -> forall fuel st, S K * length buf <= fuel ->
                 snd (gwrite_all_loop fuel o st buf) <> OutOfFuel);
    [|intros buf; exact (Hall (length buf) buf (le_n _))].
  induction m as [|m IH]; intros buf Hm fuel st Hf.
  - destruct buf as [|b0 r0]; [rewrite gloop_nil; discriminate|cbn [length] in Hm; lia].
  - destruct buf as [|b0 r0]; [rewrite gloop_nil; discriminate|].
    assert (Hne : b0 :: r0 <> []) by discriminate. remember (b0 :: r0) as buf eqn:Ebuf.
    assert (Hl : 1 <= length buf) by (rewrite Ebuf; cbn [length]; lia). clear Ebuf b0 r0.
    destruct (HB (ghist st) buf) as [j [Hj Ho]].
    assert (Hmul : S K * length buf = S K + S K * (length buf - 1)).
    { replace (length buf) with (S (length buf - 1)) at 1 by lia. rewrite Nat.mul_succ_r. lia. }
    replace fuel with (j + 1 + (fuel - j - 1)) by lia.
    apply (gloop_skip_interrupts o buf (fuel - j - 1) Hne); [|exact Ho].
    intros f' n st2 Hf' Hn. apply IH; [rewrite skipn_length; lia|].
    rewrite skipn_length.
    assert (S K * (length buf - n) <= S K * (length buf - 1)) by (apply Nat.mul_le_mono_l; lia). lia.
Qed.

(* ================================================= no fault ================================================= *)
(* the oracle never fails, never answers Ok(0), never claims more than it was offered *)
Definition never_bad (o : oracle) : Prop := forall hist buf, buf <> [] -> good_resp (o hist buf) buf.

Lemma stopped_never_bad {A} o hist s (r : res A) : never_bad o -> s <> [] -> stopped o hist s r -> r = OutOfFuel.
Proof.
  intros HN Hs [[-> _]|[h [_ [_ B]]]]; [reflexivity|]. exfalso. exact (good_not_bad _ _ _ (HN h s Hs) B).
Qed.

(* a well-behaved oracle — whatever its chunking and its (bounded) interruptions — gives the fault-free run *)
Theorem C13g_no_fault {A} (o : oracle) (K fuel : nat) (t : tr A) :
  never_bad o -> interrupts_bounded o K -> (forall b, In b (fst t) -> S K * length b <= fuel) ->
  let st' := fst (grun_writer fuel o g0 t) in
  snd (grun_writer fuel o g0 t) = snd t /\ gacc st' = concat (fst t) /\ gwa st' = rev (fst t).
Proof.
  intros HN HB Hf. cbv zeta.
  destruct (snd (gfeed fuel o g0 (fst t))) as [[]|c i| |] eqn:Er.
  - rewrite grun_unfold. cbn [fst snd]. rewrite Er. cbn [lift_out].
    destruct (gfeed_spec o fuel (fst t) g0 I) as [[_ [A1 [A2 _]]]|[R _]]; [|rewrite Er in R; congruence].
    cbn [g0 gstart gacc gwa app] in A1, A2. rewrite app_nil_r in A2. auto.
  - exfalso. destruct (gfeed_spec o fuel (fst t) g0 I) as [[R _]|[_ [done [b [rest [p [s [_ [_ [Hs [_ [_ St]]]]]]]]]]]].
    + rewrite Er in R. discriminate.
    + rewrite Er in St. pose proof (stopped_never_bad o _ s _ HN Hs St) as X. discriminate.
  - exfalso.
    assert (Hn : snd (gfeed fuel o g0 (fst t)) <> Ok tt) by (rewrite Er; discriminate).
    destruct (gfeed_fail_split o fuel (fst t) g0 Hn) as [done [b [rest [B1 [_ [_ B4]]]]]].
    rewrite B4 in Er. unfold gwrite_all in Er. revert Er. apply (C13g_total o K HB).
    apply Hf. rewrite B1. apply in_or_app. right. left. reflexivity.
  - exfalso. destruct (gfeed_spec o fuel (fst t) g0 I) as [[R _]|[_ [done [b [rest [p [s [_ [_ [Hs [_ [_ St]]]]]]]]]]]].
    + rewrite Er in R. discriminate.
    + rewrite Er in St. pose proof (stopped_never_bad o _ s _ HN Hs St) as X. discriminate.
Qed.

(* ================================================= the writers of Model/Ser.v are oracles ================================================= *)
Lemma write_once_facts w buf :
  length (sched (fst (write_once w buf))) <= length (sched w)
  /\ match snd (write_once w buf) with
     | WOk n => n <= length buf /\ accepted (fst (write_once w buf)) = accepted w ++ firstn n buf
     | _ => accepted (fst (write_once w buf)) = accepted w
     end.
Proof.
  unfold write_once.
  destruct (sched w) as [|c rs]; [|destruct (Nat.eqb c 0)];
    (destruct (fail_at w) as [[k kind]|]; [destruct (Nat.leb k (length (accepted w)))|]);
    cbn [fst snd accepted sched length]; (split; [lia|]); try reflexivity; (split; [lia|reflexivity]).
Qed.

Lemma write_all_loop_sched : forall f w buf, length (sched (fst (write_all_loop f w buf))) <= length (sched w).
Proof.
  induction f as [|f IH]; intros w buf; destruct buf as [|b0 r0]; cbn [write_all_loop fst]; try lia.
  pose proof (write_once_facts w (b0 :: r0)) as [Hs _].
  destruct (write_once w (b0 :: r0)) as [w1 [[|n]| |kind]]; cbn [fst] in Hs |- *; try lia.
  - specialize (IH w1 (skipn (S n) (b0 :: r0))). lia.
  - specialize (IH w1 (b0 :: r0)). lia.
Qed.

Lemma write_all_loop_not_oof f w buf : length (sched w) + length buf < f -> snd (write_all_loop f w buf) <> OutOfFuel.
Proof.
  intros Hf. destruct (write_all_loop_spec f w buf Hf) as [p [s [_ [_ [_ [[-> _]|[k [kind [_ [-> _]]]]]]]]]]; discriminate.
Qed.

(* the two loops in lock-step (same fuel): the oracle's view of the writer ([replay]) is the writer *)
Lemma sim_loop w0 : forall fuel st buf, accepted (replay w0 (ghist st)) = gacc st ->
  replay w0 (ghist (fst (gwrite_all_loop fuel (oracle_of_writer w0) st buf))) = fst (write_all_loop fuel (replay w0 (ghist st)) buf)
  /\ gacc (fst (gwrite_all_loop fuel (oracle_of_writer w0) st buf)) = accepted (fst (write_all_loop fuel (replay w0 (ghist st)) buf))
  /\ snd (gwrite_all_loop fuel (oracle_of_writer w0) st buf) = snd (write_all_loop fuel (replay w0 (ghist st)) buf).
Proof.
  induction fuel as [|f IH]; intros st buf Ha.
  - destruct buf as [|b0 r0]; cbn [gwrite_all_loop write_all_loop fst snd]; auto.
  - destruct buf as [|b0 r0]; [cbn [gwrite_all_loop write_all_loop fst snd]; auto|].
    assert (Hne : b0 :: r0 <> []) by discriminate. rewrite (gloop_S f _ st (b0 :: r0) Hne). cbn [write_all_loop].
    remember (b0 :: r0) as buf eqn:Ebuf. clear Ebuf b0 r0. cbv zeta.
    unfold oracle_of_writer at 1 4 7.
    pose proof (write_once_facts (replay w0 (ghist st)) buf) as [_ Hw].
    destruct (write_once (replay w0 (ghist st)) buf) as [w1 x] eqn:E. cbn [fst snd] in Hw |- *.
    destruct x as [[|n]| |kind]; cbn [resp_of_wres].
    + cbn [fst snd ghist gacc replay]. rewrite E. cbn [fst]. destruct Hw as [_ Hw]. rewrite Hw. cbn [firstn]. rewrite app_nil_r. auto.
    + destruct Hw as [Hn Hw]. destruct (Nat.ltb (length buf) (S n)) eqn:El; [apply Nat.ltb_lt in El; lia|].
      set (st2 := mkG (buf :: ghist st) (gwa st) (gacc st ++ firstn (S n) buf)).
      assert (R2 : replay w0 (ghist st2) = w1) by (unfold st2; cbn [ghist replay]; rewrite E; reflexivity).
      assert (Ha2 : accepted (replay w0 (ghist st2)) = gacc st2) by (rewrite R2, Hw; unfold st2; cbn [gacc]; rewrite Ha; reflexivity).
      pose proof (IH st2 (skipn (S n) buf) Ha2) as X. rewrite R2 in X. exact X.
    + set (st1 := mkG (buf :: ghist st) (gwa st) (gacc st)).
      assert (R1 : replay w0 (ghist st1) = w1) by (unfold st1; cbn [ghist replay]; rewrite E; reflexivity).
      assert (Ha1 : accepted (replay w0 (ghist st1)) = gacc st1) by (rewrite R1, Hw; unfold st1; cbn [gacc]; exact Ha).
      pose proof (IH st1 buf Ha1) as X. rewrite R1 in X. exact X.
    + cbn [fst snd ghist gacc replay]. rewrite E. cbn [fst]. rewrite Hw. auto.
Qed.

(* write_all against write_all: any fuel above the one Model/Ser.v's write_all gives itself *)
Lemma sim_write_all w0 fuel st buf : accepted (replay w0 (ghist st)) = gacc st ->
  length (sched (replay w0 (ghist st))) + length buf < fuel ->
  replay w0 (ghist (fst (gwrite_all fuel (oracle_of_writer w0) st buf))) = fst (write_all (replay w0 (ghist st)) buf)
  /\ gacc (fst (gwrite_all fuel (oracle_of_writer w0) st buf)) = accepted (fst (write_all (replay w0 (ghist st)) buf))
  /\ snd (gwrite_all fuel (oracle_of_writer w0) st buf) = snd (write_all (replay w0 (ghist st)) buf).
Proof.
  intros Ha Hf. unfold gwrite_all, write_all.
  set (st0 := mkG (ghist st) (buf :: gwa st) (gacc st)).
  set (f0 := S (length (sched (replay w0 (ghist st))) + length buf)).
  assert (Ha0 : accepted (replay w0 (ghist st0)) = gacc st0) by exact Ha.
  pose proof (sim_loop w0 f0 st0 buf Ha0) as [X1 [X2 X3]]. change (ghist st0) with (ghist st) in X1, X2, X3.
  assert (Hn : snd (gwrite_all_loop f0 (oracle_of_writer w0) st0 buf) <> OutOfFuel).
  { rewrite X3. apply write_all_loop_not_oof. unfold f0. lia. }
  rewrite (gloop_fuel_mono _ f0 st0 buf Hn fuel) by (unfold f0; lia). auto.
Qed.

Lemma sim_feed w0 fuel : forall bufs st, accepted (replay w0 (ghist st)) = gacc st ->
  (forall b, In b bufs -> length (sched (replay w0 (ghist st))) + length b < fuel) ->
  replay w0 (ghist (fst (gfeed fuel (oracle_of_writer w0) st bufs))) = fst (feed (replay w0 (ghist st)) bufs)
  /\ gacc (fst (gfeed fuel (oracle_of_writer w0) st bufs)) = accepted (fst (feed (replay w0 (ghist st)) bufs))
  /\ snd (gfeed fuel (oracle_of_writer w0) st bufs) = snd (feed (replay w0 (ghist st)) bufs).
Proof.
  induction bufs as [|b rest IH]; intros st Ha Hf; [cbn [gfeed feed fst snd]; auto|].
  cbn [gfeed feed].
  destruct (sim_write_all w0 fuel st b Ha (Hf b (or_introl eq_refl))) as [X1 [X2 X3]].
  pose proof (write_all_loop_sched (S (length (sched (replay w0 (ghist st))) + length b)) (replay w0 (ghist st)) b) as Hs.
  fold (write_all (replay w0 (ghist st)) b) in Hs.
  destruct (gwrite_all fuel (oracle_of_writer w0) st b) as [st1 r1].
  destruct (write_all (replay w0 (ghist st)) b) as [w1 r1']. cbn [fst snd] in X1, X2, X3, Hs. subst r1'.
  destruct r1 as [[]|c i| |]; cbn [fst snd]; auto.
  assert (Ha1 : accepted (replay w0 (ghist st1)) = gacc st1) by (rewrite X1, X2; reflexivity).
  assert (Hf1 : forall b', In b' rest -> length (sched (replay w0 (ghist st1))) + length b' < fuel).
  { intros b' Hi. rewrite X1. specialize (Hf b' (or_intror Hi)). lia. }
  pose proof (IH st1 Ha1 Hf1) as X. rewrite X1 in X. exact X.
Qed.

(* Model/Ser.v's writer model is an instance of the oracle model: same accepted bytes, same outcome — and the oracle's view of
   the writer after the run is the writer after the run.  (fuel: anything above |sched| + the longest buffer) *)
Theorem C13g_refines_old {A} (w : writer) (fuel : nat) (t : tr A) :
  (forall b, In b (fst t) -> length (sched w) + length b < fuel) ->
  let g := grun_writer fuel (oracle_of_writer w) (gstart (accepted w)) t in
  gacc (fst g) = accepted (fst (run_writer w t))
  /\ snd g = snd (run_writer w t)
  /\ replay w (ghist (fst g)) = fst (run_writer w t).
Proof.
  intros Hf. cbv zeta. rewrite grun_unfold. cbn [fst snd]. unfold run_writer.
  destruct (sim_feed w fuel (fst t) (gstart (accepted w)) eq_refl Hf) as [X1 [X2 X3]].
  cbn [gstart ghist replay] in X1, X2, X3.
  destruct (feed w (fst t)) as [w1 r1]. cbn [fst snd] in X1, X2, X3. rewrite X3.
  destruct r1 as [[]|c i| |]; cbn [fst snd lift_out]; auto.
Qed.

(* a fuel that always fits *)
Corollary C13g_refines_old_fuel {A} (w : writer) (t : tr A) :
  let g := grun_writer (S (length (sched w) + length (concat (fst t)))) (oracle_of_writer w) (gstart (accepted w)) t in
  gacc (fst g) = accepted (fst (run_writer w t)) /\ snd g = snd (run_writer w t).
Proof.
  cbv zeta. destruct (C13g_refines_old w (S (length (sched w) + length (concat (fst t)))) t) as [X1 [X2 _]]; [|auto].
  intros b Hi. pose proof (in_length_concat b (fst t) Hi). lia.
Qed.

(* so the prefix clause of C13_write_prefix is a corollary of the theorem about all oracles *)
Corollary C13_write_prefix_from_gen {A} (w : writer) (t : tr A) : accepted w = [] ->
  is_prefix (accepted (fst (run_writer w t))) (concat (fst t)).
Proof.
  intros Hw. destruct (C13g_refines_old_fuel w t) as [X1 _]. rewrite <- X1. rewrite Hw.
  exact (proj1 (C13g_prefix (oracle_of_writer w) _ t)).
Qed.

(* ================================================= what is offered to the writer ================================================= *)
(* whatever the oracle does: every buffer handed to write_all is a buffer of the trace, and every buffer offered to `write`
   is a non-empty suffix of one (write_all re-offers the unwritten rest) *)
Theorem C13g_logs {A} (o : oracle) (fuel : nat) (t : tr A) (P : bytes -> Prop) : Forall P (fst t) ->
  let st' := fst (grun_writer fuel o g0 t) in
  Forall P (gwa st') /\ Forall (fun x => exists b, P b /\ suffix_of b x) (ghist st').
Proof.
  intros HP. cbv zeta. split.
  - destruct (C13g_prefix o fuel t) as [_ [[_ [_ [W _]]]|[done [b [rest [p [s [E [_ [_ [_ [W _]]]]]]]]]]]]; rewrite W; apply Forall_rev.
    + exact HP.
    + rewrite E in HP. apply Forall_app in HP. destruct HP as [H1 H2]. apply Forall_app. split; [exact H1|].
      constructor; [exact (Forall_inv H2)|constructor].
  - rewrite grun_unfold. cbn [fst]. destruct (gfeed_hist o fuel (fst t) g0 I) as [hnew [Hh Hs]].
    rewrite Hh. cbn [g0 gstart ghist]. rewrite app_nil_r. eapply Forall_impl; [|exact Hs].
    intros x [b [Hi Hx]]. exists b. split; [|exact Hx]. rewrite Forall_forall in HP. exact (HP b Hi).
Qed.

(* with C13_buf_utf8: every buffer the serializer hands to ANY writer is valid UTF-8 on its own (and what `write` is offered is
   a non-empty suffix of such a buffer: the whole buffer unless the writer itself took only a part of it) *)
Theorem C13g_buf_utf8 : forall cf fmt32 fmt64 F v (o : oracle) (fuel : nat), ryu_json fmt32 fmt64 ->
  (forall ind, F = Pretty ind -> utf8_valid ind = true) -> wfs v = true ->
  let st' := fst (grun_writer fuel o g0 (serialize_trace cf fmt32 fmt64 F v)) in
  Forall (fun b => utf8_valid b = true) (gwa st')
  /\ Forall (fun x => exists b, utf8_valid b = true /\ suffix_of b x) (ghist st').
Proof.
  intros cf f32 f64 F v o fuel HR Hind W.
  exact (C13g_logs o fuel (serialize_trace cf f32 f64 F v) (fun b => utf8_valid b = true) (C13_buf_utf8_main' cf f32 f64 F v HR Hind W)).
Qed.

(* ================================================= instances, on a trace of the real serializer ================================================= *)
Module Examples.
  Open Scope N_scope.
  Definition cf0 : cfg := mkCfg false false false false.
  Definition fmt0 : N -> bytes := fun _ => [49; 46; 53].
  (* struct { a: 17u8, "b\n": [true, "x\ny", None] }, compact *)
  Definition ex_v : sval := SStruct [([97], SInt U8 17); ([98; 10], SSeq None [SBool true; SStr [120; 10; 121]; SNone])].
  Definition ex_t : tr unit := serialize_trace cf0 fmt0 fmt0 Compact ex_v.
  Definition ex_out : bytes := concat (fst ex_t).

  Example ex_trace : ex_t =
    ([[123]; [34]; [97]; [34]; [58]; [49; 55]; [44]; [34]; [98]; [92; 110]; [34]; [58]; [91]; [116; 114; 117; 101]; [44]; [34];
      [120]; [92; 110]; [121]; [34]; [44]; [110; 117; 108; 108]; [93]; [125]], Ok tt).
  Proof. vm_compute. reflexivity. Qed.

  (* a well-behaved writer, short writes of 3 bytes: fault-free *)
  Example ex_short : let g := grun_writer 10 (o_short 3) g0 ex_t in snd g = Ok tt /\ gacc (fst g) = ex_out.
  Proof. vm_compute. auto. Qed.

  (* interrupted on every other call, one byte at a time: fault-free with fuel 2 * |longest buffer| = 8 *)
  Example ex_stutter : let g := grun_writer 8 o_stutter g0 ex_t in snd g = Ok tt /\ gacc (fst g) = ex_out.
  Proof. vm_compute. auto. Qed.

  (* transient failure: `write` call #5 (the buffer "17") fails once with kind 7; the writer would accept again, but it is never asked *)
  Example ex_fail_once : grun_writer 10 (o_fail_once 5 7) g0 ex_t =
    (mkG [[49; 55]; [58]; [34]; [97]; [34]; [123]] [[49; 55]; [58]; [34]; [97]; [34]; [123]] [123; 34; 97; 34; 58], Err (Io 7) O).
  Proof. vm_compute. reflexivity. Qed.

  (* all-or-nothing sink of capacity 6: "17" does not fit behind `{"a":` (5 bytes) and is refused with kind 28, although the
     one-byte buffers that follow would fit: nothing more is offered *)
  Example ex_all_or_nothing : grun_writer 10 (o_all_or_nothing 6 28) g0 ex_t =
    (mkG [[49; 55]; [58]; [34]; [97]; [34]; [123]] [[49; 55]; [58]; [34]; [97]; [34]; [123]] [123; 34; 97; 34; 58], Err (Io 28) O).
  Proof. vm_compute. reflexivity. Qed.

  (* `write` call #3 returns Ok(0): ErrorKind::WriteZero *)
  Example ex_zero : grun_writer 10 (o_zero_at 3) g0 ex_t =
    (mkG [[34]; [97]; [34]; [123]] [[34]; [97]; [34]; [123]] [123; 34; 97], Err (Io KIND_WRITE_ZERO) O).
  Proof. vm_compute. reflexivity. Qed.

  (* a writer that claims more than it was offered: write_all's `&buf[n..]` panics *)
  Example ex_overclaim : grun_writer 10 o_overclaim g0 ex_t = (mkG [[123]] [[123]] [], Panic).
  Proof. vm_compute. reflexivity. Qed.

  (* a writer that is interrupted forever: write_all never returns (fuel 10: ten calls, all offering the first buffer) *)
  Example ex_interrupt_forever : grun_writer 10 o_interrupt_forever g0 ex_t = (mkG (repeat [123] 10) [[123]] [], OutOfFuel).
  Proof. vm_compute. reflexivity. Qed.

  (* ---- why persistent failures are not enough: the defective driver [gfeed_keepgoing] ---- *)
  (* against every persistent-failure writer of Model/Ser.v (failing after k accepted bytes, k = 0..39, any of three chunkings)
     the driver that keeps writing after a failed write_all shows the same accepted bytes and the same outcome as the correct one *)
  Definition obs (x : gstate * res unit) : bytes * res unit := (gacc (fst x), snd x).
  Example ex_defect_invisible : forall sc, In sc [[]; [1; 0; 2]; [0; 0; 3; 1; 0; 5]]%nat ->
    map (fun k => obs (gfeed_keepgoing 20 (oracle_of_writer (mkW [] sc (Some (k, 5)))) g0 (fst ex_t))) (seq 0 40)
    = map (fun k => obs (gfeed 20 (oracle_of_writer (mkW [] sc (Some (k, 5)))) g0 (fst ex_t))) (seq 0 40).
  Proof. intros sc [<-|[<-|[<-|[]]]]; vm_compute; reflexivity. Qed.

  (* against the transient failure it is exposed: the accepted bytes are not a prefix of the fault-free output
     (the buffer "17" is missing in the middle) *)
  Example ex_defect_exposed :
    obs (gfeed_keepgoing 10 (o_fail_once 5 7) g0 (fst ex_t))
    = ([123; 34; 97; 34; 58; 44; 34; 98; 92; 110; 34; 58; 91; 116; 114; 117; 101; 44; 34; 120; 92; 110; 121; 34; 44; 110; 117; 108; 108; 93; 125],
       Err (Io 7) O)
    /\ ~ is_prefix (gacc (fst (gfeed_keepgoing 10 (o_fail_once 5 7) g0 (fst ex_t)))) ex_out.
  Proof.
    split; [vm_compute; reflexivity|]. intros [s E]. vm_compute in E. discriminate E.
  Qed.
  (* and so is it against the all-or-nothing sink *)
  Example ex_defect_exposed_sink :
    ~ is_prefix (gacc (fst (gfeed_keepgoing 10 (o_all_or_nothing 6 28) g0 (fst ex_t)))) ex_out.
  Proof. intros [s E]. vm_compute in E. discriminate E. Qed.
End Examples.

Print Assumptions C13g_prefix.
Print Assumptions C13g_error_kind.
Print Assumptions C13g_cut.
Print Assumptions C13g_total.
Print Assumptions C13g_no_fault.
Print Assumptions C13g_refines_old.
Print Assumptions C13_write_prefix_from_gen.
Print Assumptions C13g_logs.
Print Assumptions C13g_buf_utf8.
Print Assumptions Examples.ex_defect_invisible.
Print Assumptions Examples.ex_defect_exposed.
