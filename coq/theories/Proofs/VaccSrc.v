(* Proofs/VaccSrc.v — the hand models of the `Value` accessors and in-place lookups ARE the bodies of src/value/mod.rs / src/value/index.rs as
   translated on this run (Gen/VaccTables.v, tools/translate_vacc.py), under the interpreter of Model/VaccAst.v:
     vacc_get_is_source              Pointer.get_usize / get_str / get_mut_usize / get_mut_str  and  index_into(_mut)_usize / _str
     vacc_index_is_source            Pointer.index_usize / index_str                 (ops::Index: the `static NULL` fallback)
     vacc_index_or_insert_is_source  Pointer.index_or_insert_usize / _str            (ops::IndexMut and Index::index_or_insert; both preserve_order settings)
     vacc_take_is_source             Pointer.take
     vacc_accessors_are_source       VaccAst.v_is_object .. v_as_null (15 new one-line models) and Pointer.as_i64 as_u64 as_f64 as_bool as_str
   for every value / key / index, plus the C18-style corollaries
     vacc_is_as_partial              is_x v = true <-> as_x v <> None  for object array string number i64 u64 boolean null; for f64 only
                                     `is_f64 -> as_f64 <> None` holds (as_f64 also converts integers): vacc_is_as_f64_counterexample
     vacc_index_get                  Index returns the element get returns, or Null when get is None (model level and source level)
   and the links of the primitives the interpreter trusts to the other translated sources:
     vacc_number_methods_are_source  the six Number methods = the arms of src/number.rs as translated by translate_num.py (Gen/NumTables.v)
     vacc_map_prims_are_mapm         Map::get / entry().or_insert() = Model/MapM.v's step (which Proofs/MapSrc.v ties to src/map.rs). *)
From Coq Require Import String.
From SJ Require Import Base.Bytes Base.FloatB Model.Value Model.Pointer.
From SJ Require Import Model.NumAst Gen.NumTables Proofs.NumberAcc Proofs.NumAccSrc Model.MapM Proofs.Pointer.
From SJ Require Import Model.VaccAst Gen.VaccTables.       (* last: `dv`, `run`, `eval` mean VaccAst's *)
Require Import Lia ZifyBool ZifyNat ZifyN.
Open Scope N_scope.

(* the translated program under the interpreter *)
Definition src (po : bool) (f : fname) (ix : option idx) (v : value) : outcome := VaccAst.run VACC_FNS po f ix v.

(* how the results of the hand models are read as results of the interpreter *)
Definition opt_ref (o : option value) : dv := DOpt (option_map DVal o).            (* Option<&Value> *)
Definition opt_mut (o : option nat) : dv := DOpt (option_map DMutChild o).         (* Option<&mut Value>: position of the child *)
Definition of_ioi (r : res (value * nat)) : outcome :=                             (* &mut Value + the new content of the place, or panic *)
  match r with
  | Ok (v', j) => Done (DMutChild j) v'
  | Panic => Panicked
  | _ => Stuck
  end.

(* ---- Map::insert makes the key present: the `None => Panic (* unreachable *)` arm of Pointer.index_or_insert_str never runs --------------- *)
Lemma beq_bytes_refl' : forall k, beq_bytes k k = true.
Proof. intros k. apply beq_bytes_eq. reflexivity. Qed.

Lemma assoc_pos_bt_insert : forall k (x : value) m, assoc_pos k (bt_insert k x m) <> None.
Proof.
  intros k x m. induction m as [|[k' v'] m IH]; cbn [bt_insert assoc_pos].
  - rewrite beq_bytes_refl'. discriminate.
  - destruct (beq_bytes k k') eqn:E.
    + cbn [assoc_pos]. rewrite beq_bytes_refl'. discriminate.
    + destruct (bytes_ltb k k').
      * cbn [assoc_pos]. rewrite beq_bytes_refl'. discriminate.
      * cbn [assoc_pos]. rewrite E. destruct (assoc_pos k (bt_insert k x m)); [discriminate | contradiction].
Qed.
Lemma assoc_pos_ix_insert : forall k (x : value) m, assoc_pos k (ix_insert k x m) <> None.
Proof.
  intros k x m. induction m as [|[k' v'] m IH]; cbn [ix_insert assoc_pos].
  - rewrite beq_bytes_refl'. discriminate.
  - destruct (beq_bytes k k') eqn:E; cbn [assoc_pos]; rewrite E.
    + discriminate.
    + destruct (assoc_pos k (ix_insert k x m)); [discriminate | contradiction].
Qed.
Lemma assoc_pos_map_insert : forall po k (x : value) m, assoc_pos k (map_insert po k x m) <> None.
Proof. intros [|] k x m; [apply assoc_pos_ix_insert | apply assoc_pos_bt_insert]. Qed.

(* ---- get / get_mut / index_into / index_into_mut ------------------------------------------------------------------------------------------- *)
Theorem vacc_get_is_source : forall po v,
  (forall i, src po Value_get (Some (IUsize i)) v = Done (opt_ref (get_usize v i)) v) /\
  (forall k, src po Value_get (Some (IStr k)) v = Done (opt_ref (get_str v k)) v) /\
  (forall i, src po Value_get_mut (Some (IUsize i)) v = Done (opt_mut (get_mut_usize v i)) v) /\
  (forall k, src po Value_get_mut (Some (IStr k)) v = Done (opt_mut (get_mut_str v k)) v) /\
  (forall i, src po (Index_for KUsize index_into) (Some (IUsize i)) v = Done (opt_ref (index_into_usize i v)) v) /\
  (forall k, src po (Index_for KStr index_into) (Some (IStr k)) v = Done (opt_ref (index_into_str k v)) v) /\
  (forall i, src po (Index_for KUsize index_into_mut) (Some (IUsize i)) v = Done (opt_mut (index_into_mut_usize i v)) v) /\
  (forall k, src po (Index_for KStr index_into_mut) (Some (IStr k)) v = Done (opt_mut (index_into_mut_str k v)) v).
Proof.
  intros po v. repeat split; intros x; destruct v as [|b|n|s|l|m]; try reflexivity.
  - (* get_mut usize on an array *)
    change (src po Value_get_mut (Some (IUsize x)) (VArr l))
      with (Done (DOpt (if in_bounds x l then Some (DMutChild (N.to_nat x)) else None)) (VArr l)).
    unfold opt_mut, get_mut_usize, index_into_mut_usize. destruct (in_bounds x l); reflexivity.
  - (* index_into_mut usize on an array *)
    change (src po (Index_for KUsize index_into_mut) (Some (IUsize x)) (VArr l))
      with (Done (DOpt (if in_bounds x l then Some (DMutChild (N.to_nat x)) else None)) (VArr l)).
    unfold opt_mut, index_into_mut_usize. destruct (in_bounds x l); reflexivity.
Qed.

(* ---- ops::Index ---------------------------------------------------------------------------------------------------------------------------- *)
Theorem vacc_index_is_source : forall po v,
  (forall i, src po Ops_index (Some (IUsize i)) v = Done (DVal (index_usize v i)) v) /\
  (forall k, src po Ops_index (Some (IStr k)) v = Done (DVal (index_str v k)) v).
Proof.
  intros po v. split; intros x; destruct v as [|b|n|s|l|m]; try reflexivity.
  - change (src po Ops_index (Some (IUsize x)) (VArr l))
      with (Done (match option_map DVal (get_N l x) with Some d => d | None => DVal VNull end) (VArr l)).
    unfold index_usize, index_into_usize. destruct (get_N l x); reflexivity.
  - change (src po Ops_index (Some (IStr x)) (VObj m))
      with (Done (match option_map DVal (assoc_get x m) with Some d => d | None => DVal VNull end) (VObj m)).
    unfold index_str, index_into_str. destruct (assoc_get x m); reflexivity.
Qed.

(* ---- ops::IndexMut / Index::index_or_insert ---------------------------------------------------------------------------------------------- *)
Lemma ioi_usize_body : forall po i v,
  src po (Index_for KUsize index_or_insert) (Some (IUsize i)) v = of_ioi (index_or_insert_usize i v).
Proof.
  intros po i v. destruct v as [|b|n|s|l|m]; try reflexivity.
  change (src po (Index_for KUsize index_or_insert) (Some (IUsize i)) (VArr l))
    with (match (if in_bounds i l then Some (DMutChild (N.to_nat i)) else None) with
          | Some d => Done d (VArr l)
          | None => Panicked
          end).
  unfold index_or_insert_usize. destruct (in_bounds i l); reflexivity.
Qed.

Lemma ioi_str_obj : forall po k m,
  entry_or_insert po k VNull (VObj m) = of_ioi (index_or_insert_str po k (VObj m)).
Proof.
  intros po k m. unfold entry_or_insert, index_or_insert_str.
  destruct (assoc_pos k m) as [i|] eqn:E; [reflexivity|].
  destruct (assoc_pos k (map_insert po k VNull m)) as [j|] eqn:E'; [reflexivity|].
  exfalso. exact (assoc_pos_map_insert po k VNull m E').
Qed.

Lemma ioi_str_body : forall po k v,
  src po (Index_for KStr index_or_insert) (Some (IStr k)) v = of_ioi (index_or_insert_str po k v).
Proof.
  intros po k v. destruct v as [|b|n|s|l|m]; try reflexivity.
  - (* Null: upgraded to an empty object first *)
    change (src po (Index_for KStr index_or_insert) (Some (IStr k)) VNull) with (entry_or_insert po k VNull (VObj [])).
    rewrite ioi_str_obj. reflexivity.
  - change (src po (Index_for KStr index_or_insert) (Some (IStr k)) (VObj m)) with (entry_or_insert po k VNull (VObj m)).
    apply ioi_str_obj.
Qed.

Theorem vacc_index_or_insert_is_source : forall po v,
  (forall i, src po Ops_index_mut (Some (IUsize i)) v = of_ioi (index_or_insert_usize i v)) /\
  (forall k, src po Ops_index_mut (Some (IStr k)) v = of_ioi (index_or_insert_str po k v)) /\
  (forall i, src po (Index_for KUsize index_or_insert) (Some (IUsize i)) v = of_ioi (index_or_insert_usize i v)) /\
  (forall k, src po (Index_for KStr index_or_insert) (Some (IStr k)) v = of_ioi (index_or_insert_str po k v)).
Proof.
  intros po v. repeat split; intros x.
  - rewrite <- (ioi_usize_body po). destruct v; reflexivity.
  - rewrite <- (ioi_str_body po). destruct v; reflexivity.
  - apply ioi_usize_body.
  - apply ioi_str_body.
Qed.

(* ---- take ---------------------------------------------------------------------------------------------------------------------------------- *)
Theorem vacc_take_is_source : forall po v, src po Value_take None v = Done (DVal (fst (take v))) (snd (take v)).
Proof. intros po v. reflexivity. Qed.

(* ---- the accessors ------------------------------------------------------------------------------------------------------------------------ *)
Definition ob (b : bool) : dv := DBool b.
Definition oo {A} (f : A -> dv) (o : option A) : dv := DOpt (option_map f o).

Theorem vacc_accessors_are_source : forall po v,
  src po Value_is_object None v = Done (ob (v_is_object v)) v /\
  src po Value_as_object None v = Done (oo DMap (v_as_object v)) v /\
  src po Value_as_object_mut None v = Done (oo DMap (v_as_object_mut v)) v /\
  src po Value_is_array None v = Done (ob (v_is_array v)) v /\
  src po Value_as_array None v = Done (oo DVec (v_as_array v)) v /\
  src po Value_as_array_mut None v = Done (oo DVec (v_as_array_mut v)) v /\
  src po Value_is_string None v = Done (ob (v_is_string v)) v /\
  src po Value_as_str None v = Done (oo DStr (as_str v)) v /\
  src po Value_is_number None v = Done (ob (v_is_number v)) v /\
  src po Value_as_number None v = Done (oo DNum (v_as_number v)) v /\
  src po Value_is_i64 None v = Done (ob (v_is_i64 v)) v /\
  src po Value_is_u64 None v = Done (ob (v_is_u64 v)) v /\
  src po Value_is_f64 None v = Done (ob (v_is_f64 v)) v /\
  src po Value_as_i64 None v = Done (oo DI64 (as_i64 v)) v /\
  src po Value_as_u64 None v = Done (oo DU64 (as_u64 v)) v /\
  src po Value_as_f64 None v = Done (oo DF64 (as_f64 v)) v /\
  src po Value_is_boolean None v = Done (ob (v_is_boolean v)) v /\
  src po Value_as_bool None v = Done (oo DBool (as_bool v)) v /\
  src po Value_is_null None v = Done (ob (v_is_null v)) v /\
  src po Value_as_null None v = Done (oo (fun _ => DUnit) (v_as_null v)) v.
Proof. intros po v. repeat split; destruct v as [|b|n|s|l|m]; reflexivity. Qed.

(* ---- C18-style corollaries ------------------------------------------------------------------------------------------------------------------ *)
(* `is_f64 v = true <-> as_f64 v <> None` is FALSE: as_f64 also converts integers (number.rs: PosInt(n) => Some(n as f64)) *)
Example vacc_is_as_f64_counterexample :
  v_is_f64 (VNum (NPos 1)) = false /\ as_f64 (VNum (NPos 1)) <> None.
Proof. split; [reflexivity | discriminate]. Qed.

Theorem vacc_is_as_partial : forall v,
  (v_is_object v = true <-> v_as_object v <> None) /\
  (v_is_object v = true <-> v_as_object_mut v <> None) /\
  (v_is_array v = true <-> v_as_array v <> None) /\
  (v_is_array v = true <-> v_as_array_mut v <> None) /\
  (v_is_string v = true <-> as_str v <> None) /\
  (v_is_number v = true <-> v_as_number v <> None) /\
  (v_is_i64 v = true <-> as_i64 v <> None) /\
  (v_is_u64 v = true <-> as_u64 v <> None) /\
  (v_is_boolean v = true <-> as_bool v <> None) /\
  (v_is_null v = true <-> v_as_null v <> None) /\
  (* f64: one direction only; as_f64 is Some exactly on the numbers of the default representation *)
  (v_is_f64 v = true -> as_f64 v <> None) /\
  (as_f64 v <> None <-> exists n, v = VNum n /\ default_repr n).
Proof.
  intros v.
  assert (Hf : as_f64 v <> None <-> exists n, v = VNum n /\ default_repr n).
  { destruct v as [|b|n|s|l|m]; cbn [as_f64]; try (split; [congruence | intros [n' [H _]]; discriminate H]).
    split.
    - intros H. exists n. split; [reflexivity|]. destruct n as [u|z|f|t]; cbn [default_repr]; try exact I. apply H. reflexivity.
    - intros [n' [E D]]. injection E as <-. destruct n as [u|z|f|t]; cbn [num_as_f64]; try discriminate. contradiction D. }
  repeat split; try (apply Hf); clear Hf;
    destruct v as [|b|n|s|l|m]; cbn [v_is_object v_as_object v_as_object_mut v_is_array v_as_array v_as_array_mut v_is_string
      as_str v_is_number v_as_number v_is_boolean as_bool v_is_null v_as_null v_is_i64 v_is_u64 v_is_f64 as_i64 as_u64 as_f64];
    try congruence;
    destruct n as [u|z|f|t]; cbn [nm_is_i64 nm_is_u64 nm_is_f64 num_as_i64 num_as_u64 num_as_f64]; try congruence;
    destruct (u <=? i64_max); congruence.
Qed.

(* Index returns the element get returns, or Null when get is None — on the hand models (Proofs/Pointer.v) and on the translated source *)
Theorem vacc_index_get : forall po v,
  (forall i, index_usize v i = match get_usize v i with Some x => x | None => VNull end) /\
  (forall k, index_str v k = match get_str v k with Some x => x | None => VNull end) /\
  (forall ix g, src po Value_get (Some ix) v = Done (DOpt g) v ->
                src po Ops_index (Some ix) v = Done (match g with Some d => d | None => DVal VNull end) v).
Proof.
  intros po v. split; [|split].
  - intros i. apply index_usize_spec.
  - intros k. apply index_str_spec.
  - intros ix g H. destruct (vacc_get_is_source po v) as (Gu & Gs & _). destruct (vacc_index_is_source po v) as (Iu & Is).
    destruct ix as [i|k].
    + rewrite Gu in H. rewrite Iu. injection H as <-. rewrite index_usize_spec. unfold opt_ref. destruct (get_usize v i); reflexivity.
    + rewrite Gs in H. rewrite Is. injection H as <-. rewrite index_str_spec. unfold opt_ref. destruct (get_str v k); reflexivity.
Qed.

(* ---- the primitives the interpreter trusts, against the other translated sources ------------------------------------------------------ *)
(* Number::is_i64 .. as_f64: the arms of src/number.rs as translated on this run by translate_num.py *)
Theorem vacc_number_methods_are_source : forall n, default_repr n ->
  run_acc NUM_is_i64 n = RB (nm_is_i64 n) /\ run_acc NUM_is_u64 n = RB (nm_is_u64 n) /\ run_acc NUM_is_f64 n = RB (nm_is_f64 n) /\
  run_acc NUM_as_i64 n = RO (option_map VI64 (num_as_i64 n)) /\
  run_acc NUM_as_u64 n = RO (option_map VU64 (num_as_u64 n)) /\
  run_acc NUM_as_f64 n = RO (option_map VF64 (num_as_f64 n)).
Proof.
  intros n D. destruct (accessor_models_are_translated_source n D) as (A & B & C & E & F & G & _).
  rewrite A, B, C, E, F, G. repeat split; destruct n as [u|z|f|t]; reflexivity.
Qed.

(* Map::get and Map::entry(k).or_insert(d) as Model/MapM.v models them (Proofs/MapSrc.v: MapM.step = src/map.rs as translated) *)
Lemma assoc_get_al_get : forall k m, assoc_get k m = al_get k m.
Proof. intros k m. induction m as [|[k' x] m IH]; cbn [assoc_get al_get]; [reflexivity | rewrite IH; reflexivity]. Qed.
Lemma assoc_pos_none : forall k m, assoc_pos k m = None <-> assoc_get k m = None.
Proof.
  intros k m. induction m as [|[k' x] m IH]; cbn [assoc_pos assoc_get]; [tauto|].
  destruct (beq_bytes k k'); [split; discriminate|]. destruct (assoc_pos k m); cbn [option_map]; [|tauto].
  split; [discriminate|]. intros H. apply IH in H. discriminate.
Qed.
Theorem vacc_map_prims_are_mapm : forall po k d m,
  step_do po m (Get k) = (m, OOptV (assoc_get k m)) /\
  match entry_or_insert po k d (VObj m) with
  | Done (DMutChild i) (VObj m') => m' = fst (step_do po m (EntryOrInsert k d)) /\ assoc_pos k m' = Some i
  | _ => False
  end.
Proof.
  intros po k d m. split.
  - cbn [step_do]. rewrite assoc_get_al_get. reflexivity.
  - unfold entry_or_insert. cbn [step_do]. rewrite <- assoc_get_al_get.
    destruct (assoc_pos k m) as [i|] eqn:E.
    + destruct (assoc_get k m) eqn:G; [split; [reflexivity | exact E]|].
      apply assoc_pos_none in G. rewrite G in E. discriminate.
    + pose proof (proj1 (assoc_pos_none k m) E) as G. rewrite G. cbn [fst]. unfold m_insert.
      destruct (assoc_pos k (map_insert po k d m)) as [j|] eqn:E'; [split; [reflexivity | exact E']|].
      exact (assoc_pos_map_insert po k d m E').
Qed.

Print Assumptions vacc_get_is_source.
Print Assumptions vacc_index_is_source.
Print Assumptions vacc_index_or_insert_is_source.
Print Assumptions vacc_take_is_source.
Print Assumptions vacc_accessors_are_source.
Print Assumptions vacc_is_as_partial.
Print Assumptions vacc_index_get.
Print Assumptions vacc_number_methods_are_source.
Print Assumptions vacc_map_prims_are_mapm.
