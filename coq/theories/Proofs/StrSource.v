(* Proofs/StrSource.v — the `&str` input source (serde_json::de::StrRead, `from_str`) against the slice source.

   StrRead is SliceRead minus the UTF-8 re-validation of string literals (`from_utf8_unchecked`).  On input that IS valid
   UTF-8 (which a `&str` is by construction) the two sources are indistinguishable for
     - the Value parser            from_input_str_slice
     - the skip scanner            ignored_from_input_str_slice, raw_value_str_slice   (these hold unconditionally:
                                   `ignore_str` never validates, see [ignore_value_str_slice])
     - stream iteration            stream_run_str_slice
   and every String handed out by the &str source is valid UTF-8 (from_input_str_strings_utf8): the obligation that
   justifies `from_utf8_unchecked`.

   Organisation
     1. UTF-8 helpers: ASCII prefixes, whitespace skipping.
     2. Esl (slice) post-conditions: after a successful run the remaining input is still valid UTF-8
        (every consumption outside a string literal removes ASCII bytes; inside: Proofs/StrEscapeUtf8).
     3. Estr = Esl, function by function (only `parse_str` differs; it needs the invariant).
     4. Skip scanner (unconditional), 5. stream iteration, 6. strings of the result are UTF-8. *)
From Coq Require Import List NArith ZArith Bool Arith Lia ZifyBool ZifyNat ZifyN.
From SJ Require Import Base.Bytes Base.Utf8 Base.FloatB Gen.Tables Model.Read Model.Str Model.Num Model.Value Model.De Model.Ignore Model.Stream.
From SJ Require Import Spec.Syntax Spec.Denote.
From SJ Require Import Proofs.Utf8Lemmas Proofs.StrEscapeReject Proofs.StrEscapeUtf8 Proofs.GrammarNum Proofs.GrammarValueBase.
Import ListNotations.
Open Scope N_scope.

(* ------------------------------------------------------------------------------------------ *)
(** * 0. Generic helpers *)

Lemma bind_ok' {A B} (r : res A) (f : A -> res B) (b : B) :
  bind r f = Ok b -> exists a, r = Ok a /\ f a = Ok b.
Proof. destruct r as [a| | |]; cbn [bind]; intros H; try discriminate H. exists a. split; [reflexivity|exact H]. Qed.

Lemma bind_cong {A B} (r1 r2 : res A) (k1 k2 : A -> res B) :
  r1 = r2 -> (forall a, r2 = Ok a -> k1 a = k2 a) -> bind r1 k1 = bind r2 k2.
Proof. intros Heq Hk. subst r1. destruct r2 as [a|c i| |]; cbn [bind]; auto. Qed.

(* ------------------------------------------------------------------------------------------ *)
(** * 1. UTF-8 helpers *)

Definition ascii_all (l : bytes) : bool := forallb (fun b => b <? 128) l.

Lemma ascii_all_app a b : ascii_all a = true -> ascii_all b = true -> ascii_all (a ++ b) = true.
Proof. unfold ascii_all. intros Ha Hb. rewrite forallb_app, Ha, Hb. reflexivity. Qed.

Lemma ascii_digits l : forallb is_digit l = true -> ascii_all l = true.
Proof.
  unfold ascii_all. induction l as [|b l IH]; cbn [forallb]; [reflexivity|].
  intros H. apply andb_prop in H as [Hb Hl]. rewrite (IH Hl). unfold is_digit in Hb.
  replace (b <? 128) with true by lia. reflexivity.
Qed.

(* an ASCII prefix does not matter *)
Lemma utf8_valid_ascii_app a b : ascii_all a = true -> utf8_valid (a ++ b) = utf8_valid b.
Proof.
  unfold ascii_all. induction a as [|x a IH]; cbn [forallb app]; [reflexivity|].
  intros H. apply andb_prop in H as [Hx Ha]. rewrite utf8_valid_cons_ascii by lia. exact (IH Ha).
Qed.

Lemma utf8_valid_tl_ascii b r : b < 128 -> utf8_valid (b :: r) = true -> utf8_valid r = true.
Proof. intros Hb H. rewrite utf8_valid_cons_ascii in H by exact Hb. exact H. Qed.

Lemma ws_byte_ascii b : ws_byte b = true -> b < 128.
Proof. unfold ws_byte. lia. Qed.

Lemma utf8_valid_skipws l : utf8_valid l = true -> utf8_valid (skipws l) = true.
Proof.
  induction l as [|b r IH]; cbn [skipws]; [trivial|]. intros H.
  destruct (ws_byte b) eqn:Hb; [|exact H].
  apply IH. eapply utf8_valid_tl_ascii; [|exact H]. apply ws_byte_ascii, Hb.
Qed.

(* the text of a number literal is ASCII *)
Lemma digits_ok_ascii l : digits_ok l = true -> ascii_all l = true.
Proof. intros H. apply ascii_digits. destruct l as [|b r]; [discriminate H|exact H]. Qed.

Lemma int_ok_ascii l : int_ok l = true -> ascii_all l = true.
Proof.
  intros H. destruct l as [|d r]; [discriminate H|].
  assert (Hc : (d = 48 /\ r = []) \/ (is_digit19 d = true /\ forallb is_digit r = true)).
  { cbn [int_ok] in H. destruct (N.eq_dec d 48) as [->|Hd].
    - destruct r as [|x r']; [left; split; reflexivity|]. right. apply andb_prop in H. exact H.
    - right. destruct d as [|p]; [apply andb_prop in H; exact H|].
      do 6 (destruct p as [p|p|]; try (apply andb_prop in H; exact H)); try (exfalso; apply Hd; reflexivity). }
  destruct Hc as [[-> ->]|[Hd Hr]]; [reflexivity|].
  unfold ascii_all. cbn [forallb]. fold (ascii_all r). rewrite (ascii_digits r Hr).
  unfold is_digit19 in Hd. replace (d <? 128) with true by lia. reflexivity.
Qed.

Lemma render_abs_ascii n : num_ok n = true -> ascii_all (render_abs n) = true.
Proof.
  unfold num_ok, render_abs, render_num. cbn [nneg nint nfrac nexp app]. intros H.
  apply andb_prop in H as [H Hx]. apply andb_prop in H as [Hi Hf].
  apply ascii_all_app; [apply int_ok_ascii, Hi|]. apply ascii_all_app.
  - destruct (nfrac n) as [f|]; [|reflexivity].
    change (46 :: f) with ([46] ++ f). apply ascii_all_app; [reflexivity|apply digits_ok_ascii, Hf].
  - destruct (nexp n) as [[[e sg] ds]|]; [|reflexivity].
    apply andb_prop in Hx as [Hx Hds]. apply andb_prop in Hx as [He Hsg].
    change (e :: (match sg with Some c => [c] | None => [] end) ++ ds)
      with ([e] ++ (match sg with Some c => [c] | None => [] end) ++ ds).
    apply ascii_all_app; [|apply ascii_all_app].
    + unfold ascii_all. cbn [forallb]. replace (e <? 128) with true by lia. reflexivity.
    + destruct sg as [c|]; [|reflexivity]. unfold ascii_all. cbn [forallb]. replace (c <? 128) with true by lia. reflexivity.
    + apply digits_ok_ascii, Hds.
Qed.

(* ------------------------------------------------------------------------------------------ *)
Section StrSource.
  Variable cf : cfg.
  Let Estr := mkEnv RStr TEof cf.
  Let Esl := mkEnv RSlice TEof cf.

  (* the invariant: the unread input is valid UTF-8 *)
  Definition V (s : st) : Prop := utf8_valid (rest s) = true.

  (* ---------------------------------------------------------------------------------------- *)
  (** * 2. Slice reader: the remaining input stays valid UTF-8 *)

  Lemma pw_V s o s1 : V s -> parse_whitespace Esl s = Ok (o, s1) -> V s1 /\ o = hd_error (rest s1).
  Proof.
    intros Hv H. destruct (pw_spec cf s) as (s1' & Hpw & Hr & _).
    fold Esl in Hpw. rewrite Hpw in H. injection H as <- <-.
    split; [|reflexivity]. unfold V. rewrite Hr. apply utf8_valid_skipws, Hv.
  Qed.

  Lemma hd_error_some (l : bytes) b : hd_error l = Some b -> exists r, l = b :: r.
  Proof. destruct l as [|x r]; cbn [hd_error]; intros H; [discriminate H|]. injection H as ->. eauto. Qed.

  (* discarding a peeked ASCII byte *)
  Lemma discard_V s b r : V s -> rest s = b :: r -> b < 128 -> V (discard s).
  Proof.
    unfold V. intros Hv Hr Hb. cbn [discard rest]. rewrite Hr in Hv |- *. cbn [tl].
    eapply utf8_valid_tl_ascii; eassumption.
  Qed.

  Lemma parse_ident_V ident s s' : ascii_all ident = true -> V s -> parse_ident Esl ident s = Ok s' -> V s'.
  Proof.
    unfold V. intros Ha Hv H. apply (parse_ident_inv cf) in H as [Hr _].
    rewrite Hr, utf8_valid_ascii_app in Hv by exact Ha. exact Hv.
  Qed.

  Lemma parse_any_number_V positive s p s' : V s -> parse_any_number Esl positive s = Ok (p, s') -> V s'.
  Proof.
    unfold V. intros Hv H.
    apply (number_sound_plain Esl positive s p s' eq_refl) in H as (n & Hok & _ & Hr & _).
    rewrite Hr, utf8_valid_ascii_app in Hv by (apply render_abs_ascii, Hok). exact Hv.
  Qed.

  Lemma parse_str_sl_V s out bw s' : V s -> parse_str Esl s = Ok (out, bw, s') -> V s'.
  Proof.
    intros Hv H. apply slice_ok_str in H. fold Estr in H.
    exact (proj2 (utf8_safe cf s out bw s' Hv H)).
  Qed.

  Lemma parse_str_sl_out s out bw s' : parse_str Esl s = Ok (out, bw, s') -> utf8_valid out = true.
  Proof.
    unfold parse_str. change (rk Esl) with RSlice. cbv iota. intros H.
    apply bind_ok' in H as ([[out' cp] s1] & _ & H).
    destruct (utf8_valid out') eqn:Ho; [|discriminate H]. injection H as <- _ _. exact Ho.
  Qed.

  Lemma enter_V s s' : V s -> enter Esl s = Ok s' -> V s' /\ rest s' = rest s.
  Proof. unfold V. intros Hv H. apply (enter_inv cf) in H as [Hr _]. rewrite Hr. auto. Qed.

  Lemma leave_V s s' : V s -> leave Esl s = Ok s' -> V s'.
  Proof. unfold V. intros Hv H. apply (leave_inv cf) in H as [Hr _]. rewrite Hr. exact Hv. Qed.

  Lemma skipws_cons_V l b r : utf8_valid l = true -> skipws l = b :: r -> b < 128 -> utf8_valid r = true.
  Proof.
    intros Hv Hs Hb. apply utf8_valid_skipws in Hv. rewrite Hs in Hv. eapply utf8_valid_tl_ascii; eassumption.
  Qed.

  Lemma end_seq_V s s' : V s -> end_seq Esl s = Ok s' -> V s'.
  Proof. unfold V. intros Hv H. apply (end_seq_inv cf) in H as [Hr _]. eapply skipws_cons_V; [exact Hv|exact Hr|lia]. Qed.

  Lemma end_map_V s s' : V s -> end_map Esl s = Ok s' -> V s'.
  Proof. unfold V. intros Hv H. apply (end_map_inv cf) in H as [Hr _]. eapply skipws_cons_V; [exact Hv|exact Hr|lia]. Qed.

  Lemma colon_V s s' : V s -> parse_object_colon Esl s = Ok s' -> V s'.
  Proof. unfold V. intros Hv H. apply (colon_inv cf) in H as [Hr _]. eapply skipws_cons_V; [exact Hv|exact Hr|lia]. Qed.

  Lemma hne_V first s s1 : V s -> has_next_element Esl first s = Ok (Some s1) -> V s1.
  Proof.
    unfold V. intros Hv H. apply (hne_inv cf) in H as (_ & _ & H). destruct first.
    - rewrite H. apply utf8_valid_skipws, Hv.
    - destruct H as (r & Hr & ->). apply utf8_valid_skipws. eapply skipws_cons_V; [exact Hv|exact Hr|lia].
  Qed.

  (* the state returned by has_next_key sits on the opening quote of the key *)
  Lemma hnk_V first s s1 : V s -> has_next_key Esl first s = Ok (Some s1) -> V (discard s1).
  Proof.
    intros Hv H. apply (hnk_inv cf) in H as (_ & r1 & Hr1 & H).
    assert (Hv1 : utf8_valid r1 = true).
    { unfold V in Hv. destruct first.
      - eapply skipws_cons_V; [exact Hv|exact H|lia].
      - destruct H as (r & Hr & Hr'). eapply skipws_cons_V; [|exact Hr'|lia].
        eapply skipws_cons_V; [exact Hv|exact Hr|lia]. }
    unfold V. cbn [discard rest]. rewrite Hr1. exact Hv1.
  Qed.

  Definition post_value (fuel : nat) : Prop := forall s v s', V s -> parse_value fuel Esl s = Ok (v, s') -> V s'.
  Definition post_seq (fuel : nat) : Prop := forall first s vs s', V s -> parse_seq fuel Esl first s = Ok (vs, s') -> V s'.
  Definition post_map (fuel : nat) : Prop := forall first s es s', V s -> parse_map fuel Esl first s = Ok (es, s') -> V s'.

  Lemma lit_ull_ascii : ascii_all lit_ull = true. Proof. reflexivity. Qed.
  Lemma lit_rue_ascii : ascii_all lit_rue = true. Proof. reflexivity. Qed.
  Lemma lit_alse_ascii : ascii_all lit_alse = true. Proof. reflexivity. Qed.

  Lemma post_value_step f : post_seq f -> post_map f -> post_value (S f).
  Proof.
    intros IHs IHm s v s' Hv H. cbn [parse_value] in H.
    apply bind_ok' in H as ([o s1] & Hpw & H).
    destruct (pw_V s o s1 Hv Hpw) as [Hv1 Ho].
    destruct o as [b|]; [|discriminate H].
    symmetry in Ho. apply hd_error_some in Ho as (r & Hr).
    destruct (b =? 110) eqn:E1.
    { apply bind_ok' in H as (s2 & Hid & H). injection H as _ <-.
      eapply parse_ident_V; [exact lit_ull_ascii| |exact Hid]. eapply discard_V; [exact Hv1|exact Hr|lia]. }
    destruct (b =? 116) eqn:E2.
    { apply bind_ok' in H as (s2 & Hid & H). injection H as _ <-.
      eapply parse_ident_V; [exact lit_rue_ascii| |exact Hid]. eapply discard_V; [exact Hv1|exact Hr|lia]. }
    destruct (b =? 102) eqn:E3.
    { apply bind_ok' in H as (s2 & Hid & H). injection H as _ <-.
      eapply parse_ident_V; [exact lit_alse_ascii| |exact Hid]. eapply discard_V; [exact Hv1|exact Hr|lia]. }
    destruct (b =? 45) eqn:E4.
    { apply bind_ok' in H as ([p s2] & Hn & H). injection H as _ <-.
      eapply parse_any_number_V; [|exact Hn]. eapply discard_V; [exact Hv1|exact Hr|lia]. }
    destruct (is_digit b) eqn:E5.
    { apply bind_ok' in H as ([p s2] & Hn & H). injection H as _ <-.
      eapply parse_any_number_V; [exact Hv1|exact Hn]. }
    destruct (b =? 34) eqn:E6.
    { apply bind_ok' in H as ([[str bw] s2] & Hst & H). injection H as _ <-.
      eapply parse_str_sl_V; [|exact Hst]. eapply discard_V; [exact Hv1|exact Hr|lia]. }
    destruct (b =? 91) eqn:E7.
    { apply bind_ok' in H as (s2 & Hen & H). apply bind_ok' in H as ([vs s3] & Hsq & H).
      apply bind_ok' in H as (s4 & Hlv & H). apply bind_ok' in H as (s5 & Hes & H). injection H as _ <-.
      destruct (enter_V s1 s2 Hv1 Hen) as [Hv2 Hr2].
      assert (Hv2' : V (discard s2)). { eapply discard_V; [exact Hv2|rewrite Hr2; exact Hr|lia]. }
      pose proof (IHs true _ _ _ Hv2' Hsq) as Hv3.
      pose proof (leave_V _ _ Hv3 Hlv) as Hv4.
      exact (end_seq_V _ _ Hv4 Hes). }
    destruct (b =? 123) eqn:E8.
    { apply bind_ok' in H as (s2 & Hen & H). apply bind_ok' in H as ([es s3] & Hmp & H).
      apply bind_ok' in H as (s4 & Hlv & H). apply bind_ok' in H as (s5 & Hem & H). injection H as _ <-.
      destruct (enter_V s1 s2 Hv1 Hen) as [Hv2 Hr2].
      assert (Hv2' : V (discard s2)). { eapply discard_V; [exact Hv2|rewrite Hr2; exact Hr|lia]. }
      pose proof (IHm true _ _ _ Hv2' Hmp) as Hv3.
      pose proof (leave_V _ _ Hv3 Hlv) as Hv4.
      exact (end_map_V _ _ Hv4 Hem). }
    discriminate H.
  Qed.

  Lemma post_seq_step f : post_value f -> post_seq f -> post_seq (S f).
  Proof.
    intros IHv IHs first s vs s' Hv H. cbn [parse_seq] in H.
    apply bind_ok' in H as (o & Hne & H). destruct o as [s1|].
    - apply bind_ok' in H as ([v s2] & Hpv & H). apply bind_ok' in H as ([vs' s3] & Hps & H). injection H as _ <-.
      pose proof (hne_V _ _ _ Hv Hne) as Hv1.
      pose proof (IHv _ _ _ Hv1 Hpv) as Hv2.
      exact (IHs false _ _ _ Hv2 Hps).
    - injection H as _ <-. exact Hv.
  Qed.

  Lemma post_map_step f : post_value f -> post_map f -> post_map (S f).
  Proof.
    intros IHv IHm first s es s' Hv H. cbn [parse_map] in H.
    apply bind_ok' in H as (o & Hnk & H). destruct o as [s1|].
    - apply bind_ok' in H as ([[k bw] s2] & Hst & H). apply bind_ok' in H as (s3 & Hco & H).
      apply bind_ok' in H as ([v s4] & Hpv & H). apply bind_ok' in H as ([es' s5] & Hpm & H). injection H as _ <-.
      pose proof (hnk_V _ _ _ Hv Hnk) as Hv1.
      pose proof (parse_str_sl_V _ _ _ _ Hv1 Hst) as Hv2.
      pose proof (colon_V _ _ Hv2 Hco) as Hv3.
      pose proof (IHv _ _ _ Hv3 Hpv) as Hv4.
      exact (IHm false _ _ _ Hv4 Hpm).
    - injection H as _ <-. exact Hv.
  Qed.

  Lemma post_all : forall fuel, post_value fuel /\ post_seq fuel /\ post_map fuel.
  Proof.
    induction fuel as [|f (IHv & IHs & IHm)].
    - split; [|split].
      + intros s v s' _ H. discriminate H.
      + intros first s vs s' _ H. discriminate H.
      + intros first s es s' _ H. discriminate H.
    - split; [|split].
      + apply post_value_step; assumption.
      + apply post_seq_step; assumption.
      + apply post_map_step; assumption.
  Qed.

  Theorem parse_value_sl_V : forall fuel s v s', V s -> parse_value fuel Esl s = Ok (v, s') -> V s'.
  Proof. intros fuel. apply (post_all fuel). Qed.

  (* ---------------------------------------------------------------------------------------- *)
  (** * 3. Estr = Esl *)

  (* everything that is not a string-literal scanner is the same function of the state for the two kinds
     ([is_io] is false for both, [tm] and [cf] coincide): these hold by computation *)
  Lemma parse_whitespace_eq s : parse_whitespace Estr s = parse_whitespace Esl s. Proof. reflexivity. Qed.
  Lemma parse_ident_eq ident s : parse_ident Estr ident s = parse_ident Esl ident s.
  Proof. revert s. induction ident as [|e ident IH]; intros s; [reflexivity|]. cbn [parse_ident].
    apply bind_cong; [reflexivity|]. intros [o s1] _. destruct o as [b|]; [|reflexivity].
    destruct (b =? e); [apply IH|reflexivity]. Qed.
  Lemma parse_any_number_eq positive s : parse_any_number Estr positive s = parse_any_number Esl positive s.
  Proof. reflexivity. Qed.
  Lemma enter_eq s : enter Estr s = enter Esl s. Proof. reflexivity. Qed.
  Lemma leave_eq s : leave Estr s = leave Esl s. Proof. reflexivity. Qed.
  Lemma end_seq_eq s : end_seq Estr s = end_seq Esl s. Proof. reflexivity. Qed.
  Lemma end_map_eq s : end_map Estr s = end_map Esl s. Proof. reflexivity. Qed.
  Lemma colon_eq s : parse_object_colon Estr s = parse_object_colon Esl s. Proof. reflexivity. Qed.
  Lemma hne_eq first s : has_next_element Estr first s = has_next_element Esl first s. Proof. reflexivity. Qed.
  Lemma hnk_eq first s : has_next_key Estr first s = has_next_key Esl first s. Proof. reflexivity. Qed.
  Lemma de_end_eq s : de_end Estr s = de_end Esl s. Proof. reflexivity. Qed.
  Lemma ignore_integer_eq s : ignore_integer Estr s = ignore_integer Esl s. Proof. reflexivity. Qed.
  Lemma ignore_escape_eq s : ignore_escape Estr s = ignore_escape Esl s. Proof. reflexivity. Qed.
  Lemma peek_end_of_value_eq s : peek_end_of_value Estr s = peek_end_of_value Esl s. Proof. reflexivity. Qed.
  Lemma set_failed_eq ss : set_failed Estr ss = set_failed Esl ss. Proof. reflexivity. Qed.

  (* the one place where the kinds differ *)
  Lemma parse_str_eq s : V s -> parse_str Estr s = parse_str Esl s.
  Proof. intros Hv. exact (str_eq_slice cf s Hv). Qed.

  Definition eq_value (fuel : nat) : Prop := forall s, V s -> parse_value fuel Estr s = parse_value fuel Esl s.
  Definition eq_seq (fuel : nat) : Prop := forall first s, V s -> parse_seq fuel Estr first s = parse_seq fuel Esl first s.
  Definition eq_map (fuel : nat) : Prop := forall first s, V s -> parse_map fuel Estr first s = parse_map fuel Esl first s.

  Lemma eq_value_step f : eq_seq f -> eq_map f -> eq_value (S f).
  Proof.
    intros IHs IHm s Hv. cbn [parse_value].
    apply bind_cong; [apply parse_whitespace_eq|]. intros [o s1] Hpw.
    destruct (pw_V s o s1 Hv Hpw) as [Hv1 Ho].
    destruct o as [b|]; [|reflexivity].
    symmetry in Ho. apply hd_error_some in Ho as (r & Hr).
    destruct (b =? 110) eqn:E1. { rewrite parse_ident_eq. reflexivity. }
    destruct (b =? 116) eqn:E2. { rewrite parse_ident_eq. reflexivity. }
    destruct (b =? 102) eqn:E3. { rewrite parse_ident_eq. reflexivity. }
    destruct (b =? 45) eqn:E4. { rewrite parse_any_number_eq. reflexivity. }
    destruct (is_digit b) eqn:E5. { rewrite parse_any_number_eq. reflexivity. }
    destruct (b =? 34) eqn:E6.
    { rewrite parse_str_eq; [reflexivity|]. eapply discard_V; [exact Hv1|exact Hr|lia]. }
    destruct (b =? 91) eqn:E7.
    { apply bind_cong; [apply enter_eq|]. intros s2 Hen.
      destruct (enter_V s1 s2 Hv1 Hen) as [Hv2 Hr2].
      apply bind_cong; [|intros [vs s3] _; reflexivity].
      apply IHs. eapply discard_V; [exact Hv2|rewrite Hr2; exact Hr|lia]. }
    destruct (b =? 123) eqn:E8.
    { apply bind_cong; [apply enter_eq|]. intros s2 Hen.
      destruct (enter_V s1 s2 Hv1 Hen) as [Hv2 Hr2].
      apply bind_cong; [|intros [es s3] _; reflexivity].
      apply IHm. eapply discard_V; [exact Hv2|rewrite Hr2; exact Hr|lia]. }
    reflexivity.
  Qed.

  Lemma eq_seq_step f : eq_value f -> eq_seq f -> eq_seq (S f).
  Proof.
    intros IHv IHs first s Hv. cbn [parse_seq].
    apply bind_cong; [apply hne_eq|]. intros o Hne. destruct o as [s1|]; [|reflexivity].
    pose proof (hne_V _ _ _ Hv Hne) as Hv1.
    apply bind_cong; [apply IHv, Hv1|]. intros [v s2] Hpv.
    pose proof (parse_value_sl_V _ _ _ _ Hv1 Hpv) as Hv2.
    apply bind_cong; [apply IHs, Hv2|]. intros [vs s3] _. reflexivity.
  Qed.

  Lemma eq_map_step f : eq_value f -> eq_map f -> eq_map (S f).
  Proof.
    intros IHv IHm first s Hv. cbn [parse_map].
    apply bind_cong; [apply hnk_eq|]. intros o Hnk. destruct o as [s1|]; [|reflexivity].
    pose proof (hnk_V _ _ _ Hv Hnk) as Hv1.
    apply bind_cong; [apply parse_str_eq, Hv1|]. intros [[k bw] s2] Hst.
    pose proof (parse_str_sl_V _ _ _ _ Hv1 Hst) as Hv2.
    apply bind_cong; [apply colon_eq|]. intros s3 Hco.
    pose proof (colon_V _ _ Hv2 Hco) as Hv3.
    apply bind_cong; [apply IHv, Hv3|]. intros [v s4] Hpv.
    pose proof (parse_value_sl_V _ _ _ _ Hv3 Hpv) as Hv4.
    apply bind_cong; [apply IHm, Hv4|]. intros [es s5] _. reflexivity.
  Qed.

  Lemma eq_all : forall fuel, eq_value fuel /\ eq_seq fuel /\ eq_map fuel.
  Proof.
    induction fuel as [|f (IHv & IHs & IHm)].
    - split; [|split].
      + intros s _. reflexivity.
      + intros first s _. reflexivity.
      + intros first s _. reflexivity.
    - split; [|split].
      + apply eq_value_step; assumption.
      + apply eq_seq_step; assumption.
      + apply eq_map_step; assumption.
  Qed.

  Theorem parse_value_str_slice_E : forall fuel s, V s -> parse_value fuel Estr s = parse_value fuel Esl s.
  Proof. intros fuel. apply (eq_all fuel). Qed.

  Theorem from_input_str_slice_E : forall bs, utf8_valid bs = true -> from_input Estr bs = from_input Esl bs.
  Proof.
    intros bs Hv. unfold from_input.
    apply bind_cong; [apply parse_value_str_slice_E; exact Hv|]. intros [v s1] _.
    rewrite de_end_eq. reflexivity.
  Qed.

  (* ---------------------------------------------------------------------------------------- *)
  (** * 4. The skip scanner: no hypothesis needed, ignore_str never validates *)

  Lemma slice_ignore_loop_eq : forall fuel s, slice_ignore_loop fuel Estr s = slice_ignore_loop fuel Esl s.
  Proof.
    induction fuel as [|f IH]; intros s; [reflexivity|]. cbn [slice_ignore_loop]. cbv zeta.
    destruct (rest (advance (esc_span true (rest s)) s)) as [|b r]; [reflexivity|].
    destruct (b =? 34); [reflexivity|]. destruct (b =? 92); [|reflexivity].
    apply bind_cong; [apply ignore_escape_eq|]. intros s2 _. apply IH.
  Qed.

  Lemma ignore_str_eq s : ignore_str Estr s = ignore_str Esl s.
  Proof. unfold ignore_str. change (rk Estr) with RStr. change (rk Esl) with RSlice. cbv iota. apply slice_ignore_loop_eq. Qed.

  Lemma ig_eq : forall fuel,
    (forall stk s, ig_outer fuel Estr stk s = ig_outer fuel Esl stk s) /\
    (forall accept_comma frame stk s,
       ig_inner fuel Estr accept_comma frame stk s = ig_inner fuel Esl accept_comma frame stk s).
  Proof.
    induction fuel as [|f (IHo & IHi)].
    - split; reflexivity.
    - split.
      + intros stk s. cbn [ig_outer]. cbv zeta.
        apply bind_cong; [apply parse_whitespace_eq|]. intros [o s1] _.
        destruct o as [b|]; [|reflexivity].
        assert (Hsc : forall r1 r2 : res st, r1 = r2 ->
          bind r1 (fun s2 => match stk with [] => Ok s2 | frame :: stk' => ig_inner f Estr true frame stk' s2 end)
          = bind r2 (fun s2 => match stk with [] => Ok s2 | frame :: stk' => ig_inner f Esl true frame stk' s2 end)).
        { intros r1 r2 Hr. apply bind_cong; [exact Hr|]. intros s2 _. destruct stk as [|fr stk']; [reflexivity|apply IHi]. }
        destruct (b =? 110). { apply Hsc, parse_ident_eq. }
        destruct (b =? 116). { apply Hsc, parse_ident_eq. }
        destruct (b =? 102). { apply Hsc, parse_ident_eq. }
        destruct (b =? 45). { apply Hsc, ignore_integer_eq. }
        destruct (is_digit b). { apply Hsc, ignore_integer_eq. }
        destruct (b =? 34). { apply Hsc, ignore_str_eq. }
        destruct ((b =? 91) || (b =? 123)); [apply IHi|reflexivity].
      + intros accept_comma frame stk s. cbn [ig_inner]. cbv zeta.
        assert (Hco : forall s2,
          (if frame =? 123 then
             let* (o, s3) := parse_whitespace Estr s2 in
             match o with
             | None => peek_error Estr s3 EofWhileParsingObject
             | Some q =>
               if q =? 34 then
                 let* s4 := ignore_str Estr (discard s3) in
                 let* (o2, s5) := parse_whitespace Estr s4 in
                 match o2 with
                 | None => peek_error Estr s5 EofWhileParsingObject
                 | Some c => if c =? 58 then ig_outer f Estr (frame :: stk) (discard s5) else peek_error Estr s5 ExpectedColon
                 end
               else peek_error Estr s3 KeyMustBeAString
             end
           else ig_outer f Estr (frame :: stk) s2)
          = (if frame =? 123 then
             let* (o, s3) := parse_whitespace Esl s2 in
             match o with
             | None => peek_error Esl s3 EofWhileParsingObject
             | Some q =>
               if q =? 34 then
                 let* s4 := ignore_str Esl (discard s3) in
                 let* (o2, s5) := parse_whitespace Esl s4 in
                 match o2 with
                 | None => peek_error Esl s5 EofWhileParsingObject
                 | Some c => if c =? 58 then ig_outer f Esl (frame :: stk) (discard s5) else peek_error Esl s5 ExpectedColon
                 end
               else peek_error Esl s3 KeyMustBeAString
             end
           else ig_outer f Esl (frame :: stk) s2)).
        { intros s2. destruct (frame =? 123); [|apply IHo].
          apply bind_cong; [apply parse_whitespace_eq|]. intros [o s3] _.
          destruct o as [q|]; [|reflexivity]. destruct (q =? 34); [|reflexivity].
          apply bind_cong; [apply ignore_str_eq|]. intros s4 _.
          apply bind_cong; [apply parse_whitespace_eq|]. intros [o2 s5] _.
          destruct o2 as [c|]; [|reflexivity]. destruct (c =? 58); [apply IHo|reflexivity]. }
        apply bind_cong; [apply parse_whitespace_eq|]. intros [o s1] _.
        destruct o as [b|]; [|reflexivity].
        destruct ((b =? 44) && accept_comma); [apply Hco|].
        destruct (((b =? 93) && (frame =? 91)) || ((b =? 125) && (frame =? 123))).
        { destruct stk as [|fr stk']; [reflexivity|apply IHi]. }
        destruct accept_comma; [reflexivity|apply Hco].
  Qed.

  Theorem ignore_value_str_slice_E : forall s, ignore_value Estr s = ignore_value Esl s.
  Proof. intros s. unfold ignore_value. apply (ig_eq (ignore_fuel s)). Qed.

  Theorem ignored_from_input_str_slice_E : forall bs, ignored_from_input Estr bs = ignored_from_input Esl bs.
  Proof.
    intros bs. unfold ignored_from_input. rewrite ignore_value_str_slice_E.
    apply bind_cong; [reflexivity|]. intros s1 _. rewrite de_end_eq. reflexivity.
  Qed.

  Theorem raw_value_str_slice_E : forall s, raw_value Estr s = raw_value Esl s.
  Proof.
    intros s. unfold raw_value. apply bind_cong; [apply parse_whitespace_eq|]. intros [o s0] _.
    rewrite ignore_value_str_slice_E. reflexivity.
  Qed.

  (* ---------------------------------------------------------------------------------------- *)
  (** * 5. Stream iteration *)

  Lemma value_item_eq s : V s -> value_item Estr s = value_item Esl s.
  Proof. intros Hv. unfold value_item. apply parse_value_str_slice_E, Hv. Qed.

  Lemma ignored_item_eq s : ignored_item Estr s = ignored_item Esl s.
  Proof. unfold ignored_item. rewrite ignore_value_str_slice_E. reflexivity. Qed.

  (* the skip scanner never looks at `rk`, so no invariant is needed for IgnoredAny items *)
  Lemma stream_next_ignored ss : stream_next Estr ignored_item ss = stream_next Esl ignored_item ss.
  Proof.
    unfold stream_next. change (is_io Estr) with false. change (is_io Esl) with false. cbn [andb]. cbv iota.
    rewrite parse_whitespace_eq.
    destruct (parse_whitespace Esl (ss_st ss)) as [[[b|] s1]|c i| |]; try reflexivity.
    rewrite ignored_item_eq.
    destruct (ignored_item Esl s1) as [[v s2]|c i| |]; try reflexivity.
  Qed.

  Lemma peek_end_of_value_V s s3 : V s -> peek_end_of_value Esl s = Ok s3 -> V s3.
  Proof.
    unfold V, peek_end_of_value, peek, at_end. change (tm Esl) with TEof. cbv iota.
    destruct (rest s) as [|b r]; cbn [bind]; intros Hv H.
    - injection H as <-. reflexivity.
    - destruct (is_delim b); [|discriminate H]. injection H as <-. cbn [rest]. exact Hv.
  Qed.

  Lemma set_failed_V ss : V (ss_st (set_failed Esl ss)).
  Proof. unfold set_failed. change (is_io Esl) with false. cbv iota. reflexivity. Qed.

  Lemma stream_next_value ss : V (ss_st ss) ->
    stream_next Estr value_item ss = stream_next Esl value_item ss /\
    V (ss_st (snd (stream_next Esl value_item ss))).
  Proof.
    intros Hv. unfold stream_next. change (is_io Estr) with false. change (is_io Esl) with false. cbn [andb]. cbv iota.
    rewrite parse_whitespace_eq.
    destruct (parse_whitespace Esl (ss_st ss)) as [[o s1]|c i| |] eqn:Hpw.
    2-4: (split; [reflexivity|apply set_failed_V]).
    destruct (pw_V _ _ _ Hv Hpw) as [Hv1 _].
    destruct o as [b|]; [|split; [reflexivity|exact Hv1]].
    rewrite (value_item_eq s1 Hv1).
    destruct (value_item Esl s1) as [[v s2]|c i| |] eqn:Hit.
    2-4: (split; [reflexivity|apply set_failed_V]).
    assert (Hv2 : V s2). { unfold value_item in Hit. exact (parse_value_sl_V _ _ _ _ Hv1 Hit). }
    destruct ((b =? 91) || (b =? 34) || (b =? 123)); [split; [reflexivity|exact Hv2]|].
    rewrite peek_end_of_value_eq.
    destruct (peek_end_of_value Esl s2) as [s3|c i| |] eqn:Hpe.
    - split; [reflexivity|]. exact (peek_end_of_value_V _ _ Hv2 Hpe).
    - destruct c; (split; [reflexivity|first [exact Hv2|apply set_failed_V]]).
    - split; [reflexivity|exact Hv2].
    - split; [reflexivity|exact Hv2].
  Qed.

  Theorem stream_run_value_str_slice : forall n ss, V (ss_st ss) ->
    stream_run n Estr value_item ss = stream_run n Esl value_item ss.
  Proof.
    induction n as [|n IH]; intros ss Hv; [reflexivity|]. cbn [stream_run].
    destruct (stream_next_value ss Hv) as [Heq Hv'']. rewrite Heq.
    destruct (stream_next Esl value_item ss) as [it ss']. cbn [snd] in Hv''.
    f_equal. apply IH, Hv''.
  Qed.

  Theorem stream_run_ignored_str_slice : forall n ss,
    stream_run n Estr ignored_item ss = stream_run n Esl ignored_item ss.
  Proof.
    induction n as [|n IH]; intros ss; [reflexivity|]. cbn [stream_run].
    rewrite stream_next_ignored.
    destruct (stream_next Esl ignored_item ss) as [it ss']. f_equal. apply IH.
  Qed.

End StrSource.

(* ------------------------------------------------------------------------------------------ *)
(** * 6. Every string in a parsed Value is valid UTF-8 *)

Fixpoint value_strings_utf8 (v : value) : bool :=
  match v with
  | VStr s => utf8_valid s
  | VArr l => forallb value_strings_utf8 l
  | VObj l => forallb (fun kv => let '(k, v') := kv in utf8_valid k && value_strings_utf8 v') l
  | _ => true
  end.

Definition entry_utf8 (kv : bytes * value) : bool := let '(k, v') := kv in utf8_valid k && value_strings_utf8 v'.

Lemma bt_insert_utf8 k v m : entry_utf8 (k, v) = true -> forallb entry_utf8 m = true ->
  forallb entry_utf8 (bt_insert k v m) = true.
Proof.
  intros Hkv. induction m as [|[k' v'] m IH]; cbn [bt_insert forallb]; intros Hm.
  - rewrite Hkv. reflexivity.
  - apply andb_prop in Hm as [H1 H2].
    destruct (beq_bytes k k'); [cbn [forallb]; rewrite Hkv, H2; reflexivity|].
    destruct (bytes_ltb k k'); cbn [forallb].
    + rewrite Hkv, H1, H2. reflexivity.
    + rewrite H1, (IH H2). reflexivity.
Qed.

Lemma ix_insert_utf8 k v m : entry_utf8 (k, v) = true -> forallb entry_utf8 m = true ->
  forallb entry_utf8 (ix_insert k v m) = true.
Proof.
  intros Hkv. induction m as [|[k' v'] m IH]; cbn [ix_insert forallb]; intros Hm.
  - rewrite Hkv. reflexivity.
  - apply andb_prop in Hm as [H1 H2].
    destruct (beq_bytes k k'); cbn [forallb].
    + rewrite H2, Bool.andb_true_r. cbn [entry_utf8] in Hkv, H1 |- *.
      apply andb_prop in Hkv as [_ Hv]. apply andb_prop in H1 as [Hk' _]. rewrite Hk', Hv. reflexivity.
    + rewrite H1, (IH H2). reflexivity.
Qed.

Lemma map_of_entries_utf8 po es : forallb entry_utf8 es = true -> forallb entry_utf8 (map_of_entries po es) = true.
Proof.
  unfold map_of_entries.
  assert (Hgen : forall m, forallb entry_utf8 m = true -> forallb entry_utf8 es = true ->
    forallb entry_utf8 (fold_left (fun m kv => map_insert po (fst kv) (snd kv) m) es m) = true).
  { induction es as [|[k v] es IH]; intros m Hm Hes; cbn [fold_left]; [exact Hm|].
    cbn [forallb] in Hes. apply andb_prop in Hes as [Hkv Hes]. apply IH; [|exact Hes].
    cbn [fst snd]. unfold map_insert. destruct po; [apply ix_insert_utf8|apply bt_insert_utf8]; assumption. }
  intros Hes. apply Hgen; [reflexivity|exact Hes].
Qed.

Section Strings.
  Variable cf : cfg.
  Let Esl := mkEnv RSlice TEof cf.

  Definition su_value (fuel : nat) : Prop := forall s v s', parse_value fuel Esl s = Ok (v, s') -> value_strings_utf8 v = true.
  Definition su_seq (fuel : nat) : Prop := forall first s vs s',
    parse_seq fuel Esl first s = Ok (vs, s') -> forallb value_strings_utf8 vs = true.
  Definition su_map (fuel : nat) : Prop := forall first s es s',
    parse_map fuel Esl first s = Ok (es, s') -> forallb entry_utf8 es = true.

  Lemma su_all : forall fuel, su_value fuel /\ su_seq fuel /\ su_map fuel.
  Proof.
    induction fuel as [|f (IHv & IHs & IHm)].
    - split; [|split].
      + intros s v s' H. discriminate H.
      + intros first s vs s' H. discriminate H.
      + intros first s es s' H. discriminate H.
    - split; [|split].
      + intros s v s' H. cbn [parse_value] in H.
        apply bind_ok' in H as ([o s1] & _ & H). destruct o as [b|]; [|discriminate H].
        destruct (b =? 110). { apply bind_ok' in H as (s2 & _ & H). injection H as <- _. reflexivity. }
        destruct (b =? 116). { apply bind_ok' in H as (s2 & _ & H). injection H as <- _. reflexivity. }
        destruct (b =? 102). { apply bind_ok' in H as (s2 & _ & H). injection H as <- _. reflexivity. }
        assert (Hnum : forall p, value_strings_utf8 (visit_number_cfg Esl p) = true).
        { intros p. unfold visit_number_cfg. destruct (arbitrary_precision (Read.cf Esl)); [reflexivity|].
          destruct p as [x|x|x|x]; cbn [visit_number]; try reflexivity. destruct (b64_is_finite x); reflexivity. }
        destruct (b =? 45). { apply bind_ok' in H as ([p s2] & _ & H). injection H as <- _. apply Hnum. }
        destruct (is_digit b). { apply bind_ok' in H as ([p s2] & _ & H). injection H as <- _. apply Hnum. }
        destruct (b =? 34).
        { apply bind_ok' in H as ([[str bw] s2] & Hst & H). injection H as <- _.
          cbn [value_strings_utf8]. exact (parse_str_sl_out cf _ _ _ _ Hst). }
        destruct (b =? 91).
        { apply bind_ok' in H as (s2 & _ & H). apply bind_ok' in H as ([vs s3] & Hsq & H).
          apply bind_ok' in H as (s4 & _ & H). apply bind_ok' in H as (s5 & _ & H). injection H as <- _.
          cbn [value_strings_utf8]. exact (IHs _ _ _ _ Hsq). }
        destruct (b =? 123).
        { apply bind_ok' in H as (s2 & _ & H). apply bind_ok' in H as ([es s3] & Hmp & H).
          apply bind_ok' in H as (s4 & _ & H). apply bind_ok' in H as (s5 & _ & H). injection H as <- _.
          cbn [value_strings_utf8]. apply (map_of_entries_utf8 _ es). exact (IHm _ _ _ _ Hmp). }
        discriminate H.
      + intros first s vs s' H. cbn [parse_seq] in H.
        apply bind_ok' in H as (o & _ & H). destruct o as [s1|]; [|injection H as <- _; reflexivity].
        apply bind_ok' in H as ([v s2] & Hpv & H). apply bind_ok' in H as ([vs' s3] & Hps & H). injection H as <- _.
        cbn [forallb]. rewrite (IHv _ _ _ Hpv), (IHs _ _ _ _ Hps). reflexivity.
      + intros first s es s' H. cbn [parse_map] in H.
        apply bind_ok' in H as (o & _ & H). destruct o as [s1|]; [|injection H as <- _; reflexivity].
        apply bind_ok' in H as ([[k bw] s2] & Hst & H). apply bind_ok' in H as (s3 & _ & H).
        apply bind_ok' in H as ([v s4] & Hpv & H). apply bind_ok' in H as ([es' s5] & Hpm & H). injection H as <- _.
        cbn [forallb entry_utf8]. rewrite (parse_str_sl_out cf _ _ _ _ Hst), (IHv _ _ _ Hpv), (IHm _ _ _ _ Hpm). reflexivity.
  Qed.

  Theorem from_input_slice_strings_utf8_E : forall bs v, from_input Esl bs = Ok v -> value_strings_utf8 v = true.
  Proof.
    intros bs v H. unfold from_input in H. apply bind_ok' in H as ([v1 s1] & Hpv & H).
    apply bind_ok' in H as (s2 & _ & H). injection H as <-.
    exact (proj1 (su_all (value_fuel bs)) _ _ _ Hpv).
  Qed.
End Strings.

(* ------------------------------------------------------------------------------------------ *)
(** * 7. Main statements *)

Theorem parse_value_str_slice : forall cf fuel s, utf8_valid (rest s) = true ->
  parse_value fuel (mkEnv RStr TEof cf) s = parse_value fuel (mkEnv RSlice TEof cf) s.
Proof. intros cf fuel s Hv. apply parse_value_str_slice_E. exact Hv. Qed.

(* a successful parse leaves valid UTF-8 behind (so does the &str source, by the equality above) *)
Theorem parse_value_rest_utf8 : forall cf fuel s v s', utf8_valid (rest s) = true ->
  parse_value fuel (mkEnv RSlice TEof cf) s = Ok (v, s') -> utf8_valid (rest s') = true.
Proof. intros cf fuel s v s' Hv H. exact (parse_value_sl_V cf fuel s v s' Hv H). Qed.

Theorem from_input_str_slice : forall cf bs, utf8_valid bs = true ->
  from_input (mkEnv RStr TEof cf) bs = from_input (mkEnv RSlice TEof cf) bs.
Proof. intros cf bs Hv. apply from_input_str_slice_E. exact Hv. Qed.

(* the skip scanner does not depend on the kind at all *)
Theorem ignore_value_str_slice : forall cf s,
  ignore_value (mkEnv RStr TEof cf) s = ignore_value (mkEnv RSlice TEof cf) s.
Proof. intros cf s. apply ignore_value_str_slice_E. Qed.

Theorem ignored_from_input_str_slice : forall cf bs, utf8_valid bs = true ->
  ignored_from_input (mkEnv RStr TEof cf) bs = ignored_from_input (mkEnv RSlice TEof cf) bs.
Proof. intros cf bs _. apply ignored_from_input_str_slice_E. Qed.

Theorem raw_value_str_slice : forall cf s, utf8_valid (rest s) = true ->
  raw_value (mkEnv RStr TEof cf) s = raw_value (mkEnv RSlice TEof cf) s.
Proof. intros cf s _. apply raw_value_str_slice_E. Qed.

(* general form: any stream state whose unread input is valid UTF-8 *)
Theorem stream_run_str_slice_gen : forall cf n itemp ss, (itemp = value_item \/ itemp = ignored_item) ->
  utf8_valid (rest (ss_st ss)) = true ->
  stream_run n (mkEnv RStr TEof cf) itemp ss = stream_run n (mkEnv RSlice TEof cf) itemp ss.
Proof.
  intros cf n itemp ss [-> | ->] Hv.
  - apply stream_run_value_str_slice. exact Hv.
  - apply stream_run_ignored_str_slice.
Qed.

Theorem stream_run_str_slice : forall cf n itemp bs, (itemp = value_item \/ itemp = ignored_item) -> utf8_valid bs = true ->
  stream_run n (mkEnv RStr TEof cf) itemp (stream_init bs) = stream_run n (mkEnv RSlice TEof cf) itemp (stream_init bs).
Proof. intros cf n itemp bs Hi Hv. apply stream_run_str_slice_gen; [exact Hi|exact Hv]. Qed.

(* the slice reader validates every string it returns ... *)
Theorem from_input_slice_strings_utf8 : forall cf bs v,
  from_input (mkEnv RSlice TEof cf) bs = Ok v -> value_strings_utf8 v = true.
Proof. intros cf bs v H. exact (from_input_slice_strings_utf8_E cf bs v H). Qed.

(* ... hence on a &str (valid UTF-8) the unchecked source returns only valid UTF-8 Strings: from_utf8_unchecked is sound *)
Theorem from_input_str_strings_utf8 : forall cf bs v, utf8_valid bs = true ->
  from_input (mkEnv RStr TEof cf) bs = Ok v -> value_strings_utf8 v = true.
Proof.
  intros cf bs v Hv H. rewrite (from_input_str_slice cf bs Hv) in H.
  exact (from_input_slice_strings_utf8 cf bs v H).
Qed.

(* the hypothesis cannot be dropped: on ill-formed input the &str model returns the bytes unchecked *)
Example from_input_str_slice_needs_utf8 :
  let c := mkCfg false false false false in
  let bs := [34; 255; 34] in
  from_input (mkEnv RStr TEof c) bs = Ok (VStr [255]) /\
  from_input (mkEnv RSlice TEof c) bs = Err InvalidUnicodeCodePoint 3.
Proof. vm_compute. split; reflexivity. Qed.

Print Assumptions from_input_str_slice.
Print Assumptions parse_value_str_slice.
Print Assumptions parse_value_rest_utf8.
Print Assumptions ignore_value_str_slice.
Print Assumptions ignored_from_input_str_slice.
Print Assumptions raw_value_str_slice.
Print Assumptions stream_run_str_slice_gen.
Print Assumptions stream_run_str_slice.
Print Assumptions from_input_slice_strings_utf8.
Print Assumptions from_input_str_strings_utf8.
Print Assumptions from_input_str_slice_needs_utf8.
