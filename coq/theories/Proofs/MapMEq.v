(* Proofs/MapMEq.v — C17, equality and hashing: Value == ignores the order of object entries at every depth,
   is an equivalence on well-formed values, equal values make the same Hasher calls, and sort_all_objects
   sorts every depth without changing ==. *)
From SJ Require Import Base.Bytes Base.FloatB Model.Value Spec.Dict Model.MapM Proofs.MapMBase.
From Coq Require Import Sorting.Permutation Sorting.Sorted Lia.
From Flocq Require Import Core BinarySingleNaN.
Open Scope N_scope.

Notation keys := (map fst).

(* ------------------------------------------------------------------ well-formed values *)
(* what every Value built through the API satisfies: object keys are distinct (ascending in the default
   configuration) at every depth, floats are finite (Number::from_f64 refuses NaN and infinities) *)
Definition keys_ok (po : bool) (ks : list bytes) : Prop := if po then NoDup ks else ascending ks.

Fixpoint wfv (po : bool) (v : value) : Prop :=
  match v with
  | VNum (NFloat f) => is_finite f = true
  | VArr l => (fix all (l : list value) : Prop := match l with [] => True | x :: r => wfv po x /\ all r end) l
  | VObj m => keys_ok po (keys m) /\
              (fix all (m : list (bytes * value)) : Prop := match m with [] => True | (_, x) :: r => wfv po x /\ all r end) m
  | _ => True
  end.

Lemma wfv_arr : forall po l, wfv po (VArr l) <-> Forall (wfv po) l.
Proof.
  intros po l. cbn [wfv]. induction l as [|x l IH].
  - split; constructor.
  - split; intro H.
    + destruct H as [H1 H2]. constructor; [exact H1|apply IH; exact H2].
    + inversion H; subst. split; [assumption|apply IH; assumption].
Qed.
Lemma wfv_obj : forall po m, wfv po (VObj m) <-> keys_ok po (keys m) /\ Forall (fun kv => wfv po (snd kv)) m.
Proof.
  intros po m. cbn [wfv]. apply and_iff_compat_l. induction m as [|[k x] m IH].
  - split; constructor.
  - split; intro H.
    + destruct H as [H1 H2]. constructor; [exact H1|apply IH; exact H2].
    + inversion H; subst. split; [assumption|apply IH; assumption].
Qed.
Lemma keys_ok_NoDup : forall po ks, keys_ok po ks -> NoDup ks.
Proof. intros po ks H. destruct po; [exact H|apply ascending_NoDup; exact H]. Qed.

(* induction over values with the nested lists *)
Lemma value_ind2 : forall P : value -> Prop,
  P VNull -> (forall b, P (VBool b)) -> (forall n, P (VNum n)) -> (forall s, P (VStr s)) ->
  (forall l, Forall P l -> P (VArr l)) ->
  (forall m, Forall (fun kv => P (snd kv)) m -> P (VObj m)) ->
  forall v, P v.
Proof.
  intros P Hn Hb Hnum Hs Ha Ho. fix IH 1. intro v. destruct v as [|b|n|s|l|m].
  - exact Hn. - apply Hb. - apply Hnum. - apply Hs.
  - apply Ha. induction l as [|x l IHl]; constructor; [apply IH|exact IHl].
  - apply Ho. induction m as [|[k x] m IHm]; constructor; [apply IH|exact IHm].
Qed.

(* ------------------------------------------------------------------ the nested loops of veq / hash_feed / sort_all, named *)
Fixpoint all2 {A B} (f : A -> B -> bool) (la : list A) (lb : list B) : bool :=
  match la, lb with
  | [], [] => true
  | x :: la', y :: lb' => f x y && all2 f la' lb'
  | _, _ => false
  end.
Definition ent_eq (po : bool) (x y : bytes * value) : bool := beq_bytes (fst x) (fst y) && veq po (snd x) (snd y).
Definition found_eq (po : bool) (mb : list (bytes * value)) (kv : bytes * value) : bool :=
  match dict_get (fst kv) mb with Some w => veq po (snd kv) w | None => false end.

Lemma veq_arr : forall po la lb, veq po (VArr la) (VArr lb) = all2 (veq po) la lb.
Proof. intros po la. cbn [veq]. induction la as [|x la IH]; intros [|y lb]; cbn [all2]; auto. rewrite IH. reflexivity. Qed.
Lemma veq_obj_def : forall ma mb,
  veq false (VObj ma) (VObj mb) = Nat.eqb (length ma) (length mb) && all2 (ent_eq false) ma mb.
Proof.
  intros ma mb. cbn [veq]. f_equal. revert mb. induction ma as [|[k v] ma IH]; intros [|[k' w] mb]; cbn [all2]; auto.
  rewrite IH. unfold ent_eq. cbn [fst snd]. reflexivity.
Qed.
Lemma veq_obj_po : forall ma mb,
  veq true (VObj ma) (VObj mb) = Nat.eqb (length ma) (length mb) && forallb (found_eq true mb) ma.
Proof.
  intros ma mb. cbn [veq]. f_equal. induction ma as [|[k v] ma IH]; cbn [forallb]; auto.
  rewrite IH. unfold found_eq. cbn [fst snd]. rewrite al_get_dict_get. reflexivity.
Qed.

Definition per_entry (po : bool) (m : list (bytes * value)) : list (bytes * list hcall) :=
  map (fun kv => (fst kv, hash_str (fst kv) ++ hash_feed po (snd kv))) m.
Lemma hash_arr : forall po l,
  hash_feed po (VArr l) = HIsize 4 :: HUsize (N.of_nat (length l)) :: flat_map (hash_feed po) l.
Proof. intros po l. reflexivity. Qed.
Lemma hash_obj : forall po m,
  hash_feed po (VObj m) = HIsize 5 :: HUsize (N.of_nat (length m)) ::
                          concat (map snd (if po then sort_by_key (per_entry po m) else per_entry po m)).
Proof.
  intros po m. cbn [hash_feed]. do 2 f_equal.
  assert (E : (fix go (l : list (bytes * value)) : list (bytes * list hcall) :=
                 match l with [] => [] | (k, x) :: r => (k, hash_str k ++ hash_feed po x) :: go r end) m = per_entry po m).
  { unfold per_entry. induction m as [|[k x] m IH]; cbn [map fst snd]; auto. rewrite IH. reflexivity. }
  rewrite E. reflexivity.
Qed.
Definition map_vals (f : value -> value) (m : list (bytes * value)) : list (bytes * value) :=
  map (fun kv => (fst kv, f (snd kv))) m.
Lemma sort_all_obj : forall m, sort_all (VObj m) = VObj (sort_by_key (map_vals sort_all m)).
Proof.
  intro m. cbn [sort_all]. do 2 f_equal. unfold map_vals. induction m as [|[k x] m IH]; cbn [map fst snd]; auto.
  rewrite IH. reflexivity.
Qed.

(* ------------------------------------------------------------------ numbers *)
Lemma Beqb_true_cases : forall x y : b64, Beqb x y = true ->
  (exists s s', x = B754_zero s /\ y = B754_zero s') \/
  (exists s, x = B754_infinity s /\ y = B754_infinity s) \/
  (exists s m e p p', x = B754_finite s m e p /\ y = B754_finite s m e p').
Proof.
  intros x y H. unfold Beqb, SpecFloat.SFeqb in H.
  destruct x as [s| s| |s m e p]; destruct y as [s'|s'| |s' m' e' p']; cbn in H;
    try discriminate; try (destruct s; discriminate); try (destruct s'; discriminate).
  - left. eauto.
  - right. left. destruct s, s'; try discriminate; eauto.
  - right. right.
    destruct s, s'; try discriminate;
      destruct (Z.compare e e') eqn:Ce; try discriminate;
      destruct (Pos.compare_cont Eq m m') eqn:Cm; try discriminate;
      apply Z.compare_eq in Ce; apply Pos.compare_eq in Cm; subst; eauto 10.
Qed.
Lemma Beqb_refl_finite : forall x : b64, is_finite x = true -> Beqb x x = true.
Proof.
  intros x F. unfold Beqb, SpecFloat.SFeqb. destruct x as [s|s| |s m e p]; cbn in *; try discriminate; auto.
  rewrite Z.compare_refl. rewrite Pos.compare_cont_refl. destruct s; reflexivity.
Qed.
Lemma Beqb_sym_true : forall x y : b64, is_finite x = true -> is_finite y = true -> Beqb x y = true -> Beqb y x = true.
Proof.
  intros x y Fx Fy H. destruct (Beqb_true_cases x y H) as [[s [s' [-> ->]]]|[[s [-> ->]]|[s [m [e [p [p' [-> ->]]]]]]]].
  - reflexivity.
  - discriminate.
  - unfold Beqb, SpecFloat.SFeqb. cbn. rewrite Z.compare_refl, Pos.compare_cont_refl. destruct s; reflexivity.
Qed.
Lemma Beqb_trans_true : forall x y z : b64, is_finite x = true -> is_finite y = true -> is_finite z = true ->
  Beqb x y = true -> Beqb y z = true -> Beqb x z = true.
Proof.
  intros x y z Fx Fy Fz H1 H2.
  destruct (Beqb_true_cases x y H1) as [[s [s' [-> ->]]]|[[s [-> ->]]|[s [m [e [p [p' [-> ->]]]]]]]];
  destruct (Beqb_true_cases _ z H2) as [[t [t' [E1 ->]]]|[[t [E1 ->]]|[t [m2 [e2 [q [q' [E1 ->]]]]]]]]; try discriminate.
  - reflexivity.
  - inversion E1; subst. unfold Beqb, SpecFloat.SFeqb. cbn. rewrite Z.compare_refl, Pos.compare_cont_refl. destruct t; reflexivity.
Qed.

Lemma num_eq_refl : forall n, wfv true (VNum n) -> num_eq n n = true.
Proof.
  intros [x|z|f|s] W; cbn in *.
  - apply N.eqb_refl. - apply Z.eqb_refl. - apply Beqb_refl_finite. exact W. - apply beq_bytes_refl.
Qed.
Lemma num_eq_sym_true : forall a b, wfv true (VNum a) -> wfv true (VNum b) -> num_eq a b = true -> num_eq b a = true.
Proof.
  intros [x|z|f|s] [x'|z'|f'|s'] Wa Wb H; cbn in *; try discriminate.
  - rewrite N.eqb_sym. exact H. - rewrite Z.eqb_sym. exact H.
  - apply Beqb_sym_true; assumption.
  - rewrite beq_bytes_sym. exact H.
Qed.
Lemma num_eq_trans_true : forall a b c, wfv true (VNum a) -> wfv true (VNum b) -> wfv true (VNum c) ->
  num_eq a b = true -> num_eq b c = true -> num_eq a c = true.
Proof.
  intros [x|z|f|s] [x'|z'|f'|s'] [x''|z''|f''|s''] Wa Wb Wc H1 H2; cbn in *; try discriminate.
  - apply N.eqb_eq in H1. apply N.eqb_eq in H2. apply N.eqb_eq. congruence.
  - apply Z.eqb_eq in H1. apply Z.eqb_eq in H2. apply Z.eqb_eq. congruence.
  - apply (Beqb_trans_true f f' f''); assumption.
  - apply beq_bytes_true_iff in H1. apply beq_bytes_true_iff in H2. apply beq_bytes_true_iff. congruence.
Qed.
(* src/number.rs: equal numbers make the same Hasher calls (in particular +0.0 and -0.0) *)
Lemma num_eq_hash : forall a b, num_eq a b = true -> hash_num a = hash_num b.
Proof.
  intros [x|z|f|s] [x'|z'|f'|s'] H; cbn in *; try discriminate.
  - apply N.eqb_eq in H. congruence.
  - apply Z.eqb_eq in H. congruence.
  - destruct (Beqb_true_cases f f' H) as [[t [t' [-> ->]]]|[[t [-> ->]]|[t [m [e [p [p' [-> ->]]]]]]]]; reflexivity.
  - apply beq_bytes_true_iff in H. congruence.
Qed.
