(* Proofs/MapMEq.v — C17, equality and hashing: Value == ignores the order of object entries at every depth,
   is an equivalence on well-formed values, equal values make the same Hasher calls, and sort_all_objects
   sorts every depth without changing ==. *)
From SJ Require Import Base.Bytes Base.FloatB Model.Value Spec.Dict Model.MapM Proofs.MapMBase.
From Coq Require Import Sorting.Permutation Sorting.Sorted Lia.
From Flocq Require Import Core BinarySingleNaN.
Open Scope N_scope.

Notation keys := (map fst).

(* ------------------------------------------------------------------ well-formed values *)
Lemma wfv_arr : forall po l, wfv po (VArr l) <-> Forall (wfv po) l.
Proof.
  intros po l. cbn [wfv]. induction l as [|x l IH].
  - split; constructor.
  - split; intro H.
    + destruct H as [H1 H2]. constructor; [exact H1|apply IH; exact H2].
    + inversion H; subst. split; [assumption|apply IH; assumption].
Qed.
Lemma wfv_obj : forall po m, wfv po (VObj m) <-> keys_ok po (keys m) /\ Forall (fun kv => wfv po (snd kv)) m.
Proof.
  intros po m. cbn [wfv]. apply and_iff_compat_l. induction m as [|[k x] m IH].
  - split; constructor.
  - split; intro H.
    + destruct H as [H1 H2]. constructor; [exact H1|apply IH; exact H2].
    + inversion H; subst. split; [assumption|apply IH; assumption].
Qed.
Lemma keys_ok_NoDup : forall po ks, keys_ok po ks -> NoDup ks.
Proof. intros po ks H. destruct po; [exact H|apply ascending_NoDup; exact H]. Qed.

(* induction over values with the nested lists *)
Lemma value_ind2 : forall P : value -> Prop,
  P VNull -> (forall b, P (VBool b)) -> (forall n, P (VNum n)) -> (forall s, P (VStr s)) ->
  (forall l, Forall P l -> P (VArr l)) ->
  (forall m, Forall (fun kv => P (snd kv)) m -> P (VObj m)) ->
  forall v, P v.
Proof.
  intros P Hn Hb Hnum Hs Ha Ho. fix IH 1. intro v. destruct v as [|b|n|s|l|m].
  - exact Hn. - apply Hb. - apply Hnum. - apply Hs.
  - apply Ha. induction l as [|x l IHl]; constructor; [apply IH|exact IHl].
  - apply Ho. induction m as [|[k x] m IHm]; constructor; [apply IH|exact IHm].
Qed.

(* ------------------------------------------------------------------ the nested loops of veq / hash_feed / sort_all, named *)
Fixpoint all2 {A B} (f : A -> B -> bool) (la : list A) (lb : list B) : bool :=
  match la, lb with
  | [], [] => true
  | x :: la', y :: lb' => f x y && all2 f la' lb'
  | _, _ => false
  end.
Definition ent_eq (po : bool) (x y : bytes * value) : bool := beq_bytes (fst x) (fst y) && veq po (snd x) (snd y).
Definition found_eq (po : bool) (mb : list (bytes * value)) (kv : bytes * value) : bool :=
  match dict_get (fst kv) mb with Some w => veq po (snd kv) w | None => false end.

Lemma veq_arr : forall po la lb, veq po (VArr la) (VArr lb) = all2 (veq po) la lb.
Proof. intros po la. cbn [veq]. induction la as [|x la IH]; intros [|y lb]; cbn [all2]; auto. rewrite IH. reflexivity. Qed.
Lemma veq_obj_def : forall ma mb,
  veq false (VObj ma) (VObj mb) = Nat.eqb (length ma) (length mb) && all2 (ent_eq false) ma mb.
Proof.
  intros ma mb. cbn [veq]. f_equal. revert mb. induction ma as [|[k v] ma IH]; intros [|[k' w] mb]; cbn [all2]; auto.
  rewrite IH. unfold ent_eq. cbn [fst snd]. reflexivity.
Qed.
Lemma veq_obj_po : forall ma mb,
  veq true (VObj ma) (VObj mb) = Nat.eqb (length ma) (length mb) && forallb (found_eq true mb) ma.
Proof.
  intros ma mb. cbn [veq]. f_equal. induction ma as [|[k v] ma IH]; cbn [forallb]; auto.
  rewrite IH. unfold found_eq. cbn [fst snd]. rewrite al_get_dict_get. reflexivity.
Qed.

Definition per_entry (po : bool) (m : list (bytes * value)) : list (bytes * list hcall) :=
  map (fun kv => (fst kv, hash_str (fst kv) ++ hash_feed po (snd kv))) m.
Lemma hash_arr : forall po l,
  hash_feed po (VArr l) = HIsize 4 :: HUsize (N.of_nat (length l)) :: flat_map (hash_feed po) l.
Proof. intros po l. reflexivity. Qed.
Lemma hash_obj : forall po m,
  hash_feed po (VObj m) = HIsize 5 :: HUsize (N.of_nat (length m)) ::
                          concat (map snd (if po then sort_by_key (per_entry po m) else per_entry po m)).
Proof.
  intros po m. cbn [hash_feed]. do 2 f_equal.
  assert (E : (fix go (l : list (bytes * value)) : list (bytes * list hcall) :=
                 match l with [] => [] | (k, x) :: r => (k, hash_str k ++ hash_feed po x) :: go r end) m = per_entry po m).
  { unfold per_entry. induction m as [|[k x] m IH]; cbn [map fst snd]; auto. rewrite IH. reflexivity. }
  rewrite E. reflexivity.
Qed.
Definition map_vals (f : value -> value) (m : list (bytes * value)) : list (bytes * value) :=
  map (fun kv => (fst kv, f (snd kv))) m.
Lemma sort_all_obj : forall m, sort_all (VObj m) = VObj (sort_by_key (map_vals sort_all m)).
Proof.
  intro m. cbn [sort_all]. do 2 f_equal. unfold map_vals. induction m as [|[k x] m IH]; cbn [map fst snd]; auto.
  rewrite IH. reflexivity.
Qed.

(* ------------------------------------------------------------------ numbers *)
Lemma Beqb_true_cases : forall x y : b64, Beqb x y = true ->
  (exists s s', x = B754_zero s /\ y = B754_zero s') \/
  (exists s, x = B754_infinity s /\ y = B754_infinity s) \/
  (exists s m e p p', x = B754_finite s m e p /\ y = B754_finite s m e p').
Proof.
  intros x y H. unfold Beqb, SpecFloat.SFeqb in H.
  destruct x as [s| s| |s m e p]; destruct y as [s'|s'| |s' m' e' p']; cbn in H;
    try discriminate; try (destruct s; discriminate); try (destruct s'; discriminate).
  - left. eauto.
  - right. left. destruct s, s'; try discriminate; eauto.
  - right. right.
    destruct s, s'; try discriminate;
      destruct (Z.compare e e') eqn:Ce; try discriminate;
      destruct (Pos.compare_cont Eq m m') eqn:Cm; try discriminate;
      apply Z.compare_eq in Ce; apply Pos.compare_eq in Cm; subst; eauto 10.
Qed.
Lemma Beqb_refl_finite : forall x : b64, is_finite x = true -> Beqb x x = true.
Proof.
  intros x F. unfold Beqb, SpecFloat.SFeqb. destruct x as [s|s| |s m e p]; cbn in *; try discriminate; auto.
  rewrite Z.compare_refl. rewrite Pos.compare_cont_refl. destruct s; reflexivity.
Qed.
Lemma Beqb_sym_true : forall x y : b64, is_finite x = true -> is_finite y = true -> Beqb x y = true -> Beqb y x = true.
Proof.
  intros x y Fx Fy H. destruct (Beqb_true_cases x y H) as [[s [s' [-> ->]]]|[[s [-> ->]]|[s [m [e [p [p' [-> ->]]]]]]]].
  - reflexivity.
  - discriminate.
  - unfold Beqb, SpecFloat.SFeqb. cbn. rewrite Z.compare_refl, Pos.compare_cont_refl. destruct s; reflexivity.
Qed.
Lemma Beqb_trans_true : forall x y z : b64, is_finite x = true -> is_finite y = true -> is_finite z = true ->
  Beqb x y = true -> Beqb y z = true -> Beqb x z = true.
Proof.
  intros x y z Fx Fy Fz H1 H2.
  destruct (Beqb_true_cases x y H1) as [[s [s' [-> ->]]]|[[s [-> ->]]|[s [m [e [p [p' [-> ->]]]]]]]];
  destruct (Beqb_true_cases _ z H2) as [[t [t' [E1 ->]]]|[[t [E1 ->]]|[t [m2 [e2 [q [q' [E1 ->]]]]]]]]; try discriminate.
  - reflexivity.
  - inversion E1; subst. unfold Beqb, SpecFloat.SFeqb. cbn. rewrite Z.compare_refl, Pos.compare_cont_refl. destruct t; reflexivity.
Qed.

Lemma num_eq_refl : forall n, wfv true (VNum n) -> num_eq n n = true.
Proof.
  intros [x|z|f|s] W; cbn in *.
  - apply N.eqb_refl. - apply Z.eqb_refl. - apply Beqb_refl_finite. exact W. - apply beq_bytes_refl.
Qed.
Lemma num_eq_sym_true : forall a b, wfv true (VNum a) -> wfv true (VNum b) -> num_eq a b = true -> num_eq b a = true.
Proof.
  intros [x|z|f|s] [x'|z'|f'|s'] Wa Wb H; cbn in *; try discriminate.
  - rewrite N.eqb_sym. exact H. - rewrite Z.eqb_sym. exact H.
  - apply Beqb_sym_true; assumption.
  - rewrite beq_bytes_sym. exact H.
Qed.
Lemma num_eq_trans_true : forall a b c, wfv true (VNum a) -> wfv true (VNum b) -> wfv true (VNum c) ->
  num_eq a b = true -> num_eq b c = true -> num_eq a c = true.
Proof.
  intros [x|z|f|s] [x'|z'|f'|s'] [x''|z''|f''|s''] Wa Wb Wc H1 H2; cbn in *; try discriminate.
  - apply N.eqb_eq in H1. apply N.eqb_eq in H2. apply N.eqb_eq. congruence.
  - apply Z.eqb_eq in H1. apply Z.eqb_eq in H2. apply Z.eqb_eq. congruence.
  - apply (Beqb_trans_true f f' f''); assumption.
  - apply beq_bytes_true_iff in H1. apply beq_bytes_true_iff in H2. apply beq_bytes_true_iff. congruence.
Qed.
Lemma bits_finite_irrel : forall s m e p p',
  bits_of_b64 (B754_finite s m e p) = bits_of_b64 (B754_finite s m e p').
Proof. intros. unfold bits_of_b64. reflexivity. Qed.
Lemma Beqb_finite_zero : forall s m e p, Beqb (B754_finite s m e p : b64) (B754_zero false) = false.
Proof. intros. unfold Beqb, SpecFloat.SFeqb. cbn. destruct s; reflexivity. Qed.
(* src/number.rs: equal numbers make the same Hasher calls (in particular +0.0 and -0.0) *)
Lemma num_eq_hash : forall a b, num_eq a b = true -> hash_num a = hash_num b.
Proof.
  intros [x|z|f|s] [x'|z'|f'|s'] H; cbn [num_eq hash_num] in *; try discriminate.
  - apply N.eqb_eq in H. congruence.
  - apply Z.eqb_eq in H. congruence.
  - destruct (Beqb_true_cases f f' H) as [[t [t' [-> ->]]]|[[t [-> ->]]|[t [m [e [p [p' [-> ->]]]]]]]].
    + reflexivity.
    + reflexivity.
    + rewrite !Beqb_finite_zero. rewrite (bits_finite_irrel t m e p p'). reflexivity.
  - apply beq_bytes_true_iff in H. congruence.
Qed.

(* ------------------------------------------------------------------ facts about the loops *)
Lemma all2_length : forall A B (f : A -> B -> bool) la lb, all2 f la lb = true -> length la = length lb.
Proof.
  induction la as [|x la IH]; intros [|y lb] H; cbn in *; try discriminate; auto.
  apply andb_true_iff in H. destruct H as [_ H]. f_equal. apply IH. exact H.
Qed.
Lemma all2_flip : forall A B (f : A -> B -> bool) (g : B -> A -> bool) la lb,
  (forall x y, In x la -> In y lb -> f x y = true -> g y x = true) -> all2 f la lb = true -> all2 g lb la = true.
Proof.
  induction la as [|x la IH]; intros [|y lb] F H; cbn in *; try discriminate; auto.
  apply andb_true_iff in H. destruct H as [H1 H2]. apply andb_true_iff. split.
  - apply F; auto.
  - apply IH; auto; intros x' y' Hx Hy; apply F; auto.
Qed.
Lemma all2_trans : forall A B C (f : A -> B -> bool) (g : B -> C -> bool) (h : A -> C -> bool) la lb lc,
  (forall x y z, In x la -> In y lb -> In z lc -> f x y = true -> g y z = true -> h x z = true) ->
  all2 f la lb = true -> all2 g lb lc = true -> all2 h la lc = true.
Proof.
  induction la as [|x la IH]; intros [|y lb] [|z lc] F H1 H2; cbn in *; try discriminate; auto.
  apply andb_true_iff in H1. destruct H1 as [H1 H1']. apply andb_true_iff in H2. destruct H2 as [H2 H2'].
  apply andb_true_iff. split.
  - eapply F; eauto.
  - eapply IH; eauto; intros x' y' z' Hx Hy Hz; apply F; auto.
Qed.
Lemma all2_map_eq : forall A B C (f : A -> B -> bool) (h : A -> C) (h' : B -> C) la lb,
  (forall x y, In x la -> In y lb -> f x y = true -> h x = h' y) -> all2 f la lb = true -> map h la = map h' lb.
Proof.
  induction la as [|x la IH]; intros [|y lb] F H; cbn in *; try discriminate; auto.
  apply andb_true_iff in H. destruct H as [H1 H2]. f_equal.
  - apply F; auto.
  - apply IH; auto; intros x' y' Hx Hy; apply F; auto.
Qed.
Lemma all2_refl : forall A (f : A -> A -> bool) l, (forall x, In x l -> f x x = true) -> all2 f l l = true.
Proof.
  induction l as [|x l IH]; intro F; cbn; auto. apply andb_true_iff. split.
  - apply F. left. reflexivity.
  - apply IH. intros y Hy. apply F. right. exact Hy.
Qed.

(* IndexMap ==, spelled out *)
Lemma veq_obj_po_true : forall ma mb,
  veq true (VObj ma) (VObj mb) = true <->
  length ma = length mb /\ forall k v, In (k, v) ma -> exists w, dict_get k mb = Some w /\ veq true v w = true.
Proof.
  intros ma mb. rewrite veq_obj_po, andb_true_iff, Nat.eqb_eq, forallb_forall. apply and_iff_compat_l. split.
  - intros H k v Hin. specialize (H (k, v) Hin). unfold found_eq in H. cbn [fst snd] in H.
    destruct (dict_get k mb) as [w|]; [|discriminate]. exists w. auto.
  - intros H [k v] Hin. destruct (H k v Hin) as [w [G E]]. unfold found_eq. cbn [fst snd]. rewrite G. exact E.
Qed.
Lemma obj_po_keys_incl : forall ma mb, veq true (VObj ma) (VObj mb) = true -> incl (keys ma) (keys mb).
Proof.
  intros ma mb H k Hk. apply veq_obj_po_true in H. destruct H as [_ H].
  apply in_map_iff in Hk. destruct Hk as [[k' v] [E Hin]]. cbn in E. subst k'.
  destruct (H k v Hin) as [w [G _]]. apply dict_get_In in G. apply (in_map fst) in G. exact G.
Qed.
Lemma obj_po_keys_incl_rev : forall ma mb, NoDup (keys ma) -> veq true (VObj ma) (VObj mb) = true -> incl (keys mb) (keys ma).
Proof.
  intros ma mb ND H. apply NoDup_length_incl; auto.
  - rewrite !map_length. apply veq_obj_po_true in H. destruct H as [L _]. lia.
  - apply obj_po_keys_incl. exact H.
Qed.

(* ------------------------------------------------------------------ == is an equivalence on well-formed values *)
Lemma wfv_num_po : forall po n, wfv po (VNum n) -> wfv true (VNum n).
Proof. intros po n H. exact H. Qed.

Theorem veq_refl : forall po v, wfv po v -> veq po v v = true.
Proof.
  intros po v. induction v as [|b|n|s|l IH|m IH] using value_ind2; intro W.
  - reflexivity.
  - destruct b; reflexivity.
  - cbn [veq]. apply num_eq_refl. exact W.
  - cbn [veq]. apply beq_bytes_refl.
  - rewrite veq_arr. apply wfv_arr in W. apply all2_refl. intros x Hx. rewrite Forall_forall in IH, W. auto.
  - apply wfv_obj in W. destruct W as [KO WF]. rewrite Forall_forall in IH, WF. destruct po.
    + apply veq_obj_po_true. split; auto. intros k v Hin. exists v. split.
      * apply In_dict_get; auto.
      * apply (IH (k, v) Hin). apply (WF (k, v) Hin).
    + rewrite veq_obj_def, Nat.eqb_refl. cbn [andb]. apply all2_refl. intros [k v] Hin. unfold ent_eq. cbn [fst snd].
      rewrite beq_bytes_refl. cbn [andb]. apply (IH (k, v) Hin). apply (WF (k, v) Hin).
Qed.

Lemma veq_sym_true : forall po a b, wfv po a -> wfv po b -> veq po a b = true -> veq po b a = true.
Proof.
  intros po a. induction a as [|x|n|s|la IH|ma IH] using value_ind2; intros b Wa Wb H;
    destruct b as [|y|n'|s'|lb|mb]; cbn [veq] in H; try discriminate.
  - reflexivity.
  - cbn [veq]. destruct x, y; auto.
  - cbn [veq]. apply num_eq_sym_true; auto.
  - cbn [veq]. rewrite beq_bytes_sym. exact H.
  - change (veq po (VArr la) (VArr lb) = true) in H. rewrite veq_arr in *. apply wfv_arr in Wa. apply wfv_arr in Wb.
    rewrite Forall_forall in IH, Wa, Wb. eapply all2_flip; [|exact H]. intros x y Hx Hy E. apply IH; auto.
  - change (veq po (VObj ma) (VObj mb) = true) in H. apply wfv_obj in Wa. apply wfv_obj in Wb.
    destruct Wa as [KOa WFa]. destruct Wb as [KOb WFb]. rewrite Forall_forall in IH, WFa, WFb. destruct po.
    + pose proof (obj_po_keys_incl_rev ma mb KOa H) as Inc. apply veq_obj_po_true in H. destruct H as [L H].
      apply veq_obj_po_true. split; auto. intros k w Hin.
      assert (Hk : In k (keys ma)) by (apply Inc; apply (in_map fst) in Hin; exact Hin).
      apply in_map_iff in Hk. destruct Hk as [[k' v] [E Hv]]. cbn in E. subst k'.
      exists v. split; [apply In_dict_get; auto|].
      destruct (H k v Hv) as [w' [G E]]. rewrite (In_dict_get _ k w mb KOb Hin) in G. inversion G; subst w'.
      apply (IH (k, v) Hv w); [apply (WFa (k, v) Hv)|apply (WFb (k, w) Hin)|exact E].
    + rewrite veq_obj_def in *. apply andb_true_iff in H. destruct H as [L H]. apply andb_true_iff. split.
      * rewrite Nat.eqb_sym. exact L.
      * eapply all2_flip; [|exact H]. intros [k v] [k' w] Hx Hy E. unfold ent_eq in *. cbn [fst snd] in *.
        apply andb_true_iff in E. destruct E as [E1 E2]. apply andb_true_iff. split; [rewrite beq_bytes_sym; exact E1|].
        apply (IH (k, v) Hx w); [apply (WFa (k, v) Hx)|apply (WFb (k', w) Hy)|exact E2].
Qed.

Lemma veq_trans_true : forall po a b c, wfv po a -> wfv po b -> wfv po c ->
  veq po a b = true -> veq po b c = true -> veq po a c = true.
Proof.
  intros po a. induction a as [|x|n|s|la IH|ma IH] using value_ind2; intros b c Wa Wb Wc H1 H2;
    destruct b as [|y|n'|s'|lb|mb]; cbn [veq] in H1; try discriminate;
    destruct c as [|z|n''|s''|lc|mc]; cbn [veq] in H2; try discriminate.
  - reflexivity.
  - cbn [veq]. destruct x, y, z; auto.
  - cbn [veq]. eapply num_eq_trans_true; [| | |exact H1|exact H2]; auto.
  - cbn [veq]. apply beq_bytes_true_iff in H1. apply beq_bytes_true_iff in H2. apply beq_bytes_true_iff. congruence.
  - change (veq po (VArr la) (VArr lb) = true) in H1. change (veq po (VArr lb) (VArr lc) = true) in H2. rewrite veq_arr in *.
    apply wfv_arr in Wa. apply wfv_arr in Wb. apply wfv_arr in Wc. rewrite Forall_forall in IH, Wa, Wb, Wc.
    eapply all2_trans; [|exact H1|exact H2]. intros x y z Hx Hy Hz E1 E2. apply (IH x Hx y z); auto.
  - change (veq po (VObj ma) (VObj mb) = true) in H1. change (veq po (VObj mb) (VObj mc) = true) in H2.
    apply wfv_obj in Wa. apply wfv_obj in Wb. apply wfv_obj in Wc.
    destruct Wa as [KOa WFa]. destruct Wb as [KOb WFb]. destruct Wc as [KOc WFc]. rewrite Forall_forall in IH, WFa, WFb, WFc.
    destruct po.
    + apply veq_obj_po_true in H1. destruct H1 as [L1 H1]. apply veq_obj_po_true in H2. destruct H2 as [L2 H2].
      apply veq_obj_po_true. split; [congruence|]. intros k v Hin.
      destruct (H1 k v Hin) as [w [G1 E1]]. pose proof (dict_get_In _ _ _ _ G1) as Hw.
      destruct (H2 k w Hw) as [u [G2 E2]]. pose proof (dict_get_In _ _ _ _ G2) as Hu.
      exists u. split; auto. apply (IH (k, v) Hin w u); [| | |exact E1|exact E2].
      * apply (WFa (k, v) Hin). * apply (WFb (k, w) Hw). * apply (WFc (k, u) Hu).
    + rewrite veq_obj_def in *. apply andb_true_iff in H1. destruct H1 as [L1 H1]. apply andb_true_iff in H2. destruct H2 as [L2 H2].
      apply andb_true_iff. split.
      * apply Nat.eqb_eq in L1. apply Nat.eqb_eq in L2. apply Nat.eqb_eq. congruence.
      * eapply all2_trans; [|exact H1|exact H2]. intros [k v] [k' w] [k'' u] Hx Hy Hz E1 E2. unfold ent_eq in *. cbn [fst snd] in *.
        apply andb_true_iff in E1. destruct E1 as [E1 E1']. apply andb_true_iff in E2. destruct E2 as [E2 E2'].
        apply andb_true_iff. split.
        -- apply beq_bytes_true_iff in E1. apply beq_bytes_true_iff in E2. apply beq_bytes_true_iff. congruence.
        -- apply (IH (k, v) Hx w u); [| | |exact E1'|exact E2'].
           ++ apply (WFa (k, v) Hx). ++ apply (WFb (k', w) Hy). ++ apply (WFc (k'', u) Hz).
Qed.

Theorem veq_sym : forall po a b, wfv po a -> wfv po b -> veq po a b = veq po b a.
Proof.
  intros po a b Wa Wb. destruct (veq po a b) eqn:E1; destruct (veq po b a) eqn:E2; auto.
  - apply veq_sym_true in E1; auto. congruence.
  - apply veq_sym_true in E2; auto. congruence.
Qed.

(* ------------------------------------------------------------------ hashing is consistent with == *)
(* arranging by key and rewriting the non-key component commute *)
Lemma sort_ins_map : forall A B (g : bytes * A -> bytes * B), (forall x, fst (g x) = fst x) ->
  forall kv l, sort_ins (g kv) (map g l) = map g (sort_ins kv l).
Proof.
  intros A B g Hg kv. induction l as [|x l IH]; cbn [map sort_ins]; auto.
  rewrite !Hg. destruct (bytes_ltb (fst x) (fst kv)); cbn [map]; [rewrite IH|]; reflexivity.
Qed.
Lemma sort_by_key_map : forall A B (g : bytes * A -> bytes * B), (forall x, fst (g x) = fst x) ->
  forall l, sort_by_key (map g l) = map g (sort_by_key l).
Proof.
  intros A B g Hg. unfold sort_by_key. induction l as [|x l IH]; cbn [map fold_right]; auto.
  rewrite IH. apply sort_ins_map. exact Hg.
Qed.
Lemma per_entry_sort : forall po m, sort_by_key (per_entry po m) = per_entry po (sort_by_key m).
Proof. intros. unfold per_entry. apply sort_by_key_map. reflexivity. Qed.

Lemma per_entry_eq : forall po sa sb, keys sa = keys sb ->
  (forall k v w, In (k, v) sa -> In (k, w) sb -> hash_feed po v = hash_feed po w) ->
  per_entry po sa = per_entry po sb.
Proof.
  intros po. unfold per_entry. induction sa as [|[k v] sa IH]; intros [|[k' w] sb] K F; cbn [map fst snd] in *; try discriminate; auto.
  inversion K; subst. f_equal.
  - rewrite (F k' v w); [reflexivity|left; reflexivity|left; reflexivity].
  - apply IH; [assumption|]. intros k v0 w0 Hv Hw. apply (F k); right; assumption.
Qed.

Lemma keys_sorted_eq : forall ma mb : list (bytes * value), NoDup (keys ma) -> NoDup (keys mb) ->
  incl (keys ma) (keys mb) -> incl (keys mb) (keys ma) -> keys (sort_by_key ma) = keys (sort_by_key mb).
Proof.
  intros ma mb Na Nb I1 I2. rewrite !keys_sort_by_key. apply ascending_ext; try (apply ascending_ord_sort; assumption).
  intro x. split; intro Hx.
  - eapply Permutation_in; [apply Permutation_sym, ord_sort_perm|]. apply I1. eapply Permutation_in; [apply ord_sort_perm|exact Hx].
  - eapply Permutation_in; [apply Permutation_sym, ord_sort_perm|]. apply I2. eapply Permutation_in; [apply ord_sort_perm|exact Hx].
Qed.

Theorem veq_hash : forall po a b, wfv po a -> wfv po b -> veq po a b = true -> hash_feed po a = hash_feed po b.
Proof.
  intros po a. induction a as [|x|n|s|la IH|ma IH] using value_ind2; intros b Wa Wb H;
    destruct b as [|y|n'|s'|lb|mb]; cbn [veq] in H; try discriminate.
  - reflexivity.
  - destruct x, y; try discriminate; reflexivity.
  - cbn [hash_feed]. f_equal. apply num_eq_hash. exact H.
  - apply beq_bytes_true_iff in H. subst. reflexivity.
  - change (veq po (VArr la) (VArr lb) = true) in H. rewrite veq_arr in H. rewrite !hash_arr.
    apply wfv_arr in Wa. apply wfv_arr in Wb. rewrite Forall_forall in IH, Wa, Wb.
    rewrite (all2_length _ _ _ _ _ H). do 2 f_equal. rewrite !flat_map_concat_map. f_equal.
    eapply all2_map_eq; [|exact H]. intros x y Hx Hy E. apply IH; auto.
  - change (veq po (VObj ma) (VObj mb) = true) in H. rewrite !hash_obj.
    apply wfv_obj in Wa. apply wfv_obj in Wb. destruct Wa as [KOa WFa]. destruct Wb as [KOb WFb].
    rewrite Forall_forall in IH, WFa, WFb. destruct po.
    + pose proof (obj_po_keys_incl ma mb H) as I1. pose proof (obj_po_keys_incl_rev ma mb KOa H) as I2.
      apply veq_obj_po_true in H. destruct H as [L H]. rewrite L. do 2 f_equal.
      rewrite !per_entry_sort. do 2 f_equal. apply per_entry_eq.
      * apply keys_sorted_eq; assumption.
      * intros k v w Hv Hw.
        assert (Hv' : In (k, v) ma) by (eapply Permutation_in; [apply sort_by_key_perm|exact Hv]).
        assert (Hw' : In (k, w) mb) by (eapply Permutation_in; [apply sort_by_key_perm|exact Hw]).
        destruct (H k v Hv') as [w' [G E]]. rewrite (In_dict_get _ k w mb KOb Hw') in G. inversion G; subst w'.
        apply (IH (k, v) Hv' w); [apply (WFa (k, v) Hv')|apply (WFb (k, w) Hw')|exact E].
    + rewrite veq_obj_def in H. apply andb_true_iff in H. destruct H as [L H]. apply Nat.eqb_eq in L. rewrite L.
      do 4 f_equal. unfold per_entry. eapply all2_map_eq; [|exact H]. intros [k v] [k' w] Hx Hy E.
      unfold ent_eq in E. cbn [fst snd] in *. apply andb_true_iff in E. destruct E as [E1 E2].
      apply beq_bytes_true_iff in E1. subst k'. f_equal. f_equal.
      apply (IH (k, v) Hx w); [apply (WFa (k, v) Hx)|apply (WFb (k, w) Hy)|exact E2].
Qed.

(* ------------------------------------------------------------------ == ignores entry order at every depth *)
Lemma vperm_arr : forall la lb, vperm (VArr la) (VArr lb) <-> Forall2 vperm la lb.
Proof.
  intros la. cbn [vperm]. induction la as [|x la IH]; intros [|y lb].
  - split; intro H; constructor.
  - split; intro H; [contradiction|inversion H].
  - split; intro H; [contradiction|inversion H].
  - split; intro H.
    + destruct H as [H1 H2]. constructor; [exact H1|apply IH; exact H2].
    + inversion H; subst. split; [assumption|apply IH; assumption].
Qed.
Definition ent_perm (x y : bytes * value) : Prop := fst x = fst y /\ vperm (snd x) (snd y).
Lemma vperm_obj : forall ma mb, vperm (VObj ma) (VObj mb) <-> exists mb', Permutation mb' mb /\ Forall2 ent_perm ma mb'.
Proof.
  intros ma mb. cbn [vperm].
  assert (E : forall ma mb', (fix go (ma mb' : list (bytes * value)) {struct ma} : Prop :=
         match ma, mb' with
         | [], [] => True
         | (k, x) :: ma', (k', y) :: r => k = k' /\ vperm x y /\ go ma' r
         | _, _ => False
         end) ma mb' <-> Forall2 ent_perm ma mb').
  { induction ma0 as [|[k x] ma0 IH]; intros [|[k' y] r].
    - split; intro H; constructor.
    - split; intro H; [contradiction|inversion H].
    - split; intro H; [contradiction|inversion H].
    - split; intro H.
      + destruct H as [H1 [H2 H3]]. constructor; [split; assumption|apply IH; exact H3].
      + inversion H as [|? ? ? ? [H1 H2] H3]; subst. cbn [fst snd] in H1, H2.
        split; [assumption|]. split; [assumption|apply IH; assumption]. }
  split; intros [mb' [P H]]; exists mb'; split; auto; apply E; exact H.
Qed.

Lemma Forall2_In_l : forall A B (R : A -> B -> Prop) la lb x, Forall2 R la lb -> In x la -> exists y, In y lb /\ R x y.
Proof.
  intros A B R la lb x H. induction H as [|a b la lb Hab H IH]; intro Hin; [contradiction|].
  destruct Hin as [->|Hin]; [exists b; split; [left; reflexivity|exact Hab]|].
  destruct (IH Hin) as [y [Hy Hr]]. exists y. split; [right; exact Hy|exact Hr].
Qed.
Lemma Forall2_length' : forall A B (R : A -> B -> Prop) la lb, Forall2 R la lb -> length la = length lb.
Proof. intros A B R la lb H. induction H; cbn; auto. Qed.

(* C17_eq_order_free *)
Theorem vperm_veq : forall a b, wfv true a -> wfv true b -> vperm a b -> veq true a b = true.
Proof.
  intro a. induction a as [|x|n|s|la IH|ma IH] using value_ind2; intros b Wa Wb P.
  - cbn in P. subst. reflexivity.
  - cbn in P. subst. apply veq_refl. exact Wa.
  - cbn in P. subst. apply veq_refl. exact Wa.
  - cbn in P. subst. apply veq_refl. exact Wa.
  - destruct b as [| | | |lb|]; try (cbn in P; contradiction). apply vperm_arr in P. rewrite veq_arr.
    apply wfv_arr in Wa. apply wfv_arr in Wb. revert IH Wa Wb. induction P as [|x y la lb Hxy P IHP]; intros IH Wa Wb; [reflexivity|].
    inversion IH; subst. inversion Wa; subst. inversion Wb; subst. cbn [all2]. apply andb_true_iff. split; auto.
  - destruct b as [| | | | |mb]; try (cbn in P; contradiction). apply vperm_obj in P. destruct P as [mb' [Pm F]].
    apply wfv_obj in Wa. apply wfv_obj in Wb. destruct Wa as [KOa WFa]. destruct Wb as [KOb WFb].
    rewrite Forall_forall in IH, WFa, WFb. apply veq_obj_po_true. split.
    + rewrite (Forall2_length' _ _ _ _ _ F). apply Permutation_length. exact Pm.
    + intros k v Hin. destruct (Forall2_In_l _ _ _ _ _ _ F Hin) as [[k' w] [Hw [E1 E2]]]. cbn [fst snd] in *. subst k'.
      assert (Hw' : In (k, w) mb) by (eapply Permutation_in; [exact Pm|exact Hw]).
      exists w. split; [apply In_dict_get; auto|]. apply (IH (k, v) Hin w); [apply (WFa (k, v) Hin)|apply (WFb (k, w) Hw')|exact E2].
Qed.

(* written differently, compared alike: replacing a value by a reordered spelling never changes the outcome of == *)
Corollary eq_order_free : forall a a' b, wfv true a -> wfv true a' -> wfv true b -> vperm a a' ->
  veq true a b = veq true a' b /\ veq true b a = veq true b a'.
Proof.
  intros a a' b Wa Wa' Wb P. pose proof (vperm_veq a a' Wa Wa' P) as E.
  assert (E' : veq true a' a = true) by (rewrite veq_sym; auto).
  assert (X : veq true a b = veq true a' b).
  { destruct (veq true a b) eqn:E1; destruct (veq true a' b) eqn:E2; auto.
    - rewrite (veq_trans_true true a' a b) in E2; auto.
    - rewrite (veq_trans_true true a a' b) in E1; auto. }
  split; [exact X|]. rewrite (veq_sym true b a), (veq_sym true b a'); auto.
Qed.
(* top level: a Map compared with any permutation of its entries *)
Lemma vperm_refl : forall a, vperm a a.
Proof.
  induction a as [|x|n|s|la IH|ma IH] using value_ind2; try reflexivity.
  - apply vperm_arr. induction IH; constructor; auto.
  - apply vperm_obj. exists ma. split; auto. induction IH as [|[k x] ma H IH' IH2]; constructor; auto. split; auto.
Qed.
Corollary permuted_entries_equal : forall m m', wfv true (VObj m) -> Permutation m m' -> veq true (VObj m) (VObj m') = true.
Proof.
  intros m m' W P. assert (W' : wfv true (VObj m')).
  { apply wfv_obj in W. destruct W as [K F]. apply wfv_obj. split.
    - eapply Permutation_NoDup; [apply Permutation_map; exact P|exact K].
    - eapply Permutation_Forall; eauto. }
  apply vperm_veq; auto. apply vperm_obj. exists m. split; auto.
  clear. induction m as [|[k x] m IH]; constructor; auto. split; [reflexivity|apply vperm_refl].
Qed.

(* ------------------------------------------------------------------ sort_all_objects *)
Lemma all_sorted_arr : forall l, all_sorted (VArr l) <-> Forall all_sorted l.
Proof.
  intro l. cbn [all_sorted]. induction l as [|x l IH].
  - split; constructor.
  - split; intro H.
    + destruct H as [H1 H2]. constructor; [exact H1|apply IH; exact H2].
    + inversion H; subst. split; [assumption|apply IH; assumption].
Qed.
Lemma all_sorted_obj : forall m, all_sorted (VObj m) <-> ascending (keys m) /\ Forall (fun kv => all_sorted (snd kv)) m.
Proof.
  intro m. cbn [all_sorted]. apply and_iff_compat_l. induction m as [|[k x] m IH].
  - split; constructor.
  - split; intro H.
    + destruct H as [H1 H2]. constructor; [exact H1|apply IH; exact H2].
    + inversion H; subst. split; [assumption|apply IH; assumption].
Qed.
Lemma wfv_def_all_sorted : forall v, wfv false v -> all_sorted v.
Proof.
  induction v as [|x|n|s|l IH|m IH] using value_ind2; intro W; try exact I.
  - apply wfv_arr in W. apply all_sorted_arr. rewrite Forall_forall in *. auto.
  - apply wfv_obj in W. destruct W as [K F]. apply all_sorted_obj. split; [exact K|]. rewrite Forall_forall in *. auto.
Qed.
Lemma keys_map_vals : forall f m, keys (map_vals f m) = keys m.
Proof. intros. unfold map_vals. rewrite map_map. reflexivity. Qed.
Lemma sort_all_arr : forall l, sort_all (VArr l) = VArr (map sort_all l).
Proof. reflexivity. Qed.

Theorem sort_all_spec : forall v, wfv true v ->
  all_sorted (sort_all v) /\ wfv true (sort_all v) /\ veq true (sort_all v) v = true.
Proof.
  induction v as [|x|n|s|l IH|m IH] using value_ind2; intro W.
  - cbn. auto.
  - cbn [sort_all]. split; [exact I|]. split; [exact I|]. apply veq_refl. exact I.
  - cbn [sort_all]. split; [exact I|]. split; [exact W|]. apply veq_refl. exact W.
  - cbn [sort_all]. split; [exact I|]. split; [exact I|]. apply veq_refl. exact I.
  - rewrite sort_all_arr. apply wfv_arr in W. rewrite Forall_forall in IH, W. split; [|split].
    + apply all_sorted_arr. apply Forall_forall. intros y Hy. apply in_map_iff in Hy. destruct Hy as [x [<- Hx]]. apply IH; auto.
    + apply wfv_arr. apply Forall_forall. intros y Hy. apply in_map_iff in Hy. destruct Hy as [x [<- Hx]]. apply IH; auto.
    + rewrite veq_arr. assert (G : forall x, In x l -> veq true (sort_all x) x = true) by (intros x Hx; apply IH; auto).
      clear IH W. induction l as [|x l IHl]; [reflexivity|]. cbn [map all2]. apply andb_true_iff. split.
      * apply G. left. reflexivity.
      * apply IHl. intros y Hy. apply G. right. exact Hy.
  - rewrite sort_all_obj. apply wfv_obj in W. destruct W as [K F]. cbn [keys_ok] in K. rewrite Forall_forall in IH, F.
    assert (P : Permutation (sort_by_key (map_vals sort_all m)) (map_vals sort_all m)) by apply sort_by_key_perm.
    assert (KS : keys (sort_by_key (map_vals sort_all m)) = ord_sort (keys m)) by (rewrite keys_sort_by_key, keys_map_vals; reflexivity).
    assert (In' : forall k y, In (k, y) (sort_by_key (map_vals sort_all m)) -> exists x, In (k, x) m /\ y = sort_all x).
    { intros k y Hy. eapply Permutation_in in Hy; [|exact P]. unfold map_vals in Hy. apply in_map_iff in Hy.
      destruct Hy as [[k' x] [E Hx]]. cbn [fst snd] in E. inversion E; subst. exists x. auto. }
    split; [|split].
    + apply all_sorted_obj. split.
      * rewrite KS. apply ascending_ord_sort. exact K.
      * apply Forall_forall. intros [k y] Hy. cbn [snd]. destruct (In' k y Hy) as [x [Hx ->]].
        apply (IH (k, x) Hx). apply (F (k, x) Hx).
    + apply wfv_obj. split.
      * cbn [keys_ok]. rewrite KS. eapply Permutation_NoDup; [apply Permutation_sym, ord_sort_perm|exact K].
      * apply Forall_forall. intros [k y] Hy. cbn [snd]. destruct (In' k y Hy) as [x [Hx ->]].
        apply (IH (k, x) Hx). apply (F (k, x) Hx).
    + apply veq_obj_po_true. split.
      * rewrite (Permutation_length P). unfold map_vals. apply map_length.
      * intros k y Hy. destruct (In' k y Hy) as [x [Hx ->]]. exists x. split; [apply In_dict_get; auto|].
        apply (IH (k, x) Hx). apply (F (k, x) Hx).
Qed.

(* C17_sort_all, both configurations (without preserve_order the method does nothing and every Map is sorted already) *)
Theorem sort_all_objects_spec : forall po v, wfv po v ->
  all_sorted (sort_all_objects po v) /\ veq po (sort_all_objects po v) v = true.
Proof.
  intros po v W. unfold sort_all_objects. destruct po.
  - destruct (sort_all_spec v W) as [H1 [_ H3]]. split; assumption.
  - split; [apply wfv_def_all_sorted; exact W|apply veq_refl; exact W].
Qed.
(* sorting is a reordering in the sense of [vperm] *)
Theorem sort_all_vperm : forall v, vperm v (sort_all v).
Proof.
  induction v as [|x|n|s|l IH|m IH] using value_ind2; try reflexivity.
  - rewrite sort_all_arr. apply vperm_arr. induction IH; cbn [map]; constructor; auto.
  - rewrite sort_all_obj. apply vperm_obj. exists (map_vals sort_all m). split.
    + apply Permutation_sym. apply sort_by_key_perm.
    + unfold map_vals. induction IH as [|[k x] m H IH' IH2]; cbn [map]; constructor; auto. split; auto.
Qed.

(* the state reached by a history is a well-formed object as soon as the stored values are *)
Lemma keys_ok_of_inv : forall po (m : mapstate), NoDup (keys m) -> (po = false -> ascending (keys m)) -> keys_ok po (keys m).
Proof. intros po m ND A. destruct po; cbn; auto. Qed.

Print Assumptions veq_refl.
Print Assumptions veq_sym.
Print Assumptions veq_trans_true.
Print Assumptions veq_hash.
Print Assumptions vperm_veq.
Print Assumptions eq_order_free.
Print Assumptions sort_all_objects_spec.
Print Assumptions sort_all_vperm.
