(* Proofs/ValueDeAgreeAp3.v — C16 under `arbitrary_precision`: structs, externally tagged enums, and the lifted theorem
   [C16_ap_lifted] over the whole universe of owned type programs without f32:
     bool, unit, unit struct, String, char, i8..i128 / u8..u128, f64 (float_roundtrip builds), serde_json::Value, IgnoredAny, ByteBuf,
     Option, newtype struct, Vec, tuple, tuple struct, maps (every key type but f32), structs, externally tagged enums,
   on the (T, v) pairs of [claim_ap] (Proofs/ValueDeAgreeAp.v): the two enum shapes excluded in every build ([claimb]) and, of this
   build, F12b (`-0` into i8..i64), F19 (a Value target meeting a number literal not in canonical spelling) and the private Number
   token as the first key of an object met by a Value target.

   The struct / enum sections are the scripts of Proofs/ValueDeAgreeStruct.v (Section Struct2) and Proofs/ValueDeAgreeEnum.v
   (Section Enum2) in sections without the hypothesis `arbitrary_precision cf = false`, over [claim_ap] (see the header of
   Proofs/ValueDeAgreeAp2.v for why they had to be re-proved: the hypothesis sits in the types of fields_agree2, struct_obj, struct_arr,
   agree_struct2, payload_agree, agree_enum2 without being used). *)
From SJ Require Import Base.Bytes Base.Utf8 Base.FloatB Gen.Tables
  Model.Read Model.Str Model.Num Model.NumF32 Model.Value Model.De Model.Ignore Model.Ty Model.NumberM Model.DeTyped Model.ValueDe
  Spec.Syntax Spec.Denote Proofs.GrammarIgnore Proofs.GrammarValueComplete Proofs.SerValue Proofs.GrammarValueBase Proofs.GrammarStr Proofs.GrammarNum
  Proofs.ValueDeRef Proofs.ValueDeAgree.
From SJ Require Import Proofs.SerRender Proofs.SerWf Proofs.SerDenote Proofs.ValueDeAgreeKey Proofs.ValueDeAgreeMap Proofs.ValueDeAgreeStruct
  Proofs.ValueDeAgreeEnum Proofs.ValueDeAgreeMisc.
From SJ Require Import Proofs.ApNumber Proofs.ValueDeAgreeAp Proofs.ValueDeAgreeApValue Proofs.ValueDeAgreeAp2.
Require Import Lia ZifyBool ZifyNat ZifyN.
Open Scope N_scope.

(* ================================================================================================================================
   1. Structs (script of Proofs/ValueDeAgreeStruct.v, Section Struct2)
   ================================================================================================================================ *)
Section Struct2Any.
  Variable NR : numlit -> num -> Prop.
  Variable cf : cfg.
  Variable fx : fenv.
  Local Notation E := (mkEnv RSlice TEof cf).
  Local Notation shp2 := (shape2 NR).
  Local Notation shp2_elems := (shape2_elems NR).
  Local Notation shp2_members := (shape2_members NR).
  Local Notation agree_at2 := (ValueDeAgreeAp2.agree_at2 NR cf fx).

  Lemma de_fields_S f fields slots first s :
    de_fields (S f) E fields slots first s =
    (let^ o := has_next_key E first s in
     match o with
     | None => let+ ds := finish_struct fields slots s in TOk (ds, s)
     | Some s1 =>
       let^ (name, _, s2) := parse_str E (discard s1) in
       match index_of name fields with
       | Some (i, t) =>
         if slot_filled i slots then TUnpos MDuplicateField s2
         else
           let^ s3 := parse_object_colon E s2 in
           let+ (d, s4) := de_typed f E t s3 in
           de_fields f E fields (set_slot i d slots) false s4
       | None =>
         let^ s3 := parse_object_colon E s2 in
         let^ s4 := ignore_value E s3 in
         de_fields f E fields slots false s4
       end
     end).
  Proof. reflexivity. Qed.

  Lemma de_struct_S f fields s :
    de_struct (S f) E fields s =
    tmap DStruct
      (deserialize_struct E
         (fun s' => de_tuple f E (map snd fields) true s')
         (fun s' => de_fields f E fields (map (fun _ => None) fields) true s')
         s).
  Proof. reflexivity. Qed.

  Lemma de_fields_stuck f fields slots s : stuck (rest s) -> not_ok (de_fields f E fields slots false s).
  Proof. intros Hs. destruct f as [|f]; [discriminate|]. rewrite de_fields_S. apply tbind_lift_not_ok, hnk_stuck, Hs. Qed.

  (* ---- the struct visitor's loop over the members ------------------------------------------------------------------------------------ *)
  Definition fields_rel2 (fields : list (bytes * ty)) : Prop := forall ms m fuel fv first s wp rst D slots slots',
    (forall p, In p fields -> agree_at2 (snd p) /\ (ty_depth (snd p) <= D)%nat) ->
    wfb_members ms = true -> denote_members cf ms = Some m -> shp2_members ms m ->
    claim_fields (claim_ap fx fv) fields m = true ->
    forallb (fun kv => utf8_valid (fst kv) && wf_value cf (snd kv)) m = true -> ws_ok wp = true ->
    dbudget cf (cdepth_members ms) (depth s) -> rest s = map_text first wp ms ++ 125 :: rst ->
    (D + mfuel ms <= fuel)%nat -> (D < fv)%nat ->
    ub_slots slots' = ub_slots slots -> length slots = length fields ->
    match map_fields (de_value_owned fv cf fx) fields slots m with
    | VOk (ds, rem) => rem = [] /\ exists ds' s' wl, de_fields fuel E fields slots' first s = TOk (ds', s') /\ map unborrow ds' = map unborrow ds
                         /\ ws_ok wl = true /\ rest s' = wl ++ 125 :: rst /\ depth s' = depth s
    | VErr _ _ _ => not_ok (de_fields fuel E fields slots' first s)
    | _ => False
    end.

  Lemma fields_agree2 fields : fields_rel2 fields.
  Proof.
    intros ms. induction ms as [|w1 kp w2 w3 c w4 rest0 IHr];
      intros m fuel fv first s wp rst D slots slots' HIH Hwf Hden Hsh Hcl Hwvl Hwp Hdb Hr Hfuel Hfv Hub Hlen.
    - cbn [denote_members] in Hden. injection Hden as <-. cbn [map_fields].
      cbn [mfuel] in Hfuel. destruct fuel as [|f]; [lia|]. cbn [map_text] in Hr.
      rewrite de_fields_S, (hnk_fwd_none cf first s rst). 2:{ rewrite Hr. now apply skipws_to. }
      cbn [lift tbind]. pose proof (finish_rel fields slots slots' s Hub Hlen) as Hfin.
      destruct (finish_struct fields slots st0) as [ds| | | |]; cbn [of_visit1 vbind verr]; try contradiction.
      + destruct Hfin as (ds' & -> & Hu). cbn [tbind]. split; [reflexivity|]. exists ds', s, wp. auto.
      + intros a. destruct (finish_struct fields slots' s) as [ds'| | | |] eqn:Hf; cbn [tbind]; try discriminate. exfalso. exact (Hfin _ eq_refl).
    - cbn [mfuel] in Hfuel. destruct fuel as [|f]; [lia|].
      cbn [wfb_members] in Hwf. apply andb_prop in Hwf as [Hwf Hwfr]. apply andb_prop in Hwf as [Hwf Hw4].
      apply andb_prop in Hwf as [Hwf Hwfc]. apply andb_prop in Hwf as [Hwf Hw3]. apply andb_prop in Hwf as [Hwf Hw2].
      apply andb_prop in Hwf as [Hw1 Hkok].
      cbn [denote_members] in Hden. destruct (str_text kp) as [kb|] eqn:Hkt; [|discriminate].
      destruct (denote cf c) as [v|] eqn:Hdc; [|discriminate].
      destruct (denote_members cf rest0) as [vs0|] eqn:Hdr; [|discriminate]. injection Hden as <-.
      cbn [shape2_members fst snd] in Hsh. destruct Hsh as (Hkp & Hshc & Hshr).
      cbn [forallb fst snd] in Hwvl. apply andb_prop in Hwvl as [Hwvc Hwvr]. apply andb_prop in Hwvc as [Hu Hwvc].
      unfold claim_fields in Hcl. cbn [forallb fst snd] in Hcl. apply andb_prop in Hcl as [Hclc Hclr]. fold (claim_fields (claim_ap fx fv) fields vs0) in Hclr.
      cbn [cdepth_members] in Hdb.
      destruct (hnk_step cf first s wp w1 kp w2 w3 c w4 rest0 rst Hwp Hw1 Hr) as (s1 & Hh & Hs1 & Hd1).
      set (rst1 := w4 ++ tail_members rest0 ++ 125 :: rst) in *.
      set (rstk := w2 ++ 58 :: w3 ++ render c ++ rst1) in *.
      rewrite de_fields_S, Hh. cbn [lift tbind map_fields].
      subst kp. change (flat_map render_piece (pieces_of kb)) with (Lk kb) in Hs1.
      destruct (key_str_read cf kb s1 rstk Hu Hs1) as (bw & s2 & Hps & Hr2 & Hd2). rewrite Hps. cbn [lift tbind].
      destruct (colon_step cf s2 w2 (w3 ++ render c ++ rst1) Hw2 Hr2) as (s3 & Hcol & Hr3 & Hd3).
      assert (Hfol1 : follow_ok rst1) by (apply follow_members_tail; exact Hw4).
      assert (Hdbr : dbudget cf (cdepth_members rest0) (depth s)) by exact (dbudget_le _ _ _ _ (Nat.le_max_r _ _) Hdb).
      assert (Hf2 : (D + mfuel rest0 <= f)%nat) by (clear - Hfuel; lia).
      destruct (index_of kb fields) as [[i t]|] eqn:Hidx.
      + rewrite (slot_filled_eq slots' slots i Hub).
        destruct (slot_filled i slots); [intros a; discriminate|].
        rewrite Hcol. cbn [lift tbind].
        destruct (index_of_In kb fields i t Hidx) as [n Hin]. destruct (HIH (n, t) Hin) as [IHt HtD]. cbn [snd] in IHt, HtD.
        assert (Hel := IHt c v f fv s3 w3 rst1 Hwfc Hdc Hshc Hclc Hwvc Hw3 Hfol1).
        rewrite Hd3, Hd2, Hd1 in Hel. specialize (Hel (dbudget_le _ _ _ _ (Nat.le_max_l _ _) Hdb) Hr3).
        assert (Hf1 : (ty_depth t + vfuel c <= f)%nat) by (clear - Hfuel HtD; lia).
        assert (Hf1' : (ty_depth t < fv)%nat) by (clear - Hfv HtD; lia). specialize (Hel Hf1 Hf1').
        destruct (de_value_owned fv cf fx t v) as [d| | |]; cbn [okrel2 vbind] in Hel |- *; try contradiction.
        * destruct Hel as (d' & s4 & Hv & Hud & Hr4 & Hd4). rewrite Hv. cbn [tbind].
          assert (Hr4' : rest s4 = map_text false w4 rest0 ++ 125 :: rst) by (rewrite Hr4, map_text_false; unfold rst1; lnorm; reflexivity).
          assert (Hrest := IHr vs0 f fv false s4 w4 rst D (set_slot i d slots) (set_slot i d' slots') HIH Hwfr eq_refl Hshr Hclr Hwvr Hw4).
          rewrite Hd4, Hd3, Hd2, Hd1 in Hrest.
          specialize (Hrest Hdbr Hr4' Hf2 Hfv (set_slot_eq i d d' slots' slots Hud Hub)).
          rewrite set_slot_length in Hrest. specialize (Hrest Hlen). exact Hrest.
        * intros a. destruct (de_typed f E t s3) as [[d' s4]| | | |] eqn:Hv; cbn [tbind]; try discriminate.
          specialize (Hel _ _ eq_refl). exact (de_fields_stuck f fields _ s4 Hel a).
      + rewrite Hcol. cbn [lift tbind].
        destruct s3 as [r3 o3 p3 d3]. cbn [rest depth] in Hr3, Hd3. subst r3.
        destruct (ignore_value_complete cf w3 c rst1 o3 p3 d3 Hw3 Hwfc (follow_nfollow _ Hfol1)) as [pk' Hi].
        rewrite Hi. cbn [lift tbind].
        match goal with |- context [de_fields f E fields slots' false ?S4] => set (s4 := S4) end.
        assert (Hr4' : rest s4 = map_text false w4 rest0 ++ 125 :: rst) by (unfold s4; cbn [rest]; rewrite map_text_false; unfold rst1; lnorm; reflexivity).
        assert (Hrest := IHr vs0 f fv false s4 w4 rst D slots slots' HIH Hwfr eq_refl Hshr Hclr Hwvr Hw4).
        unfold s4 at 1 in Hrest. cbn [depth] in Hrest. rewrite Hd3, Hd2, Hd1 in Hrest.
        specialize (Hrest Hdbr Hr4' Hf2 Hfv Hub Hlen).
        destruct (map_fields (de_value_owned fv cf fx) fields slots vs0) as [[ds rem]| | |]; try contradiction.
        * destruct Hrest as (-> & ds' & s5 & wl & He & Hu5 & Hwl & Hr5 & Hd5). split; [reflexivity|].
          exists ds', s5, wl. split; [exact He|]. split; [exact Hu5|]. split; [exact Hwl|]. split; [exact Hr5|].
          rewrite Hd5. unfold s4. cbn [depth]. rewrite Hd3, Hd2, Hd1. reflexivity.
        * exact Hrest.
  Qed.

  (* ---- the three entries of deserialize_struct ------------------------------------------------------------------------------------------ *)
  Lemma struct_reject fields f s w b r : ws_ok w = true -> ws_byte b = false -> rest s = w ++ b :: r -> b <> 91 -> b <> 123 ->
    not_ok (de_struct f E fields s).
  Proof.
    intros Hw Hb Hr H91 H123. destruct f as [|f]; [discriminate|]. rewrite de_struct_S. apply tmap_not_ok'. intros a.
    destruct (pws_head cf s w b r Hw Hb Hr) as (s1 & Hpw & _). unfold deserialize_struct. rewrite Hpw. cbn [lift tbind].
    apply N.eqb_neq in H91, H123. rewrite H91, H123. apply fix_position_not_ok, pit_not_ok.
  Qed.

  Lemma struct_obj fields w0 ms m f fv s w rst D :
    (forall p, In p fields -> agree_at2 (snd p) /\ (ty_depth (snd p) <= D)%nat) ->
    wfb (CObj w0 ms) = true -> denote cf (CObj w0 ms) = Some (VObj m) -> shp2_members ms m -> claim_fields (claim_ap fx fv) fields m = true ->
    wf_value cf (VObj m) = true -> ws_ok w = true -> dbudget cf (cdepth (CObj w0 ms)) (depth s) -> rest s = w ++ render (CObj w0 ms) ++ rst ->
    (D + vfuel (CObj w0 ms) <= f)%nat -> (D < fv)%nat ->
    okrel2 unborrow (vmap DStruct (map_any_owned m (map_fields (de_value_owned fv cf fx) fields (empty_slots fields))))
                    (de_struct f E fields s) s rst.
  Proof.
    intros HIH Hwf Hden Hsh Hcl Hwv Hw Hdb Hr0 Hfuel Hfv.
    pose proof (obj_members NR cf w0 ms m Hden Hsh Hwv) as Hdm.
    cbn [wfb] in Hwf. apply andb_prop in Hwf as [Hw0 Hwfm].
    rewrite render_obj in Hr0. revert Hr0. lnorm. intros Hr0.
    destruct (open_frame cf 123 _ (cdepth_members ms) s w Hw eq_refl Hr0 Hdb) as (s1 & s2 & Hpw & Hen & Hrb & Hd1 & Hd2 & Hdb2).
    cbn [vfuel] in Hfuel. destruct f as [|f]; [lia|]. rewrite de_struct_S. unfold deserialize_struct. rewrite Hpw. cbn [lift tbind].
    change (123 =? 91) with false. change (123 =? 123) with true. cbv iota.
    cbn [wf_value] in Hwv. apply andb_prop in Hwv as [Hwe Hkeys].
    assert (Hf1 : (D + mfuel ms <= f)%nat) by (clear - Hfuel; lia).
    assert (Hlen : length (empty_slots fields) = length fields) by (unfold empty_slots; apply map_length).
    assert (Hloop := fields_agree2 fields ms m f fv true (discard s2) w0 rst D (empty_slots fields) (empty_slots fields)
                       HIH Hwfm Hdm Hsh Hcl Hwe Hw0 Hdb2 Hrb Hf1 Hfv eq_refl Hlen).
    unfold map_any_owned.
    destruct (map_fields (de_value_owned fv cf fx) fields (empty_slots fields) m) as [[ds rem]| | |]; cbn [vbind vmap]; try contradiction.
    - destruct Hloop as (-> & ds' & s3 & wl & He & Hu & Hwl & Hr3 & Hd3). cbn [vbind vmap okrel2].
      destruct (close_frame cf end_map end_map_st 125 (fun s' => de_fields f E fields (map (fun _ => None) fields) true s')
                  (cdepth_members ms) s s1 s2 ds' s3 wl rst (closes_map cf) eq_refl Hdb Hen Hd1 Hd2 He Hwl Hr3 Hd3) as (s5 & Hfr & Hr5 & Hd5).
      rewrite Hfr. cbn [fix_position tmap tbind]. exists (DStruct ds'), s5. split; [reflexivity|].
      split; [cbn [unborrow]; f_equal; exact Hu|]. auto.
    - apply okrel2_not_ok. apply tmap_not_ok'. intros a. apply fix_position_not_ok. apply (frame_fail cf _ _ _ s1 s2 Hen). exact Hloop.
  Qed.

  Lemma struct_arr fields w0 es l f fv s w rst D :
    (forall p, In p fields -> agree_at2 (snd p) /\ (ty_depth (snd p) <= D)%nat) ->
    wfb (CArr w0 es) = true -> denote cf (CArr w0 es) = Some (VArr l) -> shp2_elems es l -> claim_list (claim_ap fx fv) (map snd fields) l = true ->
    wf_value cf (VArr l) = true -> ws_ok w = true -> dbudget cf (cdepth (CArr w0 es)) (depth s) -> rest s = w ++ render (CArr w0 es) ++ rst ->
    (D + vfuel (CArr w0 es) <= f)%nat -> (D < fv)%nat ->
    okrel2 unborrow (vmap DStruct (visit_array_owned l (seq_tuple (de_value_owned fv cf fx) (map snd fields))))
                    (de_struct f E fields s) s rst.
  Proof.
    intros HIH Hwf Hden Hsh Hcl Hwv Hw Hdb Hr0 Hfuel Hfv.
    cbn [wfb denote] in Hwf, Hden. apply andb_prop in Hwf as [Hw0 Hwfe].
    destruct (denote_elems cf es) as [l'|] eqn:Hde; [|discriminate Hden]. injection Hden as <-.
    rewrite render_arr in Hr0. revert Hr0. lnorm. intros Hr0.
    destruct (open_frame cf 91 _ (cdepth_elems es) s w Hw eq_refl Hr0 Hdb) as (s1 & s2 & Hpw & Hen & Hrb & Hd1 & Hd2 & Hdb2).
    cbn [vfuel] in Hfuel. destruct f as [|f]; [lia|]. rewrite de_struct_S. unfold deserialize_struct. rewrite Hpw. cbn [lift tbind].
    change (91 =? 91) with true. cbv iota. cbn [wf_value] in Hwv.
    apply (tuple_array NR cf fx DStruct (map snd fields) w0 es l' f fv s s1 s2 rst D); try assumption; [| |clear - Hfuel; lia].
    - intros a b' Hab. cbn [unborrow]. rewrite Hab. reflexivity.
    - intros t Hin. apply in_map_iff in Hin as (p & <- & Hp). apply HIH, Hp.
  Qed.

  Lemma agree_struct2 fields : (forall p, In p fields -> agree_at2 (snd p)) -> agree_at2 (TStruct fields).
  Proof.
    intros HIH c v fuel fv s w rst Hwf Hden Hsh Hcl Hwv Hw Hfol Hdb Hr Hfuel Hfv. rewrite ty_depth_struct in Hfuel, Hfv.
    destruct fuel as [|f]; [lia|]. destruct fv as [|fv]; [lia|].
    assert (HIH' : forall p, In p fields -> agree_at2 (snd p) /\ (ty_depth (snd p) <= S (fmax_depth fields))%nat).
    { intros p Hp. split; [apply HIH, Hp|]. pose proof (fmax_depth_in fields p Hp). lia. }
    destruct (render_first c Hwf) as (b & r & Hren & Hbws & _).
    pose proof Hr as Hr0. rewrite Hren in Hr. revert Hr. lnorm. intros Hr.
    destruct (first_not c b r Hwf Hren) as (_ & Hn91 & Hn123 & _).
    change (de_typed (S f) E (TStruct fields) s) with (de_struct f E fields s).
    destruct c as [| | |n|ps|w0 es|w0 ms]; destruct v as [|[|]| | |l|m]; cbn [shape2 shape] in Hsh; try discriminate Hsh; try contradiction;
      cbn [de_value_owned]; unfold verr.
    all: try (apply okrel2_not_ok; apply (struct_reject fields f s w b (r ++ rst) Hw Hbws Hr); [apply Hn91|apply Hn123]; intros; discriminate).
    - cbn [claim_ap] in Hcl. apply (struct_arr fields w0 es l f fv s w rst (S (fmax_depth fields))); try assumption; [clear - Hfuel; lia|clear - Hfv; lia].
    - cbn [claim_ap] in Hcl. apply (struct_obj fields w0 ms m f fv s w rst (S (fmax_depth fields))); try assumption; [clear - Hfuel; lia|clear - Hfv; lia].
  Qed.
End Struct2Any.

(* ================================================================================================================================
   2. Externally tagged enums (script of Proofs/ValueDeAgreeEnum.v, Section Enum2)
   ================================================================================================================================ *)
Section Enum2Any.
  Variable NR : numlit -> num -> Prop.
  Variable cf : cfg.
  Variable fx : fenv.
  Local Notation E := (mkEnv RSlice TEof cf).
  Local Notation shp2 := (shape2 NR).
  Local Notation shp2_elems := (shape2_elems NR).
  Local Notation shp2_members := (shape2_members NR).
  Local Notation agree_at2 := (ValueDeAgreeAp2.agree_at2 NR cf fx).

  (* ---- the text side, named ------------------------------------------------------------------------------------------------------------ *)
  Definition payload_text (f : nat) (vr : variant) (s3 : st) : tres (dval * st) :=
    match vr with
    | VUnit => deserialize_unit E s3
    | VNewtype t1 => de_typed f E t1 s3
    | VTuple ts => tmap DSeq (deserialize_seq E (fun s'' => de_tuple f E ts true s'') s3)
    | VStruct fields => de_struct f E fields s3
    end.

  Definition enum_body_map (f : nat) (vs : list (bytes * variant)) (s' : st) : tres (dval * st) :=
    let+ (name, v, s2) := deserialize_str E (visit_variant vs) s' in
    let^ s3 := parse_object_colon E s2 in
    tmap (DVariant name) (payload_text f v s3).

  Definition enum_body_unit (vs : list (bytes * variant)) (s' : st) : tres (dval * st) :=
    let+ (name, v, s2) := deserialize_str E (visit_variant vs) s' in
    match v with
    | VUnit => TOk (DVariant name DUnit, s2)
    | _ => TUnpos MInvalidType s2
    end.

  Lemma de_typed_enum_S f vs s : de_typed (S f) E (TEnum vs) s = deserialize_enum E (enum_body_map f vs) (enum_body_unit vs) s.
  Proof. reflexivity. Qed.

  (* what deserialize_enum does with the result of the variant access *)
  Definition enum_after {A} (r : tres (A * st)) : tres (A * st) :=
    match r with
    | TOk (a, s3) =>
      let^ s4 := leave E s3 in
      let^ (o2, s5) := parse_whitespace E s4 in
      match o2 with
      | Some c => if c =? 125 then TOk (a, discard s5) else lift (error E s5 ExpectedSomeValue)
      | None => lift (error E s5 EofWhileParsingObject)
      end
    | TUnpos k s3 => let^ s4 := leave E s3 in TUnpos k s4
    | r => r
    end.

  Lemma deserialize_enum_obj {A} (bm bu : st -> tres (A * st)) s s1 s2 :
    parse_whitespace E s = Ok (Some 123, s1) -> enter E s1 = Ok s2 -> deserialize_enum E bm bu s = enum_after (bm (discard s2)).
  Proof. intros Hpw Hen. unfold deserialize_enum. rewrite Hpw. cbn [lift tbind]. change (123 =? 123) with true. cbv iota. rewrite Hen. cbn [lift tbind]. unfold enum_after. destruct (bm (discard s2)) as [[a s3]| | | |]; reflexivity. Qed.

  Lemma enum_after_fail {A} (r : tres (A * st)) : not_ok r -> not_ok (enum_after r).
  Proof.
    intros H a. unfold enum_after. destruct r as [[x s3]| | | |]; try discriminate.
    - exfalso. exact (H _ eq_refl).
    - destruct (leave E s); cbn [lift tbind]; discriminate.
  Qed.

  (* something else than the closing brace follows the payload *)
  Lemma enum_after_blocked {A} (a : A) s3 w b r : ws_ok w = true -> ws_byte b = false -> b <> 125 -> rest s3 = w ++ b :: r ->
    not_ok (enum_after (TOk (a, s3))).
  Proof.
    intros Hw Hb H125 Hr x. unfold enum_after.
    destruct (leave E s3) as [s4| | |] eqn:Hl; cbn [lift tbind]; try discriminate.
    apply leave_inv in Hl as [Hr4 _]. rewrite Hr in Hr4.
    destruct (pws_head cf s4 w b r Hw Hb Hr4) as (s5 & Hpw & _). rewrite Hpw. cbn [lift tbind].
    apply N.eqb_neq in H125. rewrite H125. unfold error, lift. discriminate.
  Qed.

  Lemma enum_after_stuck {A} (a : A) s3 : stuck (rest s3) -> not_ok (enum_after (TOk (a, s3))).
  Proof.
    intros (b & r & Hr & Hb). apply (enum_after_blocked a s3 [] b r eq_refl); [| |exact Hr]; destruct Hb as [->|[->| ->]]; try reflexivity; discriminate.
  Qed.

  Lemma enum_after_ok {A} (a : A) n s s1 s2 s3 wl rst :
    dbudget cf (S n) (depth s) -> enter E s1 = Ok s2 -> depth s1 = depth s ->
    depth (discard s2) = (if limit_disabled cf then depth s else depth s - 1) ->
    ws_ok wl = true -> rest s3 = wl ++ 125 :: rst -> depth s3 = depth (discard s2) ->
    exists s5, enum_after (TOk (a, s3)) = TOk (a, s5) /\ rest s5 = rst /\ depth s5 = depth s.
  Proof.
    intros Hdb Hen Hd1 Hd2 Hwl Hr3 Hd3. unfold enum_after.
    destruct (leave_fwd cf s3) as (s4 & Hlv & Hr4 & Hd4).
    { intros Hl. specialize (Hdb Hl). rewrite Hd3, Hd2, Hl. lia. }
    rewrite Hlv. cbn [lift tbind]. rewrite Hr3 in Hr4.
    destruct (pws_head cf s4 wl 125 rst Hwl eq_refl Hr4) as (s5 & Hpw & Hr5 & Hd5). rewrite Hpw. cbn [lift tbind].
    change (125 =? 125) with true. cbv iota. eexists. split; [reflexivity|]. split; [rewrite discard_rest, Hr5; reflexivity|].
    rewrite discard_depth, Hd5, Hd4, Hd3, Hd2. unfold dbudget in Hdb. destruct (limit_disabled cf); [reflexivity|].
    specialize (Hdb eq_refl). lia.
  Qed.

  (* ---- the payload of a variant ------------------------------------------------------------------------------------------------------------ *)
  Definition variant_ok (vr : variant) : Prop :=
    match vr with
    | VUnit => True
    | VNewtype t1 => agree_at2 t1
    | VTuple ts => forall t, In t ts -> agree_at2 t
    | VStruct fs => forall p, In p fs -> agree_at2 (snd p)
    end.

  Lemma payload_agree vr c x f fv s w rst :
    variant_ok vr -> wfb c = true -> denote cf c = Some x -> shp2 c x -> claim_variant (claim_ap fx fv) vr x = true -> wf_value cf x = true ->
    ws_ok w = true -> follow_ok rst -> dbudget cf (cdepth c) (depth s) -> rest s = w ++ render c ++ rst ->
    (vdepth vr + vfuel c <= f)%nat -> (vdepth vr < fv)%nat ->
    okrel2 unborrow (variant_payload_owned (de_value_owned fv cf fx) vr (Some x)) (payload_text f vr s) s rst.
  Proof.
    intros Hvr Hwf Hden Hsh Hcl Hwv Hw Hfol Hdb Hr Hfuel Hfv.
    destruct vr as [|t1|ts|fields]; cbn [variant_ok vdepth claim_variant variant_payload_owned payload_text] in *.
    - (* unit *)
      change (match x with VNull => VOk DUnit | _ => verr MInvalidType end) with (de_value_owned 2 cf fx TUnit x).
      destruct f as [|f]; [lia|]. change (deserialize_unit E s) with (de_typed (S f) E TUnit s).
      apply (agree_plain_ap NR cf fx 1 TUnit eq_refl c x (S f) 2%nat s w rst); try assumption; try reflexivity.
    - (* newtype *) apply (Hvr c x f fv s w rst); assumption.
    - (* tuple *)
      destruct (render_first c Hwf) as (b & r & Hren & Hbws & _).
      pose proof Hr as Hr0. rewrite Hren in Hr. revert Hr. lnorm. intros Hr.
      destruct (first_not c b r Hwf Hren) as (_ & Hn91 & _).
      assert (Hrej : (forall w0 es, c <> CArr w0 es) -> not_ok (tmap DSeq (deserialize_seq E (fun s'' => de_tuple f E ts true s'') s))).
      { intros Hc. destruct f as [|f]; [pose proof (vfuel_pos c); lia|].
        intros a. apply (reject_not_ok cf (TTuple ts) (S f) s w b (r ++ rst) Hw Hbws Hr). cbn [rejects]. apply Hn91, Hc. }
      destruct c as [| | |n|ps|w0 es|w0 ms]; destruct x as [|[|]| | |l|m]; cbn [shape2 shape] in Hsh; try discriminate Hsh; try contradiction;
        unfold verr.
      all: try (apply okrel2_not_ok; apply Hrej; intros; discriminate).
      cbn [wfb denote] in Hwf, Hden. apply andb_prop in Hwf as [Hw0 Hwfe].
      destruct (denote_elems cf es) as [l'|] eqn:Hde; [|discriminate Hden]. injection Hden as <-.
      rewrite render_arr in Hr0. revert Hr0. lnorm. intros Hr0.
      destruct (open_frame cf 91 _ (cdepth_elems es) s w Hw eq_refl Hr0 Hdb) as (s1 & s2 & Hpw & Hen & Hrb & Hd1 & Hd2 & Hdb2).
      unfold deserialize_seq. rewrite Hpw. cbn [lift tbind]. change (91 =? 91) with true. cbv iota.
      cbn [vfuel] in Hfuel. cbn [wf_value] in Hwv. apply andb_prop in Hcl as [Hne Hcl].
      assert (Hta := tuple_array NR cf fx DSeq ts w0 es l' f fv s s1 s2 rst (lmax_depth ts)
                       (fun a b' Hab => f_equal DSeq Hab) (fun t Hin => conj (Hvr t Hin) (lmax_depth_in' ts t Hin))
                       Hw0 Hwfe Hde Hsh Hcl Hwv Hdb Hen Hrb Hd1 Hd2 Hdb2).
      assert (Hf1 : (lmax_depth ts + sfuel es <= f)%nat) by (clear - Hfuel; lia).
      assert (Hf2 : (lmax_depth ts < fv)%nat) by (clear - Hfv; lia). specialize (Hta Hf1 Hf2).
      destruct l' as [|x0 l'']; [|exact Hta].
      (* `[]`: the Value route answers visit_unit; the text route misses a component (the variant has one: [claim_ap fx]) *)
      destruct ts as [|t ts']; [discriminate Hne|]. exact Hta.
    - (* struct *)
      destruct (render_first c Hwf) as (b & r & Hren & Hbws & _).
      pose proof Hr as Hr0. rewrite Hren in Hr. revert Hr. lnorm. intros Hr.
      destruct (first_not c b r Hwf Hren) as (_ & Hn91 & Hn123 & _).
      assert (HIH' : forall p, In p fields -> agree_at2 (snd p) /\ (ty_depth (snd p) <= S (fmax_depth fields))%nat).
      { intros p Hp. split; [apply Hvr, Hp|]. pose proof (fmax_depth_in fields p Hp). lia. }
      destruct c as [| | |n|ps|w0 es|w0 ms]; destruct x as [|[|]| | |l|m]; cbn [shape2 shape] in Hsh; try discriminate Hsh; try contradiction;
        unfold verr; try discriminate Hcl.
      all: try (apply okrel2_not_ok; apply (struct_reject cf fields f s w b (r ++ rst) Hw Hbws Hr); [apply Hn91|apply Hn123]; intros; discriminate).
      apply (struct_obj NR cf fx fields w0 ms m f fv s w rst (S (fmax_depth fields))); try assumption; [clear - Hfuel; lia|clear - Hfv; lia].
  Qed.

  (* ---- enums ----------------------------------------------------------------------------------------------------------------------------- *)
  Lemma enum_reject vs f s w b r : ws_ok w = true -> ws_byte b = false -> rest s = w ++ b :: r -> b <> 123 -> b <> 34 ->
    not_ok (de_typed (S f) E (TEnum vs) s).
  Proof.
    intros Hw Hb Hr H123 H34 a. rewrite de_typed_enum_S. destruct (pws_head cf s w b r Hw Hb Hr) as (s1 & Hpw & _).
    unfold deserialize_enum. rewrite Hpw. cbn [lift tbind]. apply N.eqb_neq in H123, H34. rewrite H123, H34. unfold peek_error, lift. discriminate.
  Qed.

  Lemma agree_enum2 vs : (forall p, In p vs -> variant_ok (snd p)) -> agree_at2 (TEnum vs).
  Proof.
    intros HIH c v fuel fv s w rst Hwf Hden Hsh Hcl Hwv Hw Hfol Hdb Hr Hfuel Hfv. rewrite ty_depth_enum in Hfuel, Hfv.
    destruct fuel as [|f]; [lia|]. destruct fv as [|fv]; [lia|].
    destruct (render_first c Hwf) as (b & r & Hren & Hbws & _).
    pose proof Hr as Hr0. rewrite Hren in Hr. revert Hr. lnorm. intros Hr.
    destruct (first_not c b r Hwf Hren) as (_ & _ & Hn123 & Hn34 & _).
    destruct c as [| | |n|ps|w0 es|w0 ms]; destruct v as [|[|]| |sv|l|m]; cbn [shape2 shape] in Hsh; try discriminate Hsh; try contradiction;
      cbn [de_value_owned]; unfold verr.
    all: try (apply okrel2_not_ok; apply (enum_reject vs f s w b (r ++ rst) Hw Hbws Hr); [apply Hn123|apply Hn34]; intros; discriminate).
    - (* "Variant" *)
      cbn [wfb denote] in Hwf, Hden. destruct (str_text ps) as [sv'|] eqn:Htext; [|discriminate Hden]. injection Hden as <-.
      cbn [render] in Hr0. unfold render_str in Hr0. revert Hr0. lnorm. intros Hr0.
      destruct (pws_head cf s w 34 _ Hw eq_refl Hr0) as (s1 & Hpw & Hr1 & Hd1).
      rewrite de_typed_enum_S. unfold deserialize_enum. rewrite Hpw. cbn [lift tbind]. change (34 =? 123) with false. change (34 =? 34) with true. cbv iota.
      destruct (str_accept cf (visit_variant vs) ps sv' s1 [] rst Hwf Htext eq_refl) as (bw & s2 & Hds & Hr2 & Hd2).
      { rewrite Hr1. unfold render_str. lnorm. reflexivity. }
      unfold enum_body_unit. rewrite Hds. unfold visit_enum_owned, visit_variant.
      destruct (index_of sv' vs) as [[i vr]|]; cbn [of_visit1 vbind fix_position tbind verr].
      + destruct vr; cbn [variant_payload_owned vmap vbind verr]; try (apply okrel2_not_ok; intros a; discriminate).
        cbn [okrel2]. exists (DVariant sv' DUnit), s2. split; [reflexivity|]. split; [reflexivity|]. split; [exact Hr2|congruence].
      + apply okrel2_not_ok. intros a. discriminate.
    - (* { .. } *)
      pose proof (obj_members NR cf w0 ms m Hden Hsh Hwv) as Hdm.
      cbn [wfb] in Hwf. apply andb_prop in Hwf as [Hw0 Hwfm].
      rewrite render_obj in Hr0. revert Hr0. lnorm. intros Hr0.
      destruct (open_frame cf 123 _ (cdepth_members ms) s w Hw eq_refl Hr0 Hdb) as (s1 & s2 & Hpw & Hen & Hrb & Hd1 & Hd2 & Hdb2).
      rewrite de_typed_enum_S, (deserialize_enum_obj _ _ s s1 s2 Hpw Hen).
      destruct ms as [|w1 kp w2 w3 cx w4 rest0].
      + (* {} *)
        destruct m; [|contradiction]. cbn [map_enum_owned]. unfold verr. apply okrel2_not_ok. apply enum_after_fail.
        cbn [map_text] in Hrb. unfold enum_body_map. intros a.
        destruct (pws_head cf (discard s2) w0 125 rst Hw0 eq_refl Hrb) as (s3 & Hpw3 & _).
        unfold deserialize_str. rewrite Hpw3. cbn [lift tbind]. change (125 =? 34) with false. cbv iota.
        destruct (fix_position E (peek_invalid_type E s3)) as [[[nm vr] s4]| | | |] eqn:Hfp; cbn [tbind]; try discriminate.
        exfalso. exact (fix_position_not_ok E _ (pit_not_ok cf s3) _ Hfp).
      + (* {"name": payload ..} *)
        destruct m as [|[name x] m']; [contradiction|].
        cbn [wfb_members] in Hwfm. apply andb_prop in Hwfm as [Hwfm Hwfr]. apply andb_prop in Hwfm as [Hwfm Hw4].
        apply andb_prop in Hwfm as [Hwfm Hwfc]. apply andb_prop in Hwfm as [Hwfm Hw3]. apply andb_prop in Hwfm as [Hwfm Hw2].
        apply andb_prop in Hwfm as [Hw1 Hkok].
        cbn [denote_members] in Hdm. destruct (str_text kp) as [kb|] eqn:Hkt; [|discriminate].
        destruct (denote cf cx) as [vx|] eqn:Hdc; [|discriminate].
        destruct (denote_members cf rest0) as [vs0|] eqn:Hdr; [|discriminate]. injection Hdm as -> -> ->.
        cbn [shape2_members fst snd] in Hsh. destruct Hsh as (Hkp & Hshc & Hshr).
        cbn [wf_value forallb fst snd] in Hwv. apply andb_prop in Hwv as [Hwv _]. apply andb_prop in Hwv as [Hwvc Hwvr]. apply andb_prop in Hwvc as [Hu Hwvc].
        cbn [cdepth_members] in Hdb2. cbn [vfuel mfuel] in Hfuel. cbn [claim_ap] in Hcl.
        rewrite map_text_cons in Hrb. cbn [app] in Hrb.
        set (rst1 := w4 ++ tail_members rest0 ++ 125 :: rst) in *.
        destruct (str_accept cf (visit_variant vs) kp name (discard s2) w1 (w2 ++ 58 :: w3 ++ render cx ++ rst1) Hkok Hkt Hw1)
          as (bw & s3 & Hds & Hr3 & Hd3).
        { rewrite Hrb. unfold rst1. lnorm. reflexivity. }
        unfold enum_body_map. rewrite Hds. unfold visit_variant.
        destruct (index_of name vs) as [[i vr]|] eqn:Hidx; cbn [fix_position tbind].
        2:{ (* unknown variant *)
            assert (Hv : exists c0 l0 k0, map_enum_owned ((name, x) :: m') (visit_enum_owned (de_value_owned fv cf fx) vs) = VErr c0 l0 k0).
            { cbn [map_enum_owned]. destruct m'; [|unfold verr; eauto]. unfold visit_enum_owned, visit_variant. rewrite Hidx.
              cbn [of_visit1]. unfold verr. cbn [vbind]. eauto. }
            destruct Hv as (c0 & l0 & k0 & ->). apply okrel2_not_ok. apply enum_after_fail. intros a. discriminate. }
        destruct (colon_step cf s3 w2 (w3 ++ render cx ++ rst1) Hw2 Hr3) as (s4 & Hcol & Hr4 & Hd4).
        rewrite Hcol. cbn [lift tbind].
        destruct (index_of_In name vs i vr Hidx) as [n0 Hin]. pose proof (HIH (n0, vr) Hin) as Hvr. pose proof (vmax_depth_in vs (n0, vr) Hin) as HvD.
        cbn [snd] in Hvr, HvD.
        assert (Hpay := payload_agree vr cx x f fv s4 w3 rst1 Hvr Hwfc Hdc Hshc Hcl Hwvc Hw3 (follow_members_tail w4 rest0 rst Hw4)).
        rewrite Hd4, Hd3 in Hpay. specialize (Hpay (dbudget_le _ _ _ _ (Nat.le_max_l _ _) Hdb2) Hr4).
        assert (Hf1 : (vdepth vr + vfuel cx <= f)%nat) by (clear - Hfuel HvD; lia).
        assert (Hf2 : (vdepth vr < fv)%nat) by (clear - Hfv HvD; lia). specialize (Hpay Hf1 Hf2).
        assert (Hval : map_enum_owned ((name, x) :: m') (visit_enum_owned (de_value_owned fv cf fx) vs)
                       = match m' with
                         | [] => vmap (DVariant name) (variant_payload_owned (de_value_owned fv cf fx) vr (Some x))
                         | _ :: _ => verr MInvalidValue
                         end).
        { cbn [map_enum_owned]. destruct m'; [|reflexivity]. unfold visit_enum_owned, visit_variant. rewrite Hidx. reflexivity. }
        rewrite Hval. clear Hval.
        destruct (variant_payload_owned (de_value_owned fv cf fx) vr (Some x)) as [d| | |]; cbn [okrel2] in Hpay; try contradiction.
        * destruct Hpay as (d' & s5 & Hpt & Hud & Hr5 & Hd5). rewrite Hpt. cbn [tmap tbind].
          destruct m' as [|kv2 m''].
          -- destruct rest0; [|contradiction]. cbn [vmap vbind okrel2]. unfold rst1 in Hr5. cbn [tail_members app] in Hr5.
             destruct (enum_after_ok (DVariant name d') (cdepth_members (MCons w1 kp w2 w3 cx w4 MNil)) s s1 s2 s5 w4 rst Hdb Hen Hd1 Hd2 Hw4 Hr5)
               as (s6 & Hea & Hr6 & Hd6).
             { rewrite Hd5, Hd4, Hd3. reflexivity. }
             rewrite Hea. exists (DVariant name d'), s6. split; [reflexivity|]. split; [cbn [unborrow]; rewrite Hud; reflexivity|]. auto.
          -- destruct rest0 as [|w1' k' w2' w3' c' w4' rest1]; [contradiction|]. unfold verr. apply okrel2_not_ok.
             unfold rst1 in Hr5. cbn [tail_members app] in Hr5.
             eapply (enum_after_blocked (DVariant name d') s5 w4 44); [exact Hw4|reflexivity|discriminate|exact Hr5].
        * assert (Hno : not_ok (enum_after (tmap (DVariant name) (payload_text f vr s4)))).
          { destruct (payload_text f vr s4) as [[d' s5]| | | |] eqn:Hpt; cbn [tmap tbind]; try (apply enum_after_fail; intros a; discriminate).
            apply enum_after_stuck. exact (Hpay _ _ eq_refl). }
          destruct m'; unfold verr; cbn [vmap vbind]; apply okrel2_not_ok; exact Hno.
  Qed.
End Enum2Any.

(* ================================================================================================================================
   3. Every owned type program without f32
   ================================================================================================================================ *)
(* [fr]: the build has float_roundtrip (f64 targets are in the universe only then: otherwise the two routes round differently,
   ValueDeAgreeAp.f64_default_path_differs).  f64 MAP KEYS are in the universe in every build: the Value route runs the text
   deserializer on the key (deserialize_numeric_key!), as the text route does. *)
Fixpoint agree_ty_ap (fr : bool) (t : ty) : bool :=
  match t with
  | TBool | TUnit | TUnitStruct | TStr | TChar | TIgnored | TValue | TBytes | TInt _ => true
  | TF64 => fr
  | TOption t1 | TNewtype t1 | TSeq t1 => agree_ty_ap fr t1
  | TTuple ts | TTupleStruct ts => forallb (agree_ty_ap fr) ts
  | TMap k t1 => agree_kty k && agree_ty_ap fr t1
  | TStruct fs => forallb (fun p => agree_ty_ap fr (snd p)) fs
  | TEnum vs => forallb (fun p => match snd p with
                                  | VUnit => true
                                  | VNewtype t1 => agree_ty_ap fr t1
                                  | VTuple ts => forallb (agree_ty_ap fr) ts
                                  | VStruct fs => forallb (fun q => agree_ty_ap fr (snd q)) fs
                                  end) vs
  | _ => false
  end.

Section AllAp.
  Variable NR : numlit -> num -> Prop.
  Variable cf : cfg.
  Variable fx : fenv.
  Hypothesis Hap : arbitrary_precision cf = true.
  Local Notation agree_at2 := (ValueDeAgreeAp2.agree_at2 NR cf fx).

  Theorem agree_all_ap : forall n t, (ty_depth t <= n)%nat -> agree_ty_ap (float_roundtrip cf) t = true -> agree_at2 t.
  Proof.
    induction n as [|n IH]; intros t Hn Ht; [pose proof (ty_depth_pos' t); lia|].
    destruct t; cbn [agree_ty_ap] in Ht; try discriminate Ht; try (apply (agree_plain_ap NR cf fx); reflexivity).
    - apply (agree_value_ap NR cf fx Hap).
    - apply (agree_int_ap NR cf fx Hap).
    - apply (agree_f64_ap NR cf fx Hap). exact Ht.
    - apply (agree_bytes2 NR cf fx Hap).
    - apply (agree_option2 NR cf fx), IH; [cbn [ty_depth] in Hn; lia|exact Ht].
    - apply (agree_newtype2 NR cf fx), IH; [cbn [ty_depth] in Hn; lia|exact Ht].
    - apply (agree_seq2 NR cf fx), IH; [cbn [ty_depth] in Hn; lia|exact Ht].
    - apply (agree_tuple_gen2 NR cf fx _ ts (or_introl eq_refl)). intros t' Hin. apply IH.
      + pose proof (lmax_depth_in' ts t' Hin). rewrite (proj1 (ty_depth_tuple ts)) in Hn. lia.
      + rewrite forallb_forall in Ht. apply Ht, Hin.
    - apply (agree_tuple_gen2 NR cf fx _ ts (or_intror eq_refl)). intros t' Hin. apply IH.
      + pose proof (lmax_depth_in' ts t' Hin). rewrite (proj2 (ty_depth_tuple ts)) in Hn. lia.
      + rewrite forallb_forall in Ht. apply Ht, Hin.
    - apply andb_prop in Ht as [Hk Ht]. apply (agree_map2 NR cf fx); [exact Hk|]. apply IH; [cbn [ty_depth] in Hn; lia|exact Ht].
    - apply (agree_struct2 NR cf fx). intros p Hp. apply IH.
      + pose proof (fmax_depth_in fields p Hp). rewrite ty_depth_struct in Hn. lia.
      + rewrite forallb_forall in Ht. apply Ht, Hp.
    - apply (agree_enum2 NR cf fx). intros p Hp. rewrite forallb_forall in Ht. specialize (Ht p Hp).
      pose proof (vmax_depth_in variants p Hp) as Hd. rewrite ty_depth_enum in Hn.
      destruct (snd p) as [|t1|ts|fs]; cbn [variant_ok vdepth] in *.
      + exact I.
      + apply IH; [lia|exact Ht].
      + intros t' Hin. apply IH; [pose proof (lmax_depth_in' ts t' Hin); lia|]. rewrite forallb_forall in Ht. apply Ht, Hin.
      + intros q Hq. apply IH; [pose proof (fmax_depth_in fs q Hq); lia|]. rewrite forallb_forall in Ht. apply Ht, Hq.
  Qed.
End AllAp.

Lemma agree_ty_ap_owned fr : forall n t, (ty_depth t <= n)%nat -> agree_ty_ap fr t = true -> owned_ty t = true.
Proof.
  induction n as [|n IH]; intros t Hn Ht; [pose proof (ty_depth_pos' t); lia|].
  destruct t; cbn [agree_ty_ap] in Ht; try discriminate Ht; cbn [owned_ty]; try reflexivity.
  - apply IH; [cbn [ty_depth] in Hn; lia|exact Ht].
  - apply IH; [cbn [ty_depth] in Hn; lia|exact Ht].
  - apply IH; [cbn [ty_depth] in Hn; lia|exact Ht].
  - apply forallb_forall. intros t' Hin. apply IH.
    + pose proof (lmax_depth_in' ts t' Hin). rewrite (proj1 (ty_depth_tuple ts)) in Hn. lia.
    + rewrite forallb_forall in Ht. apply Ht, Hin.
  - apply forallb_forall. intros t' Hin. apply IH.
    + pose proof (lmax_depth_in' ts t' Hin). rewrite (proj2 (ty_depth_tuple ts)) in Hn. lia.
    + rewrite forallb_forall in Ht. apply Ht, Hin.
  - apply andb_prop in Ht as [_ Ht]. apply IH; [cbn [ty_depth] in Hn; lia|exact Ht].
  - apply forallb_forall. intros p Hp. apply IH.
    + pose proof (fmax_depth_in fields p Hp). rewrite ty_depth_struct in Hn. lia.
    + rewrite forallb_forall in Ht. apply Ht, Hp.
  - apply forallb_forall. intros p Hp. rewrite forallb_forall in Ht. specialize (Ht p Hp).
    pose proof (vmax_depth_in variants p Hp) as Hd. rewrite ty_depth_enum in Hn.
    destruct (snd p) as [|t1|ts|fs]; cbn [vdepth] in *.
    + reflexivity.
    + apply IH; [lia|exact Ht].
    + apply forallb_forall. intros t' Hin. apply IH; [pose proof (lmax_depth_in' ts t' Hin); lia|]. rewrite forallb_forall in Ht. apply Ht, Hin.
    + apply forallb_forall. intros q Hq. apply IH; [pose proof (fmax_depth_in fs q Hq); lia|]. rewrite forallb_forall in Ht. apply Ht, Hq.
Qed.

(* ================================================================================================================================
   4. The lifted theorem
   ================================================================================================================================ *)
From SJ Require Import Model.Sval Model.Ser Model.ValueSer Spec.Layout Proofs.SerBase Proofs.SerMain Proofs.SerFinal Proofs.ValueDeText.

(* C16 under arbitrary_precision.  For a well-formed Value v of this build (every Number holds an RFC 8259 literal) and a type
   program T of [agree_ty_ap], on the (T, v) pairs of [claim_ap]:
   from_value::<T>(v), T::deserialize(&v) and from_str::<T>(&to_string(&v)) all succeed with equal results (up to which strings
   were handed over borrowed) or all fail. *)
Theorem C16_ap_lifted : forall cf fx fmt32 fmt64 t v,
  arbitrary_precision cf = true -> ryu_json fmt32 fmt64 ->
  agree_ty_ap (float_roundtrip cf) t = true -> wf_value cf v = true -> claim_ap fx (value_de_fuel t) t v = true ->
  exists bufs c, serialize cf fmt32 fmt64 Compact (sval_of_value v) = Ok bufs /\ concat bufs = render c /\
    ((limit_disabled cf = false -> (cdepth c <= 127)%nat) ->
     agree (from_value_owned cf fx t v) (from_input_typed (mkEnv RSlice TEof cf) t (concat bufs))
     /\ agree (from_value_ref cf fx t v) (from_input_typed (mkEnv RSlice TEof cf) t (concat bufs))
     /\ same_mod_borrow (from_value_owned cf fx t v) (from_value_ref cf fx t v)).
Proof.
  intros cf fx f32 f64 t v Hap HR Ht W Hcl.
  destruct (ap_value_text cf f32 f64 v Hap HR W) as (bufs & c & Es & C & G1 & Dn & Sh).
  exists bufs, c. split; [exact Es|]. split; [exact C|]. intros Hdepth.
  pose proof (owned_ref_agree cf fx t v (agree_ty_ap_owned _ (ty_depth t) t (le_n _) Ht)) as Hsame.
  assert (Hag : agree (from_value_owned cf fx t v) (from_input_typed (mkEnv RSlice TEof cf) t (concat bufs))).
  { rewrite C. unfold from_input_typed, from_value_owned.
    assert (Hdb : dbudget cf (cdepth c) (depth (init_st (render c)))).
    { intros Hl. specialize (Hdepth Hl). cbn [init_st depth]. rewrite DEPTH0_eq. lia. }
    assert (Hfuel : (ty_depth t + vfuel c <= typed_fuel t (render c))%nat).
    { pose proof (vfuel_bound c). unfold typed_fuel. lia. }
    assert (Hfv : (1 + ty_depth t <= value_de_fuel t)%nat) by (unfold value_de_fuel; lia).
    assert (Hr0 : rest (init_st (render c)) = [] ++ render c ++ []) by (cbn [init_st rest app]; rewrite app_nil_r; reflexivity).
    pose proof (agree_all_ap (NRser cf f32 f64) cf fx Hap (ty_depth t) t (le_n _) Ht c v (typed_fuel t (render c)) (value_de_fuel t)
                  (init_st (render c)) [] [] G1 Dn Sh Hcl W eq_refl I Hdb Hr0 Hfuel Hfv) as H.
    unfold agree. destruct (de_value_owned (value_de_fuel t) cf fx t v) as [d| | |]; cbn [okrel2] in H; try contradiction.
    - destruct H as (d' & s' & Hde & Hu & Hr & _). rewrite Hde. cbn [DeTyped.tbind].
      destruct (de_end_nil cf s' Hr) as [s1 He]. rewrite He. cbn [DeTyped.lift DeTyped.tbind]. exists d'. auto.
    - intros b. destruct (de_typed (typed_fuel t (render c)) (mkEnv RSlice TEof cf) t (init_st (render c))) as [[d' s']| | | |] eqn:Hde;
        cbn [DeTyped.tbind]; try discriminate.
      specialize (H _ _ eq_refl).
      destruct (de_end (mkEnv RSlice TEof cf) s') as [s1| | |] eqn:He; cbn [DeTyped.lift DeTyped.tbind]; try discriminate.
      exfalso. exact (de_end_stuck cf s' H _ He). }
  split; [exact Hag|]. split; [exact (agree_transfer_ap _ _ _ Hsame Hag)|exact Hsame].
Qed.



(* ================================================================================================================================
   5. Reading the claim predicate
   ================================================================================================================================ *)
(* [claim_ap] refines [claimb] ... *)
Lemma claim_list_impl (g h : ty -> value -> bool) ts : (forall t x, g t x = true -> h t x = true) ->
  forall l, claim_list g ts l = true -> claim_list h ts l = true.
Proof.
  intros Hgh. induction ts as [|t ts IH]; intros l H; [exact H|]. destruct l as [|x l]; [exact H|].
  cbn [claim_list] in *. apply andb_prop in H as [H1 H2]. rewrite (Hgh t x H1), (IH l H2). reflexivity.
Qed.

Lemma claim_fields_impl (g h : ty -> value -> bool) fields m : (forall t x, In x (map snd m) -> g t x = true -> h t x = true) ->
  claim_fields g fields m = true -> claim_fields h fields m = true.
Proof.
  unfold claim_fields. induction m as [|kv m IH]; intros Hgh H; [reflexivity|]. cbn [forallb map] in *.
  apply andb_prop in H as [H1 H2]. rewrite IH; [|intros t x Hin; apply Hgh; right; exact Hin|exact H2].
  destruct (index_of (fst kv) fields) as [[i t']|]; [|reflexivity]. rewrite (Hgh t' (snd kv) (or_introl eq_refl) H1). reflexivity.
Qed.

Lemma claim_list_impl_in (g h : ty -> value -> bool) ts : forall l, (forall t x, In x l -> g t x = true -> h t x = true) ->
  claim_list g ts l = true -> claim_list h ts l = true.
Proof.
  induction ts as [|t ts IH]; intros l Hgh H; [exact H|]. destruct l as [|x l]; [exact H|].
  cbn [claim_list] in *. apply andb_prop in H as [H1 H2]. rewrite (Hgh t x (or_introl eq_refl) H1).
  rewrite (IH l); [reflexivity|intros t' x' Hin; apply Hgh; right; exact Hin|exact H2].
Qed.

Theorem claim_ap_claimb fx : forall f t v, claim_ap fx f t v = true -> claimb f t v = true.
Proof.
  induction f as [|f IH]; intros t v H; [reflexivity|].
  destruct t; cbn [claim_ap claimb] in *; try reflexivity.
  - destruct v; try reflexivity; apply IH, H.
  - apply IH, H.
  - destruct v; try reflexivity. rewrite forallb_forall in *. intros x Hx. apply IH, H, Hx.
  - destruct v; try reflexivity. exact (claim_list_impl _ _ ts (IH) _ H).
  - destruct v; try reflexivity. exact (claim_list_impl _ _ ts (IH) _ H).
  - destruct v; try reflexivity. rewrite forallb_forall in *. intros x Hx. apply IH, H, Hx.
  - destruct v; try reflexivity.
    + exact (claim_list_impl _ _ _ (IH) _ H).
    + apply (claim_fields_impl (claim_ap fx f) (claimb f)); [intros t x _; apply IH|exact H].
  - destruct v as [| | | | |m]; try reflexivity. destruct m as [|[name x] m']; [reflexivity|].
    destruct (index_of name variants) as [[i vr]|]; [|reflexivity].
    destruct vr as [|t1|ts|fs]; cbn [claim_variant] in *; try reflexivity.
    + apply IH, H.
    + destruct x; try reflexivity. apply andb_prop in H as [H1 H2]. rewrite H1. exact (claim_list_impl _ _ ts (IH) _ H2).
    + destruct x; try reflexivity; try exact H. apply (claim_fields_impl (claim_ap fx f) (claimb f)); [intros t x _; apply IH|exact H].
Qed.

(* ... and adds nothing on a Value whose number literals are all "harmless": none is `-0`, none reaches LIT_MAX bytes, all are in
   canonical spelling, and no object starts with the private token *)
Fixpoint clean_value (fx : fenv) (v : value) : bool :=
  match v with
  | VNum (NLit s) => negb (beq_bytes s neg_zero_lit) && short_lit s && canon_lit fx s
  | VArr l => forallb (clean_value fx) l
  | VObj l => match l with (k0, _) :: _ => negb (beq_bytes k0 NUMBER_TOKEN_V) | [] => true end
              && forallb (fun kv => clean_value fx (snd kv)) l
  | _ => true
  end.

Lemma clean_token_canon fx : forall v, clean_value fx v = true -> no_token v = true /\ canon_value fx v = true.
Proof.
  induction v using value_ind'; cbn [clean_value no_token canon_value]; intros Hc; try (split; reflexivity).
  - destruct n as [u|i|f|s]; try (split; reflexivity). apply andb_prop in Hc as [_ Hc]. split; [reflexivity|exact Hc].
  - rewrite !forallb_forall. rewrite forallb_forall in Hc. rewrite Forall_forall in H. split; intros x Hx; apply (H x Hx), Hc, Hx.
  - apply andb_prop in Hc as [Hk Hc]. rewrite Hk. cbn [andb]. rewrite !forallb_forall. rewrite forallb_forall in Hc. rewrite Forall_forall in H.
    split; intros x Hx; apply (H x Hx), Hc, Hx.
Qed.

Lemma clean_obj_in fx m x : clean_value fx (VObj m) = true -> In x (map snd m) -> clean_value fx x = true.
Proof.
  cbn [clean_value]. intros H Hin. apply andb_prop in H as [_ H]. rewrite forallb_forall in H.
  apply in_map_iff in Hin as (kv & <- & Hkv). apply H, Hkv.
Qed.

Theorem claim_ap_clean fx : forall f t v, clean_value fx v = true -> claimb f t v = true -> claim_ap fx f t v = true.
Proof.
  induction f as [|f IH]; intros t v Hc H; [reflexivity|].
  destruct t; cbn [claim_ap claimb] in *; try reflexivity.
  - (* Value *) destruct (clean_token_canon fx v Hc) as [-> ->]. reflexivity.
  - (* integers *) destruct v as [| |[u|i|fl|s]| | |]; try reflexivity. cbn [clean_value] in Hc.
    apply andb_prop in Hc as [Hc _]. apply andb_prop in Hc as [Hc _]. unfold f12b. destruct (beq_bytes s neg_zero_lit); [discriminate Hc|].
    rewrite andb_false_r. reflexivity.
  - (* f64 *) destruct v as [| |[u|i|fl|s]| | |]; try reflexivity. cbn [clean_value] in Hc.
    apply andb_prop in Hc as [Hc _]. apply andb_prop in Hc as [_ Hc]. exact Hc.
  - destruct v; try reflexivity; apply IH; assumption.
  - apply IH; assumption.
  - destruct v as [| | | |l|]; try reflexivity. cbn [clean_value] in Hc. rewrite forallb_forall in *. intros x Hx. apply IH; [apply Hc, Hx|apply H, Hx].
  - destruct v as [| | | |l|]; try reflexivity. cbn [clean_value] in Hc. rewrite forallb_forall in Hc.
    apply (claim_list_impl_in (claimb f) (claim_ap fx f) ts l); [|exact H]. intros t x Hin. apply IH, Hc, Hin.
  - destruct v as [| | | |l|]; try reflexivity. cbn [clean_value] in Hc. rewrite forallb_forall in Hc.
    apply (claim_list_impl_in (claimb f) (claim_ap fx f) ts l); [|exact H]. intros t x Hin. apply IH, Hc, Hin.
  - destruct v as [| | | | |m]; try reflexivity. rewrite forallb_forall in *. intros kv Hkv. apply IH; [|apply H, Hkv].
    apply (clean_obj_in fx m (snd kv) Hc), in_map, Hkv.
  - destruct v as [| | | |l|m]; try reflexivity.
    + cbn [clean_value] in Hc. rewrite forallb_forall in Hc.
      apply (claim_list_impl_in (claimb f) (claim_ap fx f) _ l); [|exact H]. intros t x Hin. apply IH, Hc, Hin.
    + apply (claim_fields_impl (claimb f) (claim_ap fx f)); [|exact H]. intros t x Hin. apply IH. exact (clean_obj_in fx m x Hc Hin).
  - destruct v as [| | | | |m]; try reflexivity. destruct m as [|[name x] m']; [reflexivity|].
    assert (Hcx : clean_value fx x = true) by (apply (clean_obj_in fx ((name, x) :: m') x Hc); left; reflexivity).
    destruct (index_of name variants) as [[i vr]|]; [|reflexivity].
    destruct vr as [|t1|ts|fs]; cbn [claim_variant] in *; try reflexivity.
    + apply IH; assumption.
    + destruct x as [| | | |l|]; try reflexivity. apply andb_prop in H as [H1 H2]. rewrite H1. cbn [andb].
      cbn [clean_value] in Hcx. rewrite forallb_forall in Hcx.
      apply (claim_list_impl_in (claimb f) (claim_ap fx f) ts l); [|exact H2]. intros t x Hin. apply IH, Hcx, Hin.
    + destruct x as [| | | |l|m2]; try reflexivity; try exact H.
      apply (claim_fields_impl (claimb f) (claim_ap fx f)); [|exact H]. intros t x Hin. apply IH. exact (clean_obj_in fx m2 x Hcx Hin).
Qed.

(* the lifted theorem on harmless Values: only the exclusions of the default build remain *)
Corollary C16_ap_lifted_clean : forall cf fx fmt32 fmt64 t v,
  arbitrary_precision cf = true -> ryu_json fmt32 fmt64 ->
  agree_ty_ap (float_roundtrip cf) t = true -> wf_value cf v = true -> clean_value fx v = true -> claimb (value_de_fuel t) t v = true ->
  exists bufs c, serialize cf fmt32 fmt64 Compact (sval_of_value v) = Ok bufs /\ concat bufs = render c /\
    ((limit_disabled cf = false -> (cdepth c <= 127)%nat) ->
     agree (from_value_owned cf fx t v) (from_input_typed (mkEnv RSlice TEof cf) t (concat bufs))
     /\ agree (from_value_ref cf fx t v) (from_input_typed (mkEnv RSlice TEof cf) t (concat bufs))
     /\ same_mod_borrow (from_value_owned cf fx t v) (from_value_ref cf fx t v)).
Proof.
  intros cf fx f32 f64 t v Hap HR Ht W Hc Hcl. apply C16_ap_lifted; try assumption. apply claim_ap_clean; assumption.
Qed.

(* ================================================================================================================================
   6. Instances and witnesses
   ================================================================================================================================ *)
From Coq Require Import Strings.String Strings.Ascii.
Definition bs (s : string) : bytes := map (fun a => N_of_ascii a) (list_ascii_of_string s).
Definition lnum (s : string) : value := VNum (NLit (bs s)).
Arguments bs s%string_scope.
Arguments lnum s%string_scope.
Definition ap3_cfa : cfg := mkCfg false false true false.        (* arbitrary_precision *)
Definition ap3_cfar : cfg := mkCfg false true true false.        (* arbitrary_precision + float_roundtrip *)
Local Notation Ea := (mkEnv RSlice TEof ap3_cfa).
Local Notation Ear := (mkEnv RSlice TEof ap3_cfar).

(* a map with an i128 key, a struct with a missing Option field and an unknown member (holding `-0`: never looked at), a tuple variant
   holding a byte buffer, a u128 beyond u64, an f64 given as `-0.0`, a Value with the literals 1E2, -0.0, 1.50 and an i8 *)
Definition ap3_ty : ty :=
  TMap (KInt Ty.I128)
    (TStruct [(bs "a", TOption TStr);
              (bs "b", TEnum [(bs "A", VUnit);
                              (bs "B", VTuple [TBytes; TInt Ty.U128; TF64; TValue; TInt Ty.I8]);
                              (bs "C", VStruct [(bs "x", TInt Ty.U128)]);
                              (bs "D", VNewtype (TSeq TValue))])]).
Definition ap3_v : value :=
  VObj [(bs "-5", VObj [(bs "b", VObj [(bs "B", VArr [VArr [lnum "1"; lnum "255"]; lnum "340282366920938463463374607431768211455"; lnum "-0.0";
                                                       VArr [lnum "1E2"; lnum "-0.0"; lnum "1.50"]; lnum "-128"])]);
                        (bs "zz", lnum "-0")])].
Definition ap3_text : bytes :=
  bs "{""-5"":{""b"":{""B"":[[1,255],340282366920938463463374607431768211455,-0.0,[1E2,-0.0,1.50],-128]},""zz"":-0}}".

Example C16_ap_ex_claim :
  agree_ty_ap true ap3_ty = true /\ wf_value ap3_cfar ap3_v = true /\ claim_ap ex_fx (value_de_fuel ap3_ty) ap3_ty ap3_v = true
  /\ ser_value ap3_v = ap3_text.
Proof. repeat split; vm_compute; reflexivity. Qed.

Definition ap3_result : dval :=
  DMap [(DInt (-5), DStruct [DNone; DVariant (bs "B")
          (DSeq [DBytes [1; 255]; DInt 340282366920938463463374607431768211455; DFloat 9223372036854775808;
                 DValue (Extract.Driver.show_value (VArr [lnum "1E2"; lnum "-0.0"; lnum "1.50"])); DInt (-128)])])].

Example C16_ap_ex_run :
  from_value_owned ap3_cfar ex_fx ap3_ty ap3_v = VOk ap3_result
  /\ from_value_ref ap3_cfar ex_fx ap3_ty ap3_v = VOk ap3_result
  /\ from_input_typed Ear ap3_ty ap3_text = TOk ap3_result.
Proof. repeat split; vm_compute; reflexivity. Qed.

(* the theorem applies to the instance (its hypotheses are satisfiable) *)
Example C16_ap_lifted_applies :
  exists bufs c, serialize ap3_cfar (fun _ => [48; 46; 49]) (fun _ => [49; 101; 49; 54]) Compact (sval_of_value ap3_v) = Ok bufs /\ List.concat bufs = render c /\
    ((limit_disabled ap3_cfar = false -> (cdepth c <= 127)%nat) ->
     agree (from_value_owned ap3_cfar ex_fx ap3_ty ap3_v) (from_input_typed Ear ap3_ty (List.concat bufs))
     /\ agree (from_value_ref ap3_cfar ex_fx ap3_ty ap3_v) (from_input_typed Ear ap3_ty (List.concat bufs))
     /\ same_mod_borrow (from_value_owned ap3_cfar ex_fx ap3_ty ap3_v) (from_value_ref ap3_cfar ex_fx ap3_ty ap3_v)).
Proof.
  apply (C16_ap_lifted ap3_cfar ex_fx _ _ ap3_ty ap3_v eq_refl ryu_json_instance); vm_compute; reflexivity.
Qed.

(* ---- every exclusion of this build is a real disagreement, also inside containers ------------------------------------------------------ *)
(* F12b: Vec<i8> on [1,-0] *)
Example F12b_in_vec :
  claim_ap ex_fx 3 (TSeq (TInt Ty.I8)) (VArr [lnum "1"; lnum "-0"]) = false
  /\ from_value_owned ap3_cfa ex_fx (TSeq (TInt Ty.I8)) (VArr [lnum "1"; lnum "-0"]) = VOk (DSeq [DInt 1; DInt 0])
  /\ from_input_typed Ea (TSeq (TInt Ty.I8)) (bs "[1,-0]") = TErr (Message MInvalidType) 5.
Proof. repeat split; vm_compute; reflexivity. Qed.
(* F12b: struct S { x: i64 } on {"x":-0} *)
Example F12b_in_struct :
  claim_ap ex_fx 4 (TStruct [(bs "x", TInt Ty.I64)]) (VObj [(bs "x", lnum "-0")]) = false
  /\ from_value_owned ap3_cfa ex_fx (TStruct [(bs "x", TInt Ty.I64)]) (VObj [(bs "x", lnum "-0")]) = VOk (DStruct [DInt 0])
  /\ from_input_typed Ea (TStruct [(bs "x", TInt Ty.I64)]) (bs "{""x"":-0}") = TErr (Message MInvalidType) 7.
Proof. repeat split; vm_compute; reflexivity. Qed.
(* F12b: BTreeMap<String, Option<i32>> on {"k":-0} *)
Example F12b_in_map :
  claim_ap ex_fx 4 (TMap KStr (TOption (TInt Ty.I32))) (VObj [(bs "k", lnum "-0")]) = false
  /\ from_value_ref ap3_cfa ex_fx (TMap KStr (TOption (TInt Ty.I32))) (VObj [(bs "k", lnum "-0")]) = VOk (DMap [(DStr (bs "k") true, DSome (DInt 0))])
  /\ from_input_typed Ea (TMap KStr (TOption (TInt Ty.I32))) (bs "{""k"":-0}") = TErr (Message MInvalidType) 7.
Proof. repeat split; vm_compute; reflexivity. Qed.
(* ... but not as a map KEY: the Value route reads an integer key with the text deserializer *)
Example neg_zero_key_agrees :
  from_value_owned ap3_cfa ex_fx (TMap (KInt Ty.I8) TUnit) (VObj [(bs "-0", VNull)]) = VErr (Message MInvalidType) 1 2
  /\ from_input_typed Ea (TMap (KInt Ty.I8) TUnit) (bs "{""-0"":null}") = TErr (Message MInvalidType) 4.
Proof. split; vm_compute; reflexivity. Qed.
(* F19: a newtype variant holding Vec<Value> on {"D":[-0,0.000001]} — both routes succeed, with different Values *)
Example F19_in_enum :
  claim_ap ex_fx 5 (TEnum [(bs "D", VNewtype (TSeq TValue))]) (VObj [(bs "D", VArr [lnum "-0"; lnum "0.000001"])]) = false
  /\ from_value_owned ap3_cfa ex_fx (TEnum [(bs "D", VNewtype (TSeq TValue))]) (VObj [(bs "D", VArr [lnum "-0"; lnum "0.000001"])])
     = VOk (DVariant (bs "D") (DSeq [DValue (Extract.Driver.show_value (lnum "0")); DValue (Extract.Driver.show_value (lnum "1e-6"))]))
  /\ from_input_typed Ea (TEnum [(bs "D", VNewtype (TSeq TValue))]) (bs "{""D"":[-0,0.000001]}")
     = TOk (DVariant (bs "D") (DSeq [DValue (Extract.Driver.show_value (lnum "-0")); DValue (Extract.Driver.show_value (lnum "0.000001"))])).
Proof. repeat split; vm_compute; reflexivity. Qed.
(* the private token as a first key, met by a Value target (Value-route side of F23; the text-route MODEL has no KeyClassifier) *)
Example token_in_value_target :
  claim_ap ex_fx 2 TValue (VObj [(NUMBER_TOKEN_V, VStr (bs "12"))]) = false
  /\ from_value_owned ap3_cfa ex_fx TValue (VObj [(NUMBER_TOKEN_V, VStr (bs "12"))]) = VOk (DValue (Extract.Driver.show_value (lnum "12")))
  /\ from_input_typed Ea TValue (ser_value (VObj [(NUMBER_TOKEN_V, VStr (bs "12"))]))
     = TOk (DValue (Extract.Driver.show_value (VObj [(NUMBER_TOKEN_V, VStr (bs "12"))]))).
Proof. repeat split; vm_compute; reflexivity. Qed.
(* f64 inside a container without float_roundtrip: outside the universe, and really different *)
Example f64_in_vec_default_path :
  agree_ty_ap (float_roundtrip ap3_cfa) (TSeq TF64) = false
  /\ from_value_owned ap3_cfa ex_fx (TSeq TF64) (VArr [VNum (NLit lit_2p53p1_0)]) = VOk (DSeq [DFloat 4845873199050653696])
  /\ from_input_typed Ea (TSeq TF64) (91 :: lit_2p53p1_0 ++ [93]) = TOk (DSeq [DFloat 4845873199050653697]).
Proof. repeat split; vm_compute; reflexivity. Qed.
(* the two enum shapes excluded in every build stay excluded (claimb): a zero-length tuple variant on [] *)
Example tuple0_variant_still_excluded :
  claim_ap ex_fx 3 (TEnum [(bs "V", VTuple [])]) (VObj [(bs "V", VArr [])]) = false
  /\ from_value_owned ap3_cfa ex_fx (TEnum [(bs "V", VTuple [])]) (VObj [(bs "V", VArr [])]) = VErr (Message MInvalidType) 0 0
  /\ from_input_typed Ea (TEnum [(bs "V", VTuple [])]) (bs "{""V"":[]}") = TOk (DVariant (bs "V") (DSeq [])).
Proof. repeat split; vm_compute; reflexivity. Qed.

Print Assumptions agree_all_ap.
Print Assumptions C16_ap_lifted.
Print Assumptions C16_ap_lifted_clean.
Print Assumptions claim_ap_claimb.
Print Assumptions claim_ap_clean.
