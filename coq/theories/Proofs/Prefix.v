(* Proofs/Prefix.v — C10 / C11 / C13 for the model's [from_input] and [ignored_from_input],
   as corollaries of the prefix dichotomy (PrefixBase / PrefixStr / PrefixNum / PrefixDe / PrefixIgnore). *)
From SJ Require Import Base.Bytes Base.FloatB Gen.Tables Model.Read Model.Str Model.Num Model.Value Model.De Model.Ignore.
From SJ Require Import Proofs.PrefixBase Proofs.PrefixDe Proofs.PrefixIgnore.
Require Import Lia.
Open Scope N_scope.

(* [eofish] is defined in PrefixBase:
     Definition eofish (c : ecode) : Prop := category c = CatEof \/ c = NumberOutOfRange. *)

(* ---------- the dichotomy, unfolded for the two terminators ---------- *)
(* prefix run and extended run both at a genuine end of input *)
Definition dich_eof {A} (p : bytes) (rp rpt : res A) : Prop :=
  match rp with
  | Ok _ => True
  | Err c i => (i <= length p)%nat /\ (rpt = Err c i \/ (eofish c /\ i = length p))
  | OutOfFuel => True
  | Panic => rpt = Panic
  end.

(* prefix run ended by a failing io reader *)
Definition dich_fail {A} (p : bytes) (k : N) (rp rpt : res A) : Prop :=
  match rp with
  | Ok _ => True
  | Err c i => (i <= length p)%nat /\ (rpt = Err c i \/ (c = Io k /\ i = 0%nat))
  | OutOfFuel => True
  | Panic => rpt = Panic
  end.

Lemma dichT_eof {A} rk cf tm2 p t (rp rpt : res A) :
  dich (mkCtx rk cf TEof tm2 t (length p)) ShT rp rpt -> dich_eof p rp rpt.
Proof. destruct rp; cbn [dich dich_eof ShT iv tch ex]; auto. Qed.

Lemma dichT_fail {A} cf k tm2 p t (rp rpt : res A) :
  dich (mkCtx RIo cf (TFail k) tm2 t (length p)) ShT rp rpt -> dich_fail p k rp rpt.
Proof. destruct rp; cbn [dich dich_fail ShT iv tch ex]; auto. Qed.

Theorem value_dich_eof rk cf p t :
  dich_eof p (from_input (mkEnv rk TEof cf) p) (from_input (mkEnv rk TEof cf) (p ++ t)).
Proof. eapply dichT_eof. apply (from_input_dich rk cf TEof TEof p t). Qed.

Theorem ignored_dich_eof rk cf p t :
  dich_eof p (ignored_from_input (mkEnv rk TEof cf) p) (ignored_from_input (mkEnv rk TEof cf) (p ++ t)).
Proof. eapply dichT_eof. apply (ignored_from_input_dich rk cf TEof TEof p t). Qed.

Theorem value_dich_fail cf k p t :
  dich_fail p k (from_input (mkEnv RIo (TFail k) cf) p) (from_input (mkEnv RIo TEof cf) (p ++ t)).
Proof. eapply dichT_fail. apply (from_input_dich RIo cf (TFail k) TEof p t). Qed.

Theorem ignored_dich_fail cf k p t :
  dich_fail p k (ignored_from_input (mkEnv RIo (TFail k) cf) p) (ignored_from_input (mkEnv RIo TEof cf) (p ++ t)).
Proof. eapply dichT_fail. apply (ignored_from_input_dich RIo cf (TFail k) TEof p t). Qed.

(* ---------- generic corollaries of [dich_eof] ---------- *)
Section Corollaries.
Context {A : Type}.
Variable run : bytes -> res A.
Hypothesis Hrun : forall p t, dich_eof p (run p) (run (p ++ t)).

Lemma gen_C10 p t v : run (p ++ t) = Ok v ->
  match run p with
  | Ok _ => True
  | Err c i => eofish c /\ i = length p
  | OutOfFuel => True
  | Panic => False
  end.
Proof.
  intros Hok. pose proof (Hrun p t) as H. destruct (run p) as [a|c i| |]; cbn [dich_eof] in H; auto.
  - destruct H as [_ [H | H]]; [congruence|exact H].
  - congruence.
Qed.

Lemma gen_C11_dead p c i t : run p = Err c i -> ~ eofish c -> run (p ++ t) = Err c i.
Proof.
  intros He Hn. pose proof (Hrun p t) as H. rewrite He in H. cbn [dich_eof] in H.
  destruct H as [_ [H | [H _]]]; [exact H|contradiction].
Qed.

Lemma gen_idx_le p c i : run p = Err c i -> (i <= length p)%nat.
Proof. intros He. pose proof (Hrun p []) as H. rewrite He in H. cbn [dich_eof] in H. tauto. Qed.

Lemma gen_C11_live bs c i k : run bs = Err c i -> ~ eofish c -> (k < i)%nat ->
  match run (firstn k bs) with
  | Ok _ => True
  | Err c' i' => eofish c' /\ i' = k
  | _ => True
  end.
Proof.
  intros He Hn Hk. pose proof (gen_idx_le bs c i He) as Hle.
  assert (Hlen : length (firstn k bs) = k) by (rewrite firstn_length; lia).
  pose proof (Hrun (firstn k bs) (skipn k bs)) as H. rewrite firstn_skipn, He in H.
  destruct (run (firstn k bs)) as [a|c' i'| |]; cbn [dich_eof] in H; auto.
  rewrite Hlen in H. destruct H as [Hi [H | H]]; [|exact H]. injection H as <- <-. lia.
Qed.
End Corollaries.

(* ================= C10 ================= *)
(* OutOfFuel is not excluded here (that is the totality property, proved separately); Panic is. *)
Theorem C10_value : forall rk cf p t v, t <> [] ->
  from_input (mkEnv rk TEof cf) (p ++ t) = Ok v ->
  match from_input (mkEnv rk TEof cf) p with
  | Ok _ => True
  | Err c i => eofish c /\ i = length p
  | OutOfFuel => True
  | Panic => False
  end.
Proof. intros rk cf p t v _. apply (gen_C10 _ (value_dich_eof rk cf)). Qed.

Theorem C10_ignored : forall rk cf p t v, t <> [] ->
  ignored_from_input (mkEnv rk TEof cf) (p ++ t) = Ok v ->
  match ignored_from_input (mkEnv rk TEof cf) p with
  | Ok _ => True
  | Err c i => eofish c /\ i = length p
  | OutOfFuel => True
  | Panic => False
  end.
Proof. intros rk cf p t v _. apply (gen_C10 _ (ignored_dich_eof rk cf)). Qed.

(* the NumberOutOfRange disjunct of [eofish] is needed: "111…1" (400 digits) fails with NumberOutOfRange
   (category Syntax) at the end of input, although "111…1e-200" parses *)
Theorem C10_number_range_exception : exists p t v, t <> [] /\
  from_input (mkEnv RSlice TEof (mkCfg false false false false)) (p ++ t) = Ok v /\
  from_input (mkEnv RSlice TEof (mkCfg false false false false)) p = Err NumberOutOfRange (length p).
Proof.
  exists (repeat 49 400), [101; 45; 50; 48; 48].
  exists (match from_input (mkEnv RSlice TEof (mkCfg false false false false)) (repeat 49 400 ++ [101; 45; 50; 48; 48])
          with Ok v => v | _ => VNull end).
  split; [discriminate|]. split.
  - vm_cast_no_check (@eq_refl (res value)
      (from_input (mkEnv RSlice TEof (mkCfg false false false false)) (repeat 49 400 ++ [101; 45; 50; 48; 48]))).
  - vm_cast_no_check (@eq_refl (res value) (Err NumberOutOfRange 400%nat)).
Qed.

Lemma eofish_NumberOutOfRange_not_eof : category NumberOutOfRange <> CatEof.
Proof. discriminate. Qed.

(* ================= C11 ================= *)
Theorem C11_dead : forall rk cf p c i t,
  from_input (mkEnv rk TEof cf) p = Err c i -> ~ eofish c -> from_input (mkEnv rk TEof cf) (p ++ t) = Err c i.
Proof. intros rk cf. apply (gen_C11_dead _ (value_dich_eof rk cf)). Qed.

Theorem C11_idx_le : forall rk cf p c i,
  from_input (mkEnv rk TEof cf) p = Err c i -> category c <> CatIo -> (i <= length p)%nat.
Proof. intros rk cf p c i H _. apply (gen_idx_le _ (value_dich_eof rk cf) p c i H). Qed.

(* stronger: the premise on the category is not needed *)
Theorem C11_idx_le_strong : forall rk cf p c i,
  from_input (mkEnv rk TEof cf) p = Err c i -> (i <= length p)%nat.
Proof. intros rk cf. apply (gen_idx_le _ (value_dich_eof rk cf)). Qed.

Theorem C11_live : forall rk cf bs c i k,
  from_input (mkEnv rk TEof cf) bs = Err c i -> ~ eofish c -> (k < i)%nat ->
  match from_input (mkEnv rk TEof cf) (firstn k bs) with
  | Ok _ => True | Err c' i' => eofish c' /\ i' = k | _ => True end.
Proof. intros rk cf. apply (gen_C11_live _ (value_dich_eof rk cf)). Qed.

Theorem C11_dead_ignored : forall rk cf p c i t,
  ignored_from_input (mkEnv rk TEof cf) p = Err c i -> ~ eofish c ->
  ignored_from_input (mkEnv rk TEof cf) (p ++ t) = Err c i.
Proof. intros rk cf. apply (gen_C11_dead _ (ignored_dich_eof rk cf)). Qed.

Theorem C11_idx_le_ignored : forall rk cf p c i,
  ignored_from_input (mkEnv rk TEof cf) p = Err c i -> category c <> CatIo -> (i <= length p)%nat.
Proof. intros rk cf p c i H _. apply (gen_idx_le _ (ignored_dich_eof rk cf) p c i H). Qed.

Theorem C11_live_ignored : forall rk cf bs c i k,
  ignored_from_input (mkEnv rk TEof cf) bs = Err c i -> ~ eofish c -> (k < i)%nat ->
  match ignored_from_input (mkEnv rk TEof cf) (firstn k bs) with
  | Ok _ => True | Err c' i' => eofish c' /\ i' = k | _ => True end.
Proof. intros rk cf. apply (gen_C11_live _ (ignored_dich_eof rk cf)). Qed.

(* ================= C13 ================= *)
(* Deserializer::end needs a genuine end of input: with a failing reader the run is never Ok *)
Lemma de_end_ok_eof E s s' : de_end E s = Ok s' -> tm E = TEof.
Proof.
  unfold de_end. destruct (parse_whitespace E s) as [[o s1]| | |] eqn:Hp; cbn [bind]; try discriminate.
  destruct o; [discriminate|]. intros _. apply parse_whitespace_spec in Hp. tauto.
Qed.

Theorem C13_read_never_ok : forall cf p k v, from_input (mkEnv RIo (TFail k) cf) p <> Ok v.
Proof.
  intros cf p k v. unfold from_input.
  destruct (parse_value _ _ _) as [[v1 s1]| | |]; cbn [bind]; try discriminate.
  destruct (de_end _ s1) as [s2| | |] eqn:Hd; cbn [bind]; try discriminate.
  apply de_end_ok_eof in Hd. discriminate.
Qed.

Theorem C13_read_never_ok_ignored : forall cf p k v, ignored_from_input (mkEnv RIo (TFail k) cf) p <> Ok v.
Proof.
  intros cf p k v. unfold ignored_from_input.
  destruct (ignore_value _ _) as [s1| | |]; cbn [bind]; try discriminate.
  destruct (de_end _ s1) as [s2| | |] eqn:Hd; cbn [bind]; try discriminate.
  apply de_end_ok_eof in Hd. discriminate.
Qed.

Section C13.
Context {A : Type}.
Variables (rfail rfull : res A) (p : bytes) (k : N).
Hypothesis Hd : dich_fail p k rfail rfull.
Hypothesis Hnok : forall v, rfail <> Ok v.

(* without any totality assumption: the two non-results are listed as further alternatives *)
Lemma gen_C13_total :
  rfail = Err (Io k) 0 \/ (rfail = rfull /\ exists c i, rfull = Err c i)
  \/ rfail = OutOfFuel \/ (rfail = Panic /\ rfull = Panic).
Proof.
  destruct rfail as [a|c i| |]; cbn [dich_fail] in Hd.
  - now destruct (Hnok a).
  - destruct Hd as [_ [H | [-> ->]]]; [right; left|left; reflexivity]. split; [now rewrite H|eauto].
  - right; right; left; reflexivity.
  - right; right; right; auto.
Qed.

Lemma gen_C13_partial : rfail <> OutOfFuel -> rfail <> Panic ->
  rfail = Err (Io k) 0 \/ (rfail = rfull /\ exists c i, rfull = Err c i).
Proof. intros H1 H2. destruct gen_C13_total as [H | [H | [H | [H _]]]]; auto; contradiction. Qed.
End C13.

(* C13 with the totality facts as explicit hypotheses (they are the statement of the totality property,
   not proved in this file) *)
Theorem C13_read_partial : forall cf p t k,
  let r_full := from_input (mkEnv RIo TEof cf) (p ++ t) in
  let r_fail := from_input (mkEnv RIo (TFail k) cf) p in
  r_fail <> OutOfFuel -> r_fail <> Panic ->
  r_fail = Err (Io k) 0 \/ (r_fail = r_full /\ exists c i, r_full = Err c i).
Proof.
  intros cf p t k r_full r_fail. apply (gen_C13_partial _ _ p k).
  - apply value_dich_fail.
  - intros v. apply C13_read_never_ok.
Qed.

(* C13 unconditionally, with OutOfFuel / Panic as explicit further alternatives *)
Theorem C13_read_total : forall cf p t k,
  let r_full := from_input (mkEnv RIo TEof cf) (p ++ t) in
  let r_fail := from_input (mkEnv RIo (TFail k) cf) p in
  r_fail = Err (Io k) 0 \/ (r_fail = r_full /\ exists c i, r_full = Err c i)
  \/ r_fail = OutOfFuel \/ (r_fail = Panic /\ r_full = Panic).
Proof.
  intros cf p t k r_full r_fail. apply (gen_C13_total _ _ p k).
  - apply value_dich_fail.
  - intros v. apply C13_read_never_ok.
Qed.

Theorem C13_read_ignored_partial : forall cf p t k,
  let r_full := ignored_from_input (mkEnv RIo TEof cf) (p ++ t) in
  let r_fail := ignored_from_input (mkEnv RIo (TFail k) cf) p in
  r_fail <> OutOfFuel -> r_fail <> Panic ->
  r_fail = Err (Io k) 0 \/ (r_fail = r_full /\ exists c i, r_full = Err c i).
Proof.
  intros cf p t k r_full r_fail. apply (gen_C13_partial _ _ p k).
  - apply ignored_dich_fail.
  - intros v. apply C13_read_never_ok_ignored.
Qed.

Theorem C13_read_ignored_total : forall cf p t k,
  let r_full := ignored_from_input (mkEnv RIo TEof cf) (p ++ t) in
  let r_fail := ignored_from_input (mkEnv RIo (TFail k) cf) p in
  r_fail = Err (Io k) 0 \/ (r_fail = r_full /\ exists c i, r_full = Err c i)
  \/ r_fail = OutOfFuel \/ (r_fail = Panic /\ r_full = Panic).
Proof.
  intros cf p t k r_full r_fail. apply (gen_C13_total _ _ p k).
  - apply ignored_dich_fail.
  - intros v. apply C13_read_never_ok_ignored.
Qed.

Print Assumptions C10_value.
Print Assumptions C10_ignored.
Print Assumptions C10_number_range_exception.
Print Assumptions C11_dead.
Print Assumptions C11_idx_le.
Print Assumptions C11_live.
Print Assumptions C11_dead_ignored.
Print Assumptions C11_idx_le_ignored.
Print Assumptions C11_live_ignored.
Print Assumptions C13_read_partial.
Print Assumptions C13_read_total.
Print Assumptions C13_read_never_ok.
Print Assumptions C13_read_ignored_partial.
Print Assumptions C13_read_ignored_total.
Print Assumptions C13_read_never_ok_ignored.
