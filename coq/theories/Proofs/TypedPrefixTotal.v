(* Proofs/TypedPrefixTotal.v — C10_typed / C13_typed combined with totality of the typed model
   (Proofs/TypedTotal.v: from_input_typed is never TFuel and never TPanic), so that the two non-results disappear
   from the statements.  NOTE: this file depends on Proofs/TypedTotal.v (another area's deliverable); it must be
   listed in coq/FILES after it.  Proofs/TypedPrefix.v itself does not depend on it. *)
From SJ Require Import Base.Bytes Gen.Tables Model.Read Model.Ty Model.DeTyped.
From SJ Require Import Proofs.PrefixBase Proofs.TypedPrefix Proofs.TypedTotal.
Open Scope N_scope.

Theorem C10_typed_full : forall rk cf t p tl d, tl <> [] ->
  from_input_typed (mkEnv rk TEof cf) t (p ++ tl) = TOk d ->
  match from_input_typed (mkEnv rk TEof cf) t p with
  | TOk _ => True
  | TErr c i => eofish c /\ i = length p
  | TUnpos _ _ | TFuel | TPanic => False
  end.
Proof.
  intros rk cf t p tl d Hne Hok. pose proof (C10_typed rk cf t p tl d Hne Hok) as H.
  pose proof (from_input_typed_no_fuel (mkEnv rk TEof cf) t p) as Hf.
  pose proof (from_input_typed_no_panic (mkEnv rk TEof cf) t p) as Hp.
  destruct (from_input_typed (mkEnv rk TEof cf) t p); auto.
Qed.

Theorem C13_typed_full : forall cf t p tl k,
  let r_full := from_input_typed (mkEnv RIo TEof cf) t (p ++ tl) in
  let r_fail := from_input_typed (mkEnv RIo (TFail k) cf) t p in
  r_fail = TErr (Io k) 0
  \/ (r_fail = r_full /\ exists c i, r_full = TErr c i)
  \/ ((exists m i, r_fail = TErr (Message m) i) /\ tnotok r_full)      (* known class F18 *)
  \/ ((exists m s, r_fail = TUnpos m s) /\ tnotok r_full).              (* F18, error never positioned *)
Proof.
  intros cf t p tl k r_full r_fail.
  destruct (C13_typed cf t p tl k) as [H | [H | [H | [H | [H | H]]]]]; auto.
  - exfalso. exact (from_input_typed_no_fuel _ _ _ H).
  - exfalso. exact (from_input_typed_no_panic _ _ _ H).
Qed.

Print Assumptions C10_typed_full.
Print Assumptions C13_typed_full.
