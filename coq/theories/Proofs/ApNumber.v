(* Proofs/ApNumber.v — C20: the string-backed Number of the arbitrary_precision build (Model/NumberM.v).

   1. The cursor-returning variants scanS_* compute the results of Model/Num.v's scan_* (scanS_*_fst) and, on success,
      return the cursor of the result (coherence).
   2. Number::from_str accepts exactly the RFC 8259 number grammar and keeps the text (from_str_grammar, from_str_verbatim).
   3. Parsing a literal as a Value keeps it verbatim, alone and nested in documents (verbatim_alone, denote_verbatim_eq,
      verbatim_nested); re-serialisation of a document made of arrays, numbers, null, true, false is the input minus
      whitespace (reserialise_numeric).
   4. Accessors: as_u64 / as_i64 / as_u128 / as_i128 / as_f64 / is_* on a literal.
   5. Typed targets: parse_integer and scan_integer128 do not look at the arbitrary_precision flag. *)
From Coq Require Import Lia ZifyBool ZifyNat ZifyN.
From SJ Require Import Base.Bytes Base.Utf8 Base.FloatB Gen.Tables Model.Read Model.Str Model.Num Model.Value Model.De
  Model.NumberM Spec.Syntax Spec.Denote.
From SJ Require Import Proofs.NumInt Proofs.GrammarNum Proofs.GrammarFinal.
From Flocq Require Import Core BinarySingleNaN.
Open Scope N_scope.

(* ================================================================================================ *)
(** * 1. scanS_* against scan_* *)

Lemma bind_ext {A B} (r : res A) (f g : A -> res B) : (forall a, f a = g a) -> bind r f = bind r g.
Proof. intros H. destruct r as [a| | |]; cbn [bind]; [apply H|reflexivity|reflexivity|reflexivity]. Qed.

Lemma fst_bindS {A B} (m : rs A) (k : A -> st -> rs B) :
  fst (bindS m k) = bind (fst m) (fun p => fst (k (fst p) (snd p))).
Proof.
  unfold bindS. destruct (fst m) as [[a s]| | |]; reflexivity.
Qed.

Lemma fst_liftS {A} (s : st) (r : res (A * st)) : fst (liftS s r) = r.
Proof. reflexivity. Qed.

(* coherence: on success the returned cursor is the cursor of the result *)
Definition coh {A} (m : rs A) : Prop :=
  match fst m with Ok (_, s) => snd m = s | _ => True end.

Lemma coh_ok {A} (m : rs A) (a : A) (s : st) : coh m -> fst m = Ok (a, s) -> snd m = s.
Proof. unfold coh. intros H Hm. rewrite Hm in H. exact H. Qed.

Lemma coh_bindS {A B} (m : rs A) (k : A -> st -> rs B) : (forall a s, coh (k a s)) -> coh (bindS m k).
Proof.
  intros Hk. unfold bindS. destruct (fst m) as [[a s]| | |]; [apply Hk|exact I|exact I|exact I].
Qed.
Lemma coh_liftS {A} (s : st) (r : res (A * st)) : coh (liftS s r).
Proof. unfold coh, liftS. cbn [fst snd]. destruct r as [[a s']| | |]; [reflexivity|exact I|exact I|exact I]. Qed.
Lemma coh_retS {A} (a : A) (s : st) : coh (retS a s).
Proof. reflexivity. Qed.
Lemma coh_errorS {A} (E : env) (s : st) (c : ecode) : coh (@errorS A E s c).
Proof. exact I. Qed.
Lemma coh_peek_errorS {A} (E : env) (s : st) (c : ecode) : coh (@peek_errorS A E s c).
Proof. exact I. Qed.

Lemma scanS_or_eof_fst E s : fst (scanS_or_eof E s) = scan_or_eof E s.
Proof.
  unfold scanS_or_eof, scan_or_eof. rewrite fst_bindS, fst_liftS. apply bind_ext.
  intros [[b|] s1]; reflexivity.
Qed.
Lemma scanS_or_eof_coh E s : coh (scanS_or_eof E s).
Proof.
  unfold scanS_or_eof. apply coh_bindS. intros [b|] s1; [apply coh_retS|apply coh_errorS].
Qed.

Lemma scanS_exponent_fst E e s : fst (scanS_exponent E e s) = scan_exponent E e s.
Proof.
  unfold scanS_exponent, scan_exponent. cbv zeta. rewrite fst_bindS, fst_liftS. apply bind_ext.
  intros [c s1]. cbn [fst snd].
  destruct (c =? 43); [|destruct (c =? 45)];
    (rewrite fst_bindS, scanS_or_eof_fst; apply bind_ext; intros [d s3]; cbn [fst snd];
     destruct (is_digit d); [|reflexivity];
     rewrite fst_bindS, fst_liftS; apply bind_ext; intros [x s4]; reflexivity).
Qed.
Lemma scanS_exponent_coh E e s : coh (scanS_exponent E e s).
Proof.
  unfold scanS_exponent. cbv zeta. apply coh_bindS. intros c s1.
  destruct (c =? 43); [|destruct (c =? 45)];
    (apply coh_bindS; intros d s3; destruct (is_digit d); [|apply coh_errorS];
     apply coh_bindS; intros x s4; apply coh_retS).
Qed.

Lemma scanS_decimal_fst E s : fst (scanS_decimal E s) = scan_decimal E s.
Proof.
  unfold scanS_decimal, scan_decimal. cbv zeta. rewrite fst_bindS, fst_liftS. apply bind_ext.
  intros [c s1]. cbn [fst snd].
  destruct (Nat.eqb (span_len is_digit (rest (discard s))) 0).
  - rewrite fst_bindS, fst_liftS. apply bind_ext. intros [[b|] s2]; reflexivity.
  - destruct ((c =? 101) || (c =? 69)); [|reflexivity].
    rewrite fst_bindS, scanS_exponent_fst. apply bind_ext. intros [ex s2]. reflexivity.
Qed.
Lemma scanS_decimal_coh E s : coh (scanS_decimal E s).
Proof.
  unfold scanS_decimal. cbv zeta. apply coh_bindS. intros c s1.
  destruct (Nat.eqb (span_len is_digit (rest (discard s))) 0).
  - apply coh_bindS. intros [b|] s2; apply coh_peek_errorS.
  - destruct ((c =? 101) || (c =? 69)); [|apply coh_retS].
    apply coh_bindS. intros ex s2. apply coh_retS.
Qed.

Lemma scanS_number_fst E s : fst (scanS_number E s) = scan_number E s.
Proof.
  unfold scanS_number, scan_number. rewrite fst_bindS, fst_liftS. apply bind_ext.
  intros [c s1]. cbn [fst snd].
  destruct (c =? 46); [apply scanS_decimal_fst|].
  destruct ((c =? 101) || (c =? 69)); [apply scanS_exponent_fst|reflexivity].
Qed.
Lemma scanS_number_coh E s : coh (scanS_number E s).
Proof.
  unfold scanS_number. apply coh_bindS. intros c s1.
  destruct (c =? 46); [apply scanS_decimal_coh|].
  destruct ((c =? 101) || (c =? 69)); [apply scanS_exponent_coh|apply coh_retS].
Qed.

Lemma scanS_integer_fst E s : fst (scanS_integer E s) = scan_integer E s.
Proof.
  unfold scanS_integer, scan_integer. rewrite fst_bindS, scanS_or_eof_fst. apply bind_ext.
  intros [c s1]. cbn [fst snd].
  destruct (c =? 48).
  - rewrite fst_bindS, fst_liftS. apply bind_ext. intros [c2 s2]. cbn [fst snd].
    destruct (is_digit c2); [reflexivity|].
    rewrite fst_bindS, scanS_number_fst. apply bind_ext. intros [t s3]. reflexivity.
  - destruct (is_digit19 c); [|reflexivity]. cbv zeta.
    rewrite fst_bindS, fst_liftS. apply bind_ext. intros [x s2]. cbn [fst snd].
    rewrite fst_bindS, scanS_number_fst. apply bind_ext. intros [t s3]. reflexivity.
Qed.
Lemma scanS_integer_coh E s : coh (scanS_integer E s).
Proof.
  unfold scanS_integer. apply coh_bindS. intros c s1.
  destruct (c =? 48).
  - apply coh_bindS. intros c2 s2. destruct (is_digit c2); [apply coh_peek_errorS|].
    apply coh_bindS. intros t s3. apply coh_retS.
  - destruct (is_digit19 c); [|apply coh_errorS]. cbv zeta.
    apply coh_bindS. intros x s2. apply coh_bindS. intros t s3. apply coh_retS.
Qed.

(* parse_any_number of the arbitrary_precision build, in one piece *)
Lemma parse_any_number_classify E positive s : arbitrary_precision (cf E) = true ->
  parse_any_number E positive s = let* (buf, s1) := scan_integer E s in Ok (ap_classify positive buf, s1).
Proof.
  intros Hap. unfold parse_any_number. rewrite Hap. apply bind_ext. intros [buf s1]. unfold ap_classify.
  destruct (all_digits buf); [|reflexivity]. cbv zeta.
  destruct positive; [destruct (_ <=? _)%Z|destruct (_ && _)]; reflexivity.
Qed.

Theorem parse_any_number_S_fst : forall E positive s, arbitrary_precision (cf E) = true ->
  fst (parse_any_number_S E positive s) = parse_any_number E positive s.
Proof.
  intros E positive s Hap. rewrite (parse_any_number_classify E positive s Hap).
  unfold parse_any_number_S. rewrite fst_bindS, scanS_integer_fst. apply bind_ext. intros [buf s1]. reflexivity.
Qed.
Lemma parse_any_number_S_coh E positive s : coh (parse_any_number_S E positive s).
Proof. unfold parse_any_number_S. apply coh_bindS. intros buf s1. apply coh_retS. Qed.

(* this build never produces ParserNumber::F64 from parse_any_number (so From<ParserNumber> never reaches ryu) *)
Theorem parse_any_number_no_f64 : forall E positive s p s1, arbitrary_precision (cf E) = true ->
  parse_any_number E positive s = Ok (p, s1) -> forall f, p <> PF64 f.
Proof.
  intros E positive s p s1 Hap Hrun f. rewrite (parse_any_number_classify E positive s Hap) in Hrun.
  destruct (scan_integer E s) as [[buf s2]| | |]; cbn [bind] in Hrun; try discriminate Hrun.
  injection Hrun as <- _. unfold ap_classify.
  destruct (all_digits buf); [|discriminate]. cbv zeta.
  destruct positive; [destruct (_ <=? _)%Z|destruct (_ && _)]; discriminate.
Qed.

(* ================================================================================================ *)
(** * 2. Number::from_str *)

Lemma render_num_split (n : numlit) : render_num n = (if nneg n then [45] else []) ++ render_abs n.
Proof. unfold render_abs, render_num. cbn [nneg nint nfrac nexp app]. reflexivity. Qed.

Lemma render_abs_head (n : numlit) : num_ok n = true ->
  exists c r, render_abs n = c :: r /\ is_digit c = true.
Proof.
  intros Hok. destruct (num_ok_inv n Hok) as (Hint & _ & _). rewrite render_abs_eq.
  destruct (int_ok_inv _ Hint) as [H0|(c & r & Hcr & Hc & _)].
  - rewrite H0. cbn [app]. eexists _, _. split; reflexivity.
  - rewrite Hcr. cbn [app]. exists c. eexists. split; [reflexivity|]. apply is_digit19_digit, Hc.
Qed.

Lemma ap_lit_of_eq (positive : bool) (p : pnum) : ap_lit_of p = ap_lit_of_pnum positive p.
Proof. destruct p; reflexivity. Qed.

Lemma peek_nil (E : env) (o : nat) (p : bool) (d : N) : tm E = TEof ->
  peek E (mkSt [] o p d) = Ok (None, mkSt [] o false d).
Proof. intros HE. unfold peek, at_end. cbn [rest off depth]. rewrite HE. reflexivity. Qed.

Lemma peek_cons (E : env) (c : N) (l : list N) (o : nat) (p : bool) (d : N) :
  peek E (mkSt (c :: l) o p d) = Ok (Some c, mkSt (c :: l) o true d).
Proof. reflexivity. Qed.

(* the second peek of parse_any_signed_number and what follows it *)
Definition pasn_tail (E : env) (vs : rs pnum) : res pnum :=
  let* (o2, s3) := peek E (snd vs) in
  match o2 with
  | Some _ => peek_error E s3 InvalidNumber
  | None => let* (p, _) := fst vs in Ok p
  end.

Lemma pasn_tail_ok (E : env) (vs : rs pnum) (p : pnum) (s2 : st) : tm E = TEof ->
  coh vs -> fst vs = Ok (p, s2) -> rest s2 = [] -> pasn_tail E vs = Ok p.
Proof.
  intros HE Hc Hf Hr. unfold pasn_tail. rewrite (coh_ok vs p s2 Hc Hf).
  destruct s2 as [r o k d]. cbn [rest] in Hr. subst r. rewrite (peek_nil E o k d HE). cbn [bind].
  rewrite Hf. reflexivity.
Qed.

Lemma pasn_tail_inv (E : env) (vs : rs pnum) (p : pnum) : coh vs -> pasn_tail E vs = Ok p ->
  exists s2, fst vs = Ok (p, s2) /\ rest s2 = [].
Proof.
  intros Hc Hrun. unfold pasn_tail in Hrun.
  destruct (fst vs) as [[p' s2]| | |] eqn:Hf.
  - pose proof (coh_ok vs p' s2 Hc Hf) as Hs. rewrite Hs in Hrun.
    destruct s2 as [r o k d]. destruct r as [|c r].
    + unfold peek, at_end in Hrun. cbn [rest off depth] in Hrun.
      destruct (tm E); cbn [bind] in Hrun; [|discriminate Hrun].
      injection Hrun as <-. exists (mkSt [] o k d). split; reflexivity.
    + rewrite peek_cons in Hrun. cbn [bind] in Hrun. discriminate Hrun.
  - destruct (peek E (snd vs)) as [[[b|] s3]| | |]; cbn [bind] in Hrun; discriminate Hrun.
  - destruct (peek E (snd vs)) as [[[b|] s3]| | |]; cbn [bind] in Hrun; discriminate Hrun.
  - destruct (peek E (snd vs)) as [[[b|] s3]| | |]; cbn [bind] in Hrun; discriminate Hrun.
Qed.

Lemma pasn_cons (E : env) (b : N) (r : list N) :
  parse_any_signed_number E (init_st (b :: r)) =
  pasn_tail E (if b =? 45 then parse_any_number_S E false (mkSt r 1 false DEPTH0)
               else if is_digit b then parse_any_number_S E true (mkSt (b :: r) 0 true DEPTH0)
               else peek_errorS E (mkSt (b :: r) 0 true DEPTH0) InvalidNumber).
Proof. reflexivity. Qed.

Section FromStr.
  Variable E : env.
  Hypothesis HE : tm E = TEof.
  Hypothesis Hap : arbitrary_precision (cf E) = true.

  (* the run on the literal in isolation, at any offset, with any peek flag *)
  Lemma pan_lit (positive : bool) (n : numlit) (o : nat) (k : bool) (d : N) : num_ok n = true ->
    exists p, parse_any_number E positive (mkSt (render_abs n) o k d) = Ok (p, mkSt [] (o + length (render_abs n)) false d)
           /\ ap_lit_of p = (if positive then [] else [45]) ++ render_abs n.
  Proof.
    intros Hok. destruct (number_ap_verbatim E positive n HE Hap Hok) as (p & s' & Hrun & Hlit).
    exists p. split.
    - pose proof (number_local_ok E positive n [] o k d HE Hok I p s' Hrun) as H.
      rewrite app_nil_r in H. exact H.
    - rewrite (ap_lit_of_eq positive). exact Hlit.
  Qed.

  Theorem pasn_verbatim : forall n, num_ok n = true ->
    exists p, parse_any_signed_number E (init_st (render_num n)) = Ok p /\ ap_lit_of p = render_num n.
  Proof.
    intros n Hok. rewrite render_num_split. destruct (nneg n).
    - cbn [app]. rewrite pasn_cons. change (45 =? 45) with true. cbv iota.
      destruct (pan_lit false n 1 false DEPTH0 Hok) as (p & Hrun & Hlit). exists p. split; [|exact Hlit].
      eapply pasn_tail_ok; [exact HE|apply parse_any_number_S_coh| |].
      * rewrite (parse_any_number_S_fst E false _ Hap). exact Hrun.
      * reflexivity.
    - cbn [app]. destruct (render_abs_head n Hok) as (c & r & Hcr & Hc).
      destruct (pan_lit true n 0 true DEPTH0 Hok) as (p & Hrun & Hlit). exists p. split; [|exact Hlit].
      rewrite Hcr in *. rewrite pasn_cons.
      assert (H45 : (c =? 45) = false) by (unfold is_digit in Hc; lia). rewrite H45, Hc.
      eapply pasn_tail_ok; [exact HE|apply parse_any_number_S_coh| |].
      * rewrite (parse_any_number_S_fst E true _ Hap). exact Hrun.
      * reflexivity.
  Qed.

  Theorem pasn_sound : forall s p, parse_any_signed_number E (init_st s) = Ok p ->
    exists n, num_ok n = true /\ s = render_num n.
  Proof.
    intros s p Hrun. destruct s as [|b r].
    - unfold parse_any_signed_number, init_st in Hrun. rewrite (peek_nil E 0 false DEPTH0 HE) in Hrun.
      cbn [bind] in Hrun. discriminate Hrun.
    - rewrite pasn_cons in Hrun. destruct (b =? 45) eqn:Hb.
      + destruct (pasn_tail_inv E _ p (parse_any_number_S_coh E false _) Hrun) as (s2 & Hf & Hr).
        rewrite (parse_any_number_S_fst E false _ Hap) in Hf.
        destruct (number_sound E false _ p s2 HE Hf) as (n & Hok & Hneg & Hrest & _).
        cbn [rest] in Hrest. rewrite Hr, app_nil_r in Hrest.
        exists n. split; [exact Hok|]. rewrite render_num_split, Hneg. cbn [negb app].
        apply N.eqb_eq in Hb. subst b r. reflexivity.
      + destruct (is_digit b) eqn:Hd.
        * destruct (pasn_tail_inv E _ p (parse_any_number_S_coh E true _) Hrun) as (s2 & Hf & Hr).
          rewrite (parse_any_number_S_fst E true _ Hap) in Hf.
          destruct (number_sound E true _ p s2 HE Hf) as (n & Hok & Hneg & Hrest & _).
          cbn [rest] in Hrest. rewrite Hr, app_nil_r in Hrest.
          exists n. split; [exact Hok|]. rewrite render_num_split, Hneg. cbn [negb app]. exact Hrest.
        * destruct (pasn_tail_inv E _ p (coh_peek_errorS E _ _) Hrun) as (s2 & Hf & _).
          cbn [peek_errorS fst] in Hf. discriminate Hf.
  Qed.
End FromStr.

Theorem from_str_verbatim : forall cf n, arbitrary_precision cf = true -> num_ok n = true ->
  number_from_str cf (render_num n) = Ok (NLit (render_num n)).
Proof.
  intros cf n Hap Hok. unfold number_from_str.
  destruct (pasn_verbatim (mkEnv RStr TEof cf) eq_refl Hap n Hok) as (p & Hrun & Hlit).
  rewrite Hrun. cbn [bind]. unfold number_of_pnum. rewrite Hlit. reflexivity.
Qed.

Theorem from_str_grammar : forall cf s, arbitrary_precision cf = true ->
  ((exists v, number_from_str cf s = Ok v) <-> (exists lit, num_ok lit = true /\ s = render_num lit)).
Proof.
  intros cf s Hap. split.
  - intros (v & Hrun). unfold number_from_str in Hrun.
    destruct (parse_any_signed_number (mkEnv RStr TEof cf) (init_st s)) as [p| | |] eqn:Hp; try discriminate Hrun.
    exact (pasn_sound (mkEnv RStr TEof cf) eq_refl Hap s p Hp).
  - intros (n & Hok & ->). eexists. apply from_str_verbatim; assumption.
Qed.

(* an accepted string is returned as it is *)
Theorem from_str_keeps_text : forall cf s v, arbitrary_precision cf = true ->
  number_from_str cf s = Ok v -> v = NLit s.
Proof.
  intros cf s v Hap Hrun.
  destruct (proj1 (from_str_grammar cf s Hap) (ex_intro _ v Hrun)) as (n & Hok & ->).
  rewrite (from_str_verbatim cf n Hap Hok) in Hrun. injection Hrun as <-. reflexivity.
Qed.

(* to_value(&number) re-validates the text with Number::from_str: identity on every number built from a literal *)
Theorem to_value_roundtrip : forall cf n, arbitrary_precision cf = true -> num_ok n = true ->
  number_to_value cf (NLit (render_num n)) = Ok (VNum (NLit (render_num n))).
Proof.
  intros cf n Hap Hok. unfold number_to_value. cbn [number_text].
  rewrite (from_str_verbatim cf n Hap Hok). reflexivity.
Qed.

(* ================================================================================================ *)
(** * 3. Literals parsed into a Value: verbatim, alone and nested *)

Theorem num_den_verbatim : forall cf n, arbitrary_precision cf = true -> num_ok n = true ->
  num_den cf n = Some (VNum (NLit (render_num n))).
Proof.
  intros cf n Hap Hok. unfold num_den.
  destruct (number_ap_verbatim (env0 cf) (negb (nneg n)) n eq_refl Hap Hok) as (p & s' & Hrun & Hlit).
  rewrite Hrun. unfold visit_number_cfg. cbn [env0 Read.cf]. rewrite Hap.
  rewrite (ap_lit_of_eq (negb (nneg n))), Hlit, render_num_split. destruct (nneg n); reflexivity.
Qed.

(* the denotation with every number literal kept as written *)
Fixpoint denote_verbatim (cf : cfg) (c : cst) : option value :=
  match c with
  | CNull => Some VNull
  | CTrue => Some (VBool true)
  | CFalse => Some (VBool false)
  | CNum n => Some (VNum (NLit (render_num n)))
  | CStr s => option_map VStr (str_text s)
  | CArr _ es => option_map VArr (denote_verbatim_elems cf es)
  | CObj _ ms => option_map (fun l => VObj (map_of_entries (preserve_order cf) l)) (denote_verbatim_members cf ms)
  end
with denote_verbatim_elems (cf : cfg) (es : elems) : option (list value) :=
  match es with
  | ENil => Some []
  | ECons _ c _ rest =>
    match denote_verbatim cf c, denote_verbatim_elems cf rest with
    | Some v, Some vs => Some (v :: vs)
    | _, _ => None
    end
  end
with denote_verbatim_members (cf : cfg) (ms : members) : option (list (bytes * value)) :=
  match ms with
  | MNil => Some []
  | MCons _ k _ _ c _ rest =>
    match str_text k, denote_verbatim cf c, denote_verbatim_members cf rest with
    | Some kb, Some v, Some vs => Some ((kb, v) :: vs)
    | _, _, _ => None
    end
  end.

Theorem denote_verbatim_eq : forall cf, arbitrary_precision cf = true ->
  forall c, wfb c = true -> denote cf c = denote_verbatim cf c.
Proof.
  intros cf Hap.
  assert (H : (forall c, wfb c = true -> denote cf c = denote_verbatim cf c)
           /\ (forall es, wfb_elems es = true -> denote_elems cf es = denote_verbatim_elems cf es)
           /\ (forall ms, wfb_members ms = true -> denote_members cf ms = denote_verbatim_members cf ms)).
  { apply cst_elems_members_ind.
    - reflexivity.
    - reflexivity.
    - reflexivity.
    - intros n Hok. cbn [wfb] in Hok. cbn [denote denote_verbatim]. apply num_den_verbatim; assumption.
    - reflexivity.
    - intros w es IH Hwf. cbn [wfb] in Hwf. apply andb_prop in Hwf. destruct Hwf as (_ & Hes).
      cbn [denote denote_verbatim]. rewrite (IH Hes). reflexivity.
    - intros w ms IH Hwf. cbn [wfb] in Hwf. apply andb_prop in Hwf. destruct Hwf as (_ & Hms).
      cbn [denote denote_verbatim]. rewrite (IH Hms). reflexivity.
    - reflexivity.
    - intros w1 c IHc w2 rest IHr Hwf. cbn [wfb_elems] in Hwf.
      apply andb_prop in Hwf. destruct Hwf as (Hwf & Hrest).
      apply andb_prop in Hwf. destruct Hwf as (Hwf & _).
      apply andb_prop in Hwf. destruct Hwf as (_ & Hc).
      cbn [denote_elems denote_verbatim_elems]. rewrite (IHc Hc), (IHr Hrest). reflexivity.
    - reflexivity.
    - intros w1 k w2 w3 c IHc w4 rest IHr Hwf. cbn [wfb_members] in Hwf.
      apply andb_prop in Hwf. destruct Hwf as (Hwf & Hrest).
      apply andb_prop in Hwf. destruct Hwf as (Hwf & _).
      apply andb_prop in Hwf. destruct Hwf as (_ & Hc).
      cbn [denote_members denote_verbatim_members]. rewrite (IHc Hc), (IHr Hrest). reflexivity. }
  exact (proj1 H).
Qed.

(* every well-formed document parses to the value in which each number literal is its own text *)
Theorem verbatim_nested : forall cf w1 c w2 v, arbitrary_precision cf = true ->
  ws_ok w1 = true -> ws_ok w2 = true -> wfb c = true ->
  (limit_disabled cf = false -> (cdepth c <= 127)%nat) ->
  denote_verbatim cf c = Some v ->
  from_input (mkEnv RSlice TEof cf) (w1 ++ render c ++ w2) = Ok v.
Proof.
  intros cf w1 c w2 v Hap H1 H2 Hwf Hd Hden. apply value_complete_slice.
  exists w1, c, w2. split; [reflexivity|]. split; [exact H1|]. split; [exact H2|]. split; [exact Hwf|].
  split; [|exact Hd]. rewrite (denote_verbatim_eq cf Hap c Hwf). exact Hden.
Qed.

Theorem verbatim_alone : forall cf n, arbitrary_precision cf = true -> num_ok n = true ->
  from_input (mkEnv RSlice TEof cf) (render_num n) = Ok (VNum (NLit (render_num n))).
Proof.
  intros cf n Hap Hok.
  pose proof (verbatim_nested cf [] (CNum n) [] (VNum (NLit (render_num n))) Hap eq_refl eq_refl Hok) as H.
  cbn [app render cdepth denote_verbatim] in H. rewrite app_nil_r in H. apply H; [intros _; lia|reflexivity].
Qed.

(* and conversely: whatever a document parses to is its verbatim denotation *)
Theorem verbatim_sound : forall cf bs v, arbitrary_precision cf = true ->
  Forall (fun b => (b < 256)%N) bs -> from_input (mkEnv RSlice TEof cf) bs = Ok v ->
  exists w1 c w2, bs = w1 ++ render c ++ w2 /\ ws_ok w1 = true /\ ws_ok w2 = true /\ wfb c = true
               /\ denote_verbatim cf c = Some v.
Proof.
  intros cf bs v Hap Hb Hrun.
  destruct (value_sound_slice cf bs v Hb Hrun) as (w1 & c & w2 & H1 & H2 & H3 & H4 & H5 & _).
  exists w1, c, w2. repeat (split; [assumption|]). rewrite <- (denote_verbatim_eq cf Hap c H4). exact H5.
Qed.

(* ---- re-serialisation: documents made of arrays, numbers, null, true, false --------------------------- *)
Fixpoint numeric (c : cst) : bool :=
  match c with
  | CNull | CTrue | CFalse | CNum _ => true
  | CStr _ => false
  | CArr _ es => numeric_elems es
  | CObj _ _ => false
  end
with numeric_elems (es : elems) : bool :=
  match es with
  | ENil => true
  | ECons _ c _ rest => numeric c && numeric_elems rest
  end.

(* the same document with every optional whitespace removed *)
Fixpoint strip (c : cst) : cst :=
  match c with
  | CArr _ es => CArr [] (strip_elems es)
  | CObj _ ms => CObj [] (strip_members ms)
  | _ => c
  end
with strip_elems (es : elems) : elems :=
  match es with
  | ENil => ENil
  | ECons _ c _ rest => ECons [] (strip c) [] (strip_elems rest)
  end
with strip_members (ms : members) : members :=
  match ms with
  | MNil => MNil
  | MCons _ k _ _ c _ rest => MCons [] k [] [] (strip c) [] (strip_members rest)
  end.

Definition ser_elems : list value -> bool -> bytes :=
  fix go (l : list value) (first : bool) : bytes :=
    match l with
    | [] => []
    | x :: r => (if first then [] else [44]) ++ ser_value x ++ go r false
    end.

Lemma ser_value_arr (l : list value) : ser_value (VArr l) = 91 :: ser_elems l true ++ [93].
Proof. reflexivity. Qed.

Lemma ser_elems_cons (x : value) (r : list value) (first : bool) :
  ser_elems (x :: r) first = (if first then [] else [44]) ++ ser_value x ++ ser_elems r false.
Proof. reflexivity. Qed.

Theorem reserialise_numeric : forall cf c v, numeric c = true ->
  denote_verbatim cf c = Some v -> ser_value v = render (strip c).
Proof.
  intros cf.
  assert (H : (forall c v, numeric c = true -> denote_verbatim cf c = Some v -> ser_value v = render (strip c))
           /\ (forall es vs, numeric_elems es = true -> denote_verbatim_elems cf es = Some vs ->
                 forall first, ser_elems vs first =
                   match es with ENil => [] | _ => (if first then [] else [44]) ++ render_elems (strip_elems es) end)
           /\ (forall ms : members, True)).
  { apply cst_elems_members_ind.
    - intros v _ Hd. injection Hd as <-. reflexivity.
    - intros v _ Hd. injection Hd as <-. reflexivity.
    - intros v _ Hd. injection Hd as <-. reflexivity.
    - intros n v _ Hd. injection Hd as <-. reflexivity.
    - intros s v Hn. discriminate Hn.
    - intros w es IH v Hn Hd. cbn [numeric] in Hn. cbn [denote_verbatim] in Hd.
      destruct (denote_verbatim_elems cf es) as [vs|] eqn:Hes; [|discriminate Hd]. injection Hd as <-.
      rewrite ser_value_arr, (IH vs Hn eq_refl true). cbn [strip].
      destruct es as [|w1 c w2 rest]; reflexivity.
    - intros w ms _ v Hn. discriminate Hn.
    - intros vs _ Hd first. injection Hd as <-. reflexivity.
    - intros w1 c IHc w2 rest IHr vs Hn Hd first. cbn [numeric_elems] in Hn. apply andb_prop in Hn. destruct Hn as (Hc & Hr).
      cbn [denote_verbatim_elems] in Hd.
      destruct (denote_verbatim cf c) as [v|] eqn:Hv; [|discriminate Hd].
      destruct (denote_verbatim_elems cf rest) as [vs'|] eqn:Hvs; [|discriminate Hd]. injection Hd as <-.
      rewrite ser_elems_cons, (IHc v Hc eq_refl), (IHr vs' Hr eq_refl false). cbn [strip_elems].
      destruct rest as [|w1' c' w2' rest']; cbn [strip_elems render_elems app]; rewrite ?app_nil_r; reflexivity.
    - exact I.
    - intros. exact I. }
  exact (proj1 H).
Qed.

(* parse-then-serialise of such a document changes nothing but whitespace *)
Theorem parse_then_serialise_numeric : forall cf w1 c w2 v, arbitrary_precision cf = true ->
  ws_ok w1 = true -> ws_ok w2 = true -> wfb c = true -> numeric c = true ->
  (limit_disabled cf = false -> (cdepth c <= 127)%nat) ->
  denote_verbatim cf c = Some v ->
  from_input (mkEnv RSlice TEof cf) (w1 ++ render c ++ w2) = Ok v /\ ser_value v = render (strip c).
Proof.
  intros cf w1 c w2 v Hap H1 H2 Hwf Hn Hd Hden. split.
  - apply verbatim_nested; assumption.
  - apply (reserialise_numeric cf c v Hn Hden).
Qed.

Theorem numeric_denotes : forall cf c, numeric c = true -> exists v, denote_verbatim cf c = Some v.
Proof.
  intros cf.
  assert (H : (forall c, numeric c = true -> exists v, denote_verbatim cf c = Some v)
           /\ (forall es, numeric_elems es = true -> exists vs, denote_verbatim_elems cf es = Some vs)
           /\ (forall ms : members, True)).
  { apply cst_elems_members_ind; try (intros; eexists; reflexivity); try (intros; exact I).
    - intros s Hn. discriminate Hn.
    - intros w es IH Hn. destruct (IH Hn) as (vs & Hvs). cbn [denote_verbatim]. rewrite Hvs. eexists; reflexivity.
    - intros w ms _ Hn. discriminate Hn.
    - intros w1 c IHc w2 rest IHr Hn. cbn [numeric_elems] in Hn. apply andb_prop in Hn. destruct Hn as (Hc & Hr).
      destruct (IHc Hc) as (v & Hv). destruct (IHr Hr) as (vs & Hvs).
      cbn [denote_verbatim_elems]. rewrite Hv, Hvs. eexists; reflexivity. }
  exact (proj1 H).
Qed.

(* ================================================================================================ *)
(** * 4. Integer accessors on a literal *)

Definition lit_is_int (n : numlit) : bool :=
  match nfrac n, nexp n with None, None => true | _, _ => false end.
Definition lit_abs (n : numlit) : Z := digits_val (nint n) 0.
Definition lit_int (n : numlit) : Z := if nneg n then (- lit_abs n)%Z else lit_abs n.

Lemma lit_is_int_iff (n : numlit) : lit_is_int n = true <-> nfrac n = None /\ nexp n = None.
Proof.
  unfold lit_is_int. destruct (nfrac n), (nexp n); split; intros H; try discriminate H; try (destruct H; discriminate);
    split; reflexivity.
Qed.

Lemma all_digits_forallb (l : bytes) : all_digits l = true -> forallb is_digit l = true.
Proof. destruct l; [discriminate|intros H; exact H]. Qed.

Lemma all_digits_stop (a : bytes) (c : N) (r : bytes) : is_digit c = false -> all_digits (a ++ c :: r) = false.
Proof.
  intros Hc. destruct (all_digits (a ++ c :: r)) eqn:H; [exfalso|reflexivity].
  apply all_digits_forallb in H. rewrite forallb_app in H. apply andb_prop in H. destruct H as (_ & H).
  cbn [forallb] in H. rewrite Hc in H. discriminate H.
Qed.

Lemma int_ok_all_digits (ds : bytes) : int_ok ds = true -> all_digits ds = true.
Proof.
  intros H. destruct (int_ok_inv ds H) as [->|(c & r & -> & Hc & Hr)]; [reflexivity|].
  unfold all_digits. cbn [forallb]. rewrite (is_digit19_digit c Hc), Hr. reflexivity.
Qed.

Lemma num_ok_parts (n : numlit) : num_ok n = true ->
  int_ok (nint n) = true
  /\ (forall f, nfrac n = Some f -> all_digits f = true)
  /\ (forall e sg ds, nexp n = Some (e, sg, ds) ->
        ((e =? 101) || (e =? 69) = true)
        /\ (forall c, sg = Some c -> (c =? 43) || (c =? 45) = true)
        /\ all_digits ds = true).
Proof.
  unfold num_ok. intros H. apply andb_prop in H. destruct H as (H & Hx). apply andb_prop in H. destruct H as (Hi & Hf).
  split; [exact Hi|]. split.
  - intros f Hfr. rewrite Hfr in Hf. exact Hf.
  - intros e sg ds Hex. rewrite Hex in Hx. apply andb_prop in Hx. destruct Hx as (Hx & Hds).
    apply andb_prop in Hx. destruct Hx as (He & Hsg). split; [exact He|]. split; [|exact Hds].
    intros c ->. exact Hsg.
Qed.

Lemma all_digits_render_abs (n : numlit) : num_ok n = true -> all_digits (render_abs n) = lit_is_int n.
Proof.
  intros Hok. destruct (num_ok_parts n Hok) as (Hint & Hf & Hx). rewrite render_abs_eq. unfold lit_is_int.
  destruct (nfrac n) as [f|].
  - cbn [fracl app]. apply all_digits_stop. reflexivity.
  - destruct (nexp n) as [[[e sg] ds]|].
    + destruct (Hx e sg ds eq_refl) as (He & _ & _). cbn [fracl expl app]. apply all_digits_stop.
      unfold is_digit. lia.
    + cbn [fracl expl app]. rewrite app_nil_r. apply int_ok_all_digits, Hint.
Qed.

Lemma render_abs_int (n : numlit) : lit_is_int n = true -> render_abs n = nint n.
Proof.
  intros H. apply lit_is_int_iff in H. destruct H as (Hf & Hx). rewrite render_abs_eq, Hf, Hx.
  cbn [fracl expl app]. apply app_nil_r.
Qed.

Definition in_range (lo hi z : Z) : bool := ((lo <=? z) && (z <=? hi))%Z.

Lemma std_parse_int_lit (signed : bool) (lo hi : Z) (n : numlit) : num_ok n = true ->
  std_parse_int signed lo hi (render_num n) =
  if lit_is_int n && (signed || negb (nneg n)) && in_range lo hi (lit_int n) then Some (lit_int n) else None.
Proof.
  intros Hok. pose proof (all_digits_render_abs n Hok) as Had.
  rewrite render_num_split. unfold lit_int, lit_abs. destruct (nneg n); cbn [app negb].
  - unfold std_parse_int. change (45 =? 43) with false. change (45 =? 45) with true. cbv iota. cbn [andb].
    destruct signed; cbn [orb].
    + rewrite Had. destruct (lit_is_int n) eqn:Hi; cbn [andb]; [|reflexivity].
      rewrite (render_abs_int n Hi). reflexivity.
    + rewrite andb_false_r. cbn [andb].
      change (45 :: render_abs n) with ([] ++ 45 :: render_abs n). rewrite all_digits_stop; reflexivity.
  - destruct (render_abs_head n Hok) as (c & r & Hcr & Hc). rewrite orb_true_r, andb_true_r.
    unfold std_parse_int. rewrite Hcr.
    assert (H43 : (c =? 43) = false) by (unfold is_digit in Hc; lia).
    assert (H45 : (c =? 45) = false) by (unfold is_digit in Hc; lia).
    rewrite H43, H45. cbn [andb]. rewrite <- Hcr, Had.
    destruct (lit_is_int n) eqn:Hi; cbn [andb]; [|reflexivity].
    rewrite (render_abs_int n Hi). reflexivity.
Qed.

Lemma parse_int_spec (signed : bool) (lo hi : Z) (n : numlit) (v : Z) : num_ok n = true ->
  (std_parse_int signed lo hi (render_num n) = Some v <->
   nfrac n = None /\ nexp n = None /\ (signed = true \/ nneg n = false) /\ v = lit_int n /\ (lo <= v <= hi)%Z).
Proof.
  intros Hok. rewrite (std_parse_int_lit signed lo hi n Hok). unfold in_range.
  pose proof (lit_is_int_iff n) as Hi.
  destruct (lit_is_int n); cbn [andb].
  - destruct (proj1 Hi eq_refl) as (Hf & Hx).
    destruct signed; cbn [orb andb].
    + destruct ((lo <=? lit_int n)%Z && (lit_int n <=? hi)%Z) eqn:Hr; split.
      * intros H. injection H as <-. apply andb_prop in Hr. destruct Hr as (Hlo & Hhi).
        split; [exact Hf|]. split; [exact Hx|]. split; [left; reflexivity|]. split; [reflexivity|]. lia.
      * intros (_ & _ & _ & -> & _). reflexivity.
      * intros H. discriminate H.
      * intros (_ & _ & _ & -> & Hlo & Hhi). lia.
    + destruct (nneg n); cbn [negb andb].
      * split; [intros H; discriminate H|]. intros (_ & _ & [H|H] & _); discriminate H.
      * destruct ((lo <=? lit_int n)%Z && (lit_int n <=? hi)%Z) eqn:Hr; split.
        -- intros H. injection H as <-. apply andb_prop in Hr. destruct Hr as (Hlo & Hhi).
           split; [exact Hf|]. split; [exact Hx|]. split; [right; reflexivity|]. split; [reflexivity|]. lia.
        -- intros (_ & _ & _ & -> & _). reflexivity.
        -- intros H. discriminate H.
        -- intros (_ & _ & _ & -> & Hlo & Hhi). lia.
  - split; [intros H; discriminate H|]. intros (Hf & Hx & _).
    assert (false = true) by (apply Hi; split; assumption). discriminate.
Qed.

Lemma lit_abs_nonneg (n : numlit) : (0 <= lit_abs n)%Z.
Proof. unfold lit_abs. apply (digits_val_ge (nint n) 0). lia. Qed.

(* as_u64: exactly the plain non-negative integer literals up to u64::MAX, with their exact value *)
Theorem as_u64_spec : forall n v, num_ok n = true ->
  (ap_as_u64 (render_num n) = Some v <->
   nneg n = false /\ nfrac n = None /\ nexp n = None /\ v = lit_abs n /\ (v <= U64_MAX)%Z).
Proof.
  intros n v Hok. unfold ap_as_u64. rewrite (parse_int_spec false 0 U64_MAX n v Hok). unfold lit_int.
  pose proof (lit_abs_nonneg n). split.
  - intros (Hf & Hx & [H0|Hn] & Hv & Hr); [discriminate H0|]. rewrite Hn in Hv.
    split; [exact Hn|]. split; [exact Hf|]. split; [exact Hx|]. split; [exact Hv|]. lia.
  - intros (Hn & Hf & Hx & Hv & Hr). rewrite Hn.
    split; [exact Hf|]. split; [exact Hx|]. split; [right; reflexivity|]. split; [exact Hv|]. lia.
Qed.

Theorem as_u128_spec : forall n v, num_ok n = true ->
  (ap_as_u128 (render_num n) = Some v <->
   nneg n = false /\ nfrac n = None /\ nexp n = None /\ v = lit_abs n /\ (v <= U128_MAX)%Z).
Proof.
  intros n v Hok. unfold ap_as_u128. rewrite (parse_int_spec false 0 U128_MAX n v Hok). unfold lit_int.
  pose proof (lit_abs_nonneg n). split.
  - intros (Hf & Hx & [H0|Hn] & Hv & Hr); [discriminate H0|]. rewrite Hn in Hv.
    split; [exact Hn|]. split; [exact Hf|]. split; [exact Hx|]. split; [exact Hv|]. lia.
  - intros (Hn & Hf & Hx & Hv & Hr). rewrite Hn.
    split; [exact Hf|]. split; [exact Hx|]. split; [right; reflexivity|]. split; [exact Hv|]. lia.
Qed.

(* as_i64 / as_i128: exactly the plain integer literals (either sign, "-0" is 0) within range *)
Theorem as_i64_spec : forall n v, num_ok n = true ->
  (ap_as_i64 (render_num n) = Some v <->
   nfrac n = None /\ nexp n = None /\ v = lit_int n /\ (I64_MIN <= v <= I64_MAX)%Z).
Proof.
  intros n v Hok. unfold ap_as_i64. rewrite (parse_int_spec true I64_MIN I64_MAX n v Hok). split.
  - intros (Hf & Hx & _ & Hv & Hr). split; [exact Hf|]. split; [exact Hx|]. split; [exact Hv|exact Hr].
  - intros (Hf & Hx & Hv & Hr). split; [exact Hf|]. split; [exact Hx|]. split; [left; reflexivity|]. split; [exact Hv|exact Hr].
Qed.

Theorem as_i128_spec : forall n v, num_ok n = true ->
  (ap_as_i128 (render_num n) = Some v <->
   nfrac n = None /\ nexp n = None /\ v = lit_int n /\ (I128_MIN <= v <= I128_MAX)%Z).
Proof.
  intros n v Hok. unfold ap_as_i128. rewrite (parse_int_spec true I128_MIN I128_MAX n v Hok). split.
  - intros (Hf & Hx & _ & Hv & Hr). split; [exact Hf|]. split; [exact Hx|]. split; [exact Hv|exact Hr].
  - intros (Hf & Hx & Hv & Hr). split; [exact Hf|]. split; [exact Hx|]. split; [left; reflexivity|]. split; [exact Hv|exact Hr].
Qed.

(* literals with a fraction or an exponent are never integers for the accessors ("1.0", "1e2" give None) *)
Corollary non_integer_literal_none : forall n, num_ok n = true -> lit_is_int n = false ->
  ap_as_u64 (render_num n) = None /\ ap_as_i64 (render_num n) = None
  /\ ap_as_u128 (render_num n) = None /\ ap_as_i128 (render_num n) = None.
Proof.
  intros n Hok Hi. unfold ap_as_u64, ap_as_i64, ap_as_u128, ap_as_i128.
  rewrite !(std_parse_int_lit _ _ _ n Hok), Hi. cbn [andb]. repeat split; reflexivity.
Qed.

Theorem is_u64_def : forall lit, ap_is_u64 lit = is_some (ap_as_u64 lit).
Proof. reflexivity. Qed.
Theorem is_i64_def : forall lit, ap_is_i64 lit = is_some (ap_as_i64 lit).
Proof. reflexivity. Qed.
Theorem is_f64_def : forall lit, ap_is_f64 lit = existsb float_char lit && is_some (ap_as_f64 lit).
Proof. intros lit. unfold ap_is_f64. destruct (existsb float_char lit); reflexivity. Qed.

(* as_str / Display / serialisation of a parsed literal is the literal *)
Theorem text_is_literal : forall cf n, arbitrary_precision cf = true -> num_ok n = true ->
  exists x, number_from_str cf (render_num n) = Ok x
         /\ ap_as_str x = render_num n /\ ap_display x = render_num n /\ ap_serialize x = render_num n
         /\ ser_value (VNum x) = render_num n.
Proof.
  intros cf n Hap Hok. exists (NLit (render_num n)). split; [apply from_str_verbatim; assumption|].
  repeat split; reflexivity.
Qed.

(* ================================================================================================ *)
(** * 5. as_f64 on a literal: the decimal parts handed to the (assumed correctly rounding) std parser *)

Definition lit_frac (n : numlit) : bytes := match nfrac n with Some f => f | None => [] end.
Definition lit_exp_neg (n : numlit) : bool :=
  match nexp n with Some (_, Some c, _) => c =? 45 | _ => false end.
Definition lit_exp_written (n : numlit) : Z :=
  match nexp n with
  | Some (_, _, ds) => if lit_exp_neg n then (- digits_val ds 0)%Z else digits_val ds 0
  | None => 0%Z
  end.
(* the literal's absolute value is  lit_mantissa * 10 ^ lit_exponent *)
Definition lit_mantissa (n : numlit) : Z := digits_val (nint n ++ lit_frac n) 0.
Definition lit_exponent (n : numlit) : Z := (lit_exp_written n - Z.of_nat (length (lit_frac n)))%Z.

Lemma expl_stop (n : numlit) : num_ok n = true ->
  match expl (nexp n) with [] => True | c :: _ => is_digit c = false end.
Proof.
  intros Hok. destruct (num_ok_parts n Hok) as (_ & _ & Hx).
  destruct (nexp n) as [[[e sg] ds]|]; cbn [expl]; [|exact I].
  destruct (Hx e sg ds eq_refl) as (He & _ & _). unfold is_digit. lia.
Qed.

Lemma exp_parts (n : numlit) (ip fp : bytes) : num_ok n = true ->
  match expl (nexp n) with
  | [] => Some (ip, fp, 0%Z)
  | c :: t =>
    if NumberM.is_e c then
      let '(eneg, ds) := strip_sign t in
      if all_digits ds then Some (ip, fp, if eneg then (- digits_val ds 0)%Z else digits_val ds 0) else None
    else None
  end = Some (ip, fp, lit_exp_written n).
Proof.
  intros Hok. destruct (num_ok_parts n Hok) as (_ & _ & Hx). unfold lit_exp_written, lit_exp_neg.
  destruct (nexp n) as [[[e sg] ds]|]; cbn [expl]; [|reflexivity].
  destruct (Hx e sg ds eq_refl) as (He & Hsg & Hds). unfold NumberM.is_e. rewrite He.
  destruct sg as [c|]; cbn [sgl app].
  - specialize (Hsg c eq_refl). unfold strip_sign.
    destruct (c =? 43) eqn:H43.
    + assert (H45 : (c =? 45) = false) by lia. rewrite H45, Hds. reflexivity.
    + assert (H45 : (c =? 45) = true) by lia. rewrite H45, Hds. reflexivity.
  - destruct ds as [|c1 ds']; [discriminate Hds|].
    assert (Hc1 : is_digit c1 = true).
    { apply all_digits_forallb in Hds. cbn [forallb] in Hds. apply andb_prop in Hds. apply Hds. }
    unfold strip_sign.
    assert (H43 : (c1 =? 43) = false) by (unfold is_digit in Hc1; lia).
    assert (H45 : (c1 =? 45) = false) by (unfold is_digit in Hc1; lia).
    rewrite H43, H45, Hds. reflexivity.
Qed.

Lemma dec_parts_lit (n : numlit) : num_ok n = true ->
  dec_parts (render_abs n) = Some (nint n, lit_frac n, lit_exp_written n).
Proof.
  intros Hok. destruct (num_ok_parts n Hok) as (Hint & Hf & _).
  pose proof (all_digits_forallb _ (int_ok_all_digits _ Hint)) as Hid.
  pose proof (expl_stop n Hok) as Hstop.
  unfold dec_parts. cbv zeta. rewrite render_abs_eq.
  assert (Htail : match fracl (nfrac n) ++ expl (nexp n) with [] => True | c :: _ => is_digit c = false end).
  { destruct (nfrac n) as [f|]; cbn [fracl app]; [reflexivity|exact Hstop]. }
  rewrite (span_len_app is_digit (nint n) _ Hid Htail), firstn_app_exact, skipn_app_exact.
  unfold lit_frac.
  destruct (nint n) as [|c0 r0] eqn:Hn; [discriminate Hint|].
  destruct (nfrac n) as [f|] eqn:Hfr.
  - cbn [fracl app]. change (46 =? 46) with true. cbv iota.
    pose proof (all_digits_forallb _ (Hf f eq_refl)) as Hfd.
    rewrite (span_len_app is_digit f _ Hfd Hstop), firstn_app_exact, skipn_app_exact.
    cbn [app]. apply (exp_parts n (c0 :: r0) f Hok).
  - cbn [fracl app].
    assert (Hsel : match expl (nexp n) with
                   | c :: t => if c =? 46 then (firstn (span_len is_digit t) t, skipn (span_len is_digit t) t)
                               else ([], expl (nexp n))
                   | [] => ([], expl (nexp n))
                   end = ([], expl (nexp n))).
    { destruct (num_ok_parts n Hok) as (_ & _ & Hx).
      destruct (nexp n) as [[[e sg] ds]|]; cbn [expl]; [|reflexivity].
      destruct (Hx e sg ds eq_refl) as (He & _ & _).
      assert (H46 : (e =? 46) = false) by lia. rewrite H46. reflexivity. }
    rewrite Hsel. apply (exp_parts n (c0 :: r0) [] Hok).
Qed.

(* what as_f64 computes on a literal: the oracle applied to the literal's exact decimal value *)
Theorem as_f64_lit : forall n, num_ok n = true ->
  ap_as_f64 (render_num n) =
  let f := rne_decimal (lit_mantissa n) (lit_exponent n) in
  if b64_is_inf f then None else Some (if nneg n then b64_neg f else f).
Proof.
  intros n Hok. unfold ap_as_f64, std_parse_f64_finite. rewrite render_num_split.
  assert (Hs : strip_sign ((if nneg n then [45] else []) ++ render_abs n) = (nneg n, render_abs n)).
  { destruct (nneg n); cbn [app]; [reflexivity|].
    destruct (render_abs_head n Hok) as (c & r & Hcr & Hc). rewrite Hcr. unfold strip_sign.
    assert (H43 : (c =? 43) = false) by (unfold is_digit in Hc; lia).
    assert (H45 : (c =? 45) = false) by (unfold is_digit in Hc; lia).
    rewrite H43, H45. reflexivity. }
  rewrite Hs, (dec_parts_lit n Hok). reflexivity.
Qed.

(* ================================================================================================ *)
(** * 6. Typed targets do not depend on the feature *)

(* deserialize_i8 .. deserialize_u64, deserialize_f32, deserialize_f64 go through Deserializer::deserialize_number
   (src/de.rs), which calls parse_integer — NOT parse_any_number; deserialize_i128/u128 call scan_integer128.
   Neither function looks at arbitrary_precision (nor at preserve_order / the depth switch): same result, same
   error code, same error position. *)
Theorem parse_integer_feature_indep : forall rk tm cf cf' positive s,
  float_roundtrip cf = float_roundtrip cf' ->
  parse_integer (mkEnv rk tm cf) positive s = parse_integer (mkEnv rk tm cf') positive s.
Proof.
  intros rk tm [po fr ap ld] [po' fr' ap' ld'] positive s H. cbn [float_roundtrip] in H. subst fr'. reflexivity.
Qed.

Theorem scan_integer128_feature_indep : forall rk tm cf cf' s,
  scan_integer128 (mkEnv rk tm cf) s = scan_integer128 (mkEnv rk tm cf') s.
Proof. intros rk tm [po fr ap ld] [po' fr' ap' ld'] s. reflexivity. Qed.

Print Assumptions parse_any_number_S_fst.
Print Assumptions from_str_grammar.
Print Assumptions from_str_verbatim.
Print Assumptions verbatim_alone.
Print Assumptions verbatim_nested.
Print Assumptions parse_then_serialise_numeric.
Print Assumptions as_u64_spec.
Print Assumptions as_i128_spec.
Print Assumptions as_f64_lit.
Print Assumptions parse_integer_feature_indep.
