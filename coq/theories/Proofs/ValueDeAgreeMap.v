(* Proofs/ValueDeAgreeMap.v — C16, second clause, extended to maps: from_value agrees with the text deserializer on the text the
   serializer prints for the Value, for the type programs of [agree_ty_map] = [agree_ty] (Proofs/ValueDeAgree.v) + `TMap k t` with every
   key type except f32 (String, char, bool, the ten integer widths, f64, Option / newtype wrappers of keys, unit-variant enums).
   This file also holds the infrastructure shared with the later stages (Proofs/ValueDeAgreeStruct.v, ValueDeAgreeEnum.v,
   ValueDeAgreeMisc.v).

   Differences to Proofs/ValueDeAgree.v, which this file re-uses for all leaf types:
   * [shape2] enters objects: the members of the tree correspond one by one, in order, to the entries of the Value's Map, and every
     key is spelled as the serializer spells it ([pieces_of key]).  Both are needed: a typed map keeps the entries in arrival order
     with duplicates, and a numeric / bool key is only accepted unescaped (see Proofs/ValueDeAgreeKey.v).  A Value's Map has distinct
     keys ([wf_value]), so the tree of the printed text has this shape ([value_shape2]).  At number leaves [shape2] carries a
     relation [NR] between the literal and the Number (instantiated with "the literal the serializer prints"; only the 128-bit
     integer targets look at it, Proofs/ValueDeAgreeMisc.v).
   * [claimb] walks a (type program, Value) pair the way the seed does and excludes the two shapes on which from_value and from_str
     genuinely disagree (both concern enums): a struct variant written as an array, and a zero-length tuple variant on `[]`.
     It is identically true for type programs without enums ([claimb_noenum]); it is threaded through the typed lemmas here so that the
     wrapper lemmas (Option, newtype, Vec, tuples, maps) need not be proved again for the later stages.
   * [okrel2]: when the Value route fails, the text route either does not succeed or succeeds "stuck": it stops in front of one of
     `.`, `e`, `E` (a 128-bit integer target in front of the fraction / exponent of a float literal: do_deserialize_i128 scans the
     integer part only).  Every continuation (`,` / `]` / `}` / end of input expected) fails there.
   The statements are completeness-with-failure statements as in ValueDeAgree.v: [agree_at2]. *)
From SJ Require Import Base.Bytes Base.Utf8 Base.FloatB Gen.Tables
  Model.Read Model.Str Model.Num Model.NumF32 Model.Value Model.De Model.Ignore Model.Ty Model.NumberM Model.DeTyped Model.ValueDe
  Spec.Syntax Spec.Denote Proofs.GrammarIgnore Proofs.GrammarValueComplete Proofs.SerValue Proofs.GrammarValueBase Proofs.GrammarStr Proofs.GrammarNum
  Proofs.ValueDeRef Proofs.ValueDeAgree.
From SJ Require Import Proofs.SerRender Proofs.SerWf Proofs.SerDenote Proofs.ValueDeAgreeKey.
Require Import Lia ZifyBool ZifyNat ZifyN.
Open Scope N_scope.

(* ---- the tree mirrors the Value, objects included, keys spelled canonically ------------------------------------------------------------ *)
Section Shape2.
  Variable NR : numlit -> num -> Prop.

  Fixpoint shape2 (c : cst) (v : value) {struct c} : Prop :=
    match c, v with
    | CNum n, VNum num => NR n num
    | CArr _ es, VArr l => shape2_elems es l
    | CObj _ ms, VObj m => shape2_members ms m
    | CNum _, _ => False
    | CArr _ _, _ => False
    | CObj _ _, _ => False
    | _, _ => shape c v = true
    end
  with shape2_elems (es : elems) (l : list value) {struct es} : Prop :=
    match es, l with
    | ENil, [] => True
    | ECons _ c _ r, x :: l' => shape2 c x /\ shape2_elems r l'
    | _, _ => False
    end
  with shape2_members (ms : members) (m : list (bytes * value)) {struct ms} : Prop :=
    match ms, m with
    | MNil, [] => True
    | MCons _ k _ _ c _ r, kv :: m' => k = pieces_of (fst kv) /\ shape2 c (snd kv) /\ shape2_members r m'
    | _, _ => False
    end.

  Lemma shape2_shape_all :
    (forall c v, shape2 c v -> shape c v = true) /\ (forall es l, shape2_elems es l -> shape_elems es l = true) /\ (forall ms : members, True).
  Proof.
    apply cst_elems_members_ind; try (intros; exact I).
    - intros v H. destruct v; exact H.
    - intros v H. destruct v; exact H.
    - intros v H. destruct v; exact H.
    - intros n v H. destruct v; cbn [shape2] in H; try contradiction. reflexivity.
    - intros s v H. destruct v; exact H.
    - intros w es IH v H. destruct v; cbn [shape2] in H; try contradiction. cbn [shape]. apply IH, H.
    - intros w ms _ v H. destruct v; cbn [shape2] in H; try contradiction. reflexivity.
    - intros l H. destruct l; [reflexivity|contradiction].
    - intros w1 c IHc w2 rest IHr l H. destruct l as [|x l]; [contradiction|]. cbn [shape2_elems] in H. destruct H as [H1 H2].
      cbn [shape_elems]. rewrite (IHc x H1), (IHr l H2). reflexivity.
  Qed.

  Lemma shape2_shape c v : shape2 c v -> shape c v = true.
  Proof. apply shape2_shape_all. Qed.
End Shape2.

(* ---- the (type program, Value) pairs of the claim ---------------------------------------------------------------------------------------- *)
Fixpoint claim_list (f : ty -> value -> bool) (ts : list ty) (l : list value) : bool :=
  match ts, l with
  | t :: ts', x :: l' => f t x && claim_list f ts' l'
  | _, _ => true
  end.

Definition is_nil {A} (l : list A) : bool := match l with [] => true | _ => false end.

Definition claim_fields (f : ty -> value -> bool) (fields : list (bytes * ty)) (m : list (bytes * value)) : bool :=
  forallb (fun kv => match index_of (fst kv) fields with Some (_, t') => f t' (snd kv) | None => true end) m.

(* the payload of a variant *)
Definition claim_variant (f : ty -> value -> bool) (vr : variant) (x : value) : bool :=
  match vr with
  | VUnit => true
  | VNewtype t1 => f t1 x
  | VTuple ts =>
    match x with
    | VArr l => negb (is_nil ts && is_nil l)         (* a zero-length tuple variant on `[]`: excluded *)
                && claim_list f ts l
    | _ => true
    end
  | VStruct fields =>
    match x with
    | VArr _ => false                                 (* a struct variant written as an array: excluded *)
    | VObj m => claim_fields f fields m
    | _ => true
    end
  end.

(* follows the seed over the Value with the fuel discipline of [de_value_owned] *)
Fixpoint claimb (fuel : nat) (t : ty) (v : value) {struct fuel} : bool :=
  match fuel with
  | O => true
  | S f =>
    match t with
    | TOption t1 => match v with VNull => true | _ => claimb f t1 v end
    | TNewtype t1 => claimb f t1 v
    | TSeq t1 => match v with VArr l => forallb (claimb f t1) l | _ => true end
    | TTuple ts | TTupleStruct ts => match v with VArr l => claim_list (claimb f) ts l | _ => true end
    | TMap _ t1 => match v with VObj m => forallb (fun kv => claimb f t1 (snd kv)) m | _ => true end
    | TStruct fields =>
      match v with
      | VArr l => claim_list (claimb f) (map snd fields) l
      | VObj m => claim_fields (claimb f) fields m
      | _ => true
      end
    | TEnum vs =>
      match v with
      | VObj ((name, x) :: _) =>                       (* more than one entry: both routes fail, after looking at the first *)
        match index_of name vs with
        | Some (_, vr) => claim_variant (claimb f) vr x
        | None => true
        end
      | _ => true
      end
    | _ => true
    end
  end.

(* ---- outcomes ------------------------------------------------------------------------------------------------------------------------------ *)
Definition not_ok {A} (tr : tres A) : Prop := forall a, tr <> TOk a.

(* the text route stopped in front of a fraction or an exponent *)
Definition stuck (l : bytes) : Prop := exists b r, l = b :: r /\ (b = 46 \/ b = 69 \/ b = 101).

Definition okrel2 {A} (ub : A -> A) (r : vres A) (tr : tres (A * st)) (s : st) (rst : bytes) : Prop :=
  match r with
  | VOk d => exists d' s', tr = TOk (d', s') /\ ub d' = ub d /\ rest s' = rst /\ depth s' = depth s
  | VErr _ _ _ => forall d' s', tr = TOk (d', s') -> stuck (rest s')
  | _ => False
  end.

Lemma okrel_2 {A} (ub : A -> A) r tr s rst : okrel ub r tr s rst -> okrel2 ub r tr s rst.
Proof. unfold okrel, okrel2. destruct r; try tauto. intros H d' s' Ht. exfalso. exact (H _ Ht). Qed.

Lemma okrel2_not_ok {A} (ub : A -> A) c l k tr s rst : not_ok tr -> okrel2 ub (VErr c l k) tr s rst.
Proof. intros H d' s' Ht. exfalso. exact (H _ Ht). Qed.

Lemma okrel2_map (C : dval -> dval) r tr s rst : (forall a b, unborrow a = unborrow b -> unborrow (C a) = unborrow (C b)) ->
  okrel2 unborrow r tr s rst -> okrel2 unborrow (vmap C r) (tmap C tr) s rst.
Proof.
  intros HC. unfold okrel2. destruct r as [d| | |]; cbn [vmap vbind]; try tauto.
  - intros (d' & s' & -> & Hu & Hr & Hd). exists (C d'), s'. split; [reflexivity|]. auto.
  - intros H d' s' Ht. unfold tmap in Ht. destruct tr as [[a s0]| | | |]; cbn [tbind] in Ht; try discriminate Ht.
    injection Ht as _ <-. exact (H a s0 eq_refl).
Qed.

Lemma okrel2_depth {A} (ub : A -> A) r tr s1 s rst : depth s1 = depth s -> okrel2 ub r tr s1 rst -> okrel2 ub r tr s rst.
Proof.
  intros Hd. unfold okrel2. destruct r; try tauto. intros (d' & s' & H1 & H2 & H3 & H4). exists d', s'. rewrite <- Hd. auto.
Qed.

Lemma tbind_lift_not_ok {A B} (r : res A) (k : A -> tres B) : (forall o, r <> Ok o) -> not_ok (tbind (lift r) k).
Proof. intros H a. destruct r as [o| | |]; cbn [lift tbind]; try discriminate. exfalso. exact (H o eq_refl). Qed.

Lemma tmap_not_ok' {A B} (f : A -> B) (r : tres (A * st)) : not_ok r -> not_ok (tmap f r).
Proof. intros H b. apply tmap_not_ok. exact H. Qed.

Lemma sfuel_pos' es : (1 <= sfuel es)%nat.
Proof. destruct es; cbn [sfuel]; lia. Qed.
Lemma mfuel_pos ms : (1 <= mfuel ms)%nat.
Proof. destruct ms; cbn [mfuel]; lia. Qed.
Lemma ty_depth_pos' t : (1 <= ty_depth t)%nat.
Proof. destruct t; cbn [ty_depth]; lia. Qed.
Lemma lmax_depth_in' ts t : In t ts -> (ty_depth t <= lmax_depth ts)%nat.
Proof.
  induction ts as [|x ts IH]; [intros []|]. cbn [lmax_depth fold_right]. intros [->|Hin]; [lia|]. specialize (IH Hin). unfold lmax_depth in IH. lia.
Qed.

(* ---- first bytes ---------------------------------------------------------------------------------------------------------------- *)
Lemma first_not c b r : wfb c = true -> render c = b :: r -> ws_byte b = false /\
  ((forall w es, c <> CArr w es) -> b <> 91) /\ ((forall w ms, c <> CObj w ms) -> b <> 123) /\ ((forall ps, c <> CStr ps) -> b <> 34)
  /\ (c <> CNull -> b <> 110).
Proof.
  intros Hwf Hren. destruct (render_first c Hwf) as (b' & r' & Hren' & Hws & Hkind). rewrite Hren in Hren'. injection Hren' as <- <-.
  split; [exact Hws|].
  destruct c as [| | |n|ps|w0 es|w0 ms].
  - destruct Hkind as [-> _]. repeat split; intros; try discriminate; congruence.
  - destruct Hkind as [-> _]. repeat split; intros; try discriminate; congruence.
  - destruct Hkind as [-> _]. repeat split; intros; try discriminate; congruence.
  - repeat split; intros _; destruct Hkind as [->|Hd]; try discriminate; unfold is_digit in Hd; lia.
  - destruct Hkind as [-> _]. repeat split; intros Hc; try discriminate. exfalso. exact (Hc ps eq_refl).
  - destruct Hkind as [-> _]. repeat split; intros Hc; try discriminate. exfalso. exact (Hc w0 es eq_refl).
  - subst b. repeat split; intros Hc; try discriminate. exfalso. exact (Hc w0 ms eq_refl).
Qed.

(* ---- the reader around containers (no hypothesis on the configuration) ---------------------------------------------------------------- *)
Section Frames.
  Variable cf : cfg.
  Local Notation E := (mkEnv RSlice TEof cf).

  Lemma stuck_skipws l : stuck l -> exists b r, skipws l = b :: r /\ b <> 93 /\ b <> 44 /\ b <> 125 /\ b <> 58 /\ b <> 34.
  Proof.
    intros (b & r & -> & Hb). exists b, r. split; [apply skipws_head; destruct Hb as [->|[->| ->]]; reflexivity|].
    destruct Hb as [->|[->| ->]]; repeat split; discriminate.
  Qed.

  Lemma hne_stuck s : stuck (rest s) -> forall o, has_next_element E false s <> Ok o.
  Proof.
    intros Hs o H. apply hne_inv in H. destruct (stuck_skipws _ Hs) as (b & r & Hsk & H93 & H44 & _). destruct o as [s1|].
    - destruct H as (_ & _ & (r0 & Hr0 & _)). rewrite Hsk in Hr0. congruence.
    - destruct H as (r0 & Hr0). rewrite Hsk in Hr0. congruence.
  Qed.

  Lemma hnk_stuck s : stuck (rest s) -> forall o, has_next_key E false s <> Ok o.
  Proof.
    intros Hs o H. apply hnk_inv in H. destruct (stuck_skipws _ Hs) as (b & r & Hsk & H93 & H44 & H125 & _). destruct o as [s1|].
    - destruct H as (_ & r1 & _ & (r0 & Hr0 & _)). rewrite Hsk in Hr0. congruence.
    - destruct H as (r0 & Hr0). rewrite Hsk in Hr0. congruence.
  Qed.

  Lemma end_seq_stuck s : stuck (rest s) -> forall s', end_seq E s <> Ok s'.
  Proof. intros Hs s' H. apply end_seq_inv in H as [H _]. destruct (stuck_skipws _ Hs) as (b & r & Hsk & H93 & _). rewrite Hsk in H. congruence. Qed.

  Lemma de_end_stuck s : stuck (rest s) -> forall s', de_end E s <> Ok s'.
  Proof.
    intros Hs s' H. assert (Hw : ws_ok (rest s) = true) by (apply (de_end_ok cf); eauto).
    destruct Hs as (b & r & Hr & Hb). rewrite Hr in Hw. cbn [ws_ok forallb] in Hw. destruct Hb as [->|[->| ->]]; discriminate Hw.
  Qed.

  Lemma de_elems_S' f t1 first s :
    de_elems (S f) E t1 first s =
    (let^ o := has_next_element E first s in
     match o with
     | None => TOk ([], s)
     | Some s1 => let+ (d, s2) := de_typed f E t1 s1 in let+ (ds, s3) := de_elems f E t1 false s2 in TOk (d :: ds, s3)
     end).
  Proof. reflexivity. Qed.

  Lemma de_tuple_S' f ts first s :
    de_tuple (S f) E ts first s =
    match ts with
    | [] => TOk ([], s)
    | t :: ts' =>
      let^ o := has_next_element E first s in
      match o with
      | None => TUnpos MInvalidLength s
      | Some s1 => let+ (d, s2) := de_typed f E t s1 in let+ (ds, s3) := de_tuple f E ts' false s2 in TOk (d :: ds, s3)
      end
    end.
  Proof. reflexivity. Qed.

  Lemma de_entries_S f k v first s :
    de_entries (S f) E k v first s =
    (let^ o := has_next_key E first s in
     match o with
     | None => TOk ([], s)
     | Some s1 =>
       let+ (kd, s2) := de_key f E k s1 in
       let^ s3 := parse_object_colon E s2 in
       let+ (vd, s4) := de_typed f E v s3 in
       let+ (es, s5) := de_entries f E k v false s4 in
       TOk ((kd, vd) :: es, s5)
     end).
  Proof. reflexivity. Qed.

  Lemma de_elems_stuck f t1 s : stuck (rest s) -> not_ok (de_elems f E t1 false s).
  Proof. intros Hs. destruct f as [|f]; [discriminate|]. rewrite de_elems_S'. apply tbind_lift_not_ok, hne_stuck, Hs. Qed.

  Lemma de_entries_stuck f k v s : stuck (rest s) -> not_ok (de_entries f E k v false s).
  Proof. intros Hs. destruct f as [|f]; [discriminate|]. rewrite de_entries_S. apply tbind_lift_not_ok, hnk_stuck, Hs. Qed.

  (* a fixed-length visitor behind a stuck element: it fails, or (no component left) returns in the same place *)
  Lemma de_tuple_stuck f ts s : stuck (rest s) -> forall a s', de_tuple f E ts false s = TOk (a, s') -> stuck (rest s').
  Proof.
    intros Hs a s' H. destruct f as [|f]; [discriminate H|]. rewrite de_tuple_S' in H. destruct ts as [|t ts'].
    - injection H as _ <-. exact Hs.
    - exfalso. exact (tbind_lift_not_ok _ _ (hne_stuck s Hs) _ H).
  Qed.

  (* ---- `[` / `{` ... `]` / `}` ------------------------------------------------------------------------------------------------------ *)
  Lemma open_frame b r n s w : ws_ok w = true -> ws_byte b = false -> rest s = w ++ b :: r -> dbudget cf (S n) (depth s) ->
    exists s1 s2, parse_whitespace E s = Ok (Some b, s1) /\ enter E s1 = Ok s2 /\ rest (discard s2) = r
      /\ depth s1 = depth s /\ depth (discard s2) = (if limit_disabled cf then depth s else depth s - 1)
      /\ dbudget cf n (depth (discard s2)).
  Proof.
    intros Hw Hb Hr Hdb. destruct (pws_head cf s w b r Hw Hb Hr) as (s1 & Hpw & Hr1 & Hd1).
    destruct (enter_fwd cf s1) as (s2 & Hen & Hr2 & Hd2).
    { intros Hl. specialize (Hdb Hl). lia. }
    exists s1, s2. split; [exact Hpw|]. split; [exact Hen|]. split; [rewrite discard_rest, Hr2, Hr1; reflexivity|]. split; [exact Hd1|].
    split; [rewrite discard_depth, Hd2, Hd1; reflexivity|].
    rewrite discard_depth, Hd2, Hd1. unfold dbudget in *. intros Hl. specialize (Hdb Hl). rewrite Hl. lia.
  Qed.

  Definition closes (endf : env -> st -> res st) (cb : N) : Prop :=
    forall s4 rst', skipws (rest s4) = cb :: rst' -> exists s5, endf E s4 = Ok s5 /\ rest s5 = rst' /\ depth s5 = depth s4.

  Lemma closes_seq : closes end_seq 93.
  Proof. intros s4 rst' H. exact (end_seq_fwd cf s4 rst' H). Qed.
  Lemma closes_map : closes end_map 125.
  Proof. intros s4 rst' H. exact (end_map_fwd cf s4 rst' H). Qed.

  Lemma close_frame {A} endf endst cb (body : st -> tres (A * st)) n s s1 s2 x s3 wl rst :
    closes endf cb -> ws_byte cb = false ->
    dbudget cf (S n) (depth s) -> enter E s1 = Ok s2 -> depth s1 = depth s ->
    depth (discard s2) = (if limit_disabled cf then depth s else depth s - 1) ->
    body (discard s2) = TOk (x, s3) -> ws_ok wl = true -> rest s3 = wl ++ cb :: rst -> depth s3 = depth (discard s2) ->
    exists s5, frame E endf endst body s1 = TOk (x, s5) /\ rest s5 = rst /\ depth s5 = depth s.
  Proof.
    intros Hcl Hcb Hdb Hen Hd1 Hd2 He Hwl Hr3 Hd3. unfold frame. rewrite Hen. cbn [lift tbind]. rewrite He.
    destruct (leave_fwd cf s3) as (s4 & Hlv & Hr4 & Hd4).
    { intros Hl. specialize (Hdb Hl). rewrite Hd3, Hd2, Hl. lia. }
    rewrite Hlv. cbn [lift tbind].
    destruct (Hcl s4 rst) as (s5 & Hes & Hr5 & Hd5).
    { rewrite Hr4, Hr3. now apply skipws_to. }
    rewrite Hes. cbn [lift tbind]. exists s5. split; [reflexivity|]. split; [exact Hr5|].
    rewrite Hd5, Hd4, Hd3, Hd2. unfold dbudget in Hdb. destruct (limit_disabled cf); [reflexivity|].
    specialize (Hdb eq_refl). lia.
  Qed.

  Lemma frame_fail {A} endf endst (body : st -> tres (A * st)) s1 s2 : enter E s1 = Ok s2 ->
    not_ok (body (discard s2)) -> not_ok (frame E endf endst body s1).
  Proof.
    intros Hen H a. unfold frame. rewrite Hen. cbn [lift tbind].
    destruct (body (discard s2)) as [[x s3]| | | |] eqn:Hb; try discriminate.
    - exfalso. exact (H _ eq_refl).
    - destruct (leave E s); cbn [lift tbind]; discriminate.
  Qed.

  (* the frame fails when the closing bracket does not come next *)
  Lemma frame_blocked' {A} endf endst (body : st -> tres (A * st)) s1 s2 x s3 : enter E s1 = Ok s2 -> body (discard s2) = TOk (x, s3) ->
    (forall s4 s5, rest s4 = rest s3 -> endf E s4 <> Ok s5) -> not_ok (frame E endf endst body s1).
  Proof.
    intros Hen Hb H a. unfold frame. rewrite Hen. cbn [lift tbind]. rewrite Hb.
    destruct (leave E s3) as [s4| | |] eqn:Hl; cbn [lift tbind]; try discriminate.
    apply leave_inv in Hl as [Hr4 _].
    destruct (endf E s4) as [s5| | |] eqn:He; cbn [lift tbind]; try discriminate.
    exfalso. exact (H s4 s5 Hr4 He).
  Qed.

  Lemma hne_step' first s wp w1 c w2 rest0 rst : ws_ok wp = true -> ws_ok w1 = true -> wfb c = true ->
    rest s = seq_text first wp (ECons w1 c w2 rest0) ++ 93 :: rst ->
    exists s1, has_next_element E first s = Ok (Some s1) /\ rest s1 = render c ++ (w2 ++ tail_elems rest0 ++ 93 :: rst)
               /\ depth s1 = depth s.
  Proof.
    intros Hwp Hw1 Hwfc Hr. rewrite seq_text_cons in Hr. destruct (render_head c Hwfc) as (b & r & Hrc & Hbws & Hb93 & _).
    rewrite Hrc. cbn [app]. destruct first.
    - apply hne_fwd_first; [|exact Hb93]. rewrite Hr, Hrc. cbn [app]. lnorm. now apply skipws_to.
    - apply (hne_fwd_more cf s (w1 ++ b :: r ++ (w2 ++ tail_elems rest0 ++ 93 :: rst))); [| |exact Hb93].
      + rewrite Hr, Hrc. lnorm. now apply skipws_to.
      + now apply skipws_to.
  Qed.

  (* the next member: its key has been peeked *)
  Lemma hnk_step first s wp w1 k w2 w3 c w4 rest0 rst : ws_ok wp = true -> ws_ok w1 = true ->
    rest s = map_text first wp (MCons w1 k w2 w3 c w4 rest0) ++ 125 :: rst ->
    exists s1, has_next_key E first s = Ok (Some s1)
      /\ rest s1 = 34 :: flat_map render_piece k ++ 34 :: (w2 ++ 58 :: w3 ++ render c ++ (w4 ++ tail_members rest0 ++ 125 :: rst))
      /\ depth s1 = depth s.
  Proof.
    intros Hwp Hw1 Hr. rewrite map_text_cons in Hr. unfold render_str in Hr. destruct first.
    - apply hnk_fwd_first. rewrite Hr. lnorm. now apply skipws_to.
    - apply (hnk_fwd_more cf s (w1 ++ 34 :: flat_map render_piece k ++ 34 :: (w2 ++ 58 :: w3 ++ render c ++ (w4 ++ tail_members rest0 ++ 125 :: rst)))).
      + rewrite Hr. lnorm. now apply skipws_to.
      + now apply skipws_to.
  Qed.

  Lemma colon_step s2 w2 r : ws_ok w2 = true -> rest s2 = w2 ++ 58 :: r ->
    exists s3, parse_object_colon E s2 = Ok s3 /\ rest s3 = r /\ depth s3 = depth s2.
  Proof. intros Hw2 Hr. apply colon_fwd. rewrite Hr. now apply skipws_to. Qed.

  Lemma follow_members_tail w4 rest0 rst : ws_ok w4 = true -> follow_ok (w4 ++ tail_members rest0 ++ 125 :: rst).
  Proof. intros Hw4. apply follow_ws; [exact Hw4|]. destruct rest0; cbn [tail_members app follow_ok]; auto. Qed.

  Lemma follow_elems_tail w2 rest0 rst : ws_ok w2 = true -> follow_ok (w2 ++ tail_elems rest0 ++ 93 :: rst).
  Proof. intros Hw2. apply follow_ws; [exact Hw2|]. destruct rest0; cbn [tail_elems app follow_ok]; auto. Qed.

  (* the remaining text after some elements: the closing bracket does not come next *)
  Lemma end_seq_blocked' first wl es rst s4 : ws_ok wl = true -> wfb_elems es = true -> es <> ENil ->
    rest s4 = seq_text first wl es ++ 93 :: rst -> forall s5, end_seq E s4 <> Ok s5.
  Proof. exact (end_seq_blocked cf first wl es rst s4). Qed.

  (* a container request on a first byte it does not accept *)
  Lemma reject_map {A} (body : st -> tres (A * st)) s w b r : ws_ok w = true -> ws_byte b = false -> rest s = w ++ b :: r -> b <> 123 ->
    not_ok (deserialize_map E body s).
  Proof.
    intros Hw Hb Hr Hn a. destruct (pws_head cf s w b r Hw Hb Hr) as (s1 & Hpw & _). unfold deserialize_map. rewrite Hpw. cbn [lift tbind].
    apply N.eqb_neq in Hn. rewrite Hn. apply fix_position_not_ok, pit_not_ok.
  Qed.
End Frames.

Section Agree2.
  Variable NR : numlit -> num -> Prop.
  Variable cf : cfg.
  Variable fx : fenv.
  Hypothesis Hap : arbitrary_precision cf = false.
  Local Notation E := (mkEnv RSlice TEof cf).
  Local Notation shp2 := (shape2 NR).
  Local Notation shp2_elems := (shape2_elems NR).
  Local Notation shp2_members := (shape2_members NR).

  (* [k]: slack of the Value route's fuel over the nesting of the type program.  from_value runs with one level to spare
     ([value_de_fuel]), which only ByteBuf's element visitor consumes: [agree_at2] = slack 1; slack 0 is used for ByteBuf's elements. *)
  Definition agree_at2k (k : nat) (t : ty) : Prop := forall c v fuel fv s w rst,
    wfb c = true -> denote cf c = Some v -> shp2 c v -> claimb fv t v = true -> wf_value cf v = true -> ws_ok w = true -> follow_ok rst ->
    dbudget cf (cdepth c) (depth s) -> rest s = w ++ render c ++ rst ->
    (ty_depth t + vfuel c <= fuel)%nat -> (k + ty_depth t <= fv)%nat ->
    okrel2 unborrow (de_value_owned fv cf fx t v) (de_typed fuel E t s) s rst.
  Definition agree_at2 : ty -> Prop := agree_at2k 1.

  (* every type program of Proofs/ValueDeAgree.v whose lemma does not depend on sub-programs *)
  Lemma agree_at_2k k t : agree_at cf fx t -> agree_at2k k t.
  Proof.
    intros H c v fuel fv s w rst Hwf Hden Hsh _ Hwv Hw Hfol Hdb Hr Hfuel Hfv. apply okrel_2.
    assert (Hfv' : (ty_depth t <= fv)%nat) by (clear - Hfv; lia).
    exact (H c v fuel fv s w rst Hwf Hden (shape2_shape NR c v Hsh) Hwv Hw Hfol Hdb Hr Hfuel Hfv').
  Qed.
  Lemma agree_at_2 t : agree_at cf fx t -> agree_at2 t.
  Proof. apply agree_at_2k. Qed.

  (* ---- wrappers (as in ValueDeAgree.v, over [agree_at2]) ------------------------------------------------------------------------ *)
  Lemma agree_option2 t1 : agree_at2 t1 -> agree_at2 (TOption t1).
  Proof.
    intros IH c v fuel fv s w rst Hwf Hden Hsh Hcl Hwv Hw Hfol Hdb Hr Hfuel Hfv.
    cbn [ty_depth] in Hfuel, Hfv. destruct fuel as [|f]; [lia|]. destruct fv as [|fv]; [lia|].
    destruct (render_first c Hwf) as (b & r & Hren & Hbws & Hkind).
    pose proof Hr as Hr0. rewrite Hren in Hr. revert Hr. lnorm. intros Hr.
    destruct (pws_head cf s w b (r ++ rst) Hw Hbws Hr) as (s1 & Hpw & Hr1 & Hd1).
    cbn [de_typed]. rewrite Hpw. cbn [lift tbind].
    pose proof (shape2_shape NR c v Hsh) as Hsh1.
    destruct (b =? 110) eqn:Hb.
    - apply N.eqb_eq in Hb. subst b.
      assert (Hc : c = CNull).
      { destruct c; try reflexivity; exfalso;
          first [discriminate Hkind | destruct Hkind as [Hk _]; discriminate Hk | destruct Hkind as [Hk|Hk]; discriminate Hk]. }
      subst c. destruct v; try discriminate Hsh1. destruct Hkind as [_ ->].
      destruct (parse_ident_fwd cf lit_ull (discard s1) rst) as (s2 & Hid & Hr2 & Hd2).
      { rewrite discard_rest, Hr1. reflexivity. }
      rewrite Hid. cbn [lift tbind de_value_owned okrel2]. exists DNone, s2. rewrite Hd2, discard_depth. auto.
    - assert (Hnn : v <> VNull).
      { intros ->. destruct c; try discriminate Hsh1. destruct Hkind as [Hk _]. subst b. discriminate Hb. }
      assert (Hv : de_value_owned (S fv) cf fx (TOption t1) v = vmap DSome (de_value_owned fv cf fx t1 v)).
      { destruct v; try reflexivity. congruence. }
      assert (Hcl1 : claimb fv t1 v = true).
      { destruct v; try exact Hcl. congruence. }
      rewrite Hv. apply okrel2_map; [intros a b' Hab; cbn [unborrow]; rewrite Hab; reflexivity|].
      apply (okrel2_depth unborrow _ _ s1 s rst Hd1).
      apply (IH c v f fv s1 [] rst); try assumption; try reflexivity.
      + rewrite Hd1. exact Hdb.
      + rewrite Hr1, Hren. lnorm. reflexivity.
      + clear - Hfuel. lia.
      + clear - Hfv. lia.
  Qed.

  Lemma agree_newtype2 t1 : agree_at2 t1 -> agree_at2 (TNewtype t1).
  Proof.
    intros IH c v fuel fv s w rst Hwf Hden Hsh Hcl Hwv Hw Hfol Hdb Hr Hfuel Hfv.
    cbn [ty_depth] in Hfuel, Hfv. destruct fuel as [|f]; [lia|]. destruct fv as [|fv]; [lia|].
    cbn [de_typed de_value_owned]. apply okrel2_map; [intros a b' Hab; cbn [unborrow]; rewrite Hab; reflexivity|].
    apply (IH c v f fv s w rst); try assumption; [clear - Hfuel; lia|clear - Hfv; lia].
  Qed.

  (* ---- Vec<T> -------------------------------------------------------------------------------------------------------------------- *)
  Definition elems_rel2 (k : nat) (t1 : ty) : Prop := forall es l fuel fv first s wp rst,
    wfb_elems es = true -> denote_elems cf es = Some l -> shp2_elems es l -> forallb (claimb fv t1) l = true ->
    forallb (wf_value cf) l = true -> ws_ok wp = true ->
    dbudget cf (cdepth_elems es) (depth s) -> rest s = seq_text first wp es ++ 93 :: rst ->
    (ty_depth t1 + sfuel es <= fuel)%nat -> (k + ty_depth t1 <= fv)%nat ->
    match seq_all (de_value_owned fv cf fx t1) l with
    | VOk (ds, rem) => rem = [] /\ exists ds' s' wl, de_elems fuel E t1 first s = TOk (ds', s') /\ map unborrow ds' = map unborrow ds
                         /\ ws_ok wl = true /\ rest s' = wl ++ 93 :: rst /\ depth s' = depth s
    | VErr _ _ _ => not_ok (de_elems fuel E t1 first s)
    | _ => False
    end.

  Lemma elems_agree2 k t1 : agree_at2k k t1 -> elems_rel2 k t1.
  Proof.
    intros IH es. induction es as [|w1 c w2 rest0 IHr]; intros l fuel fv first s wp rst Hwf Hden Hsh Hcl Hwvl Hwp Hdb Hr Hfuel Hfv.
    - cbn [denote_elems] in Hden. injection Hden as <-. cbn [seq_all]. split; [reflexivity|].
      cbn [sfuel] in Hfuel. destruct fuel as [|f]; [lia|]. cbn [seq_text] in Hr.
      rewrite de_elems_S', (hne_fwd_none cf first s rst). 2:{ rewrite Hr. now apply skipws_to. }
      cbn [lift tbind]. exists [], s, wp. auto.
    - cbn [sfuel] in Hfuel. destruct fuel as [|f]; [lia|].
      cbn [wfb_elems] in Hwf. apply andb_prop in Hwf as [Hwf Hwfr]. apply andb_prop in Hwf as [Hwf Hw2].
      apply andb_prop in Hwf as [Hw1 Hwfc].
      cbn [denote_elems] in Hden. destruct (denote cf c) as [v|] eqn:Hdc; [|discriminate].
      destruct (denote_elems cf rest0) as [vs0|] eqn:Hdr; [|discriminate]. injection Hden as <-.
      cbn [shape2_elems] in Hsh. destruct Hsh as [Hshc Hshr].
      cbn [forallb] in Hwvl, Hcl. apply andb_prop in Hwvl as [Hwvc Hwvr]. apply andb_prop in Hcl as [Hclc Hclr].
      cbn [cdepth_elems] in Hdb.
      destruct (hne_step' cf first s wp w1 c w2 rest0 rst Hwp Hw1 Hwfc Hr) as (s1 & Hh & Hs1 & Hd1).
      set (rst1 := w2 ++ tail_elems rest0 ++ 93 :: rst) in *.
      rewrite de_elems_S', Hh. cbn [lift tbind]. cbn [seq_all].
      assert (Hel := IH c v f fv s1 [] rst1 Hwfc Hdc Hshc Hclc Hwvc eq_refl (follow_elems_tail w2 rest0 rst Hw2)).
      rewrite Hd1 in Hel. specialize (Hel (dbudget_le _ _ _ _ (Nat.le_max_l _ _) Hdb) Hs1).
      assert (Hf1 : (ty_depth t1 + vfuel c <= f)%nat) by (clear - Hfuel; lia). specialize (Hel Hf1 Hfv).
      destruct (de_value_owned fv cf fx t1 v) as [d| | |]; cbn [okrel2 vbind] in Hel |- *; try contradiction.
      + destruct Hel as (d' & s2 & Hv & Hud & Hr2 & Hd2). rewrite Hv. cbn [tbind].
        assert (Hrest := IHr vs0 f fv false s2 w2 rst Hwfr eq_refl Hshr Hclr Hwvr Hw2).
        rewrite Hd2, Hd1 in Hrest. specialize (Hrest (dbudget_le _ _ _ _ (Nat.le_max_r _ _) Hdb)).
        assert (Hr2' : rest s2 = seq_text false w2 rest0 ++ 93 :: rst) by (rewrite Hr2, seq_text_false; unfold rst1; lnorm; reflexivity).
        assert (Hf2 : (ty_depth t1 + sfuel rest0 <= f)%nat) by (clear - Hfuel; lia). specialize (Hrest Hr2' Hf2 Hfv).
        destruct (seq_all (de_value_owned fv cf fx t1) vs0) as [[ds rem]| | |]; cbn [vbind]; try contradiction.
        * destruct Hrest as (-> & ds' & s3 & wl & He & Hu & Hwl & Hr3 & Hd3). split; [reflexivity|].
          rewrite He. cbn [tbind]. exists (d' :: ds'), s3, wl. split; [reflexivity|]. cbn [map]. rewrite Hud, Hu.
          split; [reflexivity|]. split; [exact Hwl|]. split; [exact Hr3|]. congruence.
        * intros a. destruct (de_elems f E t1 false s2) as [[ds' s3]| | | |] eqn:He; cbn [tbind]; try discriminate.
          exfalso. exact (Hrest _ eq_refl).
      + intros a. destruct (de_typed f E t1 s1) as [[d' s2]| | | |] eqn:Hv; cbn [tbind]; try discriminate.
        specialize (Hel _ _ eq_refl).
        destruct (de_elems f E t1 false s2) as [[ds' s3]| | | |] eqn:He; cbn [tbind]; try discriminate.
        exfalso. exact (de_elems_stuck cf f t1 s2 Hel _ He).
  Qed.

  (* `[` elements `]` read by Vec's visitor: visit_array(_owned) against a `[`-frame over de_elems *)
  Lemma elems_array k (C : list dval -> dval) t1 w0 es l f fv s s1 s2 rst :
    (forall a b, map unborrow a = map unborrow b -> unborrow (C a) = unborrow (C b)) ->
    agree_at2k k t1 -> ws_ok w0 = true -> wfb_elems es = true -> denote_elems cf es = Some l -> shp2_elems es l ->
    forallb (claimb fv t1) l = true -> forallb (wf_value cf) l = true ->
    dbudget cf (cdepth (CArr w0 es)) (depth s) -> enter E s1 = Ok s2 -> rest (discard s2) = seq_text true w0 es ++ 93 :: rst ->
    depth s1 = depth s -> depth (discard s2) = (if limit_disabled cf then depth s else depth s - 1) ->
    dbudget cf (cdepth_elems es) (depth (discard s2)) ->
    (ty_depth t1 + sfuel es <= f)%nat -> (k + ty_depth t1 <= fv)%nat ->
    okrel2 unborrow (vmap C (visit_array_owned l (seq_all (de_value_owned fv cf fx t1))))
                    (tmap C (fix_position E (frame E end_seq end_seq_st (fun s' => de_elems f E t1 true s') s1))) s rst.
  Proof.
    intros HC IH Hw0 Hwfe Hde Hsh Hcl Hwv Hdb Hen Hrb Hd1 Hd2 Hdb2 Hf1 Hf2.
    assert (Hloop := elems_agree2 k t1 IH es l f fv true (discard s2) w0 rst Hwfe Hde Hsh Hcl Hwv Hw0 Hdb2 Hrb Hf1 Hf2).
    unfold visit_array_owned.
    destruct (seq_all (de_value_owned fv cf fx t1) l) as [[ds rem]| | |]; cbn [vbind vmap]; try contradiction.
    - destruct Hloop as (-> & ds' & s3 & wl & He & Hu & Hwl & Hr3 & Hd3). cbn [vbind vmap okrel2].
      destruct (close_frame cf end_seq end_seq_st 93 (fun s' => de_elems f E t1 true s') (cdepth_elems es) s s1 s2 ds' s3 wl rst
                  (closes_seq cf) eq_refl Hdb Hen Hd1 Hd2 He Hwl Hr3 Hd3) as (s5 & Hfr & Hr5 & Hd5).
      rewrite Hfr. cbn [fix_position tmap tbind]. exists (C ds'), s5. split; [reflexivity|]. split; [apply HC, Hu|]. auto.
    - apply okrel2_not_ok. apply tmap_not_ok'. intros a. apply fix_position_not_ok. apply (frame_fail cf _ _ _ s1 s2 Hen). exact Hloop.
  Qed.

  Lemma agree_seq2 t1 : agree_at2 t1 -> agree_at2 (TSeq t1).
  Proof.
    intros IH c v fuel fv s w rst Hwf Hden Hsh Hcl Hwv Hw Hfol Hdb Hr Hfuel Hfv.
    destruct fuel as [|f]; [cbn [ty_depth] in Hfuel; lia|]. destruct fv as [|fv]; [cbn [ty_depth] in Hfv; lia|].
    destruct (render_first c Hwf) as (b & r & Hren & Hbws & _).
    pose proof Hr as Hr0. rewrite Hren in Hr. revert Hr. lnorm. intros Hr.
    destruct (first_not c b r Hwf Hren) as (_ & Hn91 & _).
    destruct c as [| | |n|ps|w0 es|w0 ms]; destruct v as [|[|]| | |l|]; cbn [shape2 shape] in Hsh; try discriminate Hsh; try contradiction;
      cbn [de_value_owned]; unfold verr.
    all: try (apply okrel2_not_ok; intros a0; apply (reject_not_ok cf (TSeq t1) f s w b (r ++ rst) Hw Hbws Hr); apply Hn91; intros; discriminate).
    cbn [wfb denote] in Hwf, Hden. apply andb_prop in Hwf as [Hw0 Hwfe].
    destruct (denote_elems cf es) as [l'|] eqn:Hde; [|discriminate Hden]. injection Hden as <-.
    rewrite render_arr in Hr0. revert Hr0. lnorm. intros Hr0.
    destruct (open_frame cf 91 _ (cdepth_elems es) s w Hw eq_refl Hr0 Hdb) as (s1 & s2 & Hpw & Hen & Hrb & Hd1 & Hd2 & Hdb2).
    cbn [de_typed]. unfold deserialize_seq. rewrite Hpw. cbn [lift tbind]. change (91 =? 91) with true. cbv iota.
    cbn [ty_depth vfuel] in Hfuel, Hfv. cbn [claimb] in Hcl. cbn [wf_value] in Hwv.
    apply (elems_array 1 DSeq t1 w0 es l' f fv s s1 s2 rst); try assumption; [|clear - Hfuel; lia|clear - Hfv; lia].
    intros a b' Hab. cbn [unborrow]. rewrite Hab. reflexivity.
  Qed.

  (* ---- tuples / tuple structs / positional structs ------------------------------------------------------------------------------ *)
  Lemma shape2_nil es l : shp2_elems es l -> (l = [] <-> es = ENil).
  Proof. destruct es, l; cbn [shape2_elems]; intros H; try contradiction; split; intros H'; try reflexivity; discriminate H'. Qed.

  Definition tuple_rel2 (ts : list ty) : Prop := forall es l fuel fv first s wp rst D,
    (forall t, In t ts -> agree_at2 t /\ (ty_depth t <= D)%nat) ->
    wfb_elems es = true -> denote_elems cf es = Some l -> shp2_elems es l -> claim_list (claimb fv) ts l = true ->
    forallb (wf_value cf) l = true -> ws_ok wp = true ->
    dbudget cf (cdepth_elems es) (depth s) -> rest s = seq_text first wp es ++ 93 :: rst ->
    (D + sfuel es <= fuel)%nat -> (D < fv)%nat ->
    match seq_tuple (de_value_owned fv cf fx) ts l with
    | VOk (ds, rem) => exists ds' s' first' wl es', de_tuple fuel E ts first s = TOk (ds', s') /\ map unborrow ds' = map unborrow ds
         /\ ws_ok wl = true /\ rest s' = seq_text first' wl es' ++ 93 :: rst /\ depth s' = depth s
         /\ wfb_elems es' = true /\ (rem = [] <-> es' = ENil)
    | VErr _ _ _ => forall a s', de_tuple fuel E ts first s = TOk (a, s') -> stuck (rest s')
    | _ => False
    end.

  Lemma tuple_agree2 ts : tuple_rel2 ts.
  Proof.
    induction ts as [|t ts' IHts]; intros es l fuel fv first s wp rst D HIH Hwf Hden Hsh Hcl Hwvl Hwp Hdb Hr Hfuel Hfv.
    - cbn [seq_tuple]. pose proof (sfuel_pos' es). destruct fuel as [|f]; [lia|]. rewrite de_tuple_S'.
      exists [], s, first, wp, es. split; [reflexivity|]. split; [reflexivity|]. split; [exact Hwp|]. split; [exact Hr|].
      split; [reflexivity|]. split; [exact Hwf|]. apply shape2_nil. exact Hsh.
    - pose proof (sfuel_pos' es). destruct fuel as [|f]; [lia|]. rewrite de_tuple_S'.
      destruct es as [|w1 c w2 rest0].
      + destruct l; [|contradiction]. cbn [seq_tuple verr]. intros a s'. cbn [seq_text] in Hr.
        rewrite (hne_fwd_none cf first s rst). 2:{ rewrite Hr. now apply skipws_to. }
        cbn [lift tbind]. discriminate.
      + cbn [sfuel] in Hfuel.
        cbn [wfb_elems] in Hwf. apply andb_prop in Hwf as [Hwf Hwfr]. apply andb_prop in Hwf as [Hwf Hw2].
        apply andb_prop in Hwf as [Hw1 Hwfc].
        cbn [denote_elems] in Hden. destruct (denote cf c) as [v|] eqn:Hdc; [|discriminate].
        destruct (denote_elems cf rest0) as [vs0|] eqn:Hdr; [|discriminate]. injection Hden as <-.
        cbn [shape2_elems] in Hsh. destruct Hsh as [Hshc Hshr].
        cbn [forallb] in Hwvl. apply andb_prop in Hwvl as [Hwvc Hwvr].
        cbn [claim_list] in Hcl. apply andb_prop in Hcl as [Hclc Hclr].
        cbn [cdepth_elems] in Hdb.
        destruct (hne_step' cf first s wp w1 c w2 rest0 rst Hwp Hw1 Hwfc Hr) as (s1 & Hh & Hs1 & Hd1).
        set (rst1 := w2 ++ tail_elems rest0 ++ 93 :: rst) in *.
        rewrite Hh. cbn [lift tbind]. cbn [seq_tuple].
        destruct (HIH t (or_introl eq_refl)) as [IHt HtD].
        assert (Hel := IHt c v f fv s1 [] rst1 Hwfc Hdc Hshc Hclc Hwvc eq_refl (follow_elems_tail w2 rest0 rst Hw2)).
        rewrite Hd1 in Hel. specialize (Hel (dbudget_le _ _ _ _ (Nat.le_max_l _ _) Hdb) Hs1).
        assert (Hf1 : (ty_depth t + vfuel c <= f)%nat) by (clear - Hfuel HtD; lia).
        assert (Hf1' : (ty_depth t < fv)%nat) by (clear - Hfv HtD; lia).
        specialize (Hel Hf1 Hf1').
        destruct (de_value_owned fv cf fx t v) as [d| | |]; cbn [okrel2 vbind] in Hel |- *; try contradiction.
        * destruct Hel as (d' & s2 & Hv & Hud & Hr2 & Hd2). rewrite Hv. cbn [tbind].
          assert (Hrest := IHts rest0 vs0 f fv false s2 w2 rst D (fun t' Hin => HIH t' (or_intror Hin)) Hwfr Hdr Hshr Hclr Hwvr Hw2).
          rewrite Hd2, Hd1 in Hrest. specialize (Hrest (dbudget_le _ _ _ _ (Nat.le_max_r _ _) Hdb)).
          assert (Hr2' : rest s2 = seq_text false w2 rest0 ++ 93 :: rst) by (rewrite Hr2, seq_text_false; unfold rst1; lnorm; reflexivity).
          assert (Hf2 : (D + sfuel rest0 <= f)%nat) by (clear - Hfuel; lia). specialize (Hrest Hr2' Hf2 Hfv).
          destruct (seq_tuple (de_value_owned fv cf fx) ts' vs0) as [[ds rem]| | |]; cbn [vbind]; try contradiction.
          -- destruct Hrest as (ds' & s3 & first' & wl & es' & He & Hu & Hwl & Hr3 & Hd3 & Hwf' & Hrem).
             rewrite He. cbn [tbind]. exists (d' :: ds'), s3, first', wl, es'. split; [reflexivity|]. cbn [map]. rewrite Hud, Hu.
             split; [reflexivity|]. split; [exact Hwl|]. split; [exact Hr3|]. split; [congruence|]. split; [exact Hwf'|exact Hrem].
          -- intros a s'. destruct (de_tuple f E ts' false s2) as [[ds' s3]| | | |] eqn:He; cbn [tbind]; try discriminate.
             intros [= _ <-]. exact (Hrest _ _ eq_refl).
        * intros a s'. destruct (de_typed f E t s1) as [[d' s2]| | | |] eqn:Hv; cbn [tbind]; try discriminate.
          specialize (Hel _ _ eq_refl).
          destruct (de_tuple f E ts' false s2) as [[ds' s3]| | | |] eqn:He; cbn [tbind]; try discriminate.
          intros [= _ <-]. exact (de_tuple_stuck cf f ts' s2 Hel _ _ He).
  Qed.

  (* `[` elements `]` read by a fixed-length visitor: visit_array(_owned) against a `[`-frame over de_tuple *)
  Lemma tuple_array (C : list dval -> dval) ts w0 es l f fv s s1 s2 rst D :
    (forall a b, map unborrow a = map unborrow b -> unborrow (C a) = unborrow (C b)) ->
    (forall t, In t ts -> agree_at2 t /\ (ty_depth t <= D)%nat) ->
    ws_ok w0 = true -> wfb_elems es = true -> denote_elems cf es = Some l -> shp2_elems es l -> claim_list (claimb fv) ts l = true ->
    forallb (wf_value cf) l = true ->
    dbudget cf (cdepth (CArr w0 es)) (depth s) -> enter E s1 = Ok s2 -> rest (discard s2) = seq_text true w0 es ++ 93 :: rst ->
    depth s1 = depth s -> depth (discard s2) = (if limit_disabled cf then depth s else depth s - 1) ->
    dbudget cf (cdepth_elems es) (depth (discard s2)) ->
    (D + sfuel es <= f)%nat -> (D < fv)%nat ->
    okrel2 unborrow (vmap C (visit_array_owned l (seq_tuple (de_value_owned fv cf fx) ts)))
                    (tmap C (fix_position E (frame E end_seq end_seq_st (fun s' => de_tuple f E ts true s') s1))) s rst.
  Proof.
    intros HC HIH Hw0 Hwfe Hde Hsh Hcl Hwv Hdb Hen Hrb Hd1 Hd2 Hdb2 Hf1 Hf2.
    assert (Hloop := tuple_agree2 ts es l f fv true (discard s2) w0 rst D HIH Hwfe Hde Hsh Hcl Hwv Hw0 Hdb2 Hrb Hf1 Hf2).
    unfold visit_array_owned.
    destruct (seq_tuple (de_value_owned fv cf fx) ts l) as [[ds rem]| | |]; cbn [vbind vmap]; try contradiction.
    - destruct Hloop as (ds' & s3 & first' & wl & es' & He & Hu & Hwl & Hr3 & Hd3 & Hwf' & Hrem).
      destruct rem as [|x rem]; unfold verr; cbn [vbind vmap].
      + assert (Hes' : es' = ENil) by (apply Hrem; reflexivity). subst es'. cbn [seq_text] in Hr3.
        destruct (close_frame cf end_seq end_seq_st 93 (fun s' => de_tuple f E ts true s') (cdepth_elems es) s s1 s2 ds' s3 wl rst
                    (closes_seq cf) eq_refl Hdb Hen Hd1 Hd2 He Hwl Hr3 Hd3) as (s5 & Hfr & Hr5 & Hd5).
        rewrite Hfr. cbn [fix_position tmap tbind okrel2]. exists (C ds'), s5. split; [reflexivity|]. split; [apply HC, Hu|]. auto.
      + apply okrel2_not_ok. apply tmap_not_ok'. intros a. apply fix_position_not_ok.
        apply (frame_blocked' cf _ _ _ s1 s2 ds' s3 Hen He).
        intros s4 s5 Hr4. apply (end_seq_blocked' cf first' wl es' rst s4 Hwl Hwf').
        * intros Hn. apply Hrem in Hn. discriminate Hn.
        * rewrite Hr4. exact Hr3.
    - apply okrel2_not_ok. apply tmap_not_ok'. intros a. apply fix_position_not_ok.
      destruct (de_tuple f E ts true (discard s2)) as [[ds' s3]| | | |] eqn:He.
      + apply (frame_blocked' cf _ _ _ s1 s2 ds' s3 Hen He). intros s4 s5 Hr4. apply end_seq_stuck. rewrite Hr4. exact (Hloop _ _ eq_refl).
      + apply (frame_fail cf _ _ _ s1 s2 Hen). rewrite He. discriminate.
      + apply (frame_fail cf _ _ _ s1 s2 Hen). rewrite He. discriminate.
      + apply (frame_fail cf _ _ _ s1 s2 Hen). rewrite He. discriminate.
      + apply (frame_fail cf _ _ _ s1 s2 Hen). rewrite He. discriminate.
  Qed.

  Lemma agree_tuple_gen2 t ts : t = TTuple ts \/ t = TTupleStruct ts -> (forall t', In t' ts -> agree_at2 t') -> agree_at2 t.
  Proof.
    intros Ht HIH.
    assert (Hd : ty_depth t = S (lmax_depth ts)) by (destruct Ht; subst; apply ty_depth_tuple).
    assert (Hv : forall fv v, de_value_owned (S fv) cf fx t v
                 = match v with VArr l => vmap DSeq (visit_array_owned l (seq_tuple (de_value_owned fv cf fx) ts)) | _ => verr MInvalidType end)
      by (intros; destruct Ht; subst; reflexivity).
    assert (Ht' : forall f s, de_typed (S f) E t s = tmap DSeq (deserialize_seq E (fun s' => de_tuple f E ts true s') s))
      by (intros; destruct Ht; subst; reflexivity).
    assert (Hrej : forall b, b <> 91 -> rejects t b) by (intros; destruct Ht; subst; assumption).
    assert (Hcl' : forall fv l, claimb (S fv) t (VArr l) = claim_list (claimb fv) ts l) by (intros; destruct Ht; subst; reflexivity).
    intros c v fuel fv s w rst Hwf Hden Hsh Hcl Hwv Hw Hfol Hdb Hr Hfuel Hfv. rewrite Hd in Hfuel, Hfv.
    destruct fuel as [|f]; [lia|]. destruct fv as [|fv]; [lia|].
    destruct (render_first c Hwf) as (b & r & Hren & Hbws & _).
    pose proof Hr as Hr0. rewrite Hren in Hr. revert Hr. lnorm. intros Hr.
    destruct (first_not c b r Hwf Hren) as (_ & Hn91 & _).
    rewrite Hv.
    destruct c as [| | |n|ps|w0 es|w0 ms]; destruct v as [|[|]| | |l|]; cbn [shape2 shape] in Hsh; try discriminate Hsh; try contradiction;
      unfold verr.
    all: try (apply okrel2_not_ok; intros a0; apply (reject_not_ok cf t f s w b (r ++ rst) Hw Hbws Hr); apply Hrej, Hn91; intros; discriminate).
    cbn [wfb denote] in Hwf, Hden. apply andb_prop in Hwf as [Hw0 Hwfe].
    destruct (denote_elems cf es) as [l'|] eqn:Hde; [|discriminate Hden]. injection Hden as <-.
    rewrite render_arr in Hr0. revert Hr0. lnorm. intros Hr0.
    destruct (open_frame cf 91 _ (cdepth_elems es) s w Hw eq_refl Hr0 Hdb) as (s1 & s2 & Hpw & Hen & Hrb & Hd1 & Hd2 & Hdb2).
    rewrite Ht'. unfold deserialize_seq. rewrite Hpw. cbn [lift tbind]. change (91 =? 91) with true. cbv iota.
    rewrite Hcl' in Hcl. cbn [vfuel] in Hfuel. cbn [wf_value] in Hwv.
    apply (tuple_array DSeq ts w0 es l' f fv s s1 s2 rst (lmax_depth ts)); try assumption; [| |clear - Hfuel; lia|clear - Hfv; lia].
    - intros a b' Hab. cbn [unborrow]. rewrite Hab. reflexivity.
    - intros t' Hin. split; [apply HIH, Hin|apply lmax_depth_in', Hin].
  Qed.

  (* ---- objects: the entries of the Value's Map are the members of the tree, in order ------------------------------------------- *)
  Lemma members_keys ms : forall l m, denote_members cf ms = Some l -> shp2_members ms m ->
    forallb (fun kv => utf8_valid (fst kv) && wf_value cf (snd kv)) m = true -> map fst l = map fst m.
  Proof.
    induction ms as [|w1 k w2 w3 c w4 rest0 IH]; intros l m Hden Hsh Hwv.
    - cbn [denote_members] in Hden. injection Hden as <-. destruct m; [reflexivity|contradiction].
    - destruct m as [|kv m']; [contradiction|]. cbn [shape2_members] in Hsh. destruct Hsh as (Hk & _ & Hshr).
      cbn [forallb] in Hwv. apply andb_prop in Hwv as [Hkv Hwvr]. apply andb_prop in Hkv as [Hu _].
      cbn [denote_members] in Hden. subst k. rewrite (str_text_pieces _ Hu) in Hden.
      destruct (denote cf c); [|discriminate]. destruct (denote_members cf rest0) as [vs0|] eqn:Hdr; [|discriminate].
      injection Hden as <-. cbn [map fst]. f_equal. apply (IH vs0 m' eq_refl Hshr Hwvr).
  Qed.

  Lemma obj_members w0 ms m : denote cf (CObj w0 ms) = Some (VObj m) -> shp2_members ms m -> wf_value cf (VObj m) = true ->
    denote_members cf ms = Some m.
  Proof.
    intros Hden Hsh Hwv. cbn [denote] in Hden. destruct (denote_members cf ms) as [l|] eqn:Hdm; [|discriminate]. cbn [option_map] in Hden.
    injection Hden as Hm. cbn [wf_value] in Hwv. apply andb_prop in Hwv as [Hwe Hk].
    pose proof (members_keys ms l m Hdm Hsh Hwe) as Hkeys.
    rewrite map_of_entries_id in Hm by (rewrite Hkeys; exact Hk). subst l. reflexivity.
  Qed.

  (* ---- maps ---------------------------------------------------------------------------------------------------------------------- *)
  Definition ubkv (kv : dval * dval) : dval * dval := (unborrow (fst kv), unborrow (snd kv)).

  Definition entries_rel2 (k : kty) (t1 : ty) : Prop := forall ms m fuel fv first s wp rst,
    wfb_members ms = true -> denote_members cf ms = Some m -> shp2_members ms m ->
    forallb (fun kv => claimb fv t1 (snd kv)) m = true ->
    forallb (fun kv => utf8_valid (fst kv) && wf_value cf (snd kv)) m = true -> ws_ok wp = true ->
    dbudget cf (cdepth_members ms) (depth s) -> rest s = map_text first wp ms ++ 125 :: rst ->
    (Nat.max (kty_depth k) (ty_depth t1) + mfuel ms <= fuel)%nat -> (ty_depth t1 < fv)%nat ->
    match map_all (de_value_key cf false k) (de_value_owned fv cf fx t1) m with
    | VOk (es, rem) => rem = [] /\ exists es' s' wl, de_entries fuel E k t1 first s = TOk (es', s') /\ map ubkv es' = map ubkv es
                         /\ ws_ok wl = true /\ rest s' = wl ++ 125 :: rst /\ depth s' = depth s
    | VErr _ _ _ => not_ok (de_entries fuel E k t1 first s)
    | _ => False
    end.

  Lemma entries_agree2 k t1 : agree_kty k = true -> agree_at2 t1 -> entries_rel2 k t1.
  Proof.
    intros Hk IH ms. induction ms as [|w1 kp w2 w3 c w4 rest0 IHr]; intros m fuel fv first s wp rst Hwf Hden Hsh Hcl Hwvl Hwp Hdb Hr Hfuel Hfv.
    - cbn [denote_members] in Hden. injection Hden as <-. cbn [map_all]. split; [reflexivity|].
      cbn [mfuel] in Hfuel. destruct fuel as [|f]; [lia|]. cbn [map_text] in Hr.
      rewrite de_entries_S, (hnk_fwd_none cf first s rst). 2:{ rewrite Hr. now apply skipws_to. }
      cbn [lift tbind]. exists [], s, wp. auto.
    - cbn [mfuel] in Hfuel. destruct fuel as [|f]; [lia|].
      cbn [wfb_members] in Hwf. apply andb_prop in Hwf as [Hwf Hwfr]. apply andb_prop in Hwf as [Hwf Hw4].
      apply andb_prop in Hwf as [Hwf Hwfc]. apply andb_prop in Hwf as [Hwf Hw3]. apply andb_prop in Hwf as [Hwf Hw2].
      apply andb_prop in Hwf as [Hw1 Hkok].
      cbn [denote_members] in Hden. destruct (str_text kp) as [kb|] eqn:Hkt; [|discriminate].
      destruct (denote cf c) as [v|] eqn:Hdc; [|discriminate].
      destruct (denote_members cf rest0) as [vs0|] eqn:Hdr; [|discriminate]. injection Hden as <-.
      cbn [shape2_members fst snd] in Hsh. destruct Hsh as (Hkp & Hshc & Hshr).
      cbn [forallb fst snd] in Hwvl, Hcl. apply andb_prop in Hwvl as [Hwvc Hwvr]. apply andb_prop in Hwvc as [Hu Hwvc].
      apply andb_prop in Hcl as [Hclc Hclr].
      cbn [cdepth_members] in Hdb.
      destruct (hnk_step cf first s wp w1 kp w2 w3 c w4 rest0 rst Hwp Hw1 Hr) as (s1 & Hh & Hs1 & Hd1).
      set (rst1 := w4 ++ tail_members rest0 ++ 125 :: rst) in *.
      set (rstk := w2 ++ 58 :: w3 ++ render c ++ rst1) in *.
      rewrite de_entries_S, Hh. cbn [lift tbind map_all].
      subst kp. change (flat_map render_piece (pieces_of kb)) with (Lk kb) in Hs1.
      assert (Hfk : (kty_depth k <= f)%nat) by (clear - Hfuel; lia).
      assert (Hkey := key_agree cf Hap k kb f s1 rstk Hk Hu Hs1 Hfk).
      destruct (de_value_key cf false k kb) as [kd| | |]; cbn [okrel vbind] in Hkey |- *; try contradiction.
      + destruct Hkey as (kd' & s2 & Hkt2 & Hukd & Hr2 & Hd2). rewrite Hkt2. cbn [tbind].
        destruct (colon_step cf s2 w2 (w3 ++ render c ++ rst1) Hw2 Hr2) as (s3 & Hcol & Hr3 & Hd3).
        rewrite Hcol. cbn [lift tbind].
        assert (Hel := IH c v f fv s3 w3 rst1 Hwfc Hdc Hshc Hclc Hwvc Hw3 (follow_members_tail w4 rest0 rst Hw4)).
        rewrite Hd3, Hd2, Hd1 in Hel. specialize (Hel (dbudget_le _ _ _ _ (Nat.le_max_l _ _) Hdb) Hr3).
        assert (Hf1 : (ty_depth t1 + vfuel c <= f)%nat) by (clear - Hfuel; lia). specialize (Hel Hf1 Hfv).
        destruct (de_value_owned fv cf fx t1 v) as [d| | |]; cbn [okrel2 vbind] in Hel |- *; try contradiction.
        * destruct Hel as (d' & s4 & Hv & Hud & Hr4 & Hd4). rewrite Hv. cbn [tbind].
          assert (Hrest := IHr vs0 f fv false s4 w4 rst Hwfr eq_refl Hshr Hclr Hwvr Hw4).
          rewrite Hd4, Hd3, Hd2, Hd1 in Hrest. specialize (Hrest (dbudget_le _ _ _ _ (Nat.le_max_r _ _) Hdb)).
          assert (Hr4' : rest s4 = map_text false w4 rest0 ++ 125 :: rst) by (rewrite Hr4, map_text_false; unfold rst1; lnorm; reflexivity).
          assert (Hf2 : (Nat.max (kty_depth k) (ty_depth t1) + mfuel rest0 <= f)%nat) by (clear - Hfuel; lia).
          specialize (Hrest Hr4' Hf2 Hfv).
          destruct (map_all (de_value_key cf false k) (de_value_owned fv cf fx t1) vs0) as [[es rem]| | |]; cbn [vbind]; try contradiction.
          -- destruct Hrest as (-> & es' & s5 & wl & He & Hu5 & Hwl & Hr5 & Hd5). split; [reflexivity|].
             rewrite He. cbn [tbind]. exists ((kd', d') :: es'), s5, wl. split; [reflexivity|]. cbn [map]. rewrite Hu5.
             unfold ubkv at 1 3. cbn [fst snd]. rewrite Hukd, Hud.
             split; [reflexivity|]. split; [exact Hwl|]. split; [exact Hr5|]. congruence.
          -- intros a. destruct (de_entries f E k t1 false s4) as [[es' s5]| | | |] eqn:He; cbn [tbind]; try discriminate.
             exfalso. exact (Hrest _ eq_refl).
        * intros a. destruct (de_typed f E t1 s3) as [[d' s4]| | | |] eqn:Hv; cbn [tbind]; try discriminate.
          specialize (Hel _ _ eq_refl).
          destruct (de_entries f E k t1 false s4) as [[es' s5]| | | |] eqn:He; cbn [tbind]; try discriminate.
          exfalso. exact (de_entries_stuck cf f k t1 s4 Hel _ He).
      + intros a. destruct (de_key f E k s1) as [[kd' s2]| | | |] eqn:Hkt2; cbn [tbind]; try discriminate.
        exfalso. exact (Hkey _ eq_refl).
  Qed.

  Lemma agree_map2 k t1 : agree_kty k = true -> agree_at2 t1 -> agree_at2 (TMap k t1).
  Proof.
    intros Hk IH c v fuel fv s w rst Hwf Hden Hsh Hcl Hwv Hw Hfol Hdb Hr Hfuel Hfv.
    destruct fuel as [|f]; [cbn [ty_depth] in Hfuel; lia|]. destruct fv as [|fv]; [cbn [ty_depth] in Hfv; lia|].
    destruct (render_first c Hwf) as (b & r & Hren & Hbws & _).
    pose proof Hr as Hr0. rewrite Hren in Hr. revert Hr. lnorm. intros Hr.
    destruct (first_not c b r Hwf Hren) as (_ & _ & Hn123 & _).
    destruct c as [| | |n|ps|w0 es|w0 ms]; destruct v as [|[|]| | | |m]; cbn [shape2 shape] in Hsh; try discriminate Hsh; try contradiction;
      cbn [de_value_owned]; unfold verr.
    all: try (apply okrel2_not_ok; apply tmap_not_ok'; apply (reject_map cf _ s w b (r ++ rst) Hw Hbws Hr); apply Hn123; intros; discriminate).
    pose proof (obj_members w0 ms m Hden Hsh Hwv) as Hdm.
    cbn [wfb] in Hwf. apply andb_prop in Hwf as [Hw0 Hwfm].
    rewrite render_obj in Hr0. revert Hr0. lnorm. intros Hr0.
    destruct (open_frame cf 123 _ (cdepth_members ms) s w Hw eq_refl Hr0 Hdb) as (s1 & s2 & Hpw & Hen & Hrb & Hd1 & Hd2 & Hdb2).
    cbn [de_typed]. unfold deserialize_map. rewrite Hpw. cbn [lift tbind]. change (123 =? 123) with true. cbv iota.
    cbn [ty_depth vfuel] in Hfuel, Hfv. cbn [claimb] in Hcl. cbn [wf_value] in Hwv. apply andb_prop in Hwv as [Hwe Hkeys].
    assert (Hf1 : (Nat.max (kty_depth k) (ty_depth t1) + mfuel ms <= f)%nat) by (clear - Hfuel; lia).
    assert (Hf2 : (ty_depth t1 < fv)%nat) by (clear - Hfv; lia).
    assert (Hloop := entries_agree2 k t1 Hk IH ms m f fv true (discard s2) w0 rst Hwfm Hdm Hsh Hcl Hwe Hw0 Hdb2 Hrb Hf1 Hf2).
    unfold map_any_owned.
    destruct (map_all (de_value_key cf false k) (de_value_owned fv cf fx t1) m) as [[es rem]| | |]; cbn [vbind vmap]; try contradiction.
    - destruct Hloop as (-> & es' & s3 & wl & He & Hu & Hwl & Hr3 & Hd3). cbn [vbind vmap okrel2].
      destruct (close_frame cf end_map end_map_st 125 (fun s' => de_entries f E k t1 true s') (cdepth_members ms) s s1 s2 es' s3 wl rst
                  (closes_map cf) eq_refl Hdb Hen Hd1 Hd2 He Hwl Hr3 Hd3) as (s5 & Hfr & Hr5 & Hd5).
      rewrite Hfr. cbn [fix_position tmap tbind]. exists (DMap es'), s5. split; [reflexivity|].
      split; [cbn [unborrow]; f_equal; exact Hu|]. auto.
    - apply okrel2_not_ok. apply tmap_not_ok'. intros a. apply fix_position_not_ok. apply (frame_fail cf _ _ _ s1 s2 Hen). exact Hloop.
  Qed.

  (* ---- every type program of this stage ------------------------------------------------------------------------------------------ *)
  Fixpoint agree_ty_map (t : ty) : bool :=
    match t with
    | TBool | TUnit | TUnitStruct | TStr | TChar | TF64 | TIgnored | TValue => true
    | TInt it => negb (is_128 it)
    | TOption t1 | TNewtype t1 | TSeq t1 => agree_ty_map t1
    | TTuple ts | TTupleStruct ts => forallb agree_ty_map ts
    | TMap k t1 => agree_kty k && agree_ty_map t1
    | _ => false
    end.

  (* the leaf types of Proofs/ValueDeAgree.v *)
  Definition leaf_ty (t : ty) : bool :=
    match t with
    | TBool | TUnit | TUnitStruct | TStr | TChar | TF64 | TIgnored | TValue => true
    | TInt it => negb (is_128 it)
    | _ => false
    end.

  Lemma agree_leaf2 t : leaf_ty t = true -> agree_at2 t.
  Proof.
    intros Ht. apply agree_at_2. apply (agree_all cf fx Hap (ty_depth t) t (le_n _)).
    destruct t; try discriminate Ht; try reflexivity. exact Ht.
  Qed.

  Theorem agree_all_map : forall n t, (ty_depth t <= n)%nat -> agree_ty_map t = true -> agree_at2 t.
  Proof.
    induction n as [|n IH]; intros t Hn Ht; [pose proof (ty_depth_pos' t); lia|].
    destruct t; cbn [agree_ty_map] in Ht; try discriminate Ht; try (apply agree_leaf2; exact Ht).
    - apply agree_option2, IH; [cbn [ty_depth] in Hn; lia|exact Ht].
    - apply agree_newtype2, IH; [cbn [ty_depth] in Hn; lia|exact Ht].
    - apply agree_seq2, IH; [cbn [ty_depth] in Hn; lia|exact Ht].
    - apply (agree_tuple_gen2 _ ts (or_introl eq_refl)). intros t' Hin. apply IH.
      + pose proof (lmax_depth_in' ts t' Hin). rewrite (proj1 (ty_depth_tuple ts)) in Hn. lia.
      + rewrite forallb_forall in Ht. apply Ht, Hin.
    - apply (agree_tuple_gen2 _ ts (or_intror eq_refl)). intros t' Hin. apply IH.
      + pose proof (lmax_depth_in' ts t' Hin). rewrite (proj2 (ty_depth_tuple ts)) in Hn. lia.
      + rewrite forallb_forall in Ht. apply Ht, Hin.
    - apply andb_prop in Ht as [Hk Ht]. apply agree_map2; [exact Hk|]. apply IH; [cbn [ty_depth] in Hn; lia|exact Ht].
  Qed.
End Agree2.

(* ---- the claim predicate is vacuous without enums ---------------------------------------------------------------------------------------- *)
Fixpoint no_enum (t : ty) : bool :=
  match t with
  | TOption t1 | TNewtype t1 | TSeq t1 => no_enum t1
  | TTuple ts | TTupleStruct ts => forallb no_enum ts
  | TMap _ t1 => no_enum t1
  | TStruct fs => forallb (fun p => no_enum (snd p)) fs
  | TEnum _ => false
  | _ => true
  end.

Lemma index_of_In {A} name (l : list (bytes * A)) i a : index_of name l = Some (i, a) -> exists n, In (n, a) l.
Proof.
  revert i. induction l as [|[n x] l IH]; intros i H; cbn [index_of] in H; [discriminate|].
  destruct (beq_bytes name n).
  - injection H as _ <-. exists n. left. reflexivity.
  - destruct (index_of name l) as [[j y]|]; [|discriminate]. injection H as _ <-. destruct (IH j eq_refl) as [n' Hn]. exists n'. right. exact Hn.
Qed.

Lemma claim_list_all (f : ty -> value -> bool) ts : (forall t x, In t ts -> f t x = true) -> forall l, claim_list f ts l = true.
Proof.
  induction ts as [|t ts IH]; intros H l; [reflexivity|]. destruct l as [|x l]; [reflexivity|]. cbn [claim_list].
  rewrite (H t x (or_introl eq_refl)), (IH (fun t' x' Hin => H t' x' (or_intror Hin))). reflexivity.
Qed.

Lemma claimb_noenum : forall f t v, no_enum t = true -> claimb f t v = true.
Proof.
  induction f as [|f IH]; [reflexivity|]. intros t v Ht.
  destruct t; cbn [no_enum] in Ht; try discriminate Ht; cbn [claimb]; try reflexivity.
  - destruct v; try reflexivity; apply IH, Ht.
  - apply IH, Ht.
  - destruct v; try reflexivity. apply forallb_forall. intros x _. apply IH, Ht.
  - destruct v; try reflexivity. apply claim_list_all. intros t' x Hin. apply IH. rewrite forallb_forall in Ht. apply Ht, Hin.
  - destruct v; try reflexivity. apply claim_list_all. intros t' x Hin. apply IH. rewrite forallb_forall in Ht. apply Ht, Hin.
  - destruct v; try reflexivity. apply forallb_forall. intros x _. apply IH, Ht.
  - destruct v; try reflexivity.
    + apply claim_list_all. intros t' x Hin. apply IH. apply in_map_iff in Hin as (p & <- & Hp). rewrite forallb_forall in Ht. apply (Ht p Hp).
    + unfold claim_fields. apply forallb_forall. intros kv _. destruct (index_of (fst kv) fields) as [[i t']|] eqn:Hi; [|reflexivity].
      apply IH. destruct (index_of_In _ _ _ _ Hi) as [n Hn]. rewrite forallb_forall in Ht. apply (Ht (n, t') Hn).
Qed.

Lemma agree_ty_map_noenum : forall n t, (ty_depth t <= n)%nat -> agree_ty_map t = true -> no_enum t = true.
Proof.
  induction n as [|n IH]; intros t Hn Ht; [pose proof (ty_depth_pos' t); lia|].
  destruct t; cbn [agree_ty_map] in Ht; try discriminate Ht; cbn [no_enum]; try reflexivity.
  - apply IH; [cbn [ty_depth] in Hn; lia|exact Ht].
  - apply IH; [cbn [ty_depth] in Hn; lia|exact Ht].
  - apply IH; [cbn [ty_depth] in Hn; lia|exact Ht].
  - apply forallb_forall. intros t' Hin. apply IH.
    + pose proof (lmax_depth_in' ts t' Hin). rewrite (proj1 (ty_depth_tuple ts)) in Hn. lia.
    + rewrite forallb_forall in Ht. apply Ht, Hin.
  - apply forallb_forall. intros t' Hin. apply IH.
    + pose proof (lmax_depth_in' ts t' Hin). rewrite (proj2 (ty_depth_tuple ts)) in Hn. lia.
    + rewrite forallb_forall in Ht. apply Ht, Hin.
  - apply andb_prop in Ht as [_ Ht]. apply IH; [cbn [ty_depth] in Hn; lia|exact Ht].
Qed.

(* ---- the printed tree mirrors the Value ([shape2]) ------------------------------------------------------------------------------------------ *)
From SJ Require Import Model.Sval Model.Ser Model.ValueSer Spec.Layout Proofs.SerBase Proofs.SerMain Proofs.SerFinal Proofs.ValueDeText.

Section Text.
  Variable cf : cfg.
  Variable fx : fenv.
  Variable fmt32 fmt64 : N -> bytes.
  Local Notation cst_of := (cst_of cf fmt32 fmt64).

  (* the literal is the one the serializer prints for the Number *)
  Definition NRser (n : numlit) (num : num) : Prop := cst_of (sval_of_num num) = Some (CNum n).

  Lemma shape2_elems_of cs l : Forall2 (fun c x => shape2 NRser c x) cs l -> shape2_elems NRser (elems_of cs) l.
  Proof. induction 1 as [|c x cs l Hc _ IH]; [exact I|]. cbn [elems_of shape2_elems]. auto. Qed.

  Lemma seq_members (g : bytes * value -> option (list strpiece * cst)) l :
    (forall kv, g kv = match cst_of (sval_of_value (snd kv)) with Some y => Some (pieces_of (fst kv), y) | None => None end) ->
    Forall (fun kv : bytes * value => forall c, wf_value cf (snd kv) = true -> cst_of (sval_of_value (snd kv)) = Some c -> shape2 NRser c (snd kv)) l ->
    forallb (fun kv : bytes * value => utf8_valid (fst kv) && wf_value cf (snd kv)) l = true ->
    forall ms, sequence (map g l) = Some ms -> shape2_members NRser (members_of ms) l.
  Proof.
    intros Hg. induction l as [|kv l IHl]; intros H W ms Es; cbn [map sequence] in Es.
    - injection Es as <-. exact I.
    - inversion H as [|? ? Hx Hl]; subst. cbn [forallb] in W. apply andb_true_iff in W as [Wx Wl]. apply andb_true_iff in Wx as [_ Wx].
      rewrite Hg in Es. destruct (cst_of (sval_of_value (snd kv))) as [cx|] eqn:Ex; [|discriminate Es].
      destruct (sequence (map g l)) as [ms'|] eqn:Es'; [|discriminate Es].
      cbn [option_map] in Es. injection Es as <-. cbn [members_of shape2_members fst snd].
      split; [reflexivity|]. split; [apply (Hx cx Wx eq_refl)|]. apply (IHl Hl Wl ms' eq_refl).
  Qed.

  Lemma value_shape2 : forall v c, wf_value cf v = true -> cst_of (sval_of_value v) = Some c -> shape2 NRser c v.
  Proof.
    induction v using value_ind'; intros c W Hc; cbn [sval_of_value SerRender.cst_of] in Hc.
    - injection Hc as <-. reflexivity.
    - injection Hc as <-. destruct b; reflexivity.
    - assert (Hn : exists n', c = CNum n').
      { destruct n as [u|i|f|s]; cbn [sval_of_num SerRender.cst_of] in Hc; cbn [wf_value wf_num] in W.
        + injection Hc as <-. unfold cint. eauto.
        + injection Hc as <-. unfold cint. eauto.
        + apply andb_true_iff in W as [_ Wf]. destruct (finite_bits_shape f Wf) as [_ B2]. rewrite B2 in Hc. injection Hc as <-.
          unfold cnum_text. eauto.
        + apply andb_true_iff in W as [Wa _]. rewrite Wa in Hc. injection Hc as <-. unfold cnum_text. eauto. }
      destruct Hn as [n' ->]. cbn [shape2]. exact Hc.
    - injection Hc as <-. reflexivity.
    - rewrite map_map in Hc. destruct (sequence (map (fun x => cst_of (sval_of_value x)) l)) as [cs|] eqn:Es; [|discriminate Hc].
      cbn [option_map] in Hc. injection Hc as <-. cbn [shape2]. apply shape2_elems_of.
      apply (sequence_Forall2 (fun x => cst_of (sval_of_value x)) (fun c x => shape2 NRser c x) l cs); [|exact Es].
      cbn [wf_value] in W. rewrite forallb_forall in W. rewrite Forall_forall in *. intros x Hx b Hb. apply (H x Hx b (W x Hx) Hb).
    - rewrite map_map in Hc. cbn [fst snd] in Hc.
      destruct (sequence (map (fun kv : bytes * value => pair_opt (key_pieces fmt32 fmt64 (SStr (fst kv))) (cst_of (sval_of_value (snd kv)))) l))
        as [ms|] eqn:Es; [|discriminate Hc].
      cbn [option_map] in Hc. injection Hc as <-. cbn [shape2].
      cbn [wf_value] in W. apply andb_true_iff in W as [W _].
      exact (seq_members _ l (fun kv => eq_refl) H W ms Es).
  Qed.

  (* ---- from_value against from_str on the printed text, for a type program whose agreement lemma is available -------------------- *)
  Theorem agree_text_gen t v : arbitrary_precision cf = false -> ryu_json fmt32 fmt64 -> ryu_reads_back_value cf fmt64 ->
    agree_at2 NRser cf fx t -> wf_value cf v = true -> claimb (value_de_fuel t) t v = true ->
    exists bufs c, serialize cf fmt32 fmt64 Compact (sval_of_value v) = Ok bufs /\ concat bufs = render c /\
      ((limit_disabled cf = false -> (cdepth c <= 127)%nat) ->
       agree (from_value_owned cf fx t v) (from_input_typed (mkEnv RSlice TEof cf) t (concat bufs))).
  Proof.
    intros Hap [H1 H2] H4 Hat W Hcl.
    assert (HL : literal_kept cf) by (intros Ha; rewrite Hap in Ha; discriminate Ha).
    destruct (value_image cf fmt32 fmt64 H4 HL v W) as [Ws Hi]. destruct (value_cst cf fmt32 fmt64 v) as [c Hc].
    destruct (serialize_ok cf fmt32 fmt64 Compact _ c Ws Hc) as [bufs [Es C]]. rewrite print_compact in C.
    destruct (C03_wf_nows cf fmt32 fmt64 H1 H2 _ c Ws Hc) as [G1 _].
    assert (Dn : denote cf c = Some v) by (rewrite (C03_denotes_image cf fmt32 fmt64 H1 H2 _ c Ws Hc); exact Hi).
    assert (Sh := value_shape2 v c W Hc).
    exists bufs, c. split; [exact Es|]. split; [exact C|]. intros Hdepth. rewrite C.
    unfold from_input_typed, from_value_owned.
    assert (Hdb : dbudget cf (cdepth c) (depth (init_st (render c)))).
    { intros Hl. specialize (Hdepth Hl). cbn [init_st depth]. rewrite DEPTH0_eq. lia. }
    assert (Hfuel : (ty_depth t + vfuel c <= typed_fuel t (render c))%nat).
    { pose proof (vfuel_bound c). unfold typed_fuel. lia. }
    assert (Hfv : (1 + ty_depth t <= value_de_fuel t)%nat) by (unfold value_de_fuel; lia).
    assert (Hr0 : rest (init_st (render c)) = [] ++ render c ++ []) by (cbn [init_st rest app]; rewrite app_nil_r; reflexivity).
    pose proof (Hat c v (typed_fuel t (render c)) (value_de_fuel t) (init_st (render c)) [] [] G1 Dn Sh Hcl W eq_refl I Hdb Hr0 Hfuel Hfv) as H.
    unfold agree. destruct (de_value_owned (value_de_fuel t) cf fx t v) as [d| | |]; cbn [okrel2] in H; try contradiction.
    - destruct H as (d' & s' & Hde & Hu & Hr & _). rewrite Hde. cbn [DeTyped.tbind].
      destruct (de_end_nil cf s' Hr) as [s1 He]. rewrite He. cbn [DeTyped.lift DeTyped.tbind]. exists d'. auto.
    - intros b. destruct (de_typed (typed_fuel t (render c)) (mkEnv RSlice TEof cf) t (init_st (render c))) as [[d' s']| | | |] eqn:Hde;
        cbn [DeTyped.tbind]; try discriminate.
      specialize (H _ _ eq_refl).
      destruct (de_end (mkEnv RSlice TEof cf) s') as [s1| | |] eqn:He; cbn [DeTyped.lift DeTyped.tbind]; try discriminate.
      exfalso. exact (de_end_stuck cf s' H _ He).
  Qed.
End Text.

(* ---- C16 for maps ------------------------------------------------------------------------------------------------------------------------------ *)
(* from_value::<T>(v) against from_str::<T>(to_string(&v)) for every T of [agree_ty_map]: the types of C16_agree_partial and
   maps (BTreeMap / HashMap / any map visitor) with String, char, bool, integer (8..128 bit), f64, Option / newtype-wrapped and
   unit-variant-enum keys. *)
Theorem C16_agree_map : forall cf fx fmt32 fmt64 t v,
  arbitrary_precision cf = false -> ryu_json fmt32 fmt64 -> ryu_reads_back_value cf fmt64 ->
  agree_ty_map t = true -> wf_value cf v = true ->
  exists bufs c, serialize cf fmt32 fmt64 Compact (sval_of_value v) = Ok bufs /\ concat bufs = render c /\
    ((limit_disabled cf = false -> (cdepth c <= 127)%nat) ->
     agree (from_value_owned cf fx t v) (from_input_typed (mkEnv RSlice TEof cf) t (concat bufs))).
Proof.
  intros cf fx fmt32 fmt64 t v Hap HR H4 Ht W.
  apply (agree_text_gen cf fx fmt32 fmt64 t v Hap HR H4); [|exact W|].
  - exact (agree_all_map (NRser cf fmt32 fmt64) cf fx Hap (ty_depth t) t (le_n _) Ht).
  - apply claimb_noenum. exact (agree_ty_map_noenum (ty_depth t) t (le_n _) Ht).
Qed.

Print Assumptions C16_agree_map.
