(* Proofs/ValueDeAgreeMap.v — C16, second clause, extended to maps: from_value agrees with the text deserializer on the text the
   serializer prints for the Value, for the type programs of [agree_ty_map] = [agree_ty] (Proofs/ValueDeAgree.v) + `TMap k t` with every
   key type except f32 (String, char, bool, the ten integer widths, f64, Option / newtype wrappers of keys, unit-variant enums).

   Differences to Proofs/ValueDeAgree.v, which this file re-uses for all leaf types:
   * [shape2] enters objects: the members of the tree correspond one by one, in order, to the entries of the Value's Map, and every
     key is spelled as the serializer spells it ([pieces_of key]).  Both are needed: a typed map keeps the entries in arrival order
     with duplicates, and a numeric / bool key is only accepted unescaped (see Proofs/ValueDeAgreeKey.v).  A Value's Map has distinct
     keys ([wf_value]), so the tree of the printed text has this shape ([value_shape2]).
   * [claimb] walks a (type program, Value) pair the way the seed does and excludes the two shapes on which from_value and from_str
     genuinely disagree (both concern enums, stage 3): a struct variant written as an array, and a zero-length tuple variant on `[]`.
     It is identically true for type programs without enums ([claimb_noenum]); it is threaded through the typed lemmas here so that the
     wrapper lemmas (Option, newtype, Vec, tuples, maps) need not be proved again for the later stages.
   The statements are completeness-with-failure statements as in ValueDeAgree.v: [agree_at2]. *)
From SJ Require Import Base.Bytes Base.Utf8 Base.FloatB Gen.Tables
  Model.Read Model.Str Model.Num Model.NumF32 Model.Value Model.De Model.Ignore Model.Ty Model.NumberM Model.DeTyped Model.ValueDe
  Spec.Syntax Spec.Denote Proofs.GrammarIgnore Proofs.GrammarValueComplete Proofs.SerValue Proofs.GrammarValueBase Proofs.GrammarStr Proofs.GrammarNum
  Proofs.ValueDeRef Proofs.ValueDeAgree.
From SJ Require Import Proofs.SerRender Proofs.SerWf Proofs.SerDenote Proofs.ValueDeAgreeKey.
Require Import Lia ZifyBool ZifyNat ZifyN.
Open Scope N_scope.

(* ---- the tree mirrors the Value, objects included, keys spelled canonically ------------------------------------------------------------ *)
Fixpoint shape2 (c : cst) (v : value) {struct c} : Prop :=
  match c, v with
  | CArr _ es, VArr l => shape2_elems es l
  | CObj _ ms, VObj m => shape2_members ms m
  | CArr _ _, _ => False
  | CObj _ _, _ => False
  | _, _ => shape c v = true
  end
with shape2_elems (es : elems) (l : list value) {struct es} : Prop :=
  match es, l with
  | ENil, [] => True
  | ECons _ c _ r, x :: l' => shape2 c x /\ shape2_elems r l'
  | _, _ => False
  end
with shape2_members (ms : members) (m : list (bytes * value)) {struct ms} : Prop :=
  match ms, m with
  | MNil, [] => True
  | MCons _ k _ _ c _ r, kv :: m' => k = pieces_of (fst kv) /\ shape2 c (snd kv) /\ shape2_members r m'
  | _, _ => False
  end.

Lemma shape2_shape_all :
  (forall c v, shape2 c v -> shape c v = true) /\ (forall es l, shape2_elems es l -> shape_elems es l = true) /\ (forall ms : members, True).
Proof.
  apply cst_elems_members_ind; try (intros; exact I).
  - intros v H. destruct v; exact H.
  - intros v H. destruct v; exact H.
  - intros v H. destruct v; exact H.
  - intros n v H. destruct v; exact H.
  - intros s v H. destruct v; exact H.
  - intros w es IH v H. destruct v; cbn [shape2] in H; try contradiction. cbn [shape]. apply IH, H.
  - intros w ms _ v H. destruct v; cbn [shape2] in H; try contradiction. reflexivity.
  - intros l H. destruct l; [reflexivity|contradiction].
  - intros w1 c IHc w2 rest IHr l H. destruct l as [|x l]; [contradiction|]. cbn [shape2_elems] in H. destruct H as [H1 H2].
    cbn [shape_elems]. rewrite (IHc x H1), (IHr l H2). reflexivity.
Qed.

Lemma shape2_shape c v : shape2 c v -> shape c v = true.
Proof. apply shape2_shape_all. Qed.

(* ---- the (type program, Value) pairs of the claim ---------------------------------------------------------------------------------------- *)
Fixpoint claim_list (f : ty -> value -> bool) (ts : list ty) (l : list value) : bool :=
  match ts, l with
  | t :: ts', x :: l' => f t x && claim_list f ts' l'
  | _, _ => true
  end.

Definition is_nil {A} (l : list A) : bool := match l with [] => true | _ => false end.

Definition claim_fields (f : ty -> value -> bool) (fields : list (bytes * ty)) (m : list (bytes * value)) : bool :=
  forallb (fun kv => match index_of (fst kv) fields with Some (_, t') => f t' (snd kv) | None => true end) m.

(* follows the seed over the Value with the fuel discipline of [de_value_owned] *)
Fixpoint claimb (fuel : nat) (t : ty) (v : value) {struct fuel} : bool :=
  match fuel with
  | O => true
  | S f =>
    match t with
    | TOption t1 => match v with VNull => true | _ => claimb f t1 v end
    | TNewtype t1 => claimb f t1 v
    | TSeq t1 => match v with VArr l => forallb (claimb f t1) l | _ => true end
    | TTuple ts | TTupleStruct ts => match v with VArr l => claim_list (claimb f) ts l | _ => true end
    | TMap _ t1 => match v with VObj m => forallb (fun kv => claimb f t1 (snd kv)) m | _ => true end
    | TStruct fields =>
      match v with
      | VArr l => claim_list (claimb f) (map snd fields) l
      | VObj m => claim_fields (claimb f) fields m
      | _ => true
      end
    | TEnum vs =>
      match v with
      | VObj [(name, x)] =>
        match index_of name vs with
        | Some (_, VNewtype t1) => claimb f t1 x
        | Some (_, VTuple ts) =>
          match x with
          | VArr l => negb (is_nil ts && is_nil l)         (* a zero-length tuple variant on `[]`: excluded *)
                      && claim_list (claimb f) ts l
          | _ => true
          end
        | Some (_, VStruct fields) =>
          match x with
          | VArr _ => false                                 (* a struct variant written as an array: excluded *)
          | VObj m => claim_fields (claimb f) fields m
          | _ => true
          end
        | _ => true
        end
      | _ => true
      end
    | _ => true
    end
  end.

Section Agree2.
  Variable cf : cfg.
  Variable fx : fenv.
  Hypothesis Hap : arbitrary_precision cf = false.
  Local Notation E := (mkEnv RSlice TEof cf).

  Definition agree_at2 (t : ty) : Prop := forall c v fuel fv s w rst,
    wfb c = true -> denote cf c = Some v -> shape2 c v -> claimb fv t v = true -> wf_value cf v = true -> ws_ok w = true -> follow_ok rst ->
    dbudget cf (cdepth c) (depth s) -> rest s = w ++ render c ++ rst ->
    (ty_depth t + vfuel c <= fuel)%nat -> (ty_depth t <= fv)%nat ->
    okrel unborrow (de_value_owned fv cf fx t v) (de_typed fuel E t s) s rst.

  (* every type program of Proofs/ValueDeAgree.v whose lemma does not depend on sub-programs *)
  Lemma agree_at_2 t : agree_at cf fx t -> agree_at2 t.
  Proof.
    intros H c v fuel fv s w rst Hwf Hden Hsh _ Hwv Hw Hfol Hdb Hr Hfuel Hfv.
    exact (H c v fuel fv s w rst Hwf Hden (shape2_shape c v Hsh) Hwv Hw Hfol Hdb Hr Hfuel Hfv).
  Qed.

  (* ---- first bytes ---------------------------------------------------------------------------------------------------------------- *)
  Lemma first_not c b r : wfb c = true -> render c = b :: r -> ws_byte b = false /\
    ((forall w es, c <> CArr w es) -> b <> 91) /\ ((forall w ms, c <> CObj w ms) -> b <> 123) /\ ((forall ps, c <> CStr ps) -> b <> 34)
    /\ (c <> CNull -> b <> 110).
  Proof.
    intros Hwf Hren. destruct (render_first c Hwf) as (b' & r' & Hren' & Hws & Hkind). rewrite Hren in Hren'. injection Hren' as <- <-.
    split; [exact Hws|].
    destruct c as [| | |n|ps|w0 es|w0 ms].
    - destruct Hkind as [-> _]. repeat split; intros; try discriminate; congruence.
    - destruct Hkind as [-> _]. repeat split; intros; try discriminate; congruence.
    - destruct Hkind as [-> _]. repeat split; intros; try discriminate; congruence.
    - repeat split; intros _; destruct Hkind as [->|Hd]; try discriminate; unfold is_digit in Hd; lia.
    - destruct Hkind as [-> _]. repeat split; intros Hc; try discriminate. exfalso. exact (Hc ps eq_refl).
    - destruct Hkind as [-> _]. repeat split; intros Hc; try discriminate. exfalso. exact (Hc w0 es eq_refl).
    - subst b. repeat split; intros Hc; try discriminate. exfalso. exact (Hc w0 ms eq_refl).
  Qed.

  (* ---- wrappers (as in ValueDeAgree.v, over [agree_at2]) ------------------------------------------------------------------------ *)
  Lemma agree_option2 t1 : agree_at2 t1 -> agree_at2 (TOption t1).
  Proof.
    intros IH c v fuel fv s w rst Hwf Hden Hsh Hcl Hwv Hw Hfol Hdb Hr Hfuel Hfv.
    cbn [ty_depth] in Hfuel, Hfv. destruct fuel as [|f]; [lia|]. destruct fv as [|fv]; [lia|].
    destruct (render_first c Hwf) as (b & r & Hren & Hbws & Hkind).
    pose proof Hr as Hr0. rewrite Hren in Hr. revert Hr. lnorm. intros Hr.
    destruct (pws_head cf s w b (r ++ rst) Hw Hbws Hr) as (s1 & Hpw & Hr1 & Hd1).
    cbn [de_typed]. rewrite Hpw. cbn [lift tbind].
    pose proof (shape2_shape c v Hsh) as Hsh1.
    destruct (b =? 110) eqn:Hb.
    - apply N.eqb_eq in Hb. subst b.
      assert (Hc : c = CNull).
      { destruct c; try reflexivity; try (destruct Hkind as [Hk _]; discriminate Hk); try discriminate Hkind.
        destruct Hkind as [Hk|Hk]; [discriminate Hk|discriminate Hk]. }
      subst c. destruct v; try discriminate Hsh1. destruct Hkind as [_ ->].
      destruct (parse_ident_fwd cf lit_ull (discard s1) rst) as (s2 & Hid & Hr2 & Hd2).
      { rewrite discard_rest, Hr1. reflexivity. }
      rewrite Hid. cbn [lift tbind de_value_owned okrel]. exists DNone, s2. rewrite Hd2, discard_depth. auto.
    - assert (Hnn : v <> VNull).
      { intros ->. destruct c; try discriminate Hsh1. destruct Hkind as [Hk _]. subst b. discriminate Hb. }
      assert (Hv : de_value_owned (S fv) cf fx (TOption t1) v = vmap DSome (de_value_owned fv cf fx t1 v)).
      { destruct v; try reflexivity. congruence. }
      assert (Hcl1 : claimb fv t1 v = true).
      { destruct v; try exact Hcl. congruence. }
      rewrite Hv. apply okrel_map; [intros a b' Hab; cbn [unborrow]; rewrite Hab; reflexivity|].
      apply (okrel_depth unborrow _ _ s1 s rst Hd1).
      apply (IH c v f fv s1 [] rst); try assumption; try reflexivity.
      + rewrite Hd1. exact Hdb.
      + rewrite Hr1, Hren. lnorm. reflexivity.
      + lia.
      + lia.
  Qed.

  Lemma agree_newtype2 t1 : agree_at2 t1 -> agree_at2 (TNewtype t1).
  Proof.
    intros IH c v fuel fv s w rst Hwf Hden Hsh Hcl Hwv Hw Hfol Hdb Hr Hfuel Hfv.
    cbn [ty_depth] in Hfuel, Hfv. destruct fuel as [|f]; [lia|]. destruct fv as [|fv]; [lia|].
    cbn [de_typed de_value_owned]. apply okrel_map; [intros a b' Hab; cbn [unborrow]; rewrite Hab; reflexivity|].
    apply (IH c v f fv s w rst); try assumption; try lia.
  Qed.

  (* ---- Vec<T> -------------------------------------------------------------------------------------------------------------------- *)
  Definition elems_rel2 (t1 : ty) : Prop := forall es l fuel fv first s wp rst,
    wfb_elems es = true -> denote_elems cf es = Some l -> shape2_elems es l -> forallb (claimb fv t1) l = true ->
    forallb (wf_value cf) l = true -> ws_ok wp = true ->
    dbudget cf (cdepth_elems es) (depth s) -> rest s = seq_text first wp es ++ 93 :: rst ->
    (ty_depth t1 + sfuel es <= fuel)%nat -> (ty_depth t1 <= fv)%nat ->
    match seq_all (de_value_owned fv cf fx t1) l with
    | VOk (ds, rem) => rem = [] /\ exists ds' s' wl, de_elems fuel E t1 first s = TOk (ds', s') /\ map unborrow ds' = map unborrow ds
                         /\ ws_ok wl = true /\ rest s' = wl ++ 93 :: rst /\ depth s' = depth s
    | VErr _ _ _ => forall a, de_elems fuel E t1 first s <> TOk a
    | _ => False
    end.

  Lemma elems_agree2 t1 : agree_at2 t1 -> elems_rel2 t1.
  Proof.
    intros IH es. induction es as [|w1 c w2 rest0 IHr]; intros l fuel fv first s wp rst Hwf Hden Hsh Hcl Hwvl Hwp Hdb Hr Hfuel Hfv.
    - cbn [denote_elems] in Hden. injection Hden as <-. cbn [seq_all]. split; [reflexivity|].
      cbn [sfuel] in Hfuel. destruct fuel as [|f]; [lia|]. cbn [seq_text] in Hr.
      rewrite de_elems_S, (hne_fwd_none cf first s rst). 2:{ rewrite Hr. now apply skipws_to. }
      cbn [lift tbind]. exists [], s, wp. auto.
    - cbn [sfuel] in Hfuel. destruct fuel as [|f]; [lia|].
      cbn [wfb_elems] in Hwf. apply andb_prop in Hwf as [Hwf Hwfr]. apply andb_prop in Hwf as [Hwf Hw2].
      apply andb_prop in Hwf as [Hw1 Hwfc].
      cbn [denote_elems] in Hden. destruct (denote cf c) as [v|] eqn:Hdc; [|discriminate].
      destruct (denote_elems cf rest0) as [vs0|] eqn:Hdr; [|discriminate]. injection Hden as <-.
      cbn [shape2_elems] in Hsh. destruct Hsh as [Hshc Hshr].
      cbn [forallb] in Hwvl, Hcl. apply andb_prop in Hwvl as [Hwvc Hwvr]. apply andb_prop in Hcl as [Hclc Hclr].
      cbn [cdepth_elems] in Hdb.
      destruct (hne_step cf Hap first s wp w1 c w2 rest0 rst Hwp Hw1 Hwfc Hr) as (s1 & Hh & Hs1 & Hd1).
      set (rst1 := w2 ++ tail_elems rest0 ++ 93 :: rst) in *.
      rewrite de_elems_S, Hh. cbn [lift tbind]. cbn [seq_all].
      assert (Hel := IH c v f fv s1 [] rst1 Hwfc Hdc Hshc Hclc Hwvc eq_refl).
      assert (Hfol1 : follow_ok rst1).
      { unfold rst1. apply follow_ws; [exact Hw2|]. destruct rest0; cbn [tail_elems app follow_ok]; auto. }
      specialize (Hel Hfol1). rewrite Hd1 in Hel. specialize (Hel (dbudget_le _ _ _ _ (Nat.le_max_l _ _) Hdb) Hs1).
      assert (Hf1 : (ty_depth t1 + vfuel c <= f)%nat) by lia. specialize (Hel Hf1 Hfv).
      destruct (de_value_owned fv cf fx t1 v) as [d| | |]; cbn [okrel vbind] in Hel |- *; try contradiction.
      + destruct Hel as (d' & s2 & Hv & Hud & Hr2 & Hd2). rewrite Hv. cbn [tbind].
        assert (Hrest := IHr vs0 f fv false s2 w2 rst Hwfr eq_refl Hshr Hclr Hwvr Hw2).
        rewrite Hd2, Hd1 in Hrest. specialize (Hrest (dbudget_le _ _ _ _ (Nat.le_max_r _ _) Hdb)).
        assert (Hr2' : rest s2 = seq_text false w2 rest0 ++ 93 :: rst) by (rewrite Hr2, seq_text_false; unfold rst1; lnorm; reflexivity).
        assert (Hf2 : (ty_depth t1 + sfuel rest0 <= f)%nat) by lia. specialize (Hrest Hr2' Hf2 Hfv).
        destruct (seq_all (de_value_owned fv cf fx t1) vs0) as [[ds rem]| | |]; cbn [vbind]; try contradiction.
        * destruct Hrest as (-> & ds' & s3 & wl & He & Hu & Hwl & Hr3 & Hd3). split; [reflexivity|].
          rewrite He. cbn [tbind]. exists (d' :: ds'), s3, wl. split; [reflexivity|]. cbn [map]. rewrite Hud, Hu.
          split; [reflexivity|]. split; [exact Hwl|]. split; [exact Hr3|]. congruence.
        * intros a. destruct (de_elems f E t1 false s2) as [[ds' s3]| | | |] eqn:He; cbn [tbind]; try discriminate.
          exfalso. exact (Hrest _ eq_refl).
      + intros a. destruct (de_typed f E t1 s1) as [[d' s2]| | | |] eqn:Hv; cbn [tbind]; try discriminate.
        exfalso. exact (Hel _ eq_refl).
  Qed.

  (* the array frame around a body whose loop result is known *)
  Lemma arr_close {A} (body : st -> tres (A * st)) w0 es s s1 s2 x s3 wl rst :
    dbudget cf (cdepth (CArr w0 es)) (depth s) -> enter E s1 = Ok s2 ->
    depth s1 = depth s -> depth (discard s2) = (if limit_disabled cf then depth s else depth s - 1) ->
    body (discard s2) = TOk (x, s3) -> ws_ok wl = true -> rest s3 = wl ++ 93 :: rst -> depth s3 = depth (discard s2) ->
    exists s5, frame E end_seq end_seq_st body s1 = TOk (x, s5) /\ rest s5 = rst /\ depth s5 = depth s.
  Proof.
    intros Hdb Hen Hd1 Hd2 He Hwl Hr3 Hd3. unfold frame. rewrite Hen. cbn [lift tbind]. rewrite He.
    destruct (leave_fwd cf s3) as (s4 & Hlv & Hr4 & Hd4).
    { intros Hl. specialize (Hdb Hl). cbn [cdepth] in Hdb. rewrite Hd3, Hd2, Hl. lia. }
    rewrite Hlv. cbn [lift tbind].
    destruct (end_seq_fwd cf s4 rst) as (s5 & Hes & Hr5 & Hd5).
    { rewrite Hr4, Hr3. now apply skipws_to. }
    rewrite Hes. cbn [lift tbind]. exists s5. split; [reflexivity|]. split; [exact Hr5|].
    rewrite Hd5, Hd4, Hd3, Hd2. unfold dbudget in Hdb. cbn [cdepth] in Hdb. destruct (limit_disabled cf); [reflexivity|].
    specialize (Hdb eq_refl). lia.
  Qed.

  Lemma agree_seq2 t1 : agree_at2 t1 -> agree_at2 (TSeq t1).
  Proof.
    intros IH c v fuel fv s w rst Hwf Hden Hsh Hcl Hwv Hw Hfol Hdb Hr Hfuel Hfv.
    destruct fuel as [|f]; [cbn [ty_depth] in Hfuel; lia|]. destruct fv as [|fv]; [cbn [ty_depth] in Hfv; lia|].
    destruct (render_first c Hwf) as (b & r & Hren & Hbws & _).
    pose proof Hr as Hr0. rewrite Hren in Hr. revert Hr. lnorm. intros Hr.
    destruct (first_not c b r Hwf Hren) as (_ & Hn91 & _).
    destruct c as [| | |n|ps|w0 es|w0 ms]; destruct v as [|[|]| | |l|]; cbn [shape2 shape] in Hsh; try discriminate Hsh; try contradiction;
      cbn [de_value_owned okrel verr].
    all: try (apply (reject_not_ok cf (TSeq t1) f s w b (r ++ rst) Hw Hbws Hr); apply Hn91; intros; discriminate).
    cbn [wfb denote] in Hwf, Hden. apply andb_prop in Hwf as [Hw0 Hwfe].
    destruct (denote_elems cf es) as [l'|] eqn:Hde; [|discriminate Hden]. injection Hden as <-.
    destruct (arr_frame cf Hap (fun s' => de_elems f E t1 true s') w0 es s w rst Hw Hr0 Hdb)
      as (s1 & s2 & Hds & Hen & Hrb & Hd1 & Hd2 & Hdb2).
    cbn [de_typed]. rewrite Hds.
    cbn [ty_depth vfuel] in Hfuel, Hfv. cbn [claimb] in Hcl. cbn [wf_value] in Hwv.
    assert (Hloop := elems_agree2 t1 IH es l' f fv true (discard s2) w0 rst Hwfe Hde Hsh Hcl Hwv Hw0 Hdb2 Hrb).
    assert (Hf1 : (ty_depth t1 + sfuel es <= f)%nat) by lia. assert (Hf2 : (ty_depth t1 <= fv)%nat) by lia.
    specialize (Hloop Hf1 Hf2). unfold visit_array_owned.
    destruct (seq_all (de_value_owned fv cf fx t1) l') as [[ds rem]| | |]; cbn [vbind vmap okrel]; try contradiction.
    - destruct Hloop as (-> & ds' & s3 & wl & He & Hu & Hwl & Hr3 & Hd3). cbn [vbind okrel].
      destruct (arr_close _ w0 es s s1 s2 ds' s3 wl rst Hdb Hen Hd1 Hd2 He Hwl Hr3 Hd3) as (s5 & Hfr & Hr5 & Hd5).
      rewrite Hfr. cbn [fix_position tmap tbind]. exists (DSeq ds'), s5. split; [reflexivity|]. cbn [unborrow]. rewrite Hu. auto.
    - apply tmap_not_ok. apply fix_position_not_ok. apply (frame_not_ok cf _ s1 s2 Hen). exact Hloop.
  Qed.

  (* ---- tuples / tuple structs / positional structs ------------------------------------------------------------------------------ *)
  Lemma shape2_nil es l : shape2_elems es l -> (l = [] <-> es = ENil).
  Proof. destruct es, l; cbn [shape2_elems]; intros H; try contradiction; split; intros H'; try reflexivity; discriminate H'. Qed.

  Definition tuple_rel2 (ts : list ty) : Prop := forall es l fuel fv first s wp rst D,
    (forall t, In t ts -> agree_at2 t /\ (ty_depth t <= D)%nat) ->
    wfb_elems es = true -> denote_elems cf es = Some l -> shape2_elems es l -> claim_list (claimb fv) ts l = true ->
    forallb (wf_value cf) l = true -> ws_ok wp = true ->
    dbudget cf (cdepth_elems es) (depth s) -> rest s = seq_text first wp es ++ 93 :: rst ->
    (D + sfuel es <= fuel)%nat -> (D <= fv)%nat ->
    match seq_tuple (de_value_owned fv cf fx) ts l with
    | VOk (ds, rem) => exists ds' s' first' wl es', de_tuple fuel E ts first s = TOk (ds', s') /\ map unborrow ds' = map unborrow ds
         /\ ws_ok wl = true /\ rest s' = seq_text first' wl es' ++ 93 :: rst /\ depth s' = depth s
         /\ wfb_elems es' = true /\ (rem = [] <-> es' = ENil)
    | VErr _ _ _ => forall a, de_tuple fuel E ts first s <> TOk a
    | _ => False
    end.

  Lemma tuple_agree2 ts : tuple_rel2 ts.
  Proof.
    induction ts as [|t ts' IHts]; intros es l fuel fv first s wp rst D HIH Hwf Hden Hsh Hcl Hwvl Hwp Hdb Hr Hfuel Hfv.
    - cbn [seq_tuple]. pose proof (sfuel_pos es). destruct fuel as [|f]; [lia|]. rewrite de_tuple_S.
      exists [], s, first, wp, es. split; [reflexivity|]. split; [reflexivity|]. split; [exact Hwp|]. split; [exact Hr|].
      split; [reflexivity|]. split; [exact Hwf|]. apply shape2_nil. exact Hsh.
    - pose proof (sfuel_pos es). destruct fuel as [|f]; [lia|]. rewrite de_tuple_S.
      destruct es as [|w1 c w2 rest0].
      + destruct l; [|contradiction]. cbn [seq_tuple verr]. intros a. cbn [seq_text] in Hr.
        rewrite (hne_fwd_none cf first s rst). 2:{ rewrite Hr. now apply skipws_to. }
        cbn [lift tbind]. discriminate.
      + cbn [sfuel] in Hfuel.
        cbn [wfb_elems] in Hwf. apply andb_prop in Hwf as [Hwf Hwfr]. apply andb_prop in Hwf as [Hwf Hw2].
        apply andb_prop in Hwf as [Hw1 Hwfc].
        cbn [denote_elems] in Hden. destruct (denote cf c) as [v|] eqn:Hdc; [|discriminate].
        destruct (denote_elems cf rest0) as [vs0|] eqn:Hdr; [|discriminate]. injection Hden as <-.
        cbn [shape2_elems] in Hsh. destruct Hsh as [Hshc Hshr].
        cbn [forallb] in Hwvl. apply andb_prop in Hwvl as [Hwvc Hwvr].
        cbn [claim_list] in Hcl. apply andb_prop in Hcl as [Hclc Hclr].
        cbn [cdepth_elems] in Hdb.
        destruct (hne_step cf Hap first s wp w1 c w2 rest0 rst Hwp Hw1 Hwfc Hr) as (s1 & Hh & Hs1 & Hd1).
        set (rst1 := w2 ++ tail_elems rest0 ++ 93 :: rst) in *.
        rewrite Hh. cbn [lift tbind]. cbn [seq_tuple].
        destruct (HIH t (or_introl eq_refl)) as [IHt HtD].
        assert (Hfol1 : follow_ok rst1).
        { unfold rst1. apply follow_ws; [exact Hw2|]. destruct rest0; cbn [tail_elems app follow_ok]; auto. }
        assert (Hel := IHt c v f fv s1 [] rst1 Hwfc Hdc Hshc Hclc Hwvc eq_refl Hfol1).
        rewrite Hd1 in Hel. specialize (Hel (dbudget_le _ _ _ _ (Nat.le_max_l _ _) Hdb) Hs1).
        assert (Hf1 : (ty_depth t + vfuel c <= f)%nat) by lia. assert (Hf1' : (ty_depth t <= fv)%nat) by lia.
        specialize (Hel Hf1 Hf1').
        destruct (de_value_owned fv cf fx t v) as [d| | |]; cbn [okrel vbind] in Hel |- *; try contradiction.
        * destruct Hel as (d' & s2 & Hv & Hud & Hr2 & Hd2). rewrite Hv. cbn [tbind].
          assert (Hrest := IHts rest0 vs0 f fv false s2 w2 rst D (fun t' Hin => HIH t' (or_intror Hin)) Hwfr Hdr Hshr Hclr Hwvr Hw2).
          rewrite Hd2, Hd1 in Hrest. specialize (Hrest (dbudget_le _ _ _ _ (Nat.le_max_r _ _) Hdb)).
          assert (Hr2' : rest s2 = seq_text false w2 rest0 ++ 93 :: rst) by (rewrite Hr2, seq_text_false; unfold rst1; lnorm; reflexivity).
          assert (Hf2 : (D + sfuel rest0 <= f)%nat) by lia. specialize (Hrest Hr2' Hf2 Hfv).
          destruct (seq_tuple (de_value_owned fv cf fx) ts' vs0) as [[ds rem]| | |]; cbn [vbind]; try contradiction.
          -- destruct Hrest as (ds' & s3 & first' & wl & es' & He & Hu & Hwl & Hr3 & Hd3 & Hwf' & Hrem).
             rewrite He. cbn [tbind]. exists (d' :: ds'), s3, first', wl, es'. split; [reflexivity|]. cbn [map]. rewrite Hud, Hu.
             split; [reflexivity|]. split; [exact Hwl|]. split; [exact Hr3|]. split; [congruence|]. split; [exact Hwf'|exact Hrem].
          -- intros a. destruct (de_tuple f E ts' false s2) as [[ds' s3]| | | |] eqn:He; cbn [tbind]; try discriminate.
             exfalso. exact (Hrest _ eq_refl).
        * intros a. destruct (de_typed f E t s1) as [[d' s2]| | | |] eqn:Hv; cbn [tbind]; try discriminate.
          exfalso. exact (Hel _ eq_refl).
  Qed.

  (* `[` elements `]` read by a fixed-length visitor: visit_array(_owned) against deserialize_seq over de_tuple *)
  Lemma tuple_array ts w0 es l f fv s w rst D :
    (forall t, In t ts -> agree_at2 t /\ (ty_depth t <= D)%nat) ->
    ws_ok w0 = true -> wfb_elems es = true -> denote_elems cf es = Some l -> shape2_elems es l -> claim_list (claimb fv) ts l = true ->
    forallb (wf_value cf) l = true -> ws_ok w = true -> dbudget cf (cdepth (CArr w0 es)) (depth s) ->
    rest s = w ++ render (CArr w0 es) ++ rst -> (D + sfuel es <= f)%nat -> (D <= fv)%nat ->
    okrel unborrow (vmap DSeq (visit_array_owned l (seq_tuple (de_value_owned fv cf fx) ts)))
                   (tmap DSeq (deserialize_seq E (fun s' => de_tuple f E ts true s') s)) s rst.
  Proof.
    intros HIH Hw0 Hwfe Hde Hsh Hcl Hwv Hw Hdb Hr0 Hf1 Hf2.
    destruct (arr_frame cf Hap (fun s' => de_tuple f E ts true s') w0 es s w rst Hw Hr0 Hdb)
      as (s1 & s2 & Hds & Hen & Hrb & Hd1 & Hd2 & Hdb2).
    rewrite Hds.
    assert (Hloop := tuple_agree2 ts es l f fv true (discard s2) w0 rst D HIH Hwfe Hde Hsh Hcl Hwv Hw0 Hdb2 Hrb Hf1 Hf2).
    unfold visit_array_owned.
    destruct (seq_tuple (de_value_owned fv cf fx) ts l) as [[ds rem]| | |]; cbn [vbind vmap okrel]; try contradiction.
    - destruct Hloop as (ds' & s3 & first' & wl & es' & He & Hu & Hwl & Hr3 & Hd3 & Hwf' & Hrem).
      destruct rem as [|x rem]; unfold verr; cbn [vbind vmap okrel].
      + assert (Hes' : es' = ENil) by (apply Hrem; reflexivity). subst es'. cbn [seq_text] in Hr3.
        destruct (arr_close _ w0 es s s1 s2 ds' s3 wl rst Hdb Hen Hd1 Hd2 He Hwl Hr3 Hd3) as (s5 & Hfr & Hr5 & Hd5).
        rewrite Hfr. cbn [fix_position tmap tbind]. exists (DSeq ds'), s5. split; [reflexivity|]. cbn [unborrow]. rewrite Hu. auto.
      + apply tmap_not_ok. apply fix_position_not_ok. apply (frame_blocked cf _ s1 s2 ds' s3 Hen He).
        intros s4 s5 Hr4. apply (end_seq_blocked cf first' wl es' rst s4 Hwl Hwf').
        * intros Hn. apply Hrem in Hn. discriminate Hn.
        * rewrite Hr4. exact Hr3.
    - apply tmap_not_ok. apply fix_position_not_ok. apply (frame_not_ok cf _ s1 s2 Hen). exact Hloop.
  Qed.

  Lemma agree_tuple_gen2 t ts : t = TTuple ts \/ t = TTupleStruct ts -> (forall t', In t' ts -> agree_at2 t') -> agree_at2 t.
  Proof.
    intros Ht HIH.
    assert (Hd : ty_depth t = S (lmax_depth ts)) by (destruct Ht; subst; apply ty_depth_tuple).
    assert (Hv : forall fv v, de_value_owned (S fv) cf fx t v
                 = match v with VArr l => vmap DSeq (visit_array_owned l (seq_tuple (de_value_owned fv cf fx) ts)) | _ => verr MInvalidType end)
      by (intros; destruct Ht; subst; reflexivity).
    assert (Ht' : forall f s, de_typed (S f) E t s = tmap DSeq (deserialize_seq E (fun s' => de_tuple f E ts true s') s))
      by (intros; destruct Ht; subst; reflexivity).
    assert (Hrej : forall b, b <> 91 -> rejects t b) by (intros; destruct Ht; subst; assumption).
    assert (Hcl' : forall fv l, claimb (S fv) t (VArr l) = claim_list (claimb fv) ts l) by (intros; destruct Ht; subst; reflexivity).
    intros c v fuel fv s w rst Hwf Hden Hsh Hcl Hwv Hw Hfol Hdb Hr Hfuel Hfv. rewrite Hd in Hfuel, Hfv.
    destruct fuel as [|f]; [lia|]. destruct fv as [|fv]; [lia|].
    destruct (render_first c Hwf) as (b & r & Hren & Hbws & _).
    pose proof Hr as Hr0. rewrite Hren in Hr. revert Hr. lnorm. intros Hr.
    destruct (first_not c b r Hwf Hren) as (_ & Hn91 & _).
    rewrite Hv.
    destruct c as [| | |n|ps|w0 es|w0 ms]; destruct v as [|[|]| | |l|]; cbn [shape2 shape] in Hsh; try discriminate Hsh; try contradiction;
      cbn [okrel verr].
    all: try (apply (reject_not_ok cf t f s w b (r ++ rst) Hw Hbws Hr); apply Hrej, Hn91; intros; discriminate).
    cbn [wfb denote] in Hwf, Hden. apply andb_prop in Hwf as [Hw0 Hwfe].
    destruct (denote_elems cf es) as [l'|] eqn:Hde; [|discriminate Hden]. injection Hden as <-.
    rewrite Ht'. rewrite Hcl' in Hcl. cbn [vfuel] in Hfuel. cbn [wf_value] in Hwv.
    apply (tuple_array ts w0 es l' f fv s w rst (lmax_depth ts)); try assumption; try lia.
    intros t' Hin. split; [apply HIH, Hin|apply lmax_depth_in, Hin].
  Qed.
End Agree2.
