(* Proofs/ValueDeRef.v — the two Deserializer impls of src/value/de.rs agree (C16, first clause).
   `impl Deserializer for Value` ([de_value_owned]) and `impl Deserializer for &Value` ([de_value_ref]) give, for every type program
   that does not ask for a borrowed &str (not an owned type: only the by-reference impl can lend one), the same outcome: the same
   error (code and position), or the same data up to which strings were handed over borrowed ([unborrow]). *)
From SJ Require Import Base.Bytes Base.Utf8 Base.FloatB Gen.Tables
  Model.Read Model.Str Model.Num Model.NumF32 Model.Value Model.De Model.Ignore Model.Ty Model.NumberM Model.DeTyped Model.ValueDe.
Require Import Lia.
Open Scope N_scope.

(* forget whether a string was borrowed from the input or copied *)
Fixpoint unborrow (d : dval) : dval :=
  match d with
  | DStr s _ => DStr s false
  | DSome x => DSome (unborrow x)
  | DNewtype x => DNewtype (unborrow x)
  | DSeq l => DSeq (map unborrow l)
  | DMap l => DMap (map (fun kv => (unborrow (fst kv), unborrow (snd kv))) l)
  | DStruct l => DStruct (map unborrow l)
  | DVariant n p => DVariant n (unborrow p)
  | x => x
  end.

(* the type program never requests a borrowed &str *)
Fixpoint owned_ty (t : ty) : bool :=
  match t with
  | TBorrowedStr => false
  | TOption t1 | TNewtype t1 | TSeq t1 => owned_ty t1
  | TTuple ts | TTupleStruct ts => forallb owned_ty ts
  | TMap _ v => owned_ty v
  | TStruct fs => forallb (fun p => owned_ty (snd p)) fs
  | TEnum vs => forallb (fun p => match snd p with
                                  | VUnit => true
                                  | VNewtype t1 => owned_ty t1
                                  | VTuple ts => forallb owned_ty ts
                                  | VStruct fs => forallb (fun q => owned_ty (snd q)) fs
                                  end) vs
  | _ => true
  end.

Definition ub (r : vres dval) : vres dval := vmap unborrow r.

Lemma vmap_vmap {A B C} (f : A -> B) (g : B -> C) (r : vres A) : vmap g (vmap f r) = vmap (fun x => g (f x)) r.
Proof. destruct r; reflexivity. Qed.

Lemma vmap_ext {A B} (f g : A -> B) (r : vres A) : (forall a, f a = g a) -> vmap f r = vmap g r.
Proof. intros H. destruct r; cbn; [rewrite H|..]; reflexivity. Qed.

(* ---- the visitors do not care how a string arrives ------------------------------------------------------------------------- *)
Lemma ub_visit_string s b1 b2 : ub (of_visit (visit_string s b1 st0)) = ub (of_visit (visit_string s b2 st0)).
Proof. reflexivity. Qed.

Lemma ub_visit_char s b1 b2 : ub (of_visit (visit_char s b1 st0)) = ub (of_visit (visit_char s b2 st0)).
Proof. unfold visit_char. destruct (one_scalar s); reflexivity. Qed.

Lemma key_owned_ref cf k : forall key, ub (de_value_key cf false k key) = ub (de_value_key cf true k key).
Proof.
  induction k as [|it| | | | |k1 IH|k1 IH|names]; intros key; cbn [de_value_key]; try reflexivity; try apply ub_visit_char.
  - unfold ub in *. rewrite !vmap_vmap. specialize (IH key).
    destruct (de_value_key cf false k1 key), (de_value_key cf true k1 key); cbn in *; try discriminate; try reflexivity;
      inversion IH; subst; reflexivity.
  - unfold ub in *. rewrite !vmap_vmap. specialize (IH key).
    destruct (de_value_key cf false k1 key), (de_value_key cf true k1 key); cbn in *; try discriminate; try reflexivity;
      inversion IH; subst; reflexivity.
Qed.

(* ---- the visitor loops respect a pointwise agreement of the element deserializers ----------------------------------------- *)
Definition ub_list (r : vres (list dval * list value)) : vres (list dval * list value) :=
  vmap (fun p => (map unborrow (fst p), snd p)) r.

Lemma seq_all_ext (e1 e2 : value -> vres dval) l :
  (forall x, ub (e1 x) = ub (e2 x)) -> ub_list (seq_all e1 l) = ub_list (seq_all e2 l).
Proof.
  intros H. induction l as [|x r IH]; [reflexivity|]. cbn [seq_all].
  specialize (H x). unfold ub in H.
  destruct (e1 x) as [d1| | |], (e2 x) as [d2| | |]; cbn in H; try discriminate; try (inversion H; subst; reflexivity).
  injection H as H. cbn [vbind]. unfold ub_list in *.
  destruct (seq_all e1 r) as [[ds1 rem1]| | |], (seq_all e2 r) as [[ds2 rem2]| | |]; cbn in IH; try discriminate;
    try (inversion IH; subst; reflexivity).
  cbn [fst snd] in IH. injection IH as IH1 IH2. cbn. rewrite H, IH1, IH2. reflexivity.
Qed.

Lemma seq_tuple_ext (e1 e2 : ty -> value -> vres dval) ts : forall l,
  (forall t x, In t ts -> ub (e1 t x) = ub (e2 t x)) -> ub_list (seq_tuple e1 ts l) = ub_list (seq_tuple e2 ts l).
Proof.
  induction ts as [|t ts IH]; intros l H; [reflexivity|]. cbn [seq_tuple]. destruct l as [|x r]; [reflexivity|].
  assert (Hx := H t x (or_introl eq_refl)). unfold ub in Hx.
  destruct (e1 t x) as [d1| | |], (e2 t x) as [d2| | |]; cbn in Hx; try discriminate; try (inversion Hx; subst; reflexivity).
  injection Hx as Hx. cbn [vbind]. specialize (IH r (fun t' x' Hin => H t' x' (or_intror Hin))). unfold ub_list in *.
  destruct (seq_tuple e1 ts r) as [[ds1 rem1]| | |], (seq_tuple e2 ts r) as [[ds2 rem2]| | |]; cbn in IH; try discriminate;
    try (inversion IH; subst; reflexivity).
  cbn [fst snd] in IH. injection IH as IH1 IH2. cbn. rewrite Hx, IH1, IH2. reflexivity.
Qed.

Definition ub_entries (r : vres (list (dval * dval) * list (bytes * value))) :=
  vmap (fun p : list (dval * dval) * list (bytes * value) =>
          (map (fun kv => (unborrow (fst kv), unborrow (snd kv))) (fst p), snd p)) r.

Lemma map_all_ext (k1 k2 : bytes -> vres dval) (e1 e2 : value -> vres dval) l :
  (forall k, ub (k1 k) = ub (k2 k)) -> (forall x, ub (e1 x) = ub (e2 x)) ->
  ub_entries (map_all k1 e1 l) = ub_entries (map_all k2 e2 l).
Proof.
  intros HK HE. induction l as [|[k x] r IH]; [reflexivity|]. cbn [map_all].
  specialize (HK k). unfold ub in HK.
  destruct (k1 k) as [a1| | |], (k2 k) as [a2| | |]; cbn in HK; try discriminate; try (inversion HK; subst; reflexivity).
  injection HK as HK. cbn [vbind].
  specialize (HE x). unfold ub in HE.
  destruct (e1 x) as [d1| | |], (e2 x) as [d2| | |]; cbn in HE; try discriminate; try (inversion HE; subst; reflexivity).
  injection HE as HE. cbn [vbind]. unfold ub_entries in *.
  destruct (map_all k1 e1 r) as [[es1 rem1]| | |], (map_all k2 e2 r) as [[es2 rem2]| | |]; cbn in IH; try discriminate;
    try (inversion IH; subst; reflexivity).
  cbn [fst snd] in IH. injection IH as IH1 IH2. cbn. rewrite HK, HE, IH1, IH2. reflexivity.
Qed.

(* slots of the struct visitor *)
Definition ub_slots (sl : list (option dval)) : list (option dval) := map (option_map unborrow) sl.

Lemma slot_filled_ub i sl : slot_filled i (ub_slots sl) = slot_filled i sl.
Proof.
  unfold slot_filled, ub_slots. revert i. induction sl as [|o sl IH]; intros [|i]; cbn; try reflexivity.
  - destruct o; reflexivity.
  - apply IH.
Qed.

Lemma set_slot_ub i d sl : ub_slots (set_slot i d sl) = set_slot i (unborrow d) (ub_slots sl).
Proof.
  unfold ub_slots. revert i. induction sl as [|o sl IH]; intros [|i]; cbn; try reflexivity. rewrite IH. reflexivity.
Qed.

Lemma finish_struct_ub fields : forall sl,
  vmap (map unborrow) (of_visit1 (finish_struct fields sl st0)) = of_visit1 (finish_struct fields (ub_slots sl) st0).
Proof.
  induction fields as [|[n t] fields IH]; intros sl; [reflexivity|]. cbn [finish_struct].
  destruct sl as [|o sl]; [reflexivity|]. cbn [ub_slots map]. fold (ub_slots sl). specialize (IH sl).
  destruct o as [d|]; cbn [option_map].
  - destruct (finish_struct fields sl st0) as [ds| | | |], (finish_struct fields (ub_slots sl) st0) as [ds'| | | |];
      cbn in IH |- *; try discriminate; try (inversion IH; subst; reflexivity).
  - destruct t; try reflexivity.
    destruct (finish_struct fields sl st0) as [ds| | | |], (finish_struct fields (ub_slots sl) st0) as [ds'| | | |];
      cbn in IH |- *; try discriminate; try (inversion IH; subst; reflexivity).
Qed.

Definition ub_fields (r : vres (list dval * list (bytes * value))) :=
  vmap (fun p : list dval * list (bytes * value) => (map unborrow (fst p), snd p)) r.

Lemma map_fields_ext (e1 e2 : ty -> value -> vres dval) fields : forall l sl1 sl2,
  (forall t x, In t (map snd fields) -> ub (e1 t x) = ub (e2 t x)) -> ub_slots sl1 = ub_slots sl2 ->
  ub_fields (map_fields e1 fields sl1 l) = ub_fields (map_fields e2 fields sl2 l).
Proof.
  induction l as [|[k x] r IH]; intros sl1 sl2 H HS; cbn [map_fields].
  - unfold ub_fields.
    assert (F1 := finish_struct_ub fields sl1). assert (F2 := finish_struct_ub fields sl2). rewrite HS in F1.
    destruct (of_visit1 (finish_struct fields sl1 st0)) as [a1| | |], (of_visit1 (finish_struct fields sl2 st0)) as [a2| | |];
      cbn in *; rewrite <- F2 in F1; try discriminate; try (inversion F1; subst; reflexivity).
  - destruct (index_of k fields) as [[i t]|] eqn:Hi; [|apply IH; assumption].
    rewrite <- (slot_filled_ub i sl1), <- (slot_filled_ub i sl2), HS.
    destruct (slot_filled i (ub_slots sl2)); [reflexivity|].
    assert (Hin : In t (map snd fields)).
    { clear -Hi. revert i Hi. induction fields as [|[n a] fields IHf]; intros i Hi; [discriminate|]. cbn [index_of] in Hi.
      destruct (beq_bytes k n).
      - injection Hi as _ <-. left. reflexivity.
      - destruct (index_of k fields) as [[j a']|] eqn:Hj; [|discriminate]. injection Hi as _ <-. right. eapply IHf. reflexivity. }
    assert (Hx := H t x Hin). unfold ub in Hx.
    destruct (e1 t x) as [d1| | |], (e2 t x) as [d2| | |]; cbn in Hx; try discriminate; try (inversion Hx; subst; reflexivity).
    injection Hx as Hx. cbn [vbind]. apply IH; [exact H|]. rewrite !set_slot_ub, Hx, HS. reflexivity.
Qed.

Lemma u8s_of_ub ds : u8s_of (map unborrow ds) = u8s_of ds.
Proof.
  induction ds as [|d ds IH]; [reflexivity|]. cbn [map]. destruct d; cbn [unborrow u8s_of]; rewrite ?IH; reflexivity.
Qed.

(* visit_array / visit_array_ref, Map::deserialize_any / &Map::deserialize_any on agreeing visitor runs *)
Lemma visit_array_ext {A} (f : list dval -> A) (g : A -> A) l (b1 b2 : list value -> vres (list dval * list value)) :
  ub_list (b1 l) = ub_list (b2 l) -> (forall ds, g (f ds) = f (map unborrow ds)) ->
  vmap g (vmap f (visit_array_owned l b1)) = vmap g (vmap f (visit_array_ref l b2)).
Proof.
  intros H Hg. unfold visit_array_owned, visit_array_ref, ub_list in *.
  destruct (b1 l) as [[ds1 rem1]| | |], (b2 l) as [[ds2 rem2]| | |]; cbn in H; try discriminate; try (inversion H; subst; reflexivity).
  cbn [fst snd] in H. injection H as H1 H2. subst rem2. cbn [vbind]. destruct rem1; [|reflexivity]. cbn. rewrite !Hg, H1. reflexivity.
Qed.

Lemma map_any_ext {A B} (proj : B -> B) (f : A -> dval) (g : A -> A) m (b1 b2 : list (bytes * value) -> vres (A * list (bytes * value))) :
  vmap (fun p : A * list (bytes * value) => (g (fst p), snd p)) (b1 m) = vmap (fun p : A * list (bytes * value) => (g (fst p), snd p)) (b2 m) ->
  (forall a, unborrow (f a) = f (g a)) ->
  ub (vmap f (map_any_owned m b1)) = ub (vmap f (map_any_ref m b2)).
Proof.
  intros H Hg. unfold map_any_owned, map_any_ref, ub in *.
  destruct (b1 m) as [[a1 rem1]| | |], (b2 m) as [[a2 rem2]| | |]; cbn in H; try discriminate; try (inversion H; subst; reflexivity).
  cbn [fst snd] in H. injection H as H1 H2. subst rem2. cbn [vbind]. destruct rem1; [|reflexivity]. cbn. rewrite !Hg, H1. reflexivity.
Qed.

Lemma ub_wrap (C : dval -> dval) r1 r2 : (forall d, unborrow (C d) = C (unborrow d)) -> ub r1 = ub r2 -> ub (vmap C r1) = ub (vmap C r2).
Proof.
  intros HC. unfold ub. destruct r1, r2; cbn; intros H; try discriminate; try (inversion H; subst; reflexivity).
  injection H as H. rewrite !HC, H. reflexivity.
Qed.

(* ---- the main induction -------------------------------------------------------------------------------------------------------- *)
Lemma forallb_In {A} (p : A -> bool) l x : forallb p l = true -> In x l -> p x = true.
Proof. intros H Hin. rewrite forallb_forall in H. apply H, Hin. Qed.

Lemma owned_ref_fuel cf fx : forall fuel t v, owned_ty t = true ->
  ub (de_value_owned fuel cf fx t v) = ub (de_value_ref fuel cf fx t v).
Proof.
  induction fuel as [|f IH]; intros t v Ht; [reflexivity|].
  assert (Hseq_tuple : forall ts l, forallb owned_ty ts = true ->
            ub_list (seq_tuple (de_value_owned f cf fx) ts l) = ub_list (seq_tuple (de_value_ref f cf fx) ts l)).
  { intros ts l Hts. apply seq_tuple_ext. intros t' x Hin. apply IH. eapply forallb_In; eassumption. }
  assert (Hfields : forall fields m, forallb (fun p => owned_ty (snd p)) fields = true ->
            ub_fields (map_fields (de_value_owned f cf fx) fields (empty_slots fields) m)
            = ub_fields (map_fields (de_value_ref f cf fx) fields (empty_slots fields) m)).
  { intros fields m Hfs. apply map_fields_ext; [|reflexivity]. intros t' x Hin. apply IH.
    apply in_map_iff in Hin as [[n t''] [<- Hin]]. apply (forallb_In _ _ _ Hfs Hin). }
  assert (Hstruct_map : forall fields m, forallb (fun p => owned_ty (snd p)) fields = true ->
            ub (vmap DStruct (map_any_owned m (map_fields (de_value_owned f cf fx) fields (empty_slots fields))))
            = ub (vmap DStruct (map_any_ref m (map_fields (de_value_ref f cf fx) fields (empty_slots fields))))).
  { intros fields m Hfs. apply (map_any_ext (fun x : unit => x) DStruct (map unborrow)); [|reflexivity]. apply (Hfields fields m Hfs). }
  assert (Htuple_arr : forall (C : list dval -> dval) ts l, (forall ds, unborrow (C ds) = C (map unborrow ds)) -> forallb owned_ty ts = true ->
            ub (vmap C (visit_array_owned l (seq_tuple (de_value_owned f cf fx) ts)))
            = ub (vmap C (visit_array_ref l (seq_tuple (de_value_ref f cf fx) ts)))).
  { intros C ts l HC Hts. unfold ub. apply (visit_array_ext C unborrow l); [apply Hseq_tuple; exact Hts|exact HC]. }
  destruct t; cbn [owned_ty] in Ht; try discriminate Ht; cbn [de_value_owned de_value_ref]; cbv zeta.
  - (* TValue *) reflexivity.
  - reflexivity.
  - reflexivity.
  - destruct v; reflexivity.
  - destruct v; reflexivity.
  - destruct v; reflexivity.
  - destruct v; reflexivity.
  - (* TChar *) destruct v; try reflexivity; apply ub_visit_char.
  - (* TStr *) destruct v; reflexivity.
  - (* TBytes *)
    destruct v as [| | | |l|m]; try reflexivity. unfold ub.
    assert (X := visit_array_ext (fun ds => DBytes (u8s_of ds)) (fun x => x) l
                   (seq_all (de_value_owned f cf fx (TInt U8))) (seq_all (de_value_ref f cf fx (TInt U8)))).
    rewrite !vmap_vmap in X |- *. cbn [unborrow]. apply X.
    + apply seq_all_ext. intros x. apply IH. reflexivity.
    + intros ds. rewrite u8s_of_ub. reflexivity.
  - destruct v; reflexivity.
  - destruct v; reflexivity.
  - (* TOption *)
    destruct v; try reflexivity; (apply (ub_wrap DSome); [reflexivity|apply IH; exact Ht]).
  - (* TNewtype *)
    apply (ub_wrap DNewtype); [reflexivity|apply IH; exact Ht].
  - (* TSeq *)
    destruct v as [| | | |l|m]; try reflexivity. unfold ub.
    assert (X := visit_array_ext DSeq unborrow l (seq_all (de_value_owned f cf fx t)) (seq_all (de_value_ref f cf fx t))).
    apply X.
    + apply seq_all_ext. intros x. apply IH. exact Ht.
    + reflexivity.
  - (* TTuple *)
    destruct v as [| | | |l|m]; try reflexivity. apply Htuple_arr; [reflexivity|exact Ht].
  - (* TTupleStruct *)
    destruct v as [| | | |l|m]; try reflexivity. apply Htuple_arr; [reflexivity|exact Ht].
  - (* TMap *)
    destruct v as [| | | |l|m]; try reflexivity.
    apply (map_any_ext (fun x : unit => x) DMap (map (fun kv => (unborrow (fst kv), unborrow (snd kv))))); [|reflexivity].
    apply (map_all_ext (de_value_key cf false k) (de_value_key cf true k)).
    + apply key_owned_ref.
    + intros x. apply IH. exact Ht.
  - (* TStruct *)
    destruct v as [| | | |l|m]; try reflexivity.
    + apply Htuple_arr; [reflexivity|]. clear -Ht. induction fields as [|[n t] fields IHf]; [reflexivity|].
      cbn [forallb snd map] in *. apply andb_true_iff in Ht as [H1 H2]. rewrite H1, (IHf H2). reflexivity.
    + apply Hstruct_map. exact Ht.
  - (* TEnum *)
    assert (Hpay : forall vr value, (match vr with
                                     | VUnit => true
                                     | VNewtype t1 => owned_ty t1
                                     | VTuple ts => forallb owned_ty ts
                                     | VStruct fs => forallb (fun q => owned_ty (snd q)) fs
                                     end) = true ->
              ub (variant_payload_owned (de_value_owned f cf fx) vr value) = ub (variant_payload_ref (de_value_ref f cf fx) vr value)).
    { intros vr value Hvr. unfold variant_payload_owned, variant_payload_ref. destruct vr as [|t1|ts|fields].
      - destruct value as [[]|]; reflexivity.
      - destruct value as [x|]; [apply IH; exact Hvr|reflexivity].
      - destruct value as [[| | | |l|m]|]; try reflexivity. destruct l as [|x l]; [reflexivity|].
        apply Htuple_arr; [reflexivity|exact Hvr].
      - destruct value as [[| | | |l|m]|]; try reflexivity. apply Hstruct_map. exact Hvr. }
    assert (Henum : forall variant value,
              ub (visit_enum_owned (de_value_owned f cf fx) variants variant value)
              = ub (visit_enum_ref (de_value_ref f cf fx) variants variant value)).
    { intros variant value. unfold visit_enum_owned, visit_enum_ref, visit_variant.
      destruct (index_of variant variants) as [[i vr]|] eqn:Hi; [|reflexivity]. cbn [of_visit1 vbind].
      assert (Hvr : (match vr with
                     | VUnit => true
                     | VNewtype t1 => owned_ty t1
                     | VTuple ts => forallb owned_ty ts
                     | VStruct fs => forallb (fun q => owned_ty (snd q)) fs
                     end) = true).
      { clear -Hi Ht. revert i Hi. induction variants as [|[n a] vs IHv]; intros i Hi; [discriminate|]. cbn [index_of] in Hi.
        cbn [forallb snd] in Ht. apply andb_true_iff in Ht as [H1 H2]. destruct (beq_bytes variant n).
        - injection Hi as _ <-. exact H1.
        - destruct (index_of variant vs) as [[j a']|] eqn:Hj; [|discriminate]. injection Hi as _ <-. eapply IHv; [exact H2|reflexivity]. }
      apply (ub_wrap (DVariant variant)); [reflexivity|]. apply Hpay. exact Hvr. }
    destruct v as [| | |s|l|m]; try reflexivity; try apply Henum.
    unfold map_enum_owned, map_enum_ref. destruct m as [|[k x] [|e m]]; try reflexivity. apply Henum.
Qed.

(* the same result up to borrowing: same error, or data equal after [unborrow] *)
Definition same_mod_borrow (r1 r2 : vres dval) : Prop :=
  match r1, r2 with
  | VOk a, VOk b => unborrow a = unborrow b
  | VErr c l k, VErr c' l' k' => c = c' /\ l = l' /\ k = k'
  | VFuel, VFuel => True
  | VPanic, VPanic => True
  | _, _ => False
  end.

Lemma ub_same r1 r2 : ub r1 = ub r2 -> same_mod_borrow r1 r2.
Proof.
  unfold ub. destruct r1, r2; cbn; intros H; try discriminate; auto.
  - injection H as H. exact H.
  - injection H as -> -> ->. auto.
Qed.

Theorem owned_ref_agree : forall cf fx t v, owned_ty t = true ->
  same_mod_borrow (from_value_owned cf fx t v) (from_value_ref cf fx t v).
Proof. intros cf fx t v Ht. apply ub_same. unfold from_value_owned, from_value_ref. apply owned_ref_fuel. exact Ht. Qed.

(* a borrowed &str target separates the two impls: the statement needs [owned_ty] *)
Example borrowed_str_differs : forall cf fx,
  from_value_owned cf fx TBorrowedStr (VStr [97]) = VErr (Message MInvalidType) 0 0
  /\ from_value_ref cf fx TBorrowedStr (VStr [97]) = VOk (DStr [97] true).
Proof. intros. split; reflexivity. Qed.

Print Assumptions owned_ref_agree.
