(* Proofs/StreamEof.v — the stream form of the truncation property (C10 last clause / C12 error classification).

   "A malformed or truncated value yields one error - Eof whenever the rest of the input is a proper prefix of a
    value, Syntax otherwise - with byte_offset() at the first byte of that value, after which the iterator yields
    None forever."

   Part 1  item level: the prefix dichotomy (PrefixDe / PrefixIgnore) for the two item parsers of Model/Stream.v,
           [value_item] and [ignored_item], from ANY cursor state (offset, peek flag, depth), with OutOfFuel excluded
           by Proofs/Total.v:           item_dich, value_item_prefix, ignored_item_prefix,
                                        value_item_syntax_stable, ignored_item_syntax_stable
   Part 2  stream level, generic in the item parser:
                                        stream_truncated_gen   (three outcomes, the third one characterised exactly)
                                        stream_truncated       (the third outcome excluded by "the value reaches the end")
                                        stream_syntax_stable   (a non-eofish item error is the same on every extension)
   Part 3  instances for Value items and IgnoredAny items; the formulation over RFC 8259 syntax trees
           (the remaining text is a prefix of [render c]): stream_truncated_render
   Part 4  validation on concrete streams (vm_compute), including the counterexample to the TrailingCharacters-free
           statement without the "reaches the end" hypothesis.

   [eofish c := category c = CatEof \/ c = NumberOutOfRange]  (PrefixBase; the second disjunct is the known finding
   C10_number_range_exception of Proofs/Prefix.v). *)
From SJ Require Import Base.Bytes Base.FloatB Gen.Tables Model.Read Model.Str Model.Num Model.Value Model.De Model.Ignore
  Model.Stream Spec.Syntax Spec.Denote.
From SJ Require Import Proofs.PrefixBase Proofs.PrefixDe Proofs.PrefixIgnore Proofs.StreamProps.
From SJ Require Proofs.Total Proofs.StreamFinal.
Require Import Lia ZifyBool ZifyNat ZifyN.
Open Scope N_scope.

(* ------------------------------------------------------------------------------------------ *)
(** * Part 1: the item parsers *)

(* Both item parsers start with parse_whitespace, whose first step ([advance]) forgets the peek flag:
   the flag of the start state is irrelevant. *)
Lemma parse_value_pk f E s :
  parse_value f E s = parse_value f E (mkSt (rest s) (off s) false (depth s)).
Proof. destruct f as [|f]; reflexivity. Qed.

Lemma value_item_pk E r o k d : value_item E (mkSt r o k d) = value_item E (mkSt r o false d).
Proof. unfold value_item. cbn [rest]. exact (parse_value_pk _ E (mkSt r o k d)). Qed.

Lemma ig_outer_pk f E stk s :
  ig_outer f E stk s = ig_outer f E stk (mkSt (rest s) (off s) false (depth s)).
Proof. destruct f as [|f]; reflexivity. Qed.

Lemma ignored_item_pk E r o k d : ignored_item E (mkSt r o k d) = ignored_item E (mkSt r o false d).
Proof.
  unfold ignored_item, ignore_value, ignore_fuel. cbn [rest].
  rewrite (ig_outer_pk _ E [] (mkSt r o k d)). reflexivity.
Qed.

(* The dichotomy for an item parser [itemp] with an end-of-input reader, from an arbitrary cursor state:
   run on the text [p] versus run on [p ++ t].  Either both runs do the same (the result state of the longer run is
   the one of the shorter run with [t] appended), or the shorter run stopped exactly at the end of [p]:
   with a value and nothing left, or with an eofish error positioned there.  Never OutOfFuel. *)
Definition item_dich (E : env) (itemp : env -> st -> res (value * st)) : Prop :=
  forall p t o k d,
  match itemp E (mkSt p o k d) with
  | Ok (v2, s2) =>
      itemp E (mkSt (p ++ t) o k d) = Ok (v2, mkSt (rest s2 ++ t) (off s2) (pk s2) (depth s2))
      \/ (rest s2 = [] /\ pk s2 = false /\ off s2 = (o + length p)%nat)
  | Err c i => itemp E (mkSt (p ++ t) o k d) = Err c i \/ (eofish c /\ i = (o + length p)%nat)
  | OutOfFuel => False
  | Panic => itemp E (mkSt (p ++ t) o k d) = Panic
  end.

Theorem value_item_dich rk cf : item_dich (mkEnv rk TEof cf) value_item.
Proof.
  intros p t o k d. rewrite (value_item_pk _ p), (value_item_pk _ (p ++ t)).
  set (C := mkCtx rk cf TEof TEof t (o + length p)%nat).
  assert (Hi : inv C (mkSt p o false d)) by (apply inv_mk; [reflexivity|discriminate]).
  pose proof (parse_value_dich C (value_fuel p) (value_fuel (p ++ t)) (mkSt p o false d)
                (value_fuel_app p t) Hi) as H.
  pose proof (Total.parse_value_fuel_strong (mkEnv rk TEof cf) (mkSt p o false d) (value_fuel p) (le_n _)) as Hfuel.
  unfold value_item. cbn [rest].
  change (ext C (mkSt p o false d)) with (mkSt (p ++ t) o false d) in H.
  change (mkEnv (c_rk C) (c_tm1 C) (c_cf C)) with (mkEnv rk TEof cf) in H.
  change (mkEnv (c_rk C) (c_tm2 C) (c_cf C)) with (mkEnv rk TEof cf) in H.
  destruct (parse_value (value_fuel p) (mkEnv rk TEof cf) (mkSt p o false d)) as [[v2 s2]|c i| |].
  - cbn [dich ShP iv ex tch fst snd] in H. destruct H as [Hi2 [H | [Ht _]]].
    + left. exact H.
    + right. destruct (touched_off C s2 Ht Hi2) as (Ho & Hr & Hp). auto.
  - cbn [dich] in H. destruct H as [_ [H | H]]; [left; exact H|right; exact H].
  - apply Hfuel. reflexivity.
  - exact H.
Qed.

Theorem ignored_item_dich rk cf : item_dich (mkEnv rk TEof cf) ignored_item.
Proof.
  intros p t o k d. rewrite (ignored_item_pk _ p), (ignored_item_pk _ (p ++ t)).
  set (C := mkCtx rk cf TEof TEof t (o + length p)%nat).
  assert (Hi : inv C (mkSt p o false d)) by (apply inv_mk; [reflexivity|discriminate]).
  pose proof (ignore_value_dich C (mkSt p o false d) Hi) as H.
  pose proof (Total.ignore_value_no_fuel_strong (mkEnv rk TEof cf) (mkSt p o false d)) as Hfuel.
  unfold ignored_item.
  change (ext C (mkSt p o false d)) with (mkSt (p ++ t) o false d) in H.
  change (mkEnv (c_rk C) (c_tm1 C) (c_cf C)) with (mkEnv rk TEof cf) in H.
  change (mkEnv (c_rk C) (c_tm2 C) (c_cf C)) with (mkEnv rk TEof cf) in H.
  destruct (ignore_value (mkEnv rk TEof cf) (mkSt p o false d)) as [s2|c i| |]; cbn [bind].
  - cbn [dich ShS iv ex tch] in H. destruct H as [Hi2 [H | Ht]].
    + left. rewrite H. reflexivity.
    + right. destruct (touched_off C s2 Ht Hi2) as (Ho & Hr & Hp). auto.
  - cbn [dich] in H. destruct H as [_ [H | H]]; [left; rewrite H; reflexivity|right; exact H].
  - apply Hfuel. reflexivity.
  - rewrite H. reflexivity.
Qed.

(* ---- consequences of [item_dich], for any item parser ---- *)
Section ItemGen.
  Variable E : env.
  Variable itemp : env -> st -> res (value * st).
  Hypothesis Hd : item_dich E itemp.

  (* if the item parser succeeds on p ++ t, then on p alone it succeeds (with the same value and the same cursor,
     or having consumed all of p) or fails with an end-of-input outcome positioned at the end of p *)
  Lemma item_prefix_strong : forall p t o k d v s',
    itemp E (mkSt (p ++ t) o k d) = Ok (v, s') ->
    match itemp E (mkSt p o k d) with
    | Ok (v2, s2) => (v2 = v /\ s' = mkSt (rest s2 ++ t) (off s2) (pk s2) (depth s2))
                     \/ (rest s2 = [] /\ pk s2 = false /\ off s2 = (o + length p)%nat)
    | Err c i => eofish c /\ i = (o + length p)%nat
    | OutOfFuel | Panic => False
    end.
  Proof.
    intros p t o k d v s' Hok. pose proof (Hd p t o k d) as H. rewrite Hok in H.
    destruct (itemp E (mkSt p o k d)) as [[v2 s2]|c i| |].
    - destruct H as [H | H]; [left|right; exact H]. injection H as Hv Hs. auto.
    - destruct H as [H | H]; [discriminate H|exact H].
    - exact H.
    - discriminate H.
  Qed.

  (* a non-eofish error is extension-stable (the item-level form of C11_dead) *)
  Lemma item_syntax_stable : forall s c i t,
    itemp E s = Err c i -> ~ eofish c ->
    itemp E (mkSt (rest s ++ t) (off s) (pk s) (depth s)) = Err c i.
  Proof.
    intros [r o k d] c i t He Hn. cbn [rest off pk depth]. pose proof (Hd r t o k d) as H. rewrite He in H.
    destruct H as [H | [H _]]; [exact H|contradiction].
  Qed.

  (* an item error is never positioned beyond the end of the text *)
  Lemma item_eofish_at_end : forall p o k d c i t v s',
    itemp E (mkSt p o k d) = Err c i -> itemp E (mkSt (p ++ t) o k d) = Ok (v, s') ->
    eofish c /\ i = (o + length p)%nat.
  Proof.
    intros p o k d c i t v s' He Hok. pose proof (item_prefix_strong p t o k d v s' Hok) as H.
    rewrite He in H. exact H.
  Qed.
End ItemGen.

(* ---- the statements for the two item parsers ---- *)
Theorem value_item_prefix_strong : forall rk cf p t off pk d v s',
  value_item (mkEnv rk TEof cf) (mkSt (p ++ t) off pk d) = Ok (v, s') ->
  match value_item (mkEnv rk TEof cf) (mkSt p off pk d) with
  | Ok (v2, s2) => (v2 = v /\ s' = mkSt (rest s2 ++ t) (Read.off s2) (Read.pk s2) (depth s2))
                   \/ (rest s2 = [] /\ Read.pk s2 = false /\ Read.off s2 = (off + length p)%nat)
  | Err c i => eofish c /\ i = (off + length p)%nat
  | OutOfFuel | Panic => False
  end.
Proof. intros rk cf. apply item_prefix_strong, value_item_dich. Qed.

Theorem ignored_item_prefix_strong : forall rk cf p t off pk d v s',
  ignored_item (mkEnv rk TEof cf) (mkSt (p ++ t) off pk d) = Ok (v, s') ->
  match ignored_item (mkEnv rk TEof cf) (mkSt p off pk d) with
  | Ok (v2, s2) => (v2 = v /\ s' = mkSt (rest s2 ++ t) (Read.off s2) (Read.pk s2) (depth s2))
                   \/ (rest s2 = [] /\ Read.pk s2 = false /\ Read.off s2 = (off + length p)%nat)
  | Err c i => eofish c /\ i = (off + length p)%nat
  | OutOfFuel | Panic => False
  end.
Proof. intros rk cf. apply item_prefix_strong, ignored_item_dich. Qed.

(* exactly as requested (the hypotheses [t <> []] and [ws_ok w = true] are not needed; OutOfFuel AND Panic are excluded) *)
Theorem value_item_prefix : forall rk cf w p t off pk d v s',
  t <> [] -> ws_ok w = true ->
  value_item (mkEnv rk TEof cf) (mkSt (w ++ p ++ t) off pk d) = Ok (v, s') ->
  match value_item (mkEnv rk TEof cf) (mkSt (w ++ p) off pk d) with
  | Ok _ => True
  | Err c i => eofish c /\ i = (off + length w + length p)%nat
  | _ => False
  end.
Proof.
  intros rk cf w p t o k d v s' _ _ Hok. rewrite app_assoc in Hok.
  pose proof (value_item_prefix_strong rk cf (w ++ p) t o k d v s' Hok) as H.
  destruct (value_item (mkEnv rk TEof cf) (mkSt (w ++ p) o k d)) as [x|c i| |]; auto.
  rewrite app_length in H. destruct H as [H1 H2]. split; [exact H1|lia].
Qed.

Theorem ignored_item_prefix : forall rk cf w p t off pk d v s',
  t <> [] -> ws_ok w = true ->
  ignored_item (mkEnv rk TEof cf) (mkSt (w ++ p ++ t) off pk d) = Ok (v, s') ->
  match ignored_item (mkEnv rk TEof cf) (mkSt (w ++ p) off pk d) with
  | Ok _ => True
  | Err c i => eofish c /\ i = (off + length w + length p)%nat
  | _ => False
  end.
Proof.
  intros rk cf w p t o k d v s' _ _ Hok. rewrite app_assoc in Hok.
  pose proof (ignored_item_prefix_strong rk cf (w ++ p) t o k d v s' Hok) as H.
  destruct (ignored_item (mkEnv rk TEof cf) (mkSt (w ++ p) o k d)) as [x|c i| |]; auto.
  rewrite app_length in H. destruct H as [H1 H2]. split; [exact H1|lia].
Qed.

Theorem value_item_syntax_stable : forall rk cf s c i t,
  value_item (mkEnv rk TEof cf) s = Err c i -> ~ eofish c ->
  value_item (mkEnv rk TEof cf) (mkSt (rest s ++ t) (off s) (pk s) (depth s)) = Err c i.
Proof. intros rk cf. apply item_syntax_stable, value_item_dich. Qed.

Theorem ignored_item_syntax_stable : forall rk cf s c i t,
  ignored_item (mkEnv rk TEof cf) s = Err c i -> ~ eofish c ->
  ignored_item (mkEnv rk TEof cf) (mkSt (rest s ++ t) (off s) (pk s) (depth s)) = Err c i.
Proof. intros rk cf. apply item_syntax_stable, ignored_item_dich. Qed.

(* ------------------------------------------------------------------------------------------ *)
(** * Part 2: the stream, generic in the item parser *)

Section StreamGen.
  Variable E : env.
  Variable itemp : env -> st -> res (value * st).
  Hypothesis Htm : tm E = TEof.
  Hypothesis Hd : item_dich E itemp.

  (* The remaining text of the stream is  w ++ p  (whitespace, then p whose first byte is not whitespace), and on
     the longer text p ++ t the item parser succeeds with value v and result cursor s'.  Then this call of next()
     has exactly one of three outcomes:
     (A) a value; it is v, or the value ends exactly at the end of the input (e.g. the number 12 cut out of 123);
     (B) ONE eofish error positioned at the end of the input; byte_offset() is at the first byte of the value and
         every later call returns None without moving byte_offset();
     (C) the value found in p ++ t ends strictly inside p, it is a bare scalar, and the byte after it is not a
         delimiter: TrailingCharacters positioned on that byte, byte_offset() just past the scalar, stream NOT fused
         (this is stream_scalar_needs_delim; p is then not a prefix of a value but a value plus garbage). *)
  Theorem stream_truncated_gen : forall ss w p t v s',
    (is_io E && ss_failed ss = false) ->
    rest (ss_st ss) = w ++ p -> ws_ok w = true ->
    (match p with b :: _ => ws_byte b = false | [] => False end) ->
    itemp E (mkSt (p ++ t) (off (ss_st ss) + length w)%nat true (depth (ss_st ss))) = Ok (v, s') ->
    (exists v' ss', stream_next E itemp ss = (Some (IVal v'), ss')
        /\ (v' = v \/ (rest (ss_st ss') = [] /\ ss_off ss' = (off (ss_st ss) + length w + length p)%nat)))
    \/ (exists c i ss', stream_next E itemp ss = (Some (IErr c i), ss')
        /\ eofish c /\ i = (off (ss_st ss) + length w + length p)%nat
        /\ ss_off ss' = (off (ss_st ss) + length w)%nat
        /\ forall n, Forall (fun o => fst o = None /\ snd o = (off (ss_st ss) + length w)%nat)
                            (stream_run n E itemp ss'))
    \/ (exists b' r' ss', rest s' = (b' :: r') ++ t /\ is_delim b' = false /\ self_del (hd 0 p) = false
        /\ stream_next E itemp ss = (Some (IErr TrailingCharacters (off s' + 1)%nat), ss')
        /\ ss_off ss' = off s' /\ rest (ss_st ss') = b' :: r' /\ off (ss_st ss') = off s'
        /\ ss_failed ss' = ss_failed ss).
  Proof.
    intros ss w p t v s' Hf Hrest Hw Hb Hok.
    destruct p as [|b r]; [contradiction|].
    pose proof (item_prefix_strong E itemp Hd (b :: r) t _ true _ v s' Hok) as H.
    destruct (itemp E (mkSt (b :: r) (off (ss_st ss) + length w)%nat true (depth (ss_st ss))))
      as [[v2 s2]|c i| |] eqn:Hp; [| |contradiction|contradiction].
    - (* the item parser succeeds on p *)
      destruct H as [[Hv Hs] | (Hr2 & Hpk2 & Ho2)].
      + (* both runs agree *)
        subst v2. destruct (self_del b) eqn:Hsd.
        { destruct (stream_item_ok E itemp ss w b r v s2 Htm Hf Hrest Hw Hb Hp) as (ss' & Hn & _).
          { left. exact Hsd. }
          left. exists v, ss'. split; [exact Hn|left; reflexivity]. }
        destruct (rest s2) as [|b' r'] eqn:Hr2.
        { destruct (stream_item_ok E itemp ss w b r v s2 Htm Hf Hrest Hw Hb Hp) as (ss' & Hn & _).
          { right. left. exact Hr2. }
          left. exists v, ss'. split; [exact Hn|left; reflexivity]. }
        destruct (is_delim b') eqn:Hdl.
        { destruct (stream_item_ok E itemp ss w b r v s2 Htm Hf Hrest Hw Hb Hp) as (ss' & Hn & _).
          { right. right. exists b', r'. split; [exact Hr2|exact Hdl]. }
          left. exists v, ss'. split; [exact Hn|left; reflexivity]. }
        destruct (stream_scalar_needs_delim E itemp ss w b r v s2 b' r' Htm Hf Hrest Hw Hb Hp Hsd Hr2 Hdl)
          as (c & i & ss' & Hn & -> & -> & Ho & Hst & Hfl).
        right. right. exists b', r', ss'. subst s'. cbn [rest off hd]. rewrite Hst, Hr2.
        repeat split; assumption.
      + (* the run on p consumed all of p *)
        destruct (stream_item_ok E itemp ss w b r v2 s2 Htm Hf Hrest Hw Hb Hp) as (ss' & Hn & Ho & Hr' & _).
        { right. left. exact Hr2. }
        left. exists v2, ss'. split; [exact Hn|]. right. split; [congruence|]. rewrite Ho, Ho2. reflexivity.
    - (* the item parser fails on p: eofish, at the end *)
      destruct H as [Hc Hi].
      destruct (stream_item_error E itemp ss w (b :: r) c i Htm Hf Hrest Hw Hb Hp) as (ss' & Hn & Ho & Hrun).
      right. left. exists c, i, ss'. split; [exact Hn|]. split; [exact Hc|]. split; [lia|]. split; [exact Ho|exact Hrun].
  Qed.

  (* p is a (not necessarily proper) prefix of the value found in p ++ t: that value reaches at least to the end
     of p.  Then TrailingCharacters is impossible: a value, or one eofish error and None forever. *)
  Theorem stream_truncated : forall ss w p t v s',
    (is_io E && ss_failed ss = false) ->
    rest (ss_st ss) = w ++ p -> ws_ok w = true ->
    (match p with b :: _ => ws_byte b = false | [] => False end) ->
    itemp E (mkSt (p ++ t) (off (ss_st ss) + length w)%nat true (depth (ss_st ss))) = Ok (v, s') ->
    (length (rest s') <= length t)%nat ->
    (exists v' ss', stream_next E itemp ss = (Some (IVal v'), ss')
        /\ (v' = v \/ (rest (ss_st ss') = [] /\ ss_off ss' = (off (ss_st ss) + length w + length p)%nat)))
    \/ (exists c i ss', stream_next E itemp ss = (Some (IErr c i), ss')
        /\ eofish c /\ i = (off (ss_st ss) + length w + length p)%nat
        /\ ss_off ss' = (off (ss_st ss) + length w)%nat
        /\ forall n, Forall (fun o => fst o = None /\ snd o = (off (ss_st ss) + length w)%nat)
                            (stream_run n E itemp ss')).
  Proof.
    intros ss w p t v s' Hf Hrest Hw Hb Hok Hlen.
    destruct (stream_truncated_gen ss w p t v s' Hf Hrest Hw Hb Hok) as [H | [H | H]]; [left; exact H|right; exact H|].
    destruct H as (b' & r' & ss' & Hr & _). rewrite Hr, app_length in Hlen. cbn [length] in Hlen. lia.
  Qed.

  (* The converse classification: a non-eofish ("Syntax") item error is reported identically whatever is appended to
     the input - no further data can repair it (stream form of C11_dead).  Both streams are fused afterwards. *)
  Theorem stream_syntax_stable : forall ss w p c i t,
    (is_io E && ss_failed ss = false) ->
    rest (ss_st ss) = w ++ p -> ws_ok w = true ->
    (match p with b :: _ => ws_byte b = false | [] => False end) ->
    itemp E (mkSt p (off (ss_st ss) + length w)%nat true (depth (ss_st ss))) = Err c i -> ~ eofish c ->
    let ssx := mkSS (mkSt (rest (ss_st ss) ++ t) (off (ss_st ss)) (pk (ss_st ss)) (depth (ss_st ss)))
                    (ss_off ss) (ss_failed ss) in
    (exists ss', stream_next E itemp ss = (Some (IErr c i), ss')
        /\ ss_off ss' = (off (ss_st ss) + length w)%nat
        /\ forall n, Forall (fun o => fst o = None /\ snd o = (off (ss_st ss) + length w)%nat) (stream_run n E itemp ss'))
    /\ (exists ss', stream_next E itemp ssx = (Some (IErr c i), ss')
        /\ ss_off ss' = (off (ss_st ss) + length w)%nat
        /\ forall n, Forall (fun o => fst o = None /\ snd o = (off (ss_st ss) + length w)%nat) (stream_run n E itemp ss')).
  Proof.
    intros ss w p c i t Hf Hrest Hw Hb He Hn ssx. split.
    - exact (stream_item_error E itemp ss w p c i Htm Hf Hrest Hw Hb He).
    - pose proof (item_syntax_stable E itemp Hd _ c i t He Hn) as Hx. cbn [rest off pk depth] in Hx.
      apply (stream_item_error E itemp ssx w (p ++ t) c i Htm Hf).
      + unfold ssx. cbn [ss_st rest]. rewrite Hrest, app_assoc. reflexivity.
      + exact Hw.
      + destruct p as [|b r]; [contradiction|exact Hb].
      + exact Hx.
  Qed.
End StreamGen.

(* ------------------------------------------------------------------------------------------ *)
(** * Part 3: instances *)

(* Value items *)
Theorem stream_truncated_value_gen : forall rk cf ss w p t v s',
  (is_io (mkEnv rk TEof cf) && ss_failed ss = false) ->
  rest (ss_st ss) = w ++ p -> ws_ok w = true ->
  (match p with b :: _ => ws_byte b = false | [] => False end) ->
  value_item (mkEnv rk TEof cf) (mkSt (p ++ t) (off (ss_st ss) + length w)%nat true (depth (ss_st ss))) = Ok (v, s') ->
  (exists v' ss', stream_next (mkEnv rk TEof cf) value_item ss = (Some (IVal v'), ss')
      /\ (v' = v \/ (rest (ss_st ss') = [] /\ ss_off ss' = (off (ss_st ss) + length w + length p)%nat)))
  \/ (exists c i ss', stream_next (mkEnv rk TEof cf) value_item ss = (Some (IErr c i), ss')
      /\ eofish c /\ i = (off (ss_st ss) + length w + length p)%nat
      /\ ss_off ss' = (off (ss_st ss) + length w)%nat
      /\ forall n, Forall (fun o => fst o = None /\ snd o = (off (ss_st ss) + length w)%nat)
                          (stream_run n (mkEnv rk TEof cf) value_item ss'))
  \/ (exists b' r' ss', rest s' = (b' :: r') ++ t /\ is_delim b' = false /\ self_del (hd 0 p) = false
      /\ stream_next (mkEnv rk TEof cf) value_item ss = (Some (IErr TrailingCharacters (off s' + 1)%nat), ss')
      /\ ss_off ss' = off s' /\ rest (ss_st ss') = b' :: r' /\ off (ss_st ss') = off s'
      /\ ss_failed ss' = ss_failed ss).
Proof. intros rk cf. apply stream_truncated_gen; [reflexivity|apply value_item_dich]. Qed.

(* The statement of the task, made true by the hypothesis [length (rest s') <= length t] (the value found in p ++ t
   reaches the end of p, i.e. p is a prefix of that value's text); see [trailing_counterexample] below for why it is
   needed.  The TrailingCharacters disjunct is gone; [t <> []] is not needed. *)
Theorem stream_truncated_value : forall rk cf ss w p t v s',
  (is_io (mkEnv rk TEof cf) && ss_failed ss = false) ->
  rest (ss_st ss) = w ++ p -> ws_ok w = true ->
  (match p with b :: _ => ws_byte b = false | [] => False end) -> t <> [] ->
  value_item (mkEnv rk TEof cf) (mkSt (p ++ t) (off (ss_st ss) + length w)%nat true (depth (ss_st ss))) = Ok (v, s') ->
  (length (rest s') <= length t)%nat ->
  (exists v' ss', stream_next (mkEnv rk TEof cf) value_item ss = (Some (IVal v'), ss')
      /\ (v' = v \/ (rest (ss_st ss') = [] /\ ss_off ss' = (off (ss_st ss) + length w + length p)%nat)))
  \/ (exists c i ss', stream_next (mkEnv rk TEof cf) value_item ss = (Some (IErr c i), ss')
      /\ eofish c /\ i = (off (ss_st ss) + length w + length p)%nat
      /\ ss_off ss' = (off (ss_st ss) + length w)%nat
      /\ forall n, Forall (fun o => fst o = None /\ snd o = (off (ss_st ss) + length w)%nat)
                          (stream_run n (mkEnv rk TEof cf) value_item ss')).
Proof.
  intros rk cf ss w p t v s' Hf Hrest Hw Hb _. apply stream_truncated; try assumption; [reflexivity|apply value_item_dich].
Qed.

(* IgnoredAny items *)
Theorem stream_truncated_ignored : forall rk cf ss w p t v s',
  (is_io (mkEnv rk TEof cf) && ss_failed ss = false) ->
  rest (ss_st ss) = w ++ p -> ws_ok w = true ->
  (match p with b :: _ => ws_byte b = false | [] => False end) -> t <> [] ->
  ignored_item (mkEnv rk TEof cf) (mkSt (p ++ t) (off (ss_st ss) + length w)%nat true (depth (ss_st ss))) = Ok (v, s') ->
  (length (rest s') <= length t)%nat ->
  (exists v' ss', stream_next (mkEnv rk TEof cf) ignored_item ss = (Some (IVal v'), ss')
      /\ (v' = v \/ (rest (ss_st ss') = [] /\ ss_off ss' = (off (ss_st ss) + length w + length p)%nat)))
  \/ (exists c i ss', stream_next (mkEnv rk TEof cf) ignored_item ss = (Some (IErr c i), ss')
      /\ eofish c /\ i = (off (ss_st ss) + length w + length p)%nat
      /\ ss_off ss' = (off (ss_st ss) + length w)%nat
      /\ forall n, Forall (fun o => fst o = None /\ snd o = (off (ss_st ss) + length w)%nat)
                          (stream_run n (mkEnv rk TEof cf) ignored_item ss')).
Proof.
  intros rk cf ss w p t v s' Hf Hrest Hw Hb _. apply stream_truncated; try assumption; [reflexivity|apply ignored_item_dich].
Qed.

Theorem stream_value_syntax_stable : forall rk cf ss w p c i t,
  (is_io (mkEnv rk TEof cf) && ss_failed ss = false) ->
  rest (ss_st ss) = w ++ p -> ws_ok w = true ->
  (match p with b :: _ => ws_byte b = false | [] => False end) ->
  value_item (mkEnv rk TEof cf) (mkSt p (off (ss_st ss) + length w)%nat true (depth (ss_st ss))) = Err c i -> ~ eofish c ->
  let E := mkEnv rk TEof cf in
  let ssx := mkSS (mkSt (rest (ss_st ss) ++ t) (off (ss_st ss)) (pk (ss_st ss)) (depth (ss_st ss)))
                  (ss_off ss) (ss_failed ss) in
  (exists ss', stream_next E value_item ss = (Some (IErr c i), ss')
      /\ ss_off ss' = (off (ss_st ss) + length w)%nat
      /\ forall n, Forall (fun o => fst o = None /\ snd o = (off (ss_st ss) + length w)%nat) (stream_run n E value_item ss'))
  /\ (exists ss', stream_next E value_item ssx = (Some (IErr c i), ss')
      /\ ss_off ss' = (off (ss_st ss) + length w)%nat
      /\ forall n, Forall (fun o => fst o = None /\ snd o = (off (ss_st ss) + length w)%nat) (stream_run n E value_item ss')).
Proof. intros rk cf. apply stream_syntax_stable; [reflexivity|apply value_item_dich]. Qed.

(* The formulation over the grammar: the remaining text of the stream (after whitespace) is a non-empty prefix p of the
   text [render c] of a well-formed value c that the deserializer accepts (it has a denotation and fits the
   recursion budget).  Then next() yields a value, or ONE eofish error at the end of the input with byte_offset() at the
   first byte of p, then None forever.  (Uses the completeness theorem StreamFinal.item_complete.) *)
Theorem stream_truncated_render : forall cf rk c v ss w p t,
  (rk = RSlice \/ rk = RIo) ->
  wfb c = true -> denote cf c = Some v ->
  (limit_disabled cf = false -> (cdepth c < N.to_nat (depth (ss_st ss)))%nat) -> (depth (ss_st ss) <= 128)%N ->
  (is_io (mkEnv rk TEof cf) && ss_failed ss = false) ->
  rest (ss_st ss) = w ++ p -> ws_ok w = true -> p <> [] -> render c = p ++ t ->
  (exists v' ss', stream_next (mkEnv rk TEof cf) value_item ss = (Some (IVal v'), ss')
      /\ (v' = v \/ (rest (ss_st ss') = [] /\ ss_off ss' = (off (ss_st ss) + length w + length p)%nat)))
  \/ (exists c' i ss', stream_next (mkEnv rk TEof cf) value_item ss = (Some (IErr c' i), ss')
      /\ eofish c' /\ i = (off (ss_st ss) + length w + length p)%nat
      /\ ss_off ss' = (off (ss_st ss) + length w)%nat
      /\ forall n, Forall (fun o => fst o = None /\ snd o = (off (ss_st ss) + length w)%nat)
                          (stream_run n (mkEnv rk TEof cf) value_item ss')).
Proof.
  intros cf rk c v ss w p t Hrk Hwf Hden Hdep Hd128 Hf Hrest Hw Hp Hren.
  destruct (StreamFinal.item_complete cf rk c v [] (off (ss_st ss) + length w)%nat true (depth (ss_st ss))
              Hrk Hwf Hden Hdep Hd128 (fun _ => I)) as (pk' & Hit & _).
  rewrite app_nil_r, Hren in Hit.
  eapply (stream_truncated (mkEnv rk TEof cf) value_item eq_refl (value_item_dich rk cf) ss w p t v _ Hf Hrest Hw);
    [|exact Hit|cbn [rest length]; lia].
  destruct (render_head c Hwf) as (b & r & Hrc & Hb & _). rewrite Hren in Hrc.
  destruct p as [|b0 p']; [now apply Hp|]. cbn [app] in Hrc. injection Hrc as -> _. exact Hb.
Qed.

(* ------------------------------------------------------------------------------------------ *)
(** * Part 4: validation on concrete streams *)

Definition cfD : cfg := mkCfg false false false false.
Definition hist (rk : rkind) (n : nat) (input : bytes) := stream_run n (mkEnv rk TEof cfD) value_item (stream_init input).

(* `[1] [2`  :  a value, then EofWhileParsingList at the end (6), byte_offset() = 4 = first byte of the cut value, then None *)
Example ex_arr_cut : hist RSlice 4 [91; 49; 93; 32; 91; 50]
  = [(Some (IVal (VArr [VNum (NPos 1)])), 3%nat); (Some (IErr EofWhileParsingList 6), 4%nat); (None, 4%nat); (None, 4%nat)].
Proof. vm_compute. reflexivity. Qed.
Example ex_arr_cut_io : hist RIo 4 [91; 49; 93; 32; 91; 50] = hist RSlice 4 [91; 49; 93; 32; 91; 50].
Proof. vm_compute. reflexivity. Qed.

(* `1 tru` *)
Example ex_lit_cut : hist RSlice 3 [49; 32; 116; 114; 117]
  = [(Some (IVal (VNum (NPos 1))), 1%nat); (Some (IErr EofWhileParsingValue 5), 2%nat); (None, 2%nat)].
Proof. vm_compute. reflexivity. Qed.

(* quote a backslash u 0 0   : an escape cut off by the end of input is truncation (Eof category), not a syntax error *)
Example ex_escape_cut : hist RSlice 3 [34; 97; 92; 117; 48; 48]
  = [(Some (IErr EofWhileParsingString 6), 0%nat); (None, 0%nat); (None, 0%nat)].
Proof. vm_compute. reflexivity. Qed.
Example ex_escape_cut_io : hist RIo 3 [34; 97; 92; 117; 48; 48] = hist RSlice 3 [34; 97; 92; 117; 48; 48].
Proof. vm_compute. reflexivity. Qed.

(* lbrace quote a quote colon *)
Example ex_obj_cut : hist RSlice 3 [123; 34; 97; 34; 58]
  = [(Some (IErr EofWhileParsingValue 5), 0%nat); (None, 0%nat); (None, 0%nat)].
Proof. vm_compute. reflexivity. Qed.

(* `12` : a complete number at the end of the input is a value (outcome A, second alternative when seen as a prefix of 123) *)
Example ex_num_end : hist RSlice 2 [49; 50] = [(Some (IVal (VNum (NPos 12))), 2%nat); (None, 2%nat)].
Proof. vm_compute. reflexivity. Qed.

(* `[1] x` : not a prefix of a value: a Syntax error (not covered by the truncation hypothesis; covered by stream_syntax_stable) *)
Example ex_syntax : hist RSlice 3 [91; 49; 93; 32; 120]
  = [(Some (IVal (VArr [VNum (NPos 1)])), 3%nat); (Some (IErr ExpectedSomeValue 5), 4%nat); (None, 4%nat)].
Proof. vm_compute. reflexivity. Qed.

(* The counterexample to the statement WITHOUT [length (rest s') <= length t]:  p = `1xz`, t = `y`.
   The item parser succeeds on p ++ t (value 1, the rest `xzy` is longer than t), but next() on the stream `1xz`
   yields TrailingCharacters, which is not eofish, is positioned at 2 (not at the end, 3), leaves byte_offset() at 1
   (not at 0) and does not fuse the stream (the next call reports another error). *)
Example trailing_counterexample :
  value_item (mkEnv RSlice TEof cfD) (mkSt ([49; 120; 122] ++ [121]) 0 true DEPTH0)
    = Ok (VNum (NPos 1), mkSt [120; 122; 121] 1 true DEPTH0)
  /\ hist RSlice 2 [49; 120; 122]
    = [(Some (IErr TrailingCharacters 2), 1%nat); (Some (IErr ExpectedSomeValue 2), 1%nat)].
Proof. vm_compute. split; reflexivity. Qed.

Lemma TrailingCharacters_not_eofish : ~ eofish TrailingCharacters.
Proof. intros [H | H]; discriminate H. Qed.

Print Assumptions value_item_dich.
Print Assumptions ignored_item_dich.
Print Assumptions value_item_prefix_strong.
Print Assumptions value_item_prefix.
Print Assumptions ignored_item_prefix.
Print Assumptions value_item_syntax_stable.
Print Assumptions ignored_item_syntax_stable.
Print Assumptions stream_truncated_gen.
Print Assumptions stream_truncated.
Print Assumptions stream_syntax_stable.
Print Assumptions stream_truncated_value_gen.
Print Assumptions stream_truncated_value.
Print Assumptions stream_truncated_ignored.
Print Assumptions stream_value_syntax_stable.
Print Assumptions stream_truncated_render.
