(* Proofs/FloatUlp5b.v — property C08: SUBNORMAL results of the default float path, and the unconditional
   "within 5 ulp" statement.

   For v = sig * 10^e < 2^-1022 the spacing of doubles is q = 2^-1074 = ulp(v) and eta = q/2.  Budget (absolute, in eta):
     band T- (-308 <= e < 0):   (3 + 2^-40) u v  [sig, 10^-e, quotient: relative]  + eta [final rounding, absolute]
                                <  (4 + 2^-40) eta                       since u v < u 2^-1022 = eta
     band U  (-616 <= e < -308): sig 1, 1e308 1/10, first quotient 1 (relative) and eta (absolute, it may be subnormal,
                                but it is then divided by 10^j >= 10: eta/10), 10^j 1, final rounding eta
                                <  (3.1 + 2^-40 + 1/10 + 1 + small) eta < 4.3 eta
     e <= -617:                 result 0, v < 2^-1076.
   Adding the half-spacing |v - RNE(v)| <= eta gives |f - RNE(v)| < 6 eta = 3 q; both sides are multiples of q, hence
     |f - RNE(v)| <= 2 q = 2 ulp(v). *)
From Coq Require Import ZArith NArith Reals Lia Lra List Bool Psatz.
From Flocq Require Import Core BinarySingleNaN Relative.
From SJ Require Import Base.Bytes Base.FloatB Gen.Tables Model.Read Model.Num.
From SJ Require Import Proofs.FloatDefault Proofs.FloatUlp Proofs.FloatUlp5.
Open Scope Z_scope.

Definition q1074 : R := bpow radix2 (-1074).

Lemma q_eta : q1074 = (2 * eta)%R.
Proof. unfold q1074. rewrite <- half_emin_eta. field. Qed.

(* ------------------------------------------------------------------ *)
(** * A. doubles are multiples of 2^-1074 *)

Lemma format_q (x : R) : generic_format radix2 fexp64 x -> exists n : Z, x = (IZR n * q1074)%R.
Proof.
  intros H. unfold generic_format in H.
  set (m := Ztrunc (scaled_mantissa radix2 fexp64 x)) in H. set (c := cexp radix2 fexp64 x) in H.
  assert (Hc : -1074 <= c) by (unfold c, cexp, FLT_exp; lia).
  exists (m * 2 ^ (c + 1074)). rewrite H. unfold F2R, q1074. cbn [Fnum Fexp].
  rewrite mult_IZR, <- bpow_IZR by lia. rewrite Rmult_assoc, <- bpow_plus.
  f_equal. f_equal. lia.
Qed.

Lemma format_gap (x y : R) : generic_format radix2 fexp64 x -> generic_format radix2 fexp64 y ->
  (Rabs (x - y) < 3 * q1074)%R -> (Rabs (x - y) <= 2 * q1074)%R.
Proof.
  intros Hx Hy Hlt.
  destruct (format_q x Hx) as (nx & ->). destruct (format_q y Hy) as (ny & ->).
  assert (Hq : (0 < q1074)%R) by apply bpow_gt_0.
  replace (IZR nx * q1074 - IZR ny * q1074)%R with (IZR (nx - ny) * q1074)%R in * by (rewrite minus_IZR; ring).
  rewrite Rabs_mult, (Rabs_pos_eq q1074), <- abs_IZR in * by lra.
  apply Rmult_lt_reg_r in Hlt; [|exact Hq]. apply lt_IZR in Hlt.
  apply Rmult_le_compat_r; [lra|]. apply IZR_le. lia.
Qed.

(* ------------------------------------------------------------------ *)
(** * B. absolute-error propagation through the second division *)

Lemma abs_chain (s f1 w ip2 k2 kp et : R) : (0 <= s)%R -> (0 <= w)%R -> (0 <= k2)%R -> (0 <= kp)%R -> (0 <= et)%R ->
  (Rabs (f1 - s) <= k2 * s + et)%R -> (Rabs (ip2 - w) <= kp * w)%R ->
  (Rabs (f1 * ip2 - s * w) <= (k2 * (1 + kp) + kp) * (s * w) + et * (1 + kp) * w)%R.
Proof.
  intros Hs Hw Hk2 Hkp Het H1 H2.
  assert (Hip : (Rabs ip2 <= (1 + kp) * w)%R).
  { replace ip2 with ((ip2 - w) + w)%R by ring. apply Rle_trans with (1 := Rabs_triang _ _).
    rewrite (Rabs_pos_eq w) by exact Hw. lra. }
  replace (f1 * ip2 - s * w)%R with ((f1 - s) * ip2 + s * (ip2 - w))%R by ring.
  apply Rle_trans with (1 := Rabs_triang _ _). rewrite !Rabs_mult, (Rabs_pos_eq s) by exact Hs.
  assert (Ha : (Rabs (f1 - s) * Rabs ip2 <= (k2 * s + et) * ((1 + kp) * w))%R).
  { apply Rmult_le_compat; [apply Rabs_pos|apply Rabs_pos|exact H1|exact Hip]. }
  assert (Hb : (s * Rabs (ip2 - w) <= s * (kp * w))%R) by (apply Rmult_le_compat_l; assumption).
  replace ((k2 * (1 + kp) + kp) * (s * w) + et * (1 + kp) * w)%R
    with ((k2 * s + et) * ((1 + kp) * w) + s * (kp * w))%R by ring.
  lra.
Qed.

(* ------------------------------------------------------------------ *)
(** * C. the three cases *)

Lemma T_eta : (u * bpow radix2 (-1022) = eta)%R.
Proof. symmetry. exact eta_u. Qed.

Lemma RNE64_err_sub (v : R) : (0 <= v < bpow radix2 (-1022))%R -> (Rabs (RNE64 v - v) <= eta)%R.
Proof.
  intros Hv. apply RNE64_err_small. rewrite Rabs_pos_eq by lra.
  apply Rlt_trans with (1 := proj2 Hv). apply bpow_lt. lia.
Qed.

(* band T- *)
Lemma sub_Tneg : forall sig e f, (0 < sig)%N -> (sig <= u64_max)%N -> -308 <= e < 0 ->
  f64_loop 4 (b64_of_Z (Z.of_N sig)) e = Ok (Some f) ->
  (exact_val sig e < bpow radix2 (-1022))%R ->
  (Rabs (B2R f - RNE64 (exact_val sig e)) < 3 * q1074)%R.
Proof.
  intros sig e f Hpos Hsig He Hl Hsub.
  pose proof (C08_err_Tneg_abs sig e f Hpos Hsig He Hl) as Ha.
  pose proof (exact_val_pos sig e Hpos) as Hv.
  set (v := exact_val sig e) in *.
  pose proof (RNE64_err_sub v ltac:(lra)) as Hr.
  replace (B2R f - RNE64 v)%R with ((B2R f - v) + - (RNE64 v - v))%R by ring.
  apply Rle_lt_trans with (1 := Rabs_triang _ _). rewrite Rabs_Ropp, q_eta.
  pose proof T_eta as HT. set (T := bpow radix2 (-1022)) in *.
  assert (Heta : (0 < eta)%R) by apply bpow_gt_0.
  unfold K3 in Ha. rewrite u_val in *. lra.
Qed.

(* band U *)
Lemma sub_U : forall sig e f, (0 < sig)%N -> (sig <= u64_max)%N -> -616 <= e < -308 ->
  f64_loop 4 (b64_of_Z (Z.of_N sig)) e = Ok (Some f) ->
  (exact_val sig e < bpow radix2 (-1022))%R ->
  (Rabs (B2R f - RNE64 (exact_val sig e)) < 3 * q1074)%R.
Proof.
  intros sig e f Hpos Hsig He Hl Hsub.
  destruct (loop_band_U sig e Hsig He) as (f' & Hl' & HR). rewrite Hl in Hl'. injection Hl' as <-.
  pose proof (exact_val_pos sig e Hpos) as Hvpos.
  rewrite HR. rewrite exact_val_neg_e in * by lia.
  set (j := - e - 308) in *.
  assert (Hz : 1 <= Z.of_N sig) by lia.
  pose proof (pow10_ge1 308 ltac:(lia)) as Hp1.
  assert (Hp2 : 10 <= 10 ^ j). { change 10 with (10 ^ 1) at 1. apply Z.pow_le_mono_r; lia. }
  assert (Hp2' : 1 <= 10 ^ j) by lia.
  assert (HA : (1 <= IZR (Z.of_N sig))%R) by (apply IZR_le; exact Hz).
  assert (HB1 : (1 <= IZR (10 ^ 308))%R) by (apply IZR_le; exact Hp1).
  assert (HB2 : (10 <= IZR (10 ^ j))%R) by (apply IZR_le; exact Hp2).
  assert (Hsplit : IZR (10 ^ (- e)) = (IZR (10 ^ 308) * IZR (10 ^ j))%R).
  { replace (- e) with (308 + j) by lia. rewrite Z.pow_add_r by lia. apply mult_IZR. }
  set (A := IZR (Z.of_N sig)) in *. set (B1 := IZR (10 ^ 308)) in *. set (B2 := IZR (10 ^ j)) in *.
  assert (Hveq : (A / IZR (10 ^ (- e)) = A / B1 * / B2)%R) by (rewrite Hsplit; field; lra).
  rewrite Hveq in *. set (s := (A / B1)%R) in *. set (w := (/ B2)%R) in *.
  assert (Hs : (0 < s)%R) by (apply Rdiv_lt_0_compat; lra).
  assert (Hw : (0 < w <= / 10)%R).
  { unfold w. split; [apply Rinv_0_lt_compat; lra|apply Rinv_le_contravar; lra]. }
  assert (Hu : (0 <= u < 1)%R) by (rewrite u_val; lra).
  assert (Hd : (0 <= d308 < 1)%R) by (unfold d308; rewrite u_val; lra).
  assert (Heta : (0 < eta)%R) by apply bpow_gt_0.
  (* first quotient and its rounding: relative kq2 u, plus eta *)
  assert (HA0 : (0 <= A)%R) by lra. assert (HB10 : (0 < B1)%R) by lra. assert (HB20 : (0 < B2)%R) by lra.
  pose proof (near_div _ _ _ _ _ _ HA0 HB10 (proj1 Hu) Hd (near_RNE_int _ Hz) RNE_P308_near) as Hy1.
  fold A B1 s in Hy1. fold (kq1 u) in Hy1.
  assert (Hk1 : (0 <= kq1 u <= / 1000000)%R) by (unfold kq1, d308; rewrite u_val; lra).
  pose proof (near_bounds _ _ _ Hy1) as [Hy1lo Hy1hi]. unfold near in Hy1.
  set (y1 := (RNE64 A / RNE64 B1)%R) in *.
  assert (Hy1pos : (0 <= y1)%R) by nra.
  pose proof (RNE64_abs_err y1) as Hr1. rewrite (Rabs_pos_eq y1) in Hr1 by exact Hy1pos.
  set (f1 := RNE64 y1) in *.
  assert (Hf1 : (Rabs (f1 - s) <= kq2 u * s + eta)%R).
  { replace (f1 - s)%R with ((f1 - y1) + (y1 - s))%R by ring.
    apply Rle_trans with (1 := Rabs_triang _ _). unfold kq2.
    assert (u * y1 <= u * ((1 + kq1 u) * s))%R by (apply Rmult_le_compat_l; lra). lra. }
  assert (Hk2 : (0 <= kq2 u <= / 1000000)%R) by (unfold kq2, kq1, d308; rewrite u_val; lra).
  (* the reciprocal of the second divisor *)
  assert (Hone : near 0 1 1) by (unfold near; unfold Rminus; rewrite Rplus_opp_r, Rabs_R0; lra).
  pose proof (near_div 0 u 1 _ 1 _ Rle_0_1 HB20 (Rle_refl 0) Hu Hone (near_RNE_int _ Hp2')) as Hip.
  fold B2 in Hip. unfold Rdiv in Hip at 2 3. rewrite !Rmult_1_l in Hip. fold w in Hip. unfold near in Hip.
  set (kp := ((0 + u) / (1 - u))%R) in *.
  assert (Hkp : (0 <= kp <= / 1000000)%R) by (unfold kp; rewrite u_val; lra).
  pose proof (abs_chain s f1 w (/ RNE64 B2) (kq2 u) kp eta (Rlt_le _ _ Hs) (Rlt_le _ _ (proj1 Hw)) (proj1 Hk2) (proj1 Hkp)
                        (Rlt_le _ _ Heta) Hf1 Hip) as Hy2.
  fold (f1 / RNE64 B2)%R in Hy2.
  set (y2 := (f1 / RNE64 B2)%R) in *. set (v := (s * w)%R) in *.
  (* numbers *)
  pose proof T_eta as HT. set (T := bpow radix2 (-1022)) in *.
  assert (Hc : (kq2 u * (1 + kp) + kp <= (3 + / 5) * u)%R) by (unfold kq2, kq1, kp, d308; rewrite u_val; lra).
  assert (Hcv : ((kq2 u * (1 + kp) + kp) * v <= (3 + / 5) * u * v)%R) by (apply Rmult_le_compat_r; lra).
  assert (Hew : (eta * (1 + kp) * w <= eta * (1 + kp) * / 10)%R).
  { apply Rmult_le_compat_l; [apply Rmult_le_pos; lra|lra]. }
  assert (Hek : (eta * (1 + kp) <= eta * (1 + / 1000000))%R) by (apply Rmult_le_compat_l; lra).
  assert (Huv : (u * v < eta)%R). { rewrite <- HT. apply Rmult_lt_compat_l; [rewrite u_val; lra|exact Hsub]. }
  assert (Hy2v : (Rabs (y2 - v) <= (3 + / 5) * eta + eta * (1 + / 1000000) * / 10)%R) by lra.
  (* the final rounding is in the 2^-1074 grid *)
  assert (Hy2small : (Rabs y2 < bpow radix2 (-1021))%R).
  { replace y2 with ((y2 - v) + v)%R by ring. apply Rle_lt_trans with (1 := Rabs_triang _ _).
    rewrite (Rabs_pos_eq v) by lra.
    assert (HT2 : (bpow radix2 (-1021) = 2 * T)%R).
    { unfold T. change (-1021) with (1 + -1022). rewrite bpow_plus. reflexivity. }
    rewrite HT2. assert (eta <= / 1000000 * T)%R by (rewrite <- HT, u_val; unfold T; pose proof (bpow_gt_0 radix2 (-1022)); lra).
    lra. }
  pose proof (RNE64_err_small y2 Hy2small) as Hrf.
  assert (Hv01 : (0 <= v < T)%R) by lra.
  pose proof (RNE64_err_sub v Hv01) as Hrv.
  replace (RNE64 y2 - RNE64 v)%R with ((RNE64 y2 - y2) + (y2 - v) + - (RNE64 v - v))%R by ring.
  apply Rle_lt_trans with (1 := Rabs_triang _ _). rewrite Rabs_Ropp.
  apply Rle_lt_trans with (Rabs (RNE64 y2 - y2) + Rabs (y2 - v) + Rabs (RNE64 v - v))%R.
  { apply Rplus_le_compat_r. apply Rabs_triang. }
  rewrite q_eta. lra.
Qed.

Lemma pow10_617_big : (bpow radix2 1140 <= IZR (10 ^ 617))%R.
Proof. rewrite bpow_IZR by lia. apply IZR_le. apply Z.leb_le. vm_compute. reflexivity. Qed.

(* e <= -617: both the result and the correctly rounded value are 0 *)
Lemma sub_deep : forall sig e f, (0 < sig)%N -> (sig <= u64_max)%N -> e <= -617 ->
  f64_loop 4 (b64_of_Z (Z.of_N sig)) e = Ok (Some f) ->
  B2R f = 0%R /\ RNE64 (exact_val sig e) = 0%R.
Proof.
  intros sig e f Hpos Hsig He Hl.
  destruct (f64_loop_underflow_zero_617 sig e Hsig He) as (z & Hz & Hz0). rewrite Hl in Hz. injection Hz as <-.
  split; [exact Hz0|]. apply RNE64_tiny.
  pose proof (exact_val_pos sig e Hpos) as Hv. rewrite Rabs_pos_eq by lra.
  rewrite exact_val_neg_e in * by lia.
  assert (Hs64 : (IZR (Z.of_N sig) <= bpow radix2 64)%R).
  { rewrite bpow_IZR by lia. apply IZR_le. change u64_max with (Z.to_N (2 ^ 64 - 1)) in Hsig. lia. }
  assert (Hd : (bpow radix2 1140 <= IZR (10 ^ (- e)))%R).
  { apply Rle_trans with (1 := pow10_617_big). apply IZR_le. apply Z.pow_le_mono_r; lia. }
  pose proof (bpow_gt_0 radix2 1140) as H40. pose proof (bpow_gt_0 radix2 64) as H64.
  assert (Hq : (IZR (Z.of_N sig) / IZR (10 ^ (- e)) <= bpow radix2 64 * / bpow radix2 1140)%R).
  { unfold Rdiv. apply Rmult_le_compat; [apply IZR_le; lia|left; apply Rinv_0_lt_compat; lra|exact Hs64|].
    apply Rinv_le_contravar; lra. }
  rewrite <- bpow_opp, <- bpow_plus in Hq.
  apply Rle_lt_trans with (1 := Hq). apply bpow_lt. lia.
Qed.

(* ------------------------------------------------------------------ *)
(** * D. subnormal results: within 2 units of 2^-1074 of the correctly rounded value *)

Theorem C08_subnormal_2 : forall sig e f, (0 < sig)%N -> (sig <= u64_max)%N ->
  f64_loop 4 (b64_of_Z (Z.of_N sig)) e = Ok (Some f) ->
  (exact_val sig e < bpow radix2 (-1022))%R ->
  (Rabs (B2R f - RNE64 (exact_val sig e)) <= 2 * bpow radix2 (-1074))%R.
Proof.
  intros sig e f Hpos Hsig Hl Hsub. fold q1074.
  assert (Hq : (0 < q1074)%R) by apply bpow_gt_0.
  assert (Hff : generic_format radix2 fexp64 (B2R f)) by (rewrite <- fexp64_conv; apply generic_format_B2R).
  destruct (Z_le_gt_dec e (-617)) as [H1|H1].
  { destruct (sub_deep sig e f Hpos Hsig H1 Hl) as (-> & ->). unfold Rminus; rewrite Rplus_opp_r, Rabs_R0. lra. }
  apply format_gap; [exact Hff|apply RNE64_format|].
  destruct (Z_lt_le_dec e (-308)) as [H2|H2]; [apply sub_U; try assumption; lia|].
  destruct (Z_lt_le_dec e 0) as [H3|H3]; [apply sub_Tneg; try assumption; lia|].
  exfalso. rewrite exact_val_nonneg_e in Hsub by lia.
  pose proof (pow10_ge1 e H3) as Hp. assert (HB : (1 <= IZR (10 ^ e))%R) by (apply IZR_le; exact Hp).
  assert (HA : (1 <= IZR (Z.of_N sig))%R) by (apply IZR_le; lia).
  assert (bpow radix2 (-1022) < 1)%R by (change 1%R with (bpow radix2 0); apply bpow_lt; lia). nra.
Qed.

(* the same in ulps of v *)
Lemma ulp_sub (v : R) : (0 <= v < bpow radix2 (-1022))%R -> ulp radix2 fexp64 v = bpow radix2 (-1074).
Proof.
  intros Hv. apply (ulp_FLT_small radix2 (-1074) 53). rewrite Rabs_pos_eq by lra.
  apply Rlt_trans with (1 := proj2 Hv). apply bpow_lt. lia.
Qed.

(* ------------------------------------------------------------------ *)
(** * E. the unconditional clause of C08: every returned float is within 5 ulp of the correctly rounded value *)

Theorem C08_within_5ulp : forall sig e f, (0 < sig)%N -> (sig <= u64_max)%N ->
  f64_loop 4 (b64_of_Z (Z.of_N sig)) e = Ok (Some f) ->
  (Rabs (B2R f - RNE64 (exact_val sig e)) <= 5 * ulp radix2 fexp64 (exact_val sig e))%R.
Proof.
  intros sig e f Hpos Hsig Hl.
  destruct (Rle_or_lt (bpow radix2 (-1022)) (exact_val sig e)) as [Hn|Hs].
  - apply (C08_ulp_5_normal sig e f Hpos Hsig Hl Hn).
  - pose proof (exact_val_pos sig e Hpos) as Hv.
    rewrite ulp_sub by lra. apply Rle_trans with (1 := C08_subnormal_2 sig e f Hpos Hsig Hl Hs).
    pose proof (bpow_gt_0 radix2 (-1074)). lra.
Qed.

(* the sharper constants, all ranges *)
Theorem C08_ulp_all : forall sig e f, (0 < sig)%N -> (sig <= u64_max)%N ->
  f64_loop 4 (b64_of_Z (Z.of_N sig)) e = Ok (Some f) ->
  let v := exact_val sig e in
  let c := if (-308 <=? e) then (3 + / 2 + / 1099511627776)%R else (3 + / 2 + / 10 + / 1099511627776)%R in
  (Rabs (B2R f - RNE64 v) <= c * ulp radix2 fexp64 v)%R.
Proof.
  intros sig e f Hpos Hsig Hl v c.
  assert (Hc : (3 <= c)%R) by (unfold c; destruct (-308 <=? e); lra).
  destruct (Rle_or_lt (bpow radix2 (-1022)) (exact_val sig e)) as [Hn|Hs].
  - destruct (C08_ulp_5_normal sig e f Hpos Hsig Hl Hn) as (_ & H & _). fold v in H.
    apply Rle_trans with (1 := H). apply Rmult_le_compat_r; [apply ulp_ge_0|].
    unfold c. destruct (-308 <=? e); lra.
  - pose proof (exact_val_pos sig e Hpos) as Hv. unfold v.
    rewrite ulp_sub by lra. apply Rle_trans with (1 := C08_subnormal_2 sig e f Hpos Hsig Hl Hs).
    pose proof (bpow_gt_0 radix2 (-1074)). nra.
Qed.

Print Assumptions C08_subnormal_2.
Print Assumptions C08_within_5ulp.
Print Assumptions C08_ulp_all.
