(* Proofs/Pointer.v — C18, lookups: the model of Value::pointer / pointer_mut / take / get / Index / IndexMut
   (Model/Pointer.v) against the RFC 6901 reference evaluator (Spec/Rfc6901.v). *)
From SJ Require Import Base.Bytes Base.FloatB Model.Value Model.Pointer Spec.Rfc6901.
Require Import Lia ZifyBool ZifyNat ZifyN.
Open Scope N_scope.

(* ====================================================================== 1. str::replace with a two-byte pattern *)
Lemma replace2_nil : forall a b to, replace [a; b] to [] = [].
Proof. reflexivity. Qed.

Lemma replace2_one : forall a b to c, replace [a; b] to [c] = [c].
Proof.
  intros a b to c. unfold replace. cbn [replace_go is_prefix].
  rewrite Bool.andb_false_r. reflexivity.
Qed.

Lemma replace2_hit : forall a b to r, replace [a; b] to (a :: b :: r) = to ++ replace [a; b] to r.
Proof.
  intros a b to r. unfold replace. cbn [replace_go is_prefix length Nat.sub].
  rewrite !N.eqb_refl. cbn [andb]. reflexivity.
Qed.

Lemma replace2_miss : forall a b to c d r,
  (c =? a) && (d =? b) = false ->
  replace [a; b] to (c :: d :: r) = c :: replace [a; b] to (d :: r).
Proof.
  intros a b to c d r Hm. unfold replace. cbn [replace_go is_prefix].
  rewrite Bool.andb_true_r. rewrite (N.eqb_sym a c), (N.eqb_sym b d), Hm. reflexivity.
Qed.

(* a byte that is not the first pattern byte is copied *)
Lemma replace2_skip : forall a b to c s, c <> a -> replace [a; b] to (c :: s) = c :: replace [a; b] to s.
Proof.
  intros a b to c s Hc. destruct s as [|d r].
  - rewrite replace2_one. reflexivity.
  - apply replace2_miss. apply N.eqb_neq in Hc. rewrite Hc. reflexivity.
Qed.

Definition R1 := replace pat_t1 [47].
Definition R0 := replace pat_t0 [126].

Lemma unescape_token_R : forall t, unescape_token t = R0 (R1 t).
Proof. reflexivity. Qed.

(* ---- equations of the reference unescape (the constant patterns of its definition, spelled out) *)
Lemma unescape_other : forall c r, c <> 126 -> unescape (c :: r) = c :: unescape r.
Proof.
  intros c r Hc.
  destruct c as [|p]; [reflexivity|].
  do 7 (destruct p as [p|p|]; try reflexivity).
  exfalso. apply Hc. reflexivity.
Qed.

Lemma unescape_t1 : forall r, unescape (126 :: 49 :: r) = 47 :: unescape r.
Proof. reflexivity. Qed.
Lemma unescape_t0 : forall r, unescape (126 :: 48 :: r) = 126 :: unescape r.
Proof. reflexivity. Qed.
Lemma unescape_t_end : unescape [126] = [126].
Proof. reflexivity. Qed.
Lemma unescape_t_other : forall d r, d <> 48 -> d <> 49 -> unescape (126 :: d :: r) = 126 :: unescape (d :: r).
Proof.
  intros d r H0 H1.
  destruct d as [|p]; [reflexivity|].
  do 6 (destruct p as [p|p|]; try reflexivity).
  - exfalso. apply H1. reflexivity.
  - exfalso. apply H0. reflexivity.
Qed.

(* two-step list induction *)
Lemma list_ind2 : forall (A : Type) (P : list A -> Prop),
  P [] -> (forall c, P [c]) -> (forall c d r, P r -> P (d :: r) -> P (c :: d :: r)) -> forall l, P l.
Proof.
  intros A P H0 H1 H2 l.
  assert (H : P l /\ forall x, P (x :: l)).
  { induction l as [|y l IH].
    - split; [exact H0 | exact H1].
    - destruct IH as [IHa IHb]. split; [apply IHb|]. intros x. apply H2; [exact IHa | apply IHb]. }
  exact (proj1 H).
Qed.

(* the first pass never produces a '0' right after a surviving '~' that was not followed by '0' before *)
Lemma R1_head_not_0 : forall d r y Y, d <> 48 -> R1 (d :: r) = y :: Y -> y <> 48.
Proof.
  intros d r y Y Hd HR. unfold R1, pat_t1 in HR.
  destruct r as [|e r'].
  - rewrite replace2_one in HR. injection HR as Hy _. subst y. exact Hd.
  - destruct ((d =? 126) && (e =? 49)) eqn:Hm.
    + apply Bool.andb_true_iff in Hm. destruct Hm as [Hd1 He1].
      apply N.eqb_eq in Hd1. apply N.eqb_eq in He1. subst d e.
      rewrite replace2_hit in HR. cbn [app] in HR. injection HR as Hy _. subst y. discriminate.
    + rewrite replace2_miss in HR by exact Hm. injection HR as Hy _. subst y. exact Hd.
Qed.

Lemma R0_tilde_keep : forall Y, (forall y Y', Y = y :: Y' -> y <> 48) -> R0 (126 :: Y) = 126 :: R0 Y.
Proof.
  intros Y HY. unfold R0, pat_t0. destruct Y as [|y Y'].
  - rewrite replace2_one. reflexivity.
  - apply replace2_miss. specialize (HY y Y' eq_refl). apply N.eqb_neq in HY. rewrite HY.
    apply Bool.andb_false_r.
Qed.

(* KEY LEMMA: replace("~1","/") then replace("~0","~") is the single left-to-right RFC 6901 unescape *)
Theorem replace_order : forall t, replace pat_t0 [126] (replace pat_t1 [47] t) = unescape t.
Proof.
  intros t. change (R0 (R1 t) = unescape t).
  induction t as [| c | c d r IHr IHdr] using list_ind2.
  - reflexivity.
  - unfold R1, R0, pat_t1, pat_t0. rewrite !replace2_one.
    destruct (N.eq_dec c 126) as [Hc|Hc]; [subst c; reflexivity | rewrite unescape_other by exact Hc; reflexivity].
  - destruct (N.eq_dec c 126) as [Hc|Hc].
    + subst c. destruct (N.eq_dec d 49) as [Hd1|Hd1]; [|destruct (N.eq_dec d 48) as [Hd0|Hd0]].
      * subst d. rewrite unescape_t1. unfold R1, pat_t1. rewrite replace2_hit. cbn [app].
        unfold R0, pat_t0. rewrite replace2_skip by discriminate. f_equal. exact IHr.
      * subst d. rewrite unescape_t0. unfold R1, pat_t1.
        rewrite replace2_miss by reflexivity. rewrite replace2_skip by discriminate.
        unfold R0, pat_t0. rewrite replace2_hit. cbn [app]. f_equal. exact IHr.
      * rewrite unescape_t_other by assumption.
        unfold R1 at 1. unfold pat_t1. rewrite replace2_miss.
        2:{ apply N.eqb_neq in Hd1. rewrite Hd1. apply Bool.andb_false_r. }
        fold pat_t1. fold (R1 (d :: r)).
        rewrite R0_tilde_keep.
        -- f_equal. exact IHdr.
        -- intros y Y' HY. eapply R1_head_not_0; [exact Hd0 | exact HY].
    + rewrite unescape_other by exact Hc.
      unfold R1 at 1. unfold pat_t1. rewrite replace2_skip by exact Hc.
      fold pat_t1. fold (R1 (d :: r)).
      unfold R0 at 1. unfold pat_t0. rewrite replace2_skip by exact Hc.
      fold pat_t0. fold (R0 (R1 (d :: r))). f_equal. exact IHdr.
Qed.

(* the classic trap: "~01" is "~1", not "/" *)
Example replace_order_trap : unescape_token [126; 48; 49] = [126; 49].
Proof. reflexivity. Qed.

(* ====================================================================== 2. split('/').skip(1) = the reference tokens *)
Lemma split_nonempty : forall sep s, split sep s <> [].
Proof.
  intros sep s. destruct s as [|c r]; cbn [split]; [discriminate|].
  destruct (c =? sep); [discriminate|]. destruct (split sep r); discriminate.
Qed.

Lemma tokens_from_split : forall r cur,
  tokens_from cur r = (rev cur ++ hd [] (split 47 r)) :: tl (split 47 r).
Proof.
  induction r as [|c r IH]; intros cur.
  - cbn [tokens_from split hd tl]. rewrite app_nil_r. reflexivity.
  - cbn [tokens_from split]. destruct (c =? 47) eqn:Hc.
    + cbn [hd tl]. rewrite app_nil_r. f_equal. rewrite IH. cbn [rev app].
      pose proof (split_nonempty 47 r) as Hne. destruct (split 47 r) as [|t ts]; [contradiction|reflexivity].
    + rewrite IH. pose proof (split_nonempty 47 r) as Hne.
      destruct (split 47 r) as [|t ts]; [contradiction|].
      cbn [hd tl rev]. rewrite <- app_assoc. reflexivity.
Qed.

Lemma tokens_split : forall r, tokens_from [] r = split 47 r.
Proof.
  intros r. rewrite tokens_from_split. cbn [rev app].
  pose proof (split_nonempty 47 r) as Hne. destruct (split 47 r); [contradiction|reflexivity].
Qed.

Lemma ptr_tokens_slash : forall r, ptr_tokens (47 :: r) = map unescape_token (tokens_from [] r).
Proof.
  intros r. unfold ptr_tokens. cbn [split]. rewrite N.eqb_refl. cbn [skipn]. rewrite tokens_split. reflexivity.
Qed.

(* ====================================================================== 3. parse_index = the array-index production (below 2^64) *)
Definition dv (s : bytes) (acc : N) : N := fold_left (fun a c => a * 10 + (c - 48)) s acc.

Lemma dv_ge : forall s acc, acc <= dv s acc.
Proof.
  induction s as [|c r IH]; intros acc; unfold dv in *; cbn [fold_left]; [lia|].
  specialize (IH (acc * 10 + (c - 48))). lia.
Qed.

Lemma digits_value_spec : forall s acc, acc <= usize_max ->
  digits_value s acc = if forallb is_digit s && (dv s acc <=? usize_max) then Some (dv s acc) else None.
Proof.
  induction s as [|c r IH]; intros acc Hacc.
  - cbn [digits_value forallb andb]. unfold dv. cbn [fold_left].
    apply N.leb_le in Hacc. rewrite Hacc. reflexivity.
  - cbn [digits_value forallb]. destruct (is_digit c) eqn:Hd; cbn [andb]; [|reflexivity].
    unfold digit_val. change (dv (c :: r) acc) with (dv r (acc * 10 + (c - 48))).
    destruct (acc * 10 + (c - 48) <=? usize_max) eqn:Hle.
    + apply IH. apply N.leb_le. exact Hle.
    + pose proof (dv_ge r (acc * 10 + (c - 48))) as Hge.
      apply N.leb_gt in Hle.
      assert (Hgt : dv r (acc * 10 + (c - 48)) <=? usize_max = false) by (apply N.leb_gt; lia).
      rewrite Hgt. rewrite Bool.andb_false_r. reflexivity.
Qed.

Lemma decimal_value_dv : forall s, decimal_value s = dv s 0.
Proof. reflexivity. Qed.

Lemma parse_index_spec : forall tok,
  parse_index tok = match array_index tok with
                    | Some i => if i <=? usize_max then Some i else None
                    | None => None
                    end.
Proof.
  intros tok. destruct tok as [|c r]; [reflexivity|].
  unfold parse_index, array_index.
  destruct (c =? 43) eqn:H43.
  { apply N.eqb_eq in H43. subst c. reflexivity. }
  destruct (c =? 48) eqn:H48.
  { apply N.eqb_eq in H48. subst c. destruct r as [|d r']; reflexivity. }
  cbn [andb]. unfold usize_from_str. rewrite H43.
  rewrite digits_value_spec by (unfold usize_max, u64_max; lia).
  cbn [forallb].
  assert (Hd : is_digit c = is_digit19 c).
  { unfold is_digit, is_digit19. apply N.eqb_neq in H48. lia. }
  rewrite Hd. rewrite decimal_value_dv.
  destruct (is_digit19 c && forallb is_digit r); reflexivity.
Qed.

(* ====================================================================== 4. slice::get and Map::get *)
Lemma get_N_spec : forall (A : Type) (l : list A) i,
  get_N l i = if i <? N.of_nat (length l) then nth_error l (N.to_nat i) else None.
Proof.
  intros A l. induction l as [|x r IH]; intros i.
  - cbn [get_N length]. destruct (i <? N.of_nat 0); [|reflexivity].
    destruct (N.to_nat i); reflexivity.
  - cbn [get_N]. destruct (i =? 0) eqn:Hi.
    + apply N.eqb_eq in Hi. subst i. reflexivity.
    + apply N.eqb_neq in Hi. rewrite IH.
      assert (Hn : N.to_nat i = S (N.to_nat (i - 1))) by lia.
      rewrite Hn. cbn [nth_error length].
      destruct (i - 1 <? N.of_nat (length r)) eqn:H1; destruct (i <? N.of_nat (S (length r))) eqn:H2; try reflexivity; lia.
Qed.

Lemma beq_bytes_sym : forall a b, beq_bytes a b = beq_bytes b a.
Proof.
  induction a as [|x a IH]; intros b; destruct b as [|y b]; try reflexivity.
  cbn [beq_bytes]. rewrite (N.eqb_sym x y), IH. reflexivity.
Qed.

Lemma beq_bytes_eq : forall a b, beq_bytes a b = true <-> a = b.
Proof.
  induction a as [|x a IH]; intros b; destruct b as [|y b]; cbn [beq_bytes]; split; intros H; try reflexivity; try discriminate.
  - apply Bool.andb_true_iff in H. destruct H as [Hx Ha]. apply N.eqb_eq in Hx. apply IH in Ha. subst. reflexivity.
  - injection H as Hx Ha. subst. rewrite N.eqb_refl. cbn [andb]. apply IH. reflexivity.
Qed.

Lemma assoc_get_member : forall k m, assoc_get k m = member k m.
Proof.
  intros k m. unfold member. induction m as [|[k' v] m IH]; [reflexivity|].
  cbn [assoc_get find fst]. rewrite (beq_bytes_sym k' k). destruct (beq_bytes k k'); [reflexivity|exact IH].
Qed.

(* ====================================================================== 5. Value::pointer = rfc6901_eval *)
(* every array of the tree has at most 2^64 elements (a Vec cannot be longer: its length is a usize) *)
Fixpoint arrays_ok (v : value) : Prop :=
  match v with
  | VArr l => N.of_nat (length l) <= usize_max + 1 /\
              (fix all (l : list value) : Prop := match l with [] => True | x :: r => arrays_ok x /\ all r end) l
  | VObj m => (fix all (m : list (bytes * value)) : Prop := match m with [] => True | kv :: r => arrays_ok (snd kv) /\ all r end) m
  | _ => True
  end.

Lemma arrays_ok_arr : forall l x, arrays_ok (VArr l) -> In x l -> arrays_ok x.
Proof.
  intros l x [_ Hall] Hin. induction l as [|y r IH]; [contradiction|].
  destruct Hall as [Hy Hr]. destruct Hin as [He|Hin]; [subst; exact Hy | exact (IH Hr Hin)].
Qed.
Lemma arrays_ok_obj : forall m k x, arrays_ok (VObj m) -> In (k, x) m -> arrays_ok x.
Proof.
  intros m k x Hall Hin. cbn [arrays_ok] in Hall. induction m as [|y r IH]; [contradiction|].
  destruct Hall as [Hy Hr]. destruct Hin as [He|Hin]; [subst; exact Hy | exact (IH Hr Hin)].
Qed.

Lemma assoc_get_in : forall k m x, assoc_get k m = Some x -> exists k', In (k', x) m.
Proof.
  intros k m x. induction m as [|[k' v] m IH]; cbn [assoc_get]; [discriminate|].
  destruct (beq_bytes k k').
  - intros H. injection H as H. subst. exists k'. left. reflexivity.
  - intros H. destruct (IH H) as [k2 Hin]. exists k2. right. exact Hin.
Qed.

Lemma ptr_step_spec : forall target tok,
  (match target with VArr l => N.of_nat (length l) <= usize_max + 1 | _ => True end) ->
  ptr_step target tok = eval_token target tok.
Proof.
  intros target tok Hlen. destruct target as [| b | n | s | l | m]; try reflexivity.
  - cbn [ptr_step eval_token]. rewrite parse_index_spec.
    destruct (array_index tok) as [i|]; [|reflexivity].
    destruct (i <=? usize_max) eqn:Hi.
    + apply get_N_spec.
    + destruct (i <? N.of_nat (length l)) eqn:Hlt; [lia|reflexivity].
  - cbn [ptr_step eval_token]. apply assoc_get_member.
Qed.

Lemma ptr_step_ok : forall target tok c, arrays_ok target -> ptr_step target tok = Some c -> arrays_ok c.
Proof.
  intros target tok c Hok Hs. destruct target as [| b | n | s | l | m]; try discriminate.
  - cbn [ptr_step] in Hs. destruct (parse_index tok) as [x|]; [|discriminate].
    rewrite get_N_spec in Hs. destruct (x <? N.of_nat (length l)); [|discriminate].
    apply nth_error_In in Hs. eapply arrays_ok_arr; eassumption.
  - cbn [ptr_step] in Hs. apply assoc_get_in in Hs. destruct Hs as [k' Hin]. eapply arrays_ok_obj; eassumption.
Qed.

Lemma arrays_ok_len : forall target, arrays_ok target ->
  match target with VArr l => N.of_nat (length l) <= usize_max + 1 | _ => True end.
Proof. intros target H. destruct target; try exact I. exact (proj1 H). Qed.

Lemma try_fold_spec : forall toks v, arrays_ok v ->
  try_fold v (map unescape_token toks) = eval_tokens v toks.
Proof.
  induction toks as [|t ts IH]; intros v Hok; [reflexivity|].
  cbn [map try_fold eval_tokens].
  rewrite unescape_token_R. change (R0 (R1 t)) with (replace pat_t0 [126] (replace pat_t1 [47] t)).
  rewrite replace_order. rewrite ptr_step_spec by (apply arrays_ok_len; exact Hok).
  destruct (eval_token v (unescape t)) as [c|] eqn:Hc; [|reflexivity].
  apply IH. rewrite <- ptr_step_spec in Hc by (apply arrays_ok_len; exact Hok).
  eapply ptr_step_ok; eassumption.
Qed.

Theorem pointer_rfc6901 : forall v p, arrays_ok v -> pointer v p = rfc6901_eval v p.
Proof.
  intros v p Hok. unfold pointer, rfc6901_eval, reference_tokens.
  destruct p as [|c r]; [reflexivity|].
  destruct (c =? 47) eqn:Hc; [|reflexivity].
  apply N.eqb_eq in Hc. subst c. rewrite ptr_tokens_slash. apply try_fold_spec. exact Hok.
Qed.

(* ====================================================================== 6. pointer_mut addresses the same node *)
Lemma assoc_pos_get : forall k m,
  match assoc_pos k m with
  | Some i => option_map snd (nth_error m i) = assoc_get k m /\ assoc_get k m <> None
  | None => assoc_get k m = None
  end.
Proof.
  intros k m. induction m as [|[k' v] m IH]; [reflexivity|].
  cbn [assoc_pos assoc_get]. destruct (beq_bytes k k').
  - cbn [nth_error option_map snd]. split; [reflexivity|discriminate].
  - destruct (assoc_pos k m) as [i|]; cbn [option_map]; [|exact IH].
    cbn [nth_error]. exact IH.
Qed.

Lemma ptr_step_mut_spec : forall target tok,
  match ptr_step_mut target tok with
  | Some i => child target i = ptr_step target tok /\ ptr_step target tok <> None
  | None => ptr_step target tok = None
  end.
Proof.
  intros target tok. destruct target as [| b | n | s | l | m]; try reflexivity.
  - cbn [ptr_step_mut ptr_step child]. destruct (parse_index tok) as [x|]; [|reflexivity].
    rewrite get_N_spec. unfold in_bounds. destruct (x <? N.of_nat (length l)) eqn:Hx; [|reflexivity].
    split; [reflexivity|]. apply nth_error_Some. lia.
  - cbn [ptr_step_mut ptr_step child]. apply assoc_pos_get.
Qed.

Lemma try_fold_mut_spec : forall toks v,
  match try_fold_mut v toks with
  | Some path => node_at v path = try_fold v toks /\ try_fold v toks <> None
  | None => try_fold v toks = None
  end.
Proof.
  induction toks as [|t ts IH]; intros v.
  - cbn [try_fold_mut try_fold node_at]. split; [reflexivity|discriminate].
  - cbn [try_fold_mut try_fold]. pose proof (ptr_step_mut_spec v t) as Hs.
    destruct (ptr_step_mut v t) as [i|].
    + destruct Hs as [Hc Hne]. rewrite Hc. destruct (ptr_step v t) as [c|]; [|contradiction].
      specialize (IH c). destruct (try_fold_mut c ts) as [path|]; cbn [option_map].
      * cbn [node_at]. rewrite Hc. exact IH.
      * exact IH.
    + rewrite Hs. reflexivity.
Qed.

(* pointer_mut yields a reference exactly when pointer does, and it is a reference to the node pointer returns *)
Theorem pointer_mut_same_node : forall v p,
  match pointer_mut v p with
  | Some path => node_at v path = pointer v p /\ pointer v p <> None
  | None => pointer v p = None
  end.
Proof.
  intros v p. unfold pointer_mut, pointer. destruct p as [|c r].
  - cbn [node_at]. split; [reflexivity|discriminate].
  - destruct (c =? 47); [apply try_fold_mut_spec | reflexivity].
Qed.

(* ====================================================================== 7. writing through a path; take *)
Lemma upd_nth_nth : forall (A : Type) (l : list A) i f,
  nth_error (upd_nth l i f) i = option_map f (nth_error l i).
Proof.
  intros A l. induction l as [|x r IH]; intros i f; destruct i as [|j]; try reflexivity.
  cbn [upd_nth nth_error]. apply IH.
Qed.
Lemma upd_nth_other : forall (A : Type) (l : list A) i j f, i <> j ->
  nth_error (upd_nth l i f) j = nth_error l j.
Proof.
  intros A l. induction l as [|x r IH]; intros i j f Hij; destruct i as [|i']; destruct j as [|j']; try reflexivity.
  - contradiction.
  - cbn [upd_nth nth_error]. apply IH. lia.
Qed.

(* a write through the reference replaces exactly the addressed node *)
Lemma write_at_node : forall path new v n, node_at v path = Some n -> node_at (write_at path new v) path = Some new.
Proof.
  induction path as [|i r IH]; intros new v n Hn; [reflexivity|].
  cbn [node_at] in Hn. destruct (child v i) as [c|] eqn:Hc; [|discriminate].
  destruct v as [| b | nn | s | l | m]; try discriminate.
  - cbn [child] in Hc. cbn [write_at node_at child]. rewrite upd_nth_nth, Hc. cbn [option_map]. eapply IH. exact Hn.
  - cbn [child] in Hc. cbn [write_at node_at child]. rewrite upd_nth_nth.
    destruct (nth_error m i) as [[k x]|]; [|discriminate]. cbn [option_map snd] in Hc |- *. injection Hc as Hc. subst x.
    eapply IH. exact Hn.
Qed.

(* siblings are untouched *)
Lemma write_at_sibling : forall i j r new v, i <> j -> child (write_at (i :: r) new v) j = child v j.
Proof.
  intros i j r new v Hij. destruct v as [| b | nn | s | l | m]; try reflexivity.
  - cbn [write_at child]. apply upd_nth_other. exact Hij.
  - cbn [write_at child]. rewrite upd_nth_other by exact Hij. reflexivity.
Qed.

Theorem take_spec : forall v, take v = (v, VNull).
Proof. reflexivity. Qed.

(* pointer_mut(p).map(Value::take): returns the node pointer(p) selects and leaves Null exactly there *)
Theorem take_at_spec : forall v p path,
  pointer_mut v p = Some path ->
  exists n, pointer v p = Some n /\ take_at v path = Some (n, write_at path VNull v)
            /\ node_at (write_at path VNull v) path = Some VNull.
Proof.
  intros v p path Hp. pose proof (pointer_mut_same_node v p) as H. rewrite Hp in H. destruct H as [Hn Hne].
  destruct (pointer v p) as [n|] eqn:Hpt; [|contradiction]. exists n. split; [reflexivity|].
  unfold take_at. rewrite Hn. cbn [take fst snd]. split; [reflexivity|]. eapply write_at_node. exact Hn.
Qed.

(* ====================================================================== 8. get / Index / IndexMut *)
Theorem get_usize_spec : forall v i,
  get_usize v i = match v with
                  | VArr l => if i <? N.of_nat (length l) then nth_error l (N.to_nat i) else None
                  | _ => None
                  end.
Proof. intros v i. destruct v; try reflexivity. apply get_N_spec. Qed.

Theorem get_str_spec : forall v k,
  get_str v k = match v with VObj m => member k m | _ => None end.
Proof. intros v k. destruct v; try reflexivity. apply assoc_get_member. Qed.

(* get_mut hands out a reference to the very node get returns *)
Theorem get_mut_usize_spec : forall v i,
  match get_mut_usize v i with
  | Some j => child v j = get_usize v i /\ get_usize v i <> None
  | None => get_usize v i = None
  end.
Proof.
  intros v i. destruct v as [| b | n | s | l | m]; try reflexivity.
  unfold get_mut_usize, get_usize, index_into_mut_usize, index_into_usize, in_bounds. rewrite get_N_spec.
  destruct (i <? N.of_nat (length l)) eqn:Hi; [|reflexivity].
  split; [reflexivity|]. apply nth_error_Some. lia.
Qed.
Theorem get_mut_str_spec : forall v k,
  match get_mut_str v k with
  | Some j => child v j = get_str v k /\ get_str v k <> None
  | None => get_str v k = None
  end.
Proof.
  intros v k. destruct v as [| b | n | s | l | m]; try reflexivity.
  unfold get_mut_str, get_str, index_into_mut_str, index_into_str. cbn [child]. apply assoc_pos_get.
Qed.

(* Index never fails: Null for a missing member / out-of-range index / wrong kind of value *)
Theorem index_usize_spec : forall v i,
  index_usize v i = match get_usize v i with Some x => x | None => VNull end.
Proof. reflexivity. Qed.
Theorem index_str_spec : forall v k,
  index_str v k = match get_str v k with Some x => x | None => VNull end.
Proof. reflexivity. Qed.

(* IndexMut by position: a reference to the element, or a panic *)
Theorem index_or_insert_usize_spec : forall v i,
  match index_or_insert_usize i v with
  | Ok (v', j) => v' = v /\ child v j = get_usize v i /\ get_usize v i <> None
  | Panic => get_usize v i = None
  | _ => False
  end.
Proof.
  intros v i. destruct v as [| b | n | s | l | m]; try reflexivity.
  unfold index_or_insert_usize, get_usize, index_into_usize, in_bounds. rewrite get_N_spec.
  destruct (i <? N.of_nat (length l)) eqn:Hi; [|reflexivity].
  split; [reflexivity|]. split; [reflexivity|]. apply nth_error_Some. lia.
Qed.

(* Map::insert on the entry list *)
Lemma bt_insert_get : forall k (x : value) m k',
  assoc_get k' (bt_insert k x m) = if beq_bytes k' k then Some x else assoc_get k' m.
Proof.
  intros k x m k'. induction m as [|[k2 v2] m IH].
  - cbn [bt_insert assoc_get]. reflexivity.
  - cbn [bt_insert]. destruct (beq_bytes k k2) eqn:Hk.
    + apply beq_bytes_eq in Hk. subst k2. cbn [assoc_get]. destruct (beq_bytes k' k); reflexivity.
    + destruct (bytes_ltb k k2).
      * cbn [assoc_get]. reflexivity.
      * cbn [assoc_get]. rewrite IH. destruct (beq_bytes k' k2) eqn:Hk2; [|reflexivity].
        destruct (beq_bytes k' k) eqn:Hk1; [|reflexivity].
        apply beq_bytes_eq in Hk2. apply beq_bytes_eq in Hk1. subst. 
        assert (Hr : beq_bytes k2 k2 = true) by (apply beq_bytes_eq; reflexivity). congruence.
Qed.
Lemma ix_insert_get : forall k (x : value) m k',
  assoc_get k' (ix_insert k x m) = if beq_bytes k' k then Some x else assoc_get k' m.
Proof.
  intros k x m k'. induction m as [|[k2 v2] m IH].
  - cbn [ix_insert assoc_get]. reflexivity.
  - cbn [ix_insert]. destruct (beq_bytes k k2) eqn:Hk.
    + apply beq_bytes_eq in Hk. subst k2. cbn [assoc_get]. destruct (beq_bytes k' k); reflexivity.
    + cbn [assoc_get]. rewrite IH. destruct (beq_bytes k' k2) eqn:Hk2; [|reflexivity].
      destruct (beq_bytes k' k) eqn:Hk1; [|reflexivity].
      apply beq_bytes_eq in Hk2. apply beq_bytes_eq in Hk1. subst.
      assert (Hr : beq_bytes k2 k2 = true) by (apply beq_bytes_eq; reflexivity). congruence.
Qed.
Lemma map_insert_get : forall pres k (x : value) m k',
  assoc_get k' (map_insert pres k x m) = if beq_bytes k' k then Some x else assoc_get k' m.
Proof. intros pres k x m k'. unfold map_insert. destruct pres; [apply ix_insert_get | apply bt_insert_get]. Qed.

Lemma beq_bytes_refl : forall k, beq_bytes k k = true.
Proof. intros k. apply beq_bytes_eq. reflexivity. Qed.

(* IndexMut by key: Null becomes an object; a missing member is created holding Null; every other member is untouched;
   the reference handed out is to the member named k; anything that is neither Null nor an object panics *)
Theorem index_or_insert_str_spec : forall pres k v,
  match index_or_insert_str pres k v with
  | Ok (v', j) =>
      (v = VNull \/ exists m, v = VObj m) /\
      (exists m', v' = VObj m') /\
      child v' j = get_str v' k /\
      get_str v' k = Some (match get_str v k with Some x => x | None => VNull end) /\
      (forall k', k' <> k -> get_str v' k' = get_str v k') /\
      (get_str v k <> None -> v' = v)
  | Panic => v <> VNull /\ forall m, v <> VObj m
  | _ => False
  end.
Proof.
  intros pres k v.
  assert (Hobj : forall m (v0 : value), (v0 = VNull /\ m = [] \/ v0 = VObj m) ->
    match (match assoc_pos k m with
           | Some i => Ok (VObj m, i)
           | None => match assoc_pos k (map_insert pres k VNull m) with
                     | Some i => Ok (VObj (map_insert pres k VNull m), i)
                     | None => Panic
                     end
           end) with
    | Ok (v', j) =>
      (v0 = VNull \/ exists m, v0 = VObj m) /\
      (exists m', v' = VObj m') /\
      child v' j = get_str v' k /\
      get_str v' k = Some (match get_str v0 k with Some x => x | None => VNull end) /\
      (forall k', k' <> k -> get_str v' k' = get_str v0 k') /\
      (get_str v0 k <> None -> v' = v0)
    | Panic => v0 <> VNull /\ forall m, v0 <> VObj m
    | _ => False
    end).
  { intros m v0 Hv0.
    assert (Hg0 : get_str v0 k = assoc_get k m /\ forall k', get_str v0 k' = assoc_get k' m).
    { destruct Hv0 as [[Hn Hm]|Ho]; subst; split; reflexivity || (intros; reflexivity). }
    destruct Hg0 as [Hg0 Hg0'].
    assert (Hkind : v0 = VNull \/ exists m, v0 = VObj m).
    { destruct Hv0 as [[Hn _]|Ho]; [left; exact Hn | right; exists m; exact Ho]. }
    pose proof (assoc_pos_get k m) as Hp. destruct (assoc_pos k m) as [i|].
    - destruct Hp as [Hc Hne]. split; [exact Hkind|]. split; [exists m; reflexivity|].
      split; [exact Hc|]. split.
      + cbn [get_str index_into_str]. rewrite Hg0. destruct (assoc_get k m); [reflexivity|contradiction].
      + split; [intros k' _; symmetry; apply Hg0'|].
        intros _. destruct Hv0 as [[Hn Hm]|Ho]; [subst; cbn in Hne; contradiction | symmetry; exact Ho].
    - pose proof (assoc_pos_get k (map_insert pres k VNull m)) as Hp'.
      assert (Hins : assoc_get k (map_insert pres k VNull m) = Some VNull).
      { rewrite map_insert_get, beq_bytes_refl. reflexivity. }
      destruct (assoc_pos k (map_insert pres k VNull m)) as [i|].
      + destruct Hp' as [Hc _]. split; [exact Hkind|]. split; [eexists; reflexivity|].
        split; [exact Hc|]. split.
        * cbn [get_str index_into_str]. rewrite Hins, Hg0, Hp. reflexivity.
        * split.
          -- intros k' Hk'. cbn [get_str index_into_str]. rewrite map_insert_get, Hg0'.
             destruct (beq_bytes k' k) eqn:Hb; [apply beq_bytes_eq in Hb; contradiction | reflexivity].
          -- intros Hsome. rewrite Hg0, Hp in Hsome. contradiction.
      + rewrite Hins in Hp'. discriminate. }
  unfold index_or_insert_str. destruct v as [| b | n | s | l | m].
  - apply (Hobj [] VNull). left. split; reflexivity.
  - split; [discriminate | intros; discriminate].
  - split; [discriminate | intros; discriminate].
  - split; [discriminate | intros; discriminate].
  - split; [discriminate | intros; discriminate].
  - apply (Hobj m (VObj m)). right. reflexivity.
Qed.

(* ====================================================================== 9. why [arrays_ok] is needed
   In the model (lists are unbounded) an array with more than 2^64 elements separates the two sides: the index 2^64 is a
   valid RFC 6901 array-index, but usize::from_str overflows.  No such Vec exists; the hypothesis says exactly that. *)
Definition big_index : bytes := [49;56;52;52;54;55;52;52;48;55;51;55;48;57;53;53;49;54;49;54].   (* "18446744073709551616" *)
Lemma pointer_needs_arrays_ok :
  let v := VArr (repeat VNull (N.to_nat 18446744073709551617)) in
  let p := 47 :: big_index in
  pointer v p = None /\ rfc6901_eval v p = Some VNull.
Proof.
  intros v p. subst v p.
  remember (repeat VNull (N.to_nat 18446744073709551617)) as l eqn:Hl.
  split.
  - unfold pointer. rewrite N.eqb_refl. rewrite ptr_tokens_slash.
    assert (Ht : map unescape_token (tokens_from [] big_index) = [big_index]) by (vm_compute; reflexivity).
    rewrite Ht. cbn [try_fold ptr_step].
    assert (Hp : parse_index big_index = None) by (vm_compute; reflexivity).
    rewrite Hp. reflexivity.
  - unfold rfc6901_eval, reference_tokens. rewrite N.eqb_refl.
    assert (Ht : tokens_from [] big_index = [big_index]) by (vm_compute; reflexivity).
    rewrite Ht. cbn [eval_tokens].
    assert (Hu : unescape big_index = big_index) by (vm_compute; reflexivity).
    rewrite Hu. cbn [eval_token].
    assert (Ha : array_index big_index = Some 18446744073709551616) by (vm_compute; reflexivity).
    rewrite Ha.
    assert (Hlen : N.of_nat (length l) = 18446744073709551617).
    { rewrite Hl, repeat_length. apply N2Nat.id. }
    rewrite Hlen.
    assert (Hlt : 18446744073709551616 <? 18446744073709551617 = true) by (vm_compute; reflexivity).
    rewrite Hlt.
    assert (Hn : nth_error l (N.to_nat 18446744073709551616) = Some VNull).
    { rewrite Hl. apply nth_error_repeat. lia. }
    rewrite Hn. reflexivity.
Qed.

Print Assumptions replace_order.
Print Assumptions pointer_rfc6901.
Print Assumptions pointer_mut_same_node.
Print Assumptions take_at_spec.
Print Assumptions index_or_insert_str_spec.
Print Assumptions pointer_needs_arrays_ok.
