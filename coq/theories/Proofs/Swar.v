(* Proofs/Swar.v — SliceRead::skip_to_escape (src/read.rs 432-489).

   Part 1: an executable, literal model of the function on a byte list:
           the first-byte bail-out, the memchr2 branch (forbid_control_characters = false),
           and the 64-bit SWAR loop ("Mycroft's algorithm") followed by skip_to_escape_slow
           (forbid_control_characters = true).  Machine words are [N] with every wrapping
           operation written out.
   Part 2: proof that the model computes [esc_span], the specification used by Model/Str.v:
             swar_skip_spec   : Forall (< 256) l -> swar_skip l = esc_span true l
             memchr_skip_spec : memchr_skip l = esc_span false l
   Part 3: worked examples (vm_compute).

   Proof architecture for the SWAR chunk:
     (a) every word-level operation (wrapping_sub of a constant-digit word, !, ^, &, |) is shown ONCE
         to act digit-wise on the base-256 little-endian digits, the subtraction with an explicit
         borrow ([sub_digits]);  hence  chunk_mask (from_le_bytes ds) = from_le_bytes (dmask ds 0 0 0);
     (b) a 256-case sweep over ONE byte ([byte_ok_all], vm_compute) shows: with no incoming borrows a
         non-special byte yields mask digit 0 and no outgoing borrow in any of the three detectors,
         a special byte yields mask digit 0x80; every mask digit is 0 or 0x80 whatever the borrows;
     (c) for a digit list over {0, 0x80}, the word is 0 iff all digits are 0, and otherwise
         trailing_zeros / 8 is the index of the first non-zero digit. *)
From SJ Require Import Base.Bytes Gen.Tables Model.Read Model.Str.
From Coq Require Import Lia ZifyBool ZifyNat ZifyN.
Open Scope N_scope.

(* ================================================================================== *)
(** * 1. The model                                                                    *)
(* ================================================================================== *)

(* type Chunk = u64 *)
Definition W : N := 2 ^ 64.
Definition CHUNK_MAX : N := W - 1.                       (* Chunk::MAX *)
Definition ONE_BYTES : N := CHUNK_MAX / 255.             (* 0x0101010101010101 *)

Definition wsub (a b : N) : N := (a + W - b) mod W.      (* a.wrapping_sub(b), a b < 2^64 *)
Definition wmul (a b : N) : N := (a * b) mod W.          (* a * b (const-evaluated, no overflow occurs; mod is harmless) *)
Definition wnot (a : N) : N := CHUNK_MAX - a.            (* !a *)
Definition wshl (a k : N) : N := (N.shiftl a k) mod W.   (* a << k *)

(* Chunk::from_le_bytes *)
Fixpoint from_le_bytes (c : list N) : N :=
  match c with
  | [] => 0
  | b :: r => b + 256 * from_le_bytes r
  end.

(* u64::trailing_zeros *)
Fixpoint ctz_pos (p : positive) : nat :=
  match p with
  | xO p' => S (ctz_pos p')
  | _ => O
  end.
Definition trailing_zeros (x : N) : nat :=
  match x with
  | N0 => 64%nat
  | Npos p => ctz_pos p
  end.

(* the value `masked` computed from `chars` in the loop body *)
Definition chunk_mask (chars : N) : N :=
  let contains_ctrl := N.land (wsub chars (wmul ONE_BYTES SWAR_CTRL)) (wnot chars) in
  let chars_quote := N.lxor chars (wmul ONE_BYTES SWAR_QUOTE) in
  let contains_quote := N.land (wsub chars_quote ONE_BYTES) (wnot chars_quote) in
  let chars_backslash := N.lxor chars (wmul ONE_BYTES SWAR_BSLASH) in
  let contains_backslash := N.land (wsub chars_backslash ONE_BYTES) (wnot chars_backslash) in
  N.land (N.lor (N.lor contains_ctrl contains_quote) contains_backslash) (wshl ONE_BYTES 7).

(* rest.chunks_exact(8): 8 bytes at a time while at least 8 remain *)
Fixpoint chunks_exact8 (l : list N) : list (list N) :=
  match l with
  | b0 :: b1 :: b2 :: b3 :: b4 :: b5 :: b6 :: b7 :: r =>
      [b0; b1; b2; b3; b4; b5; b6; b7] :: chunks_exact8 r
  | _ => []
  end.

(* the `for` loop; [off] = offset of the current chunk inside `rest`;
   Some k = early `return` with index = (start of rest) + k, None = loop ran to completion *)
Fixpoint scan_chunks (cs : list (list N)) (off : nat) : option nat :=
  match cs with
  | [] => None
  | c :: cs' =>
      let masked := chunk_mask (from_le_bytes c) in
      if masked =? 0 then scan_chunks cs' (off + 8)%nat
      else Some (off + trailing_zeros masked / 8)%nat
  end.

(* skip_to_escape_slow: while index < len && !is_escape(slice[index], true) { index += 1 } *)
Fixpoint skip_slow (l : list N) : nat :=
  match l with
  | [] => O
  | b :: r => if negb (is_escape b true) then S (skip_slow r) else O
  end.

(* skip_to_escape(true): number of bytes by which `index` advances when slice[index..] = l *)
Definition swar_skip (l : list N) : nat :=
  match l with
  | [] => O
  | b :: rest =>
      if is_escape b true then O
      else
        (1 + match scan_chunks (chunks_exact8 rest) 0 with
             | Some k => k
             | None =>
                 let n := (length rest / 8 * 8)%nat in
                 n + skip_slow (skipn n rest)
             end)%nat
  end.

(* memchr::memchr2 *)
Fixpoint memchr2 (a b : N) (l : list N) : option nat :=
  match l with
  | [] => None
  | x :: r => if (x =? a) || (x =? b) then Some O else option_map S (memchr2 a b r)
  end.

(* skip_to_escape(false) *)
Definition memchr_skip (l : list N) : nat :=
  match l with
  | [] => O
  | b :: rest =>
      if is_escape b false then O
      else (1 + match memchr2 34 92 rest with Some k => k | None => length rest end)%nat
  end.

(* ================================================================================== *)
(** * 2. Proofs                                                                       *)
(* ================================================================================== *)

Notation small := (fun b : N => b < 256).

(** ** 2.1 base-256 digit lists *)

Fixpoint p256 (n : nat) : N :=
  match n with O => 1 | S n' => 256 * p256 n' end.

Lemma p256_8 : p256 8 = W.
Proof. reflexivity. Qed.

Lemma W_val : W = 18446744073709551616.
Proof. reflexivity. Qed.

Lemma from_le_bound : forall ds, Forall small ds -> from_le_bytes ds < p256 (length ds).
Proof.
  induction ds as [|d r IH]; intros HF; cbn [from_le_bytes length p256].
  - lia.
  - inversion HF as [|? ? Hd Hr]; subst. specialize (IH Hr). lia.
Qed.

Fixpoint map2 (f : N -> N -> N) (xs ys : list N) : list N :=
  match xs, ys with
  | x :: xs', y :: ys' => f x y :: map2 f xs' ys'
  | _, _ => []
  end.

Lemma map2_length : forall f xs ys, length (map2 f xs ys) = Nat.min (length xs) (length ys).
Proof.
  induction xs as [|x xs IH]; intros [|y ys]; cbn [map2 length Nat.min]; auto.
Qed.

Lemma Forall_repeat_small : forall k n, k < 256 -> Forall small (repeat k n).
Proof. intros k n Hk. induction n; cbn [repeat]; constructor; auto. Qed.

(** ** 2.2 bitwise operations act digit-wise *)

Section BitOp.
  Variable op : N -> N -> N.
  Variable f : bool -> bool -> bool.
  Hypothesis op_spec : forall a b n, N.testbit (op a b) n = f (N.testbit a n) (N.testbit b n).
  Hypothesis f_ff : f false false = false.

  Lemma op_00 : op 0 0 = 0.
  Proof. apply N.bits_inj; intro n. rewrite op_spec, N.bits_0. exact f_ff. Qed.

  Lemma op_mod : forall a b k, (op a b) mod 2 ^ k = op (a mod 2 ^ k) (b mod 2 ^ k).
  Proof.
    intros a b k. apply N.bits_inj; intro n.
    destruct (N.lt_ge_cases n k) as [Hlt|Hge].
    - rewrite N.mod_pow2_bits_low by exact Hlt.
      rewrite !op_spec. rewrite !N.mod_pow2_bits_low by exact Hlt. reflexivity.
    - rewrite N.mod_pow2_bits_high by exact Hge.
      rewrite op_spec. rewrite !N.mod_pow2_bits_high by exact Hge. symmetry; exact f_ff.
  Qed.

  Lemma op_div : forall a b k, (op a b) / 2 ^ k = op (a / 2 ^ k) (b / 2 ^ k).
  Proof.
    intros a b k. apply N.bits_inj; intro n.
    rewrite N.div_pow2_bits, !op_spec, !N.div_pow2_bits. reflexivity.
  Qed.

  Lemma op_small : forall a b, a < 256 -> b < 256 -> op a b < 256.
  Proof.
    intros a b Ha Hb.
    assert (E : op a b = (op a b) mod 2 ^ 8).
    { rewrite op_mod. change (2 ^ 8) with 256. rewrite !N.mod_small by assumption. reflexivity. }
    rewrite E. change (2 ^ 8) with 256. apply N.mod_lt. discriminate.
  Qed.

  Lemma op_digit : forall a b x y, a < 256 -> b < 256 ->
    op (a + 256 * x) (b + 256 * y) = op a b + 256 * op x y.
  Proof.
    intros a b x y Ha Hb.
    assert (Hm : forall u v, u < 256 -> (u + 256 * v) mod 2 ^ 8 = u).
    { intros u v Hu. change (2 ^ 8) with 256. symmetry. apply N.mod_unique with v; lia. }
    assert (Hd : forall u v, u < 256 -> (u + 256 * v) / 2 ^ 8 = v).
    { intros u v Hu. change (2 ^ 8) with 256. symmetry. apply N.div_unique with u; lia. }
    pose proof (N.div_mod (op (a + 256 * x) (b + 256 * y)) (2 ^ 8)) as E.
    rewrite op_mod, op_div in E.
    rewrite !Hm, !Hd in E by assumption.
    change (2 ^ 8) with 256 in E. rewrite E by discriminate. lia.
  Qed.

  Lemma from_le_map2 : forall xs ys, Forall small xs -> Forall small ys -> length xs = length ys ->
    from_le_bytes (map2 op xs ys) = op (from_le_bytes xs) (from_le_bytes ys).
  Proof.
    induction xs as [|x xs IH]; intros [|y ys] Hx Hy Hlen; cbn [length] in Hlen; try discriminate;
      cbn [map2 from_le_bytes].
    - symmetry; exact op_00.
    - inversion Hx as [|? ? Hx0 Hxs]; inversion Hy as [|? ? Hy0 Hys]; subst.
      rewrite IH by (auto; congruence). rewrite op_digit by assumption. reflexivity.
  Qed.

  Lemma Forall_map2_small : forall xs ys, Forall small xs -> Forall small ys -> Forall small (map2 op xs ys).
  Proof.
    induction xs as [|x xs IH]; intros [|y ys] Hx Hy; cbn [map2]; try constructor.
    - inversion Hx; inversion Hy; subst. apply op_small; assumption.
    - inversion Hx; inversion Hy; subst. apply IH; assumption.
  Qed.
End BitOp.

Definition land_digits := from_le_map2 N.land andb N.land_spec eq_refl.
Definition lor_digits := from_le_map2 N.lor orb N.lor_spec eq_refl.
Definition lxor_digits := from_le_map2 N.lxor xorb N.lxor_spec eq_refl.
Definition Forall_land := Forall_map2_small N.land andb N.land_spec eq_refl.
Definition Forall_lor := Forall_map2_small N.lor orb N.lor_spec eq_refl.
Definition Forall_lxor := Forall_map2_small N.lxor xorb N.lxor_spec eq_refl.
Definition lxor_small := op_small N.lxor xorb N.lxor_spec eq_refl.

(** ** 2.3 subtraction of a constant-digit word, with explicit borrow *)

Definition borrow (d k c : N) : N := if d <? k + c then 1 else 0.
Definition sdig (d k c : N) : N := (d + 256 - k - c) mod 256.

Fixpoint sub_digits (ds : list N) (k c : N) : list N :=
  match ds with
  | [] => []
  | d :: r => sdig d k c :: sub_digits r k (borrow d k c)
  end.

Fixpoint fborrow (ds : list N) (k c : N) : N :=
  match ds with
  | [] => c
  | d :: r => fborrow r k (borrow d k c)
  end.

Lemma borrow_le1 : forall d k c, borrow d k c <= 1.
Proof. intros d k c. unfold borrow. destruct (d <? k + c); lia. Qed.

Lemma sdig_cases : forall d k c, d < 256 -> k < 256 -> c <= 1 ->
  sdig d k c = if d <? k + c then d + 256 - k - c else d - k - c.
Proof.
  intros d k c Hd Hk Hc. unfold sdig. destruct (N.ltb_spec d (k + c)) as [Hlt|Hge].
  - apply N.mod_small. lia.
  - replace (d + 256 - k - c) with ((d - k - c) + 1 * 256) by lia.
    rewrite N.mod_add by discriminate. apply N.mod_small. lia.
Qed.

Lemma sdig_small : forall d k c, sdig d k c < 256.
Proof. intros d k c. unfold sdig. apply N.mod_lt. discriminate. Qed.

Lemma sub_digits_length : forall ds k c, length (sub_digits ds k c) = length ds.
Proof. induction ds as [|d r IH]; intros k c; cbn [sub_digits length]; auto. Qed.

Lemma Forall_sub_digits : forall ds k c, Forall small (sub_digits ds k c).
Proof.
  induction ds as [|d r IH]; intros k c; cbn [sub_digits]; constructor; auto using sdig_small.
Qed.

Lemma sub_digits_val : forall ds k c, Forall small ds -> k < 256 -> c <= 1 ->
  fborrow ds k c <= 1 /\
  from_le_bytes (sub_digits ds k c) + from_le_bytes (repeat k (length ds)) + c
  = from_le_bytes ds + p256 (length ds) * fborrow ds k c.
Proof.
  induction ds as [|d r IH]; intros k c HF Hk Hc.
  - cbn [sub_digits fborrow length repeat from_le_bytes p256]. lia.
  - inversion HF as [|? ? Hd Hr]; subst.
    cbn [sub_digits fborrow length repeat from_le_bytes p256].
    pose proof (borrow_le1 d k c) as Hc'.
    assert (Hbc : borrow d k c = if d <? k + c then 1 else 0) by reflexivity.
    remember (borrow d k c) as c' eqn:Ec'. clear Ec'.
    destruct (IH k c' Hr Hk Hc') as [Hfb Heq].
    split; [exact Hfb|].
    rewrite <- N.mul_assoc.
    remember (p256 (length r) * fborrow r k c') as T eqn:ET. clear ET.
    rewrite sdig_cases by assumption.
    destruct (N.ltb_spec d (k + c)) as [Hlt|Hge]; lia.
Qed.

Lemma wsub_digits : forall ds k, length ds = 8%nat -> Forall small ds -> k < 256 ->
  wsub (from_le_bytes ds) (from_le_bytes (repeat k 8)) = from_le_bytes (sub_digits ds k 0).
Proof.
  intros ds k Hlen HF Hk.
  destruct (sub_digits_val ds k 0 HF Hk) as [Hfb Heq]; [lia|].
  rewrite Hlen, p256_8 in Heq.
  pose proof (from_le_bound (sub_digits ds k 0) (Forall_sub_digits ds k 0)) as Hb.
  rewrite sub_digits_length, Hlen, p256_8 in Hb.
  assert (HW : W <> 0) by discriminate.
  unfold wsub.
  assert (Hc : fborrow ds k 0 = 0 \/ fborrow ds k 0 = 1) by lia.
  destruct Hc as [Hc|Hc]; rewrite Hc in Heq.
  - replace (from_le_bytes ds + W - from_le_bytes (repeat k 8))
      with (from_le_bytes (sub_digits ds k 0) + 1 * W) by lia.
    rewrite N.mod_add by exact HW. apply N.mod_small; exact Hb.
  - replace (from_le_bytes ds + W - from_le_bytes (repeat k 8))
      with (from_le_bytes (sub_digits ds k 0)) by lia.
    apply N.mod_small; exact Hb.
Qed.

(** ** 2.4 complement *)

Definition dnot (d : N) : N := 255 - d.

Lemma Forall_dnot : forall ds, Forall small (map dnot ds).
Proof. induction ds as [|d r IH]; cbn [map]; constructor; [unfold dnot; cbv beta; lia | exact IH]. Qed.

Lemma not_digits_val : forall ds, Forall small ds ->
  from_le_bytes (map dnot ds) + from_le_bytes ds + 1 = p256 (length ds).
Proof.
  induction ds as [|d r IH]; intros HF; cbn [map from_le_bytes length p256].
  - reflexivity.
  - inversion HF as [|? ? Hd Hr]; subst. specialize (IH Hr). unfold dnot in *. cbv beta in Hd. lia.
Qed.

Lemma wnot_digits : forall ds, length ds = 8%nat -> Forall small ds ->
  wnot (from_le_bytes ds) = from_le_bytes (map dnot ds).
Proof.
  intros ds Hlen HF. pose proof (not_digits_val ds HF) as E.
  rewrite Hlen, p256_8 in E. unfold wnot, CHUNK_MAX. lia.
Qed.

(** ** 2.5 the constant words *)

Lemma one_bytes_digits : ONE_BYTES = from_le_bytes (repeat 1 8).
Proof. reflexivity. Qed.

Lemma ones_mul : forall k, k < 256 -> wmul ONE_BYTES k = from_le_bytes (repeat k 8).
Proof.
  intros k Hk. unfold wmul. rewrite one_bytes_digits, W_val.
  cbn [repeat from_le_bytes].
  rewrite N.mod_small by lia. lia.
Qed.

Lemma ones_shl7 : wshl ONE_BYTES 7 = from_le_bytes (repeat 128 8).
Proof. reflexivity. Qed.

Lemma swar_consts_small : SWAR_CTRL < 256 /\ SWAR_QUOTE < 256 /\ SWAR_BSLASH < 256.
Proof. repeat split; reflexivity. Qed.

(** ** 2.6 the digit-level mask *)

Definition xdig (ds : list N) (k : N) : list N := map (fun d => N.lxor d k) ds.

Lemma Forall_xdig : forall ds k, Forall small ds -> k < 256 -> Forall small (xdig ds k).
Proof.
  induction ds as [|d r IH]; intros k HF Hk; cbn [xdig map]; constructor;
    inversion HF; subst.
  - apply lxor_small; assumption.
  - apply IH; assumption.
Qed.

Lemma map2_repeat : forall f ds k, map2 f ds (repeat k (length ds)) = map (fun d => f d k) ds.
Proof. induction ds as [|d r IH]; intros k; cbn [length repeat map2 map]; [|rewrite IH]; reflexivity. Qed.

Lemma xor_const_digits : forall ds k, length ds = 8%nat -> Forall small ds -> k < 256 ->
  N.lxor (from_le_bytes ds) (from_le_bytes (repeat k 8)) = from_le_bytes (xdig ds k).
Proof.
  intros ds k Hlen HF Hk. unfold xdig. rewrite <- map2_repeat, Hlen.
  symmetry. apply lxor_digits;
    [exact HF | apply Forall_repeat_small; exact Hk | rewrite repeat_length; exact Hlen].
Qed.

(* one detector:  (x - k*ONES) & !x  on digits *)
Definition det (ds : list N) (k c : N) : list N := map2 N.land (sub_digits ds k c) (map dnot ds).

Lemma det_length : forall ds k c, length (det ds k c) = length ds.
Proof.
  intros. unfold det. rewrite map2_length, sub_digits_length, map_length. apply Nat.min_id.
Qed.

Lemma Forall_det : forall ds k c, Forall small (det ds k c).
Proof. intros. unfold det. apply Forall_land; auto using Forall_sub_digits, Forall_dnot. Qed.

Lemma det_val : forall ds k, length ds = 8%nat -> Forall small ds -> k < 256 ->
  N.land (wsub (from_le_bytes ds) (from_le_bytes (repeat k 8))) (wnot (from_le_bytes ds))
  = from_le_bytes (det ds k 0).
Proof.
  intros ds k Hlen HF Hk. rewrite wsub_digits, wnot_digits by assumption.
  unfold det. symmetry. apply land_digits; auto using Forall_sub_digits, Forall_dnot.
  rewrite sub_digits_length, map_length. reflexivity.
Qed.

Definition dmask (ds : list N) (cc cq cb : N) : list N :=
  map2 N.land
    (map2 N.lor
       (map2 N.lor (det ds SWAR_CTRL cc) (det (xdig ds SWAR_QUOTE) 1 cq))
       (det (xdig ds SWAR_BSLASH) 1 cb))
    (repeat 128 (length ds)).

Lemma xdig_length : forall ds k, length (xdig ds k) = length ds.
Proof. intros. unfold xdig. apply map_length. Qed.

Lemma dmask_length : forall ds cc cq cb, length (dmask ds cc cq cb) = length ds.
Proof.
  intros. unfold dmask.
  rewrite !map2_length, !det_length, !xdig_length, repeat_length, !Nat.min_id. reflexivity.
Qed.

(* (a) word level = digit level *)
Lemma chunk_mask_digits : forall ds, length ds = 8%nat -> Forall small ds ->
  chunk_mask (from_le_bytes ds) = from_le_bytes (dmask ds 0 0 0).
Proof.
  intros ds Hlen HF.
  destruct swar_consts_small as (HC & HQ & HB).
  assert (H1 : (1 : N) < 256) by reflexivity.
  pose proof (Forall_xdig ds SWAR_QUOTE HF HQ) as HFq.
  pose proof (Forall_xdig ds SWAR_BSLASH HF HB) as HFb.
  assert (Hlq : length (xdig ds SWAR_QUOTE) = 8%nat) by (rewrite xdig_length; exact Hlen).
  assert (Hlb : length (xdig ds SWAR_BSLASH) = 8%nat) by (rewrite xdig_length; exact Hlen).
  unfold chunk_mask.
  rewrite !ones_mul by assumption.
  rewrite !xor_const_digits by assumption.
  rewrite ones_shl7, one_bytes_digits.
  rewrite !det_val by assumption.
  unfold dmask. rewrite Hlen.
  set (D1 := det ds SWAR_CTRL 0).
  set (D2 := det (xdig ds SWAR_QUOTE) 1 0).
  set (D3 := det (xdig ds SWAR_BSLASH) 1 0).
  assert (F1 : Forall small D1) by apply Forall_det.
  assert (F2 : Forall small D2) by apply Forall_det.
  assert (F3 : Forall small D3) by apply Forall_det.
  assert (L1 : length D1 = 8%nat) by (unfold D1; rewrite det_length; exact Hlen).
  assert (L2 : length D2 = 8%nat) by (unfold D2; rewrite det_length; exact Hlq).
  assert (L3 : length D3 = 8%nat) by (unfold D3; rewrite det_length; exact Hlb).
  assert (F12 : Forall small (map2 N.lor D1 D2)) by (apply Forall_lor; assumption).
  assert (L12 : length (map2 N.lor D1 D2) = 8%nat) by (rewrite map2_length, L1, L2; reflexivity).
  assert (F123 : Forall small (map2 N.lor (map2 N.lor D1 D2) D3)) by (apply Forall_lor; assumption).
  assert (L123 : length (map2 N.lor (map2 N.lor D1 D2) D3) = 8%nat)
    by (rewrite map2_length, L12, L3; reflexivity).
  rewrite (land_digits (map2 N.lor (map2 N.lor D1 D2) D3) (repeat 128 8) F123);
    [ | apply Forall_repeat_small; reflexivity | rewrite L123, repeat_length; reflexivity ].
  rewrite (lor_digits (map2 N.lor D1 D2) D3 F12 F3) by (rewrite L12, L3; reflexivity).
  rewrite (lor_digits D1 D2 F1 F2) by (rewrite L1, L2; reflexivity).
  reflexivity.
Qed.

(** ** 2.7 (b) one byte at a time *)

(* head digit of [dmask] *)
Definition hmask (d cc cq cb : N) : N :=
  N.land
    (N.lor
       (N.lor (N.land (sdig d SWAR_CTRL cc) (dnot d))
              (N.land (sdig (N.lxor d SWAR_QUOTE) 1 cq) (dnot (N.lxor d SWAR_QUOTE))))
       (N.land (sdig (N.lxor d SWAR_BSLASH) 1 cb) (dnot (N.lxor d SWAR_BSLASH))))
    128.

Lemma dmask_cons : forall d r cc cq cb,
  dmask (d :: r) cc cq cb
  = hmask d cc cq cb
    :: dmask r (borrow d SWAR_CTRL cc) (borrow (N.lxor d SWAR_QUOTE) 1 cq) (borrow (N.lxor d SWAR_BSLASH) 1 cb).
Proof. reflexivity. Qed.

Definition byte_ok (d : N) : bool :=
  if is_escape d true then hmask d 0 0 0 =? 128
  else (hmask d 0 0 0 =? 0)
       && (borrow d SWAR_CTRL 0 =? 0)
       && (borrow (N.lxor d SWAR_QUOTE) 1 0 =? 0)
       && (borrow (N.lxor d SWAR_BSLASH) 1 0 =? 0).

Definition all_bytes : list N := map N.of_nat (seq 0 256).

Lemma In_all_bytes : forall d, d < 256 -> In d all_bytes.
Proof.
  intros d Hd. unfold all_bytes. apply in_map_iff. exists (N.to_nat d). split.
  - apply N2Nat.id.
  - apply in_seq. lia.
Qed.

(* the 256-case sweep *)
Lemma byte_ok_all : forallb byte_ok all_bytes = true.
Proof. vm_compute. reflexivity. Qed.

Lemma byte_ok_small : forall d, d < 256 -> byte_ok d = true.
Proof.
  intros d Hd. pose proof byte_ok_all as H. rewrite forallb_forall in H.
  apply H. apply In_all_bytes; exact Hd.
Qed.

Lemma land_128 : forall x, N.land x 128 = 0 \/ N.land x 128 = 128.
Proof.
  intro x.
  assert (E : N.land x 128 = if N.testbit x 7 then 128 else 0).
  { apply N.bits_inj; intro n. rewrite N.land_spec.
    replace (N.testbit 128 n) with (7 =? n) by (symmetry; apply (N.pow2_bits_eqb 7 n)).
    destruct (N.eqb_spec 7 n) as [<-|Hne].
    - rewrite andb_true_r. destruct (N.testbit x 7); reflexivity.
    - rewrite andb_false_r. destruct (N.testbit x 7).
      + symmetry. change 128 with (2 ^ 7). rewrite N.pow2_bits_eqb. apply N.eqb_neq. exact Hne.
      + symmetry. apply N.bits_0. }
  rewrite E. destruct (N.testbit x 7); auto.
Qed.

Notation bit7 := (fun m : N => m = 0 \/ m = 128).

Lemma dmask_bit7 : forall ds cc cq cb, Forall bit7 (dmask ds cc cq cb).
Proof.
  induction ds as [|d r IH]; intros cc cq cb.
  - constructor.
  - rewrite dmask_cons. constructor; [|apply IH]. unfold hmask. apply land_128.
Qed.

Lemma dmask_span : forall ds, Forall small ds ->
  span_len (fun m => m =? 0) (dmask ds 0 0 0) = esc_span true ds.
Proof.
  induction ds as [|d r IH]; intros HF.
  - reflexivity.
  - inversion HF as [|? ? Hd Hr]; subst.
    rewrite dmask_cons. unfold esc_span in *. cbn [span_len].
    pose proof (byte_ok_small d Hd) as Hok. unfold byte_ok in Hok.
    destruct (is_escape d true); cbn [negb].
    + apply N.eqb_eq in Hok. rewrite Hok. reflexivity.
    + apply andb_prop in Hok. destruct Hok as [Hok Hb3].
      apply andb_prop in Hok. destruct Hok as [Hok Hb2].
      apply andb_prop in Hok. destruct Hok as [Hm Hb1].
      apply N.eqb_eq in Hm, Hb1, Hb2, Hb3.
      rewrite Hm, Hb1, Hb2, Hb3. cbn [N.eqb]. rewrite IH by exact Hr. reflexivity.
Qed.

(** ** 2.8 (c) trailing zeros of a word whose digits are 0 or 0x80 *)

Lemma tz_double : forall x, x <> 0 -> trailing_zeros (2 * x) = S (trailing_zeros x).
Proof. intros [|p] Hx; [congruence|reflexivity]. Qed.

Lemma tz_odd : forall x, trailing_zeros (2 * x + 1) = O.
Proof. intros [|p]; reflexivity. Qed.

Lemma tz_256 : forall x, x <> 0 -> trailing_zeros (256 * x) = (8 + trailing_zeros x)%nat.
Proof.
  intros x Hx.
  replace (256 * x) with (2 * (2 * (2 * (2 * (2 * (2 * (2 * (2 * x)))))))) by lia.
  rewrite !tz_double by lia. reflexivity.
Qed.

Lemma tz_128 : forall x, trailing_zeros (128 + 256 * x) = 7%nat.
Proof.
  intros x.
  replace (128 + 256 * x) with (2 * (2 * (2 * (2 * (2 * (2 * (2 * (2 * x + 1))))))))  by lia.
  rewrite !tz_double by lia. rewrite tz_odd. reflexivity.
Qed.

Lemma tz_digits : forall ms, Forall bit7 ms ->
  if Nat.eqb (span_len (fun m => m =? 0) ms) (length ms)
  then from_le_bytes ms = 0
  else from_le_bytes ms <> 0 /\
       (trailing_zeros (from_le_bytes ms) / 8)%nat = span_len (fun m => m =? 0) ms.
Proof.
  induction ms as [|m r IH]; intros HF.
  - reflexivity.
  - inversion HF as [|? ? Hm Hr]; subst. specialize (IH Hr).
    cbn [span_len length from_le_bytes].
    destruct Hm as [-> | ->].
    + change (0 =? 0) with true. cbn match. cbn [Nat.eqb].
      destruct (Nat.eqb (span_len (fun m => m =? 0) r) (length r)).
      * rewrite IH. reflexivity.
      * destruct IH as [Hnz Htz]. split; [lia|].
        rewrite N.add_0_l, tz_256 by exact Hnz.
        change (8 + trailing_zeros (from_le_bytes r))%nat
          with (1 * 8 + trailing_zeros (from_le_bytes r))%nat.
        rewrite Nat.div_add_l by discriminate. rewrite Htz. reflexivity.
    + change (128 =? 0) with false. cbn match. cbn [Nat.eqb].
      split; [lia|]. rewrite tz_128. reflexivity.
Qed.

(** ** 2.9 the chunk lemma *)

Lemma chunk_spec : forall c, length c = 8%nat -> Forall small c ->
  if (esc_span true c =? 8)%nat
  then chunk_mask (from_le_bytes c) = 0
  else chunk_mask (from_le_bytes c) <> 0 /\
       (trailing_zeros (chunk_mask (from_le_bytes c)) / 8)%nat = esc_span true c.
Proof.
  intros c Hlen HF.
  rewrite chunk_mask_digits by assumption.
  pose proof (tz_digits (dmask c 0 0 0) (dmask_bit7 c 0 0 0)) as H.
  rewrite dmask_span, dmask_length, Hlen in H by exact HF. exact H.
Qed.

(** ** 2.10 the list level *)

Lemma span_len_app : forall (p : N -> bool) c r,
  span_len p (c ++ r) =
  if (span_len p c =? length c)%nat then (length c + span_len p r)%nat else span_len p c.
Proof.
  induction c as [|x c IH]; intros r.
  - reflexivity.
  - cbn [app span_len length]. destruct (p x).
    + cbn [Nat.eqb]. rewrite IH. destruct (span_len p c =? length c)%nat; reflexivity.
    + reflexivity.
Qed.

Lemma skip_slow_spec : forall l, skip_slow l = esc_span true l.
Proof.
  induction l as [|b r IH]; [reflexivity|].
  unfold esc_span in *. cbn [skip_slow span_len]. rewrite IH. reflexivity.
Qed.

Lemma list_ind8 : forall (P : list N -> Prop),
  (forall l, (length l < 8)%nat -> P l) ->
  (forall c r, length c = 8%nat -> P r -> P (c ++ r)) ->
  forall l, P l.
Proof.
  intros P Hbase Hstep l.
  remember (length l) as n eqn:Hn. revert l Hn.
  induction n as [n IHn] using lt_wf_ind. intros l Hn.
  destruct (Nat.lt_ge_cases (length l) 8) as [Hlt|Hge].
  - apply Hbase; exact Hlt.
  - rewrite <- (firstn_skipn 8 l). apply Hstep.
    + rewrite firstn_length. lia.
    + apply (IHn (length (skipn 8 l))); [rewrite skipn_length; lia | reflexivity].
Qed.

Lemma chunks_exact8_short : forall l, (length l < 8)%nat -> chunks_exact8 l = [].
Proof.
  intros l Hlt.
  do 8 (destruct l as [|? l]; [reflexivity|]).
  cbn [length] in Hlt. lia.
Qed.

Lemma chunks_exact8_app : forall c r, length c = 8%nat ->
  chunks_exact8 (c ++ r) = c :: chunks_exact8 r.
Proof.
  intros c r Hlen.
  do 8 (destruct c as [|? c]; [discriminate Hlen|]).
  destruct c; [reflexivity|discriminate Hlen].
Qed.

Lemma skipn_app_exact : forall (c r : list N) x, skipn (length c + x) (c ++ r) = skipn x r.
Proof. induction c as [|a c IH]; intros r x; cbn [length app Nat.add skipn]; auto. Qed.

Lemma scan_spec : forall l, Forall small l -> forall off,
  match scan_chunks (chunks_exact8 l) off with
  | Some k => k = (off + esc_span true l)%nat
  | None => esc_span true l
            = (length l / 8 * 8 + esc_span true (skipn (length l / 8 * 8) l))%nat
  end.
Proof.
  intros l. pattern l. apply list_ind8; clear l.
  - intros l Hlt HF off. rewrite chunks_exact8_short by exact Hlt. cbn [scan_chunks].
    rewrite Nat.div_small by exact Hlt. reflexivity.
  - intros c r Hlen IH HF off.
    apply Forall_app in HF. destruct HF as [HFc HFr].
    rewrite chunks_exact8_app by exact Hlen. cbn [scan_chunks].
    pose proof (chunk_spec c Hlen HFc) as Hc.
    unfold esc_span in *. rewrite span_len_app, Hlen.
    destruct (N.eqb_spec (chunk_mask (from_le_bytes c)) 0) as [Hz|Hnz].
    + destruct (Nat.eqb_spec (span_len (fun b => negb (is_escape b true)) c) 8) as [Hs|Hs].
      * specialize (IH HFr (off + 8)%nat).
        destruct (scan_chunks (chunks_exact8 r) (off + 8)) as [k|].
        -- lia.
        -- rewrite app_length, Hlen.
           replace ((8 + length r) / 8)%nat with (1 + length r / 8)%nat
             by (change (8 + length r)%nat with (1 * 8 + length r)%nat;
                 rewrite Nat.div_add_l by discriminate; reflexivity).
           replace ((1 + length r / 8) * 8)%nat with (length c + length r / 8 * 8)%nat by lia.
           rewrite skipn_app_exact. lia.
      * destruct Hc as [Hc _]. contradiction.
    + destruct (Nat.eqb_spec (span_len (fun b => negb (is_escape b true)) c) 8) as [Hs|Hs].
      * contradiction.
      * destruct Hc as [_ Htz]. rewrite Htz. reflexivity.
Qed.

(** ** 2.11 main theorems *)

Theorem swar_skip_spec : forall l, Forall (fun b => (b < 256)%N) l -> swar_skip l = esc_span true l.
Proof.
  intros [|b rest] HF; [reflexivity|].
  inversion HF as [|? ? Hb Hrest]; subst.
  unfold swar_skip, esc_span. cbn [span_len].
  destruct (is_escape b true); cbn [negb]; [reflexivity|].
  pose proof (scan_spec rest Hrest 0%nat) as Hscan. unfold esc_span in Hscan.
  destruct (scan_chunks (chunks_exact8 rest) 0) as [k|].
  - rewrite Hscan. reflexivity.
  - rewrite skip_slow_spec. unfold esc_span. rewrite <- Hscan. reflexivity.
Qed.

Lemma memchr2_spec : forall l,
  match memchr2 34 92 l with Some k => k | None => length l end = esc_span false l.
Proof.
  induction l as [|x r IH]; [reflexivity|].
  unfold esc_span in *. cbn [memchr2 span_len length].
  unfold is_escape at 1. cbn [andb]. rewrite orb_false_r.
  change ESC_QUOTE with 34. change ESC_BSLASH with 92.
  destruct ((x =? 34) || (x =? 92)); cbn [negb]; [reflexivity|].
  destruct (memchr2 34 92 r) as [k|]; cbn [option_map]; rewrite <- IH; reflexivity.
Qed.

Theorem memchr_skip_spec : forall l, memchr_skip l = esc_span false l.
Proof.
  intros [|b rest]; [reflexivity|].
  unfold memchr_skip. rewrite memchr2_spec.
  unfold esc_span. cbn [span_len].
  destruct (is_escape b false); reflexivity.
Qed.

(* ================================================================================== *)
(** * 3. Examples                                                                     *)
(* ================================================================================== *)

(* k ordinary bytes 'a', then the byte sp, then n more 'a' *)
Definition ex (k : nat) (sp : N) (n : nat) : list N := repeat 97 k ++ sp :: repeat 97 n.

(* special byte at offsets 0 (first-byte bail-out), 1 and 7 (first chunk, bytes 0 and 6),
   8 (first chunk, byte 7), 9 and 15 (second chunk), 16 (second chunk, last byte), 17 (third chunk / tail) *)
Example ex_off0  : swar_skip (ex 0 34 30) = 0%nat.  Proof. vm_compute. reflexivity. Qed.
Example ex_off1  : swar_skip (ex 1 92 30) = 1%nat.  Proof. vm_compute. reflexivity. Qed.
Example ex_off7  : swar_skip (ex 7 10 30) = 7%nat.  Proof. vm_compute. reflexivity. Qed.
Example ex_off8  : swar_skip (ex 8 34 30) = 8%nat.  Proof. vm_compute. reflexivity. Qed.
Example ex_off9  : swar_skip (ex 9 31 30) = 9%nat.  Proof. vm_compute. reflexivity. Qed.
Example ex_off15 : swar_skip (ex 15 92 30) = 15%nat. Proof. vm_compute. reflexivity. Qed.
Example ex_off16 : swar_skip (ex 16 0 30) = 16%nat.  Proof. vm_compute. reflexivity. Qed.
Example ex_off17 : swar_skip (ex 17 34 30) = 17%nat. Proof. vm_compute. reflexivity. Qed.
(* the special byte in the tail handled by skip_to_escape_slow (fewer than 8 bytes left) *)
Example ex_tail1 : swar_skip (ex 17 34 3) = 17%nat. Proof. vm_compute. reflexivity. Qed.
Example ex_tail2 : swar_skip (ex 20 9 0) = 20%nat.  Proof. vm_compute. reflexivity. Qed.
(* nothing special: run to the end, for lengths around the chunk boundaries *)
Example ex_none8  : swar_skip (repeat 97 8) = 8%nat.   Proof. vm_compute. reflexivity. Qed.
Example ex_none9  : swar_skip (repeat 97 9) = 9%nat.   Proof. vm_compute. reflexivity. Qed.
Example ex_none10 : swar_skip (repeat 97 10) = 10%nat. Proof. vm_compute. reflexivity. Qed.
Example ex_none30 : swar_skip (repeat 97 30) = 30%nat. Proof. vm_compute. reflexivity. Qed.
Example ex_empty  : swar_skip [] = 0%nat.              Proof. vm_compute. reflexivity. Qed.
(* 0x20 (space) and 0x7F are ordinary, 0x1F is not *)
Example ex_space : swar_skip (repeat 32 20 ++ [127; 31]) = 21%nat. Proof. vm_compute. reflexivity. Qed.

(* bytes >= 0x80: !chars clears their bit 7, they are never reported and never create a borrow.
   0x80 alone does not stop the scan; 0xA2 = 0x80|0x22 is not a quote, 0xDC = 0x80|0x5C is not a
   backslash, 0x9F = 0x80|0x1F is not a control character. *)
Example ex_hi_none : swar_skip (97 :: repeat 128 20) = 21%nat. Proof. vm_compute. reflexivity. Qed.
Example ex_hi_mask0 : chunk_mask (from_le_bytes [128; 162; 220; 159; 255; 128; 160; 254]) = 0.
Proof. vm_compute. reflexivity. Qed.
Example ex_hi_A2 : swar_skip (97 :: 162 :: repeat 97 6 ++ [34]) = 8%nat. Proof. vm_compute. reflexivity. Qed.
Example ex_hi_mix : swar_skip ([97; 128; 162; 220; 159; 255; 195; 169; 226; 130; 172] ++ ex 3 92 4) = 14%nat.
Proof. vm_compute. reflexivity. Qed.
Example ex_hi_then_ctrl : swar_skip [97; 255; 255; 255; 255; 255; 255; 255; 10] = 8%nat.
Proof. vm_compute. reflexivity. Qed.

(* Spurious high bits exist, but only ABOVE a genuine hit (borrow propagation):
   0x1F then 0x20: byte 1 gets a false 0x80 from the borrow of byte 0;
   a quote (0x22) then '#' (0x23 ^ 0x22 = 1): same for the quote detector.  trailing_zeros picks the genuine one. *)
Example ex_spurious_ctrl : chunk_mask (from_le_bytes [31; 32; 97; 97; 97; 97; 97; 97]) = 32896 (* 0x8080 *).
Proof. vm_compute. reflexivity. Qed.
Example ex_spurious_quote : chunk_mask (from_le_bytes [34; 35; 97; 97; 97; 97; 97; 97]) = 32896.
Proof. vm_compute. reflexivity. Qed.
Example ex_spurious_tz : (trailing_zeros 32896 / 8)%nat = 0%nat. Proof. vm_compute. reflexivity. Qed.
Example ex_spurious_skip : swar_skip (97 :: [97; 97; 31; 32; 32; 32; 97; 97] ++ repeat 97 8) = 3%nat.
Proof. vm_compute. reflexivity. Qed.

(* memchr branch: control characters are not special *)
Example ex_memchr1 : memchr_skip (ex 9 10 3 ++ ex 2 34 5) = 15%nat. Proof. vm_compute. reflexivity. Qed.
Example ex_memchr2 : memchr_skip (ex 0 92 5) = 0%nat. Proof. vm_compute. reflexivity. Qed.
Example ex_memchr3 : memchr_skip (repeat 7 12) = 12%nat. Proof. vm_compute. reflexivity. Qed.

Print Assumptions swar_skip_spec.
Print Assumptions memchr_skip_spec.
