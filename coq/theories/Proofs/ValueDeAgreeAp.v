(* Proofs/ValueDeAgreeAp.v — C16 / C06 under the cargo feature `arbitrary_precision`: number LEAVES.

   Under the feature a Number holds its text ([NLit lit]); `to_string` prints the text verbatim (SerToValueAp.C15_numlit_verbatim,
   restated below as [ap_number_text]), so the text route reads the literal itself, while the Value route parses the text with
   `str::parse::<iN/uN/f64>` (src/number.rs deserialize_number!, Model/ValueDe.v number_de_int / number_de_f64).

   This file:
     * the exclusion vocabulary shared by the ap development: [f12b] (finding F12b), [respell_lit] / [canon_lit] / [canon_value] /
       [no_token] (finding F19 and the Value-route side of F23), [claim_ap] (the (type program, Value) pairs of the claim);
     * for a well-formed RFC 8259 literal n and every scalar target: the Value route on [VNum (NLit (render_num n))] against the
       typed text deserializer on  w ++ render_num n ++ rst  from any reader state ([num_agree]: the completeness-with-failure form of
       Proofs/ValueDeAgreeMap.v, so that the container lemmas of Proofs/ValueDeAgreeAp2.v can consume it);
     * [C06_value_ap_all]: the ten integer targets, exact characterisation of both routes, F12b as the only disagreement;
     * [C16_ap_scalars]: from_value / T::deserialize(&v) against from_str on the literal for bool, unit, unit struct, String, char,
       the ten integer types, f64, IgnoredAny and Option / newtype nests of those.

   Findings visible here (each with a vm_compute witness at the end of the file):
     F12b  `-0` into i8..i64: Value route Ok(0), text route invalid type.  ONLY this literal, ONLY these four targets
           (i128: both routes give 0; unsigned: both fail; `-0.0`, `-0e0`, `1e2`: both fail for every integer target).
     f64 without float_roundtrip: the Value route is correctly rounded (std), the text route is the default float path:
           they differ on e.g. 9007199254740993.0.  With float_roundtrip both are the nearest binary64 (C07): they agree. *)
From SJ Require Import Base.Bytes Base.Utf8 Base.FloatB Gen.Tables
  Model.Read Model.Str Model.Num Model.NumF32 Model.Value Model.De Model.Ignore Model.Ty Model.NumberM Model.DeTyped Model.ValueDe
  Spec.Syntax Spec.Denote Proofs.GrammarIgnore Proofs.GrammarValueComplete Proofs.SerValue Proofs.GrammarValueBase Proofs.GrammarStr Proofs.GrammarNum
  Proofs.ValueDeRef Proofs.ValueDeAgree Proofs.ValueDeText Proofs.ValueDeAgreeKey Proofs.ValueDeAgreeMap Proofs.ValueDeAgreeMisc.
From SJ Require Proofs.NumInt Proofs.TypedInt.
From SJ Require Import Proofs.ApNumber Proofs.ApNumberFloat Proofs.ValueInt Proofs.LexGlue Proofs.LexOracle Proofs.LexC07 Proofs.FloatDefault.
From SJ Require Model.Sval Model.Ser Model.ValueSer Spec.Layout Proofs.SerToValueAp.
From Coq Require Import Reals Lra.
From Flocq Require Import Core BinarySingleNaN.
Require Import Lia ZifyBool ZifyNat ZifyN.
Open Scope N_scope.

(* ================================================================================================================================
   1. Exclusion vocabulary
   ================================================================================================================================ *)
(* F12b: the literal `-0` into a signed 8..64-bit integer *)
Definition neg_zero_lit : bytes := [45; 48].
Definition f12b (it : intty) (lit : bytes) : bool := int_signed it && negb (is_128 it) && beq_bytes lit neg_zero_lit.

(* F19: what `Value::deserialize(number)` makes of the text of a Number (Model/ValueDe.v: number_any with the visitor valuev) *)
Definition respell_lit (fx : fenv) (s : bytes) : bytes :=
  match ap_as_u64 s with
  | Some u => itoa (Z.to_N u)
  | None =>
    match ap_as_i64 s with
    | Some i => itoa_z i
    | None =>
      match ap_as_u128 s with
      | Some u => itoa_z u
      | None =>
        match ap_as_i128 s with
        | Some i => itoa_z i
        | None =>
          match ap_as_f64 s with
          | Some f => if beq_bytes (ryu64 fx (bits_of_b64 f)) s || beq_bytes (disp64 fx (bits_of_b64 f)) s
                      then ryu64 fx (bits_of_b64 f) else s
          | None => s
          end
        end
      end
    end
  end.

Fixpoint respell (fx : fenv) (v : value) : value :=
  match v with
  | VNum (NLit s) => VNum (NLit (respell_lit fx s))
  | VArr l => VArr (map (respell fx) l)
  | VObj l => VObj (map (fun kv => (fst kv, respell fx (snd kv))) l)
  | _ => v
  end.

Definition canon_lit (fx : fenv) (s : bytes) : bool := beq_bytes (respell_lit fx s) s.

Fixpoint canon_value (fx : fenv) (v : value) : bool :=
  match v with
  | VNum (NLit s) => canon_lit fx s
  | VArr l => forallb (canon_value fx) l
  | VObj l => forallb (fun kv => canon_value fx (snd kv)) l
  | _ => true
  end.

(* no object whose FIRST key is the private Number token (the Value-route side of F23: KeyClassifier) *)
Fixpoint no_token (v : value) : bool :=
  match v with
  | VArr l => forallb no_token l
  | VObj l => match l with (k0, _) :: _ => negb (beq_bytes k0 NUMBER_TOKEN_V) | [] => true end
              && forallb (fun kv => no_token (snd kv)) l
  | _ => true
  end.

(* technical bound of the float_roundtrip glue theorem (Proofs/LexGlue.v lex_glue): literals shorter than 10^8 bytes *)
Definition LIT_MAX : N := 100000000.
Definition short_lit (lit : bytes) : bool := N.of_nat (length lit) <? LIT_MAX.

Lemma short_lit_abs n : short_lit (render_num n) = true -> (length (render_abs n) < 100000000)%nat.
Proof.
  unfold short_lit, LIT_MAX. rewrite render_num_split, app_length. intros H.
  apply Nat2Z.inj_lt. rewrite big_nat. destruct (nneg n); cbn [length] in H; lia.
Qed.

(* the (type program, Value) pairs of the claim: [claimb] of Proofs/ValueDeAgreeMap.v (the two enum shapes on which from_value and
   from_str disagree in every build) plus, at the leaves,
     TInt it  on a number : not F12b
     TF64     on a number : the literal is shorter than LIT_MAX (proof-technical, not a finding)
     TValue               : no private token as a first key, every number literal in canonical spelling (F19) *)
Fixpoint claim_ap (fx : fenv) (fuel : nat) (t : ty) (v : value) {struct fuel} : bool :=
  match fuel with
  | O => true
  | S f =>
    match t with
    | TInt it => match v with VNum (NLit lit) => negb (f12b it lit) | _ => true end
    | TF64 => match v with VNum (NLit lit) => short_lit lit | _ => true end
    | TValue => no_token v && canon_value fx v
    | TOption t1 => match v with VNull => true | _ => claim_ap fx f t1 v end
    | TNewtype t1 => claim_ap fx f t1 v
    | TSeq t1 => match v with VArr l => forallb (claim_ap fx f t1) l | _ => true end
    | TTuple ts | TTupleStruct ts => match v with VArr l => claim_list (claim_ap fx f) ts l | _ => true end
    | TMap _ t1 => match v with VObj m => forallb (fun kv => claim_ap fx f t1 (snd kv)) m | _ => true end
    | TStruct fields =>
      match v with
      | VArr l => claim_list (claim_ap fx f) (map snd fields) l
      | VObj m => claim_fields (claim_ap fx f) fields m
      | _ => true
      end
    | TEnum vs =>
      match v with
      | VObj ((name, x) :: _) =>
        match index_of name vs with
        | Some (_, vr) => claim_variant (claim_ap fx f) vr x
        | None => true
        end
      | _ => true
      end
    | _ => true
    end
  end.

(* the text of a Number of this build is its literal: to_string prints it verbatim, from_str reads it back verbatim (C15 / C20) *)
Theorem ap_number_text : forall cf fmt32 fmt64 n, arbitrary_precision cf = true -> num_ok n = true ->
  Ser.serialize cf fmt32 fmt64 Ser.Compact (ValueSer.sval_of_value (VNum (NLit (render_num n)))) = Ok [render_num n]
  /\ from_input (mkEnv RSlice TEof cf) (render_num n) = Ok (VNum (NLit (render_num n))).
Proof.
  intros cf f32 f64 n Hap Hok.
  assert (W : Layout.number_text_ok (render_num n) = true) by (apply SerToValueAp.number_text_ok_iff; exists n; auto).
  destruct (SerToValueAp.C15_numlit_verbatim cf f32 f64 (render_num n) Hap W) as (H1 & _ & H3). split; [exact H1|exact H3].
Qed.

(* ================================================================================================================================
   2. Small facts
   ================================================================================================================================ *)
Lemma int_ok_zero ds : int_ok ds = true -> digits_val ds 0 = 0%Z -> ds = [48].
Proof.
  intros Hok Hz. destruct (int_ok_inv ds Hok) as [->|(c & r & -> & Hc & Hd)]; [reflexivity|exfalso].
  pose proof (nval_canon_ge c r Hc) as Hge. change 0%Z with (Z.of_N 0) in Hz at 1. rewrite digits_val_nval in Hz.
  pose proof (N.pow_nonzero 10 (N.of_nat (length r))). lia.
Qed.

Lemma beq_bytes_refl a : beq_bytes a a = true.
Proof. induction a as [|x a IH]; [reflexivity|]. cbn [beq_bytes]. rewrite N.eqb_refl, IH. reflexivity. Qed.

Lemma beq_bytes_eq a b : beq_bytes a b = true <-> a = b.
Proof. split; [apply beq_bytes_true|intros ->; apply beq_bytes_refl]. Qed.

(* `-0` as a literal tree *)
Lemma neg_zero_render n : num_ok n = true -> lit_is_int n = true -> nneg n = true -> digits_val (nint n) 0 = 0%Z ->
  render_num n = neg_zero_lit.
Proof.
  intros Hok Hi Hn Hz. apply lit_is_int_iff in Hi as [Hf Hx]. rewrite (render_int n Hf Hx), Hn.
  destruct (num_ok_inv n Hok) as (Hint & _). rewrite (int_ok_zero _ Hint Hz). reflexivity.
Qed.

Lemma follow_stops rst : follow_ok rst -> NumInt.stops_number rst.
Proof. intros H. apply follow_nfollow in H. destruct rst as [|c r]; [exact I|]. cbn [nfollow NumInt.stops_number] in *. tauto. Qed.

Lemma follow_fw n rst : follow_ok rst -> fw n rst.
Proof.
  intros H. apply follow_nfollow in H. unfold fw, nd. destruct rst as [|c r]; cbn [hd nfollow] in *.
  - repeat split; intros; reflexivity.
  - destruct H as (H1 & H2 & H3 & H4 & _). repeat split; intros; try assumption; lia.
Qed.

(* ================================================================================================================================
   3. Number leaves
   ================================================================================================================================ *)
Section ApLeaves.
  Variable cf : cfg.
  Variable fx : fenv.
  Hypothesis Hap : arbitrary_precision cf = true.
  Local Notation E := (mkEnv RSlice TEof cf).

  (* ---- the Value route: str::parse on the text ------------------------------------------------------------------------------- *)
  Lemma value_ap_int fv (it : Ty.intty) lit :
    de_value_owned (S fv) cf fx (TInt it) (VNum (NLit lit)) =
    match std_parse_int (int_signed it) (int_min it) (int_max it) lit with
    | Some z => VOk (DInt z)
    | None => VErr InvalidNumber 0 0
    end.
  Proof. cbn [de_value_owned value_number_owned]. unfold number_de_int. rewrite Hap. reflexivity. Qed.

  Lemma value_ap_int_lit fv (it : Ty.intty) n : num_ok n = true ->
    de_value_owned (S fv) cf fx (TInt it) (VNum (NLit (render_num n))) =
    if lit_is_int n && (int_signed it || negb (nneg n)) && Ty.in_range it (lit_int n)
    then VOk (DInt (lit_int n)) else VErr InvalidNumber 0 0.
  Proof.
    intros Hok. rewrite value_ap_int, (std_parse_int_lit (int_signed it) (int_min it) (int_max it) n Hok).
    change (ApNumber.in_range (int_min it) (int_max it) (lit_int n)) with (Ty.in_range it (lit_int n)).
    destruct (lit_is_int n && (int_signed it || negb (nneg n)) && Ty.in_range it (lit_int n)); reflexivity.
  Qed.

  Lemma std_parse_f64_lit n : num_ok n = true ->
    std_parse_f64 (render_num n) =
    let f := rne_decimal (lit_mantissa n) (lit_exponent n) in Some (if nneg n then b64_neg f else f).
  Proof.
    intros Hok. unfold std_parse_f64. rewrite render_num_split.
    assert (Hs : strip_sign ((if nneg n then [45] else []) ++ render_abs n) = (nneg n, render_abs n)).
    { destruct (nneg n); cbn [app]; [reflexivity|].
      destruct (ApNumber.render_abs_head n Hok) as (c & r & Hcr & Hc). rewrite Hcr. unfold strip_sign.
      assert (H43 : (c =? 43) = false) by (unfold is_digit in Hc; lia).
      assert (H45 : (c =? 45) = false) by (unfold is_digit in Hc; lia).
      rewrite H43, H45. reflexivity. }
    rewrite Hs, (dec_parts_lit n Hok). reflexivity.
  Qed.

  Lemma value_ap_f64_lit fv n : num_ok n = true ->
    de_value_owned (S fv) cf fx TF64 (VNum (NLit (render_num n))) =
    let f := rne_decimal (lit_mantissa n) (lit_exponent n) in
    if b64_is_inf f then VErr NumberOutOfRange 0 0 else VOk (dfloat (if nneg n then b64_neg f else f)).
  Proof.
    intros Hok. cbn [de_value_owned value_number_owned]. unfold number_de_f64. rewrite Hap. cbn [number_text].
    rewrite (std_parse_f64_lit n Hok). cbv zeta.
    destruct (rne_decimal_cases (lit_mantissa n) (lit_exponent n) (lit_mantissa_nonneg n)) as [(Hfin & _)|(Hinf & _)].
    - rewrite (finite_not_inf _ Hfin). unfold b64_is_finite, b64_neg. destruct (nneg n); [rewrite is_finite_Bopp|]; rewrite Hfin; reflexivity.
    - rewrite Hinf. destruct (nneg n); reflexivity.
  Qed.

  (* ---- the text route: leading whitespace ------------------------------------------------------------------------------------ *)
  Lemma number_skip_ws visit w b r o p d : ws_ok w = true -> ws_byte b = false ->
    deserialize_number E visit (mkSt (w ++ b :: r) o p d) = deserialize_number E visit (mkSt (b :: r) (o + length w) p d).
  Proof.
    intros Hw Hb. apply ws_byte_is_ws in Hb. unfold deserialize_number.
    rewrite (pw_complete cf w b r o p d Hw Hb), (TypedInt.parse_whitespace_hd E b r (o + length w) p d Hb). reflexivity.
  Qed.

  Lemma int_skip_ws (it : Ty.intty) f w b r o p d : ws_ok w = true -> ws_byte b = false ->
    de_typed (S f) E (TInt it) (mkSt (w ++ b :: r) o p d) = de_typed (S f) E (TInt it) (mkSt (b :: r) (o + length w) p d).
  Proof.
    intros Hw Hb. destruct (is_128 it) eqn:H128; [apply int128_skip_ws; assumption|].
    destruct it; try discriminate H128; cbn [de_typed]; unfold deserialize_int; apply number_skip_ws; assumption.
  Qed.

  (* first byte of a number literal *)
  Lemma render_num_first n : num_ok n = true -> exists b r, render_num n = b :: r /\ ws_byte b = false /\ (b = 45 \/ is_digit b = true).
  Proof.
    intros Hok. rewrite render_num_split. destruct (nneg n); cbn [app].
    - eexists 45, _. split; [reflexivity|]. split; [reflexivity|left; reflexivity].
    - destruct (ApNumber.render_abs_head n Hok) as (c & r & -> & Hc). exists c, r. split; [reflexivity|]. split; [apply digit_not_ws, Hc|right; exact Hc].
  Qed.

  Lemma lit_int_val n : lit_int n = TypedInt.int_lit_val (nneg n) (nint n).
  Proof. reflexivity. Qed.

  Lemma unsigned_min (it : Ty.intty) : int_signed it = false -> int_min it = 0%Z.
  Proof. destruct it; try discriminate; reflexivity. Qed.

  (* ---- integers ------------------------------------------------------------------------------------------------------------- *)
  Theorem leaf_int (it : Ty.intty) n fuel fv s w rst : num_ok n = true -> ws_ok w = true -> follow_ok rst ->
    rest s = w ++ render_num n ++ rst -> (1 <= fuel)%nat -> (1 <= fv)%nat -> f12b it (render_num n) = false ->
    okrel2 unborrow (de_value_owned fv cf fx (TInt it) (VNum (NLit (render_num n)))) (de_typed fuel E (TInt it) s) s rst.
  Proof.
    intros Hok Hw Hfol Hr Hfuel Hfv Hx.
    destruct fuel as [|f]; [lia|]. destruct fv as [|fv]; [lia|].
    destruct s as [r0 o p d]. cbn [rest depth] in *. subst r0.
    destruct (render_num_first n Hok) as (b & r & Hren & Hbws & _).
    assert (Hskip : de_typed (S f) E (TInt it) (mkSt (w ++ render_num n ++ rst) o p d)
                    = de_typed (S f) E (TInt it) (mkSt (render_num n ++ rst) (o + length w) p d)).
    { rewrite Hren. cbn [app]. apply int_skip_ws; assumption. }
    rewrite Hskip. clear Hskip Hren Hbws b r. rewrite (value_ap_int_lit fv it n Hok).
    destruct (num_ok_inv n Hok) as (Hint & _).
    pose proof (NumInt.digits_val_ge (nint n) 0%Z ltac:(lia)) as Hnn.
    destruct (lit_is_int n) eqn:Hi; cbn [andb].
    - (* an integer literal *)
      pose proof Hi as Hi'. apply lit_is_int_iff in Hi' as [Hfr Hex]. rewrite (render_int n Hfr Hex), lit_int_val.
      destruct (is_128 it) eqn:H128.
      + (* 128-bit targets: the same test on both routes *)
        destruct it; try discriminate H128; cbn [int_signed orb].
        * rewrite (TypedInt.C06_text_i128 f E (nneg n) (nint n) rst (o + length w) p d eq_refl Hint (nfollow_not_digit rst Hfol)). cbv zeta.
          destruct (Ty.in_range Ty.I128 (TypedInt.int_lit_val (nneg n) (nint n))); cbn [okrel2].
          -- eexists. eexists. split; [reflexivity|]. split; [reflexivity|]. split; reflexivity.
          -- intros d' s' Heq. discriminate Heq.
        * rewrite (TypedInt.C06_text_u128 f E (nneg n) (nint n) rst (o + length w) p d eq_refl Hint (nfollow_not_digit rst Hfol)). cbv zeta.
          destruct (nneg n); cbn [negb andb okrel2]; [intros d' s' Heq; discriminate Heq|].
          destruct (Ty.in_range Ty.U128 (TypedInt.int_lit_val false (nint n))); cbn [okrel2].
          -- eexists. eexists. split; [reflexivity|]. split; [reflexivity|]. split; reflexivity.
          -- intros d' s' Heq. discriminate Heq.
      + (* 8..64-bit targets *)
        pose proof (TypedInt.C06_text_64 f E it (nneg n) (nint n) rst (o + length w) p d eq_refl H128 Hint (follow_stops rst Hfol)) as HT.
        cbv zeta in HT. unfold TypedInt.is_neg_zero in HT.
        assert (Hcond : (int_signed it || negb (nneg n)) && Ty.in_range it (TypedInt.int_lit_val (nneg n) (nint n))
                        = Ty.in_range it (TypedInt.int_lit_val (nneg n) (nint n)) && negb (nneg n && (digits_val (nint n) 0 =? 0)%Z)).
        { destruct (nneg n) eqn:Hneg; cbn [negb andb orb]; [|rewrite orb_true_r, andb_true_r; reflexivity].
          rewrite orb_false_r. unfold TypedInt.int_lit_val.
          destruct (digits_val (nint n) 0 =? 0)%Z eqn:Hz; cbn [negb].
          - (* -0 *) rewrite andb_false_r. apply Z.eqb_eq in Hz.
            destruct (int_signed it) eqn:Hs; cbn [andb]; [|reflexivity]. exfalso.
            unfold f12b in Hx. rewrite Hs, H128, (neg_zero_render n Hok Hi Hneg Hz), beq_bytes_refl in Hx. discriminate Hx.
          - rewrite andb_true_r. destruct (int_signed it) eqn:Hs; cbn [andb]; [reflexivity|].
            symmetry. unfold Ty.in_range. rewrite (unsigned_min it Hs). apply Z.eqb_neq in Hz. lia. }
        rewrite Hcond.
        destruct (Ty.in_range it (TypedInt.int_lit_val (nneg n) (nint n)) && negb (nneg n && (digits_val (nint n) 0 =? 0)%Z)).
        * rewrite HT. cbn [okrel2]. eexists. eexists. split; [reflexivity|]. split; [reflexivity|]. split; reflexivity.
        * destruct HT as (c & i & -> & _). cbn [okrel2]. intros d' s' Heq. discriminate Heq.
    - (* a fraction or an exponent: the Value route fails; the text route fails (8..64 bit) or stops in front of it (128 bit) *)
      assert (Hfe : nfrac n <> None \/ nexp n <> None).
      { unfold lit_is_int in Hi. destruct (nfrac n); [left; discriminate|]. destruct (nexp n); [right; discriminate|discriminate Hi]. }
      destruct (render_float n Hok Hfe) as (c0 & tl0 & Hrn & Hc0). rewrite Hrn, <- app_assoc. cbn [app okrel2].
      destruct (is_128 it) eqn:H128.
      + assert (Hnd : TypedInt.not_digit_next (c0 :: tl0 ++ rst)) by (cbn [TypedInt.not_digit_next]; destruct Hc0 as [->|[->| ->]]; reflexivity).
        assert (Hst : forall x, stuck (rest (NumInt.st_after x (c0 :: tl0 ++ rst) (o + length w) d))).
        { intros x. cbn [NumInt.st_after rest]. exists c0, (tl0 ++ rst). auto. }
        destruct it; try discriminate H128.
        * rewrite (TypedInt.C06_text_i128 f E (nneg n) (nint n) (c0 :: tl0 ++ rst) (o + length w) p d eq_refl Hint Hnd). cbv zeta.
          destruct (Ty.in_range Ty.I128 _); intros d' s' Heq; [|discriminate Heq]. injection Heq as _ <-. apply Hst.
        * rewrite (TypedInt.C06_text_u128 f E (nneg n) (nint n) (c0 :: tl0 ++ rst) (o + length w) p d eq_refl Hint Hnd). cbv zeta.
          destruct (nneg n); [intros d' s' Heq; discriminate Heq|].
          destruct (Ty.in_range Ty.U128 _); intros d' s' Heq; [|discriminate Heq]. injection Heq as _ <-. apply Hst.
      + intros d' s' Heq. exfalso.
        apply (TypedInt.C06_frac_exp_never_int f E it (nneg n) (nint n) c0 (tl0 ++ rst) (o + length w) p d (d', s') eq_refl H128 Hint); [|exact Heq].
        destruct Hc0 as [->|[->| ->]]; auto.
  Qed.

  (* ---- f64 (float_roundtrip: both routes round to nearest even) --------------------------------------------------------------- *)
  Lemma lit_value_eq n : lit_value n = (lit_mantissa n, lit_exponent n).
  Proof.
    unfold lit_value, lit_mantissa, lit_exponent, frac_digits, lit_frac, exp_value, lit_exp_written, lit_exp_neg.
    destruct (nexp n) as [[[e [c|]] ds]|]; try reflexivity.
  Qed.

  Lemma b64_of_Z_rne m : (0 <= m)%Z -> b64_of_Z m = rne_decimal m 0.
  Proof.
    intros Hm. unfold rne_decimal. destruct (m <=? 0)%Z eqn:H0.
    - assert (m = 0%Z) by lia. subst m. reflexivity.
    - pose proof (Z.log2_nonneg m) as Hl. change (400 <? 0)%Z with false. cbv iota.
      assert (H1 : (0 <? - (400 + Z.log2 m))%Z = false) by lia. rewrite H1. change (0 <=? 0)%Z with true. cbv iota.
      rewrite Z.pow_0_r, Z.mul_1_r. reflexivity.
  Qed.

  Lemma b64_of_Z_opp z : (0 < z <= Z.of_N u64_max)%Z -> b64_of_Z (- z) = b64_neg (b64_of_Z z).
  Proof.
    intros Hz. destruct (b64_of_Z_u64 z ltac:(lia)) as (HR & Hfin & Hsg).
    assert (Hlt : (Rabs (RNE64 (F2R (Float radix2 (- z) 0))) < bpow radix2 1024)%R).
    { rewrite F2R_e0. apply Rle_lt_trans with (bpow radix2 64); [|apply bpow_lt; lia].
      apply RNE64_abs_le; [apply format_bpow64; lia|].
      rewrite <- abs_IZR, bpow_IZR by lia. apply IZR_le. change (Z.of_N u64_max) with (2 ^ 64 - 1)%Z in Hz. lia. }
    destruct (bn_correct (- z) 0 false Hlt) as (H1 & H2 & H3). rewrite F2R_e0 in H1, H3.
    fold (b64_of_Z (- z)) in H1, H2, H3.
    apply B2R_Bsign_inj.
    - exact H2.
    - unfold b64_neg. rewrite is_finite_Bopp. exact Hfin.
    - unfold b64_neg. rewrite H1, B2R_Bopp, HR, opp_IZR. apply RNE64_opp.
    - unfold b64_neg. rewrite H3, Bsign_Bopp, Hsg; [|destruct (b64_of_Z z); try reflexivity; discriminate Hfin].
      destruct (Rcompare_spec (IZR (- z)) 0) as [Hc|Hc|Hc]; try reflexivity; exfalso.
      + apply eq_IZR_R0 in Hc. lia.
      + apply lt_IZR in Hc. lia.
  Qed.

  (* the i64 answer of parse_number for a negative literal *)
  Lemma wrap_neg m0 : (0 <= m0 <= Z.of_N u64_max)%Z -> (0 <=? wrap_i64 (- wrap_i64 m0))%Z = false ->
    wrap_i64 (- wrap_i64 m0) = (- m0)%Z /\ (0 < m0)%Z.
  Proof.
    unfold wrap_i64, u64_max. intros Hm Hw. apply Z.leb_gt in Hw.
    destruct (Z_lt_ge_dec m0 9223372036854775808) as [Hlt|Hge].
    - assert (H1 : ((m0 + 9223372036854775808) mod 18446744073709551616 = m0 + 9223372036854775808)%Z) by (apply Z.mod_small; lia).
      rewrite H1 in *. replace (m0 + 9223372036854775808 - 9223372036854775808)%Z with m0 in * by lia.
      destruct (Z.eq_dec m0 0) as [->|Hne]; [exfalso; revert Hw; vm_compute; discriminate|].
      assert (H2 : ((- m0 + 9223372036854775808) mod 18446744073709551616 = - m0 + 9223372036854775808)%Z) by (apply Z.mod_small; lia).
      rewrite H2 in *. lia.
    - assert (H1 : ((m0 + 9223372036854775808) mod 18446744073709551616 = m0 - 9223372036854775808)%Z).
      { symmetry. apply (Z.mod_unique_pos _ _ 1); lia. }
      rewrite H1 in *.
      replace (- (m0 - 9223372036854775808 - 9223372036854775808) + 9223372036854775808)%Z with (27670116110564327424 - m0)%Z in * by lia.
      destruct (Z.eq_dec m0 9223372036854775808) as [->|Hne]; [split; [vm_compute; reflexivity|lia]|exfalso].
      assert (H3 : ((27670116110564327424 - m0) mod 18446744073709551616 = 27670116110564327424 - m0)%Z) by (apply Z.mod_small; lia).
      rewrite H3 in Hw. lia.
  Qed.

  (* the same build without the feature: the typed number requests do not look at it (C20_typed_same) *)
  Definition cf0 : cfg := mkCfg (preserve_order cf) (float_roundtrip cf) false (limit_disabled cf).
  Local Notation E0 := (mkEnv RSlice TEof cf0).

  Lemma parse_integer_E0 positive s : parse_integer E positive s = parse_any_number E0 positive s.
  Proof. rewrite (parse_integer_feature_indep RSlice TEof cf cf0 positive s eq_refl). reflexivity. Qed.

  (* deserialize_number on the literal *)
  Lemma deserialize_number_lit visit n rst o p d : num_ok n = true ->
    deserialize_number E visit (mkSt (render_num n ++ rst) o p d) =
    fix_position E (let^ (pn, s2) := parse_any_number E0 (negb (nneg n))
                                       (mkSt (render_abs n ++ rst) (if nneg n then S o else o) (negb (nneg n)) d) in visit pn s2).
  Proof.
    intros Hok. unfold deserialize_number. rewrite render_num_split. destruct (nneg n); cbn [app negb].
    - rewrite (TypedInt.parse_whitespace_hd E 45 _ o p d eq_refl). cbn [lift tbind]. change (45 =? 45) with true. cbv iota.
      rewrite parse_integer_E0. reflexivity.
    - destruct (ApNumber.render_abs_head n Hok) as (c & r & Hcr & Hc). rewrite Hcr. cbn [app].
      assert (Hws : is_ws c = false) by (apply ws_byte_is_ws, digit_not_ws, Hc).
      rewrite (TypedInt.parse_whitespace_hd E c _ o p d Hws). cbn [lift tbind].
      assert (H45 : (c =? 45) = false) by (unfold is_digit in Hc; lia). rewrite H45, Hc.
      rewrite parse_integer_E0. reflexivity.
  Qed.

  Theorem leaf_f64 n fuel fv s w rst : float_roundtrip cf = true -> num_ok n = true -> ws_ok w = true -> follow_ok rst ->
    rest s = w ++ render_num n ++ rst -> (1 <= fuel)%nat -> (1 <= fv)%nat -> short_lit (render_num n) = true ->
    okrel2 unborrow (de_value_owned fv cf fx TF64 (VNum (NLit (render_num n)))) (de_typed fuel E TF64 s) s rst.
  Proof.
    intros Hfr Hok Hw Hfol Hr Hfuel Hfv Hshort.
    destruct fuel as [|f]; [lia|]. destruct fv as [|fv]; [lia|].
    destruct s as [r0 o p d]. cbn [rest depth] in *. subst r0.
    destruct (render_num_first n Hok) as (b & r & Hren & Hbws & _).
    cbn [de_typed].
    assert (Hskip : deserialize_number E visit_f64 (mkSt (w ++ render_num n ++ rst) o p d)
                    = deserialize_number E visit_f64 (mkSt (render_num n ++ rst) (o + length w) p d)).
    { rewrite Hren. cbn [app]. apply number_skip_ws; assumption. }
    rewrite Hskip, (deserialize_number_lit visit_f64 n rst _ p d Hok). clear Hskip Hren Hbws b r.
    rewrite (value_ap_f64_lit fv n Hok). cbv zeta.
    set (o1 := if nneg n then S (o + length w) else (o + length w)%nat).
    pose proof (lex_glue E0 n (negb (nneg n)) rst o1 (negb (nneg n)) d eq_refl Hfr eq_refl Hok (follow_fw n rst Hfol) (short_lit_abs n Hshort)) as G.
    rewrite lit_value_eq in G. cbv zeta in G.
    pose proof (lit_mantissa_nonneg n) as Hm0.
    set (m0 := lit_mantissa n) in *. set (e0 := lit_exponent n) in *.
    destruct (int_syntax n && (m0 <=? Z.of_N u64_max)%Z) eqn:Hcase.
    - (* an integer literal within u64: the three-way integer answer, converted by `as f64` *)
      apply andb_prop in Hcase as [Hsyn Hle]. apply Z.leb_le in Hle.
      assert (He0 : e0 = 0%Z).
      { unfold e0, lit_exponent, lit_exp_written, lit_frac. unfold int_syntax in Hsyn.
        destruct (nfrac n); [discriminate Hsyn|]. destruct (nexp n); [discriminate Hsyn|]. reflexivity. }
      rewrite He0, <- (b64_of_Z_rne m0 Hm0).
      destruct (b64_of_Z_u64 m0 (conj Hm0 Hle)) as (_ & Hfin & _). rewrite (finite_not_inf _ Hfin).
      rewrite G. cbn [lift tbind]. cbn [okrel2].
      destruct (nneg n); cbn [negb].
      + destruct (0 <=? wrap_i64 (- wrap_i64 m0))%Z eqn:Hwr; cbn [visit_f64 fix_position].
        * eexists. eexists. split; [reflexivity|]. split; [reflexivity|]. split; reflexivity.
        * destruct (wrap_neg m0 (conj Hm0 Hle) Hwr) as [-> Hpos]. rewrite (b64_of_Z_opp m0 (conj Hpos Hle)).
          eexists. eexists. split; [reflexivity|]. split; [reflexivity|]. split; reflexivity.
      + cbn [visit_f64 fix_position]. rewrite Z2N.id by exact Hm0.
        eexists. eexists. split; [reflexivity|]. split; [reflexivity|]. split; reflexivity.
    - (* the float path: lexical on a pair denoting the literal's value *)
      destruct G as (m & e & Hm & Hsame & G).
      assert (Heq : rne_decimal m e = rne_decimal m0 e0).
      { apply rne_decimal_value; [exact Hm|exact Hm0|]. apply same_value_real. exact Hsame. }
      unfold glue_float in G. cbv zeta in G. rewrite Heq in G.
      destruct (b64_is_inf (rne_decimal m0 e0)); cbn [okrel2].
      + destruct G as [i ->]. cbn [lift tbind fix_position]. intros d' s' Hd. discriminate Hd.
      + rewrite G. cbn [lift tbind visit_f64 fix_position].
        destruct (nneg n); cbn [negb]; eexists; eexists; (split; [reflexivity|]); (split; [reflexivity|]); split; reflexivity.
  Qed.

  (* ---- targets that are not numbers: type error on the Value route, the request refuses the first byte on the text route ------ *)
  Definition non_number_scalar (t : ty) : bool :=
    match t with TBool | TUnit | TUnitStruct | TStr | TChar => true | _ => false end.

  Theorem leaf_reject t n fuel fv s w rst : non_number_scalar t = true -> num_ok n = true -> ws_ok w = true ->
    rest s = w ++ render_num n ++ rst -> (1 <= fuel)%nat -> (1 <= fv)%nat ->
    okrel2 unborrow (de_value_owned fv cf fx t (VNum (NLit (render_num n)))) (de_typed fuel E t s) s rst.
  Proof.
    intros Ht Hok Hw Hr Hfuel Hfv. destruct fuel as [|f]; [lia|]. destruct fv as [|fv]; [lia|].
    destruct (render_num_first n Hok) as (b & r & Hren & Hbws & Hb).
    rewrite Hren in Hr. revert Hr. lnorm. intros Hr.
    assert (Hv : de_value_owned (S fv) cf fx t (VNum (NLit (render_num n))) = verr MInvalidType)
      by (destruct t; try discriminate Ht; reflexivity).
    rewrite Hv. apply okrel2_not_ok. unfold not_ok. apply (reject_not_ok cf t f s w b (r ++ rst) Hw Hbws Hr).
    destruct t; try discriminate Ht; cbn [rejects]; destruct Hb as [->|Hd]; repeat split; try discriminate; unfold is_digit in Hd; lia.
  Qed.

  (* ---- IgnoredAny --------------------------------------------------------------------------------------------------------------- *)
  Theorem leaf_ignored n fuel fv s w rst : num_ok n = true -> ws_ok w = true -> follow_ok rst ->
    rest s = w ++ render_num n ++ rst -> (1 <= fuel)%nat -> (1 <= fv)%nat ->
    okrel2 unborrow (de_value_owned fv cf fx TIgnored (VNum (NLit (render_num n)))) (de_typed fuel E TIgnored s) s rst.
  Proof.
    intros Hok Hw Hfol Hr Hfuel Hfv. destruct fuel as [|f]; [lia|]. destruct fv as [|fv]; [lia|].
    cbn [de_value_owned de_typed okrel2]. destruct s as [r0 o0 p0 d0]. cbn [rest depth] in *. subst r0.
    destruct (ignore_value_complete cf w (CNum n) rst o0 p0 d0 Hw Hok (follow_nfollow _ Hfol)) as [pk' Hi].
    cbn [render] in Hi. rewrite Hi. cbn [lift tbind]. eexists. eexists. split; [reflexivity|]. split; [reflexivity|]. split; reflexivity.
  Qed.

  (* ---- the statement form shared with the container lemmas -------------------------------------------------------------------- *)
  Definition num_agree (t : ty) : Prop := forall n fuel fv s w rst,
    num_ok n = true -> ws_ok w = true -> follow_ok rst -> rest s = w ++ render_num n ++ rst ->
    (ty_depth t <= fuel)%nat -> (ty_depth t <= fv)%nat -> claim_ap fx fv t (VNum (NLit (render_num n))) = true ->
    okrel2 unborrow (de_value_owned fv cf fx t (VNum (NLit (render_num n)))) (de_typed fuel E t s) s rst.

  Lemma num_agree_int (it : Ty.intty) : num_agree (TInt it).
  Proof.
    intros n fuel fv s w rst Hok Hw Hfol Hr Hfuel Hfv Hcl. cbn [ty_depth] in Hfuel, Hfv.
    apply (leaf_int it n fuel fv s w rst); try assumption. destruct fv as [|fv]; [lia|]. cbn [claim_ap] in Hcl. destruct (f12b it (render_num n)); [discriminate Hcl|reflexivity].
  Qed.

  Lemma num_agree_f64 : float_roundtrip cf = true -> num_agree TF64.
  Proof.
    intros Hfr n fuel fv s w rst Hok Hw Hfol Hr Hfuel Hfv Hcl. cbn [ty_depth] in Hfuel, Hfv.
    apply (leaf_f64 n fuel fv s w rst); try assumption. destruct fv as [|fv]; [lia|]. exact Hcl.
  Qed.

  Lemma num_agree_reject t : non_number_scalar t = true -> num_agree t.
  Proof.
    intros Ht n fuel fv s w rst Hok Hw Hfol Hr Hfuel Hfv _.
    assert (Hd : ty_depth t = 1%nat) by (destruct t; try discriminate Ht; reflexivity). rewrite Hd in Hfuel, Hfv.
    apply (leaf_reject t n fuel fv s w rst); assumption.
  Qed.

  Lemma num_agree_ignored : num_agree TIgnored.
  Proof. intros n fuel fv s w rst Hok Hw Hfol Hr Hfuel Hfv _. cbn [ty_depth] in Hfuel, Hfv. apply (leaf_ignored n fuel fv s w rst); assumption. Qed.

  Lemma num_agree_option t1 : num_agree t1 -> num_agree (TOption t1).
  Proof.
    intros IH n fuel fv s w rst Hok Hw Hfol Hr Hfuel Hfv Hcl. cbn [ty_depth] in Hfuel, Hfv.
    destruct fuel as [|f]; [lia|]. destruct fv as [|fv]; [lia|].
    destruct (render_num_first n Hok) as (b & r & Hren & Hbws & Hb).
    pose proof Hr as Hr0. rewrite Hren in Hr. revert Hr. lnorm. intros Hr.
    destruct (pws_head cf s w b (r ++ rst) Hw Hbws Hr) as (s1 & Hpw & Hr1 & Hd1).
    cbn [de_typed]. rewrite Hpw. cbn [lift tbind].
    assert (H110 : (b =? 110) = false) by (destruct Hb as [->|Hd]; [reflexivity|unfold is_digit in Hd; lia]). rewrite H110.
    cbn [de_value_owned claim_ap] in Hcl |- *.
    apply okrel2_map; [intros a b' Hab; cbn [unborrow]; rewrite Hab; reflexivity|].
    apply (okrel2_depth unborrow _ _ s1 s rst Hd1).
    apply (IH n f fv s1 [] rst); try assumption; try reflexivity; try lia.
    rewrite Hr1, Hren. lnorm. reflexivity.
  Qed.

  Lemma num_agree_newtype t1 : num_agree t1 -> num_agree (TNewtype t1).
  Proof.
    intros IH n fuel fv s w rst Hok Hw Hfol Hr Hfuel Hfv Hcl. cbn [ty_depth] in Hfuel, Hfv.
    destruct fuel as [|f]; [lia|]. destruct fv as [|fv]; [lia|].
    cbn [de_typed de_value_owned claim_ap] in Hcl |- *.
    apply okrel2_map; [intros a b' Hab; cbn [unborrow]; rewrite Hab; reflexivity|].
    apply (IH n f fv s w rst); try assumption; lia.
  Qed.

  (* the scalar targets: bool, unit, unit struct, String, char, the ten integer types, f64, IgnoredAny, Option / newtype nests *)
  Fixpoint scalar_ty (t : ty) : bool :=
    match t with
    | TBool | TUnit | TUnitStruct | TStr | TChar | TInt _ | TF64 | TIgnored => true
    | TOption t1 | TNewtype t1 => scalar_ty t1
    | _ => false
    end.
  Fixpoint scalar_has_f64 (t : ty) : bool :=
    match t with TF64 => true | TOption t1 | TNewtype t1 => scalar_has_f64 t1 | _ => false end.

  Theorem num_agree_scalar : forall t, scalar_ty t = true -> (scalar_has_f64 t = true -> float_roundtrip cf = true) -> num_agree t.
  Proof.
    induction t as [| | | |it| | | | | | | | |t1 IHt|t1 IHt|t1 IHt1|ts|ts|kk t1 IHt1|fs|vs]; intros Ht Hf; cbn [scalar_ty scalar_has_f64] in Ht, Hf; try discriminate Ht;
      try (apply num_agree_reject; reflexivity).
    - apply num_agree_ignored.
    - apply num_agree_int.
    - apply num_agree_f64, Hf. reflexivity.
    - apply num_agree_option, IHt; assumption.
    - apply num_agree_newtype, IHt; assumption.
  Qed.

  Lemma scalar_owned : forall t, scalar_ty t = true -> owned_ty t = true.
  Proof.
    induction t as [| | | |it| | | | | | | | |t1 IHt|t1 IHt|t1 IHt1|ts|ts|kk t1 IHt1|fs|vs]; intros Ht; cbn [scalar_ty owned_ty] in *; try discriminate Ht; try reflexivity; apply IHt, Ht.
  Qed.

  (* from the reader-state form to from_str on the literal alone *)
  Lemma num_agree_text t n : num_agree t -> num_ok n = true ->
    claim_ap fx (value_de_fuel t) t (VNum (NLit (render_num n))) = true ->
    agree (from_value_owned cf fx t (VNum (NLit (render_num n)))) (from_input_typed E t (render_num n)).
  Proof.
    intros Hag Hok Hcl. unfold from_value_owned, from_input_typed.
    assert (Hr0 : rest (init_st (render_num n)) = [] ++ render_num n ++ []) by (cbn [init_st rest app]; rewrite app_nil_r; reflexivity).
    assert (Hfuel : (ty_depth t <= typed_fuel t (render_num n))%nat) by (unfold typed_fuel; lia).
    assert (Hfv : (ty_depth t <= value_de_fuel t)%nat) by (unfold value_de_fuel; lia).
    pose proof (Hag n (typed_fuel t (render_num n)) (value_de_fuel t) (init_st (render_num n)) [] [] Hok eq_refl I Hr0 Hfuel Hfv Hcl) as H.
    unfold agree. destruct (de_value_owned (value_de_fuel t) cf fx t (VNum (NLit (render_num n)))) as [d| | |]; cbn [okrel2] in H; try contradiction.
    - destruct H as (d' & s' & Hde & Hu & Hr & _). rewrite Hde. cbn [tbind].
      destruct (de_end_nil cf s' Hr) as [s1 He]. rewrite He. cbn [lift tbind]. exists d'. auto.
    - intros b. destruct (de_typed (typed_fuel t (render_num n)) E t (init_st (render_num n))) as [[d' s']| | | |] eqn:Hde;
        cbn [tbind]; try discriminate.
      pose proof (de_end_stuck cf s' (H d' s' eq_refl)) as Hst.
      destruct (de_end E s') as [s1| | |] eqn:He; cbn [lift tbind]; try discriminate. exfalso. exact (Hst s1 eq_refl).
  Qed.
End ApLeaves.

(* ================================================================================================================================
   4. Main statements of this file
   ================================================================================================================================ *)
Lemma agree_transfer_ap r1 r2 tr : same_mod_borrow r1 r2 -> agree r1 tr -> agree r2 tr.
Proof.
  unfold same_mod_borrow, agree. destruct r1, r2; try tauto.
  intros H (b & Hb & Hu). exists b. split; [exact Hb|]. congruence.
Qed.

(* F12b, decoded *)
Lemma f12b_true_iff (it : Ty.intty) n : num_ok n = true ->
  (f12b it (render_num n) = true <->
   int_signed it = true /\ is_128 it = false /\ nneg n = true /\ nint n = [48] /\ nfrac n = None /\ nexp n = None).
Proof.
  intros Hok. unfold f12b. split.
  - intros H. apply andb_prop in H as [H Hb]. apply andb_prop in H as [Hs H128]. apply beq_bytes_eq in Hb.
    split; [exact Hs|]. split; [destruct (is_128 it); [discriminate H128|reflexivity]|].
    rewrite render_num_split in Hb. destruct (ApNumber.render_abs_head n Hok) as (c & r & Hcr & Hc).
    destruct (nneg n) eqn:Hneg; cbn [app] in Hb.
    + unfold neg_zero_lit in Hb. injection Hb as Hb. split; [reflexivity|].
      rewrite render_abs_eq in Hb. destruct (num_ok_inv n Hok) as (Hint & Hf & Hx).
      destruct (nint n) as [|c0 r0] eqn:Hn; [discriminate Hint|]. cbn [app] in Hb. injection Hb as -> Hb.
      apply app_eq_nil in Hb as [-> Hb]. apply app_eq_nil in Hb as [Hb1 Hb2].
      split; [reflexivity|]. split.
      * destruct (nfrac n); [discriminate Hb1|reflexivity].
      * destruct (nexp n) as [[[e sg] ds]|]; [discriminate Hb2|reflexivity].
    + rewrite Hcr in Hb. unfold neg_zero_lit in Hb. injection Hb as -> _. discriminate Hc.
  - intros (Hs & H128 & Hneg & Hint & Hf & Hx). rewrite Hs, H128, (render_int n Hf Hx), Hneg, Hint. reflexivity.
Qed.

(* C06 through a Value of this build, all ten integer targets: both routes exactly, and where they part *)
Theorem C06_value_ap_all : forall cf fx (it : Ty.intty) n, arbitrary_precision cf = true -> num_ok n = true ->
  let lit := render_num n in
  let v := VNum (NLit lit) in
  let E := mkEnv RSlice TEof cf in
  (* the Value routes: str::parse — the literal's exact integer value iff it has neither fraction nor exponent, its sign is
     accepted by the target and the value is in range; never another value *)
  from_value_owned cf fx (TInt it) v =
    (if lit_is_int n && (int_signed it || negb (nneg n)) && Ty.in_range it (lit_int n)
     then VOk (DInt (lit_int n)) else VErr InvalidNumber 0 0)
  /\ same_mod_borrow (from_value_owned cf fx (TInt it) v) (from_value_ref cf fx (TInt it) v)
  (* against from_str on the Number's text: same success, same value, or both fail — unless F12b *)
  /\ (f12b it lit = false ->
      agree (from_value_owned cf fx (TInt it) v) (from_input_typed E (TInt it) lit)
      /\ agree (from_value_ref cf fx (TInt it) v) (from_input_typed E (TInt it) lit))
  (* F12b: `-0` into i8 / i16 / i32 / i64 is 0 through the Value and an error through the text *)
  /\ (f12b it lit = true ->
      from_value_owned cf fx (TInt it) v = VOk (DInt 0) /\ exists c i, from_input_typed E (TInt it) lit = TErr c i).
Proof.
  intros cf fx it n Hap Hok lit v E.
  assert (Hval : from_value_owned cf fx (TInt it) v =
                 (if lit_is_int n && (int_signed it || negb (nneg n)) && Ty.in_range it (lit_int n)
                  then VOk (DInt (lit_int n)) else VErr InvalidNumber 0 0)) by (apply C06_value_ap_lit; assumption).
  assert (Hsame : same_mod_borrow (from_value_owned cf fx (TInt it) v) (from_value_ref cf fx (TInt it) v))
    by (apply owned_ref_agree; reflexivity).
  split; [exact Hval|]. split; [exact Hsame|]. split.
  - intros Hx.
    assert (Hag : agree (from_value_owned cf fx (TInt it) v) (from_input_typed E (TInt it) lit)).
    { apply (num_agree_text cf fx Hap (TInt it) n (num_agree_int cf fx Hap it) Hok).
      unfold value_de_fuel. cbn [ty_depth claim_ap]. fold lit. rewrite Hx. reflexivity. }
    split; [exact Hag|exact (agree_transfer_ap _ _ _ Hsame Hag)].
  - intros Hx. apply (f12b_true_iff it n Hok) in Hx as (Hs & H128 & Hneg & Hint & Hf & Hxp). split.
    + rewrite Hval. unfold lit_is_int, lit_int, lit_abs. rewrite Hf, Hxp, Hs, Hneg, Hint. cbn [andb orb digits_val].
      destruct it; try discriminate Hs; try discriminate H128; reflexivity.
    + unfold lit. rewrite (render_int n Hf Hxp), Hneg, Hint. unfold from_input_typed.
      pose proof (TypedInt.C06_text_64 (typed_fuel (TInt it) (TypedInt.int_lit true [48]) - 1) E it true [48] [] 0 false DEPTH0 eq_refl H128 eq_refl I) as HT.
      cbv zeta in HT. replace (Ty.in_range it (TypedInt.int_lit_val true [48]) && negb (TypedInt.is_neg_zero true [48])) with false in HT
        by (rewrite andb_false_r; reflexivity).
      destruct HT as (c & i & HT & _). exists c, i.
      change (init_st (TypedInt.int_lit true [48])) with (mkSt (TypedInt.int_lit true [48] ++ []) 0 false DEPTH0).
      replace (typed_fuel (TInt it) (TypedInt.int_lit true [48])) with (S (typed_fuel (TInt it) (TypedInt.int_lit true [48]) - 1)) by (unfold typed_fuel; lia).
      rewrite HT. reflexivity.
Qed.

(* the exclusions of [claim_ap] on a scalar target, spelled out *)
Fixpoint scalar_core (t : ty) : ty := match t with TOption t1 | TNewtype t1 => scalar_core t1 | _ => t end.
Definition scalar_excluded (t : ty) (lit : bytes) : bool :=
  match scalar_core t with
  | TInt it => f12b it lit
  | TF64 => negb (short_lit lit)
  | _ => false
  end.

Lemma claim_ap_scalar fx lit : forall t fuel, scalar_ty t = true -> (ty_depth t <= fuel)%nat ->
  claim_ap fx fuel t (VNum (NLit lit)) = negb (scalar_excluded t lit).
Proof.
  unfold scalar_excluded.
  induction t as [| | | |it| | | | | | | | |t1 IHt|t1 IHt|t1 IHt1|ts|ts|kk t1 IHt1|fs|vs]; intros fuel Ht Hf; cbn [scalar_ty] in Ht; try discriminate Ht; cbn [ty_depth] in Hf;
    (destruct fuel as [|f]; [lia|]); cbn [claim_ap scalar_core]; try reflexivity.
  - rewrite negb_involutive. reflexivity.
  - apply IHt; [exact Ht|lia].
  - apply IHt; [exact Ht|lia].
Qed.

(* C16 under arbitrary_precision, scalar targets, on a Number holding any well-formed literal: from_value::<T>(v), T::deserialize(&v)
   and from_str::<T>(&to_string(&v)) (the text IS the literal: [ap_number_text]) all succeed with the same result or all fail,
   except F12b; f64 needs float_roundtrip (and the literal shorter than 10^8 bytes) *)
Theorem C16_ap_scalars : forall cf fx t n, arbitrary_precision cf = true -> num_ok n = true -> scalar_ty t = true ->
  (scalar_has_f64 t = true -> float_roundtrip cf = true) ->
  scalar_excluded t (render_num n) = false ->
  let v := VNum (NLit (render_num n)) in
  agree (from_value_owned cf fx t v) (from_input_typed (mkEnv RSlice TEof cf) t (render_num n))
  /\ agree (from_value_ref cf fx t v) (from_input_typed (mkEnv RSlice TEof cf) t (render_num n))
  /\ same_mod_borrow (from_value_owned cf fx t v) (from_value_ref cf fx t v).
Proof.
  intros cf fx t n Hap Hok Ht Hf Hx v.
  assert (Hsame : same_mod_borrow (from_value_owned cf fx t v) (from_value_ref cf fx t v))
    by (apply owned_ref_agree, scalar_owned, Ht).
  assert (Hag : agree (from_value_owned cf fx t v) (from_input_typed (mkEnv RSlice TEof cf) t (render_num n))).
  { apply (num_agree_text cf fx Hap t n (num_agree_scalar cf fx Hap t Ht Hf) Hok).
    rewrite (claim_ap_scalar fx (render_num n) t (value_de_fuel t) Ht) by (unfold value_de_fuel; lia). rewrite Hx. reflexivity. }
  split; [exact Hag|]. split; [exact (agree_transfer_ap _ _ _ Hsame Hag)|exact Hsame].
Qed.

(* ================================================================================================================================
   5. Witnesses: every exclusion is a real disagreement; the neighbouring literals are not
   ================================================================================================================================ *)
Definition ap_cfa : cfg := mkCfg false false true false.       (* arbitrary_precision *)
Definition ap_cfar : cfg := mkCfg false true true false.       (* arbitrary_precision + float_roundtrip *)
Definition ap_fx0 : fenv := mkFenv (fun _ => []) (fun _ => []).
Local Notation Ea := (mkEnv RSlice TEof ap_cfa).
Local Notation Ear := (mkEnv RSlice TEof ap_cfar).

(* F12b: `-0` *)
Example F12b_i8 : from_value_owned ap_cfa ap_fx0 (TInt Ty.I8) (VNum (NLit [45; 48])) = VOk (DInt 0)
  /\ from_input_typed Ea (TInt Ty.I8) [45; 48] = TErr (Message MInvalidType) 2.
Proof. split; vm_compute; reflexivity. Qed.
Example F12b_i16 : from_value_owned ap_cfa ap_fx0 (TInt Ty.I16) (VNum (NLit [45; 48])) = VOk (DInt 0)
  /\ from_input_typed Ea (TInt Ty.I16) [45; 48] = TErr (Message MInvalidType) 2.
Proof. split; vm_compute; reflexivity. Qed.
Example F12b_i32 : from_value_owned ap_cfa ap_fx0 (TInt Ty.I32) (VNum (NLit [45; 48])) = VOk (DInt 0)
  /\ from_input_typed Ea (TInt Ty.I32) [45; 48] = TErr (Message MInvalidType) 2.
Proof. split; vm_compute; reflexivity. Qed.
Example F12b_i64 : from_value_ref ap_cfa ap_fx0 (TInt Ty.I64) (VNum (NLit [45; 48])) = VOk (DInt 0)
  /\ from_input_typed Ea (TInt Ty.I64) [45; 48] = TErr (Message MInvalidType) 2.
Proof. split; vm_compute; reflexivity. Qed.
Example F12b_option_newtype : from_value_owned ap_cfa ap_fx0 (TOption (TNewtype (TInt Ty.I8))) (VNum (NLit [45; 48])) = VOk (DSome (DNewtype (DInt 0)))
  /\ from_input_typed Ea (TOption (TNewtype (TInt Ty.I8))) [45; 48] = TErr (Message MInvalidType) 2.
Proof. split; vm_compute; reflexivity. Qed.
(* ... and nothing else: i128 reads `-0` as 0 on both routes, the unsigned targets refuse it on both routes *)
Example neg_zero_i128 : from_value_owned ap_cfa ap_fx0 (TInt Ty.I128) (VNum (NLit [45; 48])) = VOk (DInt 0)
  /\ from_input_typed Ea (TInt Ty.I128) [45; 48] = TOk (DInt 0).
Proof. split; vm_compute; reflexivity. Qed.
Example neg_zero_u8 : from_value_owned ap_cfa ap_fx0 (TInt Ty.U8) (VNum (NLit [45; 48])) = VErr InvalidNumber 0 0
  /\ from_input_typed Ea (TInt Ty.U8) [45; 48] = TErr (Message MInvalidType) 2.
Proof. split; vm_compute; reflexivity. Qed.
Example neg_zero_u128 : from_value_owned ap_cfa ap_fx0 (TInt Ty.U128) (VNum (NLit [45; 48])) = VErr InvalidNumber 0 0
  /\ from_input_typed Ea (TInt Ty.U128) [45; 48] = TErr NumberOutOfRange 1.
Proof. split; vm_compute; reflexivity. Qed.
(* `-0.0` and `1e2` (an integer-valued literal with an exponent): both routes refuse, for 64- and 128-bit targets *)
Example neg_zero_frac_i64 : from_value_owned ap_cfa ap_fx0 (TInt Ty.I64) (VNum (NLit [45; 48; 46; 48])) = VErr InvalidNumber 0 0
  /\ from_input_typed Ea (TInt Ty.I64) [45; 48; 46; 48] = TErr (Message MInvalidType) 4.
Proof. split; vm_compute; reflexivity. Qed.
Example exp_int_i64 : from_value_owned ap_cfa ap_fx0 (TInt Ty.I64) (VNum (NLit [49; 101; 50])) = VErr InvalidNumber 0 0
  /\ from_input_typed Ea (TInt Ty.I64) [49; 101; 50] = TErr (Message MInvalidType) 3.
Proof. split; vm_compute; reflexivity. Qed.
Example exp_int_i128 : from_value_owned ap_cfa ap_fx0 (TInt Ty.I128) (VNum (NLit [49; 101; 50])) = VErr InvalidNumber 0 0
  /\ from_input_typed Ea (TInt Ty.I128) [49; 101; 50] = TErr TrailingCharacters 2
  /\ de_typed 5 Ea (TInt Ty.I128) (init_st [49; 101; 50]) = TOk (DInt 1, mkSt [101; 50] 1 true 128).   (* the "stuck" clause *)
Proof. repeat split; vm_compute; reflexivity. Qed.
(* f64: `-0`, `-0.0`, `1e2` are the same float on both routes, with and without float_roundtrip *)
Example f64_neg_zero : from_value_owned ap_cfa ap_fx0 TF64 (VNum (NLit [45; 48])) = VOk (DFloat 9223372036854775808)
  /\ from_input_typed Ea TF64 [45; 48] = TOk (DFloat 9223372036854775808).
Proof. split; vm_compute; reflexivity. Qed.
Example f64_1e2 : from_value_owned ap_cfa ap_fx0 TF64 (VNum (NLit [49; 101; 50])) = VOk (DFloat 4636737291354636288)
  /\ from_input_typed Ea TF64 [49; 101; 50] = TOk (DFloat 4636737291354636288).
Proof. split; vm_compute; reflexivity. Qed.
(* f64 WITHOUT float_roundtrip: 9007199254740993.0 — the Value route (std) gives 0x433...000, the text route (default float path:
   90071992547409930 as f64 / 10, two roundings) the next float up; WITH float_roundtrip the two routes agree (leaf_f64) *)
Definition lit_2p53p1_0 : bytes := [57; 48; 48; 55; 49; 57; 57; 50; 53; 52; 55; 52; 48; 57; 57; 51; 46; 48].
Example f64_default_path_differs :
  from_value_owned ap_cfa ap_fx0 TF64 (VNum (NLit lit_2p53p1_0)) = VOk (DFloat 4845873199050653696)
  /\ from_input_typed Ea TF64 lit_2p53p1_0 = TOk (DFloat 4845873199050653697).
Proof. split; vm_compute; reflexivity. Qed.
Example f64_roundtrip_agrees :
  from_value_owned ap_cfar ap_fx0 TF64 (VNum (NLit lit_2p53p1_0)) = VOk (DFloat 4845873199050653696)
  /\ from_input_typed Ear TF64 lit_2p53p1_0 = TOk (DFloat 4845873199050653696).
Proof. split; vm_compute; reflexivity. Qed.
(* ... and near the overflow threshold the default float path accepts (finding F11) what std rejects: success against failure *)
Definition lit_f11 : bytes := [49; 55; 57; 55; 54; 57; 51; 49; 51; 52; 56; 54; 50; 51; 49; 53; 57; 57; 101; 50; 57; 49].   (* 179769313486231599e291 *)
Example f64_default_path_accepts_overflow :
  from_value_owned ap_cfa ap_fx0 TF64 (VNum (NLit lit_f11)) = VErr NumberOutOfRange 0 0
  /\ from_input_typed Ea TF64 lit_f11 = TOk (DFloat 9218868437227405311)
  /\ from_input_typed Ear TF64 lit_f11 = TErr NumberOutOfRange 22.
Proof. repeat split; vm_compute; reflexivity. Qed.
(* f32 is outside the universe (as in the default build's C16).  Not proved; evaluated: without float_roundtrip the routes differ
   (1e39: the Value route refuses the infinite f32, the text route returns `1e39f64 as f32` = inf), with float_roundtrip they
   agree on this literal *)
Example f32_not_covered :
  from_value_owned ap_cfa ap_fx0 TF32 (VNum (NLit [49; 101; 51; 57])) = VErr NumberOutOfRange 0 0
  /\ from_input_typed Ea TF32 [49; 101; 51; 57] = TOk (DFloat 9218868437227405312)
  /\ from_input_typed Ear TF32 [49; 101; 51; 57] = TErr NumberOutOfRange 4.
Proof. repeat split; vm_compute; reflexivity. Qed.
(* F20 (fixed): an out-of-range literal is an error on both routes *)
Example f64_overflow_both_fail : from_value_owned ap_cfar ap_fx0 TF64 (VNum (NLit [49; 101; 57; 57; 57])) = VErr NumberOutOfRange 0 0
  /\ from_input_typed Ear TF64 [49; 101; 57; 57; 57] = TErr NumberOutOfRange 5.
Proof. split; vm_compute; reflexivity. Qed.
(* the other scalars: a type error on both routes *)
Example bool_on_number : from_value_owned ap_cfa ap_fx0 TBool (VNum (NLit [49])) = VErr (Message MInvalidType) 0 0
  /\ from_input_typed Ea TBool [49] = TErr (Message MInvalidType) 1.
Proof. split; vm_compute; reflexivity. Qed.
(* the theorem applies: hypotheses are satisfiable *)
Example C16_ap_scalars_applies :
  scalar_ty (TOption (TNewtype TF64)) = true /\ scalar_excluded (TOption (TNewtype TF64)) lit_2p53p1_0 = false
  /\ scalar_excluded (TInt Ty.I8) [45; 48] = true /\ scalar_excluded (TInt Ty.I128) [45; 48] = false
  /\ scalar_excluded (TInt Ty.I8) [45; 48; 46; 48] = false.
Proof. repeat split; vm_compute; reflexivity. Qed.

Print Assumptions C06_value_ap_all.
Print Assumptions C16_ap_scalars.
