(* Proofs/ValueDeAgreeAp.v — C16 / C06 under the cargo feature `arbitrary_precision`: number LEAVES.

   Under the feature a Number holds its text ([NLit lit]); `to_string` prints the text verbatim (SerToValueAp.C15_numlit_verbatim,
   restated below as [ap_number_text]), so the text route reads the literal itself, while the Value route parses the text with
   `str::parse::<iN/uN/f64>` (src/number.rs deserialize_number!, Model/ValueDe.v number_de_int / number_de_f64).

   This file:
     * the exclusion vocabulary shared by the ap development: [f12b] (finding F12b), [respell_lit] / [canon_lit] / [canon_value] /
       [no_token] (finding F19 and the Value-route side of F23), [claim_ap] (the (type program, Value) pairs of the claim);
     * for a well-formed RFC 8259 literal n and every scalar target: the Value route on [VNum (NLit (render_num n))] against the
       typed text deserializer on  w ++ render_num n ++ rst  from any reader state ([num_agree]: the completeness-with-failure form of
       Proofs/ValueDeAgreeMap.v, so that the container lemmas of Proofs/ValueDeAgreeAp2.v can consume it);
     * [C06_value_ap_all]: the ten integer targets, exact characterisation of both routes, F12b as the only disagreement;
     * [C16_ap_scalars]: from_value / T::deserialize(&v) against from_str on the literal for bool, unit, unit struct, String, char,
       the ten integer types, f64, IgnoredAny and Option / newtype nests of those.

   Findings visible here (each with a vm_compute witness at the end of the file):
     F12b  `-0` into i8..i64: Value route Ok(0), text route invalid type.  ONLY this literal, ONLY these four targets
           (i128: both routes give 0; unsigned: both fail; `-0.0`, `-0e0`, `1e2`: both fail for every integer target).
     f64 without float_roundtrip: the Value route is correctly rounded (std), the text route is the default float path:
           they differ on e.g. 9007199254740993.0.  With float_roundtrip both are the nearest binary64 (C07): they agree. *)
From SJ Require Import Base.Bytes Base.Utf8 Base.FloatB Gen.Tables
  Model.Read Model.Str Model.Num Model.NumF32 Model.Value Model.De Model.Ignore Model.Ty Model.NumberM Model.DeTyped Model.ValueDe
  Spec.Syntax Spec.Denote Proofs.GrammarIgnore Proofs.GrammarValueComplete Proofs.SerValue Proofs.GrammarValueBase Proofs.GrammarStr Proofs.GrammarNum
  Proofs.ValueDeRef Proofs.ValueDeAgree Proofs.ValueDeText Proofs.ValueDeAgreeKey Proofs.ValueDeAgreeMap Proofs.ValueDeAgreeMisc.
From SJ Require Proofs.NumInt Proofs.TypedInt.
From SJ Require Import Proofs.ApNumber Proofs.ApNumberFloat Proofs.ValueInt Proofs.LexGlue Proofs.LexOracle Proofs.LexC07 Proofs.FloatDefault.
From SJ Require Model.Sval Model.Ser Model.ValueSer Spec.Layout Proofs.SerToValueAp.
From Flocq Require Import Core BinarySingleNaN.
Require Import Lia ZifyBool ZifyNat ZifyN.
Open Scope N_scope.

(* ================================================================================================================================
   1. Exclusion vocabulary
   ================================================================================================================================ *)
(* F12b: the literal `-0` into a signed 8..64-bit integer *)
Definition neg_zero_lit : bytes := [45; 48].
Definition f12b (it : intty) (lit : bytes) : bool := int_signed it && negb (is_128 it) && beq_bytes lit neg_zero_lit.

(* F19: what `Value::deserialize(number)` makes of the text of a Number (Model/ValueDe.v: number_any with the visitor valuev) *)
Definition respell_lit (fx : fenv) (s : bytes) : bytes :=
  match ap_as_u64 s with
  | Some u => itoa (Z.to_N u)
  | None =>
    match ap_as_i64 s with
    | Some i => itoa_z i
    | None =>
      match ap_as_u128 s with
      | Some u => itoa_z u
      | None =>
        match ap_as_i128 s with
        | Some i => itoa_z i
        | None =>
          match ap_as_f64 s with
          | Some f => if beq_bytes (ryu64 fx (bits_of_b64 f)) s || beq_bytes (disp64 fx (bits_of_b64 f)) s
                      then ryu64 fx (bits_of_b64 f) else s
          | None => s
          end
        end
      end
    end
  end.

Fixpoint respell (fx : fenv) (v : value) : value :=
  match v with
  | VNum (NLit s) => VNum (NLit (respell_lit fx s))
  | VArr l => VArr (map (respell fx) l)
  | VObj l => VObj (map (fun kv => (fst kv, respell fx (snd kv))) l)
  | _ => v
  end.

Definition canon_lit (fx : fenv) (s : bytes) : bool := beq_bytes (respell_lit fx s) s.

Fixpoint canon_value (fx : fenv) (v : value) : bool :=
  match v with
  | VNum (NLit s) => canon_lit fx s
  | VArr l => forallb (canon_value fx) l
  | VObj l => forallb (fun kv => canon_value fx (snd kv)) l
  | _ => true
  end.

(* no object whose FIRST key is the private Number token (the Value-route side of F23: KeyClassifier) *)
Fixpoint no_token (v : value) : bool :=
  match v with
  | VArr l => forallb no_token l
  | VObj l => match l with (k0, _) :: _ => negb (beq_bytes k0 NUMBER_TOKEN_V) | [] => true end
              && forallb (fun kv => no_token (snd kv)) l
  | _ => true
  end.

(* technical bound of the float_roundtrip glue theorem (Proofs/LexGlue.v lex_glue): literals shorter than 10^8 bytes *)
Definition LIT_MAX : N := 100000000.
Definition short_lit (lit : bytes) : bool := N.of_nat (length lit) <? LIT_MAX.

Lemma short_lit_abs n : short_lit (render_num n) = true -> (length (render_abs n) < 100000000)%nat.
Proof.
  unfold short_lit, LIT_MAX. rewrite render_num_split, app_length. intros H.
  apply Nat2Z.inj_lt. rewrite big_nat. destruct (nneg n); cbn [length] in H; lia.
Qed.

(* the (type program, Value) pairs of the claim: [claimb] of Proofs/ValueDeAgreeMap.v (the two enum shapes on which from_value and
   from_str disagree in every build) plus, at the leaves,
     TInt it  on a number : not F12b
     TF64     on a number : the literal is shorter than LIT_MAX (proof-technical, not a finding)
     TValue               : no private token as a first key, every number literal in canonical spelling (F19) *)
Fixpoint claim_ap (fx : fenv) (fuel : nat) (t : ty) (v : value) {struct fuel} : bool :=
  match fuel with
  | O => true
  | S f =>
    match t with
    | TInt it => match v with VNum (NLit lit) => negb (f12b it lit) | _ => true end
    | TF64 => match v with VNum (NLit lit) => short_lit lit | _ => true end
    | TValue => no_token v && canon_value fx v
    | TOption t1 => match v with VNull => true | _ => claim_ap fx f t1 v end
    | TNewtype t1 => claim_ap fx f t1 v
    | TSeq t1 => match v with VArr l => forallb (claim_ap fx f t1) l | _ => true end
    | TTuple ts | TTupleStruct ts => match v with VArr l => claim_list (claim_ap fx f) ts l | _ => true end
    | TMap _ t1 => match v with VObj m => forallb (fun kv => claim_ap fx f t1 (snd kv)) m | _ => true end
    | TStruct fields =>
      match v with
      | VArr l => claim_list (claim_ap fx f) (map snd fields) l
      | VObj m => claim_fields (claim_ap fx f) fields m
      | _ => true
      end
    | TEnum vs =>
      match v with
      | VObj ((name, x) :: _) =>
        match index_of name vs with
        | Some (_, vr) => claim_variant (claim_ap fx f) vr x
        | None => true
        end
      | _ => true
      end
    | _ => true
    end
  end.

(* the text of a Number of this build is its literal: to_string prints it verbatim, from_str reads it back verbatim (C15 / C20) *)
Theorem ap_number_text : forall cf fmt32 fmt64 n, arbitrary_precision cf = true -> num_ok n = true ->
  Ser.serialize cf fmt32 fmt64 Ser.Compact (ValueSer.sval_of_value (VNum (NLit (render_num n)))) = Ok [render_num n]
  /\ from_input (mkEnv RSlice TEof cf) (render_num n) = Ok (VNum (NLit (render_num n))).
Proof.
  intros cf f32 f64 n Hap Hok.
  assert (W : Layout.number_text_ok (render_num n) = true) by (apply SerToValueAp.number_text_ok_iff; exists n; auto).
  destruct (SerToValueAp.C15_numlit_verbatim cf f32 f64 (render_num n) Hap W) as (H1 & _ & H3). split; [exact H1|exact H3].
Qed.

(* ================================================================================================================================
   2. Small facts
   ================================================================================================================================ *)
Lemma int_ok_zero ds : int_ok ds = true -> digits_val ds 0 = 0%Z -> ds = [48].
Proof.
  intros Hok Hz. destruct (int_ok_inv ds Hok) as [->|(c & r & -> & Hc & Hd)]; [reflexivity|exfalso].
  pose proof (nval_canon_ge c r Hc) as Hge. change 0%Z with (Z.of_N 0) in Hz at 1. rewrite digits_val_nval in Hz.
  pose proof (N.pow_nonzero 10 (N.of_nat (length r))). lia.
Qed.

Lemma beq_bytes_refl a : beq_bytes a a = true.
Proof. induction a as [|x a IH]; [reflexivity|]. cbn [beq_bytes]. rewrite N.eqb_refl, IH. reflexivity. Qed.

Lemma beq_bytes_eq a b : beq_bytes a b = true <-> a = b.
Proof. split; [apply beq_bytes_true|intros ->; apply beq_bytes_refl]. Qed.

(* `-0` as a literal tree *)
Lemma neg_zero_render n : num_ok n = true -> lit_is_int n = true -> nneg n = true -> digits_val (nint n) 0 = 0%Z ->
  render_num n = neg_zero_lit.
Proof.
  intros Hok Hi Hn Hz. apply lit_is_int_iff in Hi as [Hf Hx]. rewrite (render_int n Hf Hx), Hn.
  destruct (num_ok_inv n Hok) as (Hint & _). rewrite (int_ok_zero _ Hint Hz). reflexivity.
Qed.

Lemma follow_stops rst : follow_ok rst -> NumInt.stops_number rst.
Proof. intros H. apply follow_nfollow in H. destruct rst as [|c r]; [exact I|]. cbn [nfollow NumInt.stops_number] in *. tauto. Qed.

Lemma follow_fw n rst : follow_ok rst -> fw n rst.
Proof.
  intros H. apply follow_nfollow in H. unfold fw, nd. destruct rst as [|c r]; cbn [hd nfollow] in *.
  - repeat split; intros; reflexivity.
  - destruct H as (H1 & H2 & H3 & H4 & _). repeat split; intros; try assumption; lia.
Qed.

(* ================================================================================================================================
   3. Number leaves
   ================================================================================================================================ *)
Section ApLeaves.
  Variable cf : cfg.
  Variable fx : fenv.
  Hypothesis Hap : arbitrary_precision cf = true.
  Local Notation E := (mkEnv RSlice TEof cf).

  (* ---- the Value route: str::parse on the text ------------------------------------------------------------------------------- *)
  Lemma value_ap_int fv (it : Ty.intty) lit :
    de_value_owned (S fv) cf fx (TInt it) (VNum (NLit lit)) =
    match std_parse_int (int_signed it) (int_min it) (int_max it) lit with
    | Some z => VOk (DInt z)
    | None => VErr InvalidNumber 0 0
    end.
  Proof. cbn [de_value_owned value_number_owned]. unfold number_de_int. rewrite Hap. reflexivity. Qed.

  Lemma value_ap_int_lit fv (it : Ty.intty) n : num_ok n = true ->
    de_value_owned (S fv) cf fx (TInt it) (VNum (NLit (render_num n))) =
    if lit_is_int n && (int_signed it || negb (nneg n)) && Ty.in_range it (lit_int n)
    then VOk (DInt (lit_int n)) else VErr InvalidNumber 0 0.
  Proof.
    intros Hok. rewrite value_ap_int, (std_parse_int_lit (int_signed it) (int_min it) (int_max it) n Hok).
    change (ApNumber.in_range (int_min it) (int_max it) (lit_int n)) with (Ty.in_range it (lit_int n)).
    destruct (lit_is_int n && (int_signed it || negb (nneg n)) && Ty.in_range it (lit_int n)); reflexivity.
  Qed.

  Lemma std_parse_f64_lit n : num_ok n = true ->
    std_parse_f64 (render_num n) =
    let f := rne_decimal (lit_mantissa n) (lit_exponent n) in Some (if nneg n then b64_neg f else f).
  Proof.
    intros Hok. unfold std_parse_f64. rewrite render_num_split.
    assert (Hs : strip_sign ((if nneg n then [45] else []) ++ render_abs n) = (nneg n, render_abs n)).
    { destruct (nneg n); cbn [app]; [reflexivity|].
      destruct (ApNumber.render_abs_head n Hok) as (c & r & Hcr & Hc). rewrite Hcr. unfold strip_sign.
      assert (H43 : (c =? 43) = false) by (unfold is_digit in Hc; lia).
      assert (H45 : (c =? 45) = false) by (unfold is_digit in Hc; lia).
      rewrite H43, H45. reflexivity. }
    rewrite Hs, (dec_parts_lit n Hok). reflexivity.
  Qed.

  Lemma value_ap_f64_lit fv n : num_ok n = true ->
    de_value_owned (S fv) cf fx TF64 (VNum (NLit (render_num n))) =
    let f := rne_decimal (lit_mantissa n) (lit_exponent n) in
    if b64_is_inf f then VErr NumberOutOfRange 0 0 else VOk (dfloat (if nneg n then b64_neg f else f)).
  Proof.
    intros Hok. cbn [de_value_owned value_number_owned]. unfold number_de_f64. rewrite Hap. cbn [number_text].
    rewrite (std_parse_f64_lit n Hok). cbv zeta.
    destruct (rne_decimal_cases (lit_mantissa n) (lit_exponent n) (lit_mantissa_nonneg n)) as [(Hfin & _)|(Hinf & _)].
    - rewrite (finite_not_inf _ Hfin). unfold b64_is_finite, b64_neg. destruct (nneg n); [rewrite is_finite_Bopp|]; rewrite Hfin; reflexivity.
    - rewrite Hinf. destruct (nneg n); reflexivity.
  Qed.

  (* ---- the text route: leading whitespace ------------------------------------------------------------------------------------ *)
  Lemma number_skip_ws visit w b r o p d : ws_ok w = true -> ws_byte b = false ->
    deserialize_number E visit (mkSt (w ++ b :: r) o p d) = deserialize_number E visit (mkSt (b :: r) (o + length w) p d).
  Proof.
    intros Hw Hb. apply ws_byte_is_ws in Hb. unfold deserialize_number.
    rewrite (pw_complete cf w b r o p d Hw Hb), (TypedInt.parse_whitespace_hd E b r (o + length w) p d Hb). reflexivity.
  Qed.

  Lemma int_skip_ws (it : Ty.intty) f w b r o p d : ws_ok w = true -> ws_byte b = false ->
    de_typed (S f) E (TInt it) (mkSt (w ++ b :: r) o p d) = de_typed (S f) E (TInt it) (mkSt (b :: r) (o + length w) p d).
  Proof.
    intros Hw Hb. destruct (is_128 it) eqn:H128; [apply int128_skip_ws; assumption|].
    destruct it; try discriminate H128; cbn [de_typed]; unfold deserialize_int; apply number_skip_ws; assumption.
  Qed.

  (* first byte of a number literal *)
  Lemma render_num_first n : num_ok n = true -> exists b r, render_num n = b :: r /\ ws_byte b = false /\ (b = 45 \/ is_digit b = true).
  Proof.
    intros Hok. rewrite render_num_split. destruct (nneg n); cbn [app].
    - eexists 45, _. split; [reflexivity|]. split; [reflexivity|left; reflexivity].
    - destruct (ApNumber.render_abs_head n Hok) as (c & r & -> & Hc). exists c, r. split; [reflexivity|]. split; [apply digit_not_ws, Hc|right; exact Hc].
  Qed.

  Lemma lit_int_val n : lit_int n = TypedInt.int_lit_val (nneg n) (nint n).
  Proof. reflexivity. Qed.

  Lemma unsigned_min (it : Ty.intty) : int_signed it = false -> int_min it = 0%Z.
  Proof. destruct it; try discriminate; reflexivity. Qed.

  (* ---- integers ------------------------------------------------------------------------------------------------------------- *)
  Theorem leaf_int (it : Ty.intty) n fuel fv s w rst : num_ok n = true -> ws_ok w = true -> follow_ok rst ->
    rest s = w ++ render_num n ++ rst -> (1 <= fuel)%nat -> (1 <= fv)%nat -> f12b it (render_num n) = false ->
    okrel2 unborrow (de_value_owned fv cf fx (TInt it) (VNum (NLit (render_num n)))) (de_typed fuel E (TInt it) s) s rst.
  Proof.
    intros Hok Hw Hfol Hr Hfuel Hfv Hx.
    destruct fuel as [|f]; [lia|]. destruct fv as [|fv]; [lia|].
    destruct s as [r0 o p d]. cbn [rest depth] in *. subst r0.
    destruct (render_num_first n Hok) as (b & r & Hren & Hbws & _).
    assert (Hskip : de_typed (S f) E (TInt it) (mkSt (w ++ render_num n ++ rst) o p d)
                    = de_typed (S f) E (TInt it) (mkSt (render_num n ++ rst) (o + length w) p d)).
    { rewrite Hren. cbn [app]. apply int_skip_ws; assumption. }
    rewrite Hskip. clear Hskip Hren Hbws b r. rewrite (value_ap_int_lit fv it n Hok).
    destruct (num_ok_inv n Hok) as (Hint & _).
    pose proof (NumInt.digits_val_ge (nint n) 0%Z ltac:(lia)) as Hnn.
    destruct (lit_is_int n) eqn:Hi; cbn [andb].
    - (* an integer literal *)
      pose proof Hi as Hi'. apply lit_is_int_iff in Hi' as [Hfr Hex]. rewrite (render_int n Hfr Hex), lit_int_val.
      destruct (is_128 it) eqn:H128.
      + (* 128-bit targets: the same test on both routes *)
        destruct it; try discriminate H128; cbn [int_signed orb].
        * rewrite (TypedInt.C06_text_i128 f E (nneg n) (nint n) rst (o + length w) p d eq_refl Hint (nfollow_not_digit rst Hfol)). cbv zeta.
          destruct (Ty.in_range Ty.I128 (TypedInt.int_lit_val (nneg n) (nint n))); cbn [okrel2].
          -- eexists. eexists. split; [reflexivity|]. split; [reflexivity|]. split; reflexivity.
          -- intros d' s' Heq. discriminate Heq.
        * rewrite (TypedInt.C06_text_u128 f E (nneg n) (nint n) rst (o + length w) p d eq_refl Hint (nfollow_not_digit rst Hfol)). cbv zeta.
          destruct (nneg n); cbn [negb andb okrel2]; [intros d' s' Heq; discriminate Heq|].
          destruct (Ty.in_range Ty.U128 (TypedInt.int_lit_val false (nint n))); cbn [okrel2].
          -- eexists. eexists. split; [reflexivity|]. split; [reflexivity|]. split; reflexivity.
          -- intros d' s' Heq. discriminate Heq.
      + (* 8..64-bit targets *)
        pose proof (TypedInt.C06_text_64 f E it (nneg n) (nint n) rst (o + length w) p d eq_refl H128 Hint (follow_stops rst Hfol)) as HT.
        cbv zeta in HT. unfold TypedInt.is_neg_zero in HT.
        assert (Hcond : (int_signed it || negb (nneg n)) && Ty.in_range it (TypedInt.int_lit_val (nneg n) (nint n))
                        = Ty.in_range it (TypedInt.int_lit_val (nneg n) (nint n)) && negb (nneg n && (digits_val (nint n) 0 =? 0)%Z)).
        { destruct (nneg n) eqn:Hneg; cbn [negb andb orb]; [|rewrite orb_true_r, andb_true_r; reflexivity].
          rewrite orb_false_r. unfold TypedInt.int_lit_val.
          destruct (digits_val (nint n) 0 =? 0)%Z eqn:Hz; cbn [negb].
          - (* -0 *) rewrite andb_false_r. apply Z.eqb_eq in Hz.
            destruct (int_signed it) eqn:Hs; cbn [andb]; [|reflexivity]. exfalso.
            unfold f12b in Hx. rewrite Hs, H128, (neg_zero_render n Hok Hi Hneg Hz), beq_bytes_refl in Hx. discriminate Hx.
          - rewrite andb_true_r. destruct (int_signed it) eqn:Hs; cbn [andb]; [reflexivity|].
            symmetry. unfold Ty.in_range. rewrite (unsigned_min it Hs). apply Z.eqb_neq in Hz. lia. }
        rewrite Hcond.
        destruct (Ty.in_range it (TypedInt.int_lit_val (nneg n) (nint n)) && negb (nneg n && (digits_val (nint n) 0 =? 0)%Z)).
        * rewrite HT. cbn [okrel2]. eexists. eexists. split; [reflexivity|]. split; [reflexivity|]. split; reflexivity.
        * destruct HT as (c & i & -> & _). cbn [okrel2]. intros d' s' Heq. discriminate Heq.
    - (* a fraction or an exponent: the Value route fails; the text route fails (8..64 bit) or stops in front of it (128 bit) *)
      assert (Hfe : nfrac n <> None \/ nexp n <> None).
      { unfold lit_is_int in Hi. destruct (nfrac n); [left; discriminate|]. destruct (nexp n); [right; discriminate|discriminate Hi]. }
      destruct (render_float n Hok Hfe) as (c0 & tl0 & Hrn & Hc0). rewrite Hrn, <- app_assoc. cbn [app okrel2].
      destruct (is_128 it) eqn:H128.
      + assert (Hnd : TypedInt.not_digit_next (c0 :: tl0 ++ rst)) by (cbn [TypedInt.not_digit_next]; destruct Hc0 as [->|[->| ->]]; reflexivity).
        assert (Hst : forall x, stuck (rest (NumInt.st_after x (c0 :: tl0 ++ rst) (o + length w) d))).
        { intros x. cbn [NumInt.st_after rest]. exists c0, (tl0 ++ rst). auto. }
        destruct it; try discriminate H128.
        * rewrite (TypedInt.C06_text_i128 f E (nneg n) (nint n) (c0 :: tl0 ++ rst) (o + length w) p d eq_refl Hint Hnd). cbv zeta.
          destruct (Ty.in_range Ty.I128 _); intros d' s' Heq; [|discriminate Heq]. injection Heq as _ <-. apply Hst.
        * rewrite (TypedInt.C06_text_u128 f E (nneg n) (nint n) (c0 :: tl0 ++ rst) (o + length w) p d eq_refl Hint Hnd). cbv zeta.
          destruct (nneg n); [intros d' s' Heq; discriminate Heq|].
          destruct (Ty.in_range Ty.U128 _); intros d' s' Heq; [|discriminate Heq]. injection Heq as _ <-. apply Hst.
      + intros d' s' Heq. exfalso.
        apply (TypedInt.C06_frac_exp_never_int f E it (nneg n) (nint n) c0 (tl0 ++ rst) (o + length w) p d (d', s') eq_refl H128 Hint); [|exact Heq].
        destruct Hc0 as [->|[->| ->]]; auto.
  Qed.
End ApLeaves.
