(* Proofs/NumAccSrc.v — the accessor models (Model/Pointer.v num_as_i64 num_as_u64 num_as_f64; Proofs/NumberAcc.v num_as_i128 num_as_u128 num_is_i64
   num_is_u64 num_is_f64) ARE the `match self.n` arms of src/number.rs as translated on this run (Gen/NumTables.v), for every Number of the default
   representation. *)
From SJ Require Import Base.Bytes Base.FloatB Model.Value Model.Pointer Model.NumAst Gen.NumTables Proofs.NumberAcc.
Require Import Lia ZArith.
Open Scope Z_scope.

Definition default_repr (n : num) : Prop := match n with NLit _ => False | _ => True end.

Lemma wrap_signed_small (n : N) : (n <=? i64_max)%N = true -> wrap_signed 64 (Z.of_N n) = Z.of_N n.
Proof.
  intros H. apply N.leb_le in H. unfold i64_max in H. unfold wrap_signed.
  assert (0 <= Z.of_N n < 2 ^ 63) by (change (2 ^ 63) with 9223372036854775808; lia).
  rewrite Z.mod_small by (change (2 ^ 64) with 18446744073709551616; change (2 ^ 63) with 9223372036854775808 in *; lia).
  change (64 - 1) with 63. destruct (Z.ltb_spec (Z.of_N n) (2 ^ 63)); [reflexivity | lia].
Qed.

Theorem acc_is_i64 : forall n, default_repr n -> run_acc NUM_is_i64 n = RB (num_is_i64 n).
Proof. intros [u|z|f|l] H; try contradiction; reflexivity. Qed.
Theorem acc_is_u64 : forall n, default_repr n -> run_acc NUM_is_u64 n = RB (num_is_u64 n).
Proof. intros [u|z|f|l] H; try contradiction; reflexivity. Qed.
Theorem acc_is_f64 : forall n, default_repr n -> run_acc NUM_is_f64 n = RB (num_is_f64 n).
Proof. intros [u|z|f|l] H; try contradiction; reflexivity. Qed.
Theorem acc_as_i64 : forall n, default_repr n ->
  run_acc NUM_as_i64 n = RO (match num_as_i64 n with Some z => Some (VI64 z) | None => None end).
Proof.
  intros [u|z|f|l] H; try contradiction; try reflexivity.
  cbn [run_acc NUM_as_i64 on_pos eval le_i64max num_as_i64]. destruct (u <=? i64_max)%N eqn:E; [|reflexivity].
  cbn [eval cast]. rewrite (wrap_signed_small u E). reflexivity.
Qed.
Theorem acc_as_u64 : forall n, default_repr n ->
  run_acc NUM_as_u64 n = RO (match num_as_u64 n with Some u => Some (VU64 u) | None => None end).
Proof. intros [u|z|f|l] H; try contradiction; reflexivity. Qed.
Theorem acc_as_f64 : forall n, default_repr n ->
  run_acc NUM_as_f64 n = RO (match num_as_f64 n with Some f => Some (VF64 f) | None => None end).
Proof. intros [u|z|f|l] H; try contradiction; reflexivity. Qed.
Theorem acc_as_i128 : forall n, default_repr n ->
  run_acc NUM_as_i128 n = RO (match num_as_i128 n with Some z => Some (VI128 z) | None => None end).
Proof. intros [u|z|f|l] H; try contradiction; reflexivity. Qed.
Theorem acc_as_u128 : forall n, default_repr n ->
  run_acc NUM_as_u128 n = RO (match num_as_u128 n with Some z => Some (VU128 z) | None => None end).
Proof. intros [u|z|f|l] H; try contradiction; reflexivity. Qed.

Theorem accessor_models_are_translated_source : forall n, default_repr n ->
  run_acc NUM_is_i64 n = RB (num_is_i64 n) /\ run_acc NUM_is_u64 n = RB (num_is_u64 n) /\ run_acc NUM_is_f64 n = RB (num_is_f64 n) /\
  run_acc NUM_as_i64 n = RO (match num_as_i64 n with Some z => Some (VI64 z) | None => None end) /\
  run_acc NUM_as_u64 n = RO (match num_as_u64 n with Some u => Some (VU64 u) | None => None end) /\
  run_acc NUM_as_f64 n = RO (match num_as_f64 n with Some f => Some (VF64 f) | None => None end) /\
  run_acc NUM_as_i128 n = RO (match num_as_i128 n with Some z => Some (VI128 z) | None => None end) /\
  run_acc NUM_as_u128 n = RO (match num_as_u128 n with Some z => Some (VU128 z) | None => None end).
Proof.
  intros n H. repeat split; [apply acc_is_i64 | apply acc_is_u64 | apply acc_is_f64 | apply acc_as_i64 | apply acc_as_u64 | apply acc_as_f64
    | apply acc_as_i128 | apply acc_as_u128]; exact H.
Qed.
Print Assumptions accessor_models_are_translated_source.
