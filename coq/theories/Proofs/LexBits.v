(* Proofs/LexBits.v — arithmetic readings of the bit-level functions of Model/Lex.v (both float kinds).

     land_hi, land_pow2, lor_lo_hi      masks and packing as div / mod / +
     fbits_decode                       a bit pattern below INFINITY_BITS decodes to a canonical (M, E) with encZ k M E = bits
     round_nearest_spec                 rounding.rs round_nearest: quotient, "above halfway", "exactly halfway"
     tie_even_spec
     avoid_overflow_id                  avoid_overflow does nothing on a normalised (or small-exponent) value
     finish_spec                        carry fix-up + avoid_overflow + into_float = the encoding, saturated at INFINITY_BITS *)
From Coq Require Import ZArith NArith List Bool Lia.
From SJ Require Import Base.Bytes Base.FloatB Gen.LexTables Model.Read Model.Num Model.Lex.
Open Scope Z_scope.

Ltac Zify.zify_post_hook ::= Z.to_euclidean_division_equations.

(* ------------------------------------------------------------------ *)
(** * N bit operations as arithmetic *)
Lemma land_hi (a w n : N) : N.land a (N.ones w * 2 ^ n) = (((a / 2 ^ n) mod 2 ^ w) * 2 ^ n)%N.
Proof.
  apply N.bits_inj. intros i. rewrite N.land_spec.
  destruct (N.lt_ge_cases i n) as [Hlt|Hge].
  - rewrite !N.mul_pow2_bits_low by exact Hlt. apply andb_false_r.
  - rewrite !N.mul_pow2_bits_high by exact Hge.
    destruct (N.lt_ge_cases (i - n) w) as [Hw|Hw].
    + rewrite N.ones_spec_low by exact Hw. rewrite andb_true_r.
      rewrite N.mod_pow2_bits_low by exact Hw. rewrite N.div_pow2_bits. f_equal. lia.
    + rewrite N.ones_spec_high by exact Hw. rewrite andb_false_r.
      rewrite N.mod_pow2_bits_high by exact Hw. reflexivity.
Qed.

Lemma land_pow2 (a n : N) : N.land a (2 ^ n) = (((a / 2 ^ n) mod 2) * 2 ^ n)%N.
Proof. pose proof (land_hi a 1 n) as H. change (N.ones 1) with 1%N in H. rewrite N.mul_1_l in H. exact H. Qed.

Lemma land_lo (a n : N) : N.land a (2 ^ n - 1) = (a mod 2 ^ n)%N.
Proof. rewrite <- N.land_ones. f_equal. rewrite N.ones_equiv. lia. Qed.

Lemma lor_lo_hi (lo e n : N) : (lo < 2 ^ n)%N -> N.lor lo (e * 2 ^ n) = (lo + e * 2 ^ n)%N.
Proof.
  intros Hlo.
  assert (H0 : N.land lo (e * 2 ^ n) = 0%N); [|rewrite (N.add_nocarry_lxor _ _ H0); symmetry; apply N.lxor_lor; exact H0].
  apply N.bits_inj. intros i. rewrite N.land_spec, N.bits_0.
  destruct (N.lt_ge_cases i n) as [Hlt|Hge].
  - rewrite N.mul_pow2_bits_low by exact Hlt. apply andb_false_r.
  - rewrite <- (N.mod_small lo (2 ^ n)) by exact Hlo. rewrite N.mod_pow2_bits_high by exact Hge. reflexivity.
Qed.

Lemma lor_lo_hi_lit (lo e P n : N) : P = (2 ^ n)%N -> (lo < P)%N -> N.lor lo (e * P) = (lo + e * P)%N.
Proof. intros ->. apply lor_lo_hi. Qed.

Lemma shiftl_1 (n : N) : N.shiftl 1 n = (2 ^ n)%N.
Proof. apply N.shiftl_1_l. Qed.

(* ------------------------------------------------------------------ *)
(** * the constants of the two formats *)
Definition prec (k : fkind) : Z := MANTISSA_SIZE k + 1.
Definition ebits (k : fkind) : Z := match k with F64 => 11 | F32 => 8 end.

Definition encZ (k : fkind) (M E : Z) : Z :=
  if M <? 2 ^ MANTISSA_SIZE k then M else (E + EXPONENT_BIAS k) * 2 ^ MANTISSA_SIZE k + (M - 2 ^ MANTISSA_SIZE k).

Ltac kconst :=
  cbv [prec ebits MANTISSA_SIZE EXPONENT_BIAS DENORMAL_EXPONENT MAX_EXPONENT DEFAULT_SHIFT CARRY_MASK EXPONENT_MASK
       HIDDEN_BIT_MASK MANTISSA_MASK INFINITY_BITS
       F64_MANTISSA_SIZE F64_EXPONENT_BIAS F64_DENORMAL_EXPONENT F64_MAX_EXPONENT F64_DEFAULT_SHIFT F64_CARRY_MASK
       F64_EXPONENT_MASK F64_HIDDEN_BIT_MASK F64_MANTISSA_MASK F64_INFINITY_BITS
       F32_MANTISSA_SIZE F32_EXPONENT_BIAS F32_DENORMAL_EXPONENT F32_MAX_EXPONENT F32_DEFAULT_SHIFT F32_CARRY_MASK
       F32_EXPONENT_MASK F32_HIDDEN_BIT_MASK F32_MANTISSA_MASK F32_INFINITY_BITS] in *.

Lemma masks_shape (k : fkind) :
  let ms := Z.to_N (MANTISSA_SIZE k) in
  EXPONENT_MASK k = (N.ones (Z.to_N (ebits k)) * 2 ^ ms)%N /\
  INFINITY_BITS k = EXPONENT_MASK k /\
  MANTISSA_MASK k = (2 ^ ms - 1)%N /\
  HIDDEN_BIT_MASK k = (2 ^ ms)%N /\
  CARRY_MASK k = (2 ^ (ms + 1))%N /\
  DEFAULT_SHIFT k = 64 - prec k /\
  EXPONENT_BIAS k = 1 - DENORMAL_EXPONENT k /\
  Z.of_N (N.ones (Z.to_N (ebits k))) - EXPONENT_BIAS k = MAX_EXPONENT k.
Proof. destruct k; repeat split; vm_compute; reflexivity. Qed.

(* ------------------------------------------------------------------ *)
(** * decoding a bit pattern *)
Theorem fbits_decode : forall (k : fkind) (b : N), (b < INFINITY_BITS k)%N ->
  let M := Z.of_N (f_mantissa k b) in
  let E := f_exponent k b in
  0 <= M < 2 ^ prec k /\ DENORMAL_EXPONENT k <= E < MAX_EXPONENT k /\
  (E = DENORMAL_EXPONENT k \/ 2 ^ MANTISSA_SIZE k <= M) /\
  encZ k M E = Z.of_N b /\
  f_is_special k b = false.
Proof.
  intros k b Hb M E.
  destruct (masks_shape k) as (HEM & HINF & HMM & HHB & _ & _ & _ & _). cbv zeta in *.
  unfold M, E, f_mantissa, f_exponent, f_is_denormal, f_is_special, encZ.
  rewrite HINF in Hb. rewrite HMM, HHB, HEM in *. rewrite land_hi, land_lo.
  rewrite N.shiftr_div_pow2. rewrite N.div_mul by (apply N.pow_nonzero; discriminate).
  destruct k; kconst;
    change (Z.to_N 52) with 52%N in *; change (Z.to_N 23) with 23%N in *;
    change (Z.to_N 11) with 11%N in *; change (Z.to_N 8) with 8%N in *;
    change (N.ones 11) with 2047%N in *; change (N.ones 8) with 255%N in *;
    change (2 ^ 52)%N with 4503599627370496%N in *; change (2 ^ 23)%N with 8388608%N in *;
    change (2 ^ 11)%N with 2048%N in *; change (2 ^ 8)%N with 256%N in *;
    change (2 ^ 52) with 4503599627370496 in *; change (2 ^ 23) with 8388608 in *;
    change (2 ^ (52 + 1)) with 9007199254740992; change (2 ^ (23 + 1)) with 16777216.
  - set (hi := (b / 4503599627370496)%N). set (lo := (b mod 4503599627370496)%N).
    assert (Hd : b = (hi * 4503599627370496 + lo)%N) by (unfold hi, lo; lia).
    assert (Hlo : (lo < 4503599627370496)%N) by (unfold lo; lia).
    assert (Hhi : (hi < 2047)%N) by (unfold hi; lia).
    clearbody hi lo. rewrite (N.mod_small hi 2048) by lia.
    destruct (N.eqb_spec (hi * 4503599627370496) 0) as [H0|H0];
      destruct (N.eqb_spec (hi * 4503599627370496) (2047 * 4503599627370496)) as [H1|H1]; cbn [negb]; try lia.
    + destruct (Z.ltb_spec (Z.of_N lo) 4503599627370496); lia.
    + destruct (Z.ltb_spec (Z.of_N (lo + 4503599627370496)) 4503599627370496); lia.
  - set (hi := (b / 8388608)%N). set (lo := (b mod 8388608)%N).
    assert (Hd : b = (hi * 8388608 + lo)%N) by (unfold hi, lo; lia).
    assert (Hlo : (lo < 8388608)%N) by (unfold lo; lia).
    assert (Hhi : (hi < 255)%N) by (unfold hi; lia).
    clearbody hi lo. rewrite (N.mod_small hi 256) by lia.
    destruct (N.eqb_spec (hi * 8388608) 0) as [H0|H0];
      destruct (N.eqb_spec (hi * 8388608) (255 * 8388608)) as [H1|H1]; cbn [negb]; try lia.
    + destruct (Z.ltb_spec (Z.of_N lo) 8388608); lia.
    + destruct (Z.ltb_spec (Z.of_N (lo + 8388608)) 8388608); lia.
Qed.

(* parity test used by tie_even / round_positive_even *)
Lemma land_1_odd (m : N) : N.eqb (N.land m 1) 1 = Z.odd (Z.of_N m).
Proof.
  change 1%N with (2 ^ 1 - 1)%N at 1. rewrite land_lo. change (2 ^ 1)%N with 2%N.
  rewrite Zodd_mod. unfold Zeq_bool.
  destruct (N.eqb_spec (m mod 2) 1) as [H|H]; destruct (Z.compare_spec (Z.of_N m mod 2) 1) as [H'|H'|H']; try reflexivity; exfalso; lia.
Qed.

(* ------------------------------------------------------------------ *)
(** * rounding.rs *)
Lemma lower_n_mask_spec (n : Z) : 0 <= n <= 64 -> lower_n_mask n = (2 ^ Z.to_N n - 1)%N.
Proof.
  intros Hn. unfold lower_n_mask. destruct (Z.eqb_spec n 64) as [->|Hne].
  - reflexivity.
  - rewrite shiftl_1. reflexivity.
Qed.

Lemma lower_n_halfway_spec (n : Z) : 1 <= n -> lower_n_halfway n = (2 ^ Z.to_N (n - 1))%N.
Proof.
  intros Hn. unfold lower_n_halfway. destruct (Z.eqb_spec n 0) as [->|Hne]; [lia|]. apply shiftl_1.
Qed.

Theorem round_nearest_spec : forall (fp : efloat) (shift : Z), (mant fp < two64N)%N -> 1 <= shift <= 64 ->
  let q := (mant fp / 2 ^ Z.to_N shift)%N in
  let r := (mant fp mod 2 ^ Z.to_N shift)%N in
  let h := (2 ^ Z.to_N (shift - 1))%N in
  round_nearest fp shift = (mkEF q (exp fp + shift), (h <? r)%N, (r =? h)%N).
Proof.
  intros fp shift Hm Hs q r h. unfold round_nearest.
  rewrite lower_n_mask_spec by lia. rewrite lower_n_halfway_spec by lia. rewrite land_lo.
  fold r h. f_equal. f_equal. unfold overflowing_shr. f_equal.
  destruct (Z.eqb_spec shift 64) as [->|Hne].
  - unfold q. change (2 ^ Z.to_N 64)%N with two64N. symmetry. apply N.div_small. exact Hm.
  - apply N.shiftr_div_pow2.
Qed.

Lemma tie_even_spec (fp : efloat) (is_above is_halfway : bool) :
  tie_even fp is_above is_halfway =
  mkEF (mant fp + (if is_above || (Z.odd (Z.of_N (mant fp)) && is_halfway) then 1 else 0))%N (exp fp).
Proof.
  unfold tie_even. rewrite land_1_odd.
  destruct (is_above || (Z.odd (Z.of_N (mant fp)) && is_halfway)).
  - reflexivity.
  - rewrite N.add_0_r. destruct fp; reflexivity.
Qed.

(* ------------------------------------------------------------------ *)
(** * avoid_overflow, into_float *)
Lemma avoid_overflow_id (k : fkind) (fp : efloat) :
  (exp fp < MAX_EXPONENT k \/ 2 ^ MANTISSA_SIZE k <= Z.of_N (mant fp) < 2 ^ prec k) ->
  avoid_overflow k fp = fp.
Proof.
  intros H. unfold avoid_overflow.
  destruct (Z.leb_spec (MAX_EXPONENT k) (exp fp)) as [Hge|Hlt]; [|reflexivity].
  destruct H as [H|H]; [lia|].
  destruct (Z.leb_spec (exp fp - MAX_EXPONENT k) (MANTISSA_SIZE k)) as [Hd|Hd]; [|reflexivity].
  set (diff := exp fp - MAX_EXPONENT k) in *.
  assert (Hne : N.land (mant fp) (internal_n_mask (MANTISSA_SIZE k + 1) (diff + 1)) <> 0%N).
  { intros H0.
    assert (Hb : N.testbit (N.land (mant fp) (internal_n_mask (MANTISSA_SIZE k + 1) (diff + 1))) (Z.to_N (MANTISSA_SIZE k)) = true).
    { rewrite N.land_spec. apply andb_true_intro. split.
      - rewrite N.testbit_eqb.
        assert (Hq : (mant fp / 2 ^ Z.to_N (MANTISSA_SIZE k))%N = 1%N).
        { destruct k; kconst; change (2 ^ Z.to_N 52)%N with 4503599627370496%N; change (2 ^ Z.to_N 23)%N with 8388608%N;
            change (2 ^ 52) with 4503599627370496 in H; change (2 ^ (52 + 1)) with 9007199254740992 in H;
            change (2 ^ 23) with 8388608 in H; change (2 ^ (23 + 1)) with 16777216 in H.
          - assert (4503599627370496 <= mant fp < 2 * 4503599627370496)%N by lia.
            symmetry. apply (N.div_unique (mant fp) 4503599627370496 1 (mant fp - 4503599627370496)); lia.
          - assert (8388608 <= mant fp < 2 * 8388608)%N by lia.
            symmetry. apply (N.div_unique (mant fp) 8388608 1 (mant fp - 8388608)); lia. }
        rewrite Hq. reflexivity.
      - unfold internal_n_mask. rewrite N.lxor_spec.
        rewrite !lower_n_mask_spec by (destruct k; kconst; lia).
        rewrite <- !N.pred_sub, <- !N.ones_equiv.
        rewrite N.ones_spec_low by (destruct k; kconst; lia).
        rewrite N.ones_spec_high by (destruct k; kconst; lia). reflexivity. }
    rewrite H0 in Hb. rewrite N.bits_0 in Hb. discriminate Hb. }
  destruct (N.eqb_spec (N.land (mant fp) (internal_n_mask (MANTISSA_SIZE k + 1) (diff + 1))) 0) as [H0|H0]; [contradiction|reflexivity].
Qed.

Lemma into_float_bits_zero (k : fkind) (fp : efloat) : mant fp = 0%N -> into_float_bits k fp = 0%N.
Proof. intros H. unfold into_float_bits. rewrite H. reflexivity. Qed.

(* a canonical pair is exported as its encoding (saturated) *)
Lemma into_float_bits_canon (k : fkind) (M : N) (E : Z) :
  Z.of_N M < 2 ^ prec k -> DENORMAL_EXPONENT k <= E -> (E = DENORMAL_EXPONENT k \/ 2 ^ MANTISSA_SIZE k <= Z.of_N M) ->
  into_float_bits k (mkEF M E) = Z.to_N (Z.min (encZ k (Z.of_N M) E) (Z.of_N (INFINITY_BITS k))).
Proof.
  intros HM HE Hcan. unfold into_float_bits. cbn [mant exp].
  destruct (masks_shape k) as (HEM & HINF & HMM & HHB & _ & _ & _ & _). cbv zeta in *.
  rewrite HMM, HHB, land_lo, land_pow2, N.shiftl_mul_pow2.
  unfold encZ.
  destruct k; kconst;
    change (Z.to_N 52) with 52%N in *; change (Z.to_N 23) with 23%N in *;
    change (2 ^ 52)%N with 4503599627370496%N in *; change (2 ^ 23)%N with 8388608%N in *;
    change (2 ^ 52) with 4503599627370496 in *; change (2 ^ 23) with 8388608 in *;
    change (2 ^ (52 + 1)) with 9007199254740992 in *; change (2 ^ (23 + 1)) with 16777216 in *.
  - destruct (N.eqb_spec M 0) as [->|HM0]; cbn [orb].
    { destruct Hcan as [->|Hn]; [reflexivity|lia]. }
    destruct (Z.ltb_spec E (-1074)) as [Hl|_]; [lia|]. cbn [orb].
    set (lo := (M mod 4503599627370496)%N). set (hi := (M / 4503599627370496)%N).
    assert (Hd : M = (hi * 4503599627370496 + lo)%N) by (unfold hi, lo; lia).
    assert (Hlo : (lo < 4503599627370496)%N) by (unfold lo; lia).
    assert (Hhi : (hi < 2)%N) by (unfold hi; lia).
    clearbody hi lo. rewrite (N.mod_small hi 2) by lia.
    destruct (Z.leb_spec 972 E) as [Hov|Hnov].
    + destruct (Z.ltb_spec (Z.of_N M) 4503599627370496); lia.
    + rewrite (lor_lo_hi_lit lo _ 4503599627370496 52 eq_refl Hlo).
      destruct (Z.eqb_spec E (-1074)) as [He|He]; destruct (N.eqb_spec (hi * 4503599627370496) 0) as [Hh|Hh]; cbn [andb];
        destruct (Z.ltb_spec (Z.of_N M) 4503599627370496); lia.
  - destruct (N.eqb_spec M 0) as [->|HM0]; cbn [orb].
    { destruct Hcan as [->|Hn]; [reflexivity|lia]. }
    destruct (Z.ltb_spec E (-149)) as [Hl|_]; [lia|]. cbn [orb].
    set (lo := (M mod 8388608)%N). set (hi := (M / 8388608)%N).
    assert (Hd : M = (hi * 8388608 + lo)%N) by (unfold hi, lo; lia).
    assert (Hlo : (lo < 8388608)%N) by (unfold lo; lia).
    assert (Hhi : (hi < 2)%N) by (unfold hi; lia).
    clearbody hi lo. rewrite (N.mod_small hi 2) by lia.
    destruct (Z.leb_spec 105 E) as [Hov|Hnov].
    + destruct (Z.ltb_spec (Z.of_N M) 8388608); lia.
    + rewrite (lor_lo_hi_lit lo _ 8388608 23 eq_refl Hlo).
      destruct (Z.eqb_spec E (-149)) as [He|He]; destruct (N.eqb_spec (hi * 8388608) 0) as [Hh|Hh]; cbn [andb];
        destruct (Z.ltb_spec (Z.of_N M) 8388608); lia.
Qed.

(* the carry fix-up of round_to_float followed by avoid_overflow and into_float:
   a rounded significand M <= 2^prec (2^prec after a carry out of an all-ones significand) with its exponent *)
Definition carry_fix (k : fkind) (fp : efloat) : efloat :=
  if N.eqb (N.land (mant fp) (CARRY_MASK k)) (CARRY_MASK k) then shr fp 1 else fp.

Theorem finish_spec : forall (k : fkind) (M : N) (E : Z),
  Z.of_N M <= 2 ^ prec k -> DENORMAL_EXPONENT k <= E -> (E = DENORMAL_EXPONENT k \/ 2 ^ MANTISSA_SIZE k <= Z.of_N M) ->
  into_float_bits k (avoid_overflow k (carry_fix k (mkEF M E))) =
  Z.to_N (Z.min (encZ k (Z.of_N M) E) (Z.of_N (INFINITY_BITS k))).
Proof.
  intros k M E HM HE Hcan. unfold carry_fix. cbn [mant].
  destruct (masks_shape k) as (_ & _ & _ & _ & HC & _ & _ & _). cbv zeta in HC.
  rewrite HC, land_pow2.
  assert (Hq : ((M / 2 ^ (Z.to_N (MANTISSA_SIZE k) + 1)) mod 2)%N = if Z.of_N M <? 2 ^ prec k then 0%N else 1%N).
  { destruct k; kconst; change (2 ^ (Z.to_N 52 + 1))%N with 9007199254740992%N; change (2 ^ (Z.to_N 23 + 1))%N with 16777216%N;
      change (2 ^ (52 + 1)) with 9007199254740992 in *; change (2 ^ (23 + 1)) with 16777216 in *.
    - destruct (Z.ltb_spec (Z.of_N M) 9007199254740992) as [Hl|Hg].
      + rewrite N.div_small by lia. reflexivity.
      + assert (M = 9007199254740992%N) by lia. subst M. reflexivity.
    - destruct (Z.ltb_spec (Z.of_N M) 16777216) as [Hl|Hg].
      + rewrite N.div_small by lia. reflexivity.
      + assert (M = 16777216%N) by lia. subst M. reflexivity. }
  rewrite Hq.
  destruct (Z.ltb_spec (Z.of_N M) (2 ^ prec k)) as [Hl|Hg].
  - rewrite N.mul_0_l.
    replace (N.eqb 0 (2 ^ (Z.to_N (MANTISSA_SIZE k) + 1))) with false by (destruct k; reflexivity).
    rewrite avoid_overflow_id.
    + apply into_float_bits_canon; assumption.
    + cbn [mant exp]. destruct Hcan as [->|Hn]; [left; destruct k; kconst; lia|right; lia].
  - rewrite N.mul_1_l, N.eqb_refl.
    assert (HMe : Z.of_N M = 2 ^ prec k) by lia.
    unfold shr. cbn [mant exp]. change (Z.to_N 1) with 1%N. rewrite N.shiftr_div_pow2. change (2 ^ 1)%N with 2%N.
    assert (Hh : Z.of_N (M / 2) = 2 ^ MANTISSA_SIZE k).
    { destruct k; kconst; change (2 ^ (52 + 1)) with 9007199254740992 in *; change (2 ^ (23 + 1)) with 16777216 in *;
        change (2 ^ 52) with 4503599627370496; change (2 ^ 23) with 8388608.
      - assert (M = 9007199254740992%N) by lia. subst M. reflexivity.
      - assert (M = 16777216%N) by lia. subst M. reflexivity. }
    rewrite avoid_overflow_id.
    + rewrite into_float_bits_canon.
      * f_equal. f_equal. rewrite Hh, HMe. unfold encZ.
        destruct k; kconst; change (2 ^ (52 + 1)) with 9007199254740992 in *; change (2 ^ (23 + 1)) with 16777216 in *;
          change (2 ^ 52) with 4503599627370496; change (2 ^ 23) with 8388608; cbn [Z.ltb Z.compare Pos.compare Pos.compare_cont]; lia.
      * rewrite Hh. destruct k; kconst; reflexivity.
      * lia.
      * right. lia.
    + cbn [mant exp]. right. rewrite Hh. destruct k; kconst; (split; [lia|reflexivity]).
Qed.

Print Assumptions fbits_decode.
Print Assumptions finish_spec.
