(* Proofs/StreamProps.v — property C12: StreamDeserializer::next / byte_offset (Model/Stream.v).

   Part 0  is_delim_spec            the delimiter set of peek_end_of_value
   Part 1  stream_end, stream_none_forever
   Part 2  stream_item_error        (both fusing mechanisms of set_failed)
   Part 3  stream_item_ok, stream_scalar_needs_delim, stream_next_bad_only_from_item
   Part 3b stream_lookahead_io_terminal (+ _gen): an I/O error of the lookahead after a bare scalar fuses the stream
   Part 4  stream_values (+ _gen, _full): the history of a whole stream text, under ONE Section hypothesis:
           completeness of the Value item parser [value_item] on a rendered value followed by arbitrary text.

   All offsets are [nat]; N_scope is open (from Base.Bytes), so nat arithmetic is written with %nat. *)
From SJ Require Import Base.Bytes Base.FloatB Gen.Tables Model.Read Model.Str Model.Num Model.Value Model.De Model.Ignore Model.Stream Spec.Syntax Spec.Denote.
From Coq Require Import Lia ZifyBool ZifyNat ZifyN Btauto.
Open Scope N_scope.

(* ------------------------------------------------------------------------------------------ *)
(** * Part 0: the delimiter set *)

Theorem is_delim_spec : forall b,
  is_delim b = (ws_byte b || (b =? 34) || (b =? 91) || (b =? 93) || (b =? 123) || (b =? 125) || (b =? 44) || (b =? 58))%N%bool.
Proof.
  intros b. unfold is_delim, ws_byte.
  change DELIM_SET with [9; 10; 13; 32; 34; 44; 58; 91; 93; 123; 125].
  cbn [existsb]. btauto.
Qed.

Lemma is_ws_ws_byte : forall b, is_ws b = ws_byte b.
Proof.
  intros b. unfold is_ws, ws_byte. change WS_SET with [9; 10; 13; 32].
  cbn [existsb]. btauto.
Qed.

Lemma ws_is_delim : forall b, ws_byte b = true -> is_delim b = true.
Proof. intros b Hb. rewrite is_delim_spec, Hb. reflexivity. Qed.

(* ------------------------------------------------------------------------------------------ *)
(** * Reader-level helper lemmas *)

Lemma span_ws_app : forall w rst,
  ws_ok w = true ->
  match rst with b :: _ => ws_byte b = false | [] => True end ->
  span_len is_ws (w ++ rst) = length w.
Proof.
  induction w as [|a w IHw]; intros rst Hw Hrst.
  - cbn [app length]. destruct rst as [|b r]; [reflexivity|].
    cbn [span_len]. rewrite is_ws_ws_byte, Hrst. reflexivity.
  - cbn [ws_ok forallb] in Hw. apply andb_true_iff in Hw as [Ha Hw].
    cbn [app span_len length]. rewrite is_ws_ws_byte, Ha.
    f_equal. apply IHw; assumption.
Qed.

Lemma skipn_length_app : forall (A : Type) (w rst : list A), skipn (length w) (w ++ rst) = rst.
Proof. induction w as [|a w IHw]; intros rst; [reflexivity|]. cbn [length app skipn]. apply IHw. Qed.

(* parse_whitespace stops at the first non-whitespace byte and leaves it peeked *)
Lemma pws_some : forall E s w b r,
  rest s = w ++ b :: r -> ws_ok w = true -> ws_byte b = false ->
  parse_whitespace E s = Ok (Some b, mkSt (b :: r) (off s + length w)%nat true (depth s)).
Proof.
  intros E s w b r Hrest Hw Hb. unfold parse_whitespace.
  rewrite Hrest, (span_ws_app w (b :: r) Hw Hb).
  unfold advance, peek. cbn [rest off depth]. rewrite Hrest, skipn_length_app. reflexivity.
Qed.

(* only whitespace left and the reader ends with end-of-input *)
Lemma pws_none : forall E s,
  tm E = TEof -> ws_ok (rest s) = true ->
  parse_whitespace E s = Ok (None, mkSt [] (off s + length (rest s))%nat false (depth s)).
Proof.
  intros E s Htm Hw. unfold parse_whitespace.
  assert (Hsp : span_len is_ws (rest s) = length (rest s)).
  { rewrite <- (app_nil_r (rest s)) at 1. apply span_ws_app; [assumption|exact I]. }
  rewrite Hsp. unfold advance, peek. cbn [rest off depth].
  rewrite skipn_all. unfold at_end. rewrite Htm. reflexivity.
Qed.

Lemma pev_ok_nil : forall E s,
  tm E = TEof -> rest s = [] -> peek_end_of_value E s = Ok (mkSt [] (off s) false (depth s)).
Proof.
  intros E s Htm Hr. unfold peek_end_of_value, peek, at_end. rewrite Hr, Htm. reflexivity.
Qed.

Lemma pev_ok_delim : forall E s b r,
  rest s = b :: r -> is_delim b = true -> peek_end_of_value E s = Ok (mkSt (rest s) (off s) true (depth s)).
Proof.
  intros E s b r Hr Hd. unfold peek_end_of_value, peek. rewrite Hr. cbn [bind]. rewrite Hd. reflexivity.
Qed.

Lemma pev_err : forall E s b r,
  rest s = b :: r -> is_delim b = false ->
  peek_end_of_value E s = Err TrailingCharacters (off s + 1)%nat.
Proof.
  intros E s b r Hr Hd. unfold peek_end_of_value, peek. rewrite Hr. cbn [bind]. rewrite Hd.
  unfold peek_error, peek_err_idx. cbn [rest off pk]. destruct (is_io E); reflexivity.
Qed.

(* ------------------------------------------------------------------------------------------ *)
(** * Histories *)

Lemma stream_run_S : forall n E itemp ss it ss',
  stream_next E itemp ss = (it, ss') ->
  stream_run (S n) E itemp ss = (it, ss_off ss') :: stream_run n E itemp ss'.
Proof. intros n E itemp ss it ss' H. cbn [stream_run]. rewrite H. reflexivity. Qed.

Lemma Forall_repeat : forall (A : Type) (P : A -> Prop) x n, P x -> Forall P (repeat x n).
Proof. intros A P x n Hx. induction n as [|n IHn]; cbn [repeat]; constructor; assumption. Qed.

(* A state from which every call returns None without moving byte_offset():
   either the io flag is set, or (end-of-input reader) nothing is left and offset = cursor. *)
Definition quiet (E : env) (ss : sstate) : Prop :=
  (is_io E && ss_failed ss = true)
  \/ (tm E = TEof /\ rest (ss_st ss) = [] /\ off (ss_st ss) = ss_off ss).

Lemma quiet_step : forall E itemp ss, quiet E ss ->
  exists ss2, stream_next E itemp ss = (None, ss2) /\ ss_off ss2 = ss_off ss /\ quiet E ss2.
Proof.
  intros E itemp ss [Hf | (Htm & Hr & Hoff)].
  - exists ss. unfold stream_next. rewrite Hf. split; [reflexivity|]. split; [reflexivity|]. left; exact Hf.
  - unfold stream_next. destruct (is_io E && ss_failed ss) eqn:Hf.
    + exists ss. split; [reflexivity|]. split; [reflexivity|]. left; exact Hf.
    + rewrite (pws_none E (ss_st ss) Htm) by (rewrite Hr; reflexivity).
      rewrite Hr. cbn [length].
      eexists. split; [reflexivity|]. cbn [ss_off ss_st rest off ss_failed]. split; [lia|].
      right. split; [exact Htm|]. split; reflexivity.
Qed.

Lemma quiet_run : forall E itemp n ss, quiet E ss ->
  stream_run n E itemp ss = repeat (None, ss_off ss) n.
Proof.
  intros E itemp n. induction n as [|n IHn]; intros ss Hq; [reflexivity|].
  destruct (quiet_step E itemp ss Hq) as (ss2 & Hnext & Hoff & Hq2).
  rewrite (stream_run_S n E itemp ss None ss2 Hnext), (IHn ss2 Hq2), Hoff. reflexivity.
Qed.

(* every None leaves a quiet state (whatever the reader's end behaviour is) *)
Lemma next_none_quiet : forall E itemp ss ss',
  stream_next E itemp ss = (None, ss') -> quiet E ss'.
Proof.
  intros E itemp ss ss' H. unfold stream_next in H.
  destruct (is_io E && ss_failed ss) eqn:Hf.
  - injection H as <-. left; exact Hf.
  - unfold parse_whitespace, peek in H.
    set (s0 := advance (span_len is_ws (rest (ss_st ss))) (ss_st ss)) in H.
    destruct (rest s0) as [|b r].
    + unfold at_end in H. destruct (tm E) eqn:Htm.
      * injection H as <-. right. cbn [ss_st ss_off rest off]. repeat split; first [exact Htm | reflexivity].
      * cbn [res_item] in H. discriminate H.
    + destruct (itemp E _) as [[v s2]| | |].
      * destruct ((b =? 91) || (b =? 34) || (b =? 123))%bool; [discriminate H|].
        destruct (peek_end_of_value E s2) as [s3|c i| |]; [discriminate H| |discriminate H|discriminate H].
        destruct c; discriminate H.     (* every error of the lookahead (I/O or not) yields Some (IErr _ _) *)
      * discriminate H.
      * discriminate H.
      * discriminate H.
Qed.

(* ------------------------------------------------------------------------------------------ *)
(** * Part 1: end of stream *)

Theorem stream_end : forall E itemp ss,
  tm E = TEof -> (is_io E && ss_failed ss = false) ->
  ws_ok (rest (ss_st ss)) = true ->
  exists ss', stream_next E itemp ss = (None, ss')
    /\ ss_off ss' = (off (ss_st ss) + length (rest (ss_st ss)))%nat
    /\ rest (ss_st ss') = [].
Proof.
  intros E itemp ss Htm Hf Hw. unfold stream_next. rewrite Hf, (pws_none E (ss_st ss) Htm Hw).
  eexists. split; [reflexivity|]. split; reflexivity.
Qed.

(* the equational form, valid for any reader end behaviour *)
Theorem stream_none_forever_eq : forall E itemp ss ss',
  stream_next E itemp ss = (None, ss') ->
  forall n, stream_run n E itemp ss' = repeat (None, ss_off ss') n.
Proof.
  intros E itemp ss ss' H n. apply quiet_run. exact (next_none_quiet E itemp ss ss' H).
Qed.

Theorem stream_none_forever : forall E itemp ss ss', tm E = TEof ->
  stream_next E itemp ss = (None, ss') ->
  forall n, Forall (fun o => fst o = None /\ snd o = ss_off ss') (stream_run n E itemp ss').
Proof.
  intros E itemp ss ss' _ H n. rewrite (stream_none_forever_eq E itemp ss ss' H n).
  apply Forall_repeat. split; reflexivity.
Qed.

(* ------------------------------------------------------------------------------------------ *)
(** * Part 2: a failing item is reported once, at the first byte of the value; then None forever *)

(* both fusing mechanisms produce a quiet state *)
Lemma set_failed_quiet : forall E ss,
  tm E = TEof -> off (ss_st ss) = ss_off ss -> quiet E (set_failed E ss).
Proof.
  intros E ss Htm Hoff. unfold set_failed. destruct (is_io E) eqn:Hio.
  - left. rewrite Hio. reflexivity.                            (* IoRead: the flag *)
  - right. cbn [ss_st ss_off rest off]. repeat split; assumption.   (* SliceRead/StrRead: truncation *)
Qed.

Lemma set_failed_off : forall E ss, ss_off (set_failed E ss) = ss_off ss.
Proof. intros E ss. unfold set_failed. destruct (is_io E); reflexivity. Qed.

(* general form: any non-Ok outcome [r] of the item parser (Err, and also OutOfFuel/Panic as IBad) *)
Lemma stream_item_fail : forall E itemp ss w rst (r : res (value * st)),
  tm E = TEof -> (is_io E && ss_failed ss = false) ->
  rest (ss_st ss) = w ++ rst -> ws_ok w = true ->
  (match rst with b :: _ => ws_byte b = false | [] => False end) ->
  itemp E (mkSt rst (off (ss_st ss) + length w)%nat true (depth (ss_st ss))) = r ->
  (forall x, r <> Ok x) ->
  exists ss', stream_next E itemp ss = (Some (res_item r), ss')
    /\ ss_off ss' = (off (ss_st ss) + length w)%nat
    /\ forall n, stream_run n E itemp ss' = repeat (None, (off (ss_st ss) + length w)%nat) n.
Proof.
  intros E itemp ss w rst r Htm Hf Hrest Hw Hb Hitem Hnok.
  destruct rst as [|b rs]; [contradiction|].
  unfold stream_next. rewrite Hf, (pws_some E (ss_st ss) w b rs Hrest Hw Hb), Hitem.
  set (s1 := mkSt (b :: rs) (off (ss_st ss) + length w)%nat true (depth (ss_st ss))).
  set (ss1 := mkSS s1 (off s1) (ss_failed ss)).
  exists (set_failed E ss1).
  assert (Hq : quiet E (set_failed E ss1)) by (apply set_failed_quiet; [exact Htm|reflexivity]).
  assert (Ho : ss_off (set_failed E ss1) = (off (ss_st ss) + length w)%nat) by (rewrite set_failed_off; reflexivity).
  split; [|split].
  - destruct r as [[v s2]| | |]; try reflexivity. exfalso. exact (Hnok (v, s2) eq_refl).
  - exact Ho.
  - intros n. rewrite (quiet_run E itemp n _ Hq), Ho. reflexivity.
Qed.

Theorem stream_item_error : forall E itemp ss w rst c i,
  tm E = TEof -> (is_io E && ss_failed ss = false) ->
  rest (ss_st ss) = w ++ rst -> ws_ok w = true ->
  (match rst with b :: _ => ws_byte b = false | [] => False end) ->
  (* the state after parse_whitespace: cursor on the first byte of the value, that byte peeked *)
  itemp E (mkSt rst (off (ss_st ss) + length w)%nat true (depth (ss_st ss))) = Err c i ->
  exists ss', stream_next E itemp ss = (Some (IErr c i), ss')
    /\ ss_off ss' = (off (ss_st ss) + length w)%nat
    /\ forall n, Forall (fun o => fst o = None /\ snd o = (off (ss_st ss) + length w)%nat) (stream_run n E itemp ss').
Proof.
  intros E itemp ss w rst c i Htm Hf Hrest Hw Hb Hitem.
  destruct (stream_item_fail E itemp ss w rst (Err c i) Htm Hf Hrest Hw Hb Hitem) as (ss' & Hn & Ho & Hrun).
  { intros x Hx. discriminate Hx. }
  exists ss'. split; [exact Hn|]. split; [exact Ho|].
  intros n. rewrite Hrun. apply Forall_repeat. split; reflexivity.
Qed.

(* ------------------------------------------------------------------------------------------ *)
(** * Part 3: a successful item *)

Definition self_del (b : N) : bool := ((b =? 91) || (b =? 34) || (b =? 123))%bool.

Theorem stream_item_ok : forall E itemp ss w b r v s2,
  tm E = TEof -> (is_io E && ss_failed ss = false) ->
  rest (ss_st ss) = w ++ b :: r -> ws_ok w = true -> ws_byte b = false ->
  itemp E (mkSt (b :: r) (off (ss_st ss) + length w)%nat true (depth (ss_st ss))) = Ok (v, s2) ->
  (self_del b = true \/ rest s2 = [] \/ (exists b' r', rest s2 = b' :: r' /\ is_delim b' = true)) ->
  exists ss', stream_next E itemp ss = (Some (IVal v), ss')
    /\ ss_off ss' = off s2 /\ rest (ss_st ss') = rest s2 /\ depth (ss_st ss') = depth s2
    /\ ss_failed ss' = ss_failed ss /\ off (ss_st ss') = off s2.
Proof.
  intros E itemp ss w b r v s2 Htm Hf Hrest Hw Hb Hitem Hsep.
  unfold stream_next. rewrite Hf, (pws_some E (ss_st ss) w b r Hrest Hw Hb), Hitem.
  fold (self_del b). destruct (self_del b) eqn:Hsd.
  - eexists. split; [reflexivity|]. cbn [ss_off ss_st ss_failed]. repeat split; reflexivity.
  - destruct Hsep as [Hsd' | [Hnil | (b' & r' & Hr2 & Hd)]].
    + discriminate Hsd'.
    + rewrite (pev_ok_nil E s2 Htm Hnil). eexists. split; [reflexivity|].
      cbn [ss_off ss_st ss_failed rest depth off]. rewrite Hnil. repeat split; reflexivity.
    + rewrite (pev_ok_delim E s2 b' r' Hr2 Hd). eexists. split; [reflexivity|].
      cbn [ss_off ss_st ss_failed rest depth off]. repeat split; reflexivity.
Qed.

(* A bare scalar directly followed by a non-delimiter: TrailingCharacters, positioned on that byte
   (1-based column of the byte = index off s2 + 1); byte_offset() is just past the scalar.
   NB (faithful to src/de.rs:2474-2481): set_failed is NOT called on this path, so the stream is not fused. *)
Theorem stream_scalar_needs_delim : forall E itemp ss w b r v s2 b' r',
  tm E = TEof -> (is_io E && ss_failed ss = false) ->
  rest (ss_st ss) = w ++ b :: r -> ws_ok w = true -> ws_byte b = false ->
  itemp E (mkSt (b :: r) (off (ss_st ss) + length w)%nat true (depth (ss_st ss))) = Ok (v, s2) ->
  self_del b = false -> rest s2 = b' :: r' -> is_delim b' = false ->
  exists c i ss', stream_next E itemp ss = (Some (IErr c i), ss') /\ c = TrailingCharacters
    /\ i = (off s2 + 1)%nat /\ ss_off ss' = off s2 /\ ss_st ss' = s2 /\ ss_failed ss' = ss_failed ss.
Proof.
  intros E itemp ss w b r v s2 b' r' Htm Hf Hrest Hw Hb Hitem Hsd Hr2 Hd.
  unfold stream_next. rewrite Hf, (pws_some E (ss_st ss) w b r Hrest Hw Hb), Hitem.
  fold (self_del b). rewrite Hsd, (pev_err E s2 b' r' Hr2 Hd). cbn [res_item].
  eexists _, _, _. split; [reflexivity|]. cbn [ss_off ss_st ss_failed]. repeat split; reflexivity.
Qed.

(* next() never panics by itself: IBad (fuel/panic) can only come out of the item parser *)
Theorem stream_next_bad_only_from_item : forall E itemp ss ss',
  stream_next E itemp ss = (Some IBad, ss') ->
  exists s1, itemp E s1 = OutOfFuel \/ itemp E s1 = Panic.
Proof.
  intros E itemp ss ss' H. unfold stream_next in H.
  destruct (is_io E && ss_failed ss); [discriminate H|].
  unfold parse_whitespace, peek in H.
  set (s0 := advance (span_len is_ws (rest (ss_st ss))) (ss_st ss)) in H.
  destruct (rest s0) as [|b r].
  - unfold at_end in H. destruct (tm E); cbn [res_item] in H; discriminate H.
  - match type of H with context [itemp E ?s] => destruct (itemp E s) as [[v s2]| | |] eqn:Hit; [| |exists s; left; exact Hit|exists s; right; exact Hit] end.
    + destruct ((b =? 91) || (b =? 34) || (b =? 123))%bool; [discriminate H|].
      unfold peek_end_of_value, peek in H. destruct (rest s2) as [|b2 r2].
      * (* end of the buffered input: Ok for an end-of-input reader; for a failing reader the lookahead returns
           Err (Io _) 0, which is yielded as IErr (and fuses the stream) -- never IBad *)
        unfold at_end in H. destruct (tm E) as [|kind]; cbn [bind res_item] in H; discriminate H.
      * cbn [bind] in H. destruct (is_delim b2); [discriminate H|].
        unfold peek_error in H. cbn [res_item] in H. discriminate H.
    + cbn [res_item] in H. discriminate H.
Qed.

(* ------------------------------------------------------------------------------------------ *)
(** * Part 3b: an I/O error during the one-byte lookahead after a bare scalar is terminal
      (src/de.rs, StreamDeserializer::next: the lookahead error path now calls set_failed for I/O errors) *)

(* the lookahead can only report an I/O error at the end of the buffered input of a failing reader *)
Lemma pev_io_inv : forall E s k i,
  peek_end_of_value E s = Err (Io k) i -> rest s = [] /\ tm E = TFail k /\ i = 0%nat.
Proof.
  intros E s k i. unfold peek_end_of_value, peek, at_end.
  destruct (rest s) as [|b r].
  - destruct (tm E) as [|k']; cbn [bind]; intros H; [discriminate H|].
    injection H as Hk Hi. subst k' i. repeat split; reflexivity.
  - cbn [bind]. destruct (is_delim b); [intros H; discriminate H|].
    unfold peek_error. intros H. discriminate H.
Qed.

(* in particular: never for an end-of-input reader *)
Lemma pev_no_io_eof : forall E s k i, tm E = TEof -> peek_end_of_value E s <> Err (Io k) i.
Proof.
  intros E s k i Htm H. destruct (pev_io_inv E s k i H) as (_ & Htm' & _). rewrite Htm in Htm'. discriminate Htm'.
Qed.

Lemma pws_fail_nil : forall E s k,
  tm E = TFail k -> rest s = [] -> parse_whitespace E s = Err (Io k) 0.
Proof.
  intros E s k Htm Hr. unfold parse_whitespace, advance, peek, at_end. cbn [rest].
  rewrite Hr. cbn [span_len skipn]. rewrite Htm. reflexivity.
Qed.

(* the (non-physical) combination "slice reader whose end is an I/O failure": truncating the input does not
   silence the stream, every later call hits the failing end again *)
Lemma trunc_fail_run : forall E itemp k, is_io E = false -> tm E = TFail k ->
  forall n ss, rest (ss_st ss) = [] ->
  stream_run n E itemp ss = repeat (Some (IErr (Io k) 0), ss_off ss) n.
Proof.
  intros E itemp k Hio Htm. induction n as [|n IHn]; intros ss Hr; [reflexivity|].
  assert (Hnext : stream_next E itemp ss = (Some (IErr (Io k) 0), set_failed E ss)).
  { unfold stream_next. rewrite Hio. cbn [andb].
    rewrite (pws_fail_nil E (ss_st ss) k Htm Hr). reflexivity. }
  rewrite (stream_run_S n E itemp ss _ _ Hnext), set_failed_off. cbn [repeat]. f_equal.
  rewrite <- (set_failed_off E ss). apply IHn.
  unfold set_failed. rewrite Hio. reflexivity.
Qed.

(* General form, every environment: the I/O error of the lookahead is yielded (instead of the value), byte_offset()
   is just past the scalar, and
   - IoRead (the only reader that can really fail): the `failed` flag is set, every later call returns None;
   - otherwise (non-physical): the input is truncated and every later call reports the same I/O error again. *)
Theorem stream_lookahead_io_terminal_gen : forall E itemp ss w b r v s2 k i,
  (is_io E && ss_failed ss = false) ->
  rest (ss_st ss) = w ++ b :: r -> ws_ok w = true -> ws_byte b = false ->
  itemp E (mkSt (b :: r) (off (ss_st ss) + length w)%nat true (depth (ss_st ss))) = Ok (v, s2) ->
  self_del b = false -> peek_end_of_value E s2 = Err (Io k) i ->
  exists ss', stream_next E itemp ss = (Some (IErr (Io k) i), ss')
    /\ i = 0%nat /\ tm E = TFail k /\ ss_off ss' = off s2
    /\ forall n, stream_run n E itemp ss'
                 = repeat (if is_io E then None else Some (IErr (Io k) 0), off s2) n.
Proof.
  intros E itemp ss w b r v s2 k i Hf Hrest Hw Hb Hitem Hsd Hpev.
  destruct (pev_io_inv E s2 k i Hpev) as (Hr2 & Htm & Hi).
  set (ss2 := mkSS s2 (off s2) (ss_failed ss)).
  exists (set_failed E ss2).
  assert (Ho : ss_off (set_failed E ss2) = off s2) by (rewrite set_failed_off; reflexivity).
  split; [|split; [exact Hi|split; [exact Htm|split; [exact Ho|]]]].
  - unfold stream_next. rewrite Hf, (pws_some E (ss_st ss) w b r Hrest Hw Hb), Hitem.
    fold (self_del b). rewrite Hsd, Hpev. reflexivity.
  - intros n. destruct (is_io E) eqn:Hio.
    + (* the flag *)
      assert (Hq : quiet E (set_failed E ss2)).
      { left. unfold set_failed. rewrite Hio. reflexivity. }
      rewrite (quiet_run E itemp n _ Hq), Ho. reflexivity.
    + (* truncation: the end of the truncated input is still the failing end *)
      rewrite (trunc_fail_run E itemp k Hio Htm n (set_failed E ss2)), Ho; [reflexivity|].
      unfold set_failed. rewrite Hio. reflexivity.
Qed.

(* The point of the fix, for the reader kind that can produce I/O errors (IoRead). *)
Theorem stream_lookahead_io_terminal : forall E itemp ss w b r v s2 k i,
  is_io E = true ->
  (is_io E && ss_failed ss = false) ->
  rest (ss_st ss) = w ++ b :: r -> ws_ok w = true -> ws_byte b = false ->
  itemp E (mkSt (b :: r) (off (ss_st ss) + length w)%nat true (depth (ss_st ss))) = Ok (v, s2) ->
  self_del b = false -> peek_end_of_value E s2 = Err (Io k) i ->
  exists ss', stream_next E itemp ss = (Some (IErr (Io k) i), ss')
     /\ ss_off ss' = off s2
     /\ forall n, Forall (fun o => fst o = None /\ snd o = off s2) (stream_run n E itemp ss').
Proof.
  intros E itemp ss w b r v s2 k i Hio Hf Hrest Hw Hb Hitem Hsd Hpev.
  destruct (stream_lookahead_io_terminal_gen E itemp ss w b r v s2 k i Hf Hrest Hw Hb Hitem Hsd Hpev)
    as (ss' & Hn & _ & _ & Ho & Hrun).
  exists ss'. split; [exact Hn|]. split; [exact Ho|].
  intros n. rewrite Hrun, Hio. apply Forall_repeat. split; reflexivity.
Qed.

(* non-vacuity (input "true", reader failing with kind 3 after the last byte): the I/O error replaces the value,
   byte_offset() = 4, then None forever *)
Example stream_lookahead_io_example :
  stream_run 4 (mkEnv RIo (TFail 3) (mkCfg false false false false)) value_item (stream_init [116; 114; 117; 101])
  = [(Some (IErr (Io 3) 0), 4%nat); (None, 4%nat); (None, 4%nat); (None, 4%nat)].
Proof. vm_compute. reflexivity. Qed.

(* the hypothesis [is_io E = true] of [stream_lookahead_io_terminal] cannot be dropped: with the non-physical
   environment "slice + failing end" the truncated input keeps reporting the error *)
Example stream_lookahead_io_slice_counterexample :
  stream_run 3 (mkEnv RSlice (TFail 3) (mkCfg false false false false)) value_item (stream_init [116; 114; 117; 101])
  = [(Some (IErr (Io 3) 0), 4%nat); (Some (IErr (Io 3) 0), 4%nat); (Some (IErr (Io 3) 0), 4%nat)].
Proof. vm_compute. reflexivity. Qed.

(* ------------------------------------------------------------------------------------------ *)
(** * Part 4: the history of a whole stream text *)

Definition scalar (c : cst) : bool :=
  match c with CNull | CTrue | CFalse | CNum _ => true | _ => false end.

Lemma int_ok_head : forall d r, int_ok (d :: r) = true -> is_digit d = true.
Proof.
  intros d r H. destruct (N.eq_dec d 48) as [->|Hne]; [reflexivity|].
  assert (H19 : (is_digit19 d && forallb is_digit r)%bool = true).
  { revert H. unfold int_ok.
    destruct d as [|p]; [intros H; exact H|].
    do 6 (try destruct p as [p|p|]); intros H;
      first [exact H | exfalso; apply Hne; reflexivity]. }
  apply andb_true_iff in H19 as [H19 _]. unfold is_digit, is_digit19 in *. lia.
Qed.

(* a well-formed value starts with a non-whitespace byte, which is 91, 34 or 123 (open bracket, quote, open brace) exactly for non-scalars *)
Lemma render_head : forall c, wfb c = true ->
  exists b r, render c = b :: r /\ ws_byte b = false /\ self_del b = negb (scalar c).
Proof.
  intros c Hwf. destruct c as [| | |n|s|w es|w ms].
  - eexists _, _. split; [reflexivity|]. split; reflexivity.
  - eexists _, _. split; [reflexivity|]. split; reflexivity.
  - eexists _, _. split; [reflexivity|]. split; reflexivity.
  - cbn [wfb] in Hwf. unfold num_ok in Hwf.
    apply andb_true_iff in Hwf as [Hwf _]. apply andb_true_iff in Hwf as [Hint _].
    cbn [render scalar negb]. unfold render_num.
    destruct (nneg n).
    + eexists _, _. split; [reflexivity|]. split; reflexivity.
    + destruct (nint n) as [|d r'] eqn:Hn; [discriminate Hint|].
      apply int_ok_head in Hint.
      eexists d, _. split; [reflexivity|].
      unfold is_digit in Hint. unfold ws_byte, self_del. lia.
  - eexists _, _. split; [reflexivity|]. split; reflexivity.
  - destruct es; eexists _, _; (split; [reflexivity|]); split; reflexivity.
  - destruct ms; eexists _, _; (split; [reflexivity|]); split; reflexivity.
Qed.

(* a stream text: items are (syntax tree, its value, the whitespace following it) *)
Fixpoint stream_text (items : list (cst * value * list N)) : list N :=
  match items with
  | [] => []
  | (c, _, w) :: r => render c ++ w ++ stream_text r
  end.

(* the expected observations: value j, byte_offset() just past value j; [o] = offset of the first value *)
Fixpoint stream_obs (o : nat) (items : list (cst * value * list N)) : list (option item * nat) :=
  match items with
  | [] => []
  | (c, v, w) :: r =>
    (Some (IVal v), (o + length (render c))%nat) :: stream_obs (o + length (render c) + length w)%nat r
  end.

(* separation: a bare scalar (null/true/false/number) is followed by non-empty whitespace, or by the end
   of the text, or directly by a delimiter byte (for a following value that is its first byte: quote 34, 91 or 123) *)
Definition sep_ok (c : cst) (w nxt : list N) : Prop :=
  scalar c = true ->
  w <> [] \/ nxt = [] \/ (exists b r, nxt = b :: r /\ is_delim b = true).

(* what may follow a number for the number parser to stop there *)
Definition val_follow (rst : list N) : Prop :=
  match rst with
  | [] => True
  | c :: _ => is_digit c = false /\ c <> 46%N /\ c <> 101%N /\ c <> 69%N /\ c <> 43%N /\ c <> 45%N
  end.

Lemma ws_val_follow : forall b r, ws_byte b = true -> val_follow (b :: r).
Proof. intros b r H. unfold val_follow, is_digit. unfold ws_byte in H. lia. Qed.

Lemma delim_val_follow : forall b r, is_delim b = true -> val_follow (b :: r).
Proof. intros b r H. rewrite is_delim_spec in H. unfold val_follow, is_digit. unfold ws_byte in H. lia. Qed.

Lemma sep_val_follow : forall c w nxt,
  ws_ok w = true -> sep_ok c w nxt -> scalar c = true -> val_follow (w ++ nxt).
Proof.
  intros c w nxt Hw Hsep Hsc. destruct w as [|a w'].
  - cbn [app]. destruct (Hsep Hsc) as [Hne | [-> | (b & r & -> & Hd)]].
    + exfalso; apply Hne; reflexivity.
    + exact I.
    + apply delim_val_follow; exact Hd.
  - cbn [ws_ok forallb] in Hw. apply andb_true_iff in Hw as [Ha _].
    cbn [app]. apply ws_val_follow; exact Ha.
Qed.

Lemma DEPTH0_nat : N.to_nat DEPTH0 = 128%nat.
Proof. reflexivity. Qed.
Lemma DEPTH0_le : (DEPTH0 <= 128)%N.
Proof. vm_compute. discriminate. Qed.

(* ---- generic version, for ANY item parser [itemp] (value_item, ignored_item, ...):
        [good c v]      : the per-item precondition of the item parser's completeness (must imply wfb c)
        [follow_ok c t] : what the item parser needs to know about the text t that follows c.
        This theorem does not mention the float model, hence is closed under the global context. --- *)
Section StreamGen.
  Variable E : env.
  Variable itemp : env -> st -> res (value * st).
  Variable good : cst -> value -> Prop.
  Variable follow_ok : cst -> list N -> Prop.

  Hypothesis Htm : tm E = TEof.
  Hypothesis Hgood_wf : forall c v, good c v -> wfb c = true.
  Hypothesis Hitem_gen : forall c v rst off pk,
    good c v -> follow_ok c rst ->
    exists pk', itemp E (mkSt (render c ++ rst) off pk DEPTH0)
                = Ok (v, mkSt rst (off + length (render c))%nat pk' DEPTH0).

  Definition item_ok_gen (c : cst) (v : value) (w nxt : list N) : Prop :=
    good c v /\ ws_ok w = true /\ sep_ok c w nxt /\ follow_ok c (w ++ nxt).

  Fixpoint items_ok_gen (items : list (cst * value * list N)) : Prop :=
    match items with
    | [] => True
    | (c, v, w) :: r => item_ok_gen c v w (stream_text r) /\ items_ok_gen r
    end.

  (* generalised start state: any cursor offset, any peek flag, any stored offset; depth = DEPTH0 *)
  Lemma stream_values_from : forall items k ss w,
    (is_io E && ss_failed ss = false) ->
    rest (ss_st ss) = w ++ stream_text items -> depth (ss_st ss) = DEPTH0 ->
    ws_ok w = true -> items_ok_gen items ->
    stream_run (length items + k) E itemp ss
    = stream_obs (off (ss_st ss) + length w)%nat items
      ++ repeat (None, (off (ss_st ss) + length w + length (stream_text items))%nat) k.
  Proof.
    induction items as [|[[c v] w1] items IH]; intros k ss w Hf Hrest Hd Hw Hok.
    - cbn [stream_text] in Hrest. rewrite app_nil_r in Hrest.
      cbn [length stream_text stream_obs app Nat.add].
      destruct k as [|k]; [reflexivity|].
      destruct (stream_end E itemp ss Htm Hf) as (ss' & Hn & Ho & _).
      { rewrite Hrest; exact Hw. }
      rewrite (stream_run_S k E itemp ss None ss' Hn).
      rewrite (stream_none_forever_eq E itemp ss ss' Hn k), Ho, Hrest.
      cbn [repeat]. rewrite Nat.add_0_r. reflexivity.
    - cbn [items_ok_gen] in Hok. destruct Hok as [(Hgood & Hw1 & Hsep & Hfol) Hok].
      cbn [stream_text] in Hrest.
      destruct (render_head c (Hgood_wf c v Hgood)) as (b & r & Hren & Hb & Hsd).
      set (nxt := w1 ++ stream_text items) in *.
      destruct (Hitem_gen c v nxt (off (ss_st ss) + length w)%nat true Hgood Hfol) as (pk' & Hit).
      rewrite Hren in Hit, Hrest. cbn [app] in Hit, Hrest.
      set (s2 := mkSt nxt (off (ss_st ss) + length w + length (b :: r))%nat pk' DEPTH0) in Hit.
      destruct (stream_item_ok E itemp ss w b (r ++ nxt) v s2 Htm Hf Hrest Hw Hb) as
        (ss' & Hn & Ho & Hr' & Hd' & Hf' & Hoff').
      { rewrite Hd. exact Hit. }
      { destruct (scalar c) eqn:Hsc.
        - right. cbn [s2 rest]. unfold nxt. destruct w1 as [|a w1'].
          + cbn [app]. destruct (Hsep Hsc) as [Hne | [Hnil | (b' & r' & Hnx & Hdl)]].
            * exfalso; apply Hne; reflexivity.
            * left; exact Hnil.
            * right. exists b', r'. split; assumption.
          + right. cbn [ws_ok forallb] in Hw1. apply andb_true_iff in Hw1 as [Ha _].
            exists a, (w1' ++ stream_text items). split; [reflexivity|]. apply ws_is_delim; exact Ha.
        - left. rewrite Hsd. reflexivity. }
      cbn [length Nat.add].
      rewrite (stream_run_S (length items + k) E itemp ss (Some (IVal v)) ss' Hn).
      cbn [s2 rest off depth] in Ho, Hr', Hd', Hoff'.
      rewrite (IH k ss' w1); [| rewrite Hf'; exact Hf | exact Hr' | exact Hd' | exact Hw1 | exact Hok].
      cbn [stream_obs stream_text]. rewrite Hren, Ho, Hoff'.
      assert (Hlen : (off (ss_st ss) + length w + length ((b :: r) ++ w1 ++ stream_text items)
                      = off (ss_st ss) + length w + length (b :: r) + length w1 + length (stream_text items))%nat)
        by (rewrite !app_length; lia).
      rewrite Hlen. reflexivity.
  Qed.

  Theorem stream_values_gen : forall (items : list (cst * value * list N)) (w0 : list N) (k : nat),
    ws_ok w0 = true -> items_ok_gen items ->
    stream_run (length items + k) E itemp (stream_init (w0 ++ stream_text items))
    = stream_obs (length w0) items ++ repeat (None, length (w0 ++ stream_text items)) k.
  Proof.
    intros items w0 k Hw0 Hok.
    rewrite (stream_values_from items k (stream_init (w0 ++ stream_text items)) w0);
      [| unfold stream_init; cbn [ss_failed]; apply andb_false_r | reflexivity | reflexivity | exact Hw0 | exact Hok].
    unfold stream_init, init_st. cbn [ss_st off]. rewrite app_length. reflexivity.
  Qed.
End StreamGen.

(* the per-item precondition for Value items *)
Definition good_value (cf : cfg) (c : cst) (v : value) : Prop :=
  wfb c = true /\ denote cf c = Some v /\ (limit_disabled cf = false -> (cdepth c <= 127)%nat).

(* ---- the version under the completeness hypothesis exactly as given (val_follow required after EVERY value) --- *)
Section Stream.
  Variable cf : cfg.
  Variable rk : rkind.
  Let E := mkEnv rk TEof cf.

  Hypothesis Hitem_complete : forall c v rst off pk d,
    wfb c = true -> denote cf c = Some v ->
    (limit_disabled cf = false -> (cdepth c < N.to_nat d)%nat) -> (d <= 128)%N -> val_follow rst ->
    exists pk', value_item E (mkSt (render c ++ rst) off pk d)
                = Ok (v, mkSt rst (off + length (render c))%nat pk' d)
                /\ (pk' = true -> rst <> []).

  (* per item: well-formed, denotes v, nesting <= 127 unless the limit is off, followed by whitespace w;
     bare scalars separated (sep_ok); and -- only because Hitem_complete asks val_follow after every value --
     a non-scalar (string / array / object) not followed by whitespace is not directly followed by a number
     (a value starting with a digit or '-'): val_follow (w ++ nxt). *)
  Definition item_ok (c : cst) (v : value) (w nxt : list N) : Prop :=
    wfb c = true /\ denote cf c = Some v
    /\ (limit_disabled cf = false -> (cdepth c <= 127)%nat)
    /\ ws_ok w = true /\ sep_ok c w nxt
    /\ (scalar c = false -> val_follow (w ++ nxt)).

  Fixpoint items_ok (items : list (cst * value * list N)) : Prop :=
    match items with
    | [] => True
    | (c, v, w) :: r => item_ok c v w (stream_text r) /\ items_ok r
    end.

  Lemma items_ok_gen_of : forall items,
    items_ok items -> items_ok_gen (good_value cf) (fun _ rst => val_follow rst) items.
  Proof.
    induction items as [|[[c v] w] items IH]; intros H; [exact I|].
    cbn [items_ok] in H. destruct H as [(Hwf & Hden & Hdep & Hw & Hsep & Hfol) Hok].
    cbn [items_ok_gen]. split; [|apply IH; exact Hok].
    unfold item_ok_gen, good_value. repeat split; try assumption.
    destruct (scalar c) eqn:Hsc.
    - exact (sep_val_follow c w _ Hw Hsep Hsc).
    - apply Hfol; reflexivity.
  Qed.

  Theorem stream_values : forall (items : list (cst * value * list N)) (w0 : list N) (k : nat),
    ws_ok w0 = true -> items_ok items ->
    stream_run (length items + k) E value_item (stream_init (w0 ++ stream_text items))
    = stream_obs (length w0) items ++ repeat (None, length (w0 ++ stream_text items)) k.
  Proof.
    intros items w0 k Hw0 Hok.
    apply (stream_values_gen E value_item (good_value cf) (fun _ rst => val_follow rst)).
    - reflexivity.
    - intros c v (Hwf & _). exact Hwf.
    - intros c v rst o p (Hwf & Hden & Hdep) Hfol.
      destruct (Hitem_complete c v rst o p DEPTH0 Hwf Hden) as (pk' & Hit & _).
      + intros Hl. rewrite DEPTH0_nat. specialize (Hdep Hl). lia.
      + exact DEPTH0_le.
      + exact Hfol.
      + exists pk'. exact Hit.
    - exact Hw0.
    - apply items_ok_gen_of; exact Hok.
  Qed.
End Stream.

(* ---- the full version: the hypothesis asks val_follow only after NUMBERS; then no condition beyond sep_ok --- *)
Definition is_cnum (c : cst) : bool := match c with CNum _ => true | _ => false end.

Section StreamFull.
  Variable cf : cfg.
  Variable rk : rkind.
  Let E := mkEnv rk TEof cf.

  Hypothesis Hitem_complete_num : forall c v rst off pk d,
    wfb c = true -> denote cf c = Some v ->
    (limit_disabled cf = false -> (cdepth c < N.to_nat d)%nat) -> (d <= 128)%N ->
    (is_cnum c = true -> val_follow rst) ->
    exists pk', value_item E (mkSt (render c ++ rst) off pk d)
                = Ok (v, mkSt rst (off + length (render c))%nat pk' d)
                /\ (pk' = true -> rst <> []).

  Definition item_ok_full (c : cst) (v : value) (w nxt : list N) : Prop :=
    wfb c = true /\ denote cf c = Some v
    /\ (limit_disabled cf = false -> (cdepth c <= 127)%nat)
    /\ ws_ok w = true /\ sep_ok c w nxt.

  Fixpoint items_ok_full (items : list (cst * value * list N)) : Prop :=
    match items with
    | [] => True
    | (c, v, w) :: r => item_ok_full c v w (stream_text r) /\ items_ok_full r
    end.

  Lemma items_ok_gen_of_full : forall items,
    items_ok_full items ->
    items_ok_gen (good_value cf) (fun c rst => is_cnum c = true -> val_follow rst) items.
  Proof.
    induction items as [|[[c v] w] items IH]; intros H; [exact I|].
    cbn [items_ok_full] in H. destruct H as [(Hwf & Hden & Hdep & Hw & Hsep) Hok].
    cbn [items_ok_gen]. split; [|apply IH; exact Hok].
    unfold item_ok_gen, good_value. repeat split; try assumption.
    intros Hnum. apply (sep_val_follow c w _ Hw Hsep). destruct c; try discriminate Hnum; reflexivity.
  Qed.

  Theorem stream_values_full : forall (items : list (cst * value * list N)) (w0 : list N) (k : nat),
    ws_ok w0 = true -> items_ok_full items ->
    stream_run (length items + k) E value_item (stream_init (w0 ++ stream_text items))
    = stream_obs (length w0) items ++ repeat (None, length (w0 ++ stream_text items)) k.
  Proof.
    intros items w0 k Hw0 Hok.
    apply (stream_values_gen E value_item (good_value cf) (fun c rst => is_cnum c = true -> val_follow rst)).
    - reflexivity.
    - intros c v (Hwf & _). exact Hwf.
    - intros c v rst o p (Hwf & Hden & Hdep) Hfol.
      destruct (Hitem_complete_num c v rst o p DEPTH0 Hwf Hden) as (pk' & Hit & _).
      + intros Hl. rewrite DEPTH0_nat. specialize (Hdep Hl). lia.
      + exact DEPTH0_le.
      + exact Hfol.
      + exists pk'. exact Hit.
    - exact Hw0.
    - apply items_ok_gen_of_full; exact Hok.
  Qed.
End StreamFull.

(* ---- sanity: the formulation on a concrete stream  `1 [2] "x"1 `  (no hypothesis involved) ---- *)
Example stream_text_example :
  let one := CNum (mkNum false [49] None None) in
  let items := [(one, VNum (NPos 1), [32]);
                (CArr [] (ECons [] (CNum (mkNum false [50] None None)) [] ENil), VArr [VNum (NPos 2)], [32]);
                (CStr [PRaw 120], VStr [120], []);
                (one, VNum (NPos 1), [32])] in
  stream_text items = [49; 32; 91; 50; 93; 32; 34; 120; 34; 49; 32]
  /\ stream_run (length items + 2) (mkEnv RIo TEof (mkCfg false false false false)) value_item (stream_init ([] ++ stream_text items))
     = stream_obs (length (@nil N)) items ++ repeat (None, length ([] ++ stream_text items)) 2
  /\ stream_obs 0 items = [(Some (IVal (VNum (NPos 1))), 1%nat); (Some (IVal (VArr [VNum (NPos 2)])), 5%nat);
                           (Some (IVal (VStr [120])), 9%nat); (Some (IVal (VNum (NPos 1))), 10%nat)].
Proof. vm_compute. repeat split. Qed.

Print Assumptions is_delim_spec.
Print Assumptions stream_end.
Print Assumptions stream_none_forever.
Print Assumptions stream_none_forever_eq.
Print Assumptions stream_item_error.
Print Assumptions stream_item_fail.
Print Assumptions stream_item_ok.
Print Assumptions stream_scalar_needs_delim.
Print Assumptions stream_next_bad_only_from_item.
Print Assumptions stream_lookahead_io_terminal_gen.
Print Assumptions stream_lookahead_io_terminal.
Print Assumptions stream_values_gen.
Print Assumptions stream_values.
Print Assumptions stream_values_full.
