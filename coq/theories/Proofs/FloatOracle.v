(* Proofs/FloatOracle.v — the oracle `rne_decimal m e` is the correctly rounded binary64 value of m * 10^e.
   e >= 0: exact integer, one rounding (binary_normalize).
   e <  0: quotient n/d with >= 70 significant bits, sticky bit folded in by making it odd (= rounding to odd in
           an extended format), then one rounding to nearest-even: Flocq's `round_N_odd`. *)
From Coq Require Import ZArith NArith Reals Lia Lra List Bool Psatz.
From Flocq Require Import Core BinarySingleNaN Round_odd.
From SJ Require Import Base.Bytes Base.FloatB Gen.Tables Model.Read Model.Num.
From SJ Require Import Proofs.FloatDefault.
Open Scope Z_scope.

(* ------------------------------------------------------------------ *)
(** * integer facts about the scaling *)

Lemma pow10_pos (a : Z) : 0 <= a -> 0 < 10 ^ a.
Proof. intros Ha. apply Z.pow_pos_nonneg; lia. Qed.

Lemma pow2_pos (a : Z) : 0 <= a -> 0 < 2 ^ a.
Proof. intros Ha. apply Z.pow_pos_nonneg; lia. Qed.

Lemma pow10_ge_pow2 (a : Z) : 0 <= a -> 2 ^ a <= 10 ^ a.
Proof. intros Ha. apply Z.pow_le_mono_l. lia. Qed.

(* the scaled numerator has at least 70 more bits than the denominator *)
Lemma scale_big (m d : Z) : 0 < m -> 1 < d ->
  let k := Z.max 0 (70 + Z.log2_up d - Z.log2 m) in
  0 <= k /\ 2 ^ 70 * d <= m * 2 ^ k.
Proof.
  intros Hm Hd k. split; [lia|].
  destruct (Z.log2_spec m Hm) as [Hlo _].
  destruct (Z.log2_up_spec d Hd) as [_ Hup].
  pose proof (Z.log2_nonneg m) as Hl0. pose proof (Z.log2_up_nonneg d) as Hu0.
  apply Z.le_trans with (2 ^ 70 * 2 ^ Z.log2_up d).
  - apply Z.mul_le_mono_nonneg_l; [apply Z.pow_nonneg; lia|exact Hup].
  - rewrite <- Z.pow_add_r by lia.
    apply Z.le_trans with (2 ^ Z.log2 m * 2 ^ k).
    + rewrite <- Z.pow_add_r by lia. apply Z.pow_le_mono_r; lia.
    + apply Z.mul_le_mono_nonneg_r; [apply Z.pow_nonneg; lia|exact Hlo].
Qed.

(* ------------------------------------------------------------------ *)
(** * rounding to odd, concretely *)

Definition odd_fix (n d : Z) : Z :=
  let q := n / d in let r := n mod d in
  if r =? 0 then q else if Z.even q then q + 1 else q.

Lemma Zrnd_odd_quot (n d : Z) : 0 < d -> Zrnd_odd (IZR n / IZR d) = odd_fix n d.
Proof.
  intros Hd. unfold Zrnd_odd, odd_fix. cbn zeta.
  rewrite Zfloor_div by lia.
  assert (HdR : (0 < IZR d)%R) by (apply IZR_lt; exact Hd).
  assert (Hsplit : (IZR n / IZR d = IZR (n / d) + IZR (n mod d) / IZR d)%R).
  { rewrite (Z.div_mod n d) at 1 by lia. rewrite plus_IZR, mult_IZR. field. lra. }
  destruct (Req_EM_T (IZR n / IZR d) (IZR (n / d))) as [Heq|Hne].
  - destruct (Z.eqb_spec (n mod d) 0) as [_|Hr]; [reflexivity|].
    exfalso. rewrite Hsplit in Heq.
    assert (Hz : (IZR (n mod d) / IZR d = 0)%R) by lra.
    apply Hr. apply eq_IZR. unfold Rdiv in Hz.
    apply Rmult_integral in Hz. destruct Hz as [Hz|Hz]; [exact Hz|].
    exfalso. apply (Rinv_neq_0_compat (IZR d)); lra.
  - destruct (Z.eqb_spec (n mod d) 0) as [Hr|_].
    + exfalso. apply Hne. rewrite Hsplit, Hr. unfold Rdiv. rewrite Rmult_0_l. lra.
    + destruct (Z.even (n / d)); [|reflexivity].
      rewrite Zceil_floor_neq; rewrite Zfloor_div by lia; [reflexivity|].
      intros Hc. apply Hne. symmetry. exact Hc.
Qed.

Lemma odd_fix_pos (n d : Z) : 0 < d -> d <= n -> 0 < odd_fix n d.
Proof.
  intros Hd Hn. unfold odd_fix. cbn zeta.
  assert (1 <= n / d) by (apply Z.div_le_lower_bound; lia).
  destruct (n mod d =? 0); [lia|]. destruct (Z.even (n / d)); lia.
Qed.

(* ------------------------------------------------------------------ *)
(** * the extended format in which the odd quotient lives *)

Section OddQuotient.
Variables (m d k : Z).
Hypothesis Hm : 0 < m.
Hypothesis Hd : 0 < d.
Hypothesis Hk : 0 <= k.
Hypothesis Hbig : 2 ^ 70 * d <= m * 2 ^ k.

Let x : R := (IZR m / IZR d)%R.
Let pe : Z := mag radix2 x + k.
Let fexpe : Z -> Z := FLT_exp (Z.min (- k) (-1076)) pe.

Lemma oq_dR : (0 < IZR d)%R. Proof. apply IZR_lt. exact Hd. Qed.
Lemma oq_mR : (0 < IZR m)%R. Proof. apply IZR_lt. exact Hm. Qed.

Lemma oq_x_pos : (0 < x)%R.
Proof. unfold x. apply Rdiv_lt_0_compat; [apply oq_mR|apply oq_dR]. Qed.

Lemma oq_scaled : (x * bpow radix2 k = IZR (m * 2 ^ k) / IZR d)%R.
Proof. unfold x. rewrite mult_IZR, bpow_IZR by exact Hk. field. pose proof oq_dR. lra. Qed.

Lemma oq_pe_ge : 71 <= pe.
Proof.
  unfold pe. rewrite <- mag_mult_bpow by (pose proof oq_x_pos; lra).
  apply mag_ge_bpow. rewrite oq_scaled.
  pose proof oq_dR as HdR.
  rewrite Rabs_pos_eq.
  - change (71 - 1) with 70. rewrite bpow_IZR by lia.
    apply Rmult_le_reg_r with (IZR d); [exact HdR|].
    unfold Rdiv. rewrite Rmult_assoc, Rinv_l, Rmult_1_r by lra.
    rewrite <- mult_IZR. apply IZR_le. exact Hbig.
  - apply Rlt_le, Rdiv_lt_0_compat; [|exact HdR]. apply IZR_lt.
    pose proof (pow2_pos k Hk). nia.
Qed.

Lemma oq_prec : Prec_gt_0 pe.
Proof. unfold Prec_gt_0. pose proof oq_pe_ge. lia. Qed.

Lemma oq_valid : Valid_exp fexpe.
Proof. unfold fexpe. apply FLT_exp_valid. exact oq_prec. Qed.

Lemma oq_NE : Exists_NE radix2 fexpe.
Proof. unfold fexpe. apply exists_NE_FLT. right. pose proof oq_pe_ge. lia. Qed.

Lemma oq_fexpe_le (e : Z) : fexpe e <= fexp64 e - 2.
Proof. unfold fexpe, FLT_exp. pose proof oq_pe_ge. lia. Qed.

Lemma oq_cexp : cexp radix2 fexpe x = - k.
Proof. unfold cexp, fexpe, FLT_exp, pe. lia. Qed.

Lemma oq_round_odd :
  round radix2 fexpe Zrnd_odd x = F2R (Float radix2 (odd_fix (m * 2 ^ k) d) (- k)).
Proof.
  unfold round, scaled_mantissa. rewrite oq_cexp, Z.opp_involutive, oq_scaled.
  rewrite Zrnd_odd_quot by exact Hd. reflexivity.
Qed.

Lemma oq_RNE : RNE64 (F2R (Float radix2 (odd_fix (m * 2 ^ k) d) (- k))) = RNE64 x.
Proof.
  rewrite <- oq_round_odd. unfold RNE64.
  apply (@round_N_odd radix2 eq_refl fexp64 fexpe (fun z => negb (Z.even z))
           valid_fexp64 (exists_NE_FLT radix2 (-1074) 53 (or_intror eq_refl)) oq_valid oq_NE oq_fexpe_le).
Qed.

Lemma oq_num_pos : 0 < odd_fix (m * 2 ^ k) d.
Proof. apply odd_fix_pos; [exact Hd|]. assert (0 < 2 ^ 70) by reflexivity. nia. Qed.

End OddQuotient.

(* ------------------------------------------------------------------ *)
(** * the two shortcut guards are harmless *)

Lemma Rdiv_lt_inv (a b c : R) : (0 < b)%R -> (0 < c)%R -> (a * c < b)%R -> (a / b < / c)%R.
Proof.
  intros Hb Hc H. apply Rmult_lt_reg_r with b; [exact Hb|].
  unfold Rdiv. rewrite Rmult_assoc, Rinv_l, Rmult_1_r by lra.
  apply Rmult_lt_reg_l with c; [exact Hc|].
  rewrite <- Rmult_assoc, Rinv_r, Rmult_1_l by lra. lra.
Qed.

Lemma guard_small (m e : Z) : 0 < m -> e < - (400 + Z.log2 m) ->
  (Rabs (IZR m * powerRZ 10 e) < bpow radix2 (-1075))%R.
Proof.
  intros Hm He. set (L := Z.log2 m) in *. pose proof (Z.log2_nonneg m) as HL. fold L in HL.
  destruct (Z.log2_spec m Hm) as [_ Hhi]. fold L in Hhi.
  replace e with (- (- e)) by lia. rewrite powerRZ_10_neg by lia.
  assert (HD : 0 < 10 ^ (- e)) by (apply pow10_pos; lia).
  assert (HmR : (0 < IZR m)%R) by (apply IZR_lt; exact Hm).
  assert (HDR : (0 < IZR (10 ^ (- e)))%R) by (apply IZR_lt; exact HD).
  rewrite Rabs_pos_eq by (apply Rlt_le, Rmult_lt_0_compat; [exact HmR|apply Rinv_0_lt_compat; exact HDR]).
  change (-1075) with (- (1075)). rewrite bpow_opp, bpow_IZR by lia.
  apply Rdiv_lt_inv; [exact HDR|apply IZR_lt; reflexivity|].
  rewrite <- mult_IZR. apply IZR_lt.
  (* m * 2^1075 < 2^(L+1) * 2^1075 = 2^L * 2^1076 <= 10^L * 10^401 <= 10^(-e) *)
  apply Z.lt_le_trans with (2 ^ Z.succ L * 2 ^ 1075).
  - apply Z.mul_lt_mono_pos_r; [reflexivity|exact Hhi].
  - apply Z.le_trans with (10 ^ L * 10 ^ 401).
    + rewrite Z.pow_succ_r by exact HL.
      replace (2 * 2 ^ L * 2 ^ 1075) with (2 ^ L * 2 ^ 1076) by (change (2 ^ 1076) with (2 * 2 ^ 1075); ring).
      apply Z.mul_le_mono_nonneg; [apply Z.pow_nonneg; lia|apply pow10_ge_pow2, HL|apply Z.pow_nonneg; lia|].
      apply Z.leb_le. vm_compute. reflexivity.
    + rewrite <- Z.pow_add_r by lia. apply Z.pow_le_mono_r; lia.
Qed.

Lemma guard_big (m e : Z) : 0 < m -> 400 < e ->
  (bpow radix2 1024 <= Rabs (RNE64 (IZR m * powerRZ 10 e)))%R.
Proof.
  intros Hm He. rewrite powerRZ_10_nonneg by lia. rewrite <- mult_IZR.
  assert (H : 2 ^ 1024 <= m * 10 ^ e).
  { apply Z.le_trans with (1 * 10 ^ 401).
    - apply Z.leb_le. vm_compute. reflexivity.
    - apply Z.mul_le_mono_nonneg; [lia|lia|apply Z.pow_nonneg; lia|apply Z.pow_le_mono_r; lia]. }
  assert (Hge : (bpow radix2 1024 <= RNE64 (IZR (m * 10 ^ e)))%R).
  { apply RNE64_ge_generic; [apply format_bpow64; lia|]. rewrite bpow_IZR by lia. apply IZR_le. exact H. }
  rewrite Rabs_pos_eq; [exact Hge|]. pose proof (bpow_gt_0 radix2 1024). lra.
Qed.

(* ------------------------------------------------------------------ *)
(** * the oracle theorem *)

Theorem rne_decimal_correct : forall m e, (0 < m)%Z ->
  (Rabs (RNE64 (IZR m * powerRZ 10 e)) < bpow radix2 1024)%R ->
  is_finite (rne_decimal m e) = true /\
  B2R (rne_decimal m e) = RNE64 (IZR m * powerRZ 10 e) /\
  Bsign (rne_decimal m e) = false.
Proof.
  intros m e Hm Hlt. unfold rne_decimal.
  replace (m <=? 0) with false by (symmetry; apply Z.leb_gt; exact Hm).
  destruct (Z.ltb_spec 400 e) as [Hbig|Hle].
  { exfalso. apply (Rlt_not_le _ _ Hlt). apply guard_big; assumption. }
  destruct (Z.ltb_spec e (- (400 + Z.log2 m))) as [Hsmall|Hge].
  { cbn [is_finite B2R Bsign]. rewrite RNE64_tiny by (apply guard_small; assumption). auto. }
  destruct (Z.leb_spec 0 e) as [Hpos|Hneg].
  - (* e >= 0: exact integer *)
    assert (HF : F2R (Float radix2 (m * 10 ^ e) 0) = (IZR m * powerRZ 10 e)%R).
    { rewrite F2R_e0, mult_IZR, powerRZ_10_nonneg by exact Hpos. reflexivity. }
    destruct (bn_correct (m * 10 ^ e) 0 false) as (H1 & H2 & H3); [rewrite HF; exact Hlt|].
    rewrite HF in H1, H3. split; [exact H2|]. split; [exact H1|]. rewrite H3.
    rewrite Rcompare_Gt; [reflexivity|]. rewrite powerRZ_10_nonneg by exact Hpos.
    apply Rmult_lt_0_compat; apply IZR_lt; [exact Hm|apply pow10_pos; exact Hpos].
  - (* e < 0: odd quotient *)
    cbn zeta.
    set (d := 10 ^ (- e)). set (k := Z.max 0 (70 + Z.log2_up d - Z.log2 m)).
    assert (Hd1 : 1 < d).
    { unfold d. apply Z.lt_le_trans with (10 ^ 1); [reflexivity|apply Z.pow_le_mono_r; lia]. }
    destruct (scale_big m d Hm Hd1) as (Hk & Hbig). fold k in Hk, Hbig.
    assert (Hd : 0 < d) by lia.
    change (if m * 2 ^ k mod d =? 0 then m * 2 ^ k / d
            else if Z.even (m * 2 ^ k / d) then m * 2 ^ k / d + 1 else m * 2 ^ k / d)
      with (odd_fix (m * 2 ^ k) d).
    assert (Hx : (IZR m * powerRZ 10 e = IZR m / IZR d)%R).
    { replace e with (- (- e)) by lia. rewrite powerRZ_10_neg by lia. reflexivity. }
    rewrite Hx in Hlt |- *.
    pose proof (oq_RNE m d k Hm Hd Hk Hbig) as HR.
    destruct (bn_correct (odd_fix (m * 2 ^ k) d) (- k) false) as (H1 & H2 & H3); [rewrite HR; exact Hlt|].
    split; [exact H2|]. split; [rewrite H1; exact HR|]. rewrite H3.
    rewrite Rcompare_Gt; [reflexivity|]. apply F2R_gt_0. cbn [Fnum].
    apply (oq_num_pos m d k Hm Hd Hk Hbig).
Qed.

(* consequence: on the short-literal domain the default build returns exactly the oracle's float *)
Theorem C08_exact_oracle : forall sig e, (0 < sig)%N -> (Z.of_N sig < 2 ^ 53)%Z -> (-22 <= e <= 22)%Z ->
  f64_loop 4 (b64_of_Z (Z.of_N sig)) e = Ok (Some (rne_decimal (Z.of_N sig) e)).
Proof.
  intros sig e Hpos Hsig He.
  destruct (C08_exact sig e Hsig He) as (f & Hl & Hfin & HR).
  assert (Hu : (sig <= u64_max)%N).
  { change u64_max with (Z.to_N (2 ^ 64 - 1)). assert (2 ^ 53 < 2 ^ 64 - 1) by reflexivity. lia. }
  destruct (f64_loop_finite 4 sig e f Hu Hl) as (_ & Hsg).
  destruct (rne_decimal_correct (Z.of_N sig) e ltac:(lia)) as (O1 & O2 & O3).
  { rewrite <- HR. apply (abs_B2R_lt_emax 53 1024). }
  rewrite Hl. do 2 f_equal.
  apply B2R_Bsign_inj; [exact Hfin|exact O1|rewrite O2; exact HR|rewrite O3; exact Hsg].
Qed.

Print Assumptions rne_decimal_correct.
Print Assumptions C08_exact_oracle.
