(* Proofs/LexGlue.v — float_roundtrip build: WHICH value the number parser hands to the `lexical` float parser.

   GrammarNum.v proves that parse_any_number accepts exactly the well-formed literals, with the returned value
   existentially quantified.  Here the same walk over  nint ++ fracl ++ expl ++ r  is done again, tracking values:
   with float_roundtrip on (and arbitrary_precision off) the parser returns
     - for an integer-syntax literal that fits u64: parse_number's three-way integer answer;
     - otherwise the correctly rounded binary64 (Base/FloatB.rne_decimal) of a pair (m, e) denoting the same
       rational as the literal ([same_value], stated over Z), or NumberOutOfRange when that rounds to infinity.

   Structure: (1) pure arithmetic on digit strings (nval/digits_val, the two digit loops with their VALUE
   invariants, itoa, strip_trailing_zeros); (2) the guards of rne_decimal (saturated / huge exponents);
   (3) the exponent part with values (after_exp_val); (4) k2 continuations with their denoted pair;
   (5) fraction and integer parts; (6) lex_glue. *)
From Coq Require Import Lia ZifyBool ZifyNat ZifyN.
From SJ Require Import Base.Bytes Base.FloatB Gen.Tables Model.Read Model.Num Spec.Syntax Spec.Denote.
From SJ Require Import Proofs.GrammarNum.
From Flocq Require Import Core BinarySingleNaN.
Open Scope N_scope.
Set Warnings "-abstract-large-number".

(* ================= statement vocabulary ================================================== *)
Definition exp_value (x : option (byte * option byte * bytes)) : Z :=
  match x with
  | None => 0%Z
  | Some (_, sg, ds) => let v := digits_val ds 0 in
                        match sg with Some c => if (c =? 45)%N then (- v)%Z else v | None => v end
  end.
Definition frac_digits (n : numlit) : bytes := match nfrac n with Some f => f | None => [] end.
(* |value of the literal| = fst * 10^snd *)
Definition lit_value (n : numlit) : Z * Z :=
  (digits_val (nint n ++ frac_digits n) 0, (exp_value (nexp n) - Z.of_nat (length (frac_digits n)))%Z).
Definition int_syntax (n : numlit) : bool := match nfrac n, nexp n with None, None => true | _, _ => false end.
(* (m, e) and (m0, e0) denote the same rational m*10^e = m0*10^e0, stated without reals *)
Definition same_value (m e m0 e0 : Z) : Prop :=
  (m * 10 ^ (e - Z.min e e0) = m0 * 10 ^ (e0 - Z.min e e0))%Z.
(* what the parser must return for a float-syntax (or too large) literal: None = NumberOutOfRange *)
Definition glue_float (positive : bool) (m e : Z) : option b64 :=
  let f := rne_decimal m e in if b64_is_inf f then None else Some (if positive then f else b64_neg f).

(* ================= (1) digit strings ====================================================== *)
Lemma overflow_u64_spec : forall a b, b < 10 -> overflow_mac a b u64_max = (u64_max <? a * 10 + b).
Proof.
  intros a b Hb. unfold overflow_mac, u64_max.
  change (18446744073709551615 / 10) with 1844674407370955161.
  change (18446744073709551615 mod 10) with 5. lia.
Qed.

Lemma overflow_i32_spec : forall a b, b < 10 -> overflow_mac a b i32_max = (i32_max <? a * 10 + b).
Proof.
  intros a b Hb. unfold overflow_mac, i32_max.
  change (2147483647 / 10) with 214748364.
  change (2147483647 mod 10) with 7. lia.
Qed.

Lemma digit_val_lt : forall c, is_digit c = true -> digit_val c < 10.
Proof. intros c H. unfold is_digit, digit_val in *. lia. Qed.

Lemma mul10add_exact : forall a b, a * 10 + b <= u64_max -> mul10add a b = a * 10 + b.
Proof. intros a b H. unfold mul10add. apply N.mod_small. unfold u64_max, two64 in *. lia. Qed.

Lemma nval_app2 : forall l1 l2 acc, nval (l1 ++ l2) acc = nval l2 (nval l1 acc).
Proof. induction l1 as [|c l1 IH]; intros l2 acc; cbn [app nval]; [reflexivity|]. apply IH. Qed.

Lemma nval_ge_acc : forall l acc, acc <= nval l acc.
Proof.
  induction l as [|c l IH]; intros acc; cbn [nval]; [lia|].
  specialize (IH (acc * 10 + digit_val c)). lia.
Qed.

Lemma nval_head : forall c ds, nval (c :: ds) 0 = nval ds (digit_val c).
Proof. intros c ds. cbn [nval]. f_equal. Qed.

(* nval l acc < (acc + 1) * 10^|l| *)
Lemma nval_lt : forall l acc, digs l -> nval l acc < (acc + 1) * 10 ^ N.of_nat (length l).
Proof.
  induction l as [|c l IH]; intros acc Hd; cbn [nval length].
  - change (N.of_nat 0) with 0. rewrite N.pow_0_r. lia.
  - apply digs_cons in Hd. destruct Hd as (Hc & Hd). pose proof (digit_val_lt c Hc) as Hlt.
    rewrite Nat2N.inj_succ, N.pow_succ_r'. specialize (IH (acc * 10 + digit_val c) Hd).
    set (P := 10 ^ N.of_nat (length l)) in *. nia.
Qed.

Lemma digits_val_N : forall l, digits_val l 0 = Z.of_N (nval l 0).
Proof. intros l. change 0%Z with (Z.of_N 0). apply digits_val_nval. Qed.

Lemma digs_firstn : forall n ds, digs ds -> digs (firstn n ds).
Proof. intros n ds H. rewrite <- (firstn_skipn n ds) in H. apply digs_app in H. apply H. Qed.

Lemma int_ok_digs : forall int, int_ok int = true -> digs int.
Proof.
  intros int H. destruct (int_ok_inv int H) as [->|(c & ds & -> & Hc & Hd)]; [reflexivity|].
  apply digs_cons. split; [apply digit19_digit, Hc|exact Hd].
Qed.

(* ---- the significand loop, with its value ---------------------------------------------- *)
Lemma sig_loop_val : forall ds sg n sg' ov, digs ds -> sg <= u64_max -> sig_loop ds sg = (n, sg', ov) ->
  sg' = nval (firstn n ds) sg /\ sg' <= u64_max /\ (n <= length ds)%nat /\
  (ov = false -> n = length ds) /\ (ov = true -> (n < length ds)%nat /\ u64_max < nval ds sg).
Proof.
  induction ds as [|c ds IH]; intros sg n sg' ov Hd Hsg H; cbn [sig_loop] in H.
  - injection H as <- <- <-. cbn [firstn nval length]. repeat split; try lia; try discriminate.
  - apply digs_cons in Hd. destruct Hd as (Hc & Hd). rewrite Hc in H.
    pose proof (digit_val_lt c Hc) as Hlt. rewrite (overflow_u64_spec _ _ Hlt) in H.
    destruct (u64_max <? sg * 10 + digit_val c) eqn:Hov.
    + injection H as <- <- <-. cbn [firstn nval length]. repeat split; try lia; try discriminate.
      pose proof (nval_ge_acc ds (sg * 10 + digit_val c)). lia.
    + assert (Hle : sg * 10 + digit_val c <= u64_max) by lia.
      rewrite (mul10add_exact _ _ Hle) in H.
      destruct (sig_loop ds (sg * 10 + digit_val c)) as [[n1 sg1] ov1] eqn:H1.
      injection H as <- <- <-.
      destruct (IH _ _ _ _ Hd Hle H1) as (Ha & Hb & Hc' & Hd' & He').
      cbn [firstn nval length]. split; [exact Ha|]. split; [exact Hb|]. split; [lia|]. split.
      * intros Hf. rewrite (Hd' Hf). reflexivity.
      * intros Ht. destruct (He' Ht). split; [lia|assumption].
Qed.

(* ---- the exponent loop, with its value -------------------------------------------------- *)
Lemma exp_loop_val : forall ds ex n ex' ov, digs ds -> exp_loop ds ex = (n, ex', ov) ->
  (n <= length ds)%nat /\ (ov = false -> n = length ds /\ ex' = nval ds ex) /\ (ov = true -> i32_max < nval ds ex).
Proof.
  induction ds as [|c ds IH]; intros ex n ex' ov Hd H; cbn [exp_loop] in H.
  - injection H as <- <- <-. cbn [length nval]. split; [lia|]. split; [intros _; split; reflexivity|discriminate].
  - apply digs_cons in Hd. destruct Hd as (Hc & Hd). rewrite Hc in H.
    pose proof (digit_val_lt c Hc) as Hlt. rewrite (overflow_i32_spec _ _ Hlt) in H.
    destruct (i32_max <? ex * 10 + digit_val c) eqn:Hov.
    + injection H as <- <- <-. cbn [length nval]. split; [lia|]. split; [discriminate|]. intros _.
      pose proof (nval_ge_acc ds (ex * 10 + digit_val c)). lia.
    + destruct (exp_loop ds (ex * 10 + digit_val c)) as [[n1 ex1] ov1] eqn:H1.
      injection H as <- <- <-. destruct (IH _ _ _ _ Hd H1) as (Ha & Hb & Hc').
      cbn [length nval]. split; [lia|]. split.
      * intros Hf. destruct (Hb Hf) as (-> & ->). split; reflexivity.
      * exact Hc'.
Qed.

(* ---- itoa prints a digit string of the right value -------------------------------------- *)
Lemma dec_aux_val : forall fuel n acc, n < 10 ^ N.of_nat fuel ->
  exists l, dec_digits_aux fuel n acc = l ++ acc /\ digs l /\ nval l 0 = n.
Proof.
  induction fuel as [|f IH]; intros n acc Hn.
  - change (N.of_nat 0) with 0 in Hn. rewrite N.pow_0_r in Hn. exists []. cbn [dec_digits_aux app nval].
    split; [reflexivity|]. split; [reflexivity|lia].
  - cbn [dec_digits_aux]. destruct (n <? 10) eqn:Hlt.
    + exists [48 + n]. cbn [app nval]. split; [reflexivity|]. split.
      * apply digs_cons. split; [unfold is_digit; lia|reflexivity].
      * unfold digit_val. lia.
    + rewrite Nat2N.inj_succ, N.pow_succ_r' in Hn.
      assert (Hq : n / 10 < 10 ^ N.of_nat f).
      { apply N.div_lt_upper_bound; [discriminate|exact Hn]. }
      destruct (IH (n / 10) ((48 + n mod 10) :: acc) Hq) as (l & Hl & Hd & Hv).
      pose proof (N.mod_lt n 10 ltac:(discriminate)) as Hm.
      exists (l ++ [48 + n mod 10]). split; [rewrite Hl, <- app_assoc; reflexivity|]. split.
      * apply digs_app. split; [exact Hd|]. apply digs_cons. split; [unfold is_digit; lia|reflexivity].
      * rewrite nval_app, Hv. unfold digit_val. pose proof (N.div_mod n 10 ltac:(discriminate)). lia.
Qed.

Lemma itoa_val : forall x, x <= u64_max -> digs (itoa x) /\ nval (itoa x) 0 = x.
Proof.
  intros x Hx. unfold itoa.
  assert (Hlt : x < 10 ^ N.of_nat 40).
  { change (10 ^ N.of_nat 40) with 10000000000000000000000000000000000000000. unfold u64_max in Hx. lia. }
  destruct (dec_aux_val 40 x [] Hlt) as (l & Hl & Hd & Hv). rewrite Hl, app_nil_r. split; assumption.
Qed.

(* ---- zeros and strip_trailing_zeros -------------------------------------------------------- *)
Definition allz (z : bytes) : Prop := forall x, In x z -> x = 48.

Lemma nval_zeros : forall z acc, allz z -> nval z acc = acc * 10 ^ N.of_nat (length z).
Proof.
  induction z as [|c z IH]; intros acc Hz; cbn [nval length].
  - change (N.of_nat 0) with 0. rewrite N.pow_0_r. lia.
  - assert (Hc : c = 48) by (apply Hz; left; reflexivity). subst c.
    rewrite IH by (intros x Hx; apply Hz; right; exact Hx).
    rewrite Nat2N.inj_succ, N.pow_succ_r'. change (digit_val 48) with 0. lia.
Qed.

Lemma allz_digs : forall z, allz z -> digs z.
Proof.
  intros z Hz. unfold digs. apply forallb_forall. intros x Hx. rewrite (Hz x Hx). reflexivity.
Qed.

Lemma allz_repeat : forall k, allz (repeat 48 k).
Proof. intros k x Hx. apply repeat_spec in Hx. exact Hx. Qed.

Lemma strip_rev_eq : forall a l,
  strip_trailing_zeros_rev (a :: l) = if a =? 48 then strip_trailing_zeros_rev l else a :: l.
Proof.
  intros a l. destruct (N.eqb_spec a 48) as [->|Hne]; [reflexivity|].
  destruct a as [|pa]; [reflexivity|].
  repeat (destruct pa as [pa|pa|]; try reflexivity). exfalso. apply Hne. reflexivity.
Qed.

Lemma strip_rev_spec : forall l, exists z, l = z ++ strip_trailing_zeros_rev l /\ allz z.
Proof.
  induction l as [|a l (z & Hl & Hz)].
  - exists []. split; [reflexivity|]. intros x [].
  - rewrite strip_rev_eq. destruct (N.eqb_spec a 48) as [->|Hne].
    + exists (48 :: z). split; [cbn [app]; f_equal; exact Hl|].
      intros x [<-|Hx]; [reflexivity|apply Hz, Hx].
    + exists []. split; [reflexivity|]. intros x [].
Qed.

Lemma strip_spec : forall l, exists z, l = strip_trailing_zeros l ++ z /\ allz z.
Proof.
  intros l. destruct (strip_rev_spec (rev l)) as (z & Hl & Hz). exists (rev z). split.
  - unfold strip_trailing_zeros. rewrite <- rev_app_distr, <- Hl, rev_involutive. reflexivity.
  - intros x Hx. apply Hz. apply in_rev. exact Hx.
Qed.

Lemma zeros_forallb : forall l, forallb (N.eqb 48) l = true -> allz l.
Proof.
  intros l H x Hx. rewrite forallb_forall in H. specialize (H x Hx). apply N.eqb_eq in H. symmetry. exact H.
Qed.

Lemma nonzero_pos : forall l acc, digs l -> forallb (N.eqb 48) l = false -> 0 < nval l acc.
Proof.
  induction l as [|c l IH]; intros acc Hd Hz; [discriminate Hz|].
  apply digs_cons in Hd. destruct Hd as (Hc & Hd). cbn [forallb] in Hz. cbn [nval].
  destruct (N.eqb_spec 48 c) as [<-|Hne]; cbn [andb] in Hz.
  - apply IH; assumption.
  - pose proof (nval_ge_acc l (acc * 10 + digit_val c)) as Hge.
    unfold is_digit, digit_val in *. lia.
Qed.

(* ---- same_value ------------------------------------------------------------------------------ *)
Lemma same_value_refl : forall m e, same_value m e m e.
Proof. intros. unfold same_value. reflexivity. Qed.

Lemma same_value_shift : forall m e k, (0 <= k)%Z -> same_value m e (m * 10 ^ k) (e - k).
Proof.
  intros m e k Hk. unfold same_value. rewrite Z.min_r by lia.
  replace (e - (e - k))%Z with k by lia. replace (e - k - (e - k))%Z with 0%Z by lia.
  rewrite Z.pow_0_r. ring.
Qed.

(* the value of  i ++ f  against the value of  i ++ strip f *)
Lemma strip_value : forall i f, exists k,
  length f = (length (strip_trailing_zeros f) + k)%nat /\
  nval (i ++ f) 0 = nval (i ++ strip_trailing_zeros f) 0 * 10 ^ N.of_nat k /\
  (digs f -> digs (strip_trailing_zeros f)).
Proof.
  intros i f. destruct (strip_spec f) as (z & Hf & Hz). exists (length z). split; [|split].
  - rewrite Hf at 1. apply app_length.
  - rewrite Hf at 1. rewrite app_assoc, nval_app2. apply nval_zeros, Hz.
  - intros Hd. rewrite Hf in Hd. apply digs_app in Hd. apply Hd.
Qed.

(* ================= (2) the guards of rne_decimal ============================================== *)
Lemma rne_nonpos : forall m e, (m <= 0)%Z -> rne_decimal m e = B754_zero false.
Proof. intros m e H. unfold rne_decimal. destruct (Z.leb_spec m 0); [reflexivity|lia]. Qed.

Lemma rne_huge : forall m e, (0 < m)%Z -> (400 < e)%Z -> rne_decimal m e = B754_infinity false.
Proof.
  intros m e Hm He. unfold rne_decimal. destruct (Z.leb_spec m 0); [lia|].
  destruct (Z.ltb_spec 400 e); [reflexivity|lia].
Qed.

Lemma rne_tiny : forall m e, (0 < m)%Z -> (e < - (400 + Z.log2 m))%Z -> rne_decimal m e = B754_zero false.
Proof.
  intros m e Hm He. pose proof (Z.log2_nonneg m) as Hl. unfold rne_decimal. destruct (Z.leb_spec m 0); [lia|].
  destruct (Z.ltb_spec 400 e); [lia|].
  destruct (Z.ltb_spec e (- (400 + Z.log2 m))); [reflexivity|lia].
Qed.

(* saturating the exponent to i32 does not change the result (both sides hit the same guard) *)
Lemma rne_decimal_sat : forall m e, (Z.log2 m < 2000000000)%Z -> rne_decimal m (i32_sat e) = rne_decimal m e.
Proof.
  intros m e Hl. destruct (Z.leb_spec m 0) as [Hm|Hm].
  - rewrite !rne_nonpos by exact Hm. reflexivity.
  - unfold i32_sat. destruct (Z.ltb_spec 2147483647 e) as [Hbig|Hbig].
    + rewrite (rne_huge m e Hm) by lia. apply rne_huge; [exact Hm|lia].
    + destruct (Z.ltb_spec e (-2147483648)) as [Hsm|Hsm].
      * rewrite (rne_tiny m e Hm) by lia. apply rne_tiny; [exact Hm|lia].
      * f_equal. lia.
Qed.

Lemma log2_u64 : forall sg, sg <= u64_max -> (Z.log2 (Z.of_N sg) < 64)%Z.
Proof.
  intros sg H. destruct (Z.leb_spec (Z.of_N sg) 0) as [H0|H0].
  - rewrite Z.log2_nonpos by exact H0. lia.
  - apply Z.log2_lt_pow2; [exact H0|]. unfold u64_max in H. change (2 ^ 64)%Z with 18446744073709551616%Z. lia.
Qed.

(* a number with at most L decimal digits has fewer than 4L+1 bits *)
Lemma log2_digits : forall v L, v < 10 ^ N.of_nat L -> (Z.log2 (Z.of_N v) <= 4 * Z.of_nat L)%Z.
Proof.
  intros v L H. destruct (Z.leb_spec (Z.of_N v) 0) as [H0|H0].
  - rewrite Z.log2_nonpos by exact H0. lia.
  - apply Z.lt_le_incl. apply Z.log2_lt_pow2; [exact H0|].
    assert (H1 : (Z.of_N v < 10 ^ Z.of_nat L)%Z).
    { apply N2Z.inj_lt in H. rewrite N2Z.inj_pow, nat_N_Z in H. exact H. }
    rewrite Z.pow_mul_r by lia. change (2 ^ 4)%Z with 16%Z.
    eapply Z.lt_le_trans; [exact H1|]. apply Z.pow_le_mono_l. lia.
Qed.

(* ================= (3) runs, with values ======================================================== *)
(* the run [run] ends in [se] with the float denoted by (m, e), or reports NumberOutOfRange when that is infinite *)
Definition gl (positive : bool) (m e : Z) (run : res (b64 * st)) (se : st) : Prop :=
  match glue_float positive m e with
  | Some f => run = Ok (f, se)
  | None => exists i, run = Err NumberOutOfRange i
  end.
Definition glp (positive : bool) (m e : Z) (run : res (pnum * st)) (se : st) : Prop :=
  match glue_float positive m e with
  | Some f => run = Ok (PF64 f, se)
  | None => exists i, run = Err NumberOutOfRange i
  end.

Lemma gl_wrapF : forall positive m e run se, gl positive m e run se -> glp positive m e (wrapF run) se.
Proof.
  intros positive m e run se H. unfold gl, glp in *. destruct (glue_float positive m e) as [f|].
  - rewrite H. reflexivity.
  - destruct H as [i ->]. exists i. reflexivity.
Qed.

Lemma gl_zero : forall (positive : bool) m e (run : res (b64 * st)) s, rne_decimal m e = B754_zero false ->
  run = Ok (if positive then B754_zero false else B754_zero true, s) -> gl positive m e run s.
Proof.
  intros positive m e run s Hz ->. unfold gl, glue_float. cbv zeta. rewrite Hz. cbn [b64_is_inf].
  destruct positive; reflexivity.
Qed.

Lemma gl_inf : forall positive m e i s, rne_decimal m e = B754_infinity false ->
  gl positive m e (Err NumberOutOfRange i) s.
Proof.
  intros positive m e i s Hz. unfold gl, glue_float. cbv zeta. rewrite Hz. cbn [b64_is_inf]. exists i. reflexivity.
Qed.

(* ---- the exponent part ----------------------------------------------------------------------- *)
Lemma exp_value_eq : forall e sg c1 ds,
  exp_value (Some (e, sg, c1 :: ds)) =
  if pexp sg then Z.of_N (nval ds (digit_val c1)) else (- Z.of_N (nval ds (digit_val c1)))%Z.
Proof.
  intros e sg c1 ds. unfold exp_value. cbv zeta. rewrite digits_val_N, nval_head.
  destruct sg as [c|]; cbn [pexp]; [|reflexivity]. destruct (c =? 45); reflexivity.
Qed.

(* ================= (4) k2 continuations and the pair they denote ================================= *)
(* the pair handed to rne_decimal (before the explicit exponent is added) *)
Definition k2_wit (k : k2) : Z * Z :=
  match k with
  | K2s sg e => (Z.of_N sg, e)
  | K2l i f => (digits_val (i ++ strip_trailing_zeros f) 0, (- Z.of_nat (length (strip_trailing_zeros f)))%Z)
  end.
(* the pair read off the digits consumed so far *)
Definition k2_lit (k : k2) : Z * Z :=
  match k with
  | K2s sg e => (Z.of_N sg, e)
  | K2l i f => (digits_val (i ++ f) 0, (- Z.of_nat (length f))%Z)
  end.
Definition k2_zero (k : k2) : bool :=
  match k with K2s sg _ => sg =? 0 | K2l i f => forallb (N.eqb 48) (i ++ f) end.
Definition k2_good (k : k2) : Prop :=
  match k with
  | K2s sg e => sg <= u64_max /\ (-100000000 < e <= 0)%Z
  | K2l i f => digs i /\ digs f /\ (Z.of_nat (length f) < 100000000)%Z
               /\ exists L, (Z.of_nat L < 100000000)%Z /\ nval (i ++ f) 0 < 10 ^ N.of_nat L
  end.

Lemma k2_facts : forall k, k2_good k ->
  (0 <= fst (k2_wit k))%Z /\ (Z.log2 (fst (k2_wit k)) < 500000000)%Z /\ (-100000000 < snd (k2_wit k) <= 0)%Z
  /\ (k2_zero k = true -> fst (k2_wit k) = 0%Z) /\ (k2_zero k = false -> (0 < fst (k2_wit k))%Z)
  /\ (forall X, same_value (fst (k2_wit k)) (snd (k2_wit k) + X) (fst (k2_lit k)) (snd (k2_lit k) + X)).
Proof.
  intros [sg e|i f] Hk; cbn [k2_good k2_wit k2_lit k2_zero fst snd] in *.
  - destruct Hk as (Hsg & He). pose proof (log2_u64 sg Hsg).
    split; [lia|]. split; [lia|]. split; [exact He|]. split; [lia|]. split; [lia|].
    intros X. apply same_value_refl.
  - destruct Hk as (Hi & Hf & Hlen & L & HL & Hv).
    destruct (strip_value i f) as (k & Hk1 & Hk2 & Hk3). specialize (Hk3 Hf).
    rewrite !digits_val_N.
    set (a := nval (i ++ strip_trailing_zeros f) 0) in *. set (b := nval (i ++ f) 0) in *.
    assert (Hp : 0 < 10 ^ N.of_nat k) by (apply N.neq_0_lt_0, N.pow_nonzero; discriminate).
    assert (Hab : a <= b) by (rewrite Hk2; set (P := 10 ^ N.of_nat k) in *; nia).
    assert (Ha : a < 10 ^ N.of_nat L) by lia.
    pose proof (log2_digits a L Ha) as Hlog.
    split; [lia|]. split; [lia|]. split; [lia|]. split; [|split].
    + intros Hz. assert (Hb0 : b = 0).
      { unfold b. rewrite (nval_zeros _ 0 (zeros_forallb _ Hz)). reflexivity. }
      rewrite Hb0 in Hk2. set (P := 10 ^ N.of_nat k) in *. nia.
    + intros Hz. assert (Hb0 : 0 < b).
      { unfold b. apply nonzero_pos; [apply digs_app; split; assumption|exact Hz]. }
      rewrite Hk2 in Hb0. set (P := 10 ^ N.of_nat k) in *. nia.
    + intros X. rewrite Hk2, N2Z.inj_mul, N2Z.inj_pow, nat_N_Z.
      replace (- Z.of_nat (length f) + X)%Z with (- Z.of_nat (length (strip_trailing_zeros f)) + X - Z.of_nat k)%Z by lia.
      apply same_value_shift. lia.
Qed.

(* what remains to be done after the integer digits: the u64 significand, or the digit string itself *)
Definition k1_of (int : bytes) : k1 := if nval int 0 <=? u64_max then K1n (nval int 0) else K1f int.

Lemma k1_nofrac : forall int, int_ok int = true -> (Z.of_nat (length int) < 100000000)%Z ->
  k2_good (k2_of (k1_of int)) /\ k2_lit (k2_of (k1_of int)) = (digits_val int 0, 0%Z).
Proof.
  intros int Hint Hlen. pose proof (int_ok_digs int Hint) as Hdi.
  unfold k1_of. destruct (N.leb_spec (nval int 0) u64_max) as [Hle|Hgt]; cbn [k2_of k2_good k2_lit].
  - split; [split; [exact Hle|lia]|]. rewrite digits_val_N. reflexivity.
  - rewrite app_nil_r. split; [|reflexivity].
    split; [exact Hdi|]. split; [reflexivity|]. split; [cbn [length]; lia|].
    exists (length int). split; [exact Hlen|]. pose proof (nval_lt int 0 Hdi). lia.
Qed.

Lemma glp_st : forall positive m e run se se', glp positive m e run se -> se = se' -> glp positive m e run se'.
Proof. intros positive m e run se se' H <-. exact H. Qed.

Section Glue.
Variable E : env.
Hypothesis HE : tm E = TEof.
Hypothesis HFR : float_roundtrip (cf E) = true.

Lemma f64_from_parts_gl : forall positive sg e e' s,
  rne_decimal (Z.of_N sg) e = rne_decimal (Z.of_N sg) e' ->
  gl positive (Z.of_N sg) e' (f64_from_parts E positive sg e s) s.
Proof using HE HFR.
  intros positive sg e e' s Heq. unfold gl, glue_float, f64_from_parts, f64_fr. rewrite HFR. cbv zeta. rewrite Heq.
  destruct (b64_is_inf (rne_decimal (Z.of_N sg) e')); cbn [bind]; cbv beta iota.
  - unfold peek_error. eexists. reflexivity.
  - reflexivity.
Qed.

Lemma f64_long_gl : forall positive i f x e' s,
  e' = (x - Z.of_nat (length (strip_trailing_zeros f)))%Z ->
  gl positive (digits_val (i ++ strip_trailing_zeros f) 0) e' (f64_long_from_parts E positive i f x s) s.
Proof using HE HFR.
  intros positive i f x e' s ->. unfold gl, glue_float, f64_long_from_parts, lexical_truncated. cbv zeta.
  destruct (b64_is_inf _).
  - unfold peek_error. eexists. reflexivity.
  - reflexivity.
Qed.

Lemma after_exp_val : forall positive z K e sg c1 ds r off p d (m eb : Z),
  sg_ok sg -> is_digit c1 = true -> digs ds -> nd r ->
  (0 <= m)%Z -> (Z.log2 m < 500000000)%Z -> (-100000000 < eb <= 0)%Z ->
  (z = true -> m = 0%Z) -> (z = false -> (0 < m)%Z) ->
  (forall s, gl positive m (eb + exp_value (Some (e, sg, c1 :: ds))) (K (pexp sg) (nval ds (digit_val c1)) s) s) ->
  gl positive m (eb + exp_value (Some (e, sg, c1 :: ds)))
     (after_exp E positive z K (mkSt (e :: sgl sg ++ c1 :: ds ++ r) off p d))
     (pkd r (off + (2 + length (sgl sg) + length ds)) d).
Proof using HE HFR.
  intros positive z K e sg c1 ds r off p d m eb Hsg Hc1 Hd Hr Hm0 Hlog Heb Hz1 Hz0 HK.
  destruct (exp_loop ds (digit_val c1)) as [[n ex] ov] eqn:Hel.
  destruct (exp_loop_val _ _ _ _ _ Hd Hel) as (Hn & Hfull & Hov).
  unfold after_exp. rewrite (exponent_front_good E HE e sg c1 ds r off p d Hsg Hc1 Hd Hr), Hel. cbn [bind]. cbv beta iota.
  destruct ov.
  - (* the exponent digits overflow i32 *)
    specialize (Hov eq_refl). unfold i32_max in Hov.
    assert (Hskip : skip_digits E (mkSt (skipn n ds ++ r) (off + (2 + length (sgl sg) + n)) false d)
                    = Ok (hd 0 r, pkd r (off + (2 + length (sgl sg) + length ds)) d)).
    { rewrite (skip_digits_mk E HE (skipn n ds) r _ _ _ (digs_skipn n ds Hd) Hr). rewrite skipn_length.
      do 2 f_equal. apply pkd_off. lia. }
    unfold parse_exponent_overflow. rewrite exp_value_eq.
    destruct z; cbn [negb andb].
    + rewrite (Hz1 eq_refl). apply gl_zero; [apply rne_nonpos; lia|].
      rewrite Hskip. reflexivity.
    + specialize (Hz0 eq_refl). destruct (pexp sg).
      * unfold error. apply gl_inf. apply rne_huge; [exact Hz0|lia].
      * apply gl_zero; [apply rne_tiny; [exact Hz0|lia]|]. rewrite Hskip. reflexivity.
  - destruct (Hfull eq_refl) as (-> & ->).
    rewrite skipn_all. cbn [app]. rewrite (peek_or_null_mk E HE). cbn [bind]. cbv beta iota. apply HK.
Qed.


Lemma k2_exp_val : forall positive k e sg c1 ds r off d,
  k2_good k -> is_e e = true -> sg_ok sg -> is_digit c1 = true -> digs ds -> nd r ->
  gl positive (fst (k2_wit k)) (snd (k2_wit k) + exp_value (Some (e, sg, c1 :: ds)))
     (run_k2 E positive k (pkd (e :: sgl sg ++ c1 :: ds ++ r) off d))
     (pkd r (off + (2 + length (sgl sg) + length ds)) d).
Proof using HE HFR.
  intros positive k e sg c1 ds r off d Hk He Hsg Hc1 Hd Hr.
  destruct (k2_facts k Hk) as (H0 & Hlog & Hsnd & Hz1 & Hz0 & _).
  unfold run_k2. cbv zeta. rewrite rest_pkd. cbn [hd]. rewrite He.
  destruct k as [sg0 e0|i f]; cbn [k2_wit k2_zero fst snd] in *.
  - rewrite (parse_exponent_eq E). apply after_exp_val; try assumption.
    intros s. apply f64_from_parts_gl. rewrite exp_value_eq.
    destruct Hk as (Hsg0 & _). pose proof (log2_u64 sg0 Hsg0).
    destruct (pexp sg).
    + apply rne_decimal_sat. lia.
    + replace (e0 + - Z.of_N (nval ds (digit_val c1)))%Z with (e0 - Z.of_N (nval ds (digit_val c1)))%Z by lia.
      apply rne_decimal_sat. lia.
  - rewrite (parse_long_exponent_eq E). apply after_exp_val; try assumption.
    intros s. apply f64_long_gl. rewrite exp_value_eq. destruct (pexp sg); lia.
Qed.

Lemma k2_fin_val : forall positive k r off d,
  k2_good k -> is_e (hd 0 r) = false ->
  gl positive (fst (k2_wit k)) (snd (k2_wit k)) (run_k2 E positive k (pkd r off d)) (pkd r off d).
Proof using HE HFR.
  intros positive k r off d Hk He. unfold run_k2. cbv zeta. rewrite rest_pkd, He.
  destruct k as [sg0 e0|i f]; cbn [k2_wit fst snd].
  - apply f64_from_parts_gl. reflexivity.
  - apply f64_long_gl. lia.
Qed.

(* ================= (5) fraction and integer parts =================================================== *)
(* overflow inside the fraction: the digit string of sg * 10^e is rebuilt; its value is sg and the rebuilt
   fraction has exactly -e digits *)
Lemma parse_decimal_overflow_val : forall positive sg e ds2, sg <= u64_max -> (e <= 0)%Z ->
  exists I F0, digs (I ++ F0) /\ nval (I ++ F0) 0 = sg /\ length F0 = Z.to_nat (- e) /\
    forall r o p d, digs ds2 -> ds2 <> [] -> nd r ->
      parse_decimal_overflow E positive sg e (mkSt (ds2 ++ r) o p d)
      = run_k2 E positive (K2l I (F0 ++ ds2)) (pkd r (o + length ds2) d).
Proof using HE HFR.
  intros positive sg e ds2 Hsg He. destruct (itoa_val sg Hsg) as (Hsd & Hsv).
  set (fd := Z.to_nat (- e)).
  set (zs := if Nat.leb (S (length (itoa sg))) fd then repeat 48 (S (fd - S (length (itoa sg)))) else []).
  set (scratch := zs ++ itoa sg).
  set (ie := (length scratch - fd)%nat).
  assert (Hzs : allz zs).
  { unfold zs. destruct (Nat.leb _ _); [apply allz_repeat|intros x []]. }
  assert (Hlen : (fd <= length scratch)%nat).
  { unfold scratch, zs. rewrite app_length. destruct (Nat.leb_spec (S (length (itoa sg))) fd) as [Hle|Hgt].
    - rewrite repeat_length. lia.
    - cbn [length]. lia. }
  exists (firstn ie scratch), (skipn ie scratch). rewrite firstn_skipn. split; [|split; [|split]].
  - unfold scratch. apply digs_app. split; [apply allz_digs, Hzs|exact Hsd].
  - unfold scratch. rewrite nval_app2, (nval_zeros zs 0 Hzs), N.mul_0_l. exact Hsv.
  - rewrite skipn_length. unfold ie. lia.
  - intros r o p d Hd Hne Hr. unfold parse_decimal_overflow. rewrite HFR. cbv zeta.
    apply (parse_long_decimal_good E HE); try assumption.
    intros Hnil. apply app_eq_nil in Hnil. apply Hne, Hnil.
Qed.

Lemma parse_decimal_val : forall positive sg f r o p d, sg <= u64_max -> digs f -> f <> [] -> nd r ->
  (Z.of_nat (length f) < 100000000)%Z ->
  (exists L, (Z.of_nat L < 100000000)%Z /\ nval f sg < 10 ^ N.of_nat L) ->
  exists k', k2_good k' /\ k2_lit k' = (Z.of_N (nval f sg), (- Z.of_nat (length f))%Z) /\
    parse_decimal E positive sg 0 (mkSt (46 :: f ++ r) o p d) = run_k2 E positive k' (pkd r (o + S (length f)) d).
Proof using HE HFR.
  intros positive sg f r o p d Hsg Hd Hne Hr Hlen HL.
  destruct (sig_loop f sg) as [[n sg'] ov] eqn:Hsl.
  destruct (sig_loop_val _ _ _ _ _ Hd Hsg Hsl) as (Hv & Hsg' & Hn & Hfull & Hpart).
  destruct ov.
  - destruct (Hpart eq_refl) as (Hlt & _).
    assert (He : (0 + - Z.of_nat n <= 0)%Z) by lia.
    destruct (parse_decimal_overflow_val positive sg' (0 + - Z.of_nat n) (skipn n f) Hsg' He)
      as (I & F0 & HdIF & HvIF & HlF & Hrun).
    apply digs_app in HdIF. destruct HdIF as (HdI & HdF).
    assert (HlF' : length F0 = n) by lia.
    assert (Hval : nval (I ++ F0 ++ skipn n f) 0 = nval f sg).
    { rewrite app_assoc, nval_app2, HvIF, Hv, <- nval_app2, firstn_skipn. reflexivity. }
    assert (Hlen2 : length (F0 ++ skipn n f) = length f).
    { rewrite app_length, skipn_length. lia. }
    exists (K2l I (F0 ++ skipn n f)). split; [|split].
    + cbn [k2_good]. split; [exact HdI|]. split; [apply digs_app; split; [exact HdF|apply digs_skipn, Hd]|].
      split; [rewrite Hlen2; exact Hlen|]. destruct HL as (L & HL1 & HL2). exists L. split; [exact HL1|].
      rewrite Hval. exact HL2.
    + cbn [k2_lit]. rewrite digits_val_N, Hval, Hlen2. reflexivity.
    + unfold parse_decimal. rewrite discard_mk. cbn [tl rest]. rewrite (sig_loop_app f r sg Hr), Hsl.
      rewrite advance_mk, (skipn_app_le n f r Hn), (peek_or_null_mk E HE). cbn [bind]. cbv beta iota.
      unfold pkd at 1. rewrite (Hrun r _ _ d (digs_skipn n f Hd) (skipn_len_lt_nonnil n f Hlt) Hr).
      rewrite skipn_length. do 2 f_equal. lia.
  - specialize (Hfull eq_refl). subst n. rewrite firstn_all in Hv. subst sg'.
    exists (K2s (nval f sg) (0 + - Z.of_nat (length f))). split; [|split].
    + cbn [k2_good]. split; [exact Hsg'|]. lia.
    + reflexivity.
    + unfold parse_decimal. rewrite discard_mk. cbn [tl rest]. rewrite (sig_loop_app f r sg Hr), Hsl.
      rewrite advance_mk, skipn_app_l, (peek_or_null_mk E HE). cbn [bind]. cbv beta iota.
      destruct f as [|c0 f0]; [exfalso; apply Hne; reflexivity|]. cbn [length Nat.eqb].
      unfold run_k2. cbv zeta. rewrite rest_pkd.
      replace (S o + S (length f0))%nat with (o + S (S (length f0)))%nat by lia. reflexivity.
Qed.

Lemma parse_integer_val : forall positive int r o p d, int_ok int = true -> nd r ->
  parse_integer E positive (mkSt (int ++ r) o p d) = run_k1 E positive (k1_of int) (pkd r (o + length int) d).
Proof using HE HFR.
  intros positive int r o p d Hint Hr. destruct (int_ok_inv int Hint) as [->|(c & ds & -> & Hc & Hd)].
  - change (k1_of [48]) with (K1n 0). unfold parse_integer. cbn [app].
    rewrite (next_cons E). cbn [bind]. cbv beta iota. change (48 =? 48) with true. cbv iota.
    rewrite (peek_or_null_mk E HE). cbn [bind]. cbv beta iota. rewrite Hr. cbn [length].
    replace (o + 1)%nat with (S o) by lia. reflexivity.
  - destruct (digit19_digit c Hc) as (Hcd & Hc48).
    assert (Hdv : digit_val c <= u64_max).
    { unfold digit_val, u64_max. unfold is_digit in Hcd. lia. }
    destruct (sig_loop ds (digit_val c)) as [[n sg] ov] eqn:Hsl.
    destruct (sig_loop_val _ _ _ _ _ Hd Hdv Hsl) as (Hv & Hsg & Hn & Hfull & Hpart).
    unfold parse_integer. cbn [app].
    rewrite (next_cons E). cbn [bind]. cbv beta iota. rewrite Hc48, Hc. cbn [rest].
    rewrite (sig_loop_app ds r _ Hr), Hsl, advance_mk.
    destruct ov.
    + destruct (Hpart eq_refl) as (Hlt & Hbig).
      assert (Hk : k1_of (c :: ds) = K1f (c :: ds)).
      { unfold k1_of. rewrite nval_head. destruct (N.leb_spec (nval ds (digit_val c)) u64_max); [lia|reflexivity]. }
      assert (Hito : itoa sg = c :: firstn n ds).
      { rewrite Hv, <- nval_head. apply itoa_canon.
        - rewrite int_ok_eq, Hc48, Hc. cbn [andb]. apply digs_firstn, Hd.
        - rewrite nval_head, <- Hv. exact Hsg. }
      rewrite Hk, (skipn_app_le n ds r Hn), (peek_or_null_mk E HE). cbn [bind]. cbv beta iota.
      unfold pkd at 1. change (let* (f, s3) := ?x in Ok (PF64 f, s3)) with (wrapF x). f_equal.
      unfold parse_long_integer. cbn [rest]. cbv zeta.
      rewrite (span_app (skipn n ds) r (digs_skipn n ds Hd) Hr), firstn_app_l, advance_mk, skipn_app_l,
        (peek_or_null_mk E HE). cbn [bind]. cbv beta iota. rewrite HFR.
      rewrite Hito. cbn [app]. rewrite firstn_skipn. rewrite skipn_length. cbn [length].
      replace (S o + n + (length ds - n))%nat with (o + S (length ds))%nat by lia.
      reflexivity.
    + specialize (Hfull eq_refl). subst n. rewrite firstn_all in Hv.
      assert (Hk : k1_of (c :: ds) = K1n sg).
      { unfold k1_of. rewrite nval_head, <- Hv. destruct (N.leb_spec sg u64_max); [reflexivity|lia]. }
      rewrite Hk, skipn_app_l, (peek_or_null_mk E HE). cbn [bind]. cbv beta iota.
      cbn [length run_k1]. replace (S o + length ds)%nat with (o + S (length ds))%nat by lia. reflexivity.
Qed.

Lemma k1_dec_val : forall positive int f r o d, int_ok int = true -> digs f -> f <> [] -> nd r ->
  (Z.of_nat (length (int ++ f)) < 100000000)%Z ->
  exists k', k2_good k' /\ k2_lit k' = (digits_val (int ++ f) 0, (- Z.of_nat (length f))%Z) /\
    run_k1 E positive (k1_of int) (pkd (46 :: f ++ r) o d) = wrapF (run_k2 E positive k' (pkd r (o + S (length f)) d)).
Proof using HE HFR.
  intros positive int f r o d Hint Hd Hne Hr Hlen.
  pose proof (int_ok_digs int Hint) as Hdi.
  assert (HL : nval (int ++ f) 0 < 10 ^ N.of_nat (length (int ++ f))).
  { pose proof (nval_lt (int ++ f) 0 (proj2 (digs_app int f) (conj Hdi Hd))) as H. lia. }
  assert (Hlf : (Z.of_nat (length f) < 100000000)%Z) by (rewrite app_length in Hlen; lia).
  unfold k1_of. destruct (N.leb_spec (nval int 0) u64_max) as [Hle|Hgt].
  - destruct (parse_decimal_val positive (nval int 0) f r o (nonempty (46 :: f ++ r)) d Hle Hd Hne Hr Hlf)
      as (k' & Hk' & Hlit & Hrun).
    { exists (length (int ++ f)). split; [exact Hlen|]. rewrite <- nval_app2. exact HL. }
    exists k'. split; [exact Hk'|]. split.
    + rewrite Hlit, digits_val_N, nval_app2. reflexivity.
    + unfold run_k1. rewrite (parse_number_unfold E HE). cbv zeta. cbn [hd].
      change (46 =? 46) with true. cbv iota. unfold pkd at 1. rewrite Hrun. reflexivity.
  - exists (K2l int f). split; [|split].
    + cbn [k2_good]. split; [exact Hdi|]. split; [exact Hd|]. split; [exact Hlf|].
      exists (length (int ++ f)). split; assumption.
    + reflexivity.
    + unfold run_k1. cbv zeta. rewrite rest_pkd. cbn [hd].
      change (46 =? 46) with true. cbv iota. unfold pkd at 1. rewrite discard_mk. cbn [tl].
      rewrite (parse_long_decimal_good E HE positive int [] f r _ _ d Hd Hr Hne). cbn [app].
      replace (S o + length f)%nat with (o + S (length f))%nat by lia. reflexivity.
Qed.

Lemma k1_fin_val : forall positive int r off d, (hd 0 r =? 46) = false -> is_e (hd 0 r) = false ->
  if nval int 0 <=? u64_max then
    run_k1 E positive (k1_of int) (pkd r off d) =
    Ok (if positive then PU64 (nval int 0)
        else if (0 <=? wrap_i64 (- wrap_i64 (Z.of_N (nval int 0))))%Z then PF64 (b64_neg (b64_of_Z (Z.of_N (nval int 0))))
        else PI64 (wrap_i64 (- wrap_i64 (Z.of_N (nval int 0)))), pkd r off d)
  else glp positive (digits_val int 0) 0 (run_k1 E positive (k1_of int) (pkd r off d)) (pkd r off d).
Proof using HE HFR.
  intros positive int r off d H46 He. unfold k1_of. destruct (nval int 0 <=? u64_max).
  - unfold run_k1. rewrite (parse_number_unfold E HE). cbv zeta. rewrite H46, He.
    destruct positive; [reflexivity|]. destruct (0 <=? _)%Z; reflexivity.
  - unfold run_k1. cbv zeta. rewrite rest_pkd, H46, He. apply gl_wrapF.
    pose proof (f64_long_gl positive int [] 0%Z 0%Z (pkd r off d) eq_refl) as H.
    change (strip_trailing_zeros []) with (@nil N) in H. rewrite app_nil_r in H. exact H.
Qed.

End Glue.

(* nat literals this large are opaque applications of Nat.of_num_uint: evaluate through Z *)
Fixpoint zacc (d : Decimal.uint) (acc : Z) : Z :=
  match d with
  | Decimal.Nil => acc
  | Decimal.D0 d => zacc d (10 * acc)
  | Decimal.D1 d => zacc d (10 * acc + 1)
  | Decimal.D2 d => zacc d (10 * acc + 2)
  | Decimal.D3 d => zacc d (10 * acc + 3)
  | Decimal.D4 d => zacc d (10 * acc + 4)
  | Decimal.D5 d => zacc d (10 * acc + 5)
  | Decimal.D6 d => zacc d (10 * acc + 6)
  | Decimal.D7 d => zacc d (10 * acc + 7)
  | Decimal.D8 d => zacc d (10 * acc + 8)
  | Decimal.D9 d => zacc d (10 * acc + 9)
  end%Z.

Lemma of_uint_acc_Z : forall d acc, Z.of_nat (Nat.of_uint_acc d acc) = zacc d (Z.of_nat acc).
Proof.
  induction d as [|d IH|d IH|d IH|d IH|d IH|d IH|d IH|d IH|d IH|d IH]; intros acc; cbn [Nat.of_uint_acc zacc];
    [reflexivity|..]; rewrite IH; f_equal; rewrite ?Nat2Z.inj_succ, Nat.tail_mul_spec, Nat2Z.inj_mul; lia.
Qed.

Lemma big_nat : Z.of_nat 100000000 = 100000000%Z.
Proof. unfold Nat.of_num_uint, Nat.of_uint. rewrite of_uint_acc_Z. reflexivity. Qed.

(* ================= (6) the main theorem =============================================================== *)
Theorem lex_glue : forall (E : env) (n : numlit) (positive : bool) (r : bytes) (o : nat) (p : bool) (d : N),
  tm E = TEof ->
  float_roundtrip (cf E) = true -> arbitrary_precision (cf E) = false ->
  num_ok n = true -> fw n r -> (length (render_abs n) < 100000000)%nat ->
  let '(m0, e0) := lit_value n in
  let s_end := pkd r (o + length (render_abs n)) d in
  if int_syntax n && (m0 <=? Z.of_N u64_max)%Z then
    (* integer literal that fits u64: parse_number's three-way answer *)
    parse_any_number E positive (mkSt (render_abs n ++ r) o p d) =
      Ok (if positive then PU64 (Z.to_N m0)
          else if (0 <=? wrap_i64 (- wrap_i64 m0))%Z then PF64 (b64_neg (b64_of_Z m0))
          else PI64 (wrap_i64 (- wrap_i64 m0)), s_end)
  else
    exists m e, (0 <= m)%Z /\ same_value m e m0 e0 /\
      match glue_float positive m e with
      | Some f => parse_any_number E positive (mkSt (render_abs n ++ r) o p d) = Ok (PF64 f, s_end)
      | None => exists i, parse_any_number E positive (mkSt (render_abs n ++ r) o p d) = Err NumberOutOfRange i
      end.
Proof.
  intros E n positive r o p d HE HFR HAP Hok (Hr & Hfe & Hf46) Hlen.
  apply Nat2Z.inj_lt in Hlen. rewrite big_nat, lit_len in Hlen.
  destruct (num_ok_inv n Hok) as (Hint & Hf & Hx).
  assert (Heq : parse_any_number E positive (mkSt (render_abs n ++ r) o p d)
                = parse_integer E positive (mkSt (render_abs n ++ r) o p d)).
  { unfold parse_any_number. rewrite HAP. reflexivity. }
  unfold lit_value, frac_digits, int_syntax. cbv zeta. rewrite Heq, lit_app, lit_len.
  destruct (nfrac n) as [f|] eqn:Hfr; destruct (nexp n) as [[[e sg] ds]|] eqn:Hex; cbn [frac_wf exp_wf] in Hf, Hx;
    cbn [fracl expl app andb length] in *.
  - (* fraction and exponent *)
    destruct Hf as (Hfd & Hfne). destruct Hx as (He & Hsg & c1 & ds' & -> & Hc1 & Hd').
    rewrite <- app_assoc. cbn [app].
    assert (Hb : (Z.of_nat (length (nint n ++ f)) < 100000000)%Z) by (rewrite app_length; lia).
    destruct (k1_dec_val E HE HFR positive (nint n) f (e :: sgl sg ++ c1 :: ds' ++ r) (o + length (nint n)) d Hint Hfd Hfne (nd_e e _ He) Hb)
      as (k' & Hk' & Hlit & Hrun2).
    destruct (k2_facts k' Hk') as (H0 & _ & _ & _ & _ & Hsame).
    exists (fst (k2_wit k')), (snd (k2_wit k') + exp_value (Some (e, sg, c1 :: ds')))%Z.
    split; [exact H0|]. split.
    + specialize (Hsame (exp_value (Some (e, sg, c1 :: ds')))). rewrite Hlit in Hsame. cbn [fst snd] in Hsame.
      replace (exp_value (Some (e, sg, c1 :: ds')) - Z.of_nat (length f))%Z
        with (- Z.of_nat (length f) + exp_value (Some (e, sg, c1 :: ds')))%Z by lia.
      exact Hsame.
    + rewrite (parse_integer_val E HE HFR positive (nint n) _ o p d Hint (nd_dot _)), Hrun2.
      eapply glp_st; [apply gl_wrapF, (k2_exp_val E HE HFR); assumption|].
      apply pkd_off. rewrite !app_length. cbn [length]. lia.
  - (* fraction, no exponent *)
    destruct Hf as (Hfd & Hfne). specialize (Hfe eq_refl).
    assert (Hb : (Z.of_nat (length (nint n ++ f)) < 100000000)%Z) by (rewrite app_length; lia).
    destruct (k1_dec_val E HE HFR positive (nint n) f r (o + length (nint n)) d Hint Hfd Hfne Hr Hb) as (k' & Hk' & Hlit & Hrun2).
    destruct (k2_facts k' Hk') as (H0 & _ & _ & _ & _ & Hsame).
    exists (fst (k2_wit k')), (snd (k2_wit k')).
    split; [exact H0|]. split.
    + specialize (Hsame 0%Z). rewrite Hlit, !Z.add_0_r in Hsame. cbn [fst snd] in Hsame. cbn [exp_value].
      replace (0 - Z.of_nat (length f))%Z with (- Z.of_nat (length f))%Z by lia. exact Hsame.
    + rewrite (parse_integer_val E HE HFR positive (nint n) _ o p d Hint (nd_dot _)), Hrun2.
      eapply glp_st; [apply gl_wrapF, (k2_fin_val E HE HFR); assumption|].
      apply pkd_off. lia.
  - (* exponent, no fraction *)
    destruct Hx as (He & Hsg & c1 & ds' & -> & Hc1 & Hd').
    rewrite <- app_assoc. cbn [app].
    assert (Hb : (Z.of_nat (length (nint n)) < 100000000)%Z) by lia.
    destruct (k1_nofrac (nint n) Hint Hb) as (Hk' & Hlit).
    destruct (k2_facts _ Hk') as (H0 & _ & _ & _ & _ & Hsame).
    exists (fst (k2_wit (k2_of (k1_of (nint n))))), (snd (k2_wit (k2_of (k1_of (nint n)))) + exp_value (Some (e, sg, c1 :: ds')))%Z.
    split; [exact H0|]. split.
    + specialize (Hsame (exp_value (Some (e, sg, c1 :: ds')))). rewrite Hlit in Hsame. cbn [fst snd] in Hsame.
      rewrite app_nil_r. replace (exp_value (Some (e, sg, c1 :: ds')) - Z.of_nat 0)%Z
        with (0 + exp_value (Some (e, sg, c1 :: ds')))%Z by lia.
      exact Hsame.
    + rewrite (parse_integer_val E HE HFR positive (nint n) _ o p d Hint (nd_e e _ He)).
      rewrite (k1_exp E HE) by (cbn [hd]; exact He).
      eapply glp_st; [apply gl_wrapF, (k2_exp_val E HE HFR); assumption|].
      apply pkd_off. rewrite !app_length. cbn [length]. lia.
  - (* integer syntax *)
    specialize (Hfe eq_refl). specialize (Hf46 eq_refl eq_refl).
    rewrite app_nil_r, digits_val_N.
    rewrite (parse_integer_val E HE HFR positive (nint n) _ o p d Hint Hr).
    pose proof (k1_fin_val E HE HFR positive (nint n) r (o + length (nint n)) d Hf46 Hfe) as Hfin.
    replace (length (nint n) + (0 + 0))%nat with (length (nint n)) by lia.
    destruct (N.leb_spec (nval (nint n) 0) u64_max) as [Hle|Hgt].
    + destruct (Z.leb_spec (Z.of_N (nval (nint n) 0)) (Z.of_N u64_max)) as [_|Hc]; [|lia].
      rewrite N2Z.id. exact Hfin.
    + destruct (Z.leb_spec (Z.of_N (nval (nint n) 0)) (Z.of_N u64_max)) as [Hc|_]; [lia|].
      exists (Z.of_N (nval (nint n) 0)), 0%Z. split; [lia|]. split.
      * cbn [exp_value]. apply same_value_refl.
      * rewrite digits_val_N in Hfin. exact Hfin.
Qed.

(* Without [tm E = TEof] the statement fails: a reader whose end reports an I/O error makes the peek after the
   last digit fail (literal "1", nothing after it). *)
Example lex_glue_needs_TEof : exists i,
  parse_any_number (mkEnv RSlice (TFail 7) (mkCfg false true false false)) true (mkSt [49] 0 false 128) = Err (Io 7) i.
Proof. eexists. vm_compute. reflexivity. Qed.

Print Assumptions lex_glue.
